import subprocess,sys,re,os
COQDIR=os.environ.get('COQDIR','/verif/coq')
# usage: gen_props.py Module name1 name2 ...
mod=sys.argv[1]; names=sys.argv[2:]
src="From H2T Require Import Base Tagged Wrap Sub Css Dom Render Api CssParse Proofs.CssTotal Proofs.WrapInv Proofs.RenderWidth Proofs.Conserve Proofs.Footnotes Proofs.AnnBalance Proofs.RenderConserve Proofs.OptionRel Proofs.Compose Proofs.RenderTotal Proofs.FragStream Proofs.SimRel Proofs.Prune Proofs.%s.\nSet Printing Width 110.\nSet Printing Depth 1000.\n"%mod
for n in names: src+="Check %s.%s.\n"%(mod,n)
open('/tmp/chk.v','w').write(src)
out=subprocess.run("cd %s && coqtop -Q . H2T -quiet < /tmp/chk.v 2>&1"%COQDIR,shell=True,capture_output=True,text=True).stdout
# split on "Mod.name\n     : type"
res={}
for n in names:
    m=re.search(r'%s\.%s\s*\n\s*:\s(.*?)(?=\n\S|\nCoq <|\Z)'%(re.escape(mod),re.escape(n)),out,re.S)
    if not m:
        m=re.search(r'(?<![\w.])%s\s*\n\s*:\s(.*?)(?=\n\S|\nCoq <|\Z)'%(re.escape(n)),out,re.S)
    res[n]=m.group(1).strip() if m else None
for n in names:
    if res[n] is None: print("(* MISSING %s *)"%n); continue
    print("Theorem %s :\n  %s.\nProof. exact %s.%s. Qed.\nPrint Assumptions %s.\n"%(n,res[n],mod,n,n))
