#!/usr/bin/env python3
"""bin/mk_seed_prompts.py <round> <root>: write <root>/<id>.prompt for a new round of seeded changes;
each prompt contains only the property text and a one-line summary of the earlier seeded changes for
that property (so that a new mechanism is chosen) - nothing else from /verif."""
import json, sys, os, re, subprocess
rnd, root = sys.argv[1], sys.argv[2]
V = '/verif'
props = [json.loads(l) for l in open(V + '/properties.jsonl')]
tmpl = open(V + '/seeded/r5/prompts/C05.prompt').read()
# generic parts of the template: everything but the property block and the NOTE
head, rest = tmpl.split('The library is supposed to satisfy this property:\n\n', 1)
_, rest = rest.split('YOUR TASK:', 1)
task, rest = rest.split('NOTE: ', 1)
_, tail = rest.split(' Choose a mechanism DIFFERENT from all four.', 1)
words = {1: 'one other engineer has', 2: 'two', 3: 'three', 4: 'four', 5: 'five', 6: 'six', 7: 'seven', 8: 'eight', 9: 'nine'}
for p in props:
    pid = p['id']; lc = pid.lower()
    earlier = []
    for d in ['seeded', 'seeded/r2', 'seeded/r3', 'seeded/r4', 'seeded/r5', 'seeded/r6', 'seeded/r7', 'seeded/r8', 'seeded/r9']:
        mp = '%s/%s/%s/meta.json' % (V, d, pid)
        pp = '%s/%s/%s/patch.diff' % (V, d, pid)
        if os.path.exists(mp) and os.path.exists(pp):
            m = json.load(open(mp))
            files = sorted(set(re.findall(r'^\+\+\+ b/(\S+)', open(pp).read(), flags=re.M)))
            earlier.append('(%d) %s: "%s..."' % (len(earlier) + 1, ', '.join(files), str(m.get('what_breaks', ''))[:150]))
    n = len(earlier)
    note = 'NOTE: %s other engineers have already produced changes for this property: %s Choose a mechanism DIFFERENT from all %s.' % (words.get(n, str(n)), ' '.join(earlier), words.get(n, str(n)))
    body = (head + 'The library is supposed to satisfy this property:\n\n' + '%s: %s\n\nStatement: %s\n\nQuantifier: %s\n\n' % (pid, p['title'], p['statement'], p['quantifier']['text'])
            + 'YOUR TASK:' + task + note + tail)
    body = body.replace('/tmp/mut5/C05', '%s/%s' % (root, pid)).replace('demo_c05', 'demo_' + lc).replace('"property": "C05"', '"property": "%s"' % pid)
    open('%s/%s.prompt' % (root, pid), 'w').write(body)
print('wrote', len(props), 'prompts to', root)
