(* Api.v -- config::Config, RenderTree::render_with_context and the public routes
   (lib.rs:2382-2835). *)
From H2T Require Import Base Tagged Wrap Sub Css Dom Render.

Record config := mkcfg {
  c_deco : deco;
  c_max_wrap : option N;
  c_sd : styledata;
  c_use_doc_css : bool;
  c_pad : bool;
  c_overflow : bool;
  c_min_wrap : N;
  c_raw : bool;
  c_borders : bool;
  c_wrap_links : bool;
  c_footnotes : bool;
  c_strike : bool
}.

Definition with_decorator (d : deco) : config :=
  mkcfg d None styledata0 false false false 3 false true true false true.

Definition surround_rule (element : list N) (after : bool) (content : list N) : ruleset :=
  mkrs (mksel [CElement (of_ascii element)] (Some (if after then PAfter else PBefore)))
       [mksd (SContent (of_ascii content)) false].

Definition s_em := [101;109].
Definition s_dt := [100;116].
Definition s_strong := [115;116;114;111;110;103].
Definition s_code := [99;111;100;101].

Definition do_decorate (c : config) : config :=
  let sd := c_sd c in
  let extra := [surround_rule s_em false [42]; surround_rule s_em true [42];
                surround_rule s_dt false [42]; surround_rule s_dt true [42];
                surround_rule s_strong false [42;42]; surround_rule s_strong true [42;42];
                surround_rule s_code false [96]; surround_rule s_code true [96]] in
  mkcfg (c_deco c) (c_max_wrap c)
        (mkstd (agent_rules sd ++ extra) (user_rules sd) (author_rules sd))
        (c_use_doc_css c) (c_pad c) (c_overflow c) (c_min_wrap c) (c_raw c) (c_borders c)
        (c_wrap_links c) (c_footnotes c) (c_strike c).

Definition set_footnotes (c : config) (b : bool) : config :=
  mkcfg (c_deco c) (c_max_wrap c) (c_sd c) (c_use_doc_css c) (c_pad c) (c_overflow c)
        (c_min_wrap c) (c_raw c) (c_borders c) (c_wrap_links c) b (c_strike c).
Definition set_max_wrap (c : config) (w : N) : config :=
  mkcfg (c_deco c) (Some w) (c_sd c) (c_use_doc_css c) (c_pad c) (c_overflow c)
        (c_min_wrap c) (c_raw c) (c_borders c) (c_wrap_links c) (c_footnotes c) (c_strike c).
Definition set_pad (c : config) : config :=
  mkcfg (c_deco c) (c_max_wrap c) (c_sd c) (c_use_doc_css c) true (c_overflow c)
        (c_min_wrap c) (c_raw c) (c_borders c) (c_wrap_links c) (c_footnotes c) (c_strike c).
Definition set_overflow (c : config) : config :=
  mkcfg (c_deco c) (c_max_wrap c) (c_sd c) (c_use_doc_css c) (c_pad c) true
        (c_min_wrap c) (c_raw c) (c_borders c) (c_wrap_links c) (c_footnotes c) (c_strike c).
Definition set_min_wrap (c : config) (w : N) : config :=
  mkcfg (c_deco c) (c_max_wrap c) (c_sd c) (c_use_doc_css c) (c_pad c) (c_overflow c)
        w (c_raw c) (c_borders c) (c_wrap_links c) (c_footnotes c) (c_strike c).
Definition set_raw (c : config) (raw : bool) : config :=
  mkcfg (c_deco c) (c_max_wrap c) (c_sd c) (c_use_doc_css c) (c_pad c) (c_overflow c)
        (c_min_wrap c) raw false (c_wrap_links c) (c_footnotes c) (c_strike c).
Definition set_no_borders (c : config) : config :=
  mkcfg (c_deco c) (c_max_wrap c) (c_sd c) (c_use_doc_css c) (c_pad c) (c_overflow c)
        (c_min_wrap c) (c_raw c) false (c_wrap_links c) (c_footnotes c) (c_strike c).
Definition set_no_link_wrap (c : config) : config :=
  mkcfg (c_deco c) (c_max_wrap c) (c_sd c) (c_use_doc_css c) (c_pad c) (c_overflow c)
        (c_min_wrap c) (c_raw c) (c_borders c) false (c_footnotes c) (c_strike c).
Definition set_strike (c : config) (b : bool) : config :=
  mkcfg (c_deco c) (c_max_wrap c) (c_sd c) (c_use_doc_css c) (c_pad c) (c_overflow c)
        (c_min_wrap c) (c_raw c) (c_borders c) (c_wrap_links c) (c_footnotes c) b.
Definition set_doc_css (c : config) : config :=
  mkcfg (c_deco c) (c_max_wrap c) (c_sd c) true (c_pad c) (c_overflow c)
        (c_min_wrap c) (c_raw c) (c_borders c) (c_wrap_links c) (c_footnotes c) (c_strike c).
Definition set_sd (c : config) (sd : styledata) : config :=
  mkcfg (c_deco c) (c_max_wrap c) sd (c_use_doc_css c) (c_pad c) (c_overflow c)
        (c_min_wrap c) (c_raw c) (c_borders c) (c_wrap_links c) (c_footnotes c) (c_strike c).

Definition cfg_plain : config := set_footnotes (do_decorate (with_decorator plain_deco)) true.
Definition cfg_plain_no_decorate : config := with_decorator plain_deco.
Definition cfg_rich : config := with_decorator rich_deco.
Definition cfg_trivial : config := with_decorator trivial_deco.

Definition render_options (c : config) : ropts :=
  mkopts (c_max_wrap c) (c_overflow c) (c_pad c) (c_raw c) (c_borders c) (c_wrap_links c)
         (c_footnotes c) (c_strike c).

Section Routes.
  (* the CSS front end (CssParse): inline attribute declarations and the author rules
     of the document's <style> elements *)
  Variable inline_styles : list (text * text) -> res (list styledecl).
  Variable doc_rules : list node -> res (list ruleset).

  Definition effective_sd (c : config) (doc : list node) : res styledata :=
    if c_use_doc_css c
    then do ar <- doc_rules doc;
         Ok (mkstd (agent_rules (c_sd c)) (user_rules (c_sd c)) (ar ++ author_rules (c_sd c)))
    else Ok (c_sd c).

  Definition to_render_tree (c : config) (doc : list node) : res rnode :=
    do sd <- effective_sd c doc;
    dom_to_render_tree sd (c_use_doc_css c) inline_styles doc.

  (* RenderTree::render_with_context *)
  Definition render_with_context (c : config) (tree : rnode) (width : N) : res subr :=
    if width =? 0 then TooNarrow
    else render_tree (c_deco c) (c_min_wrap c) (render_options c) width tree.

  Definition lines_from_read (c : config) (doc : list node) (width : N) : res (list tline) :=
    do tree <- to_render_tree c doc;
    do s <- render_with_context c tree width;
    do ls <- sub_into_lines s;
    Ok (map rline_into_tagged ls).

  Definition string_from_read (c : config) (doc : list node) (width : N) : res text :=
    do tree <- to_render_tree c doc;
    do s <- render_with_context c tree width;
    sub_into_string s.
End Routes.
