(* Base.v -- outcomes, characters, text, widths, decimal printing.
   Model file: definitions only (proofs live in *Proofs.v). *)
From Coq Require Export List NArith ZArith Bool.
Export ListNotations.
Open Scope N_scope.

(* ------------------------------------------------------------------ *)
(* Outcomes.  Rust `?` on Result<_,TooNarrow> = TooNarrow; a Rust panic
   (overflow check, unwrap, index, debug_assert) = Panic site; a loop
   that ran out of model fuel = OutOfFuel. *)
Inductive res (A : Type) : Type :=
| Ok (a : A)
| TooNarrow
| Panic (site : N)
| OutOfFuel.
Arguments Ok {A} a.
Arguments TooNarrow {A}.
Arguments Panic {A} site.
Arguments OutOfFuel {A}.

Definition bind {A B} (r : res A) (f : A -> res B) : res B :=
  match r with
  | Ok a => f a
  | TooNarrow => TooNarrow
  | Panic s => Panic s
  | OutOfFuel => OutOfFuel
  end.
Notation "'do' x <- e ; k" := (bind e (fun x => k))
  (at level 200, x pattern, e at level 100, k at level 200, right associativity).

(* Panic sites (symbolic labels of the Rust expressions):
   1  flush_word: self.width - self.line.len          (text_renderer.rs flush_word)
   2  flush_word: spacetag.take().unwrap()
   3  flush_word_hard_wrap: self.width - self.line.len
   4  flush_word_hard_wrap: UnicodeWidthChar::width(c).unwrap()
   5  flush_word_hard_wrap: lineleft -= w
   6  flush_word: spacetag.as_ref().unwrap() in the whitespace loop
   7  flush_word: self.wslen -= space_in_line (guarded, unreachable)
   10 pop_preformat debug_assert
   11 end_strikeout expect
   12 TextRenderer stack underflow
   20 Header: debug_assert prefix.len()==prefix_size
   21 BlockQuote: debug_assert / min_width - prefix.len()
   22 Ul: min_width - prefix_len
   23 Ol: min_width - prefix_size
   24 Dd: min_width - 2
   25 Ol: start + n - 1 overflow (i64)
   26 Ol: i + 1 overflow (i64)
   30 table: colspan arithmetic overflow (usize)
   31 table: index out of bounds / slice
   32 table: colmap unwrap
   33 table: division by zero (colspan 0)
   34 table: shrink loop 0 - 1
   35 table: cell.col_width.unwrap / col_sizes.unwrap
   36 append_columns: line_sets.len() - 1 on empty
   37 append_columns: no previous line / unreachable
   38 table: usize::MAX / width with width 0
   40 TaggedLine::width debug_assert_eq(len, recomputed)
   50 css: nth-child integer parse unwrap
   51 css: idx - b overflow (i32)
   52 css: other unwrap
   60 unimplemented!/unreachable! node kinds
*)

Definition usub (site : N) (a b : N) : res N :=
  if b <=? a then Ok (a - b) else Panic site.

Definition usize_max : N := 18446744073709551615.
Definition uadd (site : N) (a b : N) : res N :=
  if a + b <=? usize_max then Ok (a + b) else Panic site.

Definition i64_min : Z := (-9223372036854775808)%Z.
Definition i64_max : Z := 9223372036854775807%Z.
Definition i64_ok (z : Z) : bool := ((i64_min <=? z) && (z <=? i64_max))%Z.
Definition isat64 (z : Z) : Z := Z.max i64_min (Z.min i64_max z).
Definition iadd64 (site : N) (a b : Z) : res Z :=
  if i64_ok (a + b)%Z then Ok (a + b)%Z else Panic site.

(* ------------------------------------------------------------------ *)
(* Characters.  cw = UnicodeWidthChar::width (None for control chars),
   ws = char::is_whitespace, both supplied by the harness from the real
   crates for document characters; lab = provenance label (0 for characters
   the renderer makes itself; document characters are numbered from 16). *)
Record chr : Type := mkchr { cp : N; cw : option N; ws : bool; lab : N }.

Definition text := list chr.

Definition cw0 (c : chr) : N := match cw c with Some n => n | None => 0 end.

Fixpoint swidth (t : text) : N :=
  match t with [] => 0 | c :: t' => cw0 c + swidth t' end.

Definition mk (code w : N) : chr := mkchr code (Some w) false 0.
Definition mkl (code w l : N) : chr := mkchr code (Some w) false l.
Definition space : chr := mkchr 32 (Some 1) true 0.
Definition spacel (l : N) : chr := mkchr 32 (Some 1) true l.

(* kinds of made characters (labels 1..15) *)
Definition L_space : N := 1.   (* collapsed inter-word space / pre whitespace *)
Definition L_pad : N := 2.     (* padding *)
Definition L_prefix : N := 3.  (* list/quote/heading prefix, indentation *)
Definition L_border : N := 4.  (* table border *)
Definition L_deco : N := 5.    (* decorator affix, pseudo-element content *)
Definition L_foot : N := 6.    (* footnote reference / list *)
Definition L_strike : N := 7.  (* U+0336 *)
Definition L_sup : N := 8.     (* superscript digit replacing a document digit *)

Fixpoint repeat_chr (c : chr) (n : nat) : text :=
  match n with O => [] | S n' => c :: repeat_chr c n' end.
Definition spaces (n : N) : text := repeat_chr space (N.to_nat n).
Definition spacesl (l n : N) : text := repeat_chr (spacel l) (N.to_nat n).

Definition cps (t : text) : list N := map cp t.

Fixpoint lN_eqb (a b : list N) : bool :=
  match a, b with
  | [], [] => true
  | x :: a', y :: b' => (x =? y) && lN_eqb a' b'
  | _, _ => false
  end.
Definition text_eqb (a b : text) : bool := lN_eqb (cps a) (cps b).

Definition of_ascii (l : list N) : text := map (fun c => mk c 1) l.
Definition of_asciil (lb : N) (l : list N) : text := map (fun c => mkl c 1 lb) l.
Definition relabel (lb : N) (t : text) : text :=
  map (fun c => mkchr (cp c) (cw c) (ws c) lb) t.
Definition is_ascii_str (t : text) (l : list N) : bool := lN_eqb (cps t) l.

Definition all_ws (t : text) : bool := forallb ws t.

Fixpoint drop_ws (t : text) : text :=
  match t with
  | [] => []
  | c :: t' => if ws c then drop_ws t' else t
  end.
Definition trim (t : text) : text := rev (drop_ws (rev (drop_ws t))).

Definition utf8_len1 (c : N) : N :=
  if c <? 128 then 1 else if c <? 2048 then 2 else if c <? 65536 then 3 else 4.
Fixpoint utf8_len (t : text) : N :=
  match t with [] => 0 | c :: t' => utf8_len1 (cp c) + utf8_len t' end.

Definition tlen (t : text) : N := N.of_nat (length t).

(* ------------------------------------------------------------------ *)
(* Decimal printing: format!("{}", i64 / usize). *)
Fixpoint dec_pos_fuel (fuel : nat) (n : N) (acc : list N) : list N :=
  match fuel with
  | O => acc
  | S f =>
    let d := 48 + n mod 10 in
    let q := n / 10 in
    if q =? 0 then d :: acc else dec_pos_fuel f q (d :: acc)
  end.
Definition dec_N (n : N) : list N := dec_pos_fuel (S (N.to_nat (N.log2 n))) n [].
Definition dec_Z (z : Z) : list N :=
  match z with
  | Z0 => [48]
  | Zpos p => dec_N (Npos p)
  | Zneg p => 45 :: dec_N (Npos p)
  end.

(* ------------------------------------------------------------------ *)
(* Generic list helpers *)
Fixpoint nth_opt {A} (l : list A) (n : nat) : option A :=
  match l, n with
  | [], _ => None
  | x :: _, O => Some x
  | _ :: l', S n' => nth_opt l' n'
  end.

Fixpoint sumN (l : list N) : N :=
  match l with [] => 0 | x :: l' => x + sumN l' end.

Fixpoint maxN (l : list N) : N :=
  match l with [] => 0 | x :: l' => N.max x (maxN l') end.

Definition olast {A} (l : list A) : option A :=
  match rev l with [] => None | x :: _ => Some x end.
