(* Css.v -- selectors, specificity, WithSpec cascade cell, ComputedStyle,
   StyleData::computed_style (css.rs:24-208, 456-599; lib.rs:134-298). *)
From H2T Require Import Base Tagged Wrap.

Inductive comp :=
| CClass (c : text)
| CElement (n : text)
| CHash (h : text)
| CStar
| CCombChild
| CCombDescendant
| CNthChild (a b : Z).          (* sel is always [Star] (parser.rs parse_nth_child_args) *)

Inductive pseudo := PBefore | PAfter.

Record selector := mksel { comps : list comp; pseudo_el : option pseudo }.

(* An element as seen by the matcher: local name, attributes, 1-based index among
   its parent's element children.  A position is the element followed by its
   ancestors (nearest first); [] is the Document node. *)
Record anc := mkanc { a_name : text; a_attrs : list (text * text); a_idx : Z }.

Definition attr_is (k : text) (l : list N) : bool := is_ascii_str k l.
Definition s_class : list N := [99;108;97;115;115].
Definition s_id : list N := [105;100].

(* str::split_whitespace *)
Fixpoint split_ws_aux (t : text) (cur : text) : list text :=
  match t with
  | [] => match cur with [] => [] | _ => [rev cur] end
  | c :: t' =>
    if ws c then match cur with [] => split_ws_aux t' [] | _ => rev cur :: split_ws_aux t' [] end
    else split_ws_aux t' (c :: cur)
  end.
Definition split_whitespace (t : text) : list text := split_ws_aux t [].

Definition has_class (a : anc) (cls : text) : bool :=
  existsb (fun kv => attr_is (fst kv) s_class &&
                     existsb (fun w => text_eqb w cls) (split_whitespace (snd kv)))
          (a_attrs a).
Definition has_id (a : anc) (h : text) : bool :=
  existsb (fun kv => attr_is (fst kv) s_id && text_eqb (snd kv) h) (a_attrs a).

(* idx = a*n + b for some n >= 0, computed as the code does (64-bit arithmetic, Rust's
   truncating % and /) *)
Definition nth_test (a b idx : Z) : bool :=
  let off := (idx - b)%Z in
  if (a =? 0)%Z then (off =? 0)%Z else
  if negb (Z.rem off a =? 0)%Z then false else
  (0 <=? Z.quot off a)%Z.

Fixpoint do_matches (cs : list comp) : list anc -> bool :=
  match cs with
  | [] => fun _ => true
  | c :: rest =>
    let mrest := do_matches rest in
    match c with
    | CClass cls => fun p =>
      match p with [] => false | a :: _ => has_class a cls && mrest p end
    | CHash h => fun p =>
      match p with [] => false | a :: _ => has_id a h && mrest p end
    | CElement n => fun p =>
      match p with [] => false | a :: _ => text_eqb (a_name a) n && mrest p end
    | CStar => fun p => match p with [] => false | _ :: _ => mrest p end
    | CCombChild => fun p =>
      match p with [] => false | _ :: p' => mrest p' end
    | CCombDescendant =>
      fix desc (p : list anc) : bool :=
        match p with
        | [] => false
        | _ :: p' => mrest p' || desc p'
        end
    | CNthChild a b => fun p =>
      match p with
      | [] => false
      | e :: _ => nth_test a b (a_idx e) && mrest p
      end
    end
  end.

Definition sel_matches (s : selector) (p : list anc) : bool := do_matches (comps s) p.

(* ---------- specificity and the cascade cell ---------- *)
Record spec := mkspec { sp_inline : bool; sp_id : N; sp_class : N; sp_typ : N }.
Definition spec0 : spec := mkspec false 0 0 0.
Definition spec_inline : spec := mkspec true 0 0 0.

Fixpoint specificity_of (cs : list comp) (acc : spec) : spec :=
  match cs with
  | [] => acc
  | c :: cs' =>
    specificity_of cs'
      (match c with
       | CClass _ => mkspec (sp_inline acc) (sp_id acc) (sp_class acc + 1) (sp_typ acc)
       | CElement _ => mkspec (sp_inline acc) (sp_id acc) (sp_class acc) (sp_typ acc + 1)
       | CHash _ => mkspec (sp_inline acc) (sp_id acc + 1) (sp_class acc) (sp_typ acc)
       | CNthChild _ _ => mkspec (sp_inline acc) (sp_id acc) (sp_class acc + 1) (sp_typ acc)
       | _ => acc
       end)
  end.
Definition specificity (s : selector) : spec := specificity_of (comps s) spec0.

(* derived PartialOrd on Specificity: lexicographic (inline, id, class, typ) *)
Definition spec_lt (a b : spec) : bool :=
  match sp_inline a, sp_inline b with
  | false, true => true
  | true, false => false
  | _, _ =>
    if sp_id a <? sp_id b then true else if sp_id b <? sp_id a then false else
    if sp_class a <? sp_class b then true else if sp_class b <? sp_class a then false else
    sp_typ a <? sp_typ b
  end.

Inductive origin := ONone | OAgent | OUser | OAuthor.
Definition origin_rank (o : origin) : N :=
  match o with ONone => 0 | OAgent => 1 | OUser => 2 | OAuthor => 3 end.

Record withspec (A : Type) := mkws {
  ws_val : option A; ws_origin : origin; ws_spec : spec; ws_important : bool }.
Arguments mkws {A}. Arguments ws_val {A}. Arguments ws_origin {A}.
Arguments ws_spec {A}. Arguments ws_important {A}.
Definition ws_default {A} : withspec A := mkws None ONone spec0 false.

(* WithSpec::maybe_update, branch for branch (lib.rs:213-249, after the cascade fix) *)
Definition maybe_update {A} (w : withspec A) (important : bool) (o : origin) (sp : spec) (v : A)
  : withspec A :=
  let upd := mkws (Some v) o sp important in
  match ws_val w with
  | None => upd
  | Some _ =>
    if negb (Bool.eqb (ws_important w) important)
    then (if ws_important w then w else upd)
    else if negb (origin_rank (ws_origin w) =? origin_rank o)
    then (if (if important
              then origin_rank (ws_origin w) <? origin_rank o
              else origin_rank o <? origin_rank (ws_origin w))
          then w else upd)
    else if spec_lt sp (ws_spec w) then w else upd
  end.

(* ---------- styles ---------- *)
Inductive style :=
| SColour (r g b : N)
| SBgColour (r g b : N)
| SDisplay (none : bool)       (* display: none / any other value *)
| SWhiteSpace (m : wsmode)
| SContent (t : text).

Record styledecl := mksd { sd_style : style; sd_important : bool }.
Record ruleset := mkrs { rs_sel : selector; rs_styles : list styledecl }.
Record styledata := mkstd {
  agent_rules : list ruleset; user_rules : list ruleset; author_rules : list ruleset }.
Definition styledata0 : styledata := mkstd [] [] [].

Record cscore := mkcore {
  c_colour : withspec (N * N * N);
  c_bg : withspec (N * N * N);
  c_display : withspec bool;          (* Some true = display:none, Some false = another value *)
  c_white_space : withspec wsmode;
  c_content : withspec text
}.
Definition core0 : cscore := mkcore ws_default ws_default ws_default ws_default ws_default.

Record cstyle := mkcs {
  cs_core : cscore;
  cs_before : option cscore;
  cs_after : option cscore;
  cs_internal_pre : bool
}.
Definition cstyle0 : cstyle := mkcs core0 None None false.

Definition merge_core (c : cscore) (important : bool) (o : origin) (sp : spec) (st : style)
  : cscore :=
  match st with
  | SColour r g b =>
    mkcore (maybe_update (c_colour c) important o sp (r, g, b)) (c_bg c) (c_display c)
           (c_white_space c) (c_content c)
  | SBgColour r g b =>
    mkcore (c_colour c) (maybe_update (c_bg c) important o sp (r, g, b)) (c_display c)
           (c_white_space c) (c_content c)
  | SDisplay b =>
    mkcore (c_colour c) (c_bg c) (maybe_update (c_display c) important o sp b)
           (c_white_space c) (c_content c)
  | SWhiteSpace m =>
    mkcore (c_colour c) (c_bg c) (c_display c)
           (maybe_update (c_white_space c) important o sp m) (c_content c)
  | SContent t =>
    mkcore (c_colour c) (c_bg c) (c_display c) (c_white_space c)
           (maybe_update (c_content c) important o sp t)
  end.

Definition merge_computed_style (cs : cstyle) (important : bool) (o : origin) (sp : spec)
           (ps : option pseudo) (st : style) : cstyle :=
  match ps with
  | None => mkcs (merge_core (cs_core cs) important o sp st) (cs_before cs) (cs_after cs)
                 (cs_internal_pre cs)
  | Some PBefore =>
    let c := match cs_before cs with Some c => c | None => core0 end in
    mkcs (cs_core cs) (Some (merge_core c important o sp st)) (cs_after cs) (cs_internal_pre cs)
  | Some PAfter =>
    let c := match cs_after cs with Some c => c | None => core0 end in
    mkcs (cs_core cs) (cs_before cs) (Some (merge_core c important o sp st)) (cs_internal_pre cs)
  end.

Fixpoint apply_rules (o : origin) (rules : list ruleset) (p : list anc) (cs : cstyle) : cstyle :=
  match rules with
  | [] => cs
  | r :: rules' =>
    let cs' :=
        if sel_matches (rs_sel r) p then
          fold_left (fun acc sd =>
                       merge_computed_style acc (sd_important sd) o (specificity (rs_sel r))
                                            (pseudo_el (rs_sel r)) (sd_style sd))
                    (rs_styles r) cs
        else cs in
    apply_rules o rules' p cs'
  end.

(* the inline declarations of an element (style / color / bgcolor attributes, in
   attribute order), already parsed: supplied by CssParse *)
Definition computed_style (sd : styledata) (p : list anc) (inline : list styledecl) : cstyle :=
  let c1 := apply_rules OAgent (agent_rules sd) p cstyle0 in
  let c2 := apply_rules OUser (user_rules sd) p c1 in
  let c3 := apply_rules OAuthor (author_rules sd) p c2 in
  fold_left (fun acc st => merge_computed_style acc (sd_important st) OAuthor spec_inline None
                                                (sd_style st))
            inline c3.
