(* CssParse.v -- transcription of src/css/parser.rs (nom 7 combinators) and of the
   stylesheet glue in src/css.rs (styles_from_properties, do_add_css, dom_to_stylesheet,
   inline style attributes).  Only the code point of a character matters for parsing;
   the harness-supplied cw/ws travel with the characters of content strings. *)
From H2T Require Import Base Tagged Wrap Css Dom.

(* parser results: POk value rest | PFail (nom Err::Error) | PPanic | PFuel *)
Inductive pr (A : Type) := POk (a : A) (rest : text) | PFail | PPanic (site : N) | PFuel.
Arguments POk {A}. Arguments PFail {A}. Arguments PPanic {A}. Arguments PFuel {A}.

Definition pbind {A B} (r : pr A) (f : A -> text -> pr B) : pr B :=
  match r with
  | POk a rest => f a rest
  | PFail => PFail
  | PPanic s => PPanic s
  | PFuel => PFuel
  end.
Notation "'pdo' ( x , r ) <- e ; k" := (pbind e (fun x r => k))
  (at level 200, x pattern, r pattern, e at level 100, k at level 200, right associativity).

Definition pmap {A B} (f : A -> B) (r : pr A) : pr B :=
  match r with POk a rest => POk (f a) rest | PFail => PFail | PPanic s => PPanic s | PFuel => PFuel end.

(* alt: try q when p fails recoverably *)
Definition palt {A} (p : pr A) (q : unit -> pr A) : pr A :=
  match p with PFail => q tt | other => other end.
Definition popt {A} (p : pr A) (t : text) : pr (option A) :=
  match p with
  | POk a rest => POk (Some a) rest
  | PFail => POk None t
  | PPanic s => PPanic s
  | PFuel => PFuel
  end.

(* tag *)
Fixpoint ptag (lit : list N) (t : text) : pr unit :=
  match lit with
  | [] => POk tt t
  | x :: lit' => match t with
                 | c :: t' => if cp c =? x then ptag lit' t' else PFail
                 | [] => PFail
                 end
  end.
Definition starts_with (lit : list N) (t : text) : option text :=
  match ptag lit t with POk _ r => Some r | _ => None end.

(* many0 / many1 with nom's no-progress error; fuel = input length + 1 *)
Fixpoint many0_f {A} (fuel : nat) (p : text -> pr A) (t : text) (acc : list A) : pr (list A) :=
  match fuel with
  | O => PFuel
  | S f =>
    match p t with
    | PFail => POk (rev acc) t
    | PPanic s => PPanic s
    | PFuel => PFuel
    | POk a rest =>
      if Nat.eqb (length rest) (length t) then PFail
      else many0_f f p rest (a :: acc)
    end
  end.
Definition many0 {A} (p : text -> pr A) (t : text) : pr (list A) := many0_f (S (length t)) p t [].
Definition many1 {A} (p : text -> pr A) (t : text) : pr (list A) :=
  match p t with
  | PFail => PFail
  | PPanic s => PPanic s
  | PFuel => PFuel
  | POk a rest => many0_f (S (length rest)) p rest [a]
  end.

(* separated_list0 *)
Fixpoint sep_list_f {A B} (fuel : nat) (sep : text -> pr B) (p : text -> pr A) (t : text)
         (acc : list A) : pr (list A) :=
  match fuel with
  | O => PFuel
  | S f =>
    match sep t with
    | PFail => POk (rev acc) t
    | PPanic s => PPanic s
    | PFuel => PFuel
    | POk _ t1 =>
      if Nat.eqb (length t1) (length t) then PFail
      else match p t1 with
           | PFail => POk (rev acc) t
           | PPanic s => PPanic s
           | PFuel => PFuel
           | POk a t2 => sep_list_f f sep p t2 (a :: acc)
           end
    end
  end.
Definition separated_list0 {A B} (sep : text -> pr B) (p : text -> pr A) (t : text) : pr (list A) :=
  match p t with
  | PFail => POk [] t
  | PPanic s => PPanic s
  | PFuel => PFuel
  | POk a t1 => sep_list_f (S (length t1)) sep p t1 [a]
  end.

(* ---------- lexical helpers ---------- *)
Definition is_css_ws (x : N) : bool :=
  (x =? 32) || (x =? 9) || (x =? 13) || (x =? 10) || (x =? 12).
Definition is_digit (x : N) : bool := (48 <=? x) && (x <=? 57).
Definition is_lower (x : N) : bool := (97 <=? x) && (x <=? 122).
Definition is_upper (x : N) : bool := (65 <=? x) && (x <=? 90).
Definition is_hex (x : N) : bool :=
  is_digit x || ((97 <=? x) && (x <=? 102)) || ((65 <=? x) && (x <=? 70)).
Definition hex_val (x : N) : N :=
  if is_digit x then x - 48 else if (97 <=? x) then x - 87 else x - 55.
Definition lower_chr (c : chr) : chr :=
  if is_upper (cp c) then mkchr (cp c + 32) (cw c) (ws c) (lab c) else c.

(* take_until "*/" *)
Fixpoint take_until_star_slash (t : text) : option text :=
  match t with
  | [] => None
  | c :: t' =>
    match t' with
    | d :: _ => if (cp c =? 42) && (cp d =? 47) then Some t else take_until_star_slash t'
    | [] => None
    end
  end.

Definition match_comment (t : text) : pr unit :=
  pdo (_, r1) <- ptag [47; 42] t;
  match take_until_star_slash r1 with
  | None => PFail
  | Some r2 => ptag [42; 47] r2
  end.
Definition match_whitespace_item (t : text) : pr unit :=
  match t with
  | c :: t' => if is_css_ws (cp c) then POk tt t' else match_comment t
  | [] => match_comment t
  end.
Definition skip_ws (t : text) : text :=
  match many0 match_whitespace_item t with POk _ r => r | _ => t end.
Definition skip_optional_whitespace (t : text) : pr unit := POk tt (skip_ws t).

Definition nmstart_char (t : text) : pr chr :=
  match t with
  | c :: t' => if (cp c =? 95) || is_lower (cp c) || is_upper (cp c) then POk (lower_chr c) t' else PFail
  | [] => PFail
  end.
Definition nmchar_char (t : text) : pr chr :=
  match t with
  | c :: t' => if (cp c =? 95) || is_lower (cp c) || is_upper (cp c) || is_digit (cp c) || (cp c =? 45)
               then POk (lower_chr c) t' else PFail
  | [] => PFail
  end.

(* the scan over the characters after the first hex digit in ident_escape: returns the
   number of hex digits used (end_idx - start_idx) *)
Fixpoint esc_scan (t : text) (k : nat) : option nat :=
  match t with
  | [] => None                              (* loop ran off the end: end_idx stays i + 1 *)
  | c :: t' => if is_hex (cp c) && Nat.ltb k 6 then esc_scan t' (S k) else Some k
  end.
Definition ident_escape (t : text) : pr chr :=
  pdo (_, rest) <- ptag [92] t;
  match rest with
  | [] => POk (mkchr 65533 (Some 1) false 0) rest
  | c :: rest' =>
    if is_hex (cp c) then
      let n := match esc_scan rest' 1 with Some k => k | None => 1%nat end in
      let digits := firstn n rest in
      let val := fold_left (fun acc d => acc * 16 + hex_val (cp d)) digits 0 in
      let ok := (val <? 55296) || ((57343 <? val) && (val <=? 1114111)) in
      POk (mkchr (if ok then val else 65533) (Some 1) false 0) (skipn n rest)
    else POk c rest'
  end.
Definition nmstart (t : text) : pr chr := palt (nmstart_char t) (fun _ => ident_escape t).
Definition nmchar (t : text) : pr chr := palt (nmchar_char t) (fun _ => ident_escape t).

(* the same with the letter case kept: class names and ids are case-sensitive *)
Definition nmstart_char_cased (t : text) : pr chr :=
  match t with
  | c :: t' => if (cp c =? 95) || is_lower (cp c) || is_upper (cp c) then POk c t' else PFail
  | [] => PFail
  end.
Definition nmchar_char_cased (t : text) : pr chr :=
  match t with
  | c :: t' => if (cp c =? 95) || is_lower (cp c) || is_upper (cp c) || is_digit (cp c) || (cp c =? 45)
               then POk c t' else PFail
  | [] => PFail
  end.
Definition nmstart_cased (t : text) : pr chr := palt (nmstart_char_cased t) (fun _ => ident_escape t).
Definition nmchar_cased (t : text) : pr chr := palt (nmchar_char_cased t) (fun _ => ident_escape t).

Definition dash : chr := mk 45 1.
Definition parse_ident (t : text) : pr text :=
  let r0 := skip_ws t in
  pdo (d, r1) <- popt (ptag [45] r0) r0;
  pdo (st, r2) <- nmstart r1;
  pdo (cs, r3) <- many0 nmchar r2;
  POk ((match d with Some _ => [dash] | None => [] end) ++ st :: cs) r3.
Definition parse_identstring (t : text) : pr text := many1 nmchar (skip_ws t).
Definition parse_ident_cased (t : text) : pr text :=
  let r0 := skip_ws t in
  pdo (d, r1) <- popt (ptag [45] r0) r0;
  pdo (st, r2) <- nmstart_cased r1;
  pdo (cs, r3) <- many0 nmchar_cased r2;
  POk ((match d with Some _ => [dash] | None => [] end) ++ st :: cs) r3.
Definition parse_identstring_cased (t : text) : pr text := many1 nmchar_cased (skip_ws t).

(* ---------- tokens ---------- *)
Inductive token :=
| TIdent (s : text) | TFunction (s : text) | TAtKeyword (s : text) | THash (s : text)
| TString (s : text) | TBadString (s : text) | TDelim (c : N)
| TNumber (s : text) | TDimension (n u : text) | TPercentage (n : text)
| TCDO | TCDC | TColon | TSemicolon | TComma
| TOpenSquare | TCloseSquare | TOpenRound | TCloseRound | TOpenBrace | TCloseBrace.

Fixpoint digit1 (t : text) (acc : text) : pr text :=
  match t with
  | c :: t' => if is_digit (cp c) then digit1 t' (c :: acc)
               else match acc with [] => PFail | _ => POk (rev acc) t end
  | [] => match acc with [] => PFail | _ => POk (rev acc) t end
  end.
Fixpoint digit0 (t : text) (acc : text) : text * text :=
  match t with
  | c :: t' => if is_digit (cp c) then digit0 t' (c :: acc) else (rev acc, t)
  | [] => (rev acc, t)
  end.

(* parse_number: the value is used only through `== 0.0`; we return (is_zero, negative).
   MODELLING LIMIT: a non-zero literal smaller than f32's least subnormal is not zero here. *)
Definition all_zero_digits (t : text) : bool := forallb (fun c => negb (is_digit (cp c)) || (cp c =? 48)) t.
Definition parse_number (t : text) : pr bool :=
  let r0 := skip_ws t in
  pdo (_sgn, r1) <- popt (palt (ptag [45] r0) (fun _ => ptag [43] r0)) r0;
  palt (pmap all_zero_digits (digit1 r1 []))
       (fun _ =>
          let '(d0, r2) := digit0 r1 [] in
          pdo (_, r3) <- ptag [46] r2;
          pdo (d1, r4) <- digit1 r3 [];
          POk (all_zero_digits (d0 ++ d1)) r4).
(* recognize(parse_number): the consumed slice *)
Definition recognize_number (t : text) : pr text :=
  match parse_number t with
  | POk _ rest => POk (firstn (length t - length rest) t) rest
  | PFail => PFail | PPanic s => PPanic s | PFuel => PFuel
  end.

Definition parse_numeric_token (t : text) : pr token :=
  pdo (num, rest) <- recognize_number t;
  match ptag [37] rest with
  | POk _ rp => POk (TPercentage num) rp
  | _ =>
    match parse_ident rest with
    | POk dim rid => POk (TDimension num dim) rid
    | PPanic s => PPanic s
    | PFuel => PFuel
    | PFail => POk (TNumber num) rest
    end
  end.

Definition parse_ident_like (t : text) : pr token :=
  pdo (ident, rest) <- parse_ident t;
  match ptag [40] rest with
  | POk _ rf => POk (TFunction ident) rf
  | _ => POk (TIdent ident) rest
  end.

Fixpoint string_loop (t : text) (end_char : N) (acc : text) : pr token :=
  match t with
  | [] => POk (TString (rev acc)) []
  | c :: t' =>
    if cp c =? end_char then POk (TString (rev acc)) t'
    else if cp c =? 10 then POk (TBadString (rev acc)) t
    else if cp c =? 92 then
      match t' with
      | [] => POk (TString (rev acc)) []
      | d :: t'' => if cp d =? 10 then string_loop t'' end_char acc
                    else string_loop t'' end_char (d :: acc)
      end
    else string_loop t' end_char (c :: acc)
  end.
Definition parse_string_token (t : text) : pr token :=
  match t with
  | c :: t' => string_loop t' (cp c) []
  | [] => PPanic 52
  end.

Definition is_ident_start (x : N) : bool :=
  is_lower x || is_upper x || (x =? 95) || (129 <=? x).

Definition parse_token (t : text) : pr token :=
  let rest := skip_ws t in
  match rest with
  | [] => PFail
  | c :: r1 =>
    let x := cp c in
    if (x =? 34) || (x =? 39) then parse_string_token rest
    else if x =? 35 then
      match parse_identstring r1 with
      | POk id r => POk (THash id) r
      | PPanic s => PPanic s
      | PFuel => PFuel
      | PFail => POk (TDelim 35) r1
      end
    else if x =? 59 then POk TSemicolon r1
    else if x =? 40 then POk TOpenRound r1
    else if x =? 41 then POk TCloseRound r1
    else if x =? 43 then
      match parse_numeric_token r1 with
      | PFail => POk (TDelim 43) r1
      | other => other
      end
    else if x =? 44 then POk TComma r1
    else if x =? 45 then
      match parse_numeric_token rest with
      | PFail =>
        match starts_with [45; 45; 62] rest with
        | Some rc => POk TCDC rc
        | None =>
          match parse_ident_like rest with
          | PFail => POk (TDelim 45) r1
          | other => other
          end
        end
      | other => other
      end
    else if x =? 46 then
      match parse_numeric_token rest with
      | PFail => POk (TDelim 46) r1
      | other => other
      end
    else if x =? 58 then POk TColon r1
    else if x =? 60 then
      match starts_with [60; 33; 45; 45] rest with
      | Some rc => POk TCDO rc
      | None => POk (TDelim 60) r1
      end
    else if x =? 64 then
      match parse_ident rest with
      | POk id r => POk (TAtKeyword id) r
      | PPanic s => PPanic s
      | PFuel => PFuel
      | PFail => POk (TDelim 64) r1
      end
    else if x =? 91 then POk TOpenSquare r1
    else if x =? 92 then
      match parse_ident_like rest with
      | PFail => POk (TDelim 92) r1
      | other => other
      end
    else if x =? 93 then POk TCloseSquare r1
    else if x =? 123 then POk TOpenBrace r1
    else if x =? 125 then POk TCloseBrace r1
    else if is_ident_start x then parse_ident_like rest
    else if is_digit x then parse_numeric_token rest
    else POk (TDelim x) r1
  end.

Definition is_semicolon (k : token) : bool := match k with TSemicolon => true | _ => false end.
Definition is_close_brace (k : token) : bool := match k with TCloseBrace => true | _ => false end.
(* the tokens of a declaration value: up to the block's closing brace, or a semicolon that is not
   inside parentheses / square brackets (url(data:image/png;base64,...)) *)
Definition depth_after (k : token) (d : nat) : nat :=
  match k with
  | TFunction _ | TOpenRound | TOpenSquare => S d
  | TCloseRound | TCloseSquare => pred d
  | _ => d
  end.
Fixpoint value_toks_f (fuel : nat) (d : nat) (t : text) (acc : list token) : pr (list token) :=
  match fuel with
  | O => PFuel
  | S f =>
    match parse_token t with
    | POk tok rest =>
      if is_close_brace tok then POk (rev acc) t
      else if is_semicolon tok && Nat.eqb d 0 then POk (rev acc) t
      else if Nat.eqb (length rest) (length t) then POk (rev acc) t
      else value_toks_f f (depth_after tok d) rest (tok :: acc)
    | PFail => POk (rev acc) t
    | PPanic s => PPanic s
    | PFuel => PFuel
    end
  end.
Definition value_toks (t : text) : pr (list token) := value_toks_f (S (length t)) 0 t [].

Definition s_important : list N := [105;109;112;111;114;116;97;110;116].
Definition ends_important (toks : list token) : bool :=
  match rev toks with
  | TIdent x :: TDelim 33 :: _ => is_ascii_str x s_important
  | _ => false
  end.
Definition parse_value (t : text) : pr (list token * bool) :=
  pdo (toks, rest) <- value_toks t;
  if ends_important toks
  then POk (removelast (removelast toks), true) rest
  else POk (toks, false) rest.

(* ---------- declarations ---------- *)
Inductive overflow_v := OvVisible | OvHidden | OvScroll | OvAuto.
Inductive decl :=
| DColor (r g b : N)
| DBackgroundColor (r g b : N)
| DHeight (zero : bool)
| DMaxHeight (zero : bool)
| DOverflow (v : overflow_v)
| DOverflowY (v : overflow_v)
| DDisplay (none : bool)
| DWhiteSpace (m : wsmode)
| DContent (t : text)
| DUnknown.
Record declaration := mkdecl { d_data : decl; d_important : bool }.

Definition named_colours : list (list N * (N * N * N)) :=
  [ ([97;113;117;97], (0, 255, 255));
    ([98;108;97;99;107], (0, 0, 0));
    ([98;108;117;101], (0, 0, 255));
    ([102;117;99;104;115;105;97], (255, 0, 255));
    ([103;114;97;121], (128, 128, 128));
    ([103;114;101;101;110], (0, 128, 0));
    ([108;105;109;101], (0, 255, 0));
    ([109;97;114;111;111;110], (128, 0, 0));
    ([110;97;118;121], (0, 0, 128));
    ([111;108;105;118;101], (128, 128, 0));
    ([111;114;97;110;103;101], (255, 165, 0));
    ([112;117;114;112;108;101], (128, 0, 128));
    ([114;101;100], (255, 0, 0));
    ([115;105;108;118;101;114], (192, 192, 192));
    ([116;101;97;108], (0, 128, 128));
    ([119;104;105;116;101], (255, 255, 255));
    ([121;101;108;108;111;119], (255, 255, 0)) ].

Fixpoint lookup_colour (s : text) (l : list (list N * (N * N * N))) : option (N * N * N) :=
  match l with
  | [] => None
  | (n, c) :: l' => if is_ascii_str s n then Some c else lookup_colour s l'
  end.

(* str::parse::<u8>(): optional '+', ASCII digits, value <= 255 *)
Definition parse_u8_dec (t : text) : option N :=
  let body := match t with c :: t' => if cp c =? 43 then t' else t | [] => t end in
  match body with
  | [] => None
  | _ => match parse_digits body 0 with
         | Some n => if n <=? 255 then Some n else None
         | None => None
         end
  end.
(* uN::from_str_radix(s, 16): optional '+' (when followed by something), hex digits *)
Fixpoint parse_hex_digits (t : text) (acc : N) : option N :=
  match t with
  | [] => Some acc
  | c :: t' => if is_hex (cp c) then parse_hex_digits t' (acc * 16 + hex_val (cp c)) else None
  end.
Definition parse_hex (maxv : N) (t : text) : option N :=
  match t with
  | [] => None
  | [c] => if is_hex (cp c) then Some (hex_val (cp c)) else None
  | c :: t' =>
    let body := if cp c =? 43 then t' else t in
    match parse_hex_digits body 0 with
    | Some n => if n <=? maxv then Some n else None
    | None => None
    end
  end.

Definition s_rgb : list N := [114;103;98].

Definition parse_color (toks : list token) : option (N * N * N) :=
  match toks with
  | [TIdent c] => lookup_colour c named_colours
  | [THash s] =>
    if utf8_len s =? 3 then
      match parse_hex 4294967295 s with
      | Some v => Some ((((v / 256) mod 16) * 17) mod 256, (((v / 16) mod 16) * 17) mod 256,
                        ((v mod 16) * 17) mod 256)
      | None => None
      end
    else if utf8_len s =? 6 then
      match parse_hex 4294967295 s with
      | Some v => Some ((v / 65536) mod 256, (v / 256) mod 256, v mod 256)
      | None => None
      end
    else None
  | TFunction name :: args =>
    match rev args with
    | TCloseRound :: rargs =>
      if is_ascii_str name s_rgb then
        match rev rargs with
        | [TNumber r; TComma; TNumber g; TComma; TNumber b] =>
          match parse_u8_dec r, parse_u8_dec g, parse_u8_dec b with
          | Some r', Some g', Some b' => Some (r', g', b')
          | _, _, _ => None
          end
        | _ => None
        end
      else None
    | _ => None
    end
  | _ => None
  end.

Definition is_comma (k : token) : bool := match k with TComma => true | _ => false end.
(* value.tokens.rsplit(|t| t == Comma).next(): the tokens after the last comma *)
Fixpoint after_last_comma (toks : list token) (cur : list token) : list token :=
  match toks with
  | [] => rev cur
  | k :: toks' => if is_comma k then after_last_comma toks' [] else after_last_comma toks' (k :: cur)
  end.

Definition units : list (list N) :=
  [[105;110]; [99;109]; [109;109]; [112;116]; [112;99]; [112;120]; [101;109]; [101;120]].

Definition parse_height (toks : list token) : option bool :=
  match toks with
  | [TDimension n u] =>
    match parse_number n with
    | POk z _ => if existsb (is_ascii_str u) units then Some z else None
    | _ => None
    end
  | [TNumber n] =>
    match parse_number n with
    | POk z _ => if z then Some true else None
    | _ => None
    end
  | _ => None
  end.

Definition s_visible := [118;105;115;105;98;108;101].
Definition s_hidden := [104;105;100;100;101;110].
Definition s_scroll := [115;99;114;111;108;108].
Definition s_auto := [97;117;116;111].
Definition s_none := [110;111;110;101].
Definition s_normal := [110;111;114;109;97;108].
Definition s_pre := [112;114;101].
Definition s_pre_wrap := [112;114;101;45;119;114;97;112].

Fixpoint parse_overflow (toks : list token) : option overflow_v :=
  match toks with
  | [] => None
  | TIdent w :: toks' =>
    if is_ascii_str w s_visible then Some OvVisible
    else if is_ascii_str w s_hidden then Some OvHidden
    else if is_ascii_str w s_scroll then Some OvScroll
    else if is_ascii_str w s_auto then Some OvAuto
    else parse_overflow toks'
  | _ :: toks' => parse_overflow toks'
  end.
Definition parse_display (toks : list token) : bool :=
  existsb (fun k => match k with TIdent w => is_ascii_str w s_none | _ => false end) toks.
Fixpoint parse_white_space (toks : list token) : wsmode :=
  match toks with
  | [] => WsNormal
  | TIdent w :: toks' =>
    if is_ascii_str w s_normal then WsNormal
    else if is_ascii_str w s_pre then WsPre
    else if is_ascii_str w s_pre_wrap then WsPreWrap
    else parse_white_space toks'
  | _ :: toks' => parse_white_space toks'
  end.
Fixpoint parse_content (toks : list token) : option text :=
  match toks with
  | [] => Some []
  | TString w :: toks' => match parse_content toks' with Some r => Some (w ++ r) | None => None end
  | _ => None
  end.

Definition p_background_color := [98;97;99;107;103;114;111;117;110;100;45;99;111;108;111;114].
Definition p_background := [98;97;99;107;103;114;111;117;110;100].
Definition p_color := [99;111;108;111;114].
Definition p_height := [104;101;105;103;104;116].
Definition p_max_height := [109;97;120;45;104;101;105;103;104;116].
Definition p_overflow := [111;118;101;114;102;108;111;119].
Definition p_overflow_y := [111;118;101;114;102;108;111;119;45;121].
Definition p_display := [100;105;115;112;108;97;121].
Definition p_white_space := [119;104;105;116;101;45;115;112;97;99;101].
Definition p_content := [99;111;110;116;101;110;116].

Definition decl_of (prop : text) (toks : list token) : decl :=
  let is := is_ascii_str prop in
  if is p_background_color then
    match parse_color toks with Some (r, g, b) => DBackgroundColor r g b | None => DUnknown end
  else if is p_background then
    match parse_color (after_last_comma toks []) with
    | Some (r, g, b) => DBackgroundColor r g b | None => DUnknown end
  else if is p_color then
    match parse_color toks with Some (r, g, b) => DColor r g b | None => DUnknown end
  else if is p_height then
    match parse_height toks with Some z => DHeight z | None => DUnknown end
  else if is p_max_height then
    match parse_height toks with Some z => DMaxHeight z | None => DUnknown end
  else if is p_overflow then
    match parse_overflow toks with Some v => DOverflow v | None => DUnknown end
  else if is p_overflow_y then
    match parse_overflow toks with Some v => DOverflowY v | None => DUnknown end
  else if is p_display then DDisplay (parse_display toks)
  else if is p_white_space then DWhiteSpace (parse_white_space toks)
  else if is p_content then
    match parse_content toks with Some t => DContent t | None => DUnknown end
  else DUnknown.

Definition parse_declaration (t : text) : pr declaration :=
  pdo (prop, r1) <- parse_ident t;
  let r2 := skip_ws r1 in
  pdo (_, r3) <- ptag [58] r2;
  let r4 := skip_ws r3 in
  pdo (v, r5) <- parse_value r4;
  POk (mkdecl (decl_of prop (fst v)) (snd v)) r5.

(* one separator item: optional whitespace, ';', optional whitespace; the separator is many1 of these *)
Definition semi_item (t : text) : pr unit :=
  pdo (_, r) <- ptag [59] (skip_ws t); POk tt (skip_ws r).
Definition semi_sep (t : text) : pr (list unit) := many1 semi_item t.
(* ';' followed by optional whitespace (the trailing semicolons of a block) *)
Definition semi_ws (t : text) : pr unit :=
  pdo (_, r) <- ptag [59] t; POk tt (skip_ws r).
(* empty declarations may also come before the first one *)
Definition parse_rules (t : text) : pr (list declaration) :=
  pdo (_, r) <- many0 semi_item t;
  separated_list0 semi_sep parse_declaration r.

(* ---------- selectors ---------- *)
Definition parse_class (t : text) : pr comp :=
  pdo (_, r) <- ptag [46] t;
  pdo (name, r2) <- parse_ident_cased r;
  POk (CClass name) r2.

Definition opt_sign (t : text) : Z * text :=
  match t with
  | c :: t' => if cp c =? 45 then ((-1)%Z, t') else if cp c =? 43 then (1%Z, t') else (1%Z, t)
  | [] => (1%Z, t)
  end.
Definition sign (t : text) : pr Z :=
  match t with
  | c :: t' => if cp c =? 45 then POk (-1)%Z t' else if cp c =? 43 then POk 1%Z t' else PFail
  | [] => PFail
  end.
(* <i32 as FromStr>::from_str(digits).unwrap() *)
Definition i32_of_digits (d : text) : option Z :=
  match parse_digits d 0 with
  | Some n => if n <=? 2147483647 then Some (Z.of_N n) else None
  | None => None
  end.

Definition s_even := [101;118;101;110].
Definition s_odd := [111;100;100].

Definition nth_full (t : text) : pr (Z * Z) :=
  let '(a_sign, r1) := opt_sign t in
  pdo (a_opt, r2) <- popt (digit1 r1 []) r1;
  pdo (_, r3) <- ptag [110] r2;
  let r4 := skip_ws r3 in
  pdo (b_sign, r5a) <- sign r4;
  let r5 := skip_ws r5a in
  pdo (b_val, r6) <- digit1 r5 [];
  match (match a_opt with Some d => i32_of_digits d | None => Some 1%Z end), i32_of_digits b_val with
  | Some a, Some b => POk ((a * a_sign)%Z, (b * b_sign)%Z) r6
  | _, _ => PFail
  end.
Definition nth_a_only (t : text) : pr (Z * Z) :=
  let '(a_sign, r1) := opt_sign t in
  pdo (a_opt, r2) <- popt (digit1 r1 []) r1;
  pdo (_, r3) <- ptag [110] r2;
  match (match a_opt with Some d => i32_of_digits d | None => Some 1%Z end) with
  | Some a => POk ((a * a_sign)%Z, 0%Z) r3
  | None => PFail
  end.
Definition nth_b_only (t : text) : pr (Z * Z) :=
  let '(b_sign, r1) := opt_sign t in
  pdo (b_val, r2) <- digit1 r1 [];
  match i32_of_digits b_val with
  | Some b => POk (0%Z, (b * b_sign)%Z) r2
  | None => PFail
  end.

Definition parse_nth_child_args (t : text) : pr comp :=
  pdo (_, r0) <- ptag [40] t;
  let r1 := skip_ws r0 in
  pdo (ab, r2) <-
     palt (pmap (fun _ => (2%Z, 0%Z)) (ptag s_even r1)) (fun _ =>
     palt (pmap (fun _ => (2%Z, 1%Z)) (ptag s_odd r1)) (fun _ =>
     palt (nth_full r1) (fun _ =>
     palt (nth_a_only r1) (fun _ => nth_b_only r1))));
  let r3 := skip_ws r2 in
  pdo (_, r4) <- ptag [41] r3;
  POk (CNthChild (fst ab) (snd ab)) r4.

Definition s_nth_child := [110;116;104;45;99;104;105;108;100].
Definition parse_pseudo_class (t : text) : pr comp :=
  pdo (_, r) <- ptag [58] t;
  pdo (name, r2) <- parse_ident r;
  if is_ascii_str name s_nth_child then parse_nth_child_args r2 else PFail.

Definition parse_hash (t : text) : pr comp :=
  pdo (_, r) <- ptag [35] t;
  pdo (w, r2) <- parse_identstring_cased r;
  POk (CHash w) r2.

Definition parse_ws (t : text) : pr unit := pmap (fun _ => tt) (many1 match_whitespace_item t).

Definition parse_simple_selector_component (t : text) : pr comp :=
  palt (pdo (_, r) <- ptag [62] (skip_ws t); POk CCombChild (skip_ws r)) (fun _ =>
  palt (pdo (_, r) <- ptag [42] t; POk CStar r) (fun _ =>
  palt (pmap (fun _ => CCombDescendant) (parse_ws t)) (fun _ =>
  palt (parse_class t) (fun _ =>
  palt (parse_hash t) (fun _ =>
  palt (pmap CElement (parse_ident t)) (fun _ =>
  parse_pseudo_class t)))))).

Definition parse_selector_with_element (t : text) : pr (list comp) :=
  pdo (ident, r) <- parse_ident t;
  pdo (extras, r2) <- many0 parse_simple_selector_component r;
  POk (CElement ident :: extras) r2.
Definition parse_selector_without_element (t : text) : pr (list comp) :=
  many1 parse_simple_selector_component t.

Definition parse_pseudo_element (t : text) : option pseudo * text :=
  match starts_with [58;58;98;101;102;111;114;101] t with
  | Some r => (Some PBefore, r)
  | None => match starts_with [58;58;97;102;116;101;114] t with
            | Some r => (Some PAfter, r)
            | None => (None, t)
            end
  end.

Definition is_desc (c : comp) : bool := match c with CCombDescendant => true | _ => false end.
Definition pop_desc (l : list comp) : list comp :=
  match olast l with Some c => if is_desc c then removelast l else l | None => l end.

Definition parse_selector (t : text) : pr selector :=
  pdo (cs, rest) <- palt (parse_selector_with_element t)
                         (fun _ => parse_selector_without_element t);
  let cs1 := pop_desc cs in
  let cs2 := pop_desc (rev cs1) in
  let '(pe, rest') := parse_pseudo_element rest in
  POk (mksel cs2 pe) rest'.

Record cssruleset := mkcrs { crs_selectors : list selector; crs_decls : list declaration }.

Definition comma_sep (t : text) : pr unit :=
  pdo (_, r) <- ptag [44] (skip_ws t); POk tt (skip_ws r).

Definition parse_ruleset (t : text) : pr cssruleset :=
  let r0 := skip_ws t in
  pdo (sels, r1) <- separated_list0 comma_sep parse_selector r0;
  let r2 := skip_ws r1 in
  pdo (_, r3) <- ptag [123] r2;
  let r4 := skip_ws r3 in
  pdo (decls, r5) <- parse_rules r4;
  let r6 := skip_ws r5 in
  pdo (_semi, r7) <- many0 semi_ws r6;
  let r8 := skip_ws r7 in
  pdo (_, r9) <- ptag [125] r8;
  POk (mkcrs sels decls) (skip_ws r9).

(* skip_to_end_of_statement; closing-bracket kinds: 0 ) 1 --> 2 ] 3 } *)
Definition closer_kind (k : token) : option N :=
  match k with
  | TCloseRound => Some 0 | TCDC => Some 1 | TCloseSquare => Some 2 | TCloseBrace => Some 3
  | _ => None
  end.
Fixpoint skip_stmt (fuel : nat) (t : text) (stack : list N) : pr unit :=
  match fuel with
  | O => PFuel
  | S f =>
    match parse_token t with
    | PFail => POk tt t
    | PPanic s => PPanic s
    | PFuel => PFuel
    | POk tok remain =>
      match tok with
      | TFunction _ | TOpenRound => skip_stmt f remain (0 :: stack)
      | TCDO => skip_stmt f remain (1 :: stack)
      | TOpenSquare => skip_stmt f remain (2 :: stack)
      | TOpenBrace => skip_stmt f remain (3 :: stack)
      | TSemicolon => match stack with [] => POk tt remain | _ => skip_stmt f remain stack end
      | TCDC | TCloseSquare | TCloseRound | TCloseBrace =>
        match stack, closer_kind tok with
        | [], Some 3 => POk tt t              (* do not include the closing brace *)
        | top_ :: stack', Some k =>
          if top_ =? k then
            if (k =? 3) && match stack' with [] => true | _ => false end
            then POk tt remain
            else skip_stmt f remain stack'
          else PFail
        | [], _ => PFail
        | _, None => PFail
        end
      | _ => skip_stmt f remain stack
      end
    end
  end.
Definition skip_to_end_of_statement (t : text) : pr unit := skip_stmt (S (length t)) t [].

Definition parse_at_rule (t : text) : pr unit :=
  pdo (_, r1) <- ptag [64] (skip_ws t);
  pdo (_, r2) <- parse_ident (skip_ws r1);
  skip_to_end_of_statement r2.

Definition skip_unparsable_ruleset (t : text) : pr unit :=
  pdo (_, rest) <- skip_to_end_of_statement t;
  if Nat.eqb (length rest) (length t) then PFail else POk tt rest.

Definition parse_statement (t : text) : pr (option cssruleset) :=
  palt (pmap Some (parse_ruleset t)) (fun _ =>
  palt (pmap (fun _ => None) (parse_at_rule t)) (fun _ =>
  pmap (fun _ => None) (skip_unparsable_ruleset t))).

Definition parse_stylesheet (t : text) : pr (list cssruleset) :=
  pdo (items, rest) <- many0 parse_statement t;
  POk (flat_map (fun o => match o with Some r => [r] | None => [] end) items) rest.

(* ---------- css.rs glue ---------- *)
Definition is_hidden_ov (v : overflow_v) : bool := match v with OvHidden => true | _ => false end.

Fixpoint styles_loop (decls : list declaration) (acc : list styledecl) (ovh hz : bool)
  : list styledecl :=
  match decls with
  | [] => if hz && ovh then acc ++ [mksd (SDisplay true) false] else acc
  | d :: decls' =>
    let imp := d_important d in
    match d_data d with
    | DColor r g b => styles_loop decls' (acc ++ [mksd (SColour r g b) imp]) ovh hz
    | DBackgroundColor r g b => styles_loop decls' (acc ++ [mksd (SBgColour r g b) imp]) ovh hz
    | DHeight z | DMaxHeight z => styles_loop decls' acc ovh (hz || z)
    | DOverflow v | DOverflowY v => styles_loop decls' acc (ovh || is_hidden_ov v) hz
    | DDisplay b => styles_loop decls' (acc ++ [mksd (SDisplay b) imp]) ovh hz
    | DWhiteSpace m => styles_loop decls' (acc ++ [mksd (SWhiteSpace m) imp]) ovh hz
    | DContent t => styles_loop decls' (acc ++ [mksd (SContent t) imp]) ovh hz
    | DUnknown => styles_loop decls' acc ovh hz
    end
  end.
Definition styles_from_properties (decls : list declaration) : list styledecl :=
  styles_loop decls [] false false.

Inductive cssres (A : Type) := CssOk (a : A) | CssErr | CssPanic (site : N) | CssFuel.
Arguments CssOk {A}. Arguments CssErr {A}. Arguments CssPanic {A}. Arguments CssFuel {A}.

(* StyleData::do_add_css *)
Definition parse_css_rules (css : text) : cssres (list ruleset) :=
  match parse_stylesheet css with
  | POk ss _ =>
    CssOk (flat_map (fun r =>
                       let styles := styles_from_properties (crs_decls r) in
                       match styles with
                       | [] => []
                       | _ => map (fun sel => mkrs sel styles) (crs_selectors r)
                       end) ss)
  | PFail => CssErr
  | PPanic s => CssPanic s
  | PFuel => CssFuel
  end.

(* parse_style_attribute(..).unwrap_or_default() *)
Definition parse_style_attribute (t : text) : res (list styledecl) :=
  match parse_rules t with
  | POk decls _ => Ok (styles_from_properties decls)
  | PFail => Ok []
  | PPanic s => Panic s
  | PFuel => OutOfFuel
  end.

(* text.get(a..b) on bytes: None when out of range or not on a char boundary *)
Fixpoint byte_drop (t : text) (n : N) : option text :=
  if n =? 0 then Some t else
  match t with
  | [] => None
  | c :: t' => let l := utf8_len1 (cp c) in if l <=? n then byte_drop t' (n - l) else None
  end.
Fixpoint byte_take (t : text) (n : N) : option text :=
  if n =? 0 then Some [] else
  match t with
  | [] => None
  | c :: t' => let l := utf8_len1 (cp c) in
               if l <=? n then match byte_take t' (n - l) with Some r => Some (c :: r) | None => None end
               else None
  end.
Definition byte_slice (t : text) (a b : N) : option text :=
  match byte_drop t a with Some r => byte_take r (b - a) | None => None end.
Definition parse_color_part (t : text) (a b : N) : option N :=
  match byte_slice t a b with Some sl => parse_hex 255 sl | None => None end.

Definition parse_color_attribute (t : text) : res (option (N * N * N)) :=
  match parse_value t with
  | POk v _ =>
    match parse_color (fst v) with
    | Some c => Ok (Some c)
    | None =>
      let tt_ := trim t in
      match parse_color_part tt_ 0 2, parse_color_part tt_ 2 4, parse_color_part tt_ 4 6 with
      | Some r, Some g, Some b => Ok (Some (r, g, b))
      | _, _, _ => Ok None
      end
    end
  | PFail => Ok None
  | PPanic s => Panic s
  | PFuel => OutOfFuel
  end.

Definition s_style : list N := [115;116;121;108;101].
Definition s_colorattr : list N := [99;111;108;111;114].
Definition s_bgcolor : list N := [98;103;99;111;108;111;114].

Fixpoint inline_styles (attrs : list (text * text)) : res (list styledecl) :=
  match attrs with
  | [] => Ok []
  | (k, v) :: attrs' =>
    do here <-
       (if attr_is k s_style then parse_style_attribute v
        else if attr_is k s_colorattr then
          do c <- parse_color_attribute v;
          Ok (match c with Some (r, g, b) => [mksd (SColour r g b) false] | None => [] end)
        else if attr_is k s_bgcolor then
          do c <- parse_color_attribute v;
          Ok (match c with Some (r, g, b) => [mksd (SBgColour r g b) false] | None => [] end)
        else Ok []);
    do rest <- inline_styles attrs';
    Ok (here ++ rest)
  end.

(* dom_extract::dom_to_stylesheet: the text of every html <style> element, document order *)
Fixpoint style_texts (n : node) : list text :=
  match n with
  | NElem html name _ kids =>
    if html && is_ascii_str name s_style
    then [flat_map (fun k => match k with NText t => t | _ => [] end) kids]
    else flat_map style_texts kids
  | _ => []
  end.

Fixpoint rules_of_texts (l : list text) : res (list ruleset) :=
  match l with
  | [] => Ok []
  | css :: l' =>
    do here <- (match parse_css_rules css with
                | CssOk rs => Ok rs
                | CssErr => Ok []                  (* CSS parse errors are ignored *)
                | CssPanic s => Panic s
                | CssFuel => OutOfFuel
                end);
    do rest <- rules_of_texts l';
    Ok (here ++ rest)
  end.
Definition doc_rules (doc : list node) : res (list ruleset) :=
  rules_of_texts (flat_map style_texts doc).
