(* CssParse.v -- STUB (to be replaced by the transcription of css/parser.rs). *)
From H2T Require Import Base Tagged Wrap Css Dom.

Inductive cssres (A : Type) := CssOk (a : A) | CssErr | CssPanic (site : N) | CssFuel.
Arguments CssOk {A}. Arguments CssErr {A}. Arguments CssPanic {A}. Arguments CssFuel {A}.

Definition parse_css_rules (css : text) : cssres (list ruleset) := CssOk [].
Definition inline_styles (attrs : list (text * text)) : res (list style) := Ok [].
Definition doc_rules (doc : list node) : res (list ruleset) := Ok [].
