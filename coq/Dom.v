(* Dom.v -- DOM, render tree, process_dom_node / insert_child / table constructors
   (lib.rs:378-535, 1030-1170, 1400-1829). *)
From H2T Require Import Base Tagged Wrap Css.

Inductive node :=
| NElem (html : bool) (name : text) (attrs : list (text * text)) (kids : list node)
| NText (t : text)
| NComment
| NOther.                       (* doctype, processing instruction *)

(* ---------------- render tree ---------------- *)
Inductive rnode := RN (info : rinfo) (style : cstyle)
with rinfo :=
| IText (t : text)
| IContainer (cs : list rnode)
| ILink (href : text) (cs : list rnode)
| IEm (cs : list rnode)
| IStrong (cs : list rnode)
| IStrikeout (cs : list rnode)
| ICode (cs : list rnode)
| IImg (src title : text)
| IBlock (cs : list rnode)
| IHeader (level : N) (cs : list rnode)
| IDiv (cs : list rnode)
| IBlockQuote (cs : list rnode)
| IUl (cs : list rnode)
| IOl (start : Z) (cs : list rnode)
| IDl (cs : list rnode)
| IDt (cs : list rnode)
| IDd (cs : list rnode)
| IBreak
| ITable (rows : list rrow) (ncols : N)
| ITableBody (rows : list rrow)
| ITableRow (r : rrow)
| ITableCell (c : rcell)
| IFragStart (name : text)
| IListItem (cs : list rnode)
| ISup (cs : list rnode)
with rrow := RRow (cells : list rcell) (style : cstyle)
with rcell := RCell (colspan : N) (content : list rnode) (style : cstyle).

Definition rn_info (n : rnode) : rinfo := match n with RN i _ => i end.
Definition rn_style (n : rnode) : cstyle := match n with RN _ s => s end.
Definition rn_new (i : rinfo) : rnode := RN i cstyle0.
Definition row_cells (r : rrow) : list rcell := match r with RRow c _ => c end.
Definition row_style (r : rrow) : cstyle := match r with RRow _ s => s end.
Definition cell_colspan (c : rcell) : N := match c with RCell n _ _ => n end.
Definition cell_content (c : rcell) : list rnode := match c with RCell _ k _ => k end.
Definition cell_style (c : rcell) : cstyle := match c with RCell _ _ s => s end.

(* is_shallow_empty *)
Definition is_shallow_empty (n : rnode) : bool :=
  let emp (v : list rnode) := match v with [] => true | _ => false end in
  match rn_info n with
  | IText t | IImg _ t => match trim t with [] => true | _ => false end
  | IContainer v | ILink _ v | IEm v | IStrong v | IStrikeout v | ICode v | IBlock v
  | IListItem v | IDiv v | IBlockQuote v | IDl v | IDt v | IDd v | IUl v | IOl _ v | ISup v
  | IHeader _ v => emp v
  | IBreak => true
  | ITable _ _ | ITableRow _ | ITableBody _ | ITableCell _ => false
  | IFragStart _ => true
  end.

(* ---------------- insert_child ---------------- *)
Definition ins {A} (at_start : bool) (x : A) (l : list A) : list A :=
  if at_start then x :: l else l ++ [x].

Definition ins_first_cell (at_start : bool) (x : rnode) (cells : list rcell) : list rcell :=
  match cells with
  | [] => []
  | RCell n k s :: cells' => RCell n (ins at_start x k) s :: cells'
  end.
Definition ins_first_row (at_start : bool) (x : rnode) (rows : list rrow) : list rrow :=
  match rows with
  | [] => []
  | RRow cells s :: rows' => RRow (ins_first_cell at_start x cells) s :: rows'
  end.

Definition insert_child (new_child orig : rnode) (at_start : bool) : rnode :=
  let '(RN info st) := orig in
  let i := ins at_start new_child in
  match info with
  | IBlock v => RN (IBlock (i v)) st
  | IListItem v => RN (IListItem (i v)) st
  | IDd v => RN (IDd (i v)) st
  | IDt v => RN (IDt (i v)) st
  | IDl v => RN (IDl (i v)) st
  | IDiv v => RN (IDiv (i v)) st
  | IBlockQuote v => RN (IBlockQuote (i v)) st
  | IContainer v => RN (IContainer (i v)) st
  | ITableCell (RCell n k s) => RN (ITableCell (RCell n (i k) s)) st
  | ITableRow (RRow cells s) => RN (ITableRow (RRow (ins_first_cell at_start new_child cells) s)) st
  | ITableBody rows => RN (ITableBody (ins_first_row at_start new_child rows)) st
  | ITable rows nc => RN (ITable (ins_first_row at_start new_child rows) nc) st
  | _ =>
    if at_start then rn_new (IContainer [new_child; orig])
    else rn_new (IContainer [orig; new_child])
  end.

(* ---------------- table constructors ---------------- *)
(* td colspan: v.parse::<usize>().unwrap_or(1): ASCII digits only, optional leading '+',
   must fit in usize *)
Fixpoint parse_digits (t : text) (acc : N) : option N :=
  match t with
  | [] => Some acc
  | c :: t' =>
    if (48 <=? cp c) && (cp c <=? 57) then parse_digits t' (acc * 10 + (cp c - 48)) else None
  end.
Definition parse_usize (t : text) : option N :=
  let body := match t with c :: t' => if cp c =? 43 then t' else t | [] => t end in
  match body with
  | [] => None
  | _ => match parse_digits body 0 with
         | Some n => if n <=? usize_max then Some n else None
         | None => None
         end
  end.
Definition parse_i64 (t : text) : option Z :=
  match t with
  | [] => None
  | c :: t' =>
    let '(neg, body) := if cp c =? 45 then (true, t') else if cp c =? 43 then (false, t') else (false, t) in
    match body with
    | [] => None
    | _ => match parse_digits body 0 with
           | Some n => let z := if neg then (- Z.of_N n)%Z else Z.of_N n in
                       if i64_ok z then Some z else None
           | None => None
           end
    end
  end.

Definition s_colspan : list N := [99;111;108;115;112;97;110].
Definition s_start : list N := [115;116;97;114;116].
Definition s_href : list N := [104;114;101;102].
Definition s_name : list N := [110;97;109;101].
Definition s_alt : list N := [97;108;116].
Definition s_src : list N := [115;114;99].

(* last colspan attribute wins (the loop does not break) *)
Definition td_colspan (attrs : list (text * text)) : N :=
  fold_left (fun acc kv => if attr_is (fst kv) s_colspan
                           then match parse_usize (snd kv) with Some n => N.min n 1000 | None => 1 end
                           else acc) attrs 1.

(* tbody: handle colspan=0 *)
Fixpoint row_count (cells : list rcell) (hz : bool) (n : N) : res (bool * N) :=
  match cells with
  | [] => Ok (hz, n)
  | c :: cells' =>
    do n' <- uadd 30 n (N.max (cell_colspan c) 1);
    row_count cells' (hz || (cell_colspan c =? 0)) n'
  end.
Fixpoint rows_counts (rows : list rrow) : res (list (bool * N)) :=
  match rows with
  | [] => Ok []
  | r :: rows' => do c <- row_count (row_cells r) false 0;
                  do cs <- rows_counts rows'; Ok (c :: cs)
  end.
Definition fix_zero_colspan (maxc : N) (r : rrow) (cnt : bool * N) : rrow :=
  if fst cnt then
    match r with
    | RRow cells s =>
      RRow (map (fun c => match c with
                          | RCell n k st => if n =? 0 then RCell (maxc - snd cnt + 1) k st else c
                          end) cells) s
    end
  else r.
Fixpoint map2 {A B C} (f : A -> B -> C) (l : list A) (m : list B) : list C :=
  match l, m with
  | a :: l', b :: m' => f a b :: map2 f l' m'
  | _, _ => []
  end.
Definition tbody_rows (rows : list rrow) : res (list rrow) :=
  do counts <- rows_counts rows;
  let maxc := match counts with [] => 1 | _ => maxN (map snd counts) end in
  Ok (map2 (fix_zero_colspan maxc) rows counts).

(* RenderTable::new: remap column positions to the smallest values *)
Fixpoint row_positions (cells : list rcell) (col : N) : res (list N) :=
  match cells with
  | [] => Ok []
  | c :: cells' =>
    do col' <- uadd 30 col (cell_colspan c);
    do r <- row_positions cells' col'; Ok (col' :: r)
  end.
Fixpoint all_positions (rows : list rrow) : res (list N) :=
  match rows with
  | [] => Ok []
  | r :: rows' => do p <- row_positions (row_cells r) 0;
                  do ps <- all_positions rows'; Ok (p ++ ps)
  end.
(* index of pos in the sorted set of positions = number of distinct positions < pos *)
Fixpoint insert_sorted (x : N) (l : list N) : list N :=
  match l with
  | [] => [x]
  | y :: l' => if x <? y then x :: l else if x =? y then l else y :: insert_sorted x l'
  end.
Definition sorted_set (l : list N) : list N := fold_left (fun acc x => insert_sorted x acc) l [].
Fixpoint index_of (x : N) (l : list N) (i : N) : option N :=
  match l with
  | [] => None
  | y :: l' => if x =? y then Some i else index_of x l' (i + 1)
  end.
Fixpoint remap_cells (set : list N) (cells : list rcell) (pos mapped : N) : res (list rcell) :=
  match cells with
  | [] => Ok []
  | RCell n k s :: cells' =>
    do nextpos <- uadd 30 pos (N.max n 1);
    match index_of nextpos set 0 with
    | None => Panic 32
    | Some nm =>
      do cs <- usub 30 nm mapped;
      do r <- remap_cells set cells' nextpos nm;
      Ok (RCell cs k s :: r)
    end
  end.
Fixpoint remap_rows (set : list N) (rows : list rrow) : res (list rrow) :=
  match rows with
  | [] => Ok []
  | RRow cells s :: rows' =>
    do cells' <- remap_cells set cells 0 0;
    do r <- remap_rows set rows'; Ok (RRow cells' s :: r)
  end.
Definition row_num_cells (r : rrow) : N := sumN (map (fun c => N.max (cell_colspan c) 1) (row_cells r)).
Definition render_table_new (rows : list rrow) : res rinfo :=
  do ps <- all_positions rows;
  let set := sorted_set (0 :: ps) in
  do rows' <- remap_rows set rows;
  Ok (ITable rows' (maxN (map row_num_cells rows'))).

(* ---------------- process_dom_node ---------------- *)
Definition names (l : list (list N)) (n : text) : bool := existsb (is_ascii_str n) l.

(* Continuation after the children have been processed: Some node / None *)
Definition find_attr (attrs : list (text * text)) (k : list N) : option text :=
  match find (fun kv => attr_is (fst kv) k) attrs with Some kv => Some (snd kv) | None => None end.

Definition count_elems_before (l : list node) : Z := 0%Z. (* placeholder, not used *)

(* element-specific constructor: given processed children, return the node (or None).
   `noempty` = pending_noempty *)
Inductive ekind := EPending (noempty : bool) | EFinished | ENothing.

Definition heading_level (n : text) : option N :=
  match cps n with
  | [104; d] => if (49 <=? d) && (d <=? 54) then Some (d - 48) else None
  | _ => None
  end.

Definition filter_info (f : rinfo -> bool) (cs : list rnode) : list rnode :=
  filter (fun n => f (rn_info n)) cs.

Definition wrap_pseudo (computed : cstyle) (n : rnode) : rnode :=
  let n1 := match cs_before computed with
            | Some c => match ws_val (c_content c) with
                        | Some t => insert_child (rn_new (IText (relabel L_deco t))) n true
                        | None => n
                        end
            | None => n
            end in
  match cs_after computed with
  | Some c => match ws_val (c_content c) with
              | Some t => insert_child (rn_new (IText (relabel L_deco t))) n1 false
              | None => n1
              end
  | None => n1
  end.

Section ProcessDom.
  Variable sd : styledata.
  Variable use_doc_css : bool.
  (* parse the inline style-ish attributes of an element into declarations
     (css parser; supplied by Api so that Dom.v does not depend on CssParse) *)
  Variable inline_styles : list (text * text) -> res (list styledecl).

  (* build the element's node from processed children; returns None for Nothing *)
  Definition build_element (name : text) (attrs : list (text * text)) (computed : cstyle)
             (cs : list rnode) : res (option rnode) :=
    let mk i := Ok (Some (RN i computed)) in
    let noempty (i : rinfo) := match cs with [] => Ok None | _ => mk i end in
    if names [[104;116;109;108]; [98;111;100;121]] name then mk (IContainer cs)
    else if names [[108;105;110;107]; [109;101;116;97]; [104;114]; [115;99;114;105;112;116];
                   [115;116;121;108;101]; [104;101;97;100]] name then Ok None
    else if names [[115;112;97;110]] name then noempty (IContainer cs)
    else if names [[97]] name then
      match find_attr attrs s_href with
      | Some href =>
        if existsb (fun c => negb (is_shallow_empty c)) cs then mk (ILink href cs) else Ok None
      | None => mk (IContainer cs)
      end
    else if names [[101;109]; [105]; [105;110;115]] name then mk (IEm cs)
    else if names [[115;116;114;111;110;103]] name then mk (IStrong cs)
    else if names [[115]; [100;101;108]] name then mk (IStrikeout cs)
    else if names [[99;111;100;101]] name then mk (ICode cs)
    else if names [[105;109;103]] name then
      (* handled in process (Finished/Nothing); unreachable here *)
      Ok None
    else match heading_level name with
    | Some lvl => mk (IHeader lvl cs)
    | None =>
    if names [[112]] name then noempty (IBlock cs)
    else if names [[108;105]] name then mk (IListItem cs)
    else if names [[115;117;112]] name then mk (ISup cs)
    else if names [[100;105;118]] name then noempty (IDiv cs)
    else if names [[112;114;101]] name then
      let core := cs_core computed in
      let core' := mkcore (c_colour core) (c_bg core) (c_display core)
                          (maybe_update (c_white_space core) false OAgent spec0 WsPre)
                          (c_content core) in
      Ok (Some (RN (IBlock cs) (mkcs core' (cs_before computed) (cs_after computed) true)))
    else if names [[98;114]] name then Ok None  (* Finished; handled in process *)
    else if names [[116;97;98;108;101]] name then
      let rows := flat_map (fun n => match rn_info n with ITableBody b => b | _ => [] end) cs in
      match rows with
      | [] => Ok None
      | _ => do t <- render_table_new rows; Ok (Some (RN t computed))
      end
    else if names [[116;104;101;97;100]; [116;98;111;100;121]] name then
      match cs with
      | [] => Ok None
      | _ =>
        let rows := flat_map (fun n => match rn_info n with ITableRow r => [r] | _ => [] end) cs in
        do rows' <- tbody_rows rows;
        mk (ITableBody rows')
      end
    else if names [[116;114]] name then
      let cells := flat_map (fun n => match rn_info n with ITableCell c => [c] | _ => [] end) cs in
      mk (ITableRow (RRow cells computed))
    else if names [[116;104]; [116;100]] name then
      mk (ITableCell (RCell (td_colspan attrs) cs computed))
    else if names [[98;108;111;99;107;113;117;111;116;101]] name then noempty (IBlockQuote cs)
    else if names [[117;108]] name then noempty (IUl cs)
    else if names [[111;108]] name then
      let start := match find_attr attrs s_start with
                   | Some v => match parse_i64 v with Some z => z | None => 1%Z end
                   | None => 1%Z
                   end in
      noempty (IOl start (filter_info (fun i => match i with IListItem _ => true | _ => false end) cs))
    else if names [[100;108]] name then
      noempty (IDl (filter_info (fun i => match i with IDt _ | IDd _ => true | _ => false end) cs))
    else if names [[100;116]] name then mk (IDt cs)
    else if names [[100;100]] name then mk (IDd cs)
    else noempty (IContainer cs)
    end.

  Definition fragment_of (name : text) (is_a : bool) (attrs : list (text * text)) : option text :=
    match find (fun kv => attr_is (fst kv) s_id || (is_a && attr_is (fst kv) s_name)) attrs with
    | Some kv => Some (snd kv)
    | None => None
    end.

  (* img: last non-empty alt / src before both are found *)
  Fixpoint img_attrs (attrs : list (text * text)) (title src : option text)
    : option text * option text :=
    match attrs with
    | [] => (title, src)
    | (k, v) :: attrs' =>
      let title' := if attr_is k s_alt && negb (match v with [] => true | _ => false end)
                    then Some v else title in
      let src' := if attr_is k s_src && negb (match v with [] => true | _ => false end)
                  then Some v else src in
      match title', src' with
      | Some _, Some _ => (title', src')
      | _, _ => img_attrs attrs' title' src'
      end
    end.

  (* p = ancestors of the node being processed (nearest first). *)
  Fixpoint process (n : node) (p : list anc) (idx : Z) {struct n} : res (option rnode) :=
    match n with
    | NComment | NOther => Ok None
    | NText t => Ok (Some (rn_new (IText t)))
    | NElem html name attrs kids =>
      let me := mkanc name attrs idx :: p in
      let process_kids :=
          (fix pk (kids : list node) (idx : Z) {struct kids} : res (list rnode) :=
             match kids with
             | [] => Ok []
             | k :: kids' =>
               let is_el := match k with NElem _ _ _ _ => true | _ => false end in
               do r <- process k me idx;
               do rs <- pk kids' (if is_el then (idx + 1)%Z else idx);
               Ok (match r with Some x => x :: rs | None => rs end)
             end) in
      do inls <- (if use_doc_css then inline_styles attrs else Ok []);
      let computed := computed_style sd me inls in
      match ws_val (c_display (cs_core computed)) with
      | Some true => Ok None
      | _ =>
        let is_a := html && names [[97]] name in
        (* the element-specific result (before pseudo-content and fragment handling):
           inr tt = Nothing *)
        do base <-
           (if negb html then
              do cs <- process_kids kids 1%Z;
              match cs with [] => Ok None | _ => Ok (Some (RN (IContainer cs) computed)) end
            else if names [[105;109;103]] name then
              match img_attrs attrs None None with
              | (Some title, Some src) => Ok (Some (RN (IImg src title) computed))
              | _ => Ok None
              end
            else if names [[98;114]] name then Ok (Some (RN IBreak computed))
            else if names [[108;105;110;107]; [109;101;116;97]; [104;114]; [115;99;114;105;112;116];
                           [115;116;121;108;101]; [104;101;97;100]] name then Ok None
            else
              do cs <- process_kids kids 1%Z;
              build_element name attrs computed cs);
        let wrapped := match base with
                       | Some nd => Some (wrap_pseudo computed nd)
                       | None => None
                       end in
        match fragment_of name is_a attrs with
        | None => Ok wrapped
        | Some frag =>
          let fragnode := rn_new (IFragStart frag) in
          match wrapped with
          | None => Ok (Some fragnode)
          | Some nd => Ok (Some (insert_child fragnode nd true))
          end
        end
      end
    end.

  Fixpoint process_kids (kids : list node) (p : list anc) (idx : Z) {struct kids} : res (list rnode) :=
    match kids with
    | [] => Ok []
    | k :: kids' =>
      let is_el := match k with NElem _ _ _ _ => true | _ => false end in
      do r <- process k p idx;
      do rs <- process_kids kids' p (if is_el then (idx + 1)%Z else idx);
      Ok (match r with Some x => x :: rs | None => rs end)
    end.

  Definition dom_to_render_tree (doc : list node) : res rnode :=
    do cs <- process_kids doc [] 1%Z;
    Ok (rn_new (IContainer cs)).
End ProcessDom.
