From H2T Require Import Base Wire.
Require Import ExtrOcamlBasic.
Extraction Language OCaml.
Extraction "../ocaml/model.ml" run_case.
