(* Proofs/AnnBalance.v -- property C09 at the level of the render-tree model:
   annotation stacks are balanced over every node, and every tag stored in a
   sub-renderer comes from the annotation stack that was current when it was made.

   See the end of the file for the main theorems and the recorded findings. *)
From H2T Require Import Base Tagged Wrap Sub Css Dom Render Api.
From H2T Require Import Proofs.RenderWidth.
From Coq Require Import Lia ZifyN ZifyBool ZifyNat.

Local Arguments N.add : simpl never.
Local Arguments N.sub : simpl never.
Local Arguments N.mul : simpl never.
Local Arguments N.div : simpl never.
Local Arguments N.modulo : simpl never.
Local Arguments N.leb : simpl never.
Local Arguments N.ltb : simpl never.
Local Arguments N.eqb : simpl never.
Local Arguments N.min : simpl never.
Local Arguments N.max : simpl never.
Local Arguments N.to_nat : simpl never.
Local Arguments N.of_nat : simpl never.
Local Open Scope N_scope.

(* ================================================================== *)
(* 1. The "meta" part of a sub-renderer                                 *)
(* ================================================================== *)

(* Everything in a sub-renderer that is not rendered content: width, options, annotation
   stack, strikeout text-filter depth, preformat depth, white-space mode stack. *)
Record meta := mkmeta {
  m_w : N; m_o : ropts; m_ann : tag; m_filt : nat; m_pre : N; m_ws : list wsmode }.

Definition meta_of (s : subr) : meta :=
  mkmeta (swidth_ s) (sopts s) (ann_stack s) (filter_depth s) (pre_depth s) (ws_stack s).

Definition idm (m : meta) : meta := m.
Definition m_push (a : ann) (m : meta) : meta :=
  mkmeta (m_w m) (m_o m) (m_ann m ++ [a]) (m_filt m) (m_pre m) (m_ws m).
Definition m_pop (m : meta) : meta :=
  mkmeta (m_w m) (m_o m) (removelast (m_ann m)) (m_filt m) (m_pre m) (m_ws m).
Definition m_ws_push (w : wsmode) (m : meta) : meta :=
  mkmeta (m_w m) (m_o m) (m_ann m) (m_filt m) (m_pre m) (w :: m_ws m).
Definition m_ws_pop (m : meta) : meta :=
  mkmeta (m_w m) (m_o m) (m_ann m) (m_filt m) (m_pre m) (tl (m_ws m)).
Definition m_pre_inc (m : meta) : meta :=
  mkmeta (m_w m) (m_o m) (m_ann m) (m_filt m) (m_pre m + 1) (m_ws m).
Definition m_pre_dec (m : meta) : meta :=
  mkmeta (m_w m) (m_o m) (m_ann m) (m_filt m) (m_pre m - 1) (m_ws m).
Definition m_filt_inc (m : meta) : meta :=
  if o_strike (m_o m)
  then mkmeta (m_w m) (m_o m) (m_ann m) (S (m_filt m)) (m_pre m) (m_ws m) else m.
Definition m_filt_dec (m : meta) : meta :=
  if o_strike (m_o m)
  then mkmeta (m_w m) (m_o m) (m_ann m) (Nat.pred (m_filt m)) (m_pre m) (m_ws m) else m.

Lemma meta_add_line s l : meta_of (add_line s l) = meta_of s.
Proof. unfold add_line. destruct (pending_frags s); destruct l; reflexivity. Qed.

Lemma meta_extend_lines ls : forall s, meta_of (extend_lines s ls) = meta_of s.
Proof.
  unfold extend_lines. induction ls as [|l ls IH]; intros s; cbn [fold_left]; [reflexivity|].
  rewrite IH. apply meta_add_line.
Qed.

Lemma meta_flush_wrapping s s' : flush_wrapping s = Ok s' -> meta_of s' = meta_of s.
Proof.
  unfold flush_wrapping. destruct (wrapping s) as [w|]; [|intros H; ok_inv H; reflexivity].
  destruct (take_trailing_fragments w) as [w1 frags]. intros H. bind_inv H ls Hls. ok_inv H.
  transitivity (meta_of (extend_lines (set_wrapping s None) (map RText ls))); [reflexivity|].
  rewrite meta_extend_lines. reflexivity.
Qed.

Lemma meta_add_empty_line s s' : add_empty_line s = Ok s' -> meta_of s' = meta_of s.
Proof.
  unfold add_empty_line. intros H. bind_inv H s1 H1. ok_inv H.
  transitivity (meta_of (add_line s1 (RText tl_new))); [reflexivity|].
  rewrite meta_add_line. eapply meta_flush_wrapping, H1.
Qed.

Lemma meta_start_block s s' : start_block s = Ok s' -> meta_of s' = meta_of s.
Proof.
  unfold start_block. intros H. bind_inv H s1 H1. bind_inv H s2 H2. ok_inv H.
  transitivity (meta_of s2); [reflexivity|].
  transitivity (meta_of s1); [|eapply meta_flush_wrapping, H1].
  destruct (existsb rline_has_content (slines s1)).
  - eapply meta_add_empty_line, H2.
  - ok_inv H2. reflexivity.
Qed.

Lemma meta_new_line_hard s s' : new_line_hard s = Ok s' -> meta_of s' = meta_of s.
Proof.
  unfold new_line_hard. intros H. destruct (wrapping s) as [w|].
  - destruct ((wordlen w =? 0) && (tlen_ (wline w) =? 0)).
    + eapply meta_add_empty_line, H.
    + eapply meta_flush_wrapping, H.
  - eapply meta_add_empty_line, H.
Qed.

Lemma meta_add_horizontal_line s b t s' :
  add_horizontal_line s b t = Ok s' -> meta_of s' = meta_of s.
Proof.
  unfold add_horizontal_line. intros H. bind_inv H s1 H1. ok_inv H.
  rewrite meta_add_line. eapply meta_flush_wrapping, H1.
Qed.

Lemma meta_add_horizontal_border_width s w s' :
  add_horizontal_border_width s w = Ok s' -> meta_of s' = meta_of s.
Proof.
  unfold add_horizontal_border_width. intros H. bind_inv H s1 H1. ok_inv H.
  rewrite meta_add_line. eapply meta_flush_wrapping, H1.
Qed.

Lemma meta_add_inline_text d s t s' : add_inline_text d s t = Ok s' -> meta_of s' = meta_of s.
Proof.
  unfold add_inline_text. intros H.
  destruct (negb (preserve_ws (ws_mode s)) && at_block_end s && all_ws t); [ok_inv H; reflexivity|].
  bind_inv H s1 H1. bind_inv H w1 Hw1. ok_inv H.
  transitivity (meta_of s1); [reflexivity|].
  destruct (at_block_end s); [eapply meta_start_block, H1|ok_inv H1; reflexivity].
Qed.

Lemma meta_start_deco d s p s' : start_deco d s p = Ok s' -> meta_of s' = m_push (snd p) (meta_of s).
Proof. unfold start_deco. intros H. apply meta_add_inline_text in H. rewrite H. reflexivity. Qed.

Lemma meta_end_deco d s e s' : end_deco d s e = Ok s' -> meta_of s' = m_pop (meta_of s).
Proof.
  unfold end_deco. intros H. bind_inv H s1 H1. ok_inv H. apply meta_add_inline_text in H1.
  transitivity (m_pop (meta_of s1)); [reflexivity|]. rewrite H1. reflexivity.
Qed.

Lemma meta_start_strikeout d s s' :
  start_strikeout d s = Ok s' -> meta_of s' = m_filt_inc (m_push (snd (d_strike_start d)) (meta_of s)).
Proof.
  unfold start_strikeout. intros H. bind_inv H s1 H1. ok_inv H. apply meta_start_deco in H1.
  rewrite <- H1. unfold m_filt_inc. cbn [m_o meta_of]. destruct (o_strike (sopts s1)); reflexivity.
Qed.

Lemma meta_end_strikeout d s s' :
  end_strikeout d s = Ok s' -> meta_of s' = m_pop (m_filt_dec (meta_of s)).
Proof.
  unfold end_strikeout. intros H. bind_inv H s1 H1. apply meta_end_deco in H. rewrite H. f_equal.
  unfold m_filt_dec. cbn [m_o meta_of]. destruct (o_strike (sopts s)); [|ok_inv H1; reflexivity].
  destruct (filter_depth s) as [|n] eqn:E; [discriminate|]. ok_inv H1.
  unfold meta_of. cbn. rewrite E. reflexivity.
Qed.

Lemma meta_add_image d s src title s' : add_image d s src title = Ok s' -> meta_of s' = meta_of s.
Proof.
  unfold add_image. intros H. bind_inv H s1 H1. ok_inv H. apply meta_add_inline_text in H1.
  transitivity (m_pop (meta_of s1)); [reflexivity|]. rewrite H1.
  unfold m_pop, meta_of, push_ann. cbn. rewrite removelast_last. reflexivity.
Qed.

Lemma meta_append_subrender s other first rest s' :
  append_subrender s other first rest = Ok s' -> meta_of s' = meta_of s.
Proof.
  unfold append_subrender. intros H. bind_inv H s1 H1. bind_inv H ols H2. ok_inv H.
  rewrite meta_extend_lines. eapply meta_flush_wrapping, H1.
Qed.

Lemma meta_row_lines t draw sets pads : forall n i s,
  meta_of (row_lines t draw n i sets pads s) = meta_of s.
Proof.
  induction n as [|n IH]; intros i s; cbn [row_lines]; [reflexivity|].
  rewrite IH. apply meta_add_line.
Qed.

Lemma meta_append_columns s cols collapse s' :
  append_columns_with_borders s cols collapse = Ok s' -> meta_of s' = meta_of s.
Proof.
  unfold append_columns_with_borders. intros H. bind_inv H s1 H1. bind_inv H sets H2.
  bind_inv H chk H3.
  destruct (match olast (slines s1) with
            | Some (RLine pb pt) =>
              let '(p, n) := join_cols (map fst sets) pb
                               (border_new (sumN (map fst sets) + (N.of_nat (length sets) - 1))) 0 in
              (Some p, n)
            | _ => (None, border_new (sumN (map fst sets) + (N.of_nat (length sets) - 1)))
            end) as [prev1 next1].
  bind_inv H r H4. destruct r as [[[prev3 next3] sets4] pads]. ok_inv H.
  apply meta_flush_wrapping in H1. rewrite <- H1.
  match goal with |- meta_of (if ?c then _ else _) = _ => destruct c end;
    rewrite ?meta_add_line, meta_row_lines; reflexivity.
Qed.

Lemma meta_vert_cols : forall cols s first s',
  vert_cols s cols first = Ok s' -> meta_of s' = meta_of s.
Proof.
  induction cols as [|c cols IH]; intros s first s' H; cbn [vert_cols] in H; [ok_inv H; reflexivity|].
  bind_inv H s1 H1. bind_inv H s2 H2. apply IH in H. rewrite H.
  apply meta_append_subrender in H2. rewrite H2.
  destruct (negb first && o_borders (sopts s)).
  - eapply meta_add_horizontal_line, H1.
  - ok_inv H1. reflexivity.
Qed.

Lemma meta_append_vert_row s cols s' : append_vert_row s cols = Ok s' -> meta_of s' = meta_of s.
Proof.
  unfold append_vert_row. intros H. bind_inv H s1 H1. bind_inv H s2 H2.
  apply meta_flush_wrapping in H1. apply meta_vert_cols in H2.
  destruct (o_borders (sopts s2)).
  - apply meta_add_horizontal_border_width in H. congruence.
  - ok_inv H. congruence.
Qed.

Lemma meta_fl_chars t : forall cs s buf wl pos,
  meta_of (fst (fst (fst (fl_chars s t cs buf wl pos)))) = meta_of s.
Proof.
  induction cs as [|c cs IH]; intros s buf wl pos; cbn [fl_chars]; [reflexivity|].
  destruct (swidth_ s <? pos + cw0 c); rewrite IH; [apply meta_add_line|reflexivity].
Qed.

Lemma meta_fl_strings : forall strs s wl pos, meta_of (fst (fl_strings s strs wl pos)) = meta_of s.
Proof.
  induction strs as [|[str tg] strs IH]; intros s wl pos; cbn [fl_strings]; [reflexivity|].
  destruct (o_wrap_links (sopts s) && (swidth_ s <? pos + swidth (nl_to_space str))).
  - pose proof (meta_fl_chars [ADefault] (nl_to_space str) s [] wl pos) as E.
    destruct (fl_chars s [ADefault] (nl_to_space str) [] wl pos) as [[[s1 buf] wl1] pos1].
    cbn [fst] in E. rewrite IH. exact E.
  - apply IH.
Qed.

Lemma meta_fmt_links : forall links s, meta_of (fmt_links s links) = meta_of s.
Proof.
  induction links as [|l links IH]; intros s; cbn [fmt_links]; [reflexivity|].
  pose proof (meta_fl_strings (tl_tagged_strings l) s tl_new 0) as E.
  destruct (fl_strings s (tl_tagged_strings l) tl_new 0) as [s1 wl]. cbn [fst] in E.
  rewrite IH, meta_add_line. exact E.
Qed.

(* ================================================================== *)
(* 2. Tags stored in tagged lines and wrapping blocks                   *)
(* ================================================================== *)

Section TagInv.
  (* Q is any property of tags that holds of the empty tag (the tag of block padding, see
     force_flush_line).  The lemmas say: every operation keeps "all stored tags satisfy Q"
     provided the tags it is given satisfy Q. *)
  Variable Q : tag -> Prop.
  Hypothesis Qnil : Q [].

  Definition elem_Q (e : elem) : Prop := match e with Str _ t => Q t | Frag _ => True end.
  Definition tl_Q (l : tline) : Prop := Forall elem_Q (tv l).
  Definition otag_Q (o : option tag) : Prop := match o with Some t => Q t | None => True end.
  Definition wb_Q (b : wblock) : Prop :=
    Forall tl_Q (wtext b) /\ tl_Q (wline b) /\ Forall elem_Q (wword b) /\ otag_Q (spacetag b).

  Lemma tl_new_Q : tl_Q tl_new.
  Proof. constructor. Qed.

  Lemma v_push_merge_Q s t : forall v, Forall elem_Q v -> Q t -> Forall elem_Q (v_push_merge v s t).
  Proof.
    induction v as [|e v IH]; intros Hv Ht; cbn [v_push_merge].
    - constructor; [exact Ht|constructor].
    - inversion Hv as [|? ? He Hv']; subst. destruct v as [|e' v'].
      + destruct e as [s0 t0|nm].
        * destruct (tag_eqb t0 t).
          -- constructor; [exact He|constructor].
          -- constructor; [exact He|]. constructor; [exact Ht|constructor].
        * constructor; [exact He|]. constructor; [exact Ht|constructor].
      + constructor; [exact He|]. apply IH; assumption.
  Qed.

  Lemma tl_push_str_Q l s t : tl_Q l -> Q t -> tl_Q (tl_push_str l s t).
  Proof.
    intros Hl Ht. unfold tl_push_str. destruct s as [|c s]; [exact Hl|].
    unfold tl_Q. cbn [tv]. apply v_push_merge_Q; assumption.
  Qed.

  Lemma tl_push_Q l e : tl_Q l -> elem_Q e -> tl_Q (tl_push l e).
  Proof.
    intros Hl He. destruct e as [s t|nm]; cbn [tl_push].
    - apply tl_push_str_Q; assumption.
    - unfold tl_Q. cbn [tv]. apply Forall_app. split; [exact Hl|]. constructor; [exact I|constructor].
  Qed.

  Lemma tl_push_char_Q l c t : tl_Q l -> Q t -> tl_Q (tl_push_char l c t).
  Proof. intros Hl Ht. unfold tl_push_char, tl_Q. cbn [tv]. apply v_push_merge_Q; assumption. Qed.

  Lemma tl_push_wsl_Q lb l n t : tl_Q l -> Q t -> tl_Q (tl_push_wsl lb l n t).
  Proof. apply tl_push_str_Q. Qed.

  Lemma fold_push_Q : forall els l, tl_Q l -> Forall elem_Q els -> tl_Q (fold_left tl_push els l).
  Proof.
    induction els as [|e els IH]; intros l Hl He; cbn [fold_left]; [exact Hl|].
    inversion He; subst. apply IH; [apply tl_push_Q|]; assumption.
  Qed.

  Lemma tl_consume_Q l o : tl_Q l -> tl_Q o -> tl_Q (tl_consume l o).
  Proof. intros Hl Ho. apply fold_push_Q; assumption. Qed.

  Lemma tl_insert_front_Q l s t : tl_Q l -> Q t -> tl_Q (tl_insert_front l s t).
  Proof.
    intros Hl Ht. unfold tl_insert_front, tl_Q in *. destruct (tv l) as [|e v] eqn:E; cbn [tv].
    - constructor; [exact Ht|constructor].
    - destruct e as [s1 t1|nm].
      + inversion Hl as [|? ? He Hv]; subst. destruct (tag_eqb t1 t); cbn [tv].
        * constructor; [exact He|exact Hv].
        * rewrite E. constructor; [exact Ht|exact Hl].
      + rewrite E. constructor; [exact Ht|exact Hl].
  Qed.

  Lemma tl_pad_to_Q l w t l' : tl_Q l -> Q t -> tl_pad_to l w t = Ok l' -> tl_Q l'.
  Proof.
    intros Hl Ht H. unfold tl_pad_to in H. bind_inv H x Hx.
    destruct (x <? w); ok_inv H; [apply tl_push_wsl_Q; assumption|exact Hl].
  Qed.

  (* ---- wrapping block ---- *)
  Lemma wb_Q_set_line b l : wb_Q b -> tl_Q l -> wb_Q (set_line b l).
  Proof. intros (A & B & C & D) Hl. unfold wb_Q. cbn. auto. Qed.
  Lemma wb_Q_set_space b st n : wb_Q b -> otag_Q st -> wb_Q (set_space b st n).
  Proof. intros (A & B & C & D) Hl. unfold wb_Q. cbn. auto. Qed.
  Lemma wb_Q_set_word b w n : wb_Q b -> Forall elem_Q w -> wb_Q (set_word b w n).
  Proof. intros (A & B & C & D) Hl. unfold wb_Q. cbn. auto. Qed.
  Lemma wb_Q_set_prew b p : wb_Q b -> wb_Q (set_prew b p).
  Proof. intros (A & B & C & D). unfold wb_Q. cbn. auto. Qed.

  Lemma force_flush_line_Q b b' : wb_Q b -> force_flush_line b = Ok b' -> wb_Q b'.
  Proof.
    intros (A & B & C & D) H. unfold force_flush_line in H. bind_inv H l Hl. ok_inv H.
    assert (Hlq : tl_Q l).
    { destruct (pad_blocks b); [|ok_inv Hl; exact B].
      eapply tl_pad_to_Q; [exact B| |exact Hl]. destruct (spacetag b); [exact D|exact Qnil]. }
    unfold wb_Q. cbn. repeat split; auto.
    - apply Forall_app. split; [exact A|]. constructor; [exact Hlq|constructor].
    - apply tl_new_Q.
  Qed.

  Lemma flush_line_Q b b' : wb_Q b -> flush_line b = Ok b' -> wb_Q b'.
  Proof.
    intros Hb H. unfold flush_line in H. destruct (tl_is_empty (wline b)); [ok_inv H; exact Hb|].
    eapply force_flush_line_Q; eassumption.
  Qed.

  Lemma hw_piece_Q t w : forall fuel b rest consumed lineleft wpos r,
    wb_Q b -> Q t -> hw_piece fuel b t w rest consumed lineleft wpos = Ok r -> wb_Q (fst r).
  Proof.
    induction fuel as [|f IH]; intros b rest consumed lineleft wpos r Hb Ht H; cbn [hw_piece] in H;
      [discriminate|].
    bind_inv H rm Hrm. destruct (lineleft <? rm).
    - bind_inv H sc Hsc. destruct sc as [[taken ll'] wpos']. bind_inv H b2 Hb2.
      eapply IH; [|exact Ht|exact H].
      eapply force_flush_line_Q; [|exact Hb2].
      apply wb_Q_set_line; [exact Hb|]. apply tl_push_Q; [apply Hb|exact Ht].
    - destruct (negb consumed).
      + bind_inv H ll Hll. ok_inv H. cbn [fst].
        apply wb_Q_set_line; [exact Hb|]. apply tl_push_Q; [apply Hb|exact Ht].
      + destruct rest as [|c rest]; [ok_inv H; exact Hb|].
        bind_inv H ll Hll. ok_inv H. cbn [fst].
        apply wb_Q_set_line; [exact Hb|]. apply tl_push_Q; [apply Hb|exact Ht].
  Qed.

  Lemma hw_elems_Q : forall els b lineleft b',
    wb_Q b -> Forall elem_Q els -> hw_elems b els lineleft = Ok b' -> wb_Q b'.
  Proof.
    induction els as [|e els IH]; intros b lineleft b' Hb He H; cbn [hw_elems] in H;
      [ok_inv H; exact Hb|].
    inversion He as [|? ? He1 He2]; subst. destruct e as [s t|nm].
    - bind_inv H r Hr. destruct r as [b1 ll]. eapply IH; [|exact He2|exact H].
      apply (hw_piece_Q _ _ _ _ _ _ _ _ _ Hb He1 Hr).
    - eapply IH; [|exact He2|exact H]. apply wb_Q_set_line; [exact Hb|].
      apply tl_push_Q; [apply Hb|exact I].
  Qed.

  Lemma flush_word_hard_wrap_Q b b' : wb_Q b -> flush_word_hard_wrap b = Ok b' -> wb_Q b'.
  Proof.
    intros Hb H. unfold flush_word_hard_wrap in H. bind_inv H ll Hll.
    eapply hw_elems_Q; [|apply Hb|exact H]. apply wb_Q_set_word; [exact Hb|constructor].
  Qed.

  Lemma ws_loop_Q : forall fuel b b', wb_Q b -> ws_loop fuel b = Ok b' -> wb_Q b'.
  Proof.
    induction fuel as [|f IH]; intros b b' Hb H; cbn [ws_loop] in H.
    - destruct (wslen b =? 0); [ok_inv H; exact Hb|discriminate].
    - destruct (wslen b =? 0); [ok_inv H; exact Hb|].
      destruct (wwidth b =? 0); [ok_inv H; apply wb_Q_set_space; [exact Hb|apply Hb]|].
      destruct (spacetag b) as [st|] eqn:Es; [|discriminate].
      bind_inv H b2 Hb2. eapply IH; [|exact H].
      assert (Hb1 : wb_Q (set_line b (tl_push_wsl L_space (wline b) (N.min (wslen b) (wwidth b)) st))).
      { apply wb_Q_set_line; [exact Hb|]. apply tl_push_wsl_Q; [apply Hb|].
        destruct Hb as (_ & _ & _ & D). rewrite Es in D. exact D. }
      assert (Hb2q : wb_Q b2).
      { destruct (N.min (wslen b) (wwidth b) =? wwidth b).
        - eapply flush_line_Q; [exact Hb1|exact Hb2].
        - ok_inv Hb2. exact Hb1. }
      apply wb_Q_set_space; [exact Hb2q|apply Hb2q].
  Qed.

  Lemma flush_word_Q b m b' : wb_Q b -> flush_word b m = Ok b' -> wb_Q b'.
  Proof.
    intros Hb H. unfold flush_word in H.
    destruct (word_is_empty (wword b)); [ok_inv H; apply wb_Q_set_word; [exact Hb|apply Hb]|].
    bind_inv H sil Hsil.
    assert (Hst : forall st, spacetag b = Some st -> Q st).
    { intros st Es. destruct Hb as (_ & _ & _ & D). rewrite Es in D. exact D. }
    destruct (wslen b + wordlen b <=? sil).
    - bind_inv H b1 Hb1. ok_inv H.
      assert (Hb1q : wb_Q b1).
      { destruct (0 <? wslen b); [|ok_inv Hb1; exact Hb].
        destruct (spacetag b) as [st|] eqn:Es; [|discriminate]. ok_inv Hb1.
        apply wb_Q_set_space; [|exact I]. apply wb_Q_set_line; [exact Hb|].
        apply tl_push_Q; [apply Hb|]. cbn [elem_Q]. auto. }
      apply wb_Q_set_word; [|constructor]. apply wb_Q_set_line; [exact Hb1q|].
      apply fold_push_Q; apply Hb1q.
    - bind_inv H b1 Hb1. bind_inv H b2 Hb2. bind_inv H b4 Hb4. bind_inv H b6 Hb6. ok_inv H.
      assert (Hb1q : wb_Q b1).
      { destruct (negb (do_wrap m)).
        - destruct (sil <=? wslen b); [ok_inv Hb1; apply wb_Q_set_space; [exact Hb|apply Hb]|].
          destruct (0 <? wslen b); [|ok_inv Hb1; exact Hb].
          destruct (spacetag b) as [st|] eqn:Es; [|discriminate]. ok_inv Hb1.
          apply wb_Q_set_space; [|exact I]. apply wb_Q_set_line; [exact Hb|].
          apply tl_push_wsl_Q; [apply Hb|auto].
        - ok_inv Hb1. apply wb_Q_set_space; [exact Hb|exact I]. }
      pose proof (flush_line_Q _ _ Hb1q Hb2) as Hb2q.
      assert (Hb3q : wb_Q (if is_pre m then set_prew b2 true else b2)).
      { destruct (is_pre m); [apply wb_Q_set_prew|]; exact Hb2q. }
      pose proof (ws_loop_Q _ _ _ Hb3q Hb4) as Hb4q.
      assert (Hb5q : wb_Q (set_space b4 None (wslen b4))) by (apply wb_Q_set_space; [exact Hb4q|exact I]).
      pose proof (flush_word_hard_wrap_Q _ _ Hb5q Hb6) as Hb6q.
      apply wb_Q_set_word; [exact Hb6q|apply Hb6q].
  Qed.

  Lemma wb_into_lines_Q b ls : wb_Q b -> wb_into_lines b = Ok ls -> Forall tl_Q ls.
  Proof.
    intros Hb H. unfold wb_into_lines, wb_flush in H. bind_inv H b1 H1. ok_inv H.
    bind_inv H1 b0 H0. pose proof (flush_word_Q _ _ _ Hb H0) as Hq.
    apply (flush_line_Q _ _ Hq H1).
  Qed.

  Lemma take_trailing_fragments_Q b :
    wb_Q b -> wb_Q (fst (take_trailing_fragments b)) /\ Forall elem_Q (snd (take_trailing_fragments b)).
  Proof.
    intros Hb. unfold take_trailing_fragments. destruct (word_is_empty (wword b)); cbn [fst snd].
    - split; [apply wb_Q_set_word; [exact Hb|constructor]|apply Hb].
    - split; [exact Hb|constructor].
  Qed.

  Lemma tab_loop_Q : forall fuel b t tw pos one fl r,
    wb_Q b -> Q t -> Q tw -> tab_loop fuel b t tw pos one fl = Ok r -> wb_Q (fst r).
  Proof.
    induction fuel as [|f IH]; intros b t tw pos one fl r Hb Ht Htw H; cbn [tab_loop] in H.
    - destruct (negb (pos mod 8 =? 0) || negb one); [discriminate|ok_inv H; exact Hb].
    - destruct (negb (pos mod 8 =? 0) || negb one); [|ok_inv H; exact Hb].
      destruct (wwidth b =? 0); [ok_inv H; exact Hb|].
      destruct (wwidth b <=? pos).
      + bind_inv H b1 Hb1. eapply IH; [|exact Htw|exact Htw|exact H].
        eapply flush_line_Q; eassumption.
      + eapply IH; [|exact Ht|exact Htw|exact H].
        apply wb_Q_set_line; [exact Hb|]. apply tl_push_char_Q; [apply Hb|exact Ht].
  Qed.

  Lemma add_char_Q m mt wt b u c r :
    wb_Q b -> Q mt -> Q wt -> add_char m mt wt (b, u) c = Ok r -> wb_Q (fst r).
  Proof.
    intros Hb0 Hm Hw H. unfold add_char in H. bind_inv H b1 Hb1.
    assert (Hb : wb_Q b1).
    { destruct (ws c && (0 <? wordlen b)); [eapply flush_word_Q; eassumption|ok_inv Hb1; exact Hb0]. }
    clear Hb0 Hb1.
    assert (Ht : Q (if u then wt else mt)) by (destruct u; assumption).
    destruct (ws c).
    - destruct (preserve_ws m).
      + destruct (cp c =? 10).
        * bind_inv H b2 Hb2. ok_inv H. cbn [fst]. apply wb_Q_set_prew.
          apply wb_Q_set_space; [|exact I]. eapply force_flush_line_Q; eassumption.
        * destruct (cp c =? 9).
          -- bind_inv H r0 Hr0. ok_inv H. cbn [fst].
             assert (Hr : wb_Q (fst r0)).
             { eapply tab_loop_Q; [exact Hb|exact Ht| |exact Hr0]. destruct (is_pre m); assumption. }
             destruct (is_pre m && snd r0); [apply wb_Q_set_prew|]; exact Hr.
          -- destruct (cw c) as [cwidth|]; [|ok_inv H; exact Hb].
             destruct (wwidth b1 <? tlen_ (wline b1) + wslen b1 + cwidth).
             ++ bind_inv H b2 Hb2.
                assert (Hb2q : wb_Q b2).
                { eapply flush_line_Q; [|exact Hb2]. apply wb_Q_set_space; [exact Hb|apply Hb]. }
                destruct (do_wrap m); ok_inv H; cbn [fst].
                ** apply wb_Q_set_prew. exact Hb2q.
                ** apply wb_Q_set_prew. apply wb_Q_set_space; [exact Hb2q|exact Hw].
             ++ ok_inv H. cbn [fst]. apply wb_Q_set_space; [exact Hb|exact Ht].
      + destruct ((0 <? tlen_ (wline b1)) && (wslen b1 =? 0)); ok_inv H; cbn [fst];
          [apply wb_Q_set_space; [exact Hb|exact Ht]|exact Hb].
    - destruct (cw c) as [cwidth|]; [|ok_inv H; exact Hb]. ok_inv H. cbn [fst].
      match goal with |- wb_Q (set_word ?bb _ _) =>
        assert (Hbb : wb_Q bb) by (destruct (is_pre m && _); [apply wb_Q_set_prew|]; exact Hb)
      end.
      apply wb_Q_set_word; [exact Hbb|]. apply v_push_merge_Q; [apply Hbb|].
      match goal with |- Q (if ?x then _ else _) => destruct x end; assumption.
  Qed.

  Lemma add_chars_Q m mt wt : forall s b u r,
    wb_Q b -> Q mt -> Q wt -> add_chars m mt wt (b, u) s = Ok r -> wb_Q (fst r).
  Proof.
    induction s as [|c s IH]; intros b u r Hb Hm Hw H; cbn [add_chars] in H; [ok_inv H; exact Hb|].
    bind_inv H st' H1. destruct st' as [b1 u1].
    eapply IH; [|exact Hm|exact Hw|exact H]. apply (add_char_Q _ _ _ _ _ _ _ Hb Hm Hw H1).
  Qed.

  (* wb_add_text: only the two tags it is given (and what was there) end up in the block *)
  Lemma wb_add_text_Q b s m mt wt b' :
    wb_Q b -> Q mt -> Q wt -> wb_add_text b s m mt wt = Ok b' -> wb_Q b'.
  Proof.
    intros Hb Hm Hw H. unfold wb_add_text in H. bind_inv H r Hr. ok_inv H.
    eapply add_chars_Q; eassumption.
  Qed.

  Lemma wb_add_element_Q b e : wb_Q b -> elem_Q e -> wb_Q (wb_add_element b e).
  Proof.
    intros Hb He. destruct e as [s t|nm]; cbn [wb_add_element].
    - destruct s; [exact Hb|]. apply wb_Q_set_word; [exact Hb|]. apply v_push_merge_Q; [apply Hb|exact He].
    - apply wb_Q_set_word; [exact Hb|]. apply Forall_app. split; [apply Hb|]. constructor; [exact I|constructor].
  Qed.

  Lemma wb_new_Q w p o : wb_Q (wb_new w p o).
  Proof. unfold wb_Q, wb_new. cbn. repeat split; constructor. Qed.
End TagInv.
