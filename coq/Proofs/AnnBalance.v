(* Proofs/AnnBalance.v -- property C09 at the level of the render-tree model (Render.v):
   annotation stacks are balanced over every node, and every tag stored in a sub-renderer
   comes from the annotation stack that was current when it was made.
   Partial correctness (only the Ok outcome is considered), for ALL render trees, decorators,
   options and states; no hypotheses on the input, nothing assumed.

   MAIN THEOREMS (section 5)

   meta_of s = (width, options, annotation stack, strikeout-filter depth, preformat depth,
                white-space mode stack) of a sub-renderer.

   (1) BALANCE
     render_node_balanced :
       render_node d mw n st = Ok st' -> stack st = s :: rest ->
       exists s', stack st' = s' :: rest /\ meta_of s' = meta_of s.
         (the sub-renderers below the top one are literally unchanged, so the stack depth is
          restored; the top one gets its annotation stack, filter depth, preformat depth and
          white-space modes back: nothing leaks past the end of an element.  All node kinds:
          styled nodes, links, images, tables/rows/cells, lists, pre.)
     render_node_balanced_fields : the same, field by field.
     render_kids_balanced        : the same for a list of nodes.
     new_sub_renderer_meta, sub_renderer_balanced :
       a nested sub-renderer (heading, quote, list item, dd, table cell) starts with
       (w, options, annotation stack, strikeout-filter depth, preformat depth, white-space
       mode stack of the parent) and has exactly that meta part again when it is popped; the
       parent stack is as before.
     render_tree_balanced : render_tree d mw o width tree = Ok s ->
                            meta_of s = (width, o, [], 0, 0, []).

   (2) ENCLOSING ANNOTATIONS
     sub_Q Q s = every tag stored in s satisfies Q: finished lines (text pieces and border
     lines), pending fragment markers, the open wrapping block (finished lines, current line,
     current word, tag of the pending inter-word space).
     render_node_tags (the invariant; render_kids_tags for lists of nodes) :
       Q [] -> render_node d mw n st = Ok st' -> stack st = s :: rest ->
       (forall x, Q (ann_stack s ++ x)) -> sub_Q Q s ->
       exists s', stack st' = s' :: rest /\ meta_of s' = meta_of s /\ sub_Q Q s'.
     render_node_new_tags ("old or new"; render_kids_new_tags) :
       ... sub_Q Qold s -> ... sub_Q (fun t => Qold t \/ t = [] \/ ext (ann_stack s) t) s'
       i.e. every tag that was not there before extends the annotation stack at entry --
       document text, decorator text, list/quote/heading prefixes, table borders, cell padding
       and column separators -- or is the EMPTY tag.  Who carries what, according to the model:
         * prefixes (append_subrender), horizontal borders, table cell padding, separators and
           row borders carry the annotation stack of the renderer they are added to
           (attach_prefixes_Q, add_horizontal_border_width_Q, append_columns_Q, vert_cols_Q);
         * block padding (pad_block_width, force_flush_line) carries the tag of the pending
           inter-word space if there is one, else the empty tag [] (force_flush_line_Q) --
           this is why Q [] is required;
         * the footnote list of render_tree carries [ADefault] (not part of render_node).
     sub_renderer_tags : a popped sub-renderer only contains tags extending the parent's stack
       (or []).
     text_leaf_tags : for RN (IText t) sty the new tags are EXACTLY
         A                         (A = stack at entry ++ colour annotations of sty), or
         A ++ [d_pre_first d] / A ++ [d_pre_cont d]  when the preformat depth is positive
       (or [] for padding).
     inline_element_tags : for <em>/<strong>/<s>/<code> (with any style) every new tag
       extends  stack at entry ++ colours of the style ++ [the element's annotation]:
       opening/closing decorator text and all descendants through any nesting.
     For links/superscript/dt the same follows from meta_start_deco (what is pushed) +
     render_kids_new_tags (children) + balance; the footnote marker [n] of a link is added
     AFTER the link annotation is popped, so it does not carry it.

   (3) "concatenating the pieces of a line gives the string output" is already
       ApiProofs.rline_string_into_tagged / routes_agree (Props/C10.v); not repeated.

   FINDINGS (section 7; examples computed in the model, confirmed on the implementation)
     F1  (REPAIRED in Sub.new_sub_renderer) new_sub_renderer used to copy only the annotation
         stack: preformat depth and white-space mode were NOT inherited, so text in a list item /
         quote / heading / dd / table cell inside <pre> lost the Preformat annotation and its
         white space.  Now they are inherited (f1_pre_kept_in_sub_renderer).
     F2  (REPAIRED likewise) the strikeout text filter was not inherited either (struck text
         inside a nested block was not struck with the plain decorator although it carried
         Strikeout with the rich one).  Now it is (f2_strike_filter_kept_in_sub_renderer).
     F3  block padding takes the tag of the last pending inter-word space even if that element
         is closed: <p>x<em> </em></p> with pad_block_width pads the line with spaces tagged
         Emphasis (a leak past the end of the element, padding only).

   STRUCTURE
     1  meta part, preserved by every content operation of the sub-renderer
     2  tags in tagged lines / wrapping blocks (every WrappedBlock operation)
     3  tags in sub-renderers (lines, prefixes, tables)
     4  render layer: opT/stT (effect on the meta part + tag invariant), styles
        (apply_style/unwind are inverse: h_g_style), node_T_all by induction on the tree
     5  main theorems, 6 non-vacuity examples, 7 findings *)
From H2T Require Import Base Tagged Wrap Sub Css Dom Render Api.
From H2T Require Import Proofs.RenderWidth.
From Coq Require Import Lia ZifyN ZifyBool ZifyNat.

Local Arguments N.add : simpl never.
Local Arguments N.sub : simpl never.
Local Arguments N.mul : simpl never.
Local Arguments N.div : simpl never.
Local Arguments N.modulo : simpl never.
Local Arguments N.leb : simpl never.
Local Arguments N.ltb : simpl never.
Local Arguments N.eqb : simpl never.
Local Arguments N.min : simpl never.
Local Arguments N.max : simpl never.
Local Arguments N.to_nat : simpl never.
Local Arguments N.of_nat : simpl never.
Local Open Scope N_scope.

(* ================================================================== *)
(* 1. The "meta" part of a sub-renderer                                 *)
(* ================================================================== *)

(* Everything in a sub-renderer that is not rendered content: width, options, annotation
   stack, strikeout text-filter depth, preformat depth, white-space mode stack. *)
Record meta := mkmeta {
  m_w : N; m_o : ropts; m_ann : tag; m_filt : nat; m_pre : N; m_ws : list wsmode }.

Definition meta_of (s : subr) : meta :=
  mkmeta (swidth_ s) (sopts s) (ann_stack s) (filter_depth s) (pre_depth s) (ws_stack s).

Definition idm (m : meta) : meta := m.
Definition m_push (a : ann) (m : meta) : meta :=
  mkmeta (m_w m) (m_o m) (m_ann m ++ [a]) (m_filt m) (m_pre m) (m_ws m).
Definition m_pop (m : meta) : meta :=
  mkmeta (m_w m) (m_o m) (removelast (m_ann m)) (m_filt m) (m_pre m) (m_ws m).
Definition m_ws_push (w : wsmode) (m : meta) : meta :=
  mkmeta (m_w m) (m_o m) (m_ann m) (m_filt m) (m_pre m) (w :: m_ws m).
Definition m_ws_pop (m : meta) : meta :=
  mkmeta (m_w m) (m_o m) (m_ann m) (m_filt m) (m_pre m) (tl (m_ws m)).
Definition m_pre_inc (m : meta) : meta :=
  mkmeta (m_w m) (m_o m) (m_ann m) (m_filt m) (m_pre m + 1) (m_ws m).
Definition m_pre_dec (m : meta) : meta :=
  mkmeta (m_w m) (m_o m) (m_ann m) (m_filt m) (m_pre m - 1) (m_ws m).
Definition m_filt_inc (m : meta) : meta :=
  if o_strike (m_o m)
  then mkmeta (m_w m) (m_o m) (m_ann m) (S (m_filt m)) (m_pre m) (m_ws m) else m.
Definition m_filt_dec (m : meta) : meta :=
  if o_strike (m_o m)
  then mkmeta (m_w m) (m_o m) (m_ann m) (Nat.pred (m_filt m)) (m_pre m) (m_ws m) else m.

Lemma meta_add_line s l : meta_of (add_line s l) = meta_of s.
Proof. unfold add_line. destruct (pending_frags s); destruct l; reflexivity. Qed.

Lemma meta_extend_lines ls : forall s, meta_of (extend_lines s ls) = meta_of s.
Proof.
  unfold extend_lines. induction ls as [|l ls IH]; intros s; cbn [fold_left]; [reflexivity|].
  rewrite IH. apply meta_add_line.
Qed.

Lemma meta_flush_wrapping s s' : flush_wrapping s = Ok s' -> meta_of s' = meta_of s.
Proof.
  unfold flush_wrapping. destruct (wrapping s) as [w|]; [|intros H; ok_inv H; reflexivity].
  destruct (take_trailing_fragments w) as [w1 frags]. intros H. bind_inv H lm Hlm. ok_inv H.
  transitivity (meta_of (extend_lines (set_wrapping s None) (map RText (fst lm)))); [reflexivity|].
  rewrite meta_extend_lines. reflexivity.
Qed.

Lemma meta_add_empty_line s s' : add_empty_line s = Ok s' -> meta_of s' = meta_of s.
Proof.
  unfold add_empty_line. intros H. bind_inv H s1 H1. ok_inv H.
  transitivity (meta_of (add_line s1 (RText tl_new))); [reflexivity|].
  rewrite meta_add_line. eapply meta_flush_wrapping, H1.
Qed.

Lemma meta_start_block s s' : start_block s = Ok s' -> meta_of s' = meta_of s.
Proof.
  unfold start_block. intros H. bind_inv H s1 H1. bind_inv H s2 H2. ok_inv H.
  transitivity (meta_of s2); [reflexivity|].
  transitivity (meta_of s1); [|eapply meta_flush_wrapping, H1].
  destruct (existsb rline_has_content (slines s1)).
  - eapply meta_add_empty_line, H2.
  - ok_inv H2. reflexivity.
Qed.

Lemma meta_new_line_hard s s' : new_line_hard s = Ok s' -> meta_of s' = meta_of s.
Proof.
  unfold new_line_hard. intros H. destruct (wrapping s) as [w|].
  - destruct ((wordlen w =? 0) && (tlen_ (wline w) =? 0)).
    + eapply meta_add_empty_line, H.
    + eapply meta_flush_wrapping, H.
  - eapply meta_add_empty_line, H.
Qed.

Lemma meta_add_horizontal_line s b t s' :
  add_horizontal_line s b t = Ok s' -> meta_of s' = meta_of s.
Proof.
  unfold add_horizontal_line. intros H. bind_inv H s1 H1. ok_inv H.
  rewrite meta_add_line. eapply meta_flush_wrapping, H1.
Qed.

Lemma meta_add_horizontal_border_width s w s' :
  add_horizontal_border_width s w = Ok s' -> meta_of s' = meta_of s.
Proof.
  unfold add_horizontal_border_width. intros H. bind_inv H s1 H1. ok_inv H.
  rewrite meta_add_line. eapply meta_flush_wrapping, H1.
Qed.

Lemma meta_add_inline_text d s t s' : add_inline_text d s t = Ok s' -> meta_of s' = meta_of s.
Proof.
  unfold add_inline_text. intros H.
  destruct (negb (preserve_ws (ws_mode s)) && at_block_end s && all_ws t); [ok_inv H; reflexivity|].
  bind_inv H s1 H1. bind_inv H w1 Hw1. ok_inv H.
  transitivity (meta_of s1); [reflexivity|].
  destruct (at_block_end s); [eapply meta_start_block, H1|ok_inv H1; reflexivity].
Qed.

Lemma meta_start_deco d s p s' : start_deco d s p = Ok s' -> meta_of s' = m_push (snd p) (meta_of s).
Proof. unfold start_deco. intros H. apply meta_add_inline_text in H. rewrite H. reflexivity. Qed.

Lemma meta_end_deco d s e s' : end_deco d s e = Ok s' -> meta_of s' = m_pop (meta_of s).
Proof.
  unfold end_deco. intros H. bind_inv H s1 H1. ok_inv H. apply meta_add_inline_text in H1.
  transitivity (m_pop (meta_of s1)); [reflexivity|]. rewrite H1. reflexivity.
Qed.

Lemma meta_start_strikeout d s s' :
  start_strikeout d s = Ok s' -> meta_of s' = m_filt_inc (m_push (snd (d_strike_start d)) (meta_of s)).
Proof.
  unfold start_strikeout. intros H. bind_inv H s1 H1. ok_inv H. apply meta_start_deco in H1.
  rewrite <- H1. unfold m_filt_inc. cbn [m_o meta_of]. destruct (o_strike (sopts s1)); reflexivity.
Qed.

Lemma meta_end_strikeout d s s' :
  end_strikeout d s = Ok s' -> meta_of s' = m_pop (m_filt_dec (meta_of s)).
Proof.
  unfold end_strikeout. intros H. bind_inv H s1 H1. apply meta_end_deco in H. rewrite H. f_equal.
  unfold m_filt_dec. cbn [m_o meta_of]. destruct (o_strike (sopts s)); [|ok_inv H1; reflexivity].
  destruct (filter_depth s) as [|n] eqn:E; [discriminate|]. ok_inv H1.
  unfold meta_of. cbn. rewrite E. reflexivity.
Qed.

Lemma meta_add_image d s src title s' : add_image d s src title = Ok s' -> meta_of s' = meta_of s.
Proof.
  unfold add_image. intros H. bind_inv H s1 H1. ok_inv H. apply meta_add_inline_text in H1.
  transitivity (m_pop (meta_of s1)); [reflexivity|]. rewrite H1.
  unfold m_pop, meta_of, push_ann. cbn. rewrite removelast_last. reflexivity.
Qed.

Lemma meta_append_subrender s other first rest s' :
  append_subrender s other first rest = Ok s' -> meta_of s' = meta_of s.
Proof.
  unfold append_subrender. intros H. bind_inv H s1 H1. bind_inv H ols H2. ok_inv H.
  rewrite meta_extend_lines. eapply meta_flush_wrapping, H1.
Qed.

Lemma meta_row_lines t draw sets pads : forall n i s,
  meta_of (row_lines t draw n i sets pads s) = meta_of s.
Proof.
  induction n as [|n IH]; intros i s; cbn [row_lines]; [reflexivity|].
  rewrite IH. apply meta_add_line.
Qed.

Lemma meta_append_columns s cols collapse s' :
  append_columns_with_borders s cols collapse = Ok s' -> meta_of s' = meta_of s.
Proof.
  unfold append_columns_with_borders. intros H. bind_inv H s1 H1. bind_inv H sets H2.
  bind_inv H chk H3.
  destruct (match olast (slines s1) with
            | Some (RLine pb pt) =>
              let '(p, n) := join_cols (map fst sets) pb
                               (border_new (sumN (map fst sets) + (N.of_nat (length sets) - 1))) 0 in
              (Some p, n)
            | _ => (None, border_new (sumN (map fst sets) + (N.of_nat (length sets) - 1)))
            end) as [prev1 next1].
  bind_inv H r H4. destruct r as [[[prev3 next3] sets4] pads]. ok_inv H.
  apply meta_flush_wrapping in H1. rewrite <- H1.
  match goal with |- meta_of (if ?c then _ else _) = _ => destruct c end;
    rewrite ?meta_add_line, meta_row_lines; reflexivity.
Qed.

Lemma meta_vert_cols : forall cols s first s',
  vert_cols s cols first = Ok s' -> meta_of s' = meta_of s.
Proof.
  induction cols as [|c cols IH]; intros s first s' H; cbn [vert_cols] in H; [ok_inv H; reflexivity|].
  bind_inv H s1 H1. bind_inv H s2 H2. apply IH in H. rewrite H.
  apply meta_append_subrender in H2. rewrite H2.
  destruct (negb first && o_borders (sopts s)).
  - eapply meta_add_horizontal_line, H1.
  - ok_inv H1. reflexivity.
Qed.

Lemma meta_append_vert_row s cols s' : append_vert_row s cols = Ok s' -> meta_of s' = meta_of s.
Proof.
  unfold append_vert_row. intros H. bind_inv H s1 H1. bind_inv H s2 H2.
  apply meta_flush_wrapping in H1. apply meta_vert_cols in H2.
  destruct (o_borders (sopts s2)).
  - apply meta_add_horizontal_border_width in H. congruence.
  - ok_inv H. congruence.
Qed.

Lemma meta_fl_chars t : forall cs s buf wl pos,
  meta_of (fst (fst (fst (fl_chars s t cs buf wl pos)))) = meta_of s.
Proof.
  induction cs as [|c cs IH]; intros s buf wl pos; cbn [fl_chars]; [reflexivity|].
  destruct (swidth_ s <? pos + cw0 c); rewrite IH; [apply meta_add_line|reflexivity].
Qed.

Lemma meta_fl_strings : forall strs s wl pos, meta_of (fst (fl_strings s strs wl pos)) = meta_of s.
Proof.
  induction strs as [|[str tg] strs IH]; intros s wl pos; cbn [fl_strings]; [reflexivity|].
  destruct (o_wrap_links (sopts s) && (swidth_ s <? pos + swidth (nl_to_space str))).
  - pose proof (meta_fl_chars [ADefault] (nl_to_space str) s [] wl pos) as E.
    destruct (fl_chars s [ADefault] (nl_to_space str) [] wl pos) as [[[s1 buf] wl1] pos1].
    cbn [fst] in E. rewrite IH. exact E.
  - apply IH.
Qed.

Lemma meta_fmt_links : forall links s, meta_of (fmt_links s links) = meta_of s.
Proof.
  induction links as [|l links IH]; intros s; cbn [fmt_links]; [reflexivity|].
  pose proof (meta_fl_strings (tl_tagged_strings l) s tl_new 0) as E.
  destruct (fl_strings s (tl_tagged_strings l) tl_new 0) as [s1 wl]. cbn [fst] in E.
  rewrite IH, meta_add_line. exact E.
Qed.

(* ================================================================== *)
(* 2. Tags stored in tagged lines and wrapping blocks                   *)
(* ================================================================== *)

Section TagInv.
  (* Q is any property of tags that holds of the empty tag (the tag of block padding, see
     force_flush_line).  The lemmas say: every operation keeps "all stored tags satisfy Q"
     provided the tags it is given satisfy Q. *)
  Variable Q : tag -> Prop.
  Hypothesis Qnil : Q [].

  Definition elem_Q (e : elem) : Prop := match e with Str _ t => Q t | Frag _ => True end.
  Definition tl_Q (l : tline) : Prop := Forall elem_Q (tv l).
  Definition otag_Q (o : option tag) : Prop := match o with Some t => Q t | None => True end.
  Definition wb_Q (b : wblock) : Prop :=
    Forall tl_Q (wtext b) /\ tl_Q (wline b) /\ Forall elem_Q (wword b) /\ otag_Q (spacetag b).

  Lemma tl_new_Q : tl_Q tl_new.
  Proof. constructor. Qed.

  Lemma v_push_merge_Q s t : forall v, Forall elem_Q v -> Q t -> Forall elem_Q (v_push_merge v s t).
  Proof.
    induction v as [|e v IH]; intros Hv Ht; cbn [v_push_merge].
    - constructor; [exact Ht|constructor].
    - inversion Hv as [|? ? He Hv']; subst. destruct v as [|e' v'].
      + destruct e as [s0 t0|nm].
        * destruct (tag_eqb t0 t).
          -- constructor; [exact He|constructor].
          -- constructor; [exact He|]. constructor; [exact Ht|constructor].
        * constructor; [exact He|]. constructor; [exact Ht|constructor].
      + constructor; [exact He|]. apply IH; assumption.
  Qed.

  Lemma tl_push_str_Q l s t : tl_Q l -> Q t -> tl_Q (tl_push_str l s t).
  Proof.
    intros Hl Ht. unfold tl_push_str. destruct s as [|c s]; [exact Hl|].
    unfold tl_Q. cbn [tv]. apply v_push_merge_Q; assumption.
  Qed.

  Lemma tl_push_Q l e : tl_Q l -> elem_Q e -> tl_Q (tl_push l e).
  Proof.
    intros Hl He. destruct e as [s t|nm]; cbn [tl_push].
    - apply tl_push_str_Q; assumption.
    - unfold tl_Q. cbn [tv]. apply Forall_app. split; [exact Hl|]. constructor; [exact I|constructor].
  Qed.

  Lemma tl_push_char_Q l c t : tl_Q l -> Q t -> tl_Q (tl_push_char l c t).
  Proof. intros Hl Ht. unfold tl_push_char, tl_Q. cbn [tv]. apply v_push_merge_Q; assumption. Qed.

  Lemma tl_push_wsl_Q lb l n t : tl_Q l -> Q t -> tl_Q (tl_push_wsl lb l n t).
  Proof. apply tl_push_str_Q. Qed.

  Lemma fold_push_Q : forall els l, tl_Q l -> Forall elem_Q els -> tl_Q (fold_left tl_push els l).
  Proof.
    induction els as [|e els IH]; intros l Hl He; cbn [fold_left]; [exact Hl|].
    inversion He; subst. apply IH; [apply tl_push_Q|]; assumption.
  Qed.

  Lemma tl_consume_Q l o : tl_Q l -> tl_Q o -> tl_Q (tl_consume l o).
  Proof. intros Hl Ho. apply fold_push_Q; assumption. Qed.

  Lemma tl_insert_front_Q l s t : tl_Q l -> Q t -> tl_Q (tl_insert_front l s t).
  Proof.
    intros Hl Ht. unfold tl_insert_front, tl_Q in *. destruct (tv l) as [|e v] eqn:E; cbn [tv].
    - constructor; [exact Ht|constructor].
    - destruct e as [s1 t1|nm].
      + inversion Hl as [|? ? He Hv]; subst. destruct (tag_eqb t1 t); cbn [tv].
        * constructor; [exact He|exact Hv].
        * constructor; [exact Ht|exact Hl].
      + constructor; [exact Ht|exact Hl].
  Qed.

  Lemma tl_pad_to_Q l w t l' : tl_Q l -> Q t -> tl_pad_to l w t = Ok l' -> tl_Q l'.
  Proof.
    intros Hl Ht H. unfold tl_pad_to in H. bind_inv H x Hx.
    destruct (x <? w); ok_inv H; [apply tl_push_wsl_Q; assumption|exact Hl].
  Qed.

  (* ---- wrapping block ---- *)
  Lemma wb_Q_set_line b l : wb_Q b -> tl_Q l -> wb_Q (set_line b l).
  Proof. intros (A & B & C & D) Hl. unfold wb_Q. cbn. auto. Qed.
  Lemma wb_Q_set_space b st n : wb_Q b -> otag_Q st -> wb_Q (set_space b st n).
  Proof. intros (A & B & C & D) Hl. unfold wb_Q. cbn. auto. Qed.
  Lemma wb_Q_set_word b w n : wb_Q b -> Forall elem_Q w -> wb_Q (set_word b w n).
  Proof. intros (A & B & C & D) Hl. unfold wb_Q. cbn. auto. Qed.
  Lemma wb_Q_set_prew b p : wb_Q b -> wb_Q (set_prew b p).
  Proof. intros (A & B & C & D). unfold wb_Q. cbn. auto. Qed.

  Lemma force_flush_line_Q b b' : wb_Q b -> force_flush_line b = Ok b' -> wb_Q b'.
  Proof.
    intros (A & B & C & D) H. unfold force_flush_line in H. bind_inv H l Hl. ok_inv H.
    assert (Hlq : tl_Q l).
    { destruct (pad_blocks b); [|ok_inv Hl; exact B].
      eapply tl_pad_to_Q; [exact B| |exact Hl]. destruct (spacetag b); [exact D|exact Qnil]. }
    unfold wb_Q. cbn. repeat split; auto.
    - apply Forall_app. split; [exact A|]. constructor; [exact Hlq|constructor].
    - apply tl_new_Q.
  Qed.

  Lemma flush_line_Q b b' : wb_Q b -> flush_line b = Ok b' -> wb_Q b'.
  Proof.
    intros Hb H. unfold flush_line in H. destruct (tl_is_empty (wline b)); [ok_inv H; exact Hb|].
    eapply force_flush_line_Q; eassumption.
  Qed.

  Lemma hw_piece_Q t w : forall fuel b rest consumed lineleft wpos r,
    wb_Q b -> Q t -> hw_piece fuel b t w rest consumed lineleft wpos = Ok r -> wb_Q (fst r).
  Proof.
    induction fuel as [|f IH]; intros b rest consumed lineleft wpos r Hb Ht H; cbn [hw_piece] in H;
      [discriminate|].
    bind_inv H rm Hrm. destruct (lineleft <? rm).
    - bind_inv H sc Hsc. destruct sc as [[taken ll'] wpos']. bind_inv H b2 Hb2.
      eapply IH; [|exact Ht|exact H].
      eapply force_flush_line_Q; [|exact Hb2].
      apply wb_Q_set_line; [exact Hb|]. first [apply tl_push_str_Q|apply tl_push_Q|unfold tl_Q; cbn [tv]; apply v_push_merge_Q]; [apply Hb|exact Ht].
    - destruct (negb consumed).
      + bind_inv H ll Hll. ok_inv H. cbn [fst].
        apply wb_Q_set_line; [exact Hb|]. first [apply tl_push_str_Q|apply tl_push_Q|unfold tl_Q; cbn [tv]; apply v_push_merge_Q]; [apply Hb|exact Ht].
      + destruct rest as [|c rest]; [ok_inv H; exact Hb|].
        bind_inv H ll Hll. ok_inv H. cbn [fst].
        apply wb_Q_set_line; [exact Hb|]. first [apply tl_push_str_Q|apply tl_push_Q|unfold tl_Q; cbn [tv]; apply v_push_merge_Q]; [apply Hb|exact Ht].
  Qed.

  Lemma hw_elems_Q : forall els b lineleft b',
    wb_Q b -> Forall elem_Q els -> hw_elems b els lineleft = Ok b' -> wb_Q b'.
  Proof.
    induction els as [|e els IH]; intros b lineleft b' Hb He H; cbn [hw_elems] in H;
      [ok_inv H; exact Hb|].
    inversion He as [|? ? He1 He2]; subst. destruct e as [s t|nm].
    - bind_inv H r Hr. destruct r as [b1 ll]. eapply IH; [|exact He2|exact H].
      apply (hw_piece_Q _ _ _ _ _ _ _ _ _ Hb He1 Hr).
    - eapply IH; [|exact He2|exact H]. apply wb_Q_set_line; [exact Hb|].
      apply tl_push_Q; [apply Hb|exact I].
  Qed.

  Lemma flush_word_hard_wrap_Q b b' : wb_Q b -> flush_word_hard_wrap b = Ok b' -> wb_Q b'.
  Proof.
    intros Hb H. unfold flush_word_hard_wrap in H. bind_inv H ll Hll.
    eapply hw_elems_Q; [|apply Hb|exact H]. apply wb_Q_set_word; [exact Hb|constructor].
  Qed.

  Lemma ws_loop_Q : forall fuel b b', wb_Q b -> ws_loop fuel b = Ok b' -> wb_Q b'.
  Proof.
    induction fuel as [|f IH]; intros b b' Hb H; cbn [ws_loop] in H.
    - destruct (wslen b =? 0); [ok_inv H; exact Hb|discriminate].
    - destruct (wslen b =? 0); [ok_inv H; exact Hb|].
      destruct (wwidth b =? 0); [ok_inv H; apply wb_Q_set_space; [exact Hb|apply Hb]|].
      destruct (spacetag b) as [st|] eqn:Es; [|discriminate].
      bind_inv H b2 Hb2. eapply IH; [|exact H].
      assert (Hb1 : wb_Q (set_line b (tl_push_wsl L_space (wline b) (N.min (wslen b) (wwidth b)) st))).
      { apply wb_Q_set_line; [exact Hb|]. apply tl_push_wsl_Q; [apply Hb|].
        destruct Hb as (_ & _ & _ & D). rewrite Es in D. exact D. }
      assert (Hb2q : wb_Q b2).
      { destruct (N.min (wslen b) (wwidth b) =? wwidth b).
        - eapply flush_line_Q; [exact Hb1|exact Hb2].
        - ok_inv Hb2. exact Hb1. }
      apply wb_Q_set_space; [exact Hb2q|apply Hb2q].
  Qed.

  Lemma flush_word_Q b m b' : wb_Q b -> flush_word b m = Ok b' -> wb_Q b'.
  Proof.
    intros Hb H. unfold flush_word in H.
    destruct (word_is_empty (wword b)); [ok_inv H; apply wb_Q_set_word; [exact Hb|apply Hb]|].
    bind_inv H sil Hsil.
    assert (Hst : forall st, spacetag b = Some st -> Q st).
    { intros st Es. destruct Hb as (_ & _ & _ & D). rewrite Es in D. exact D. }
    destruct (wslen b + wordlen b <=? sil).
    - bind_inv H b1 Hb1. ok_inv H.
      assert (Hb1q : wb_Q b1).
      { destruct (0 <? wslen b); [|ok_inv Hb1; exact Hb].
        destruct (spacetag b) as [st|] eqn:Es; [|discriminate]. ok_inv Hb1.
        apply wb_Q_set_space; [|exact I]. apply wb_Q_set_line; [exact Hb|].
        apply tl_push_str_Q; [apply Hb|]. auto. }
      apply wb_Q_set_word; [|constructor]. apply wb_Q_set_line; [exact Hb1q|].
      apply fold_push_Q; apply Hb1q.
    - bind_inv H b1 Hb1. bind_inv H b2 Hb2. bind_inv H b4 Hb4. bind_inv H b6 Hb6. ok_inv H.
      assert (Hb1q : wb_Q b1).
      { destruct (negb (do_wrap m)).
        - destruct (sil <=? wslen b); [ok_inv Hb1; apply wb_Q_set_space; [exact Hb|apply Hb]|].
          destruct (0 <? wslen b); [|ok_inv Hb1; exact Hb].
          destruct (spacetag b) as [st|] eqn:Es; [|discriminate]. ok_inv Hb1.
          apply wb_Q_set_space; [|exact I]. apply wb_Q_set_line; [exact Hb|].
          apply tl_push_wsl_Q; [apply Hb|auto].
        - ok_inv Hb1. apply wb_Q_set_space; [exact Hb|exact I]. }
      pose proof (flush_line_Q _ _ Hb1q Hb2) as Hb2q.
      assert (Hb3q : wb_Q (if is_pre m then set_prew b2 true else b2)).
      { destruct (is_pre m); [apply wb_Q_set_prew|]; exact Hb2q. }
      pose proof (ws_loop_Q _ _ _ Hb3q Hb4) as Hb4q.
      assert (Hb5q : wb_Q (set_space b4 None (wslen b4))) by (apply wb_Q_set_space; [exact Hb4q|exact I]).
      pose proof (flush_word_hard_wrap_Q _ _ Hb5q Hb6) as Hb6q.
      apply wb_Q_set_word; [exact Hb6q|apply Hb6q].
  Qed.

  Lemma wb_into_lines_Q b ls : wb_Q b -> wb_into_lines b = Ok ls -> Forall tl_Q ls.
  Proof.
    intros Hb H. unfold wb_into_lines, wb_flush in H. bind_inv H b1 H1. ok_inv H.
    bind_inv H1 b0 H0. pose proof (flush_word_Q _ _ _ Hb H0) as Hq.
    apply (flush_line_Q _ _ Hq H1).
  Qed.

  Lemma take_trailing_fragments_Q b :
    wb_Q b -> wb_Q (fst (take_trailing_fragments b)) /\ Forall elem_Q (snd (take_trailing_fragments b)).
  Proof.
    intros Hb. rewrite WrapInv.ttf_eq. cbn [fst snd].
    assert (Hw : Forall elem_Q (wword b)) by apply Hb.
    rewrite (WrapInv.tfr_app (wword b)) in Hw. apply Forall_app in Hw. destruct Hw as [Hp Ht].
    split; [apply wb_Q_set_word; [exact Hb|exact Hp]|exact Ht].
  Qed.

  Lemma tab_loop_Q : forall fuel b t tw pos one fl r,
    wb_Q b -> Q t -> Q tw -> tab_loop fuel b t tw pos one fl = Ok r -> wb_Q (fst r).
  Proof.
    induction fuel as [|f IH]; intros b t tw pos one fl r Hb Ht Htw H; cbn [tab_loop] in H.
    - destruct (negb (pos mod 8 =? 0) || negb one); [discriminate|ok_inv H; exact Hb].
    - destruct (negb (pos mod 8 =? 0) || negb one); [|ok_inv H; exact Hb].
      destruct (wwidth b =? 0); [ok_inv H; exact Hb|].
      destruct (wwidth b <=? pos).
      + bind_inv H b1 Hb1. eapply IH; [|exact Htw|exact Htw|exact H].
        eapply flush_line_Q; eassumption.
      + eapply IH; [|exact Ht|exact Htw|exact H].
        apply wb_Q_set_line; [exact Hb|]. apply tl_push_char_Q; [apply Hb|exact Ht].
  Qed.

  Lemma add_char_Q m mt wt b u c r :
    wb_Q b -> Q mt -> Q wt -> add_char m mt wt (b, u) c = Ok r -> wb_Q (fst r).
  Proof.
    intros Hb0 Hm Hw H. unfold add_char in H. bind_inv H b1 Hb1.
    assert (Hb : wb_Q b1).
    { destruct (ws c && (0 <? wordlen b)); [eapply flush_word_Q; eassumption|ok_inv Hb1; exact Hb0]. }
    clear Hb0 Hb1.
    assert (Ht : Q (if u then wt else mt)) by (destruct u; assumption).
    destruct (ws c).
    - destruct (preserve_ws m).
      + destruct (cp c =? 10).
        * bind_inv H b2 Hb2. ok_inv H. cbn [fst]. apply wb_Q_set_prew.
          apply wb_Q_set_space; [|exact I]. eapply force_flush_line_Q; eassumption.
        * destruct (cp c =? 9).
          -- bind_inv H r0 Hr0. ok_inv H. cbn [fst].
             assert (Hr : wb_Q (fst r0)).
             { eapply tab_loop_Q; [exact Hb|exact Ht| |exact Hr0]. destruct (is_pre m); assumption. }
             destruct (is_pre m && snd r0); [apply wb_Q_set_prew|]; exact Hr.
          -- destruct (cw c) as [cwidth|]; [|ok_inv H; exact Hb].
             destruct (wwidth b1 <? tlen_ (wline b1) + wslen b1 + cwidth).
             ++ bind_inv H b2 Hb2.
                assert (Hb2q : wb_Q b2).
                { eapply flush_line_Q; [|exact Hb2]. apply wb_Q_set_space; [exact Hb|apply Hb]. }
                destruct (do_wrap m); ok_inv H; cbn [fst].
                ** apply wb_Q_set_prew. exact Hb2q.
                ** apply wb_Q_set_prew. apply wb_Q_set_space; [exact Hb2q|exact Hw].
             ++ ok_inv H. cbn [fst]. apply wb_Q_set_space; [exact Hb|exact Ht].
      + destruct ((0 <? tlen_ (wline b1)) && (wslen b1 =? 0)); ok_inv H; cbn [fst];
          [apply wb_Q_set_space; [exact Hb|exact Ht]|exact Hb].
    - destruct (cw c) as [cwidth|]; [|ok_inv H; exact Hb]. ok_inv H. cbn [fst].
      match goal with |- wb_Q (set_word ?bb _ _) =>
        assert (Hbb : wb_Q bb) by (destruct (is_pre m && _); [apply wb_Q_set_prew|]; exact Hb)
      end.
      apply wb_Q_set_word; [exact Hbb|]. apply v_push_merge_Q; [apply Hbb|].
      match goal with |- Q (if ?x then _ else _) => destruct x end; assumption.
  Qed.

  Lemma add_chars_Q m mt wt : forall s b u r,
    wb_Q b -> Q mt -> Q wt -> add_chars m mt wt (b, u) s = Ok r -> wb_Q (fst r).
  Proof.
    induction s as [|c s IH]; intros b u r Hb Hm Hw H; cbn [add_chars] in H; [ok_inv H; exact Hb|].
    bind_inv H st' H1. destruct st' as [b1 u1].
    eapply IH; [|exact Hm|exact Hw|exact H]. apply (add_char_Q _ _ _ _ _ _ _ Hb Hm Hw H1).
  Qed.

  (* wb_add_text: only the two tags it is given (and what was there) end up in the block *)
  Lemma wb_add_text_Q b s m mt wt b' :
    wb_Q b -> Q mt -> Q wt -> wb_add_text b s m mt wt = Ok b' -> wb_Q b'.
  Proof.
    intros Hb Hm Hw H. unfold wb_add_text in H. bind_inv H r Hr. ok_inv H.
    apply (add_chars_Q _ _ _ _ _ _ _ Hb Hm Hw Hr).
  Qed.

  Lemma wb_add_element_Q b e : wb_Q b -> elem_Q e -> wb_Q (wb_add_element b e).
  Proof.
    intros Hb He. destruct e as [s t|nm]; cbn [wb_add_element].
    - destruct s; [exact Hb|]. apply wb_Q_set_word; [exact Hb|]. apply v_push_merge_Q; [apply Hb|exact He].
    - apply wb_Q_set_word; [exact Hb|]. apply Forall_app. split; [apply Hb|]. constructor; [exact I|constructor].
  Qed.

  Lemma wb_new_Q w p o : wb_Q (wb_new w p o).
  Proof. unfold wb_Q, wb_new. cbn. repeat split; constructor. Qed.

  (* ================================================================ *)
  (* 3. Tags stored in a sub-renderer                                   *)
  (* ================================================================ *)

  Definition rline_Q (r : rline) : Prop := match r with RText l => tl_Q l | RLine _ t => Q t end.
  Definition owb_Q (o : option wblock) : Prop := match o with Some b => wb_Q b | None => True end.
  (* all tags stored anywhere in the sub-renderer: finished lines (text and borders), pending
     fragment markers, and the open wrapping block (finished lines, current line, current word,
     the tag of the pending inter-word space) *)
  Definition sub_Q (s : subr) : Prop :=
    Forall rline_Q (slines s) /\ Forall elem_Q (pending_frags s) /\ owb_Q (wrapping s).
  Definition set_Q (p : N * list rline) : Prop := Forall rline_Q (snd p).

  (* every extension of t satisfies Q *)
  Definition Qext (t : tag) : Prop := forall x, Q (t ++ x).
  Lemma Qext_self t : Qext t -> Q t.
  Proof. intros H. specialize (H []). rewrite app_nil_r in H. exact H. Qed.
  Lemma Qext_app t x : Qext t -> Qext (t ++ x).
  Proof. intros H y. rewrite <- app_assoc. apply H. Qed.

  Definition main_tag_of (d : deco) (s : subr) : tag :=
    if 0 <? pre_depth s then ann_stack s ++ [d_pre_first d] else ann_stack s.
  Definition cont_tag_of (d : deco) (s : subr) : tag :=
    if 0 <? pre_depth s then ann_stack s ++ [d_pre_cont d] else ann_stack s.
  Lemma Qext_main d s : Qext (ann_stack s) -> Q (main_tag_of d s).
  Proof. intros H. unfold main_tag_of. destruct (0 <? pre_depth s); [apply H|apply Qext_self, H]. Qed.
  Lemma Qext_cont d s : Qext (ann_stack s) -> Q (cont_tag_of d s).
  Proof. intros H. unfold cont_tag_of. destruct (0 <? pre_depth s); [apply H|apply Qext_self, H]. Qed.

  Lemma sub_Q_body s s' :
    slines s' = slines s -> pending_frags s' = pending_frags s -> wrapping s' = wrapping s ->
    sub_Q s -> sub_Q s'.
  Proof. unfold sub_Q. intros -> -> ->. auto. Qed.

  Lemma meta_ann s s' : meta_of s' = meta_of s -> ann_stack s' = ann_stack s.
  Proof. intros E. apply (f_equal m_ann) in E. exact E. Qed.
  Lemma meta_pre s s' : meta_of s' = meta_of s -> pre_depth s' = pre_depth s.
  Proof. intros E. apply (f_equal m_pre) in E. exact E. Qed.

  Lemma add_line_Q s l : sub_Q s -> rline_Q l -> sub_Q (add_line s l).
  Proof.
    intros (A & B & C) Hl. unfold add_line.
    destruct (pending_frags s) as [|e pf] eqn:E; destruct l as [tl|b t]; unfold sub_Q;
      cbn [slines pending_frags wrapping set_lines]; rewrite ?E.
    - split; [|auto]. apply Forall_app. split; [exact A|]. constructor; [exact Hl|constructor].
    - split; [|auto]. apply Forall_app. split; [exact A|]. constructor; [exact Hl|constructor].
    - split; [|split; [constructor|exact C]]. apply Forall_app. split; [exact A|].
      constructor; [|constructor]. cbn [rline_Q] in *.
      apply fold_push_Q; [|exact Hl]. apply fold_push_Q; [apply tl_new_Q|exact B].
    - split; [|auto]. apply Forall_app. split; [exact A|]. constructor; [exact Hl|constructor].
  Qed.

  Lemma extend_lines_Q : forall ls s, sub_Q s -> Forall rline_Q ls -> sub_Q (extend_lines s ls).
  Proof.
    unfold extend_lines. induction ls as [|l ls IH]; intros s Hs Hls; cbn [fold_left]; [exact Hs|].
    inversion Hls; subst. apply IH; [apply add_line_Q|]; assumption.
  Qed.

  Lemma flush_wrapping_Q s s' : sub_Q s -> flush_wrapping s = Ok s' -> sub_Q s'.
  Proof.
    intros (A & B & C) H. unfold flush_wrapping in H.
    destruct (wrapping s) as [w|] eqn:Ew; [|ok_inv H; unfold sub_Q; rewrite Ew; auto].
    cbn [owb_Q] in C. pose proof (take_trailing_fragments_Q w C) as [Hw1 Hfr].
    destruct (take_trailing_fragments w) as [w1 frags]. cbn [fst snd] in *.
    bind_inv H lm Hlm. ok_inv H.
    pose proof (WrapInv.wb_into_lines_markers_fst _ _ Hlm) as Hls.
    assert (Hmk : Forall elem_Q (snd lm)).
    { apply Forall_forall. intros e He.
      destruct (WrapInv.wb_into_lines_markers_frags _ _ Hlm e He) as [n ->]. exact I. }
    destruct lm as [ls mk]. cbn [fst snd] in *.
    pose proof (wb_into_lines_Q _ _ Hw1 Hls) as Hlq.
    assert (S0 : sub_Q (set_wrapping s None)) by (unfold sub_Q; cbn; auto).
    assert (Hls' : Forall rline_Q (map RText ls)).
    { apply Forall_forall. intros r Hr. apply in_map_iff in Hr. destruct Hr as (l & <- & Hl).
      rewrite Forall_forall in Hlq. apply Hlq, Hl. }
    destruct (extend_lines_Q _ _ S0 Hls') as (A1 & B1 & C1).
    unfold sub_Q. cbn [slines pending_frags wrapping set_lines].
    split; [exact A1|]. split; [|exact C1].
    apply Forall_app; split; [assumption|]. apply Forall_app; split; assumption.
  Qed.

  Lemma sub_into_lines_Q s ls : sub_Q s -> sub_into_lines s = Ok ls -> Forall rline_Q ls.
  Proof.
    intros Hs H. unfold sub_into_lines in H. bind_inv H s1 H1. ok_inv H.
    apply (flush_wrapping_Q _ _ Hs H1).
  Qed.

  Lemma set_abe_Q s b : sub_Q s -> sub_Q (set_abe s b).
  Proof. apply sub_Q_body; reflexivity. Qed.

  Lemma add_empty_line_Q s s' : sub_Q s -> add_empty_line s = Ok s' -> sub_Q s'.
  Proof.
    intros Hs H. unfold add_empty_line in H. bind_inv H s1 H1. ok_inv H.
    apply set_abe_Q, add_line_Q; [eapply flush_wrapping_Q; eassumption|apply tl_new_Q].
  Qed.

  Lemma start_block_Q s s' : sub_Q s -> start_block s = Ok s' -> sub_Q s'.
  Proof.
    intros Hs H. unfold start_block in H. bind_inv H s1 H1. bind_inv H s2 H2. ok_inv H.
    apply set_abe_Q. pose proof (flush_wrapping_Q _ _ Hs H1) as Hs1.
    destruct (existsb rline_has_content (slines s1)).
    - eapply add_empty_line_Q; eassumption.
    - ok_inv H2. exact Hs1.
  Qed.

  Lemma new_line_hard_Q s s' : sub_Q s -> new_line_hard s = Ok s' -> sub_Q s'.
  Proof.
    intros Hs H. unfold new_line_hard in H. destruct (wrapping s) as [w|].
    - destruct ((wordlen w =? 0) && (tlen_ (wline w) =? 0)).
      + eapply add_empty_line_Q; eassumption.
      + eapply flush_wrapping_Q; eassumption.
    - eapply add_empty_line_Q; eassumption.
  Qed.

  Lemma add_horizontal_line_Q s b t s' :
    sub_Q s -> Q t -> add_horizontal_line s b t = Ok s' -> sub_Q s'.
  Proof.
    intros Hs Ht H. unfold add_horizontal_line in H. bind_inv H s1 H1. ok_inv H.
    apply add_line_Q; [eapply flush_wrapping_Q; eassumption|exact Ht].
  Qed.

  (* a horizontal border carries the current annotation stack *)
  Lemma add_horizontal_border_width_Q s w s' :
    sub_Q s -> Q (ann_stack s) -> add_horizontal_border_width s w = Ok s' -> sub_Q s'.
  Proof.
    intros Hs Ht H. unfold add_horizontal_border_width in H. bind_inv H s1 H1. ok_inv H.
    apply add_line_Q; [eapply flush_wrapping_Q; eassumption|].
    cbn [rline_Q]. rewrite (meta_ann _ _ (meta_flush_wrapping _ _ H1)). exact Ht.
  Qed.

  Lemma get_wrapping_Q s : sub_Q s -> wb_Q (get_wrapping s).
  Proof.
    intros (_ & _ & C). unfold get_wrapping. destruct (wrapping s); [exact C|apply wb_new_Q].
  Qed.

  (* inline text: its characters get exactly the current annotation stack, plus the
     Preformat(first/continuation) annotation when inside <pre> *)
  Lemma add_inline_text_Q d s t s' :
    sub_Q s -> Q (main_tag_of d s) -> Q (cont_tag_of d s) -> add_inline_text d s t = Ok s' -> sub_Q s'.
  Proof.
    intros Hs Hm Hc H. unfold add_inline_text in H.
    destruct (negb (preserve_ws (ws_mode s)) && at_block_end s && all_ws t); [ok_inv H; exact Hs|].
    bind_inv H s1 H1. bind_inv H w1 Hw1. ok_inv H.
    assert (E : meta_of s1 = meta_of s /\ sub_Q s1).
    { destruct (at_block_end s).
      - split; [eapply meta_start_block, H1|eapply start_block_Q; eassumption].
      - ok_inv H1. auto. }
    destruct E as [E Hs1]. unfold main_tag_of, cont_tag_of in *.
    rewrite (meta_pre _ _ E), (meta_ann _ _ E) in Hw1.
    pose proof (wb_add_text_Q _ _ _ _ _ _ (get_wrapping_Q _ Hs1) Hm Hc Hw1) as Hq.
    destruct Hs1 as (A & B & _). unfold sub_Q. cbn [slines pending_frags wrapping set_wrapping]. auto.
  Qed.

  Lemma add_inline_text_Qext d s t s' :
    sub_Q s -> Qext (ann_stack s) -> add_inline_text d s t = Ok s' -> sub_Q s'.
  Proof.
    intros Hs Hx. apply add_inline_text_Q; [exact Hs|apply Qext_main, Hx|apply Qext_cont, Hx].
  Qed.

  Lemma record_frag_start_Q s name : sub_Q s -> sub_Q (record_frag_start s name).
  Proof.
    intros Hs. pose proof (get_wrapping_Q _ Hs) as Hw. destruct Hs as (A & B & _).
    unfold record_frag_start, sub_Q. cbn [slines pending_frags wrapping set_wrapping].
    split; [exact A|]. split; [exact B|]. apply wb_add_element_Q; [exact Hw|exact I].
  Qed.

  (* ---- prefixes: they carry the annotation stack of the renderer they are appended to ---- *)
  Lemma attach_prefix_Q t p l : Q t -> rline_Q l -> rline_Q (attach_prefix t p l).
  Proof.
    intros Ht Hl. destruct l as [tl|b bt]; cbn [attach_prefix].
    - destruct p; [exact Hl|]. cbn [rline_Q]. apply tl_insert_front_Q; assumption.
    - cbn [rline_Q]. apply tl_push_Q; [apply tl_push_Q; [apply tl_new_Q|exact Ht]|exact Ht].
  Qed.

  Lemma attach_prefixes_Q t first rest ls :
    Q t -> Forall rline_Q ls -> Forall rline_Q (attach_prefixes t first rest ls).
  Proof.
    intros Ht Hls. destruct ls as [|l ls]; cbn [attach_prefixes]; [constructor|].
    inversion Hls as [|? ? H1 H2]; subst. constructor; [apply attach_prefix_Q; assumption|].
    apply Forall_forall. intros r Hr. apply in_map_iff in Hr. destruct Hr as (l' & <- & Hl').
    rewrite Forall_forall in H2. apply attach_prefix_Q; [exact Ht|apply H2, Hl'].
  Qed.

  Lemma append_subrender_Q s other first rest s' :
    sub_Q s -> sub_Q other -> Q (ann_stack s) ->
    append_subrender s other first rest = Ok s' -> sub_Q s'.
  Proof.
    intros Hs Ho Ht H. unfold append_subrender in H. bind_inv H s1 H1. bind_inv H ols H2. ok_inv H.
    apply extend_lines_Q; [apply (flush_wrapping_Q _ _ Hs H1)|].
    apply attach_prefixes_Q; [|apply (sub_into_lines_Q _ _ Ho H2)].
    rewrite (meta_ann _ _ (meta_flush_wrapping _ _ H1)). exact Ht.
  Qed.

  (* ---- table rows: padding, separators and borders carry the annotation stack of the
          renderer the row is appended to ---- *)
  Lemma pad_cell_lines_Q w t : Q t -> forall ls pls,
    Forall rline_Q ls -> pad_cell_lines w t ls = Ok pls -> Forall rline_Q pls.
  Proof.
    intros Ht. induction ls as [|l ls IH]; intros pls Hls H; cbn [pad_cell_lines] in H;
      [ok_inv H; constructor|].
    inversion Hls as [|? ? H1 H2]; subst. destruct l as [tl|b bt].
    - bind_inv H tl' Htl. bind_inv H r Hr. ok_inv H. constructor; [|eapply IH; eassumption].
      cbn [rline_Q] in *. eapply tl_pad_to_Q; eassumption.
    - bind_inv H r Hr. ok_inv H. constructor; [exact H1|eapply IH; eassumption].
  Qed.

  Lemma col_line_sets_Q t : Q t -> forall cols sets,
    Forall sub_Q cols -> col_line_sets t cols = Ok sets -> Forall set_Q sets.
  Proof.
    intros Ht. induction cols as [|c cols IH]; intros sets Hc H; cbn [col_line_sets] in H;
      [ok_inv H; constructor|].
    inversion Hc as [|? ? H1 H2]; subst. bind_inv H ls Hls. bind_inv H pls Hpls. bind_inv H r Hr.
    ok_inv H. constructor; [|eapply IH; eassumption]. unfold set_Q. cbn [snd].
    eapply pad_cell_lines_Q; [exact Ht| |exact Hpls]. eapply sub_into_lines_Q; eassumption.
  Qed.

  Lemma collapse_top_Q : forall sets prev pos r,
    Forall set_Q sets -> collapse_top sets prev pos = Ok r -> Forall set_Q (snd r).
  Proof.
    induction sets as [|[w sub] sets IH]; intros prev pos r Hs H; cbn [collapse_top] in H;
      [ok_inv H; constructor|].
    inversion Hs as [|? ? H1 H2]; subst. unfold set_Q in H1. cbn [snd] in H1.
    destruct sub as [|[tl|line lt] sub'].
    - bind_inv H r0 Hr0. ok_inv H. cbn [snd]. constructor; [exact H1|eapply IH; eassumption].
    - bind_inv H r0 Hr0. ok_inv H. cbn [snd]. constructor; [exact H1|eapply IH; eassumption].
    - destruct prev as [pb|]; [|discriminate]. bind_inv H r0 Hr0. ok_inv H. cbn [snd].
      constructor; [|eapply IH; eassumption]. unfold set_Q. cbn [snd]. inversion H1; assumption.
  Qed.

  Lemma Forall_removelast {A} (P : A -> Prop) l : Forall P l -> Forall P (removelast l).
  Proof.
    intros H. apply Forall_forall. intros x Hx. rewrite Forall_forall in H.
    apply H. apply In_removelast, Hx.
  Qed.

  Lemma collapse_bottom_Q : forall sets next pos,
    Forall set_Q sets -> Forall set_Q (snd (fst (collapse_bottom sets next pos))).
  Proof.
    induction sets as [|[w sub] sets IH]; intros next pos Hs; cbn [collapse_bottom];
      [constructor|].
    inversion Hs as [|? ? H1 H2]; subst. unfold set_Q in H1. cbn [snd] in H1.
    destruct (olast sub) as [[tl|line lt]|].
    - specialize (IH next (pos + w + 1) H2).
      destruct (collapse_bottom sets next (pos + w + 1)) as [[n' s'] p']. cbn [fst snd] in *.
      constructor; [exact H1|exact IH].
    - specialize (IH (merge_from_above next line pos) (pos + w + 1) H2).
      destruct (collapse_bottom sets (merge_from_above next line pos) (pos + w + 1)) as [[n' s'] p'].
      cbn [fst snd] in *. constructor; [|exact IH]. unfold set_Q. cbn [snd].
      apply Forall_removelast, H1.
    - specialize (IH next (pos + w + 1) H2).
      destruct (collapse_bottom sets next (pos + w + 1)) as [[n' s'] p']. cbn [fst snd] in *.
      constructor; [exact H1|exact IH].
  Qed.

  Lemma row_line_Q t draw i : Q t -> forall sets pads acc,
    Forall set_Q sets -> tl_Q acc -> tl_Q (row_line t draw i sets pads acc).
  Proof.
    intros Ht. induction sets as [|[w ls] sets IH]; intros pads acc Hs Ha; cbn [row_line];
      [exact Ha|].
    inversion Hs as [|? ? H1 H2]; subst. unfold set_Q in H1. cbn [snd] in H1.
    apply IH; [exact H2|].
    assert (Hacc1 : tl_Q (match nth_opt ls i with
                          | Some (RText tl) => tl_consume acc tl
                          | Some (RLine b _) => tl_push acc (Str (border_string b) t)
                          | None => tl_push acc (Str (match match pads with p :: _ => p | [] => None end with
                                                           | Some p => p
                                                           | None => spacesl L_pad w
                                                           end) t)
                          end)).
    { destruct (nth_opt ls i) as [[tl|b bt]|] eqn:En.
      - apply tl_consume_Q; [exact Ha|]. apply nth_opt_In in En. rewrite Forall_forall in H1.
        apply (H1 _ En).
      - apply tl_push_Q; [exact Ha|exact Ht].
      - apply tl_push_Q; [exact Ha|exact Ht]. }
    destruct sets; [exact Hacc1|]. apply tl_push_char_Q; [exact Hacc1|exact Ht].
  Qed.

  Lemma row_lines_Q t draw sets pads : Q t -> Forall set_Q sets -> forall n i s,
    sub_Q s -> sub_Q (row_lines t draw n i sets pads s).
  Proof.
    intros Ht Hs. induction n as [|n IH]; intros i s Hq; cbn [row_lines]; [exact Hq|].
    apply IH. apply add_line_Q; [exact Hq|]. cbn [rline_Q].
    apply row_line_Q; [exact Ht|exact Hs|apply tl_new_Q].
  Qed.

  Lemma append_columns_Q s cols collapse s' :
    sub_Q s -> Forall sub_Q cols -> Q (ann_stack s) ->
    append_columns_with_borders s cols collapse = Ok s' -> sub_Q s'.
  Proof.
    intros Hs Hc Ht H. unfold append_columns_with_borders in H. bind_inv H s1 H1.
    pose proof (flush_wrapping_Q _ _ Hs H1) as Hs1.
    rewrite (meta_ann _ _ (meta_flush_wrapping _ _ H1)) in H.
    bind_inv H sets H2. pose proof (col_line_sets_Q _ Ht _ _ Hc H2) as Hsets.
    bind_inv H chk H3.
    destruct (match olast (slines s1) with
              | Some (RLine pb pt) =>
                let '(p, n) := join_cols (map fst sets) pb
                                 (border_new (sumN (map fst sets) + (N.of_nat (length sets) - 1))) 0 in
                (Some p, n)
              | _ => (None, border_new (sumN (map fst sets) + (N.of_nat (length sets) - 1)))
              end) as [prev1 next1].
    bind_inv H r H4. destruct r as [[[prev3 next3] sets4] pads]. ok_inv H.
    assert (Hsets4 : Forall set_Q sets4).
    { destruct collapse.
      - bind_inv H4 ct Hct. destruct ct as [prev2 sets2].
        pose proof (collapse_top_Q _ _ _ _ Hsets Hct) as Hs2. cbn [snd] in Hs2.
        pose proof (collapse_bottom_Q sets2 next1 0 Hs2) as Hs3.
        destruct (collapse_bottom sets2 next1 0) as [[next2 sets3] pads3]. cbn [fst snd] in Hs3.
        ok_inv H4. exact Hs3.
      - ok_inv H4. exact Hsets. }
    assert (Hs2 : sub_Q (set_lines s1
               match olast (slines s1) with
               | Some (RLine _ pt) =>
                   match prev3 with
                   | Some pb => replace_last (slines s1) (RLine pb pt)
                   | None => slines s1
                   end
               | _ => slines s1
               end (pending_frags s1))).
    { destruct Hs1 as (A & B & C). unfold sub_Q. cbn [slines pending_frags wrapping set_lines].
      split; [|auto].
      destruct (olast (slines s1)) as [[tl|pb0 pt]|] eqn:El; try exact A.
      destruct prev3 as [pb|]; [|exact A]. unfold replace_last. apply Forall_app.
      split; [apply Forall_removelast, A|]. constructor; [|constructor].
      apply olast_In in El. rewrite Forall_forall in A. apply (A _ El). }
    match goal with |- sub_Q (if ?c then _ else _) => destruct c end.
    - apply add_line_Q; [|exact Ht]. apply row_lines_Q; assumption.
    - apply row_lines_Q; assumption.
  Qed.

  Lemma vert_cols_Q : forall cols s first s',
    sub_Q s -> Forall sub_Q cols -> Q (ann_stack s) -> vert_cols s cols first = Ok s' -> sub_Q s'.
  Proof.
    induction cols as [|c cols IH]; intros s first s' Hs Hc Ht H; cbn [vert_cols] in H;
      [ok_inv H; exact Hs|].
    inversion Hc as [|? ? Hc1 Hc2]; subst. bind_inv H s1 H1. bind_inv H s2 H2.
    assert (E1 : meta_of s1 = meta_of s /\ sub_Q s1).
    { destruct (negb first && o_borders (sopts s)).
      - split; [eapply meta_add_horizontal_line, H1|apply (add_horizontal_line_Q _ _ _ _ Hs Ht H1)].
      - ok_inv H1. auto. }
    destruct E1 as [E1 Hs1].
    assert (Ht1 : Q (ann_stack s1)) by (rewrite (meta_ann _ _ E1); exact Ht).
    pose proof (append_subrender_Q _ _ _ _ _ Hs1 Hc1 Ht1 H2) as Hs2.
    eapply IH; [exact Hs2|exact Hc2| |exact H].
    rewrite (meta_ann _ _ (meta_append_subrender _ _ _ _ _ H2)). exact Ht1.
  Qed.

  Lemma append_vert_row_Q s cols s' :
    sub_Q s -> Forall sub_Q cols -> Q (ann_stack s) -> append_vert_row s cols = Ok s' -> sub_Q s'.
  Proof.
    intros Hs Hc Ht H. unfold append_vert_row in H. bind_inv H s1 H1. bind_inv H s2 H2.
    pose proof (flush_wrapping_Q _ _ Hs H1) as Hs1.
    assert (Ht1 : Q (ann_stack s1)) by (rewrite (meta_ann _ _ (meta_flush_wrapping _ _ H1)); exact Ht).
    pose proof (vert_cols_Q _ _ _ _ Hs1 Hc Ht1 H2) as Hs2.
    destruct (o_borders (sopts s2)); [|ok_inv H; exact Hs2].
    eapply add_horizontal_border_width_Q; [exact Hs2| |exact H].
    rewrite (meta_ann _ _ (meta_vert_cols _ _ _ _ H2)). exact Ht1.
  Qed.

  Lemma new_sub_renderer_Q s w : sub_Q (new_sub_renderer s w).
  Proof. unfold sub_Q, new_sub_renderer, sub_new. cbn. repeat split; constructor. Qed.

  (* ================================================================ *)
  (* 4. The render layer                                                *)
  (* ================================================================ *)
  Section RenderT.
    Variable d : deco.
    Variable mw : N.

    (* An operation on the top sub-renderer: its effect g on the meta part, and (under a side
       premise P) it keeps "all stored tags satisfy Q" when every extension of the current
       annotation stack satisfies Q. *)
    Definition opT (P : Prop) (g : meta -> meta) (f : subr -> res subr) : Prop :=
      forall s s', f s = Ok s' ->
        meta_of s' = g (meta_of s) /\ (P -> Qext (ann_stack s) -> sub_Q s -> sub_Q s').

    (* The same for a step of the renderer state: only the top sub-renderer changes. *)
    Definition stT (P : Prop) (g : meta -> meta) (st st' : rstate) : Prop :=
      forall s rest, stack st = s :: rest ->
        exists s', stack st' = s' :: rest /\ meta_of s' = g (meta_of s) /\
                   (P -> Qext (ann_stack s) -> sub_Q s -> sub_Q s').

    Definition mono (g : meta -> meta) : Prop := forall m, Qext (m_ann m) -> Qext (m_ann (g m)).

    Lemma mono_idm : mono idm.
    Proof. intros m H. exact H. Qed.
    Lemma mono_push a : mono (m_push a).
    Proof. intros m H. cbn. apply Qext_app, H. Qed.
    Lemma mono_comp g1 g2 : mono g1 -> mono g2 -> mono (fun m => g2 (g1 m)).
    Proof. intros H1 H2 m H. apply H2, H1, H. Qed.
    Lemma mono_filt_inc : mono m_filt_inc.
    Proof. intros m H. unfold m_filt_inc. destruct (o_strike (m_o m)); exact H. Qed.

    Lemma stT_refl P st : stT P idm st st.
    Proof. intros s rest E. exists s. auto. Qed.

    Lemma stT_comp P g1 g2 a b c :
      mono g1 -> stT P g1 a b -> stT P g2 b c -> stT P (fun m => g2 (g1 m)) a c.
    Proof.
      intros Hm H1 H2 s rest Es. destruct (H1 s rest Es) as (s1 & E1 & M1 & Q1).
      destruct (H2 s1 rest E1) as (s2 & E2 & M2 & Q2). exists s2. split; [exact E2|].
      split; [rewrite M2, M1; reflexivity|]. intros p Hx Hq. apply Q2; [exact p| |apply Q1; assumption].
      change (Qext (m_ann (meta_of s1))). rewrite M1. apply Hm. exact Hx.
    Qed.

    Lemma stT_ext P g g' a b : (forall m, g m = g' m) -> stT P g a b -> stT P g' a b.
    Proof.
      intros E H s rest Es. destruct (H s rest Es) as (s1 & E1 & M1 & Q1). exists s1.
      rewrite <- E. auto.
    Qed.

    Lemma stT_weaken (P P' : Prop) g a b : (P' -> P) -> stT P g a b -> stT P' g a b.
    Proof.
      intros HP H s rest Es. destruct (H s rest Es) as (s1 & E1 & M1 & Q1). exists s1. auto.
    Qed.

    Lemma stT_id_trans P a b c : stT P idm a b -> stT P idm b c -> stT P idm a c.
    Proof.
      intros H1 H2. apply (stT_ext P (fun m => idm (idm m))); [reflexivity|].
      eapply stT_comp; [apply mono_idm|eassumption|eassumption].
    Qed.

    Lemma stT_bracket P g h a b c e :
      mono g -> (forall m, h (g m) = m) ->
      stT P g a b -> stT P idm b c -> stT P h c e -> stT P idm a e.
    Proof.
      intros Hm Hinv H1 H2 H3.
      apply (stT_ext P (fun m => h (idm (g m)))); [intros m; apply Hinv|].
      eapply (stT_comp P (fun m => idm (g m)) h); [|eapply stT_comp; [exact Hm|eassumption|eassumption]|exact H3].
      exact Hm.
    Qed.

    Lemma stT_discharge tp rest0 g st st' :
      stack st = tp :: rest0 -> stT (Qext (ann_stack tp)) g st st' -> stT True g st st'.
    Proof.
      intros E H s rest Es. destruct (H s rest Es) as (s1 & E1 & M1 & Q1). exists s1.
      split; [exact E1|]. split; [exact M1|]. intros _ Hx Hq. apply Q1; [|exact Hx|exact Hq].
      rewrite E in Es. injection Es as <- _. exact Hx.
    Qed.

    Lemma stT_stack_eq P g a a' b : stack a' = stack a -> stT P g a b -> stT P g a' b.
    Proof. intros E H s rest Es. rewrite E in Es. apply H, Es. Qed.

    Lemma stT_same_stack P st st' : stack st' = stack st -> stT P idm st st'.
    Proof. intros E s rest Es. exists s. rewrite E. auto. Qed.

    Lemma with_top_T P g f st st' : opT P g f -> with_top st f = Ok st' -> stT P g st st'.
    Proof.
      intros Hop H s rest Es. destruct (with_top_inv _ _ _ H) as (s0 & rest0 & s' & Es0 & Ef & ->).
      rewrite Es in Es0. injection Es0 as <- <-. destruct (Hop _ _ Ef) as [M Qp].
      exists s'. cbn [stack]. auto.
    Qed.

    Lemma opT_pure P g (f : subr -> subr) :
      (forall s, meta_of (f s) = g (meta_of s)) ->
      (forall s, slines (f s) = slines s /\ pending_frags (f s) = pending_frags s /\
                 wrapping (f s) = wrapping s) ->
      opT P g (fun s => Ok (f s)).
    Proof.
      intros Hm Hb s s' H. ok_inv H. split; [apply Hm|]. intros _ _ Hq.
      destruct (Hb s) as (a & b & c). apply (sub_Q_body s); assumption.
    Qed.

    Lemma with_top'_T P g (f : subr -> subr) st st' :
      opT P g (fun s => Ok (f s)) -> with_top' st f = Ok st' -> stT P g st st'.
    Proof. unfold with_top'. apply with_top_T. Qed.

    Lemma opT_weaken (P P' : Prop) g f : (P' -> P) -> opT P g f -> opT P' g f.
    Proof. intros HP H s s' E. destruct (H s s' E) as [M Qp]. auto. Qed.

    (* ---- the operations used by render_node ---- *)
    Lemma add_inline_text_T P t : opT P idm (fun s => add_inline_text d s t).
    Proof.
      intros s s' H. split; [eapply meta_add_inline_text, H|].
      intros _ Hx Hq. eapply add_inline_text_Qext; eassumption.
    Qed.

    (* start_*: the decorator's opening text gets the stack with the new annotation on it *)
    Lemma start_deco_Q p s s' :
      start_deco d s p = Ok s' -> Qext (ann_stack s ++ [snd p]) -> sub_Q s -> sub_Q s'.
    Proof.
      intros H Hx Hq. unfold start_deco in H. eapply add_inline_text_Qext; [| |exact H].
      - apply (sub_Q_body s); [reflexivity..|exact Hq].
      - exact Hx.
    Qed.

    Lemma start_strikeout_Q s s' :
      start_strikeout d s = Ok s' -> Qext (ann_stack s ++ [snd (d_strike_start d)]) ->
      sub_Q s -> sub_Q s'.
    Proof.
      intros H Hx Hq. unfold start_strikeout in H. bind_inv H s1 H1. ok_inv H.
      pose proof (start_deco_Q _ _ _ H1 Hx Hq) as Q1.
      destruct (o_strike (sopts s1)); [|exact Q1]. apply (sub_Q_body s1); [reflexivity..|exact Q1].
    Qed.

    Lemma start_deco_T P p : opT P (m_push (snd p)) (fun s => start_deco d s p).
    Proof.
      intros s s' H. split; [eapply meta_start_deco, H|]. intros _ Hx Hq.
      unfold start_deco in H. eapply add_inline_text_Qext; [| |exact H].
      - apply (sub_Q_body s); [reflexivity..|exact Hq].
      - unfold push_ann. cbn [ann_stack set_ann]. apply Qext_app, Hx.
    Qed.

    Lemma end_deco_T P e : opT P m_pop (fun s => end_deco d s e).
    Proof.
      intros s s' H. split; [eapply meta_end_deco, H|]. intros _ Hx Hq.
      unfold end_deco in H. bind_inv H s1 H1. ok_inv H.
      apply (sub_Q_body s1); [reflexivity..|]. eapply add_inline_text_Qext; eassumption.
    Qed.

    Lemma start_strikeout_T P :
      opT P (fun m => m_filt_inc (m_push (snd (d_strike_start d)) m)) (start_strikeout d).
    Proof.
      intros s s' H. split; [eapply meta_start_strikeout, H|]. intros p Hx Hq.
      unfold start_strikeout in H. bind_inv H s1 H1. ok_inv H.
      destruct (start_deco_T P _ _ _ H1) as [_ Q1]. specialize (Q1 p Hx Hq).
      destruct (o_strike (sopts s1)); [|exact Q1]. apply (sub_Q_body s1); [reflexivity..|exact Q1].
    Qed.

    Lemma end_strikeout_T P : opT P (fun m => m_pop (m_filt_dec m)) (end_strikeout d).
    Proof.
      intros s s' H. split; [eapply meta_end_strikeout, H|]. intros p Hx Hq.
      unfold end_strikeout in H. bind_inv H s1 H1.
      destruct (end_deco_T P _ _ _ H) as [_ Q1]. apply Q1; [exact p| |].
      - destruct (o_strike (sopts s)); [|ok_inv H1; exact Hx].
        destruct (filter_depth s); [discriminate|]. ok_inv H1. exact Hx.
      - destruct (o_strike (sopts s)); [|ok_inv H1; exact Hq].
        destruct (filter_depth s); [discriminate|]. ok_inv H1.
        apply (sub_Q_body s); [reflexivity..|exact Hq].
    Qed.

    Lemma add_image_T P src title : opT P idm (fun s => add_image d s src title).
    Proof.
      intros s s' H. split; [eapply meta_add_image, H|]. intros _ Hx Hq.
      unfold add_image in H. bind_inv H s1 H1. ok_inv H.
      apply (sub_Q_body s1); [reflexivity..|]. eapply add_inline_text_Qext; [| |exact H1].
      - apply (sub_Q_body s); [reflexivity..|exact Hq].
      - unfold push_ann. cbn [ann_stack set_ann]. apply Qext_app, Hx.
    Qed.

    Lemma start_block_T P : opT P idm start_block.
    Proof.
      intros s s' H. split; [eapply meta_start_block, H|]. intros _ _ Hq.
      eapply start_block_Q; eassumption.
    Qed.

    Lemma new_line_T P : opT P idm new_line.
    Proof.
      intros s s' H. split; [eapply meta_flush_wrapping, H|]. intros _ _ Hq.
      eapply flush_wrapping_Q; eassumption.
    Qed.

    Lemma new_line_hard_T P : opT P idm new_line_hard.
    Proof.
      intros s s' H. split; [eapply meta_new_line_hard, H|]. intros _ _ Hq.
      eapply new_line_hard_Q; eassumption.
    Qed.

    Lemma end_block_T P : opT P idm (fun s => Ok (end_block s)).
    Proof. apply opT_pure; intros s; [reflexivity|auto]. Qed.

    Lemma record_frag_start_T P name : opT P idm (fun s => Ok (record_frag_start s name)).
    Proof.
      intros s s' H. ok_inv H. split; [reflexivity|]. intros _ _ Hq. apply record_frag_start_Q, Hq.
    Qed.

    Lemma add_horizontal_border_width_T P w : opT P idm (fun s => add_horizontal_border_width s w).
    Proof.
      intros s s' H. split; [eapply meta_add_horizontal_border_width, H|]. intros _ Hx Hq.
      eapply add_horizontal_border_width_Q; [exact Hq|apply Qext_self, Hx|exact H].
    Qed.

    Lemma append_subrender_T (P : Prop) sub first rest_ :
      (P -> sub_Q sub) -> opT P idm (fun s => append_subrender s sub first rest_).
    Proof.
      intros Hsub s s' H. split; [eapply meta_append_subrender, H|]. intros p Hx Hq.
      eapply append_subrender_Q; [exact Hq|apply Hsub, p|apply Qext_self, Hx|exact H].
    Qed.

    Lemma append_columns_T (P : Prop) subs c :
      (P -> Forall sub_Q subs) -> opT P idm (fun s => append_columns_with_borders s subs c).
    Proof.
      intros Hsub s s' H. split; [eapply meta_append_columns, H|]. intros p Hx Hq.
      eapply append_columns_Q; [exact Hq|apply Hsub, p|apply Qext_self, Hx|exact H].
    Qed.

    Lemma append_vert_row_T (P : Prop) subs :
      (P -> Forall sub_Q subs) -> opT P idm (fun s => append_vert_row s subs).
    Proof.
      intros Hsub s s' H. split; [eapply meta_append_vert_row, H|]. intros p Hx Hq.
      eapply append_vert_row_Q; [exact Hq|apply Hsub, p|apply Qext_self, Hx|exact H].
    Qed.

    (* ---- styles: apply_style / unwind ---- *)
    Definition wsm_of (cs : cstyle) : option wsmode :=
      match ws_val (c_white_space (cs_core cs)) with
      | Some WsPre => Some WsPre
      | Some WsPreWrap => Some WsPreWrap
      | _ => None
      end.
    Definition g_col (mk : N -> N -> N -> ann) (o : option (N * N * N)) (m : meta) : meta :=
      match o with
      | Some (r, g, b) => if d_colours d then m_push (mk r g b) m else m
      | None => m
      end.
    Definition h_col (o : option (N * N * N)) (m : meta) : meta :=
      match o with Some _ => if d_colours d then m_pop m else m | None => m end.
    Definition g_ws (o : option wsmode) (m : meta) : meta :=
      match o with Some w => m_ws_push w m | None => m end.
    Definition h_ws (o : option wsmode) (m : meta) : meta :=
      match o with Some _ => m_ws_pop m | None => m end.
    Definition g_pre (b : bool) (m : meta) : meta := if b then m_pre_inc m else m.
    Definition h_pre (b : bool) (m : meta) : meta := if b then m_pre_dec m else m.

    (* the effect of a node's style on the meta part of the top sub-renderer *)
    Definition g_style (cs : cstyle) (m : meta) : meta :=
      g_pre (cs_internal_pre cs)
        (g_ws (wsm_of cs)
           (g_col ABg (ws_val (c_bg (cs_core cs)))
              (g_col AColour (ws_val (c_colour (cs_core cs))) m))).
    Definition h_style (cs : cstyle) (m : meta) : meta :=
      h_pre (cs_internal_pre cs)
        (h_ws (wsm_of cs)
           (h_col (ws_val (c_colour (cs_core cs)))
              (h_col (ws_val (c_bg (cs_core cs))) m))).
    Definition pushed_of (cs : cstyle) : pushed :=
      mkpushed (match ws_val (c_colour (cs_core cs)) with Some _ => true | None => false end)
               (match ws_val (c_bg (cs_core cs)) with Some _ => true | None => false end)
               (match wsm_of cs with Some _ => true | None => false end)
               (cs_internal_pre cs).

    Lemma h_g_style cs m : h_style cs (g_style cs m) = m.
    Proof.
      unfold h_style, g_style, g_pre, h_pre, g_ws, h_ws, g_col, h_col.
      destruct m as [w o a f p wsk].
      destruct (cs_internal_pre cs); destruct (wsm_of cs);
        destruct (ws_val (c_bg (cs_core cs))) as [[[r1 g1] b1]|];
        destruct (ws_val (c_colour (cs_core cs))) as [[[r2 g2] b2]|];
        destruct (d_colours d);
        unfold m_pre_dec, m_pre_inc, m_ws_pop, m_ws_push, m_pop, m_push; cbn;
        rewrite ?removelast_last; f_equal; lia.
    Qed.

    Lemma mono_g_col mk o : mono (g_col mk o).
    Proof.
      intros m H. unfold g_col. destruct o as [[[r g] b]|]; [|exact H].
      destruct (d_colours d); [apply mono_push|]; exact H.
    Qed.

    Lemma mono_g_style cs : mono (g_style cs).
    Proof.
      unfold g_style. intros m H.
      assert (H2 : Qext (m_ann (g_col ABg (ws_val (c_bg (cs_core cs)))
                                  (g_col AColour (ws_val (c_colour (cs_core cs))) m)))).
      { apply mono_g_col, mono_g_col, H. }
      unfold g_pre, g_ws. destruct (cs_internal_pre cs); destruct (wsm_of cs); exact H2.
    Qed.

    (* steps that only change the meta part (no premise needed for the tags) *)
    Definition stB (g : meta -> meta) (st st' : rstate) : Prop :=
      forall s rest, stack st = s :: rest ->
        exists s', stack st' = s' :: rest /\ meta_of s' = g (meta_of s) /\ (sub_Q s -> sub_Q s').

    Lemma stB_refl st : stB idm st st.
    Proof. intros s rest E. exists s. auto. Qed.
    Lemma stB_comp g1 g2 a b c : stB g1 a b -> stB g2 b c -> stB (fun m => g2 (g1 m)) a c.
    Proof.
      intros H1 H2 s rest Es. destruct (H1 s rest Es) as (s1 & E1 & M1 & Q1).
      destruct (H2 s1 rest E1) as (s2 & E2 & M2 & Q2). exists s2. split; [exact E2|].
      split; [rewrite M2, M1; reflexivity|auto].
    Qed.
    Lemma stB_stT P g a b : stB g a b -> stT P g a b.
    Proof. intros H s rest Es. destruct (H s rest Es) as (s1 & E1 & M1 & Q1). exists s1. auto. Qed.
    Lemma with_top_B g f st st' :
      (forall s s', f s = Ok s' -> meta_of s' = g (meta_of s) /\ (sub_Q s -> sub_Q s')) ->
      with_top st f = Ok st' -> stB g st st'.
    Proof.
      intros Hop H s rest Es. destruct (with_top_inv _ _ _ H) as (s0 & rest0 & s' & Es0 & Ef & ->).
      rewrite Es in Es0. injection Es0 as <- <-. destruct (Hop _ _ Ef) as [M Qp].
      exists s'. cbn [stack]. auto.
    Qed.
    Lemma with_top'_B g (f : subr -> subr) st st' :
      (forall s, meta_of (f s) = g (meta_of s)) ->
      (forall s, slines (f s) = slines s /\ pending_frags (f s) = pending_frags s /\
                 wrapping (f s) = wrapping s) ->
      with_top' st f = Ok st' -> stB g st st'.
    Proof.
      intros Hm Hb. unfold with_top'. apply with_top_B. intros s s' H. ok_inv H.
      split; [apply Hm|]. destruct (Hb s) as (x & y & z). apply sub_Q_body; assumption.
    Qed.

    Lemma apply_style_B st cs st1 p :
      apply_style d st cs = Ok (st1, p) -> p = pushed_of cs /\ stB (g_style cs) st st1.
    Proof.
      intros H. unfold apply_style in H.
      bind_inv H sa H1. bind_inv H sb H2. bind_inv H sc H3. bind_inv H se H4.
      injection H as <- <-. split; [reflexivity|].
      assert (T1 : stB (g_col AColour (ws_val (c_colour (cs_core cs)))) st sa).
      { destruct (ws_val (c_colour (cs_core cs))) as [[[r g] b]|].
        - eapply with_top'_B; [| |exact H1]; intros s.
          + unfold push_colour, g_col. destruct (d_colours d); reflexivity.
          + unfold push_colour. destruct (d_colours d); auto.
        - ok_inv H1. apply stB_refl. }
      assert (T2 : stB (g_col ABg (ws_val (c_bg (cs_core cs)))) sa sb).
      { destruct (ws_val (c_bg (cs_core cs))) as [[[r g] b0]|].
        - eapply with_top'_B; [| |exact H2]; intros s.
          + unfold push_bgcolour, g_col. destruct (d_colours d); reflexivity.
          + unfold push_bgcolour. destruct (d_colours d); auto.
        - ok_inv H2. apply stB_refl. }
      assert (T3 : stB (g_ws (wsm_of cs)) sb sc).
      { fold (wsm_of cs) in H3. destruct (wsm_of cs) as [m|].
        - eapply with_top'_B; [| |exact H3]; intros s; [reflexivity|auto].
        - ok_inv H3. apply stB_refl. }
      assert (T4 : stB (g_pre (cs_internal_pre cs)) sc se).
      { destruct (cs_internal_pre cs).
        - eapply with_top'_B; [| |exact H4]; intros s; [reflexivity|auto].
        - ok_inv H4. apply stB_refl. }
      unfold g_style.
      exact (stB_comp _ _ _ _ _ (stB_comp _ _ _ _ _ (stB_comp _ _ _ _ _ T1 T2) T3) T4).
    Qed.

    Lemma apply_style_T P st cs st1 p :
      apply_style d st cs = Ok (st1, p) -> p = pushed_of cs /\ stT P (g_style cs) st st1.
    Proof.
      intros H. destruct (apply_style_B _ _ _ _ H) as [E B]. split; [exact E|apply stB_stT, B].
    Qed.

    Lemma unwind_B cs st st' : unwind d (pushed_of cs) st = Ok st' -> stB (h_style cs) st st'.
    Proof.
      intros H. unfold unwind in H. cbn [pushed_of p_bg p_colour p_ws p_pre] in H.
      bind_inv H sa H1. bind_inv H sb H2. bind_inv H sc H3.
      assert (T1 : stB (h_col (ws_val (c_bg (cs_core cs)))) st sa).
      { destruct (ws_val (c_bg (cs_core cs))) as [x|].
        - eapply with_top'_B; [| |exact H1]; intros s.
          + unfold pop_bgcolour, pop_colour, h_col. destruct (d_colours d); reflexivity.
          + unfold pop_bgcolour, pop_colour. destruct (d_colours d); auto.
        - ok_inv H1. apply stB_refl. }
      assert (T2 : stB (h_col (ws_val (c_colour (cs_core cs)))) sa sb).
      { destruct (ws_val (c_colour (cs_core cs))) as [x|].
        - eapply with_top'_B; [| |exact H2]; intros s.
          + unfold pop_colour, h_col. destruct (d_colours d); reflexivity.
          + unfold pop_colour. destruct (d_colours d); auto.
        - ok_inv H2. apply stB_refl. }
      assert (T3 : stB (h_ws (wsm_of cs)) sb sc).
      { destruct (wsm_of cs) as [m|].
        - eapply with_top'_B; [| |exact H3]; intros s; [reflexivity|auto].
        - ok_inv H3. apply stB_refl. }
      assert (T4 : stB (h_pre (cs_internal_pre cs)) sc st').
      { destruct (cs_internal_pre cs).
        - eapply with_top_B; [|exact H]. intros s s' Hp. unfold pop_preformat in Hp.
          destruct (0 <? pre_depth s); [|discriminate]. ok_inv Hp. split; [reflexivity|].
          apply sub_Q_body; reflexivity.
        - ok_inv H. apply stB_refl. }
      unfold h_style.
      exact (stB_comp _ _ _ _ _ (stB_comp _ _ _ _ _ (stB_comp _ _ _ _ _ T1 T2) T3) T4).
    Qed.

    Lemma unwind_T P cs st st' : unwind d (pushed_of cs) st = Ok st' -> stT P (h_style cs) st st'.
    Proof. intros H. apply stB_stT, unwind_B, H. Qed.

    Lemma styled_T P st0 sty st p stB_ st' :
      apply_style d st0 sty = Ok (st, p) -> stT P idm st stB_ -> unwind d p stB_ = Ok st' ->
      stT P idm st0 st'.
    Proof.
      intros Ha Hb Hu. destruct (apply_style_T P _ _ _ _ Ha) as [-> Ta].
      pose proof (unwind_T P _ _ _ Hu) as Tu.
      eapply (stT_bracket P (g_style sty) (h_style sty));
        [apply mono_g_style|apply h_g_style|exact Ta|exact Hb|exact Tu].
    Qed.
    (* ---- nodes ---- *)
    Definition node_T (n : rnode) : Prop :=
      forall st st', render_node d mw n st = Ok st' -> stT True idm st st'.

    Lemma kids_T cs st st' :
      Forall node_T cs ->
      fold_left (fun acc c => do s <- acc; render_node d mw c s) cs (Ok st) = Ok st' ->
      stT True idm st st'.
    Proof.
      intros HF H.
      apply (fold_bind_inv (fun a => stT True idm st a) (render_node d mw) cs) with (a := st);
        [|apply stT_refl|exact H].
      intros c Hc a a' Ra Hr. eapply stT_id_trans; [exact Ra|].
      rewrite Forall_forall in HF. apply (HF c Hc a a' Hr).
    Qed.

    Lemma m_pop_push a m : m_pop (m_push a m) = m.
    Proof. destruct m. unfold m_pop, m_push. cbn. rewrite removelast_last. reflexivity. Qed.

    Lemma strike_inv a m : m_pop (m_filt_dec (m_filt_inc (m_push a m))) = m.
    Proof.
      destruct m as [w o an f p wsk]. unfold m_filt_inc, m_push.
      cbn [m_o m_w m_ann m_filt m_pre m_ws].
      destruct (o_strike o) eqn:E; unfold m_filt_dec; cbn [m_o m_w m_ann m_filt m_pre m_ws];
        rewrite E; unfold m_pop; cbn [m_o m_w m_ann m_filt m_pre m_ws Nat.pred];
        rewrite removelast_last; reflexivity.
    Qed.

    (* start ... children ... end *)
    Lemma bracket_T g h (f1 f2 : subr -> res subr) cs st1 a b c :
      mono g -> (forall m, h (g m) = m) -> opT True g f1 -> opT True h f2 -> Forall node_T cs ->
      with_top st1 f1 = Ok a ->
      fold_left (fun acc c => do s <- acc; render_node d mw c s) cs (Ok a) = Ok b ->
      with_top b f2 = Ok c -> stT True idm st1 c.
    Proof.
      intros Hm Hinv O1 O2 HF H1 H2 H3.
      eapply (stT_bracket True g h); [exact Hm|exact Hinv| | |].
      - eapply with_top_T; eassumption.
      - eapply kids_T; eassumption.
      - eapply with_top_T; eassumption.
    Qed.

    (* a nested sub-renderer: it starts with the annotation stack, the strikeout-filter depth,
       the preformat depth and the white-space modes of its parent; after the children it has
       the same meta part again; only tags extending the parent's stack are stored in it *)
    Lemma scope_T st tp w st2 sub st3 :
      top st = Ok tp -> stT True idm (push_sub st (new_sub_renderer tp w)) st2 ->
      pop_sub st2 = Ok (sub, st3) ->
      stack st3 = stack st /\ meta_of sub = meta_of (new_sub_renderer tp w) /\
      (Qext (ann_stack tp) -> sub_Q sub).
    Proof.
      intros Ht H Hp.
      destruct (H (new_sub_renderer tp w) (stack st) eq_refl) as (s' & E & M & Qp).
      unfold pop_sub in Hp. rewrite E in Hp. injection Hp as <- <-. cbn [stack].
      split; [reflexivity|]. split; [exact M|]. intros Hx.
      apply Qp; [exact I|exact Hx|apply new_sub_renderer_Q].
    Qed.

    Lemma prefixed_T st tp w st2 sub st3 stz :
      top st = Ok tp ->
      stT True idm (push_sub st (new_sub_renderer tp w)) st2 ->
      pop_sub st2 = Ok (sub, st3) ->
      ((Qext (ann_stack tp) -> sub_Q sub) -> stT (Qext (ann_stack tp)) idm st3 stz) ->
      stT True idm st stz.
    Proof.
      intros Ht H2 Hp Hrest. destruct (top_inv _ _ Ht) as [rest0 E0].
      destruct (scope_T _ _ _ _ _ _ Ht H2 Hp) as (Es & _ & Hq).
      apply (stT_discharge tp rest0 idm st stz E0).
      apply (stT_stack_eq _ _ st3 st); [symmetry; exact Es|apply Hrest, Hq].
    Qed.

    Lemma cells_loop_T : forall cells wsl s2 subs r tp rest,
      Forall (fun c => Forall node_T (cell_content c)) cells ->
      stack s2 = tp :: rest ->
      cells_loop d mw cells wsl s2 subs = Ok r ->
      stack (fst r) = stack s2 /\
      (Qext (ann_stack tp) -> Forall sub_Q subs -> Forall sub_Q (snd r)).
    Proof.
      induction cells as [|[n content csty] cells IH]; intros wsl s2 subs r tp rest HF E H;
        cbn [cells_loop] in H.
      - ok_inv H. cbn [fst snd]. auto.
      - inversion HF as [|? ? HF1 HF2]; subst. cbn [cell_content] in HF1.
        destruct wsl as [|[w|] wsl].
        + ok_inv H. cbn [fst snd]. auto.
        + bind_inv H tp2 Htp. bind_inv H apc Hap. destruct apc as [s4 pcell].
          bind_inv H s5 H5. bind_inv H s6 H6. bind_inv H pp Hpp. destruct pp as [sub s7].
          assert (Etp : tp2 = tp).
          { unfold top in Htp. rewrite E in Htp. injection Htp as <-. reflexivity. }
          pose proof (styled_T True _ _ _ _ _ _ Hap (kids_T _ _ _ HF1 H5) H6) as T.
          destruct (scope_T _ _ _ _ _ _ Htp T Hpp) as (Es & _ & Hq).
          destruct (IH wsl s7 (subs ++ [sub]) r tp rest HF2) as [A B];
            [rewrite Es; exact E|exact H|].
          split; [rewrite A; exact Es|]. intros Hx Hs. apply B; [exact Hx|].
          apply Forall_app. split; [exact Hs|]. constructor; [|constructor].
          apply Hq. rewrite Etp. exact Hx.
        + apply (IH wsl s2 subs r tp rest HF2 E H).
    Qed.

    Lemma row_body_T vr cw r s s' :
      Forall (fun c => Forall node_T (cell_content c)) (row_cells r) ->
      row_body d mw vr cw r s = Ok s' -> stT True idm s s'.
    Proof.
      intros HF H. destruct r as [rcells rstyle]. cbn [row_cells] in HF. unfold row_body in H.
      bind_inv H apr Hap. destruct apr as [s1 prow]. bind_inv H cws Hcws. bind_inv H rr Hrr.
      destruct rr as [s8 subs]. bind_inv H s9 H9.
      eapply styled_T; [exact Hap| |exact H].
      intros tp1 rest1 E1.
      destruct (cells_loop_T _ _ _ _ _ tp1 rest1 HF E1 Hrr) as [Est Hq]. cbn [fst snd] in Est, Hq.
      assert (T : stT (Qext (ann_stack tp1)) idm s8 s9).
      { destruct vr.
        - eapply with_top_T; [apply append_vert_row_T|exact H9].
          intros Hx. apply Hq; [exact Hx|constructor].
        - destruct (existsb (fun c => negb (sub_empty c)) subs).
          + eapply with_top_T; [apply append_columns_T|exact H9].
            intros Hx. apply Hq; [exact Hx|constructor].
          + ok_inv H9. apply stT_refl. }
      assert (E8 : stack s8 = tp1 :: rest1) by (rewrite Est; exact E1).
      exact (stT_discharge tp1 rest1 idm s8 s9 E8 T tp1 rest1 E8).
    Qed.

    Ltac start H sz ap st1 ps Hap :=
      let Hsz := fresh "Hsz" in
      bind_inv H sz Hsz; bind_inv H ap Hap; destruct ap as [st1 ps].

    Lemma node_T_all : forall n, node_T n.
    Proof.
      apply rnode_ind'. intros i sty IH st st' H.
      destruct i; cbn [direct_kids] in IH; cbn [render_node rn_info rn_style] in H.
      - (* IText *)
        start H sz ap st1 ps Hap. bind_inv H st2 H2.
        eapply styled_T; [exact Hap| |exact H].
        unfold inline_text in H2. eapply with_top_T; [apply add_inline_text_T|exact H2].
      - (* IContainer *)
        start H sz ap st1 ps Hap. bind_inv H st2 H2.
        eapply styled_T; [exact Hap| |exact H]. eapply kids_T; eassumption.
      - (* ILink *)
        start H sz ap st1 ps Hap.
        bind_inv H st2 H2. bind_inv H st3 H3. bind_inv H st4 H4. bind_inv H tp H5. bind_inv H st5 H6.
        eapply styled_T; [exact Hap| |exact H].
        eapply stT_id_trans; [apply (stT_same_stack True st1 (mkrst (stack st1) (links st1 ++ [href]))); reflexivity|].
        eapply stT_id_trans.
        + eapply (bracket_T (m_push (snd (d_link_start d href))) m_pop
                            (fun s => sub_start_link d s href) (sub_end_link d));
            [apply mono_push|apply m_pop_push|exact (start_deco_T True (d_link_start d href))
            |exact (end_deco_T True (d_link_end d))|exact IH|exact H2|exact H3|exact H4].
        + destruct (o_footnotes (sopts tp)).
          * unfold inline_text in H6. eapply with_top_T; [apply add_inline_text_T|exact H6].
          * ok_inv H6. apply stT_refl.
      - (* IEm *)
        start H sz ap st1 ps Hap. bind_inv H a H1. bind_inv H b H2. bind_inv H c H3.
        eapply styled_T; [exact Hap| |exact H].
        eapply (bracket_T (m_push (snd (d_em_start d))) m_pop (start_emphasis d) (end_emphasis d));
          [apply mono_push|apply m_pop_push|exact (start_deco_T True (d_em_start d))
          |exact (end_deco_T True (d_em_end d))|exact IH|exact H1|exact H2|exact H3].
      - (* IStrong *)
        start H sz ap st1 ps Hap. bind_inv H a H1. bind_inv H b H2. bind_inv H c H3.
        eapply styled_T; [exact Hap| |exact H].
        eapply (bracket_T (m_push (snd (d_strong_start d))) m_pop (start_strong d) (end_strong d));
          [apply mono_push|apply m_pop_push|exact (start_deco_T True (d_strong_start d))
          |exact (end_deco_T True (d_strong_end d))|exact IH|exact H1|exact H2|exact H3].
      - (* IStrikeout *)
        start H sz ap st1 ps Hap. bind_inv H a H1. bind_inv H b H2. bind_inv H c H3.
        eapply styled_T; [exact Hap| |exact H].
        eapply (bracket_T (fun m => m_filt_inc (m_push (snd (d_strike_start d)) m))
                          (fun m => m_pop (m_filt_dec m)) (start_strikeout d) (end_strikeout d));
          [apply mono_comp; [apply mono_push|apply mono_filt_inc]|intros m; apply strike_inv
          |apply start_strikeout_T|apply end_strikeout_T|exact IH|exact H1|exact H2|exact H3].
      - (* ICode *)
        start H sz ap st1 ps Hap. bind_inv H a H1. bind_inv H b H2. bind_inv H c H3.
        eapply styled_T; [exact Hap| |exact H].
        eapply (bracket_T (m_push (snd (d_code_start d))) m_pop (start_code d) (end_code d));
          [apply mono_push|apply m_pop_push|exact (start_deco_T True (d_code_start d))
          |exact (end_deco_T True (d_code_end d))|exact IH|exact H1|exact H2|exact H3].
      - (* IImg *)
        start H sz ap st1 ps Hap. bind_inv H st2 H2.
        eapply styled_T; [exact Hap| |exact H].
        eapply with_top_T; [apply add_image_T|exact H2].
      - (* IBlock *)
        start H sz ap st1 ps Hap. bind_inv H a H1. bind_inv H b H2. bind_inv H c H3.
        eapply styled_T; [exact Hap| |exact H].
        eapply (bracket_T idm idm start_block (fun s => Ok (end_block s)));
          [apply mono_idm|reflexivity|apply start_block_T|apply end_block_T|exact IH
          |exact H1|exact H2|exact H3].
      - (* IHeader *)
        start H sz ap st1 ps Hap.
        destruct (negb (swidth (d_header_prefix d level) =? e_prefix sz)); [discriminate|].
        bind_inv H tp Htp. bind_inv H w Hw. bind_inv H st2 H2. bind_inv H pp Hpp.
        destruct pp as [sub st3]. bind_inv H st4 H4. bind_inv H st5 H5. bind_inv H st6 H6.
        eapply styled_T; [exact Hap| |exact H].
        eapply prefixed_T; [exact Htp|eapply kids_T; [exact IH|exact H2]|exact Hpp|]. intros Hq.
        eapply stT_id_trans; [eapply with_top_T; [apply start_block_T|exact H4]|].
        eapply stT_id_trans; [eapply with_top_T; [apply append_subrender_T, Hq|exact H5]|].
        eapply with_top'_T; [apply end_block_T|exact H6].
      - (* IDiv *)
        start H sz ap st1 ps Hap. bind_inv H a H1. bind_inv H b H2. bind_inv H c H3.
        eapply styled_T; [exact Hap| |exact H].
        eapply (bracket_T idm idm new_line new_line);
          [apply mono_idm|reflexivity|apply new_line_T|apply new_line_T|exact IH
          |exact H1|exact H2|exact H3].
      - (* IBlockQuote *)
        start H sz ap st1 ps Hap.
        destruct (negb (e_prefix sz =? swidth (d_quote_prefix d))); [discriminate|].
        bind_inv H iw Hiw.
        bind_inv H tp Htp. bind_inv H w Hw. bind_inv H st2 H2. bind_inv H pp Hpp.
        destruct pp as [sub st3]. bind_inv H st4 H4. bind_inv H st5 H5. bind_inv H st6 H6.
        eapply styled_T; [exact Hap| |exact H].
        eapply prefixed_T; [exact Htp|eapply kids_T; [exact IH|exact H2]|exact Hpp|]. intros Hq.
        eapply stT_id_trans; [eapply with_top_T; [apply start_block_T|exact H4]|].
        eapply stT_id_trans; [eapply with_top_T; [apply append_subrender_T, Hq|exact H5]|].
        eapply with_top'_T; [apply end_block_T|exact H6].
      - (* IUl *)
        start H sz ap st1 ps Hap. bind_inv H st2 H2.
        eapply styled_T; [exact Hap| |exact H].
        revert H2.
        apply (fold_bind_inv (fun a => stT True idm st1 a)
                 (fun item s =>
                    do inner_width <- usub 22 (e_min sz) (swidth (d_ul_prefix d));
                    do tp <- top s;
                    do w <- width_minus tp (swidth (d_ul_prefix d)) inner_width;
                    do s2 <- render_node d mw item (push_sub s (new_sub_renderer tp w));
                    do pp <- pop_sub s2;
                    let '(sub, s3) := pp in
                    with_top s3 (fun t => append_subrender t sub (d_ul_prefix d)
                       (repeat_chr (spacel L_prefix) (N.to_nat (swidth (d_ul_prefix d))))))
                 cs); [|apply stT_refl].
        intros item Hitem a a' Ra Hstep. eapply stT_id_trans; [exact Ra|].
        bind_inv Hstep iw Hiw. bind_inv Hstep tp Htp. bind_inv Hstep w Hw.
        bind_inv Hstep s2 Hs2. bind_inv Hstep pp Hpp. destruct pp as [sub s3].
        rewrite Forall_forall in IH.
        eapply prefixed_T; [exact Htp|apply (IH item Hitem), Hs2|exact Hpp|]. intros Hq.
        eapply with_top_T; [apply append_subrender_T, Hq|exact Hstep].
      - (* IOl *)
        start H sz ap st1 ps Hap. bind_inv H r Hr.
        eapply styled_T; [exact Hap| |exact H].
        set (pw := N.max (swidth (d_ol_prefix d start))
                         (swidth (d_ol_prefix d (isat64 (isat64 (start + Z.of_nat (length cs)) - 1))))) in *.
        assert (Hr' : fold_left (fun acc item => do si <- acc; ol_step d mw sz pw item si) cs
                                (Ok (st1, start)) = Ok r) by exact Hr.
        revert Hr'.
        apply (fold_bind_inv (fun a => stT True idm st1 (fst a)) (ol_step d mw sz pw) cs);
          [|apply stT_refl].
        intros item Hitem [s i0] a' Ra Hstep. cbn [fst] in Ra. eapply stT_id_trans; [exact Ra|].
        unfold ol_step in Hstep.
        bind_inv Hstep iw Hiw. bind_inv Hstep tp Htp. bind_inv Hstep w Hw.
        bind_inv Hstep s2 Hs2. bind_inv Hstep pp Hpp. destruct pp as [sub s3].
        bind_inv Hstep s4 H4. ok_inv Hstep. cbn [fst].
        rewrite Forall_forall in IH.
        eapply prefixed_T; [exact Htp|apply (IH item Hitem), Hs2|exact Hpp|]. intros Hq.
        eapply with_top_T; [apply append_subrender_T, Hq|exact H4].
      - (* IDl *)
        start H sz ap st1 ps Hap. bind_inv H st2 H2. bind_inv H st3 H3.
        eapply styled_T; [exact Hap| |exact H].
        eapply stT_id_trans; [eapply with_top_T; [apply start_block_T|exact H2]|].
        eapply kids_T; eassumption.
      - (* IDt *)
        start H sz ap st1 ps Hap. bind_inv H st2 H2.
        bind_inv H a H1. bind_inv H b H3. bind_inv H c H4.
        eapply styled_T; [exact Hap| |exact H].
        eapply stT_id_trans; [eapply with_top_T; [apply new_line_T|exact H2]|].
        eapply (bracket_T (m_push (snd (d_em_start d))) m_pop (start_emphasis d) (end_emphasis d));
          [apply mono_push|apply m_pop_push|exact (start_deco_T True (d_em_start d))
          |exact (end_deco_T True (d_em_end d))|exact IH|exact H1|exact H3|exact H4].
      - (* IDd *)
        start H sz ap st1 ps Hap. bind_inv H iw Hiw.
        bind_inv H tp Htp. bind_inv H w Hw. bind_inv H st2 H2. bind_inv H pp Hpp.
        destruct pp as [sub st3]. bind_inv H st4 H4.
        eapply styled_T; [exact Hap| |exact H].
        eapply prefixed_T; [exact Htp|eapply kids_T; [exact IH|exact H2]|exact Hpp|]. intros Hq.
        eapply with_top_T; [apply append_subrender_T, Hq|exact H4].
      - (* IBreak *)
        start H sz ap st1 ps Hap. bind_inv H st2 H2.
        eapply styled_T; [exact Hap| |exact H].
        eapply with_top_T; [apply new_line_hard_T|exact H2].
      - (* ITable *)
        start H sz ap st1 ps Hap.
        bind_inv H col_sizes Hcs. bind_inv H tp Htp.
        set (vr := o_raw (sopts tp)
                   || ((swidth_ tp <? sumN (map e_min col_sizes) + (N.of_nat (length col_sizes) - 1))
                       || (swidth_ tp =? 0))) in *.
        bind_inv H col_widths Hcw. bind_inv H st2 H2. bind_inv H st3 H3. bind_inv H st_rows Hrows.
        eapply styled_T; [exact Hap| |exact H].
        eapply stT_id_trans; [eapply with_top_T; [apply start_block_T|exact H2]|].
        eapply stT_id_trans.
        { match type of H3 with (if ?c then _ else _) = _ => destruct c end.
          - eapply with_top_T; [apply add_horizontal_border_width_T|exact H3].
          - ok_inv H3. apply stT_refl. }
        assert (Hrows' : fold_left (fun acc r => do s <- acc; row_body d mw vr col_widths r s) rows
                                   (Ok st3) = Ok st_rows) by exact Hrows.
        revert Hrows'.
        apply (fold_bind_inv (fun a => stT True idm st3 a) (row_body d mw vr col_widths) rows);
          [|apply stT_refl].
        intros r Hr a a' Ra Hstep. eapply stT_id_trans; [exact Ra|].
        apply Forall_flat_map in IH. rewrite Forall_forall in IH. specialize (IH r Hr).
        unfold row_kids in IH. apply Forall_flat_map in IH.
        eapply row_body_T; eassumption.
      - (* ITableBody *) bind_inv H sz Hsz. bind_inv H ap Hap. destruct ap. discriminate.
      - (* ITableRow *) bind_inv H sz Hsz. bind_inv H ap Hap. destruct ap. discriminate.
      - (* ITableCell *) bind_inv H sz Hsz. bind_inv H ap Hap. destruct ap. discriminate.
      - (* IFragStart *)
        start H sz ap st1 ps Hap. bind_inv H st2 H2.
        eapply styled_T; [exact Hap| |exact H].
        eapply with_top'_T; [apply record_frag_start_T|exact H2].
      - (* IListItem *)
        start H sz ap st1 ps Hap. bind_inv H a H1. bind_inv H b H2. bind_inv H c H3.
        eapply styled_T; [exact Hap| |exact H].
        eapply (bracket_T idm idm start_block (fun s => Ok (end_block s)));
          [apply mono_idm|reflexivity|apply start_block_T|apply end_block_T|exact IH
          |exact H1|exact H2|exact H3].
      - (* ISup *)
        start H sz ap st1 ps Hap.
        destruct (sup_digits cs) as [digitstr|].
        + bind_inv H st2 H2. eapply styled_T; [exact Hap| |exact H].
          unfold inline_text in H2. eapply with_top_T; [apply add_inline_text_T|exact H2].
        + bind_inv H a H1. bind_inv H b H2. bind_inv H c H3.
          eapply styled_T; [exact Hap| |exact H].
          eapply (bracket_T (m_push (snd (d_sup_start d))) m_pop
                            (start_superscript d) (end_superscript d));
            [apply mono_push|apply m_pop_push|exact (start_deco_T True (d_sup_start d))
            |exact (end_deco_T True (d_sup_end d))|exact IH|exact H1|exact H2|exact H3].
    Qed.
  End RenderT.
End TagInv.

(* ================================================================== *)
(* 5. Main theorems                                                     *)
(* ================================================================== *)

(* t extends base *)
Definition ext (base t : tag) : Prop := exists suf, t = base ++ suf.

(* ------------------------------------------------------------------ *)
(* (1) BALANCE: no annotation (white-space mode, preformat depth, strikeout filter) leaks
   past the end of its element.  Rendering a node leaves every sub-renderer below the top one
   untouched (in particular the depth of the stack is restored) and restores the meta part of
   the top one: width, options, annotation stack, strikeout-filter depth, preformat depth,
   white-space mode stack.  No hypothesis: for every render tree, decorator, state. *)
Theorem render_node_balanced : forall d mw n st st' s rest,
  render_node d mw n st = Ok st' -> stack st = s :: rest ->
  exists s', stack st' = s' :: rest /\ meta_of s' = meta_of s.
Proof.
  intros d mw n st st' s rest H E.
  destruct (node_T_all (fun _ => True) I d mw n st st' H s rest E) as (s' & E' & M & _).
  exists s'. auto.
Qed.
Print Assumptions render_node_balanced.

Corollary render_node_balanced_fields : forall d mw n st st' s rest,
  render_node d mw n st = Ok st' -> stack st = s :: rest ->
  exists s', stack st' = s' :: rest /\
    ann_stack s' = ann_stack s /\ filter_depth s' = filter_depth s /\
    pre_depth s' = pre_depth s /\ ws_stack s' = ws_stack s /\
    swidth_ s' = swidth_ s /\ sopts s' = sopts s.
Proof.
  intros d mw n st st' s rest H E.
  destruct (render_node_balanced d mw n st st' s rest H E) as (s' & E' & M).
  exists s'. split; [exact E'|]. unfold meta_of in M. injection M as M1 M2 M3 M4 M5 M6. repeat split; assumption.
Qed.

(* the same for a list of nodes (render_kids) *)
Theorem render_kids_balanced : forall d mw cs st st' s rest,
  fold_left (fun acc c => do s <- acc; render_node d mw c s) cs (Ok st) = Ok st' ->
  stack st = s :: rest ->
  exists s', stack st' = s' :: rest /\ meta_of s' = meta_of s.
Proof.
  intros d mw cs st st' s rest H E.
  assert (HF : Forall (node_T (fun _ => True) d mw) cs).
  { apply Forall_forall. intros c _. apply node_T_all. exact I. }
  destruct (kids_T (fun _ => True) d mw cs st st' HF H s rest E) as (s' & E' & M & _).
  exists s'. auto.
Qed.
Print Assumptions render_kids_balanced.

(* Nested sub-renderers (headings, block quotes, list items, definitions, table cells): a new
   sub-renderer starts with the options, the annotation stack, the strikeout-filter depth, the
   preformat depth and the white-space mode stack of its parent; only the width is its own
   (this repairs the former findings F1/F2, see section 7) ... *)
Lemma new_sub_renderer_meta : forall s w,
  meta_of (new_sub_renderer s w) =
  mkmeta w (sopts s) (ann_stack s) (filter_depth s) (pre_depth s) (ws_stack s).
Proof. reflexivity. Qed.

(* ... and when it is popped after its children it has exactly that meta part again, and the
   stack below it is what it was. *)
Theorem sub_renderer_balanced : forall d mw cs st tp w st2 sub st3,
  top st = Ok tp ->
  fold_left (fun acc c => do s <- acc; render_node d mw c s) cs
            (Ok (push_sub st (new_sub_renderer tp w))) = Ok st2 ->
  pop_sub st2 = Ok (sub, st3) ->
  stack st3 = stack st /\
  meta_of sub = mkmeta w (sopts tp) (ann_stack tp) (filter_depth tp) (pre_depth tp) (ws_stack tp).
Proof.
  intros d mw cs st tp w st2 sub st3 Ht H Hp.
  destruct (render_kids_balanced d mw cs _ st2 (new_sub_renderer tp w) (stack st) H eq_refl)
    as (s' & E & M).
  unfold pop_sub in Hp. rewrite E in Hp. injection Hp as <- <-. cbn [stack]. auto.
Qed.
Print Assumptions sub_renderer_balanced.

(* The whole tree: the final sub-renderer has an empty annotation stack, no filter, preformat
   depth 0, no white-space mode, the requested width and options. *)
Theorem render_tree_balanced : forall d mw o width tree s,
  render_tree d mw o width tree = Ok s -> meta_of s = mkmeta width o [] O 0 [].
Proof.
  intros d mw o width tree s H. unfold render_tree in H. bind_inv H e He. bind_inv H st Hst.
  destruct (render_node_balanced d mw tree _ st (sub_new width o) [] Hst eq_refl) as (s0 & E & M).
  rewrite E in H. destruct (sub_finalise s0 (links st)) as [|l ls].
  - ok_inv H. exact M.
  - bind_inv H s1 H1. replace s with (fmt_links s1 (l :: ls)) by congruence.
    rewrite meta_fmt_links. rewrite (meta_start_block _ _ H1). exact M.
Qed.
Print Assumptions render_tree_balanced.

(* ------------------------------------------------------------------ *)
(* (2) ENCLOSING ANNOTATIONS.  Q is any property of tags with Q [] (block padding made by
   pad_block_width carries the empty tag unless a space tag is pending).  If every extension
   of the annotation stack at entry satisfies Q and every tag stored in the top sub-renderer
   (finished lines incl. borders, pending fragments, wrapping block: lines, word, pending
   space tag) satisfies Q, then so does every tag stored in it afterwards. *)
Theorem render_node_tags : forall (Q : tag -> Prop) d mw n st st' s rest,
  Q [] ->
  render_node d mw n st = Ok st' -> stack st = s :: rest ->
  (forall x, Q (ann_stack s ++ x)) -> sub_Q Q s ->
  exists s', stack st' = s' :: rest /\ meta_of s' = meta_of s /\ sub_Q Q s'.
Proof.
  intros Q d mw n st st' s rest Qnil H E Hx Hq.
  destruct (node_T_all Q Qnil d mw n st st' H s rest E) as (s' & E' & M & Qp).
  exists s'. split; [exact E'|]. split; [exact M|]. apply Qp; [exact I|exact Hx|exact Hq].
Qed.
Print Assumptions render_node_tags.

Theorem render_kids_tags : forall (Q : tag -> Prop) d mw cs st st' s rest,
  Q [] ->
  fold_left (fun acc c => do s <- acc; render_node d mw c s) cs (Ok st) = Ok st' ->
  stack st = s :: rest ->
  (forall x, Q (ann_stack s ++ x)) -> sub_Q Q s ->
  exists s', stack st' = s' :: rest /\ meta_of s' = meta_of s /\ sub_Q Q s'.
Proof.
  intros Q d mw cs st st' s rest Qnil H E Hx Hq.
  assert (HF : Forall (node_T Q d mw) cs).
  { apply Forall_forall. intros c _. apply node_T_all. exact Qnil. }
  destruct (kids_T Q d mw cs st st' HF H s rest E) as (s' & E' & M & Qp).
  exists s'. split; [exact E'|]. split; [exact M|]. apply Qp; [exact I|exact Hx|exact Hq].
Qed.

Lemma elem_Q_impl (Q Q' : tag -> Prop) e : (forall t, Q t -> Q' t) -> elem_Q Q e -> elem_Q Q' e.
Proof. intros H. destruct e; cbn; auto. Qed.
Lemma tl_Q_impl (Q Q' : tag -> Prop) l : (forall t, Q t -> Q' t) -> tl_Q Q l -> tl_Q Q' l.
Proof. intros H. unfold tl_Q. apply Forall_impl. intros e. apply elem_Q_impl, H. Qed.
Lemma sub_Q_impl (Q Q' : tag -> Prop) s : (forall t, Q t -> Q' t) -> sub_Q Q s -> sub_Q Q' s.
Proof.
  intros H (A & B & C). unfold sub_Q. split; [|split].
  - revert A. apply Forall_impl. intros [l|b t]; cbn [rline_Q]; [apply tl_Q_impl, H|apply H].
  - revert B. apply Forall_impl. intros e. apply elem_Q_impl, H.
  - destruct (wrapping s) as [w|]; [|exact I]. cbn [owb_Q] in *.
    destruct C as (C1 & C2 & C3 & C4). unfold wb_Q. repeat split.
    + revert C1. apply Forall_impl. intros l. apply tl_Q_impl, H.
    + apply (tl_Q_impl Q Q' _ H C2).
    + revert C3. apply Forall_impl. intros e. apply elem_Q_impl, H.
    + destruct (spacetag w); cbn [otag_Q] in *; auto.
Qed.

(* "old or new": whatever property Qold the stored tags had before, afterwards every stored
   tag either has Qold, or is the empty padding tag, or extends the annotation stack at
   entry (document text, decorator text, prefixes, borders, cell padding, separators). *)
Corollary render_node_new_tags : forall (Qold : tag -> Prop) d mw n st st' s rest,
  render_node d mw n st = Ok st' -> stack st = s :: rest -> sub_Q Qold s ->
  exists s', stack st' = s' :: rest /\
    sub_Q (fun t => Qold t \/ t = [] \/ ext (ann_stack s) t) s'.
Proof.
  intros Qold d mw n st st' s rest H E Hq.
  destruct (render_node_tags (fun t => Qold t \/ t = [] \/ ext (ann_stack s) t)
                             d mw n st st' s rest) as (s' & E' & _ & Q');
    [right; left; reflexivity|exact H|exact E| | |exists s'; auto].
  - intros x. right. right. exists x. reflexivity.
  - revert Hq. apply sub_Q_impl. auto.
Qed.
Print Assumptions render_node_new_tags.

Corollary render_kids_new_tags : forall (Qold : tag -> Prop) d mw cs st st' s rest,
  fold_left (fun acc c => do s <- acc; render_node d mw c s) cs (Ok st) = Ok st' ->
  stack st = s :: rest -> sub_Q Qold s ->
  exists s', stack st' = s' :: rest /\
    sub_Q (fun t => Qold t \/ t = [] \/ ext (ann_stack s) t) s'.
Proof.
  intros Qold d mw cs st st' s rest H E Hq.
  destruct (render_kids_tags (fun t => Qold t \/ t = [] \/ ext (ann_stack s) t)
                             d mw cs st st' s rest) as (s' & E' & _ & Q');
    [right; left; reflexivity|exact H|exact E| | |exists s'; auto].
  - intros x. right. right. exists x. reflexivity.
  - revert Hq. apply sub_Q_impl. auto.
Qed.

(* the contents of a popped sub-renderer: only tags extending the parent's stack (or []) *)
Corollary sub_renderer_tags : forall d mw cs st tp w st2 sub st3,
  top st = Ok tp ->
  fold_left (fun acc c => do s <- acc; render_node d mw c s) cs
            (Ok (push_sub st (new_sub_renderer tp w))) = Ok st2 ->
  pop_sub st2 = Ok (sub, st3) ->
  sub_Q (fun t => t = [] \/ ext (ann_stack tp) t) sub.
Proof.
  intros d mw cs st tp w st2 sub st3 Ht H Hp.
  destruct (render_kids_new_tags (fun _ => False) d mw cs _ st2 (new_sub_renderer tp w) (stack st)
                                 H eq_refl) as (s' & E & Q').
  { apply new_sub_renderer_Q. }
  unfold pop_sub in Hp. rewrite E in Hp. injection Hp as <- <-.
  revert Q'. apply sub_Q_impl. intros t [[]|[A|A]]; auto.
Qed.

(* ------------------------------------------------------------------ *)
(* (2b) A text leaf: its characters get EXACTLY the annotation stack at entry plus the colour
   annotations of the node's own style, plus Preformat(false) (first piece of a source line)
   or Preformat(true) (continuation piece) when the preformat depth is positive. *)
Definition col_anns (d : deco) (mk : N -> N -> N -> ann) (o : option (N * N * N)) : tag :=
  match o with
  | Some (r, g, b) => if d_colours d then [mk r g b] else []
  | None => []
  end.
Definition style_anns (d : deco) (cs : cstyle) : tag :=
  col_anns d AColour (ws_val (c_colour (cs_core cs))) ++ col_anns d ABg (ws_val (c_bg (cs_core cs))).

Lemma g_style_ann d cs m : m_ann (g_style d cs m) = m_ann m ++ style_anns d cs.
Proof.
  unfold g_style, g_pre, g_ws, g_col, style_anns, col_anns.
  destruct (cs_internal_pre cs); destruct (wsm_of cs);
    destruct (ws_val (c_bg (cs_core cs))) as [[[r1 g1] b1]|];
    destruct (ws_val (c_colour (cs_core cs))) as [[[r2 g2] b2]|];
    destruct (d_colours d); cbn; rewrite ?app_nil_r, <- ?app_assoc; reflexivity.
Qed.

Lemma g_style_pre d cs m :
  m_pre (g_style d cs m) = m_pre m + (if cs_internal_pre cs then 1 else 0).
Proof.
  unfold g_style, g_pre, g_ws, g_col.
  destruct (cs_internal_pre cs); destruct (wsm_of cs);
    destruct (ws_val (c_bg (cs_core cs))) as [[[r1 g1] b1]|];
    destruct (ws_val (c_colour (cs_core cs))) as [[[r2 g2] b2]|];
    destruct (d_colours d); cbn; lia.
Qed.

Theorem text_leaf_tags : forall (Qold : tag -> Prop) d mw t sty st st' s rest,
  render_node d mw (RN (IText t) sty) st = Ok st' -> stack st = s :: rest -> sub_Q Qold s ->
  let A := ann_stack s ++ style_anns d sty in
  let inpre := 0 <? pre_depth s + (if cs_internal_pre sty then 1 else 0) in
  exists s', stack st' = s' :: rest /\ meta_of s' = meta_of s /\
    sub_Q (fun x => Qold x \/ x = [] \/
                    x = (if inpre then A ++ [d_pre_first d] else A) \/
                    x = (if inpre then A ++ [d_pre_cont d] else A)) s'.
Proof.
  intros Qold d mw t sty st st' s rest H E Hq A inpre.
  set (Q' := fun x => Qold x \/ x = [] \/
                      x = (if inpre then A ++ [d_pre_first d] else A) \/
                      x = (if inpre then A ++ [d_pre_cont d] else A)).
  assert (Qnil : Q' []) by (right; left; reflexivity).
  cbn [render_node rn_info rn_style] in H.
  bind_inv H sz Hsz. bind_inv H ap Hap. destruct ap as [st1 ps]. bind_inv H st2 H2.
  destruct (apply_style_B Q' _ _ _ _ _ Hap) as [-> B1].
  destruct (B1 s rest E) as (s1 & E1 & M1 & Q1).
  unfold inline_text in H2. destruct (with_top_inv _ _ _ H2) as (x & r & s2 & Ex & Ef & ->).
  rewrite E1 in Ex. injection Ex as <- <-.
  assert (Ea : ann_stack s1 = A).
  { change (m_ann (meta_of s1) = A). rewrite M1, g_style_ann. reflexivity. }
  assert (Ep : (0 <? pre_depth s1) = inpre).
  { change ((0 <? m_pre (meta_of s1)) = inpre). rewrite M1, g_style_pre. reflexivity. }
  assert (Q2 : sub_Q Q' s2).
  { eapply (add_inline_text_Q Q' Qnil d s1 t s2); [| | |exact Ef].
    - apply Q1. revert Hq. apply sub_Q_impl. intros x Hx. left. exact Hx.
    - unfold main_tag_of. rewrite Ep, Ea. right. right. left. reflexivity.
    - unfold cont_tag_of. rewrite Ep, Ea. right. right. right. reflexivity. }
  destruct (unwind_B Q' _ _ _ _ H s2 rest eq_refl) as (s3 & E3 & M3 & Q3).
  exists s3. split; [exact E3|]. split; [|apply Q3, Q2].
  rewrite M3, (meta_add_inline_text _ _ _ _ Ef), M1. apply h_g_style.
Qed.
Print Assumptions text_leaf_tags.

(* ------------------------------------------------------------------ *)
(* (2c) Inline elements: everything rendered for an <em>/<strong>/<s>/<code> element -- the
   decorator's opening and closing text and all descendants, in whatever nested blocks or
   table cells -- carries the stack at entry + the colours of the element's style + the
   element's own annotation (or is block padding with the empty tag). *)
Definition inline_ann (d : deco) (i : rinfo) : option (ann * list rnode) :=
  match i with
  | IEm cs => Some (snd (d_em_start d), cs)
  | IStrong cs => Some (snd (d_strong_start d), cs)
  | IStrikeout cs => Some (snd (d_strike_start d), cs)
  | ICode cs => Some (snd (d_code_start d), cs)
  | _ => None
  end.

Theorem inline_element_tags : forall (Qold : tag -> Prop) d mw i sty a cs st st' s rest,
  inline_ann d i = Some (a, cs) ->
  render_node d mw (RN i sty) st = Ok st' -> stack st = s :: rest -> sub_Q Qold s ->
  exists s', stack st' = s' :: rest /\
    sub_Q (fun t => Qold t \/ t = [] \/ ext (ann_stack s ++ style_anns d sty ++ [a]) t) s'.
Proof.
  intros Qold d mw i sty a cs st st' s rest Hw H E Hq.
  rewrite app_assoc. set (A := ann_stack s ++ style_anns d sty).
  set (Q' := fun t => Qold t \/ t = [] \/ ext (A ++ [a]) t).
  assert (Qnil : Q' []) by (right; left; reflexivity).
  assert (Hext : Qext Q' (A ++ [a])) by (intros x; right; right; exists x; reflexivity).
  assert (core : forall g h f1 f2 st1 ps sa sb sc,
     (forall m, m_ann (g m) = m_ann m ++ [a]) -> (forall m, h (g m) = m) ->
     (forall s0 s0', f1 s0 = Ok s0' -> meta_of s0' = g (meta_of s0) /\
        (Qext Q' (ann_stack s0 ++ [a]) -> sub_Q Q' s0 -> sub_Q Q' s0')) ->
     opT Q' True h f2 ->
     apply_style d st sty = Ok (st1, ps) -> with_top st1 f1 = Ok sa ->
     fold_left (fun acc c => do s <- acc; render_node d mw c s) cs (Ok sa) = Ok sb ->
     with_top sb f2 = Ok sc -> unwind d ps sc = Ok st' ->
     exists s', stack st' = s' :: rest /\ sub_Q Q' s').
  { intros g h f1 f2 st1 ps sa sb sc Hg Hinv O1 O2 Hap Hsa Hsb Hsc Hun.
    destruct (apply_style_B Q' _ _ _ _ _ Hap) as [-> B1].
    destruct (B1 s rest E) as (s1 & E1 & M1 & Q1).
    assert (Ea1 : ann_stack s1 = A).
    { change (m_ann (meta_of s1) = A). rewrite M1, g_style_ann. reflexivity. }
    destruct (with_top_inv _ _ _ Hsa) as (x & r & s2 & Ex & Ef & ->).
    rewrite E1 in Ex. injection Ex as <- <-. destruct (O1 _ _ Ef) as [M2 Q2].
    assert (K2 : sub_Q Q' s2).
    { apply Q2; [rewrite Ea1; exact Hext|]. apply Q1. revert Hq. apply sub_Q_impl. intros t Ht.
      left. exact Ht. }
    assert (Ea2 : ann_stack s2 = A ++ [a]).
    { change (m_ann (meta_of s2) = A ++ [a]). rewrite M2, Hg. cbn [m_ann meta_of]. rewrite Ea1.
      reflexivity. }
    destruct (render_kids_tags Q' d mw cs _ sb s2 rest Qnil Hsb eq_refl) as (s3 & E3 & M3 & K3);
      [rewrite Ea2; exact Hext|exact K2|].
    destruct (with_top_inv _ _ _ Hsc) as (x & r & s4 & Ex & Ef4 & ->).
    rewrite E3 in Ex. injection Ex as <- <-. destruct (O2 _ _ Ef4) as [M4 Q4].
    assert (K4 : sub_Q Q' s4).
    { apply Q4; [exact I| |exact K3]. rewrite (meta_ann _ _ M3), Ea2. exact Hext. }
    destruct (unwind_B Q' _ _ _ _ Hun s4 rest eq_refl) as (s5 & E5 & M5 & Q5).
    exists s5. split; [exact E5|apply Q5, K4]. }
  destruct i; try discriminate; cbn [inline_ann] in Hw; injection Hw as <- <-;
    cbn [render_node rn_info rn_style] in H; bind_inv H sz Hsz; bind_inv H ap Hap;
    destruct ap as [st1 ps]; bind_inv H sa H1; bind_inv H sb H2; bind_inv H sc H3.
  - (* IEm *)
    eapply (core (m_push (snd (d_em_start d))) m_pop (start_emphasis d) (end_emphasis d));
      [reflexivity|apply m_pop_push| |exact (end_deco_T Q' Qnil d True (d_em_end d))|
       exact Hap|exact H1|exact H2|exact H3|exact H].
    intros s0 s0' Hf. split; [exact (meta_start_deco d s0 (d_em_start d) s0' Hf)|].
    exact (start_deco_Q Q' Qnil d (d_em_start d) s0 s0' Hf).
  - (* IStrong *)
    eapply (core (m_push (snd (d_strong_start d))) m_pop (start_strong d) (end_strong d));
      [reflexivity|apply m_pop_push| |exact (end_deco_T Q' Qnil d True (d_strong_end d))|
       exact Hap|exact H1|exact H2|exact H3|exact H].
    intros s0 s0' Hf. split; [exact (meta_start_deco d s0 (d_strong_start d) s0' Hf)|].
    exact (start_deco_Q Q' Qnil d (d_strong_start d) s0 s0' Hf).
  - (* IStrikeout *)
    eapply (core (fun m => m_filt_inc (m_push (snd (d_strike_start d)) m))
                 (fun m => m_pop (m_filt_dec m)) (start_strikeout d) (end_strikeout d));
      [|intros m; apply strike_inv| |exact (end_strikeout_T Q' Qnil d True)|
       exact Hap|exact H1|exact H2|exact H3|exact H].
    + intros m. unfold m_filt_inc. destruct (o_strike (m_o (m_push (snd (d_strike_start d)) m)));
        reflexivity.
    + intros s0 s0' Hf. split; [exact (meta_start_strikeout d s0 s0' Hf)|].
      exact (start_strikeout_Q Q' Qnil d s0 s0' Hf).
  - (* ICode *)
    eapply (core (m_push (snd (d_code_start d))) m_pop (start_code d) (end_code d));
      [reflexivity|apply m_pop_push| |exact (end_deco_T Q' Qnil d True (d_code_end d))|
       exact Hap|exact H1|exact H2|exact H3|exact H].
    intros s0 s0' Hf. split; [exact (meta_start_deco d s0 (d_code_start d) s0' Hf)|].
    exact (start_deco_Q Q' Qnil d (d_code_start d) s0 s0' Hf).
Qed.
Print Assumptions inline_element_tags.

(* ================================================================== *)
(* 6. Non-vacuity examples                                              *)
(* ================================================================== *)

Definition ab_opts : ropts := render_options (with_decorator rich_deco).
Definition ab_txt (l : list N) : rnode := ex_n (IText (ex_str l)).
(* style="color:#f00" *)
Definition ab_red : cstyle :=
  mkcs (mkcore (maybe_update ws_default false OAuthor spec0 (255, 0, 0)) ws_default ws_default
               ws_default ws_default) None None false.
(* the style Dom.build_element gives a <pre> element *)
Definition ab_pre : cstyle :=
  mkcs (mkcore ws_default ws_default ws_default (maybe_update ws_default false OAgent spec0 WsPre)
               ws_default) None None true.

(* <p>ab <em>cd <strong>ef</strong></em> gh</p>
   <blockquote style="color:#f00"><a href="u">q <code>r</code></a></blockquote>
   <table><tr><td><em>x</em></td><td>y</td></tr></table>
   <pre>p  q</pre> *)
Definition ab_tree : rnode :=
  ex_n (IContainer
    [ex_n (IBlock [ab_txt [97;98;32];
                   ex_n (IEm [ab_txt [99;100;32]; ex_n (IStrong [ab_txt [101;102]])]);
                   ab_txt [32;103;104]]);
     RN (IBlockQuote [ex_n (ILink (ex_str [117]) [ab_txt [113;32]; ex_n (ICode [ab_txt [114]])])]) ab_red;
     ex_n (ITable [RRow [RCell 1 [ex_n (IEm [ab_txt [120]])] cstyle0; RCell 1 [ab_txt [121]] cstyle0]
                        cstyle0] 2);
     RN (IBlock [ab_txt [112;32;32;113]]) ab_pre]).

(* observable: per line, the pieces as (code points, tag) *)
Definition obs_line (l : tline) : list (list N * tag) :=
  map (fun p => (cps (fst p), snd p)) (tl_tagged_strings l).
Definition obs_sub (s : subr) : res (list (list (list N * tag))) :=
  do ls <- sub_into_lines s; Ok (map (fun l => obs_line (rline_into_tagged l)) ls).
Definition ab_obs (r : res subr) : res (list (list (list N * tag))) := do s <- r; obs_sub s.

Definition ab_u : text := ex_str [117].

Example ab_render_tree_obs :
  ab_obs (render_tree rich_deco 3 ab_opts 20 ab_tree) =
  Ok [[([97;98;32], []); ([99;100;32], [AEm]); ([101;102], [AEm; AStrong]); ([32;103;104], [])];
      [];
      [([62;32], [AColour 255 0 0]);
       ([113;32], [AColour 255 0 0; ALink ab_u]);
       ([114], [AColour 255 0 0; ALink ab_u; ACode])];
      [];
      [([9472;9516;9472], [])];
      [([120], [AEm]); ([9474;121], [])];
      [([9472;9524;9472], [])];
      [];
      [([112;32;32;113], [APre false])]].
Proof. vm_compute. reflexivity. Qed.

Definition ab_s : subr :=
  match render_tree rich_deco 3 ab_opts 20 ab_tree with Ok s => s | _ => sub_new 0 ab_opts end.
Example ab_render_tree_eq : render_tree rich_deco 3 ab_opts 20 ab_tree = Ok ab_s.
Proof. vm_compute. reflexivity. Qed.
Example ab_tree_balanced_applies : meta_of ab_s = mkmeta 20 ab_opts [] O 0 [].
Proof. exact (render_tree_balanced rich_deco 3 ab_opts 20 ab_tree ab_s ab_render_tree_eq). Qed.

(* the same tree rendered inside an open <strong>: a state whose top sub-renderer has the
   annotation stack [AStrong] *)
Definition ab_s0 : subr := set_ann (sub_new 20 ab_opts) [AStrong].
Definition ab_st0 : rstate := mkrst [ab_s0] [].
Definition ab_st1 : rstate :=
  match render_node rich_deco 3 ab_tree ab_st0 with Ok st => st | _ => ab_st0 end.
Example ab_render_node_eq : render_node rich_deco 3 ab_tree ab_st0 = Ok ab_st1.
Proof. vm_compute. reflexivity. Qed.

Example ab_balanced_applies :
  exists s', stack ab_st1 = [s'] /\ meta_of s' = mkmeta 20 ab_opts [AStrong] O 0 [].
Proof. exact (render_node_balanced rich_deco 3 ab_tree ab_st0 ab_st1 ab_s0 [] ab_render_node_eq eq_refl). Qed.

Lemma ab_s0_empty (Q : tag -> Prop) : sub_Q Q ab_s0.
Proof. unfold sub_Q. cbn. repeat split; constructor. Qed.

Example ab_new_tags_applies :
  exists s', stack ab_st1 = [s'] /\
    sub_Q (fun t => False \/ t = [] \/ ext [AStrong] t) s'.
Proof.
  exact (render_node_new_tags (fun _ => False) rich_deco 3 ab_tree ab_st0 ab_st1 ab_s0 []
                              ab_render_node_eq eq_refl (ab_s0_empty _)).
Qed.

(* a text leaf with its own colour, inside <strong>, inside <pre> (preformat depth 1) *)
Definition ab_leaf : rnode := RN (IText (ex_str [112;32;32;113])) ab_red.
Definition ab_s0p : subr := set_pre_depth ab_s0 1.
Definition ab_st0p : rstate := mkrst [ab_s0p] [].
Definition ab_st1p : rstate :=
  match render_node rich_deco 3 ab_leaf ab_st0p with Ok st => st | _ => ab_st0p end.
Example ab_leaf_eq : render_node rich_deco 3 ab_leaf ab_st0p = Ok ab_st1p.
Proof. vm_compute. reflexivity. Qed.
Example ab_leaf_applies :
  exists s', stack ab_st1p = [s'] /\ meta_of s' = meta_of ab_s0p /\
    sub_Q (fun x => False \/ x = [] \/ x = [AStrong; AColour 255 0 0; APre false]
                                    \/ x = [AStrong; AColour 255 0 0; APre true]) s'.
Proof.
  exact (text_leaf_tags (fun _ => False) rich_deco 3 _ ab_red ab_st0p ab_st1p ab_s0p []
                        ab_leaf_eq eq_refl (ab_s0_empty _)).
Qed.
Example ab_leaf_obs :
  match stack ab_st1p with [s'] => obs_sub s' | _ => Panic 0 end =
  Ok [[([112;32;113], [AStrong; AColour 255 0 0; APre false])]].
Proof. vm_compute. reflexivity. Qed.

(* an inline element: <em style="color:#f00">cd <strong>ef</strong></em> inside <strong> *)
Definition ab_em : rnode :=
  RN (IEm [ab_txt [99;100;32]; ex_n (IStrong [ab_txt [101;102]])]) ab_red.
Definition ab_st1e : rstate :=
  match render_node rich_deco 3 ab_em ab_st0 with Ok st => st | _ => ab_st0 end.
Example ab_em_eq : render_node rich_deco 3 ab_em ab_st0 = Ok ab_st1e.
Proof. vm_compute. reflexivity. Qed.
Example ab_em_applies :
  exists s', stack ab_st1e = [s'] /\
    sub_Q (fun t => False \/ t = [] \/ ext [AStrong; AColour 255 0 0; AEm] t) s'.
Proof.
  exact (inline_element_tags (fun _ => False) rich_deco 3
           (IEm [ab_txt [99;100;32]; ex_n (IStrong [ab_txt [101;102]])]) ab_red AEm
           [ab_txt [99;100;32]; ex_n (IStrong [ab_txt [101;102]])] ab_st0 ab_st1e ab_s0 []
           eq_refl ab_em_eq eq_refl (ab_s0_empty _)).
Qed.

(* ================================================================== *)
(* 7. FINDINGS (behaviour of html2text that the model reproduces)       *)
(* ================================================================== *)

(* F1 (REPAIRED in the model, Sub.new_sub_renderer).  new_sub_renderer used to copy the
   annotation stack but neither the preformat depth nor the white-space mode stack, so a block
   with its own sub-renderer (list item, block quote, heading, dd, table cell) inside <pre> lost
   both the Preformat annotation and the preserved white space:
   <pre>a  b<ul><li>x  y</li></ul>c  d</pre>  rendered  "* x y"  with the empty tag.
   Now the nested sub-renderer inherits preformat depth and white-space modes
   (new_sub_renderer_meta above): the text of the item keeps its two spaces and carries
   Preformat(false); the list prefix "* " carries the annotation stack of the parent ([]), as
   every prefix does (attach_prefixes_Q). *)
Definition f1_tree : rnode :=
  RN (IBlock [ab_txt [97;32;32;98];
              ex_n (IUl [ex_n (IListItem [ab_txt [120;32;32;121]])]);
              ab_txt [99;32;32;100]]) ab_pre.
Example f1_pre_kept_in_sub_renderer :
  ab_obs (render_tree rich_deco 3 ab_opts 20 f1_tree) =
  Ok [[([97;32;32;98], [APre false])];
      [([42;32], []); ([120;32;32;121], [APre false])];
      [([99;32;32;100], [APre false])]].
Proof. vm_compute. reflexivity. Qed.

(* sub_renderer_balanced exercised with a parent that is inside <strong> and <pre> (annotation
   stack [AStrong], preformat depth 1): the nested sub-renderer of width 7 is popped with
   exactly the meta part (7, options, [AStrong], 0, 1, []) it started with, and its text carries
   Preformat (white space is collapsed here because ab_s0p has an empty white-space stack). *)
Definition f1_kids : list rnode := [ab_txt [120;32;32;121]; ex_n (IEm [ab_txt [122]])].
Definition f1_st2 : rstate :=
  match fold_left (fun acc c => do s <- acc; render_node rich_deco 3 c s) f1_kids
                  (Ok (push_sub ab_st0p (new_sub_renderer ab_s0p 7))) with
  | Ok st => st | _ => ab_st0p end.
Example f1_kids_eq :
  fold_left (fun acc c => do s <- acc; render_node rich_deco 3 c s) f1_kids
            (Ok (push_sub ab_st0p (new_sub_renderer ab_s0p 7))) = Ok f1_st2.
Proof. vm_compute. reflexivity. Qed.
Definition f1_popped : subr * rstate :=
  match pop_sub f1_st2 with Ok p => p | _ => (ab_s0p, ab_st0p) end.
Example f1_pop_eq : pop_sub f1_st2 = Ok (fst f1_popped, snd f1_popped).
Proof. vm_compute. reflexivity. Qed.
Example f1_sub_renderer_balanced_applies :
  stack (snd f1_popped) = [ab_s0p] /\
  meta_of (fst f1_popped) = mkmeta 7 ab_opts [AStrong] O 1 [].
Proof.
  exact (sub_renderer_balanced rich_deco 3 f1_kids ab_st0p ab_s0p 7 f1_st2 (fst f1_popped)
                               (snd f1_popped) eq_refl f1_kids_eq f1_pop_eq).
Qed.
Example f1_sub_obs :
  obs_sub (fst f1_popped) =
  Ok [[([120;32;121], [AStrong; APre false]); ([122], [AStrong; AEm; APre false])]].
Proof. vm_compute. reflexivity. Qed.

(* F2 (REPAIRED likewise).  The strikeout text filter was not inherited either:
   <s>ab<ul><li>cd</li></ul>ef</s> with the plain decorator struck "ab" and "ef" (U+0336 after
   each character) but not "cd", although with the rich decorator "cd" did carry the Strikeout
   annotation.  Now the filter depth is inherited and "cd" is struck as well. *)
Definition f2_tree : rnode :=
  ex_n (IStrikeout [ab_txt [97;98]; ex_n (IUl [ex_n (IListItem [ab_txt [99;100]])]); ab_txt [101;102]]).
Example f2_strike_filter_kept_in_sub_renderer :
  ab_obs (render_tree plain_deco 3 (render_options (with_decorator plain_deco)) 20 f2_tree) =
  Ok [[([97;822;98;822], [ADefault])];
      [([42;32;99;822;100;822], [ADefault])];
      [([101;822;102;822], [ADefault])]].
Proof. vm_compute. reflexivity. Qed.
Example f2_rich_annotation_and_filter :
  ab_obs (render_tree rich_deco 3 ab_opts 20 f2_tree) =
  Ok [[([97;822;98;822], [AStrike])];
      [([42;32;99;822;100;822], [AStrike])];
      [([101;822;102;822], [AStrike])]].
Proof. vm_compute. reflexivity. Qed.

(* F3.  Block padding takes the tag of the pending inter-word space (spacetag) even when the
   element it came from is closed: <p>x<em> </em></p> at width 6 with pad_block_width pads the
   line with five spaces tagged Emphasis; <p>x<strong>y </strong> </p> likewise.  (Same on the
   implementation.)  Harmless for text, but the padding is outside the element. *)
Definition f3_tree : rnode := ex_n (IBlock [ab_txt [120]; ex_n (IEm [ab_txt [32]])]).
Example f3_padding_takes_stale_space_tag :
  ab_obs (render_tree rich_deco 3 (render_options (set_pad (with_decorator rich_deco))) 6 f3_tree) =
  Ok [[([120], []); ([32;32;32;32;32], [AEm])]].
Proof. vm_compute. reflexivity. Qed.
