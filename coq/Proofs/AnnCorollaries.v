(* Proofs/AnnCorollaries.v -- property C09 ("in annotated output every piece of text carries
   exactly the annotations of the elements that enclose it ... outermost first, independent of
   line wrapping, block nesting and table cells; no annotation leaks past the end of its
   element; concatenating the pieces of each line gives the string output") at CHARACTER level.

   Proofs/AnnBalance.v and Proofs/Inherit.v bound the set of TAGS in the output (every tag is
   the tag of some root path).  Tags carry no provenance, so those theorems cannot say WHICH
   character carries which tag: a model in which <em> pushed nothing would still satisfy them
   on a tree whose other texts are plain.  This file redoes the invariant for (character, tag)
   pairs -- every operation of the wrapping block (section 1), of the sub-renderer (1), of
   render_node (3, 5) -- and derives the statements of the property for the characters of the
   document, which are identified by their provenance label (Base.chr, lab >= 16).
   Partial correctness (Ok outcome), ALL render trees, decorators, options, widths; no axioms.

   MAIN THEOREMS
   (1) render_node_chars (section 6): for every relation R "character c may carry tag t" that is
       closed under tag_eqb, allows (padding space, []) and contains tree_ct of the node,
       render_node keeps "every stored character is R-related to the tag of its piece" (sub_R).
   (2) render_tree_chars, render_tree_line_chars, c09_lines_from_read_chars: every character of
       every line of the output, with the tag of its piece, is in root_ct d tree (up to tag_eqb):
         (padding space, [])  |  (footnote-list character, [ADefault])  |
         char_tag d [] false p c t  for a root path p:
           inline text of the last node of p (own_texts: EVERY constructor of rinfo listed):
               t = enclosing_anns d p  (+ Preformat first|cont  iff a node of p is <pre>)
           block structure of the last node (struct_char, every constructor listed):
               t = enclosing_anns d p   exactly, never Preformat
           footnote reference of a link: the link's ancestors + its colours, not Link.
   (A) own_ann_tbl : deco -> rinfo -> option ann, every constructor listed, = Inherit.own_ann
       (own_ann_tbl_ok); enclosing_anns_tbl / _split / _In: the enclosing annotations are, node
       by node and outermost first, colours of the style (fg, bg) then own_ann_tbl of the kind,
       and nothing else; rich_own_ann (Link target, Image src, Emphasis for em AND dt, Strong,
       Strikeout, Code, <sup> = the decorator's annotation unless digits-only; headings, list
       items, rows, cells, dd, quotes: nothing), rich_link_contributes, rich_image_contributes,
       rich_block_contributes.
       doc_char_tag: every DOCUMENT character (lab >= 16) of the output belongs to an own text
       of the last node of a root path p and its tag is leaf_tag d p = enclosing_anns d p
       (+ Preformat).  Hypothesis prefix_made d (the decorator's prefixes consist of made
       characters; proved for rich / plain / trivial).
   (B) leaf_char_tag: if c has one home p0 (unique_home: decidable, unique_home_check; true when
       labels are distinct), every occurrence of c in the output of render_tree d mw o width
       carries leaf_tag d p0 -- an expression in which mw, o, width do not occur.
       leaf_tags_independent: two renders with any (mw1,o1,w1), (mw2,o2,w2): the same tag (up
       to tag_eqb), or both among the two Preformat variants of the same stack.
   (C) made_char_tag: the exact rule for every renderer-made character (own_free: not a character
       of any text): padding [] | footnote list [ADefault] | strike marks, collapsed spaces and
       padding with a pending space: leaf_tag of a text with a visible resp. whitespace
       character | prefixes, borders, bars, separators, cell padding: exactly enclosing_anns of
       the path of the node that makes them | footnote reference.
   (D) c09_pieces_concat: string_from_read = lines_from_read with the pieces of each line
       concatenated + newline, one equation for every configuration and outcome (re-export of
       ApiProofs.routes_agree = Props/C10).

   OBSERVATIONS (section 10, all three confirmed on the implementation)
     O1 padding (pad_block_width) takes the tag of the pending space even if its element is
        closed: it can carry Link of a closed link, the background colour of a closed span
        (AnnBalance F3, sharper).  The ONLY leak: prefixes/borders/separators never leak.
     O2 border lines of a table nested under a prefix or in an outer row are re-tagged with the
        enclosing block's annotations (lose the inner table's colours).
     O3 the footnote reference of a link inside <s> is struck.

   STRUCTURE  1 invariant (wrapping block, sub-renderer)  2 tag_eqb, monotonicity, pairs
   3 renderer steps  4 own_texts / struct_char / char_tag  5 induction on the tree
   6 main theorems  7 corollaries (A)-(D)  8 decidable side conditions  9 examples
   10 observations *)
From H2T Require Import Base Tagged Wrap Sub Css Dom Render Api.
From H2T Require Import Proofs.RenderWidth Proofs.AnnBalance Proofs.Inherit Proofs.ApiProofs.
From H2T Require Proofs.Conserve Proofs.WrapInv.
From Coq Require Import Lia ZifyN ZifyBool ZifyNat.

Local Arguments N.add : simpl never.
Local Arguments N.sub : simpl never.
Local Arguments N.mul : simpl never.
Local Arguments N.div : simpl never.
Local Arguments N.modulo : simpl never.
Local Arguments N.leb : simpl never.
Local Arguments N.ltb : simpl never.
Local Arguments N.eqb : simpl never.
Local Arguments N.min : simpl never.
Local Arguments N.max : simpl never.
Local Arguments N.to_nat : simpl never.
Local Arguments N.of_nat : simpl never.
Local Open Scope N_scope.

(* ================================================================== *)
(* 1. Which character carries which tag: the invariant of every         *)
(*    operation of the wrapping block and of the sub-renderer           *)
(* ================================================================== *)

Section CharInv.
  (* R c t: "character c may carry tag t".  TaggedLine merges adjacent pieces whose tags are
     equal according to tag_eqb (which compares link targets / image sources by code points
     only), keeping the tag of the first piece: R has to be closed under that. *)
  Variable R : chr -> tag -> Prop.
  Hypothesis Rteq : forall c t t', tag_eqb t' t = true -> R c t -> R c t'.
  (* block padding made by pad_block_width without a pending space carries the empty tag *)
  Hypothesis Rpad_nil : R (spacel L_pad) [].

  Definition str_R (s : text) (t : tag) : Prop := Forall (fun c => R c t) s.
  Definition elem_R (e : elem) : Prop := match e with Str s t => str_R s t | Frag _ => True end.
  Definition tl_R (l : tline) : Prop := Forall elem_R (tv l).
  (* a tag that renderer-made spaces may carry: collapsed inter-word spaces / tab fill, and
     the padding that reuses the tag of the pending space *)
  Definition Sp (t : tag) : Prop := R (spacel L_space) t /\ R (spacel L_pad) t.
  Definition otag_R (o : option tag) : Prop := match o with Some t => Sp t | None => True end.
  Definition wb_R (b : wblock) : Prop :=
    Forall tl_R (wtext b) /\ tl_R (wline b) /\ Forall elem_R (wword b) /\ otag_R (spacetag b).
  (* a text handed to add_text with main tag mt and continuation tag wt *)
  Definition chr_R (mt wt : tag) (c : chr) : Prop :=
    R c mt /\ R c wt /\ (ws c = true -> Sp mt /\ Sp wt).
  Definition txt_R (mt wt : tag) (s : text) : Prop := Forall (chr_R mt wt) s.

  Lemma str_R_app s1 s2 t : str_R s1 t -> str_R s2 t -> str_R (s1 ++ s2) t.
  Proof. intros A B. apply Forall_app. auto. Qed.
  Lemma str_R_teq s t t' : tag_eqb t' t = true -> str_R s t -> str_R s t'.
  Proof. intros E. apply Forall_impl. intros c. apply Rteq, E. Qed.
  Lemma str_R_repeat c n t : R c t -> str_R (repeat_chr c n) t.
  Proof. intros H. induction n as [|n IH]; cbn [repeat_chr]; constructor; assumption. Qed.
  Lemma str_R_nil t : str_R [] t.
  Proof. constructor. Qed.

  Lemma tl_new_R : tl_R tl_new.
  Proof. constructor. Qed.

  Lemma v_push_merge_R s t : forall v, Forall elem_R v -> str_R s t -> Forall elem_R (v_push_merge v s t).
  Proof.
    induction v as [|e v IH]; intros Hv Ht; cbn [v_push_merge].
    - constructor; [exact Ht|constructor].
    - inversion Hv as [|? ? He Hv']; subst. destruct v as [|e' v'].
      + destruct e as [s0 t0|nm].
        * destruct (tag_eqb t0 t) eqn:E.
          -- constructor; [|constructor]. cbn [elem_R] in *.
             apply str_R_app; [exact He|]. eapply str_R_teq; eassumption.
          -- constructor; [exact He|]. constructor; [exact Ht|constructor].
        * constructor; [exact He|]. constructor; [exact Ht|constructor].
      + constructor; [exact He|]. apply IH; assumption.
  Qed.

  Lemma tl_push_str_R l s t : tl_R l -> str_R s t -> tl_R (tl_push_str l s t).
  Proof.
    intros Hl Ht. unfold tl_push_str. destruct s as [|c s]; [exact Hl|].
    unfold tl_R. cbn [tv]. apply v_push_merge_R; assumption.
  Qed.

  Lemma tl_push_R l e : tl_R l -> elem_R e -> tl_R (tl_push l e).
  Proof.
    intros Hl He. destruct e as [s t|nm]; cbn [tl_push].
    - apply tl_push_str_R; assumption.
    - unfold tl_R. cbn [tv]. apply Forall_app. split; [exact Hl|]. constructor; [exact I|constructor].
  Qed.

  Lemma tl_push_char_R l c t : tl_R l -> R c t -> tl_R (tl_push_char l c t).
  Proof.
    intros Hl Ht. unfold tl_push_char, tl_R. cbn [tv]. apply v_push_merge_R; [exact Hl|].
    constructor; [exact Ht|constructor].
  Qed.

  Lemma tl_push_wsl_R lb l n t : tl_R l -> R (spacel lb) t -> tl_R (tl_push_wsl lb l n t).
  Proof. intros Hl Ht. apply tl_push_str_R; [exact Hl|]. apply str_R_repeat, Ht. Qed.

  Lemma fold_push_R : forall els l, tl_R l -> Forall elem_R els -> tl_R (fold_left tl_push els l).
  Proof.
    induction els as [|e els IH]; intros l Hl He; cbn [fold_left]; [exact Hl|].
    inversion He; subst. apply IH; [apply tl_push_R|]; assumption.
  Qed.

  Lemma tl_consume_R l o : tl_R l -> tl_R o -> tl_R (tl_consume l o).
  Proof. intros Hl Ho. apply fold_push_R; assumption. Qed.

  Lemma tl_insert_front_R l s t : tl_R l -> str_R s t -> tl_R (tl_insert_front l s t).
  Proof.
    intros Hl Ht. unfold tl_insert_front, tl_R in *. destruct (tv l) as [|e v] eqn:E; cbn [tv].
    - constructor; [exact Ht|constructor].
    - destruct e as [s1 t1|nm].
      + inversion Hl as [|? ? He Hv]; subst. destruct (tag_eqb t1 t) eqn:Et; cbn [tv].
        * constructor; [|exact Hv]. cbn [elem_R] in *. apply str_R_app; [|exact He].
          eapply str_R_teq; eassumption.
        * constructor; [exact Ht|exact Hl].
      + constructor; [exact Ht|exact Hl].
  Qed.

  Lemma tl_pad_to_R l w t l' : tl_R l -> R (spacel L_pad) t -> tl_pad_to l w t = Ok l' -> tl_R l'.
  Proof.
    intros Hl Ht H. unfold tl_pad_to in H. bind_inv H x Hx.
    destruct (x <? w); ok_inv H; [apply tl_push_wsl_R; assumption|exact Hl].
  Qed.

  (* ---- wrapping block ---- *)
  Lemma wb_R_set_line b l : wb_R b -> tl_R l -> wb_R (set_line b l).
  Proof. intros (A & B & C & D) Hl. unfold wb_R. cbn. auto. Qed.
  Lemma wb_R_set_space b st n : wb_R b -> otag_R st -> wb_R (set_space b st n).
  Proof. intros (A & B & C & D) Hl. unfold wb_R. cbn. auto. Qed.
  Lemma wb_R_set_word b w n : wb_R b -> Forall elem_R w -> wb_R (set_word b w n).
  Proof. intros (A & B & C & D) Hl. unfold wb_R. cbn. auto. Qed.
  Lemma wb_R_set_prew b p : wb_R b -> wb_R (set_prew b p).
  Proof. intros (A & B & C & D). unfold wb_R. cbn. auto. Qed.

  (* PADDING: the tag of the pending space if there is one, else the empty tag *)
  Lemma force_flush_line_R b b' : wb_R b -> force_flush_line b = Ok b' -> wb_R b'.
  Proof.
    intros (A & B & C & D) H. unfold force_flush_line in H. bind_inv H l Hl. ok_inv H.
    assert (Hlq : tl_R l).
    { destruct (pad_blocks b); [|ok_inv Hl; exact B].
      eapply tl_pad_to_R; [exact B| |exact Hl]. destruct (spacetag b); [apply D|exact Rpad_nil]. }
    unfold wb_R. cbn. repeat split; auto.
    - apply Forall_app. split; [exact A|]. constructor; [exact Hlq|constructor].
    - apply tl_new_R.
  Qed.

  Lemma flush_line_R b b' : wb_R b -> flush_line b = Ok b' -> wb_R b'.
  Proof.
    intros Hb H. unfold flush_line in H. destruct (tl_is_empty (wline b)); [ok_inv H; exact Hb|].
    eapply force_flush_line_R; eassumption.
  Qed.

  Lemma Forall_skipn {A} (P : A -> Prop) n : forall l, Forall P l -> Forall P (skipn n l).
  Proof.
    induction n as [|n IH]; intros l H; [exact H|]. destruct l as [|x l]; [constructor|].
    inversion H; subst. cbn [skipn]. apply IH. assumption.
  Qed.

  Lemma hw_piece_R t w : forall fuel b rest consumed lineleft wpos r,
    wb_R b -> str_R rest t -> hw_piece fuel b t w rest consumed lineleft wpos = Ok r -> wb_R (fst r).
  Proof.
    induction fuel as [|f IH]; intros b rest consumed lineleft wpos r Hb Ht H; cbn [hw_piece] in H;
      [discriminate|].
    bind_inv H rm Hrm. destruct (lineleft <? rm).
    - bind_inv H sc Hsc. destruct sc as [[taken ll'] wpos']. bind_inv H b2 Hb2.
      pose proof (Conserve.hw_scan_split _ _ _ _ _ _ _ _ Hsc) as Hsplit.
      assert (Htk : str_R taken t /\ str_R (skipn (length taken) rest) t).
      { unfold str_R in *. rewrite <- Hsplit in Ht. apply Forall_app in Ht. exact Ht. }
      destruct Htk as [Htk Hrs].
      eapply IH; [|exact Hrs|exact H].
      eapply force_flush_line_R; [|exact Hb2].
      apply wb_R_set_line; [exact Hb|]. first [apply tl_push_str_R|apply tl_push_R|unfold tl_R; cbn [tv]; apply v_push_merge_R]; [apply Hb|exact Htk].
    - destruct (negb consumed).
      + bind_inv H ll Hll. ok_inv H. cbn [fst].
        apply wb_R_set_line; [exact Hb|]. first [apply tl_push_str_R|apply tl_push_R|unfold tl_R; cbn [tv]; apply v_push_merge_R]; [apply Hb|exact Ht].
      + destruct rest as [|c rest]; [ok_inv H; exact Hb|].
        bind_inv H ll Hll. ok_inv H. cbn [fst].
        apply wb_R_set_line; [exact Hb|]. first [apply tl_push_str_R|apply tl_push_R|unfold tl_R; cbn [tv]; apply v_push_merge_R]; [apply Hb|exact Ht].
  Qed.

  Lemma hw_elems_R : forall els b lineleft b',
    wb_R b -> Forall elem_R els -> hw_elems b els lineleft = Ok b' -> wb_R b'.
  Proof.
    induction els as [|e els IH]; intros b lineleft b' Hb He H; cbn [hw_elems] in H;
      [ok_inv H; exact Hb|].
    inversion He as [|? ? He1 He2]; subst. destruct e as [s t|nm].
    - bind_inv H r Hr. destruct r as [b1 ll]. eapply IH; [|exact He2|exact H].
      apply (hw_piece_R _ _ _ _ _ _ _ _ _ Hb He1 Hr).
    - eapply IH; [|exact He2|exact H]. apply wb_R_set_line; [exact Hb|].
      apply tl_push_R; [apply Hb|exact I].
  Qed.

  Lemma flush_word_hard_wrap_R b b' : wb_R b -> flush_word_hard_wrap b = Ok b' -> wb_R b'.
  Proof.
    intros Hb H. unfold flush_word_hard_wrap in H. bind_inv H ll Hll.
    eapply hw_elems_R; [|apply Hb|exact H]. apply wb_R_set_word; [exact Hb|constructor].
  Qed.

  Lemma ws_loop_R : forall fuel b b', wb_R b -> ws_loop fuel b = Ok b' -> wb_R b'.
  Proof.
    induction fuel as [|f IH]; intros b b' Hb H; cbn [ws_loop] in H.
    - destruct (wslen b =? 0); [ok_inv H; exact Hb|discriminate].
    - destruct (wslen b =? 0); [ok_inv H; exact Hb|].
      destruct (wwidth b =? 0); [ok_inv H; apply wb_R_set_space; [exact Hb|apply Hb]|].
      destruct (spacetag b) as [st|] eqn:Es; [|discriminate].
      bind_inv H b2 Hb2. eapply IH; [|exact H].
      assert (Hst : Sp st) by (destruct Hb as (_ & _ & _ & D); rewrite Es in D; exact D).
      assert (Hb1 : wb_R (set_line b (tl_push_wsl L_space (wline b) (N.min (wslen b) (wwidth b)) st))).
      { apply wb_R_set_line; [exact Hb|]. apply tl_push_wsl_R; [apply Hb|apply Hst]. }
      assert (Hb2q : wb_R b2).
      { destruct (N.min (wslen b) (wwidth b) =? wwidth b).
        - eapply flush_line_R; [exact Hb1|exact Hb2].
        - ok_inv Hb2. exact Hb1. }
      apply wb_R_set_space; [exact Hb2q|apply Hb2q].
  Qed.

  Lemma flush_word_R b m b' : wb_R b -> flush_word b m = Ok b' -> wb_R b'.
  Proof.
    intros Hb H. unfold flush_word in H.
    destruct (word_is_empty (wword b)); [ok_inv H; apply wb_R_set_word; [exact Hb|apply Hb]|].
    bind_inv H sil Hsil.
    assert (Hst : forall st, spacetag b = Some st -> Sp st).
    { intros st Es. destruct Hb as (_ & _ & _ & D). rewrite Es in D. exact D. }
    destruct (wslen b + wordlen b <=? sil).
    - bind_inv H b1 Hb1. ok_inv H.
      assert (Hb1q : wb_R b1).
      { destruct (0 <? wslen b); [|ok_inv Hb1; exact Hb].
        destruct (spacetag b) as [st|] eqn:Es; [|discriminate]. ok_inv Hb1.
        apply wb_R_set_space; [|exact I]. apply wb_R_set_line; [exact Hb|].
        apply tl_push_str_R; [apply Hb|]. apply str_R_repeat. apply (Hst st eq_refl). }
      apply wb_R_set_word; [|constructor]. apply wb_R_set_line; [exact Hb1q|].
      apply fold_push_R; apply Hb1q.
    - bind_inv H b1 Hb1. bind_inv H b2 Hb2. bind_inv H b4 Hb4. bind_inv H b6 Hb6. ok_inv H.
      assert (Hb1q : wb_R b1).
      { destruct (negb (do_wrap m)).
        - destruct (sil <=? wslen b); [ok_inv Hb1; apply wb_R_set_space; [exact Hb|apply Hb]|].
          destruct (0 <? wslen b); [|ok_inv Hb1; exact Hb].
          destruct (spacetag b) as [st|] eqn:Es; [|discriminate]. ok_inv Hb1.
          apply wb_R_set_space; [|exact I]. apply wb_R_set_line; [exact Hb|].
          apply tl_push_wsl_R; [apply Hb|apply (Hst st eq_refl)].
        - ok_inv Hb1. apply wb_R_set_space; [exact Hb|exact I]. }
      pose proof (flush_line_R _ _ Hb1q Hb2) as Hb2q.
      assert (Hb3q : wb_R (if is_pre m then set_prew b2 true else b2)).
      { destruct (is_pre m); [apply wb_R_set_prew|]; exact Hb2q. }
      pose proof (ws_loop_R _ _ _ Hb3q Hb4) as Hb4q.
      assert (Hb5q : wb_R (set_space b4 None (wslen b4))) by (apply wb_R_set_space; [exact Hb4q|exact I]).
      pose proof (flush_word_hard_wrap_R _ _ Hb5q Hb6) as Hb6q.
      apply wb_R_set_word; [exact Hb6q|apply Hb6q].
  Qed.

  Lemma wb_into_lines_R b ls : wb_R b -> wb_into_lines b = Ok ls -> Forall tl_R ls.
  Proof.
    intros Hb H. unfold wb_into_lines, wb_flush in H. bind_inv H b1 H1. ok_inv H.
    bind_inv H1 b0 H0. pose proof (flush_word_R _ _ _ Hb H0) as Hq.
    apply (flush_line_R _ _ Hq H1).
  Qed.

  Lemma take_trailing_fragments_R b :
    wb_R b -> wb_R (fst (take_trailing_fragments b)) /\ Forall elem_R (snd (take_trailing_fragments b)).
  Proof.
    intros Hb. rewrite WrapInv.ttf_eq. cbn [fst snd].
    assert (Hw : Forall elem_R (wword b)) by apply Hb.
    rewrite (WrapInv.tfr_app (wword b)) in Hw. apply Forall_app in Hw. destruct Hw as [Hp Ht].
    split; [apply wb_R_set_word; [exact Hb|exact Hp]|exact Ht].
  Qed.

  (* tab fill: spaces labelled L_space with the tag of the tab character *)
  Lemma tab_loop_R : forall fuel b t tw pos one fl r,
    wb_R b -> R (spacel L_space) t -> R (spacel L_space) tw ->
    tab_loop fuel b t tw pos one fl = Ok r -> wb_R (fst r).
  Proof.
    induction fuel as [|f IH]; intros b t tw pos one fl r Hb Ht Htw H; cbn [tab_loop] in H.
    - destruct (negb (pos mod 8 =? 0) || negb one); [discriminate|ok_inv H; exact Hb].
    - destruct (negb (pos mod 8 =? 0) || negb one); [|ok_inv H; exact Hb].
      destruct (wwidth b =? 0); [ok_inv H; exact Hb|].
      destruct (wwidth b <=? pos).
      + bind_inv H b1 Hb1. eapply IH; [|exact Htw|exact Htw|exact H].
        eapply flush_line_R; eassumption.
      + eapply IH; [|exact Ht|exact Htw|exact H].
        apply wb_R_set_line; [exact Hb|]. apply tl_push_char_R; [apply Hb|exact Ht].
  Qed.

  Lemma add_char_R m mt wt b u c r :
    wb_R b -> chr_R mt wt c -> add_char m mt wt (b, u) c = Ok r -> wb_R (fst r).
  Proof.
    intros Hb0 (Hm & Hw & Hsp) H. unfold add_char in H. bind_inv H b1 Hb1.
    assert (Hb : wb_R b1).
    { destruct (ws c && (0 <? wordlen b)); [eapply flush_word_R; eassumption|ok_inv Hb1; exact Hb0]. }
    clear Hb0 Hb1.
    assert (Ht : R c (if u then wt else mt)) by (destruct u; assumption).
    destruct (ws c) eqn:Ews.
    - destruct (Hsp eq_refl) as [Sm Sw].
      assert (St : Sp (if u then wt else mt)) by (destruct u; assumption).
      destruct (preserve_ws m).
      + destruct (cp c =? 10).
        * bind_inv H b2 Hb2. ok_inv H. cbn [fst]. apply wb_R_set_prew.
          apply wb_R_set_space; [|exact I]. eapply force_flush_line_R; eassumption.
        * destruct (cp c =? 9).
          -- bind_inv H r0 Hr0. ok_inv H. cbn [fst].
             assert (Hr : wb_R (fst r0)).
             { eapply tab_loop_R; [exact Hb|apply St| |exact Hr0].
               destruct (is_pre m); [apply Sw|apply St]. }
             destruct (is_pre m && snd r0); [apply wb_R_set_prew|]; exact Hr.
          -- destruct (cw c) as [cwidth|]; [|ok_inv H; exact Hb].
             destruct (wwidth b1 <? tlen_ (wline b1) + wslen b1 + cwidth).
             ++ bind_inv H b2 Hb2.
                assert (Hb2q : wb_R b2).
                { eapply flush_line_R; [|exact Hb2]. apply wb_R_set_space; [exact Hb|apply Hb]. }
                destruct (do_wrap m); ok_inv H; cbn [fst].
                ** apply wb_R_set_prew. exact Hb2q.
                ** apply wb_R_set_prew. apply wb_R_set_space; [exact Hb2q|exact Sw].
             ++ ok_inv H. cbn [fst]. apply wb_R_set_space; [exact Hb|exact St].
      + destruct ((0 <? tlen_ (wline b1)) && (wslen b1 =? 0)); ok_inv H; cbn [fst];
          [apply wb_R_set_space; [exact Hb|exact St]|exact Hb].
    - destruct (cw c) as [cwidth|]; [|ok_inv H; exact Hb]. ok_inv H. cbn [fst].
      match goal with |- wb_R (set_word ?bb _ _) =>
        assert (Hbb : wb_R bb) by (destruct (is_pre m && _); [apply wb_R_set_prew|]; exact Hb)
      end.
      apply wb_R_set_word; [exact Hbb|]. apply v_push_merge_R; [apply Hbb|].
      constructor; [|constructor].
      match goal with |- R c (if ?x then _ else _) => destruct x end; assumption.
  Qed.

  Lemma add_chars_R m mt wt : forall s b u r,
    wb_R b -> txt_R mt wt s -> add_chars m mt wt (b, u) s = Ok r -> wb_R (fst r).
  Proof.
    induction s as [|c s IH]; intros b u r Hb Hs H; cbn [add_chars] in H; [ok_inv H; exact Hb|].
    inversion Hs as [|? ? Hc Hs']; subst.
    bind_inv H st' H1. destruct st' as [b1 u1].
    eapply IH; [|exact Hs'|exact H]. apply (add_char_R _ _ _ _ _ _ _ Hb Hc H1).
  Qed.

  (* add_text: every character of the text ends up with one of the two tags it is given *)
  Lemma wb_add_text_R b s m mt wt b' :
    wb_R b -> txt_R mt wt s -> wb_add_text b s m mt wt = Ok b' -> wb_R b'.
  Proof.
    intros Hb Hs H. unfold wb_add_text in H. bind_inv H r Hr. ok_inv H.
    apply (add_chars_R _ _ _ _ _ _ _ Hb Hs Hr).
  Qed.

  Lemma wb_add_element_R b e : wb_R b -> elem_R e -> wb_R (wb_add_element b e).
  Proof.
    intros Hb He. destruct e as [s t|nm]; cbn [wb_add_element].
    - destruct s; [exact Hb|]. apply wb_R_set_word; [exact Hb|]. apply v_push_merge_R; [apply Hb|exact He].
    - apply wb_R_set_word; [exact Hb|]. apply Forall_app. split; [apply Hb|]. constructor; [exact I|constructor].
  Qed.

  Lemma wb_new_R w p o : wb_R (wb_new w p o).
  Proof. unfold wb_R, wb_new. cbn. repeat split; constructor. Qed.

  (* ---------------------------------------------------------------- *)
  (* sub-renderer                                                       *)
  (* ---------------------------------------------------------------- *)
  (* a tag that table-border characters may carry.  A border line is stored as RLine b t and
     its segments are still joined/merged after it is made, so the invariant is about every
     segment character. *)
  Definition Bd (t : tag) : Prop := forall sg, R (seg_char sg) t.
  Definition rline_R (r : rline) : Prop := match r with RText l => tl_R l | RLine _ t => Bd t end.
  Definition owb_R (o : option wblock) : Prop := match o with Some b => wb_R b | None => True end.
  Definition sub_R (s : subr) : Prop :=
    Forall rline_R (slines s) /\ Forall elem_R (pending_frags s) /\ owb_R (wrapping s).
  Definition set_R (p : N * list rline) : Prop := Forall rline_R (snd p).

  Lemma Bd_border t b : Bd t -> str_R (border_string b) t.
  Proof.
    intros H. unfold border_string, str_R. apply Forall_forall. intros c Hc.
    apply in_map_iff in Hc. destruct Hc as (sg & <- & _). apply H.
  Qed.

  Lemma sub_R_body s s' :
    slines s' = slines s -> pending_frags s' = pending_frags s -> wrapping s' = wrapping s ->
    sub_R s -> sub_R s'.
  Proof. unfold sub_R. intros -> -> ->. auto. Qed.

  Lemma add_line_R s l : sub_R s -> rline_R l -> sub_R (add_line s l).
  Proof.
    intros (A & B & C) Hl. unfold add_line.
    destruct (pending_frags s) as [|e pf] eqn:E; destruct l as [tl|b t]; unfold sub_R;
      cbn [slines pending_frags wrapping set_lines]; rewrite ?E.
    - split; [|auto]. apply Forall_app. split; [exact A|]. constructor; [exact Hl|constructor].
    - split; [|auto]. apply Forall_app. split; [exact A|]. constructor; [exact Hl|constructor].
    - split; [|split; [constructor|exact C]]. apply Forall_app. split; [exact A|].
      constructor; [|constructor]. cbn [rline_R] in *.
      apply fold_push_R; [|exact Hl]. apply fold_push_R; [apply tl_new_R|exact B].
    - split; [|auto]. apply Forall_app. split; [exact A|]. constructor; [exact Hl|constructor].
  Qed.

  Lemma extend_lines_R : forall ls s, sub_R s -> Forall rline_R ls -> sub_R (extend_lines s ls).
  Proof.
    unfold extend_lines. induction ls as [|l ls IH]; intros s Hs Hls; cbn [fold_left]; [exact Hs|].
    inversion Hls; subst. apply IH; [apply add_line_R|]; assumption.
  Qed.

  Lemma flush_wrapping_R s s' : sub_R s -> flush_wrapping s = Ok s' -> sub_R s'.
  Proof.
    intros (A & B & C) H. unfold flush_wrapping in H.
    destruct (wrapping s) as [w|] eqn:Ew; [|ok_inv H; unfold sub_R; rewrite Ew; auto].
    cbn [owb_R] in C. pose proof (take_trailing_fragments_R w C) as [Hw1 Hfr].
    destruct (take_trailing_fragments w) as [w1 frags]. cbn [fst snd] in *.
    bind_inv H lm Hlm. ok_inv H.
    pose proof (WrapInv.wb_into_lines_markers_fst _ _ Hlm) as Hls.
    assert (Hmk : Forall elem_R (snd lm)).
    { apply Forall_forall. intros e He.
      destruct (WrapInv.wb_into_lines_markers_frags _ _ Hlm e He) as [n ->]. exact I. }
    destruct lm as [ls mk]. cbn [fst snd] in *.
    pose proof (wb_into_lines_R _ _ Hw1 Hls) as Hlq.
    assert (S0 : sub_R (set_wrapping s None)) by (unfold sub_R; cbn; auto).
    assert (Hls' : Forall rline_R (map RText ls)).
    { apply Forall_forall. intros r Hr. apply in_map_iff in Hr. destruct Hr as (l & <- & Hl).
      rewrite Forall_forall in Hlq. apply Hlq, Hl. }
    destruct (extend_lines_R _ _ S0 Hls') as (A1 & B1 & C1).
    unfold sub_R. cbn [slines pending_frags wrapping set_lines].
    split; [exact A1|]. split; [|exact C1].
    apply Forall_app; split; [assumption|]. apply Forall_app; split; assumption.
  Qed.

  Lemma sub_into_lines_R s ls : sub_R s -> sub_into_lines s = Ok ls -> Forall rline_R ls.
  Proof.
    intros Hs H. unfold sub_into_lines in H. bind_inv H s1 H1. ok_inv H.
    apply (flush_wrapping_R _ _ Hs H1).
  Qed.

  Lemma set_abe_R s b : sub_R s -> sub_R (set_abe s b).
  Proof. apply sub_R_body; reflexivity. Qed.

  Lemma add_empty_line_R s s' : sub_R s -> add_empty_line s = Ok s' -> sub_R s'.
  Proof.
    intros Hs H. unfold add_empty_line in H. bind_inv H s1 H1. ok_inv H.
    apply set_abe_R, add_line_R; [eapply flush_wrapping_R; eassumption|apply tl_new_R].
  Qed.

  Lemma start_block_R s s' : sub_R s -> start_block s = Ok s' -> sub_R s'.
  Proof.
    intros Hs H. unfold start_block in H. bind_inv H s1 H1. bind_inv H s2 H2. ok_inv H.
    apply set_abe_R. pose proof (flush_wrapping_R _ _ Hs H1) as Hs1.
    destruct (existsb rline_has_content (slines s1)).
    - eapply add_empty_line_R; eassumption.
    - ok_inv H2. exact Hs1.
  Qed.

  Lemma new_line_hard_R s s' : sub_R s -> new_line_hard s = Ok s' -> sub_R s'.
  Proof.
    intros Hs H. unfold new_line_hard in H. destruct (wrapping s) as [w|].
    - destruct ((wordlen w =? 0) && (tlen_ (wline w) =? 0)).
      + eapply add_empty_line_R; eassumption.
      + eapply flush_wrapping_R; eassumption.
    - eapply add_empty_line_R; eassumption.
  Qed.

  Lemma add_horizontal_line_R s b t s' :
    sub_R s -> Bd t -> add_horizontal_line s b t = Ok s' -> sub_R s'.
  Proof.
    intros Hs Ht H. unfold add_horizontal_line in H. bind_inv H s1 H1. ok_inv H.
    apply add_line_R; [eapply flush_wrapping_R; eassumption|exact Ht].
  Qed.

  Lemma fw_ann s s' : flush_wrapping s = Ok s' -> ann_stack s' = ann_stack s.
  Proof. intros H. apply meta_flush_wrapping in H. apply (f_equal m_ann) in H. exact H. Qed.

  (* BORDERS: a horizontal border carries the current annotation stack *)
  Lemma add_horizontal_border_width_R s w s' :
    sub_R s -> Bd (ann_stack s) -> add_horizontal_border_width s w = Ok s' -> sub_R s'.
  Proof.
    intros Hs Ht H. unfold add_horizontal_border_width in H. bind_inv H s1 H1. ok_inv H.
    apply add_line_R; [eapply flush_wrapping_R; eassumption|].
    cbn [rline_R]. rewrite (fw_ann _ _ H1). exact Ht.
  Qed.

  Lemma get_wrapping_R s : sub_R s -> wb_R (get_wrapping s).
  Proof.
    intros (_ & _ & C). unfold get_wrapping. destruct (wrapping s); [exact C|apply wb_new_R].
  Qed.

  (* INLINE TEXT: every character of the (strikeout-filtered) text gets the current annotation
     stack, plus Preformat(first/continuation) inside <pre> *)
  Lemma add_inline_text_R d s t s' :
    sub_R s ->
    txt_R (main_tag_of d s) (cont_tag_of d s) (apply_filters (filter_depth s) t) ->
    add_inline_text d s t = Ok s' -> sub_R s'.
  Proof.
    intros Hs Ht H. unfold add_inline_text in H.
    destruct (negb (preserve_ws (ws_mode s)) && at_block_end s && all_ws t); [ok_inv H; exact Hs|].
    bind_inv H s1 H1. bind_inv H w1 Hw1. ok_inv H.
    assert (E : meta_of s1 = meta_of s /\ sub_R s1).
    { destruct (at_block_end s).
      - split; [eapply meta_start_block, H1|eapply start_block_R; eassumption].
      - ok_inv H1. auto. }
    destruct E as [E Hs1]. unfold main_tag_of, cont_tag_of in *.
    pose proof (f_equal m_ann E) as Ea. pose proof (f_equal m_pre E) as Ep.
    pose proof (f_equal m_filt E) as Ef. cbn [m_ann m_pre m_filt meta_of] in Ea, Ep, Ef.
    rewrite Ea, Ep, Ef in Hw1.
    pose proof (wb_add_text_R _ _ _ _ _ _ (get_wrapping_R _ Hs1) Ht Hw1) as Hq.
    destruct Hs1 as (A & B & _). unfold sub_R. cbn [slines pending_frags wrapping set_wrapping]. auto.
  Qed.

  Lemma record_frag_start_R s name : sub_R s -> sub_R (record_frag_start s name).
  Proof.
    intros Hs. pose proof (get_wrapping_R _ Hs) as Hw. destruct Hs as (A & B & _).
    unfold record_frag_start, sub_R. cbn [slines pending_frags wrapping set_wrapping].
    split; [exact A|]. split; [exact B|]. apply wb_add_element_R; [exact Hw|exact I].
  Qed.

  (* PREFIXES: the characters of the prefix, and a border line of the nested block that gets
     a prefix, carry the tag t = annotation stack of the renderer they are appended to *)
  Lemma attach_prefix_R t p l : str_R p t -> Bd t -> rline_R l -> rline_R (attach_prefix t p l).
  Proof.
    intros Hp Ht Hl. destruct l as [tl|b bt]; cbn [attach_prefix].
    - destruct p; [exact Hl|]. cbn [rline_R]. apply tl_insert_front_R; assumption.
    - cbn [rline_R]. apply tl_push_R; [apply tl_push_R; [apply tl_new_R|exact Hp]|].
      cbn [elem_R]. apply Bd_border, Ht.
  Qed.

  Lemma attach_prefixes_R t first rest ls :
    str_R first t -> str_R rest t -> Bd t ->
    Forall rline_R ls -> Forall rline_R (attach_prefixes t first rest ls).
  Proof.
    intros Hf Hr Ht Hls. destruct ls as [|l ls]; cbn [attach_prefixes]; [constructor|].
    inversion Hls as [|? ? H1 H2]; subst. constructor; [apply attach_prefix_R; assumption|].
    apply Forall_forall. intros r Hr'. apply in_map_iff in Hr'. destruct Hr' as (l' & <- & Hl').
    rewrite Forall_forall in H2. apply attach_prefix_R; [exact Hr|exact Ht|apply H2, Hl'].
  Qed.

  Lemma append_subrender_R s other first rest s' :
    sub_R s -> sub_R other ->
    str_R first (ann_stack s) -> str_R rest (ann_stack s) -> Bd (ann_stack s) ->
    append_subrender s other first rest = Ok s' -> sub_R s'.
  Proof.
    intros Hs Ho Hf Hr Ht H. unfold append_subrender in H. bind_inv H s1 H1. bind_inv H ols H2. ok_inv H.
    apply extend_lines_R; [apply (flush_wrapping_R _ _ Hs H1)|].
    rewrite (fw_ann _ _ H1).
    apply attach_prefixes_R; [exact Hf|exact Hr|exact Ht|apply (sub_into_lines_R _ _ Ho H2)].
  Qed.

  (* TABLE ROWS: cell padding, column separators, the bars that continue a collapsed border
     and the border below the row carry the tag t = annotation stack of the renderer the row is
     appended to; so does a border line of a nested table that ends up inside the row *)
  Definition RowT (t : tag) : Prop :=
    Bd t /\ R vbar t /\ R (spacel L_border) t /\ R (spacel L_pad) t.
  Definition pad_ok (t : tag) (o : option text) : Prop :=
    match o with Some p => str_R p t | None => True end.

  Lemma pad_cell_lines_R w t : R (spacel L_pad) t -> forall ls pls,
    Forall rline_R ls -> pad_cell_lines w t ls = Ok pls -> Forall rline_R pls.
  Proof.
    intros Ht. induction ls as [|l ls IH]; intros pls Hls H; cbn [pad_cell_lines] in H;
      [ok_inv H; constructor|].
    inversion Hls as [|? ? H1 H2]; subst. destruct l as [tl|b bt].
    - bind_inv H tl' Htl. bind_inv H r Hr. ok_inv H. constructor; [|eapply IH; eassumption].
      cbn [rline_R] in *. eapply tl_pad_to_R; eassumption.
    - bind_inv H r Hr. ok_inv H. constructor; [exact H1|eapply IH; eassumption].
  Qed.

  Lemma col_line_sets_R t : R (spacel L_pad) t -> forall cols sets,
    Forall sub_R cols -> col_line_sets t cols = Ok sets -> Forall set_R sets.
  Proof.
    intros Ht. induction cols as [|c cols IH]; intros sets Hc H; cbn [col_line_sets] in H;
      [ok_inv H; constructor|].
    inversion Hc as [|? ? H1 H2]; subst. bind_inv H ls Hls. bind_inv H pls Hpls. bind_inv H r Hr.
    ok_inv H. constructor; [|eapply IH; eassumption]. unfold set_R. cbn [snd].
    eapply pad_cell_lines_R; [exact Ht| |exact Hpls]. eapply sub_into_lines_R; eassumption.
  Qed.

  Lemma collapse_top_R : forall sets prev pos r,
    Forall set_R sets -> collapse_top sets prev pos = Ok r -> Forall set_R (snd r).
  Proof.
    induction sets as [|[w sub] sets IH]; intros prev pos r Hs H; cbn [collapse_top] in H;
      [ok_inv H; constructor|].
    inversion Hs as [|? ? H1 H2]; subst. unfold set_R in H1. cbn [snd] in H1.
    destruct sub as [|[tl|line lt] sub'].
    - bind_inv H r0 Hr0. ok_inv H. cbn [snd]. constructor; [exact H1|eapply IH; eassumption].
    - bind_inv H r0 Hr0. ok_inv H. cbn [snd]. constructor; [exact H1|eapply IH; eassumption].
    - destruct prev as [pb|]; [|discriminate]. bind_inv H r0 Hr0. ok_inv H. cbn [snd].
      constructor; [|eapply IH; eassumption]. unfold set_R. cbn [snd]. inversion H1; assumption.
  Qed.

  Lemma vlines_R t line : R vbar t -> R (spacel L_pad) t -> str_R (to_vertical_lines_above line) t.
  Proof.
    intros Hv Hp. unfold to_vertical_lines_above, str_R. apply Forall_forall. intros c Hc.
    apply in_map_iff in Hc. destruct Hc as (sg & <- & _). destruct sg; assumption.
  Qed.

  Lemma collapse_bottom_R t : R vbar t -> R (spacel L_pad) t -> forall sets next pos,
    Forall set_R sets ->
    Forall set_R (snd (fst (collapse_bottom sets next pos))) /\
    Forall (pad_ok t) (snd (collapse_bottom sets next pos)).
  Proof.
    intros Hv Hp.
    induction sets as [|[w sub] sets IH]; intros next pos Hs; cbn [collapse_bottom];
      [split; constructor|].
    inversion Hs as [|? ? H1 H2]; subst. unfold set_R in H1. cbn [snd] in H1.
    destruct (olast sub) as [[tl|line lt]|].
    - specialize (IH next (pos + w + 1) H2).
      destruct (collapse_bottom sets next (pos + w + 1)) as [[n' s'] p']. cbn [fst snd] in *.
      destruct IH as [IH1 IH2]. split; constructor; auto. exact I.
    - specialize (IH (merge_from_above next line pos) (pos + w + 1) H2).
      destruct (collapse_bottom sets (merge_from_above next line pos) (pos + w + 1)) as [[n' s'] p'].
      cbn [fst snd] in *. destruct IH as [IH1 IH2]. split; constructor; auto.
      + unfold set_R. cbn [snd]. apply Forall_removelast, H1.
      + cbn [pad_ok]. apply vlines_R; assumption.
    - specialize (IH next (pos + w + 1) H2).
      destruct (collapse_bottom sets next (pos + w + 1)) as [[n' s'] p']. cbn [fst snd] in *.
      destruct IH as [IH1 IH2]. split; constructor; auto. exact I.
  Qed.

  Lemma Forall_tl {A} (P : A -> Prop) l : Forall P l -> Forall P (tl l).
  Proof. intros H. destruct l; [exact H|]. inversion H; assumption. Qed.

  Lemma row_line_R t draw i : RowT t -> forall sets pads acc,
    Forall set_R sets -> Forall (pad_ok t) pads -> tl_R acc -> tl_R (row_line t draw i sets pads acc).
  Proof.
    intros (Hb & Hv & Hsb & Hp). induction sets as [|[w ls] sets IH]; intros pads acc Hs Hpd Ha;
      cbn [row_line]; [exact Ha|].
    inversion Hs as [|? ? H1 H2]; subst. unfold set_R in H1. cbn [snd] in H1.
    apply IH; [exact H2|apply Forall_tl, Hpd|].
    assert (Hacc1 : tl_R (match nth_opt ls i with
                          | Some (RText tl) => tl_consume acc tl
                          | Some (RLine b _) => tl_push acc (Str (border_string b) t)
                          | None => tl_push acc (Str (match match pads with p :: _ => p | [] => None end with
                                                           | Some p => p
                                                           | None => spacesl L_pad w
                                                           end) t)
                          end)).
    { destruct (nth_opt ls i) as [[tl|b bt]|] eqn:En.
      - apply tl_consume_R; [exact Ha|]. apply nth_opt_In in En. rewrite Forall_forall in H1.
        apply (H1 _ En).
      - apply tl_push_R; [exact Ha|]. cbn [elem_R]. apply Bd_border, Hb.
      - apply tl_push_R; [exact Ha|]. cbn [elem_R].
        destruct pads as [|[p|] pads']; [apply str_R_repeat, Hp| |apply str_R_repeat, Hp].
        inversion Hpd as [|? ? Hp1 _]; subst. exact Hp1. }
    destruct sets; [exact Hacc1|]. apply tl_push_char_R; [exact Hacc1|].
    destruct draw; assumption.
  Qed.

  Lemma row_lines_R t draw sets pads : RowT t -> Forall set_R sets -> Forall (pad_ok t) pads ->
    forall n i s, sub_R s -> sub_R (row_lines t draw n i sets pads s).
  Proof.
    intros Ht Hs Hpd. induction n as [|n IH]; intros i s Hq; cbn [row_lines]; [exact Hq|].
    apply IH. apply add_line_R; [exact Hq|]. cbn [rline_R].
    apply row_line_R; [exact Ht|exact Hs|exact Hpd|apply tl_new_R].
  Qed.

  Lemma append_columns_R s cols collapse s' :
    sub_R s -> Forall sub_R cols -> RowT (ann_stack s) ->
    append_columns_with_borders s cols collapse = Ok s' -> sub_R s'.
  Proof.
    intros Hs Hc Ht H. unfold append_columns_with_borders in H. bind_inv H s1 H1.
    pose proof (flush_wrapping_R _ _ Hs H1) as Hs1.
    rewrite (fw_ann _ _ H1) in H. pose proof Ht as (Hb & Hv & Hsb & Hp).
    bind_inv H sets H2. pose proof (col_line_sets_R _ Hp _ _ Hc H2) as Hsets.
    bind_inv H chk H3.
    destruct (match olast (slines s1) with
              | Some (RLine pb pt) =>
                let '(p, n) := join_cols (map fst sets) pb
                                 (border_new (sumN (map fst sets) + (N.of_nat (length sets) - 1))) 0 in
                (Some p, n)
              | _ => (None, border_new (sumN (map fst sets) + (N.of_nat (length sets) - 1)))
              end) as [prev1 next1].
    bind_inv H r H4. destruct r as [[[prev3 next3] sets4] pads]. ok_inv H.
    assert (Hsets4 : Forall set_R sets4 /\ Forall (pad_ok (ann_stack s)) pads).
    { destruct collapse.
      - bind_inv H4 ct Hct. destruct ct as [prev2 sets2].
        pose proof (collapse_top_R _ _ _ _ Hsets Hct) as Hs2. cbn [snd] in Hs2.
        pose proof (collapse_bottom_R _ Hv Hp sets2 next1 0 Hs2) as Hs3.
        destruct (collapse_bottom sets2 next1 0) as [[next2 sets3] pads3]. cbn [fst snd] in Hs3.
        ok_inv H4. exact Hs3.
      - ok_inv H4. split; [exact Hsets|]. apply Forall_forall. intros o Ho.
        apply in_map_iff in Ho. destruct Ho as (x & <- & _). exact I. }
    destruct Hsets4 as [Hsets4 Hpads].
    assert (Hs2 : sub_R (set_lines s1
               match olast (slines s1) with
               | Some (RLine _ pt) =>
                   match prev3 with
                   | Some pb => replace_last (slines s1) (RLine pb pt)
                   | None => slines s1
                   end
               | _ => slines s1
               end (pending_frags s1))).
    { destruct Hs1 as (A & B & C). unfold sub_R. cbn [slines pending_frags wrapping set_lines].
      split; [|auto].
      destruct (olast (slines s1)) as [[tl|pb0 pt]|] eqn:El; try exact A.
      destruct prev3 as [pb|]; [|exact A]. unfold replace_last. apply Forall_app.
      split; [apply Forall_removelast, A|]. constructor; [|constructor].
      apply olast_In in El. rewrite Forall_forall in A. apply (A _ El). }
    match goal with |- sub_R (if ?c then _ else _) => destruct c end.
    - apply add_line_R; [|exact Hb]. apply row_lines_R; assumption.
    - apply row_lines_R; assumption.
  Qed.

  Lemma asr_ann s other first rest s' :
    append_subrender s other first rest = Ok s' -> ann_stack s' = ann_stack s.
  Proof. intros H. apply meta_append_subrender in H. apply (f_equal m_ann) in H. exact H. Qed.

  Lemma vert_cols_R : forall cols s first s',
    sub_R s -> Forall sub_R cols -> Bd (ann_stack s) -> vert_cols s cols first = Ok s' -> sub_R s'.
  Proof.
    induction cols as [|c cols IH]; intros s first s' Hs Hc Ht H; cbn [vert_cols] in H;
      [ok_inv H; exact Hs|].
    inversion Hc as [|? ? Hc1 Hc2]; subst. bind_inv H s1 H1. bind_inv H s2 H2.
    assert (E1 : ann_stack s1 = ann_stack s /\ sub_R s1).
    { destruct (negb first && o_borders (sopts s)).
      - split; [apply meta_add_horizontal_line in H1; apply (f_equal m_ann) in H1; exact H1
               |apply (add_horizontal_line_R _ _ _ _ Hs Ht H1)].
      - ok_inv H1. auto. }
    destruct E1 as [E1 Hs1].
    assert (Ht1 : Bd (ann_stack s1)) by (rewrite E1; exact Ht).
    pose proof (append_subrender_R _ _ _ _ _ Hs1 Hc1 (str_R_nil _) (str_R_nil _) Ht1 H2) as Hs2.
    eapply IH; [exact Hs2|exact Hc2| |exact H].
    rewrite (asr_ann _ _ _ _ _ H2). exact Ht1.
  Qed.

  Lemma append_vert_row_R s cols s' :
    sub_R s -> Forall sub_R cols -> Bd (ann_stack s) -> append_vert_row s cols = Ok s' -> sub_R s'.
  Proof.
    intros Hs Hc Ht H. unfold append_vert_row in H. bind_inv H s1 H1. bind_inv H s2 H2.
    pose proof (flush_wrapping_R _ _ Hs H1) as Hs1.
    assert (Ht1 : Bd (ann_stack s1)) by (rewrite (fw_ann _ _ H1); exact Ht).
    pose proof (vert_cols_R _ _ _ _ Hs1 Hc Ht1 H2) as Hs2.
    destruct (o_borders (sopts s2)); [|ok_inv H; exact Hs2].
    eapply add_horizontal_border_width_R; [exact Hs2| |exact H].
    pose proof (meta_vert_cols _ _ _ _ H2) as E. apply (f_equal m_ann) in E. cbn [m_ann meta_of] in E.
    rewrite E. exact Ht1.
  Qed.

  Lemma new_sub_renderer_R s w : sub_R (new_sub_renderer s w).
  Proof. unfold sub_R, new_sub_renderer. cbn. repeat split; constructor. Qed.
End CharInv.

(* ================================================================== *)
(* 2. tag_eqb is an equivalence; monotonicity of the invariant          *)
(* ================================================================== *)

Lemma lN_eqb_iff : forall a b, lN_eqb a b = true <-> a = b.
Proof.
  induction a as [|x a IH]; intros [|y b]; cbn [lN_eqb]; try (split; [discriminate|discriminate]).
  - split; reflexivity.
  - rewrite andb_true_iff, IH, N.eqb_eq. split; [intros [-> ->]; reflexivity|].
    intros E. injection E as -> ->. auto.
Qed.
Lemma text_eqb_refl a : text_eqb a a = true.
Proof. apply lN_eqb_iff. reflexivity. Qed.
Lemma text_eqb_sym a b : text_eqb a b = true -> text_eqb b a = true.
Proof. unfold text_eqb. rewrite !lN_eqb_iff. auto. Qed.
Lemma text_eqb_trans a b c : text_eqb a b = true -> text_eqb b c = true -> text_eqb a c = true.
Proof. unfold text_eqb. rewrite !lN_eqb_iff. congruence. Qed.

Lemma ann_eqb_refl' a : ann_eqb a a = true.
Proof.
  destruct a; cbn [ann_eqb]; try reflexivity; try apply text_eqb_refl.
  - destruct cont; reflexivity.
  - rewrite !N.eqb_refl. reflexivity.
  - rewrite !N.eqb_refl. reflexivity.
Qed.
Lemma ann_eqb_sym a b : ann_eqb a b = true -> ann_eqb b a = true.
Proof.
  destruct a, b; cbn [ann_eqb]; try discriminate; try reflexivity; try apply text_eqb_sym.
  - destruct cont, cont0; cbn; congruence.
  - rewrite !andb_true_iff, !N.eqb_eq. intros [[-> ->] ->]. auto.
  - rewrite !andb_true_iff, !N.eqb_eq. intros [[-> ->] ->]. auto.
Qed.
Lemma ann_eqb_trans a b c : ann_eqb a b = true -> ann_eqb b c = true -> ann_eqb a c = true.
Proof.
  destruct a, b; cbn [ann_eqb]; try discriminate; destruct c; cbn [ann_eqb]; try discriminate;
    try reflexivity; try apply text_eqb_trans.
  - destruct cont, cont0, cont1; cbn; congruence.
  - rewrite !andb_true_iff, !N.eqb_eq. intros [[-> ->] ->] [[-> ->] ->]. auto.
  - rewrite !andb_true_iff, !N.eqb_eq. intros [[-> ->] ->] [[-> ->] ->]. auto.
Qed.

Lemma tag_eqb_refl' t : tag_eqb t t = true.
Proof. induction t as [|a t IH]; cbn [tag_eqb]; [reflexivity|]. rewrite ann_eqb_refl', IH. reflexivity. Qed.
Lemma tag_eqb_sym : forall a b, tag_eqb a b = true -> tag_eqb b a = true.
Proof.
  induction a as [|x a IH]; intros [|y b]; cbn [tag_eqb]; try discriminate; [reflexivity|].
  rewrite !andb_true_iff. intros [H1 H2]. split; [apply ann_eqb_sym, H1|apply IH, H2].
Qed.
Lemma tag_eqb_trans : forall a b c, tag_eqb a b = true -> tag_eqb b c = true -> tag_eqb a c = true.
Proof.
  induction a as [|x a IH]; intros [|y b] [|z c]; cbn [tag_eqb]; try discriminate; [reflexivity|].
  rewrite !andb_true_iff. intros [H1 H2] [H3 H4].
  split; [eapply ann_eqb_trans; eassumption|eapply IH; eassumption].
Qed.
Lemma tag_eqb_app : forall a b a' b',
  tag_eqb a a' = true -> tag_eqb b b' = true -> tag_eqb (a ++ b) (a' ++ b') = true.
Proof.
  induction a as [|x a IH]; intros b [|y a'] b'; cbn [tag_eqb app]; try discriminate; [auto|].
  rewrite !andb_true_iff. intros [H1 H2] H3. split; [exact H1|apply IH; assumption].
Qed.
(* a tag without link / image annotations is tag_eqb only to itself *)
Definition ann_simple (a : ann) : bool :=
  match a with ALink _ | AImage _ => false | _ => true end.
Lemma ann_eqb_simple a b : ann_simple b = true -> ann_eqb a b = true -> a = b.
Proof.
  destruct a, b; cbn [ann_eqb ann_simple]; try discriminate; try reflexivity; intros _.
  - destruct cont, cont0; cbn; congruence.
  - rewrite !andb_true_iff, !N.eqb_eq. intros [[-> ->] ->]. reflexivity.
  - rewrite !andb_true_iff, !N.eqb_eq. intros [[-> ->] ->]. reflexivity.
Qed.
Lemma tag_eqb_simple : forall a b, forallb ann_simple b = true -> tag_eqb a b = true -> a = b.
Proof.
  induction a as [|x a IH]; intros [|y b]; cbn [tag_eqb forallb]; try discriminate; [reflexivity|].
  rewrite !andb_true_iff. intros [S1 S2] [H1 H2]. f_equal; [apply ann_eqb_simple|apply IH]; assumption.
Qed.

(* closure of a relation under tag_eqb in the tag *)
Definition teq (P : chr -> tag -> Prop) (c : chr) (t : tag) : Prop :=
  exists t0, tag_eqb t t0 = true /\ P c t0.
Lemma teq_intro (P : chr -> tag -> Prop) c t : P c t -> teq P c t.
Proof. intros H. exists t. split; [apply tag_eqb_refl'|exact H]. Qed.
Lemma teq_closed P c t t' : tag_eqb t' t = true -> teq P c t -> teq P c t'.
Proof. intros E (t0 & E0 & H). exists t0. split; [eapply tag_eqb_trans; eassumption|exact H]. Qed.

(* monotonicity *)
Section Impl.
  Variables R R' : chr -> tag -> Prop.
  Hypothesis RR : forall c t, R c t -> R' c t.
  Lemma elem_R_impl e : elem_R R e -> elem_R R' e.
  Proof. destruct e; cbn [elem_R]; [|auto]. unfold str_R. apply Forall_impl. intros c. apply RR. Qed.
  Lemma tl_R_impl l : tl_R R l -> tl_R R' l.
  Proof. unfold tl_R. apply Forall_impl. apply elem_R_impl. Qed.
  Lemma sub_R_impl s : sub_R R s -> sub_R R' s.
  Proof.
    intros (A & B & C). unfold sub_R. split; [|split].
    - revert A. apply Forall_impl. intros [l|b t]; cbn [rline_R]; [apply tl_R_impl|].
      unfold Bd. intros H sg. apply RR, H.
    - revert B. apply Forall_impl. apply elem_R_impl.
    - destruct (wrapping s) as [w|]; [|exact I]. cbn [owb_R] in *.
      destruct C as (C1 & C2 & C3 & C4). unfold wb_R. repeat split.
      + revert C1. apply Forall_impl. apply tl_R_impl.
      + apply tl_R_impl, C2.
      + revert C3. apply Forall_impl. apply elem_R_impl.
      + destruct (spacetag w); cbn [otag_R] in *; [|exact I]. destruct C4. split; apply RR; assumption.
  Qed.
End Impl.

(* the (character, tag) pairs of a tagged line: what lines_from_read shows *)
Definition tl_pairs (l : tline) : list (chr * tag) :=
  flat_map (fun e => match e with Str s t => map (fun c => (c, t)) s | Frag _ => [] end) (tv l).

Lemma tl_R_pairs R l : tl_R R l <-> (forall c t, In (c, t) (tl_pairs l) -> R c t).
Proof.
  unfold tl_R, tl_pairs. rewrite Forall_forall. split.
  - intros H c t Hin. apply in_flat_map in Hin. destruct Hin as (e & He & Hin).
    destruct e as [s t0|nm]; [|destruct Hin]. apply in_map_iff in Hin.
    destruct Hin as (c0 & E & Hc). injection E as -> ->. specialize (H _ He). cbn [elem_R] in H.
    unfold str_R in H. rewrite Forall_forall in H. apply H, Hc.
  - intros H e He. destruct e as [s t0|nm]; [|exact I]. cbn [elem_R]. unfold str_R.
    apply Forall_forall. intros c Hc. apply H. apply in_flat_map. exists (Str s t0).
    split; [exact He|]. apply in_map_iff. exists c. auto.
Qed.

Lemma rline_R_pairs R r : rline_R R r -> forall c t, In (c, t) (tl_pairs (rline_into_tagged r)) -> R c t.
Proof.
  destruct r as [l|b t0]; cbn [rline_R rline_into_tagged].
  - apply tl_R_pairs.
  - intros H c t Hin. unfold tl_push, tl_push_str in Hin. destruct (border_string b) as [|x xs] eqn:E; [destruct Hin|].
    unfold tl_pairs in Hin. cbn [tv tl_new v_push_merge flat_map] in Hin. rewrite app_nil_r in Hin.
    apply in_map_iff in Hin. destruct Hin as (c0 & E0 & Hc). injection E0 as -> ->.
    rewrite <- E in Hc. unfold border_string in Hc. apply in_map_iff in Hc.
    destruct Hc as (sg & <- & _). apply H.
Qed.

(* ================================================================== *)
(* 3. Steps of the renderer, indexed by the meta part of the top        *)
(*    sub-renderer (as Inherit section 2, for characters)               *)
(* ================================================================== *)

(* steps that change only the meta part: the rendered content is literally the same *)
Definition same_body (s s' : subr) : Prop :=
  slines s' = slines s /\ pending_frags s' = pending_frags s /\ wrapping s' = wrapping s.
Definition stBd (g : meta -> meta) (st st' : rstate) : Prop :=
  forall s rest, stack st = s :: rest ->
    exists s', stack st' = s' :: rest /\ meta_of s' = g (meta_of s) /\ same_body s s'.

Lemma stBd_refl st : stBd idm st st.
Proof. intros s rest E. exists s. unfold same_body. auto. Qed.
Lemma stBd_comp g1 g2 a b c : stBd g1 a b -> stBd g2 b c -> stBd (fun m => g2 (g1 m)) a c.
Proof.
  intros H1 H2 s rest Es. destruct (H1 s rest Es) as (s1 & E1 & M1 & (X1 & Y1 & Z1)).
  destruct (H2 s1 rest E1) as (s2 & E2 & M2 & (X2 & Y2 & Z2)). exists s2. split; [exact E2|].
  split; [rewrite M2, M1; reflexivity|]. unfold same_body. repeat split; congruence.
Qed.
Lemma with_top_Bd g f st st' :
  (forall s s', f s = Ok s' -> meta_of s' = g (meta_of s) /\ same_body s s') ->
  with_top st f = Ok st' -> stBd g st st'.
Proof.
  intros Hop H s rest Es. destruct (with_top_inv _ _ _ H) as (s0 & rest0 & s' & Es0 & Ef & ->).
  rewrite Es in Es0. injection Es0 as <- <-. destruct (Hop _ _ Ef) as [M Qp].
  exists s'. cbn [stack]. auto.
Qed.
Lemma with_top'_Bd g (f : subr -> subr) st st' :
  (forall s, meta_of (f s) = g (meta_of s)) ->
  (forall s, slines (f s) = slines s /\ pending_frags (f s) = pending_frags s /\
             wrapping (f s) = wrapping s) ->
  with_top' st f = Ok st' -> stBd g st st'.
Proof.
  intros Hm Hb. unfold with_top'. apply with_top_Bd. intros s s' H. ok_inv H.
  split; [apply Hm|]. apply Hb.
Qed.

Lemma apply_style_Bd d st cs st1 p :
  apply_style d st cs = Ok (st1, p) -> p = pushed_of cs /\ stBd (g_style d cs) st st1.
Proof.
  intros H. unfold apply_style in H.
  bind_inv H sa H1. bind_inv H sb H2. bind_inv H sc H3. bind_inv H se H4.
  injection H as <- <-. split; [reflexivity|].
  assert (T1 : stBd (g_col d AColour (ws_val (c_colour (cs_core cs)))) st sa).
  { destruct (ws_val (c_colour (cs_core cs))) as [[[r g] b]|].
    - eapply with_top'_Bd; [| |exact H1]; intros s.
      + unfold push_colour, g_col. destruct (d_colours d); reflexivity.
      + unfold push_colour. destruct (d_colours d); auto.
    - ok_inv H1. apply stBd_refl. }
  assert (T2 : stBd (g_col d ABg (ws_val (c_bg (cs_core cs)))) sa sb).
  { destruct (ws_val (c_bg (cs_core cs))) as [[[r g] b0]|].
    - eapply with_top'_Bd; [| |exact H2]; intros s.
      + unfold push_bgcolour, g_col. destruct (d_colours d); reflexivity.
      + unfold push_bgcolour. destruct (d_colours d); auto.
    - ok_inv H2. apply stBd_refl. }
  assert (T3 : stBd (g_ws (wsm_of cs)) sb sc).
  { fold (wsm_of cs) in H3. destruct (wsm_of cs) as [m|].
    - eapply with_top'_Bd; [| |exact H3]; intros s; [reflexivity|auto].
    - ok_inv H3. apply stBd_refl. }
  assert (T4 : stBd (g_pre (cs_internal_pre cs)) sc se).
  { destruct (cs_internal_pre cs).
    - eapply with_top'_Bd; [| |exact H4]; intros s; [reflexivity|auto].
    - ok_inv H4. apply stBd_refl. }
  unfold g_style.
  exact (stBd_comp _ _ _ _ _ (stBd_comp _ _ _ _ _ (stBd_comp _ _ _ _ _ T1 T2) T3) T4).
Qed.

Lemma unwind_Bd d cs st st' : unwind d (pushed_of cs) st = Ok st' -> stBd (h_style d cs) st st'.
Proof.
  intros H. unfold unwind in H. cbn [pushed_of p_bg p_colour p_ws p_pre] in H.
  bind_inv H sa H1. bind_inv H sb H2. bind_inv H sc H3.
  assert (T1 : stBd (h_col d (ws_val (c_bg (cs_core cs)))) st sa).
  { destruct (ws_val (c_bg (cs_core cs))) as [x|].
    - eapply with_top'_Bd; [| |exact H1]; intros s.
      + unfold pop_bgcolour, pop_colour, h_col. destruct (d_colours d); reflexivity.
      + unfold pop_bgcolour, pop_colour. destruct (d_colours d); auto.
    - ok_inv H1. apply stBd_refl. }
  assert (T2 : stBd (h_col d (ws_val (c_colour (cs_core cs)))) sa sb).
  { destruct (ws_val (c_colour (cs_core cs))) as [x|].
    - eapply with_top'_Bd; [| |exact H2]; intros s.
      + unfold pop_colour, h_col. destruct (d_colours d); reflexivity.
      + unfold pop_colour. destruct (d_colours d); auto.
    - ok_inv H2. apply stBd_refl. }
  assert (T3 : stBd (h_ws (wsm_of cs)) sb sc).
  { destruct (wsm_of cs) as [m|].
    - eapply with_top'_Bd; [| |exact H3]; intros s; [reflexivity|auto].
    - ok_inv H3. apply stBd_refl. }
  assert (T4 : stBd (h_pre (cs_internal_pre cs)) sc st').
  { destruct (cs_internal_pre cs).
    - eapply with_top_Bd; [|exact H]. intros s s' Hp. unfold pop_preformat in Hp.
      destruct (0 <? pre_depth s); [|discriminate]. ok_inv Hp. split; [reflexivity|].
      unfold same_body. auto.
    - ok_inv H. apply stBd_refl. }
  unfold h_style.
  exact (stBd_comp _ _ _ _ _ (stBd_comp _ _ _ _ _ (stBd_comp _ _ _ _ _ T1 T2) T3) T4).
Qed.

Section FrameR.
  Variable R : chr -> tag -> Prop.
  Hypothesis Rteq : forall c t t', tag_eqb t' t = true -> R c t -> R c t'.
  Hypothesis Rpad_nil : R (spacel L_pad) [].
  Variable d : deco.
  Variable mw : N.

  (* text t may be added as inline text when the meta part is m *)
  Definition Tm (t : text) (m : meta) : Prop :=
    txt_R R (main_tag_m d m) (cont_tag_m d m) (apply_filters (m_filt m) t).

  Definition stY (m m' : meta) (st st' : rstate) : Prop :=
    forall s rest, stack st = s :: rest -> meta_of s = m ->
      exists s', stack st' = s' :: rest /\ meta_of s' = m' /\ (sub_R R s -> sub_R R s').

  Lemma stY_refl m st : stY m m st st.
  Proof. intros s rest E M. exists s. auto. Qed.
  Lemma stY_trans m1 m2 m3 a b c : stY m1 m2 a b -> stY m2 m3 b c -> stY m1 m3 a c.
  Proof.
    intros H1 H2 s rest E M. destruct (H1 s rest E M) as (s1 & E1 & M1 & Q1).
    destruct (H2 s1 rest E1 M1) as (s2 & E2 & M2 & Q2). exists s2. auto.
  Qed.
  Lemma stY_eq m1 m2 m2' a b : m2 = m2' -> stY m1 m2 a b -> stY m1 m2' a b.
  Proof. intros <-. auto. Qed.
  Lemma stY_same_stack m st st' : stack st' = stack st -> stY m m st st'.
  Proof. intros E s rest Es M. exists s. rewrite E. auto. Qed.
  Lemma stBd_Y g m st st' : stBd g st st' -> stY m (g m) st st'.
  Proof.
    intros H s rest E M. destruct (H s rest E) as (s1 & E1 & M1 & (X & Y & Z)). exists s1.
    rewrite <- M. split; [exact E1|]. split; [exact M1|]. apply sub_R_body; assumption.
  Qed.

  Lemma with_top_Y (P : Prop) g f m st st' :
    (forall s s', f s = Ok s' -> meta_of s' = g (meta_of s)) ->
    (forall s s', f s = Ok s' -> meta_of s = m -> P -> sub_R R s -> sub_R R s') ->
    P -> with_top st f = Ok st' -> stY m (g m) st st'.
  Proof.
    intros Hg Hq p H s rest Es M. destruct (with_top_inv _ _ _ H) as (s0 & rest0 & s' & Es0 & Ef & ->).
    rewrite Es in Es0. injection Es0 as <- <-. exists s'. cbn [stack]. split; [reflexivity|].
    split; [rewrite (Hg _ _ Ef), M; reflexivity|]. intros Hs. eapply Hq; eassumption.
  Qed.

  Lemma Tm_at s m t :
    meta_of s = m -> Tm t m ->
    txt_R R (main_tag_of d s) (cont_tag_of d s) (apply_filters (filter_depth s) t).
  Proof. intros <- H. exact H. Qed.

  (* ---- the operations of render_node ---- *)
  Lemma Y_inline_text m t st st' : Tm t m -> inline_text d st t = Ok st' -> stY m m st st'.
  Proof.
    intros Hm H. unfold inline_text in H.
    apply (with_top_Y (Tm t m) idm (fun s => add_inline_text d s t)); [| |exact Hm|exact H].
    - intros s s' Hf. eapply meta_add_inline_text, Hf.
    - intros s s' Hf M P Hs. eapply (add_inline_text_R R Rteq Rpad_nil); [exact Hs| |exact Hf].
      apply (Tm_at s m t M P).
  Qed.

  Lemma start_deco_Y p m s s' :
    start_deco d s p = Ok s' -> meta_of s = m -> Tm (fst p) (m_push (snd p) m) ->
    sub_R R s -> sub_R R s'.
  Proof.
    intros Hf M P Hs. unfold start_deco in Hf.
    assert (M1 : meta_of (push_ann s (snd p)) = m_push (snd p) m) by (rewrite <- M; reflexivity).
    eapply (add_inline_text_R R Rteq Rpad_nil); [| |exact Hf].
    - apply (sub_R_body R s); [reflexivity..|exact Hs].
    - apply (Tm_at _ _ _ M1 P).
  Qed.

  Lemma end_deco_Y e m s s' :
    end_deco d s e = Ok s' -> meta_of s = m -> Tm e m -> sub_R R s -> sub_R R s'.
  Proof.
    intros Hf M P Hs. pose proof (Tm_at s m e M P) as T.
    unfold end_deco in Hf. bind_inv Hf s1 H1. ok_inv Hf.
    apply (sub_R_body R s1); [reflexivity..|].
    eapply (add_inline_text_R R Rteq Rpad_nil); [exact Hs|exact T|exact H1].
  Qed.

  Lemma Y_start_deco p m st st' :
    Tm (fst p) (m_push (snd p) m) -> with_top st (fun s => start_deco d s p) = Ok st' ->
    stY m (m_push (snd p) m) st st'.
  Proof.
    intros Hm H.
    apply (with_top_Y (Tm (fst p) (m_push (snd p) m)) (m_push (snd p)) (fun s => start_deco d s p));
      [| |exact Hm|exact H].
    - intros s s' Hf. eapply meta_start_deco, Hf.
    - intros s s' Hf M P Hs. eapply start_deco_Y; eassumption.
  Qed.

  Lemma Y_end_deco e m st st' :
    Tm e m -> with_top st (fun s => end_deco d s e) = Ok st' -> stY m (m_pop m) st st'.
  Proof.
    intros Hm H.
    apply (with_top_Y (Tm e m) m_pop (fun s => end_deco d s e)); [| |exact Hm|exact H].
    - intros s s' Hf. eapply meta_end_deco, Hf.
    - intros s s' Hf M P Hs. eapply end_deco_Y; eassumption.
  Qed.

  Lemma Y_start_strikeout m st st' :
    Tm (fst (d_strike_start d)) (m_push (snd (d_strike_start d)) m) ->
    with_top st (start_strikeout d) = Ok st' ->
    stY m (m_filt_inc (m_push (snd (d_strike_start d)) m)) st st'.
  Proof.
    intros Hm H.
    apply (with_top_Y (Tm (fst (d_strike_start d)) (m_push (snd (d_strike_start d)) m))
             (fun m => m_filt_inc (m_push (snd (d_strike_start d)) m)) (start_strikeout d));
      [| |exact Hm|exact H].
    - intros s s' Hf. eapply meta_start_strikeout, Hf.
    - intros s s' Hf M P Hs. unfold start_strikeout in Hf. bind_inv Hf s1 H1.
      pose proof (start_deco_Y _ _ _ _ H1 M P Hs) as Q1. ok_inv Hf.
      destruct (o_strike (sopts s1)); [|exact Q1]. apply (sub_R_body R s1); [reflexivity..|exact Q1].
  Qed.

  (* the closing text of <s> is added after the strikeout filter is popped *)
  Lemma Y_end_strikeout m st st' :
    Tm (d_strike_end d) (m_filt_dec m) -> with_top st (end_strikeout d) = Ok st' ->
    stY m (m_pop (m_filt_dec m)) st st'.
  Proof.
    intros Hm H.
    apply (with_top_Y (Tm (d_strike_end d) (m_filt_dec m)) (fun m => m_pop (m_filt_dec m))
                      (end_strikeout d)); [| |exact Hm|exact H].
    - intros s s' Hf. eapply meta_end_strikeout, Hf.
    - intros s s' Hf M P Hs. unfold end_strikeout in Hf. bind_inv Hf s1 H1.
      assert (E1 : meta_of s1 = m_filt_dec m /\ sub_R R s1).
      { rewrite <- M. unfold m_filt_dec. cbn [m_o meta_of].
        destruct (o_strike (sopts s)); [|ok_inv H1; auto].
        destruct (filter_depth s) as [|n] eqn:E; [discriminate|]. ok_inv H1.
        split; [unfold meta_of; cbn; rewrite E; reflexivity|].
        apply (sub_R_body R s); [reflexivity..|exact Hs]. }
      destruct E1 as [M1 Q1]. eapply end_deco_Y; [exact Hf|exact M1|exact P|exact Q1].
  Qed.

  Lemma Y_add_image src title m st st' :
    Tm (fst (d_image d src title)) (m_push (snd (d_image d src title)) m) ->
    with_top st (fun s => add_image d s src title) = Ok st' -> stY m m st st'.
  Proof.
    intros Hm H.
    apply (with_top_Y (Tm (fst (d_image d src title)) (m_push (snd (d_image d src title)) m)) idm
             (fun s => add_image d s src title)); [| |exact Hm|exact H].
    - intros s s' Hf. eapply meta_add_image, Hf.
    - intros s s' Hf M P Hs. unfold add_image in Hf. bind_inv Hf s1 H1.
      pose proof (start_deco_Y (d_image d src title) m s s1 H1 M P Hs) as Q1. ok_inv Hf.
      apply (sub_R_body R s1); [reflexivity..|exact Q1].
  Qed.

  Lemma Y_start_block m st st' : with_top st start_block = Ok st' -> stY m m st st'.
  Proof.
    intros H. apply (with_top_Y True idm start_block); [| |exact I|exact H].
    - intros s s' Hf. eapply meta_start_block, Hf.
    - intros s s' Hf _ _ Hs. eapply (start_block_R R Rteq Rpad_nil); eassumption.
  Qed.

  Lemma Y_new_line m st st' : with_top st new_line = Ok st' -> stY m m st st'.
  Proof.
    intros H. apply (with_top_Y True idm new_line); [| |exact I|exact H].
    - intros s s' Hf. eapply meta_flush_wrapping, Hf.
    - intros s s' Hf _ _ Hs. eapply (flush_wrapping_R R Rteq Rpad_nil); eassumption.
  Qed.

  Lemma Y_new_line_hard m st st' : with_top st new_line_hard = Ok st' -> stY m m st st'.
  Proof.
    intros H. apply (with_top_Y True idm new_line_hard); [| |exact I|exact H].
    - intros s s' Hf. eapply meta_new_line_hard, Hf.
    - intros s s' Hf _ _ Hs. eapply (new_line_hard_R R Rteq Rpad_nil); eassumption.
  Qed.

  Lemma Y_end_block m st st' : with_top' st end_block = Ok st' -> stY m m st st'.
  Proof.
    intros H. unfold with_top' in H.
    apply (with_top_Y True idm (fun s => Ok (end_block s))); [| |exact I|exact H].
    - intros s s' Hf. ok_inv Hf. reflexivity.
    - intros s s' Hf _ _ Hs. ok_inv Hf. apply (sub_R_body R s); [reflexivity..|exact Hs].
  Qed.

  Lemma Y_record_frag_start name m st st' :
    with_top' st (fun s => record_frag_start s name) = Ok st' -> stY m m st st'.
  Proof.
    intros H. unfold with_top' in H.
    apply (with_top_Y True idm (fun s => Ok (record_frag_start s name))); [| |exact I|exact H].
    - intros s s' Hf. ok_inv Hf. reflexivity.
    - intros s s' Hf _ _ Hs. ok_inv Hf. apply (record_frag_start_R R Rteq), Hs.
  Qed.

  Lemma ann_m s m : meta_of s = m -> ann_stack s = m_ann m.
  Proof. intros <-. reflexivity. Qed.

  (* block structure carries the annotation stack of the sub-renderer it is added to *)
  Lemma Y_border w m st st' :
    Bd R (m_ann m) -> with_top st (fun s => add_horizontal_border_width s w) = Ok st' -> stY m m st st'.
  Proof.
    intros Hm H.
    apply (with_top_Y (Bd R (m_ann m)) idm (fun s => add_horizontal_border_width s w));
      [| |exact Hm|exact H].
    - intros s s' Hf. eapply meta_add_horizontal_border_width, Hf.
    - intros s s' Hf M P Hs. eapply (add_horizontal_border_width_R R Rteq Rpad_nil); [exact Hs| |exact Hf].
      rewrite (ann_m _ _ M). exact P.
  Qed.

  Lemma Y_append_subrender sub first rest_ m st st' :
    str_R R first (m_ann m) -> str_R R rest_ (m_ann m) -> Bd R (m_ann m) -> sub_R R sub ->
    with_top st (fun s => append_subrender s sub first rest_) = Ok st' -> stY m m st st'.
  Proof.
    intros Hf_ Hr_ Hm Hsub H.
    apply (with_top_Y (str_R R first (m_ann m) /\ str_R R rest_ (m_ann m) /\ Bd R (m_ann m)) idm
                      (fun s => append_subrender s sub first rest_)); [| |auto|exact H].
    - intros s s' Hf. eapply meta_append_subrender, Hf.
    - intros s s' Hf M (P1 & P2 & P3) Hs. rewrite <- (ann_m _ _ M) in P1, P2, P3.
      eapply (append_subrender_R R Rteq Rpad_nil); [exact Hs|exact Hsub|exact P1|exact P2|exact P3|exact Hf].
  Qed.

  Lemma Y_append_columns subs c m st st' :
    RowT R (m_ann m) -> Forall (sub_R R) subs ->
    with_top st (fun s => append_columns_with_borders s subs c) = Ok st' -> stY m m st st'.
  Proof.
    intros Hm Hsub H.
    apply (with_top_Y (RowT R (m_ann m)) idm (fun s => append_columns_with_borders s subs c));
      [| |exact Hm|exact H].
    - intros s s' Hf. eapply meta_append_columns, Hf.
    - intros s s' Hf M P Hs. eapply (append_columns_R R Rteq Rpad_nil); [exact Hs|exact Hsub| |exact Hf].
      rewrite (ann_m _ _ M). exact P.
  Qed.

  Lemma Y_append_vert_row subs m st st' :
    Bd R (m_ann m) -> Forall (sub_R R) subs ->
    with_top st (fun s => append_vert_row s subs) = Ok st' -> stY m m st st'.
  Proof.
    intros Hm Hsub H.
    apply (with_top_Y (Bd R (m_ann m)) idm (fun s => append_vert_row s subs));
      [| |exact Hm|exact H].
    - intros s s' Hf. eapply meta_append_vert_row, Hf.
    - intros s s' Hf M P Hs. eapply (append_vert_row_R R Rteq Rpad_nil); [exact Hs|exact Hsub| |exact Hf].
      rewrite (ann_m _ _ M). exact P.
  Qed.

  (* ---- styles ---- *)
  Lemma Y_styled m st0 sty st p stb st' :
    apply_style d st0 sty = Ok (st, p) ->
    stY (g_style d sty m) (g_style d sty m) st stb ->
    unwind d p stb = Ok st' -> stY m m st0 st'.
  Proof.
    intros Ha Hb Hu. destruct (apply_style_Bd _ _ _ _ _ Ha) as [-> Ba].
    pose proof (unwind_Bd _ _ _ _ Hu) as Bu.
    eapply stY_trans; [apply stBd_Y, Ba|]. eapply stY_trans; [exact Hb|].
    eapply stY_eq; [|apply stBd_Y, Bu]. apply h_g_style.
  Qed.

  (* ---- a nested sub-renderer ---- *)
  Lemma Y_scope st tp w st2 sub st3 :
    top st = Ok tp ->
    stY (meta_of (new_sub_renderer tp w)) (meta_of (new_sub_renderer tp w))
        (push_sub st (new_sub_renderer tp w)) st2 ->
    pop_sub st2 = Ok (sub, st3) ->
    stack st3 = stack st /\ sub_R R sub.
  Proof.
    intros Ht H Hp.
    destruct (H (new_sub_renderer tp w) (stack st) eq_refl eq_refl) as (s' & E & M & Qp).
    unfold pop_sub in Hp. rewrite E in Hp. injection Hp as <- <-. cbn [stack].
    split; [reflexivity|]. apply Qp, new_sub_renderer_R.
  Qed.

  Lemma Y_prefixed m st tp w st2 sub st3 stz :
    top st = Ok tp ->
    (meta_of tp = m ->
     stY (meta_of (new_sub_renderer tp w)) (meta_of (new_sub_renderer tp w))
         (push_sub st (new_sub_renderer tp w)) st2) ->
    pop_sub st2 = Ok (sub, st3) ->
    (sub_R R sub -> stY m m st3 stz) ->
    stY m m st stz.
  Proof.
    intros Ht H2 Hp Hrest s rest E M.
    pose proof (top_meta _ _ _ _ _ Ht E M) as Mt.
    destruct (Y_scope _ _ _ _ _ _ Ht (H2 Mt) Hp) as (Es & Hq).
    apply (Hrest Hq s rest); [rewrite Es; exact E|exact M].
  Qed.
End FrameR.

(* ================================================================== *)
(* 4. Which characters a node makes, and the tag each of them carries   *)
(* ================================================================== *)

(* THE TABLE OF GOAL (A): what every constructor of rinfo pushes for its content.  Every
   constructor is listed (no default arm). *)
Definition own_ann_tbl (d : deco) (i : rinfo) : option ann :=
  match i with
  | IText _ => None
  | IContainer _ => None
  | ILink href _ => Some (snd (d_link_start d href))     (* Link target *)
  | IEm _ => Some (snd (d_em_start d))                   (* Emphasis *)
  | IStrong _ => Some (snd (d_strong_start d))           (* Strong *)
  | IStrikeout _ => Some (snd (d_strike_start d))        (* Strikeout *)
  | ICode _ => Some (snd (d_code_start d))               (* Code *)
  | IImg src title => Some (snd (d_image d src title))   (* Image src *)
  | IBlock _ => None
  | IHeader _ _ => None                                  (* headings: nothing *)
  | IDiv _ => None
  | IBlockQuote _ => None
  | IUl _ => None
  | IOl _ _ => None
  | IDl _ => None
  | IDt _ => Some (snd (d_em_start d))                   (* <dt> is rendered emphasised *)
  | IDd _ => None
  | IBreak => None
  | ITable _ _ => None
  | ITableBody _ => None
  | ITableRow _ => None
  | ITableCell _ => None                                 (* table cells: nothing *)
  | IFragStart _ => None
  | IListItem _ => None                                  (* list items: nothing *)
  | ISup cs => match sup_digits cs with
               | Some _ => None                          (* <sup>digits</sup>: nothing *)
               | None => Some (snd (d_sup_start d))
               end
  end.
Definition opt_tag (o : option ann) : tag := match o with Some a => [a] | None => [] end.

Lemma own_ann_tbl_ok d i : own_ann d i = opt_tag (own_ann_tbl d i).
Proof. destruct i; cbn [own_ann own_ann_tbl opt_tag]; try reflexivity. destruct (sup_digits cs); reflexivity. Qed.

(* the inline texts a node adds itself (every constructor listed) *)
Definition own_texts (d : deco) (i : rinfo) : list text :=
  match i with
  | IText t => [t]
  | IContainer _ => []
  | ILink href _ => [fst (d_link_start d href); d_link_end d]
  | IEm _ => [fst (d_em_start d); d_em_end d]
  | IStrong _ => [fst (d_strong_start d); d_strong_end d]
  | IStrikeout _ => [fst (d_strike_start d); d_strike_end d]
  | ICode _ => [fst (d_code_start d); d_code_end d]
  | IImg src title => [fst (d_image d src title)]
  | IBlock _ => []
  | IHeader _ _ => []
  | IDiv _ => []
  | IBlockQuote _ => []
  | IUl _ => []
  | IOl _ _ => []
  | IDl _ => []
  | IDt _ => [fst (d_em_start d); d_em_end d]
  | IDd _ => []
  | IBreak => []
  | ITable _ _ => []
  | ITableBody _ => []
  | ITableRow _ => []
  | ITableCell _ => []
  | IFragStart _ => []
  | IListItem _ => []
  | ISup cs => match sup_digits cs with
               | Some ds => [ds]
               | None => [fst (d_sup_start d); d_sup_end d]
               end
  end.

Definition own_char (d : deco) (i : rinfo) (c : chr) : Prop :=
  exists t, In t (own_texts d i) /\ In c t.
(* the characters that end up in the output for the inline text of a node: its own
   characters; U+0336 after a visible one (inside <s>); the collapsed inter-word space / tab
   fill and the padding that reuses the tag of a pending space, if the text has whitespace *)
Definition inline_char (d : deco) (i : rinfo) (c : chr) : Prop :=
  own_char d i c
  \/ (c = strike_chr /\ exists c', own_char d i c' /\ ws c' = false)
  \/ ((c = spacel L_space \/ c = spacel L_pad) /\ exists c', own_char d i c' /\ ws c' = true).

Definition is_seg (c : chr) : Prop := exists sg, c = seg_char sg.
(* the block structure a node adds (every constructor listed).  The segments of a border
   line of a nested table that gets a prefix / ends up in a row are re-tagged (attach_prefix,
   row_line), hence is_seg for every kind with a prefix. *)
Definition struct_char (d : deco) (i : rinfo) (c : chr) : Prop :=
  match i with
  | IHeader level _ => In c (d_header_prefix d level) \/ is_seg c
  | IBlockQuote _ => In c (d_quote_prefix d) \/ is_seg c
  | IUl _ => In c (d_ul_prefix d) \/ c = spacel L_prefix \/ is_seg c
  | IOl _ _ => (exists k, In c (d_ol_prefix d k)) \/ c = spacel L_prefix \/ is_seg c
  | IDd _ => In c (ptext [32; 32]) \/ is_seg c
  | ITable _ _ => is_seg c
  | ITableRow _ => is_seg c \/ c = vbar \/ c = spacel L_border \/ c = spacel L_pad
  | IText _ | IContainer _ | ILink _ _ | IEm _ | IStrong _ | IStrikeout _ | ICode _ | IImg _ _
  | IBlock _ | IDiv _ | IDl _ | IDt _ | IBreak | ITableBody _ | ITableCell _ | IFragStart _
  | IListItem _ | ISup _ => False
  end.
(* the footnote reference [k] of a link (struck when the link is inside <s>) *)
Definition marker_char (c : chr) : Prop :=
  (exists k, In c (ftext ([91] ++ dec_N k ++ [93]))) \/ c = strike_chr.

(* (character, tag) pairs made for the node at the end of path p *)
Definition char_tag (d : deco) (B : tag) (pre0 : bool) (p : list pe) (c : chr) (t : tag) : Prop :=
  let b := pre0 || path_pre p in
  let i := fst (last_pe p) in
  (inline_char d i c /\ with_pre d b (B ++ enclosing_anns d p) t)
  \/ (struct_char d i c /\ t = B ++ enclosing_anns d p)
  \/ (is_link i = true /\ marker_char c /\
      with_pre d b (B ++ enclosing_anns d (removelast p) ++ style_anns d (snd (last_pe p))) t).

Definition tree_ct (d : deco) (B : tag) (pre0 : bool) (e : pe) (c : chr) (t : tag) : Prop :=
  exists p, path_from e p /\ char_tag d B pre0 p c t.

(* a character-tag pair is a path_tag of Inherit *)
Lemma char_tag_path_tag d B pre0 p c t : char_tag d B pre0 p c t -> path_tag d B pre0 p t.
Proof.
  intros [[_ H]|[[Hs H]|(Hl & _ & H)]]; [left; exact H| |right; right; auto].
  right. left. split; [|exact H]. destruct (fst (last_pe p)); cbn in Hs; try contradiction; reflexivity.
Qed.

Lemma char_tag_cons_iff d B pre0 e p c t :
  p <> [] ->
  (char_tag d B pre0 (e :: p) c t <->
   char_tag d (B ++ pe_anns d e) (pre0 || cs_internal_pre (snd e)) p c t).
Proof.
  intros Hp. unfold char_tag. rewrite (last_pe_cons e p Hp), (removelast_cons e p Hp).
  rewrite !enclosing_anns_cons. cbn [path_pre existsb]. fold (path_pre p).
  rewrite <- ?app_assoc. rewrite <- orb_assoc. reflexivity.
Qed.

Lemma tree_ct_child d B pre0 e k c t :
  In k (rkids (fst e)) ->
  tree_ct d (B ++ pe_anns d e) (pre0 || cs_internal_pre (snd e)) k c t ->
  tree_ct d B pre0 e c t.
Proof.
  intros Hin (p & Hp & Ht). exists (e :: p). split; [apply pf_cons with (c := k); assumption|].
  apply char_tag_cons_iff; [eapply path_from_nonempty, Hp|exact Ht].
Qed.

Lemma tree_ct_self d B pre0 e c t : char_tag d B pre0 [e] c t -> tree_ct d B pre0 e c t.
Proof. intros H. exists [e]. split; [apply pf_one|exact H]. Qed.

Lemma char_tag_app d B pre0 p q c t :
  q <> [] ->
  char_tag d (B ++ enclosing_anns d p) (pre0 || path_pre p) q c t -> char_tag d B pre0 (p ++ q) c t.
Proof.
  intros Hq. revert B pre0. induction p as [|e p IH]; intros B pre0 H.
  - cbn [app enclosing_anns flat_map path_pre existsb] in *.
    rewrite app_nil_r, orb_false_r in H. exact H.
  - cbn [app]. apply char_tag_cons_iff; [destruct p; [exact Hq|discriminate]|]. apply IH.
    rewrite enclosing_anns_cons in H. cbn [path_pre existsb] in H. fold (path_pre p) in H.
    rewrite <- app_assoc. rewrite <- orb_assoc. exact H.
Qed.

Definition HR (R : chr -> tag -> Prop) (d : deco) (e : pe) (m : meta) : Prop :=
  forall c t, tree_ct d (m_ann m) (0 <? m_pre m) e c t -> R c t.

Lemma HR_same R d e m m' : m_ann m = m_ann m' -> m_pre m = m_pre m' -> HR R d e m -> HR R d e m'.
Proof. unfold HR. intros <- <- H. exact H. Qed.

Lemma HR_child R d e m mc k :
  HR R d e m -> child_meta d e m mc -> In k (rkids (fst e)) -> HR R d k mc.
Proof.
  intros H [A B] Hin c t Ht. apply H. apply tree_ct_child with (k := k); [exact Hin|].
  rewrite <- A, <- B. exact Ht.
Qed.

Lemma in_filter_strikeout c t :
  In c (filter_strikeout t) -> In c t \/ (c = strike_chr /\ exists c', In c' t /\ ws c' = false).
Proof.
  unfold filter_strikeout. intros H. apply in_flat_map in H. destruct H as (x & Hx & Hc).
  destruct (negb (ws x) && (0 <? cw0 x)) eqn:E.
  - destruct Hc as [<-|[<-|[]]]; [left; exact Hx|]. right. split; [reflexivity|]. exists x.
    split; [exact Hx|]. destruct (ws x); [discriminate|reflexivity].
  - destruct Hc as [<-|[]]. left. exact Hx.
Qed.

Lemma in_apply_filters n : forall t c,
  In c (apply_filters n t) -> In c t \/ (c = strike_chr /\ exists c', In c' t /\ ws c' = false).
Proof.
  induction n as [|n IH]; intros t c H; cbn [apply_filters] in H; [left; exact H|].
  apply IH in H. destruct H as [H|(-> & c' & Hc' & Hw)].
  - apply in_filter_strikeout, H.
  - right. split; [reflexivity|]. apply in_filter_strikeout in Hc'.
    destruct Hc' as [Hc'|(-> & c'' & H1 & H2)]; [exists c'; auto|exists c''; auto].
Qed.

Lemma child_meta_filt_dec d e m mc : child_meta d e m mc -> child_meta d e m (m_filt_dec mc).
Proof. unfold m_filt_dec. destruct (o_strike (m_o mc)); auto. Qed.

Lemma with_pre_main d mc : with_pre d (0 <? m_pre mc) (m_ann mc) (main_tag_m d mc).
Proof. unfold with_pre, main_tag_m. destruct (0 <? m_pre mc); auto. Qed.
Lemma with_pre_cont d mc : with_pre d (0 <? m_pre mc) (m_ann mc) (cont_tag_m d mc).
Proof. unfold with_pre, cont_tag_m. destruct (0 <? m_pre mc); auto. Qed.

(* an inline text of the node itself, added at a children's meta part *)
Lemma Tm_of R d e m mc t :
  HR R d e m -> child_meta d e m mc -> In t (own_texts d (fst e)) -> Tm R d t mc.
Proof.
  intros H [A B] Hin.
  assert (K : forall c tg, inline_char d (fst e) c -> with_pre d (0 <? m_pre mc) (m_ann mc) tg -> R c tg).
  { intros c tg Hc Ht. apply H, tree_ct_self. left. unfold last_pe. cbn [last].
    rewrite enclosing_one, path_pre_one, <- A, <- B. auto. }
  unfold Tm, txt_R. apply Forall_forall. intros c Hc. apply in_apply_filters in Hc.
  assert (Hi : inline_char d (fst e) c).
  { destruct Hc as [Hc|(-> & c' & Hc' & Hw)]; [left; exists t; auto|].
    right. left. split; [reflexivity|]. exists c'. split; [exists t; auto|exact Hw]. }
  split; [apply K; [exact Hi|apply with_pre_main]|]. split; [apply K; [exact Hi|apply with_pre_cont]|].
  intros Hws.
  assert (Hct : In c t) by (destruct Hc as [Hc|[-> _]]; [exact Hc|discriminate]).
  assert (Hsp : forall c0, c0 = spacel L_space \/ c0 = spacel L_pad -> inline_char d (fst e) c0).
  { intros c0 H0. right. right. split; [exact H0|]. exists c. split; [exists t; auto|exact Hws]. }
  unfold Sp. repeat split; apply K; auto using with_pre_main, with_pre_cont.
Qed.

Lemma ws_of_asciil lb l c : In c (of_asciil lb l) -> ws c = false.
Proof. unfold of_asciil. intros H. apply in_map_iff in H. destruct H as (x & <- & _). reflexivity. Qed.

(* the footnote marker of a link *)
Lemma Tm_marker R d href cs sty m k :
  HR R d (ILink href cs, sty) m -> Tm R d (ftext ([91] ++ dec_N k ++ [93])) (g_style d sty m).
Proof.
  intros H. set (mc := g_style d sty m).
  assert (K : forall c tg, marker_char c -> with_pre d (0 <? m_pre mc) (m_ann mc) tg -> R c tg).
  { intros c tg Hc Ht. apply H, tree_ct_self. right. right. unfold last_pe.
    cbn [last removelast fst snd is_link enclosing_anns flat_map]. split; [reflexivity|].
    split; [exact Hc|]. rewrite path_pre_one. cbn [snd]. unfold mc in Ht.
    rewrite g_style_ann, g_style_pre, pre_flag in Ht. cbn [app]. exact Ht. }
  unfold Tm, txt_R. apply Forall_forall. intros c Hc. apply in_apply_filters in Hc.
  assert (Hi : marker_char c /\ ws c = false).
  { destruct Hc as [Hc|(-> & _)]; [|split; [right; reflexivity|reflexivity]].
    split; [left; exists k; exact Hc|]. unfold ftext in Hc. apply (ws_of_asciil _ _ _ Hc). }
  destruct Hi as [Hi Hw].
  split; [apply K; [exact Hi|apply with_pre_main]|]. split; [apply K; [exact Hi|apply with_pre_cont]|].
  rewrite Hw. discriminate.
Qed.

(* block structure added by the node *)
Lemma Rstruct_of R d e m mc c :
  HR R d e m -> child_meta d e m mc -> struct_char d (fst e) c -> R c (m_ann mc).
Proof.
  intros H [A B] Hs. apply H, tree_ct_self. right. left. unfold last_pe. cbn [last].
  split; [exact Hs|]. rewrite enclosing_one, <- A. reflexivity.
Qed.
Lemma str_struct_of R d e m mc s :
  HR R d e m -> child_meta d e m mc -> (forall c, In c s -> struct_char d (fst e) c) ->
  str_R R s (m_ann mc).
Proof.
  intros H CM Hs. unfold str_R. apply Forall_forall. intros c Hc.
  eapply Rstruct_of; [exact H|exact CM|apply Hs, Hc].
Qed.
Lemma Bd_struct_of R d e m mc :
  HR R d e m -> child_meta d e m mc -> (forall sg, struct_char d (fst e) (seg_char sg)) ->
  Bd R (m_ann mc).
Proof. intros H CM Hs sg. eapply Rstruct_of; [exact H|exact CM|apply Hs]. Qed.

Lemma in_repeat_chr c n x : In x (repeat_chr c n) -> x = c.
Proof. induction n as [|n IH]; cbn [repeat_chr]; [intros []|intros [<-|H]; auto]. Qed.

(* ================================================================== *)
(* 5. The invariant, by induction on the render tree                    *)
(* ================================================================== *)

Section TreeR.
  Variable R : chr -> tag -> Prop.
  Hypothesis Rteq : forall c t t', tag_eqb t' t = true -> R c t -> R c t'.
  Hypothesis Rpad_nil : R (spacel L_pad) [].
  Variable d : deco.
  Variable mw : N.

  Definition node_Y (n : rnode) : Prop :=
    forall m st st', HR R d (pe_of n) m -> render_node d mw n st = Ok st' -> stY R m m st st'.

  Ltac yapply L := eapply L; try exact Rteq; try exact Rpad_nil.

  Lemma Y_kids m cs st st' :
    Forall node_Y cs -> (forall c, In c cs -> HR R d (pe_of c) m) ->
    fold_left (fun acc c => do s <- acc; render_node d mw c s) cs (Ok st) = Ok st' ->
    stY R m m st st'.
  Proof.
    intros HF HQs H.
    apply (fold_bind_inv (fun a => stY R m m st a) (render_node d mw) cs) with (a := st);
      [|apply stY_refl|exact H].
    intros c Hc a a' Ra Hr. eapply stY_trans; [exact Ra|].
    rewrite Forall_forall in HF. apply (HF c Hc m a a' (HQs c Hc) Hr).
  Qed.

  (* start ... children ... end of an inline element with decorator texts *)
  Lemma Y_deco p e_ cs m1 st1 a b c :
    Forall node_Y cs -> Tm R d (fst p) (m_push (snd p) m1) -> Tm R d e_ (m_push (snd p) m1) ->
    (forall k, In k cs -> HR R d (pe_of k) (m_push (snd p) m1)) ->
    with_top st1 (fun s => start_deco d s p) = Ok a ->
    fold_left (fun acc c => do s <- acc; render_node d mw c s) cs (Ok a) = Ok b ->
    with_top b (fun s => end_deco d s e_) = Ok c ->
    stY R m1 m1 st1 c.
  Proof.
    intros HF Hm1 Hm2 HQs H1 H2 H3.
    eapply stY_trans; [yapply Y_start_deco; [exact Hm1|exact H1]|].
    eapply stY_trans; [eapply Y_kids; [exact HF|exact HQs|exact H2]|].
    eapply stY_eq; [|yapply Y_end_deco; [exact Hm2|exact H3]]. apply m_pop_push.
  Qed.

  Lemma Y_cells_loop mr : forall cells wsl s2 subs r tp rest,
    Forall (fun c => Forall node_Y (cell_content c)) cells ->
    (forall c, In c cells -> HR R d (pe_cell c) mr) ->
    stack s2 = tp :: rest -> meta_of tp = mr ->
    cells_loop d mw cells wsl s2 subs = Ok r ->
    stack (fst r) = stack s2 /\ (Forall (sub_R R) subs -> Forall (sub_R R) (snd r)).
  Proof.
    induction cells as [|[n content csty] cells IH]; intros wsl s2 subs r tp rest HF HQs E M H;
      cbn [cells_loop] in H.
    - ok_inv H. cbn [fst snd]. auto.
    - inversion HF as [|? ? HF1 HF2]; subst. cbn [cell_content] in HF1.
      destruct wsl as [|[w|] wsl].
      + ok_inv H. cbn [fst snd]. auto.
      + bind_inv H tp2 Htp. bind_inv H apc Hap. destruct apc as [s4 pcell].
        bind_inv H s5 H5. bind_inv H s6 H6. bind_inv H pp Hpp. destruct pp as [sub s7].
        assert (Etp : tp2 = tp).
        { unfold top in Htp. rewrite E in Htp. injection Htp as <-. reflexivity. }
        subst tp2.
        pose proof (HQs _ (or_introl eq_refl)) as HQc. unfold pe_cell in HQc. cbn [cell_style] in HQc.
        set (mm := meta_of (new_sub_renderer tp w)) in *.
        assert (HQc' : HR R d (ITableCell (RCell n content csty), csty) mm)
          by (revert HQc; apply HR_same; reflexivity).
        assert (T : stY R mm mm (push_sub s2 (new_sub_renderer tp w)) s6).
        { eapply Y_styled; [exact Hap| |exact H6].
          eapply Y_kids; [exact HF1| |exact H5].
          intros k Hk. eapply HR_child; [exact HQc'|apply cm_plain; reflexivity|].
          cbn [fst rkids cell_content]. apply in_map, Hk. }
        destruct (Y_scope R _ _ _ _ _ _ Htp T Hpp) as (Es & Hq).
        destruct (IH wsl s7 (subs ++ [sub]) r tp rest HF2) as [A B];
          [intros c Hc; apply HQs; right; exact Hc|rewrite Es; exact E|reflexivity|exact H|].
        split; [rewrite A; exact Es|]. intros Hs. apply B.
        apply Forall_app. split; [exact Hs|]. constructor; [exact Hq|constructor].
      + apply (IH wsl s2 subs r tp rest HF2); [intros c Hc; apply HQs; right; exact Hc|exact E|reflexivity|exact H].
  Qed.

  Lemma Y_row_body m vr cw r s s' :
    Forall (fun c => Forall node_Y (cell_content c)) (row_cells r) ->
    HR R d (pe_row r) m ->
    row_body d mw vr cw r s = Ok s' -> stY R m m s s'.
  Proof.
    intros HF HQr H. destruct r as [rcells rstyle]. cbn [row_cells] in HF. unfold row_body in H.
    unfold pe_row in HQr. cbn [row_style] in HQr.
    bind_inv H apr Hap. destruct apr as [s1 prow]. bind_inv H cws Hcws. bind_inv H rr Hrr.
    destruct rr as [s8 subs]. bind_inv H s9 H9.
    eapply Y_styled; [exact Hap| |exact H].
    set (mr := g_style d rstyle m).
    assert (CM : child_meta d (ITableRow (RRow rcells rstyle), rstyle) m mr)
      by (apply cm_plain; reflexivity).
    intros tp1 rest1 E1 M1.
    assert (HQs : forall c, In c rcells -> HR R d (pe_cell c) mr).
    { intros c Hc. eapply HR_child; [exact HQr|exact CM|]. cbn [fst rkids row_cells].
      apply in_map, Hc. }
    destruct (Y_cells_loop mr rcells cws s1 [] (s8, subs) tp1 rest1 HF HQs E1 M1 Hrr)
      as [Est Hq].
    cbn [fst snd] in Est, Hq. specialize (Hq (Forall_nil _)).
    assert (Hbd : Bd R (m_ann mr)).
    { eapply Bd_struct_of; [exact HQr|exact CM|]. intros sg. cbn [fst struct_char]. left. exists sg. reflexivity. }
    assert (Hrow : RowT R (m_ann mr)).
    { split; [exact Hbd|]. repeat split; (eapply Rstruct_of; [exact HQr|exact CM|]); cbn [fst struct_char]; auto. }
    assert (T : stY R mr mr s8 s9).
    { destruct vr.
      - yapply Y_append_vert_row; [exact Hbd|exact Hq|exact H9].
      - destruct (existsb (fun c => negb (sub_empty c)) subs).
        + yapply Y_append_columns; [exact Hrow|exact Hq|exact H9].
        + ok_inv H9. apply stY_refl. }
    apply (T tp1 rest1); [rewrite Est; exact E1|exact M1].
  Qed.

  Ltac start H sz ap st1 ps Hap :=
    let Hsz := fresh "Hsz" in
    bind_inv H sz Hsz; bind_inv H ap Hap; destruct ap as [st1 ps].

  Ltac kid_plain HQ_ Hk :=
    eapply HR_child; [exact HQ_|apply cm_plain; reflexivity|cbn [fst rkids]; apply in_map, Hk].
  Ltac kid_own HQ_ Hk :=
    eapply HR_child; [exact HQ_|apply cm_own; reflexivity|cbn [fst rkids]; apply in_map, Hk].
  Ltac own_txt HQ_ :=
    eapply Tm_of; [exact HQ_|apply cm_own; reflexivity|cbn [fst own_texts In]; auto].

  Lemma node_Y_all : forall n, node_Y n.
  Proof.
    apply rnode_ind'. intros i sty IH m st st' HQ_ H. unfold pe_of in HQ_.
    cbn [rn_info rn_style] in HQ_.
    destruct i; cbn [direct_kids] in IH; cbn [render_node rn_info rn_style] in H.
    - (* IText *)
      start H sz ap st1 ps Hap. bind_inv H st2 H2.
      eapply Y_styled; [exact Hap| |exact H].
      yapply Y_inline_text; [|exact H2].
      eapply Tm_of; [exact HQ_|apply cm_plain; reflexivity|cbn [fst own_texts In]; auto].
    - (* IContainer *)
      start H sz ap st1 ps Hap. bind_inv H st2 H2.
      eapply Y_styled; [exact Hap| |exact H].
      eapply Y_kids; [exact IH| |exact H2]. intros k Hk. kid_plain HQ_ Hk.
    - (* ILink *)
      start H sz ap st1 ps Hap.
      bind_inv H st2 H2. bind_inv H st3 H3. bind_inv H st4 H4. bind_inv H tp H5. bind_inv H st5 H6.
      eapply Y_styled; [exact Hap| |exact H].
      eapply stY_trans;
        [apply (stY_same_stack R _ st1 (mkrst (stack st1) (links st1 ++ [href]))); reflexivity|].
      eapply stY_trans.
      + eapply (Y_deco (d_link_start d href) (d_link_end d));
          [exact IH| | | |exact H2|exact H3|exact H4].
        * own_txt HQ_.
        * own_txt HQ_.
        * intros k Hk. kid_own HQ_ Hk.
      + destruct (o_footnotes (sopts tp)).
        * yapply Y_inline_text; [eapply Tm_marker, HQ_|exact H6].
        * ok_inv H6. apply stY_refl.
    - (* IEm *)
      start H sz ap st1 ps Hap. bind_inv H a H1. bind_inv H b H2. bind_inv H c H3.
      eapply Y_styled; [exact Hap| |exact H].
      eapply (Y_deco (d_em_start d) (d_em_end d)); [exact IH| | | |exact H1|exact H2|exact H3].
      + own_txt HQ_.
      + own_txt HQ_.
      + intros k Hk. kid_own HQ_ Hk.
    - (* IStrong *)
      start H sz ap st1 ps Hap. bind_inv H a H1. bind_inv H b H2. bind_inv H c H3.
      eapply Y_styled; [exact Hap| |exact H].
      eapply (Y_deco (d_strong_start d) (d_strong_end d));
        [exact IH| | | |exact H1|exact H2|exact H3].
      + own_txt HQ_.
      + own_txt HQ_.
      + intros k Hk. kid_own HQ_ Hk.
    - (* IStrikeout *)
      start H sz ap st1 ps Hap. bind_inv H a H1. bind_inv H b H2. bind_inv H c H3.
      eapply Y_styled; [exact Hap| |exact H].
      assert (CM : child_meta d (IStrikeout cs, sty) m
                     (m_push (snd (d_strike_start d)) (g_style d sty m)))
        by (apply cm_own; reflexivity).
      eapply stY_trans; [yapply Y_start_strikeout; [|exact H1]|].
      { eapply Tm_of; [exact HQ_|exact CM|cbn [fst own_texts In]; auto]. }
      eapply stY_trans.
      + eapply Y_kids; [exact IH| |exact H2]. intros k Hk.
        eapply HR_child; [exact HQ_|apply cm_filt, CM|cbn [fst rkids]; apply in_map, Hk].
      + eapply stY_eq; [|yapply Y_end_strikeout; [|exact H3]]; [apply strike_inv|].
        eapply Tm_of; [exact HQ_|apply child_meta_filt_dec, cm_filt, CM|cbn [fst own_texts In]; auto].
    - (* ICode *)
      start H sz ap st1 ps Hap. bind_inv H a H1. bind_inv H b H2. bind_inv H c H3.
      eapply Y_styled; [exact Hap| |exact H].
      eapply (Y_deco (d_code_start d) (d_code_end d));
        [exact IH| | | |exact H1|exact H2|exact H3].
      + own_txt HQ_.
      + own_txt HQ_.
      + intros k Hk. kid_own HQ_ Hk.
    - (* IImg *)
      start H sz ap st1 ps Hap. bind_inv H st2 H2.
      eapply Y_styled; [exact Hap| |exact H].
      yapply Y_add_image; [|exact H2]. own_txt HQ_.
    - (* IBlock *)
      start H sz ap st1 ps Hap. bind_inv H a H1. bind_inv H b H2. bind_inv H c H3.
      eapply Y_styled; [exact Hap| |exact H].
      eapply stY_trans; [yapply Y_start_block; exact H1|].
      eapply stY_trans; [|eapply Y_end_block, H3].
      eapply Y_kids; [exact IH| |exact H2]. intros k Hk. kid_plain HQ_ Hk.
    - (* IHeader *)
      start H sz ap st1 ps Hap.
      destruct (negb (swidth (d_header_prefix d level) =? e_prefix sz)); [discriminate|].
      bind_inv H tp Htp. bind_inv H w Hw. bind_inv H st2 H2. bind_inv H pp Hpp.
      destruct pp as [sub st3]. bind_inv H st4 H4. bind_inv H st5 H5. bind_inv H st6 H6.
      eapply Y_styled; [exact Hap| |exact H].
      assert (CM : child_meta d (IHeader level cs, sty) m (g_style d sty m))
        by (apply cm_plain; reflexivity).
      eapply Y_prefixed; [exact Htp| |exact Hpp|].
      + intros Mt. eapply Y_kids; [exact IH| |exact H2]. intros k Hk.
        eapply HR_child; [exact HQ_|apply cm_sub; rewrite Mt; exact CM|
                          cbn [fst rkids]; apply in_map, Hk].
      + intros Hq.
        assert (Hp : str_R R (d_header_prefix d level) (m_ann (g_style d sty m))).
        { eapply str_struct_of; [exact HQ_|exact CM|]. intros x Hx. cbn [fst struct_char]. auto. }
        eapply stY_trans; [yapply Y_start_block; exact H4|].
        eapply stY_trans; [|eapply Y_end_block, H6].
        yapply Y_append_subrender; [exact Hp|exact Hp| |exact Hq|exact H5].
        eapply Bd_struct_of; [exact HQ_|exact CM|]. intros sg. cbn [fst struct_char]. right. exists sg. reflexivity.
    - (* IDiv *)
      start H sz ap st1 ps Hap. bind_inv H a H1. bind_inv H b H2. bind_inv H c H3.
      eapply Y_styled; [exact Hap| |exact H].
      eapply stY_trans; [yapply Y_new_line; exact H1|].
      eapply stY_trans; [|yapply Y_new_line; exact H3].
      eapply Y_kids; [exact IH| |exact H2]. intros k Hk. kid_plain HQ_ Hk.
    - (* IBlockQuote *)
      start H sz ap st1 ps Hap.
      destruct (negb (e_prefix sz =? swidth (d_quote_prefix d))); [discriminate|].
      bind_inv H iw Hiw.
      bind_inv H tp Htp. bind_inv H w Hw. bind_inv H st2 H2. bind_inv H pp Hpp.
      destruct pp as [sub st3]. bind_inv H st4 H4. bind_inv H st5 H5. bind_inv H st6 H6.
      eapply Y_styled; [exact Hap| |exact H].
      assert (CM : child_meta d (IBlockQuote cs, sty) m (g_style d sty m))
        by (apply cm_plain; reflexivity).
      eapply Y_prefixed; [exact Htp| |exact Hpp|].
      + intros Mt. eapply Y_kids; [exact IH| |exact H2]. intros k Hk.
        eapply HR_child; [exact HQ_|apply cm_sub; rewrite Mt; exact CM|
                          cbn [fst rkids]; apply in_map, Hk].
      + intros Hq.
        assert (Hp : str_R R (d_quote_prefix d) (m_ann (g_style d sty m))).
        { eapply str_struct_of; [exact HQ_|exact CM|]. intros x Hx. cbn [fst struct_char]. auto. }
        eapply stY_trans; [yapply Y_start_block; exact H4|].
        eapply stY_trans; [|eapply Y_end_block, H6].
        yapply Y_append_subrender; [exact Hp|exact Hp| |exact Hq|exact H5].
        eapply Bd_struct_of; [exact HQ_|exact CM|]. intros sg. cbn [fst struct_char]. right. exists sg. reflexivity.
    - (* IUl *)
      start H sz ap st1 ps Hap. bind_inv H st2 H2.
      eapply Y_styled; [exact Hap| |exact H].
      assert (CM : child_meta d (IUl cs, sty) m (g_style d sty m))
        by (apply cm_plain; reflexivity).
      revert H2.
      apply (fold_bind_inv (fun a => stY R (g_style d sty m) (g_style d sty m) st1 a)
               (fun item s =>
                  do inner_width <- usub 22 (e_min sz) (swidth (d_ul_prefix d));
                  do tp <- top s;
                  do w <- width_minus tp (swidth (d_ul_prefix d)) inner_width;
                  do s2 <- render_node d mw item (push_sub s (new_sub_renderer tp w));
                  do pp <- pop_sub s2;
                  let '(sub, s3) := pp in
                  with_top s3 (fun t => append_subrender t sub (d_ul_prefix d)
                     (repeat_chr (spacel L_prefix) (N.to_nat (swidth (d_ul_prefix d))))))
               cs); [|apply stY_refl].
      intros item Hitem a a' Ra Hstep. eapply stY_trans; [exact Ra|].
      bind_inv Hstep iw Hiw. bind_inv Hstep tp Htp. bind_inv Hstep w Hw.
      bind_inv Hstep s2 Hs2. bind_inv Hstep pp Hpp. destruct pp as [sub s3].
      rewrite Forall_forall in IH.
      eapply Y_prefixed; [exact Htp| |exact Hpp|].
      + intros Mt. apply (IH item Hitem _ _ _); [|exact Hs2].
        eapply HR_child; [exact HQ_|apply cm_sub; rewrite Mt; exact CM|
                          cbn [fst rkids]; apply in_map, Hitem].
      + intros Hq. yapply Y_append_subrender; [| | |exact Hq|exact Hstep].
        * eapply str_struct_of; [exact HQ_|exact CM|]. intros x Hx. cbn [fst struct_char]. auto.
        * eapply str_struct_of; [exact HQ_|exact CM|]. intros x Hx. cbn [fst struct_char].
          apply in_repeat_chr in Hx. auto.
        * eapply Bd_struct_of; [exact HQ_|exact CM|]. intros sg. cbn [fst struct_char].
          right. right. exists sg. reflexivity.
    - (* IOl *)
      start H sz ap st1 ps Hap. bind_inv H r Hr.
      eapply Y_styled; [exact Hap| |exact H].
      assert (CM : child_meta d (IOl start cs, sty) m (g_style d sty m))
        by (apply cm_plain; reflexivity).
      set (pw := N.max (swidth (d_ol_prefix d start))
                       (swidth (d_ol_prefix d (isat64 (isat64 (start + Z.of_nat (length cs)) - 1))))) in *.
      assert (Hr' : fold_left (fun acc item => do si <- acc; ol_step d mw sz pw item si) cs
                              (Ok (st1, start)) = Ok r) by exact Hr.
      revert Hr'.
      apply (fold_bind_inv (fun a => stY R (g_style d sty m) (g_style d sty m) st1 (fst a))
               (ol_step d mw sz pw) cs); [|apply stY_refl].
      intros item Hitem [s i0] a' Ra Hstep. cbn [fst] in Ra. eapply stY_trans; [exact Ra|].
      unfold ol_step in Hstep.
      bind_inv Hstep iw Hiw. bind_inv Hstep tp Htp. bind_inv Hstep w Hw.
      bind_inv Hstep s2 Hs2. bind_inv Hstep pp Hpp. destruct pp as [sub s3].
      bind_inv Hstep s4 H4. ok_inv Hstep. cbn [fst].
      rewrite Forall_forall in IH.
      eapply Y_prefixed; [exact Htp| |exact Hpp|].
      + intros Mt. apply (IH item Hitem _ _ _); [|exact Hs2].
        eapply HR_child; [exact HQ_|apply cm_sub; rewrite Mt; exact CM|
                          cbn [fst rkids]; apply in_map, Hitem].
      + intros Hq. yapply Y_append_subrender; [| | |exact Hq|exact H4].
        * eapply str_struct_of; [exact HQ_|exact CM|]. intros x Hx. cbn [fst struct_char].
          unfold pad_width in Hx. apply in_app_or in Hx. destruct Hx as [Hx|Hx]; [left; exists i0; exact Hx|].
          apply in_repeat_chr in Hx. auto.
        * eapply str_struct_of; [exact HQ_|exact CM|]. intros x Hx. cbn [fst struct_char].
          unfold pad_chars in Hx. cbn [app] in Hx. apply in_repeat_chr in Hx. auto.
        * eapply Bd_struct_of; [exact HQ_|exact CM|]. intros sg. cbn [fst struct_char].
          right. right. exists sg. reflexivity.
    - (* IDl *)
      start H sz ap st1 ps Hap. bind_inv H st2 H2. bind_inv H st3 H3.
      eapply Y_styled; [exact Hap| |exact H].
      eapply stY_trans; [yapply Y_start_block; exact H2|].
      eapply Y_kids; [exact IH| |exact H3]. intros k Hk. kid_plain HQ_ Hk.
    - (* IDt *)
      start H sz ap st1 ps Hap. bind_inv H st2 H2.
      bind_inv H a H1. bind_inv H b H3. bind_inv H c H4.
      eapply Y_styled; [exact Hap| |exact H].
      eapply stY_trans; [yapply Y_new_line; exact H2|].
      eapply (Y_deco (d_em_start d) (d_em_end d)); [exact IH| | | |exact H1|exact H3|exact H4].
      + own_txt HQ_.
      + own_txt HQ_.
      + intros k Hk. kid_own HQ_ Hk.
    - (* IDd *)
      start H sz ap st1 ps Hap. bind_inv H iw Hiw.
      bind_inv H tp Htp. bind_inv H w Hw. bind_inv H st2 H2. bind_inv H pp Hpp.
      destruct pp as [sub st3]. bind_inv H st4 H4.
      eapply Y_styled; [exact Hap| |exact H].
      assert (CM : child_meta d (IDd cs, sty) m (g_style d sty m))
        by (apply cm_plain; reflexivity).
      eapply Y_prefixed; [exact Htp| |exact Hpp|].
      + intros Mt. eapply Y_kids; [exact IH| |exact H2]. intros k Hk.
        eapply HR_child; [exact HQ_|apply cm_sub; rewrite Mt; exact CM|
                          cbn [fst rkids]; apply in_map, Hk].
      + intros Hq.
        assert (Hp : str_R R (ptext [32; 32]) (m_ann (g_style d sty m))).
        { eapply str_struct_of; [exact HQ_|exact CM|]. intros x Hx. cbn [fst struct_char]. auto. }
        yapply Y_append_subrender; [exact Hp|exact Hp| |exact Hq|exact H4].
        eapply Bd_struct_of; [exact HQ_|exact CM|]. intros sg. cbn [fst struct_char]. right. exists sg. reflexivity.
    - (* IBreak *)
      start H sz ap st1 ps Hap. bind_inv H st2 H2.
      eapply Y_styled; [exact Hap| |exact H].
      yapply Y_new_line_hard; exact H2.
    - (* ITable *)
      start H sz ap st1 ps Hap.
      bind_inv H col_sizes Hcs. bind_inv H tp Htp.
      set (vr := o_raw (sopts tp)
                 || ((swidth_ tp <? sumN (map e_min col_sizes) + (N.of_nat (length col_sizes) - 1))
                     || (swidth_ tp =? 0))) in *.
      bind_inv H col_widths Hcw. bind_inv H st2 H2. bind_inv H st3 H3. bind_inv H st_rows Hrows.
      eapply Y_styled; [exact Hap| |exact H].
      assert (CM : child_meta d (ITable rows ncols, sty) m (g_style d sty m))
        by (apply cm_plain; reflexivity).
      eapply stY_trans; [yapply Y_start_block; exact H2|].
      eapply stY_trans.
      { match type of H3 with (if ?c then _ else _) = _ => destruct c end.
        - yapply Y_border; [|exact H3].
          eapply Bd_struct_of; [exact HQ_|exact CM|]. intros sg. cbn [fst struct_char]. exists sg. reflexivity.
        - ok_inv H3. apply stY_refl. }
      assert (Hrows' : fold_left (fun acc r => do s <- acc; row_body d mw vr col_widths r s) rows
                                 (Ok st3) = Ok st_rows) by exact Hrows.
      revert Hrows'.
      apply (fold_bind_inv (fun a => stY R (g_style d sty m) (g_style d sty m) st3 a)
               (row_body d mw vr col_widths) rows); [|apply stY_refl].
      intros r Hr a a' Ra Hstep. eapply stY_trans; [exact Ra|].
      apply Forall_flat_map in IH. rewrite Forall_forall in IH. specialize (IH r Hr).
      unfold row_kids in IH. apply Forall_flat_map in IH.
      eapply Y_row_body; [exact IH| |exact Hstep].
      eapply HR_child; [exact HQ_|exact CM|cbn [fst rkids]; apply in_map, Hr].
    - (* ITableBody *) bind_inv H sz Hsz. bind_inv H ap Hap. destruct ap. discriminate.
    - (* ITableRow *) bind_inv H sz Hsz. bind_inv H ap Hap. destruct ap. discriminate.
    - (* ITableCell *) bind_inv H sz Hsz. bind_inv H ap Hap. destruct ap. discriminate.
    - (* IFragStart *)
      start H sz ap st1 ps Hap. bind_inv H st2 H2.
      eapply Y_styled; [exact Hap| |exact H].
      yapply Y_record_frag_start. exact H2.
    - (* IListItem *)
      start H sz ap st1 ps Hap. bind_inv H a H1. bind_inv H b H2. bind_inv H c H3.
      eapply Y_styled; [exact Hap| |exact H].
      eapply stY_trans; [yapply Y_start_block; exact H1|].
      eapply stY_trans; [|eapply Y_end_block, H3].
      eapply Y_kids; [exact IH| |exact H2]. intros k Hk. kid_plain HQ_ Hk.
    - (* ISup *)
      start H sz ap st1 ps Hap.
      destruct (sup_digits cs) as [digitstr|] eqn:Ed.
      + bind_inv H st2 H2. eapply Y_styled; [exact Hap| |exact H].
        yapply Y_inline_text; [|exact H2].
        eapply Tm_of; [exact HQ_|apply cm_plain; cbn [own_ann]; rewrite Ed; reflexivity|].
        cbn [fst own_texts]. rewrite Ed. left. reflexivity.
      + bind_inv H a H1. bind_inv H b H2. bind_inv H c H3.
        eapply Y_styled; [exact Hap| |exact H].
        assert (CM : child_meta d (ISup cs, sty) m (m_push (snd (d_sup_start d)) (g_style d sty m)))
          by (apply cm_own; cbn [own_ann]; rewrite Ed; reflexivity).
        eapply (Y_deco (d_sup_start d) (d_sup_end d));
          [exact IH| | | |exact H1|exact H2|exact H3].
        * eapply Tm_of; [exact HQ_|exact CM|]. cbn [fst own_texts]. rewrite Ed. cbn [In]. auto.
        * eapply Tm_of; [exact HQ_|exact CM|]. cbn [fst own_texts]. rewrite Ed. cbn [In]. auto.
        * intros k Hk. eapply HR_child; [exact HQ_|exact CM|].
          cbn [fst rkids]. rewrite Ed. apply in_map, Hk.
  Qed.
End TreeR.

(* ================================================================== *)
(* 6. Main theorems                                                     *)
(* ================================================================== *)

(* (1) THE PREDICATE TRANSFORMER at character level.  R is any relation "character c may carry
   tag t" that is closed under tag_eqb (pieces with tag_eqb tags are merged), allows the empty
   tag on a padding space, and contains the (character, tag) pairs of the paths of n.  Then
   "every character stored in the top sub-renderer is R-related to the tag of its piece" is
   kept by render_node.  All node kinds, no hypotheses on tree, decorator, options, state. *)
Theorem render_node_chars : forall (R : chr -> tag -> Prop) d mw n st st' s rest,
  (forall c t t', tag_eqb t' t = true -> R c t -> R c t') ->
  R (spacel L_pad) [] ->
  (forall c t, tree_ct d (ann_stack s) (0 <? pre_depth s) (pe_of n) c t -> R c t) ->
  render_node d mw n st = Ok st' -> stack st = s :: rest -> sub_R R s ->
  exists s', stack st' = s' :: rest /\ meta_of s' = meta_of s /\ sub_R R s'.
Proof.
  intros R d mw n st st' s rest Rteq Rnil HR_ H E Hs.
  destruct (node_Y_all R Rteq Rnil d mw n (meta_of s) st st' HR_ H s rest E eq_refl) as (s' & E' & M & K).
  exists s'. auto.
Qed.
Print Assumptions render_node_chars.

(* the footnote list render_tree appends: characters labelled L_foot with the tag [ADefault] *)
Section FootR.
  Variable R : chr -> tag -> Prop.
  Hypothesis Rteq : forall c t t', tag_eqb t' t = true -> R c t -> R c t'.
  Hypothesis Rpad_nil : R (spacel L_pad) [].
  Hypothesis Rfoot : forall c, lab c = L_foot -> R c [ADefault].

  Definition foot_txt (s : text) : Prop := Forall (fun c => lab c = L_foot) s.
  Lemma foot_str s : foot_txt s -> str_R R s [ADefault].
  Proof. unfold foot_txt, str_R. apply Forall_impl. exact Rfoot. Qed.

  Lemma fl_chars_R : forall cs s buf wl pos,
    sub_R R s -> tl_R R wl -> foot_txt buf -> foot_txt cs ->
    sub_R R (fst (fst (fst (fl_chars s [ADefault] cs buf wl pos)))) /\
    foot_txt (snd (fst (fst (fl_chars s [ADefault] cs buf wl pos)))) /\
    tl_R R (snd (fst (fl_chars s [ADefault] cs buf wl pos))).
  Proof.
    induction cs as [|c cs IH]; intros s buf wl pos Hs Hw Hb Hc; cbn [fl_chars]; [auto|].
    inversion Hc as [|? ? Hc1 Hc2]; subst.
    destruct (swidth_ s <? pos + cw0 c).
    - apply IH; [|apply tl_new_R|constructor; [exact Hc1|constructor]|exact Hc2].
      apply add_line_R; [exact Rteq|exact Hs|]. cbn [rline_R].
      destruct buf; [exact Hw|apply tl_push_str_R; [exact Rteq|exact Hw|apply foot_str, Hb]].
    - apply IH; [exact Hs|exact Hw| |exact Hc2]. apply Forall_app. split; [exact Hb|].
      constructor; [exact Hc1|constructor].
  Qed.

  Lemma foot_nl s : foot_txt s -> foot_txt (nl_to_space s).
  Proof.
    unfold foot_txt, nl_to_space. intros H. apply Forall_forall. intros c Hc.
    apply in_map_iff in Hc. destruct Hc as (x & <- & Hx). rewrite Forall_forall in H.
    destruct (cp x =? 10); [reflexivity|apply H, Hx].
  Qed.

  Lemma fl_strings_R : forall strs s wl pos,
    sub_R R s -> tl_R R wl -> Forall (fun p => foot_txt (fst p)) strs ->
    sub_R R (fst (fl_strings s strs wl pos)) /\ tl_R R (snd (fl_strings s strs wl pos)).
  Proof.
    induction strs as [|[str tg] strs IH]; intros s wl pos Hs Hw Hf; cbn [fl_strings]; [auto|].
    inversion Hf as [|? ? Hf1 Hf2]; subst. cbn [fst] in Hf1. apply foot_nl in Hf1.
    destruct (o_wrap_links (sopts s) && (swidth_ s <? pos + swidth (nl_to_space str))).
    - pose proof (fl_chars_R (nl_to_space str) s [] wl pos Hs Hw (Forall_nil _) Hf1) as (A & B & C).
      destruct (fl_chars s [ADefault] (nl_to_space str) [] wl pos) as [[[s1 buf] wl1] pos1].
      cbn [fst snd] in A, B, C. apply IH; [exact A| |exact Hf2].
      apply tl_push_str_R; [exact Rteq|exact C|apply foot_str, B].
    - apply IH; [exact Hs| |exact Hf2]. apply tl_push_str_R; [exact Rteq|exact Hw|apply foot_str, Hf1].
  Qed.

  Definition foot_line (l : tline) : Prop := Forall (fun p => foot_txt (fst p)) (tl_tagged_strings l).

  Lemma fmt_links_R : forall links s, sub_R R s -> Forall foot_line links -> sub_R R (fmt_links s links).
  Proof.
    induction links as [|l links IH]; intros s Hs Hl; cbn [fmt_links]; [exact Hs|].
    inversion Hl as [|? ? Hl1 Hl2]; subst.
    pose proof (fl_strings_R (tl_tagged_strings l) s tl_new 0 Hs (tl_new_R R) Hl1) as [A B].
    destruct (fl_strings s (tl_tagged_strings l) tl_new 0) as [s1 wl]. cbn [fst snd] in A, B.
    apply IH; [|exact Hl2]. apply add_line_R; [exact Rteq|exact A|exact B].
  Qed.
End FootR.

Lemma foot_of_asciil l : foot_txt (of_asciil L_foot l).
Proof.
  unfold foot_txt. apply Forall_forall. intros c Hc. unfold of_asciil in Hc.
  apply in_map_iff in Hc. destruct Hc as (x & <- & _). reflexivity.
Qed.
Lemma foot_relabel t : foot_txt (relabel L_foot t).
Proof.
  unfold foot_txt. apply Forall_forall. intros c Hc. unfold relabel in Hc.
  apply in_map_iff in Hc. destruct Hc as (x & <- & _). reflexivity.
Qed.
Lemma finalise_from_foot : forall urls k, Forall foot_line (finalise_from k urls).
Proof.
  induction urls as [|u urls IH]; intros k; cbn [finalise_from]; constructor; [|apply IH].
  unfold foot_line, tl_from_string, tl_tagged_strings. cbn [tv flat_map app]. constructor; [|constructor].
  cbn [fst]. apply Forall_app. split; [apply foot_of_asciil|apply foot_relabel].
Qed.

(* (2) THE WHOLE TREE.  Every character in the result of render_tree, with the tag of its
   piece, is
     - a padding space with the empty tag (pad_block_width, no pending space), or
     - a character of the footnote list (label L_foot) with the tag [ADefault], or
     - made for the node at the end of a path p from the root (char_tag):
         * inline text of the node (its own characters; strike marks; collapsed spaces / padding
           with the tag of a whitespace character of that text):
               enclosing_anns d p,  + Preformat(first|cont) iff a node of p is <pre>;
         * block structure of the node (prefix, border, bar, separator, cell padding):
               enclosing_anns d p,  never Preformat;
         * the footnote reference of a link: enclosing_anns of the link's ancestors + the colours
           of the link's style (the Link annotation is already popped), + Preformat in <pre>;
   up to tag_eqb (TaggedLine merges pieces whose tags are tag_eqb, keeping the first). *)
Definition root_ct (d : deco) (tree : rnode) (c : chr) (t : tag) : Prop :=
  (c = spacel L_pad /\ t = []) \/ (lab c = L_foot /\ t = [ADefault]) \/
  exists p, path_from (pe_of tree) p /\ char_tag d [] false p c t.

Theorem render_tree_chars : forall d mw o width tree s,
  render_tree d mw o width tree = Ok s -> sub_R (teq (root_ct d tree)) s.
Proof.
  intros d mw o width tree s H. unfold render_tree in H. bind_inv H e He. bind_inv H st Hst.
  set (R := teq (root_ct d tree)).
  assert (Rteq : forall c t t', tag_eqb t' t = true -> R c t -> R c t') by (intros c t t'; apply teq_closed).
  assert (Rnil : R (spacel L_pad) []) by (apply teq_intro; left; auto).
  assert (K0 : sub_R R (sub_new width o))
    by (unfold sub_R, sub_new; cbn; repeat split; constructor).
  destruct (render_node_chars R d mw tree (mkrst [sub_new width o] []) st
              (sub_new width o) [] Rteq Rnil) as (s0 & E & M & K); [|exact Hst|reflexivity|exact K0|].
  { intros c t Ht. apply teq_intro. right. right. exact Ht. }
  rewrite E in H. destruct (sub_finalise s0 (links st)) as [|l ls] eqn:Ef.
  - ok_inv H. exact K.
  - bind_inv H s1 H1. ok_inv H.
    assert (Rfoot : forall c, lab c = L_foot -> R c [ADefault])
      by (intros c Hc; apply teq_intro; right; left; auto).
    apply (fmt_links_R R Rteq Rfoot (l :: ls) s1).
    + eapply (start_block_R R Rteq Rnil); eassumption.
    + rewrite <- Ef. unfold sub_finalise. destruct (o_footnotes (sopts s0)); [apply finalise_from_foot|constructor].
Qed.
Print Assumptions render_tree_chars.

(* ... as seen in the lines of the output (what lines_from_read returns) *)
Theorem render_tree_line_chars : forall d mw o width tree s ls,
  render_tree d mw o width tree = Ok s -> sub_into_lines s = Ok ls ->
  forall l, In l ls -> forall c t, In (c, t) (tl_pairs (rline_into_tagged l)) ->
  teq (root_ct d tree) c t.
Proof.
  intros d mw o width tree s ls H Hl l Hin c t Hp.
  pose proof (render_tree_chars _ _ _ _ _ _ H) as K.
  assert (Rteq : forall c t t', tag_eqb t' t = true -> teq (root_ct d tree) c t -> teq (root_ct d tree) c t')
    by (intros c0 t0 t'; apply teq_closed).
  assert (Rnil : teq (root_ct d tree) (spacel L_pad) []) by (apply teq_intro; left; auto).
  pose proof (sub_into_lines_R _ Rteq Rnil s ls K Hl) as F.
  rewrite Forall_forall in F. eapply rline_R_pairs; [apply F, Hin|exact Hp].
Qed.
Print Assumptions render_tree_line_chars.

(* ================================================================== *)
(* 7. Corollaries in the words of property C09                          *)
(* ================================================================== *)

(* ---- 7.1 the public routes ---- *)
Lemma tl_string_pieces l : tl_string l = flat_map fst (tl_tagged_strings l).
Proof.
  unfold tl_string, tl_tagged_strings. induction (tv l) as [|e v IH]; [reflexivity|].
  cbn [flat_map]. rewrite flat_map_app, IH. destruct e; cbn [elem_text flat_map fst app];
    rewrite ?app_nil_r; reflexivity.
Qed.

Section RoutesC09.
  Variable ist : list (text * text) -> res (list styledecl).
  Variable dr : list node -> res (list ruleset).

  (* every character of every line lines_from_read returns carries a tag of root_ct *)
  Theorem c09_lines_from_read_chars : forall cfg doc w ls,
    lines_from_read ist dr cfg doc w = Ok ls ->
    exists tree, to_render_tree ist dr cfg doc = Ok tree /\
      forall l, In l ls -> forall c t, In (c, t) (tl_pairs l) -> teq (root_ct (c_deco cfg) tree) c t.
  Proof.
    intros cfg doc w ls H. unfold lines_from_read in H. bind_inv H tree Ht. bind_inv H s Hs.
    bind_inv H rls Hl. ok_inv H. exists tree. split; [exact Ht|].
    unfold render_with_context in Hs. destruct (w =? 0); [discriminate|].
    intros l Hin c t Hp. apply in_map_iff in Hin. destruct Hin as (r & <- & Hr).
    eapply render_tree_line_chars; eassumption.
  Qed.

  (* GOAL (D): "concatenating the pieces of each line gives the same text as string output with
     the same configuration": one equation for every configuration, document, width and outcome
     (re-export of ApiProofs.routes_agree = Props/C10, with the pieces spelled out) *)
  Theorem c09_pieces_concat : forall cfg doc w,
    string_from_read ist dr cfg doc w =
    (do ls <- lines_from_read ist dr cfg doc w;
     Ok (flat_map (fun l => flat_map fst (tl_tagged_strings l) ++ [newline_chr]) ls)).
  Proof.
    intros cfg doc w. rewrite (routes_agree ist dr).
    destruct (lines_from_read ist dr cfg doc w) as [ls| | |]; cbn [bind]; try reflexivity.
    f_equal. unfold join_lines. apply flat_map_ext. intros l. rewrite tl_string_pieces. reflexivity.
  Qed.
End RoutesC09.
Print Assumptions c09_lines_from_read_chars.
Print Assumptions c09_pieces_concat.

(* ---- 7.2 document characters: exactly the annotations of the enclosing elements ---- *)
(* Side condition on the decorator: the characters of its list / quote / heading prefixes are
   renderer-made (label < 16), as for the three decorators of the crate.  Needed because a
   decorator is free to choose its prefix strings: a document-labelled character in a prefix
   would carry the block's tag, not a text's. *)
Definition prefix_made (d : deco) : Prop :=
  (forall l c, In c (d_header_prefix d l) -> lab c <? 16 = true) /\
  (forall c, In c (d_quote_prefix d) -> lab c <? 16 = true) /\
  (forall c, In c (d_ul_prefix d) -> lab c <? 16 = true) /\
  (forall k c, In c (d_ol_prefix d k) -> lab c <? 16 = true).

Lemma lab_of_asciil lb l c : In c (of_asciil lb l) -> lab c = lb.
Proof. unfold of_asciil. intros H. apply in_map_iff in H. destruct H as (x & <- & _). reflexivity. Qed.

Lemma hashes_lab n c : In c (hashes n) -> lab c <? 16 = true.
Proof.
  unfold hashes. intros H. apply in_app_or in H. destruct H as [H|H].
  - apply in_repeat_chr in H. subst. reflexivity.
  - apply lab_of_asciil in H. rewrite H. reflexivity.
Qed.
Lemma ptext_lab l c : In c (ptext l) -> lab c <? 16 = true.
Proof. intros H. apply lab_of_asciil in H. rewrite H. reflexivity. Qed.

Lemma prefix_made_rich : prefix_made rich_deco.
Proof.
  split; [intros l c H; exact (hashes_lab l c H)|]. split; [intros c H; exact (ptext_lab [62; 32] c H)|].
  split; [intros c H; exact (ptext_lab [42; 32] c H)|]. intros k c H. exact (ptext_lab _ c H).
Qed.
Lemma prefix_made_plain : prefix_made plain_deco.
Proof.
  split; [intros l c H; exact (hashes_lab l c H)|]. split; [intros c H; exact (ptext_lab [62; 32] c H)|].
  split; [intros c H; exact (ptext_lab [42; 32] c H)|]. intros k c H. exact (ptext_lab _ c H).
Qed.
Lemma prefix_made_trivial : prefix_made trivial_deco.
Proof. unfold prefix_made. cbn. repeat split; intros; contradiction. Qed.

(* c is a character of a text the node at the end of p adds itself *)
Definition own_at (d : deco) (p : list pe) (c : chr) : Prop := own_char d (fst (last_pe p)) c.

(* tag t is, up to tag_eqb, the tag of inline text at the end of path p *)
Definition leaf_tag (d : deco) (p : list pe) (t : tag) : Prop :=
  exists t0, tag_eqb t t0 = true /\ with_pre d (path_pre p) (enclosing_anns d p) t0.

Lemma seg_lab sg : lab (seg_char sg) = L_border.
Proof. destruct sg; reflexivity. Qed.

(* Every DOCUMENT character (label >= 16) in the output is a character of a text of the node at
   the end of some root path p -- a text leaf, an image's text, <sup>digits</sup> (or a
   decorator affix, should a decorator put document characters there) -- and its tag is exactly
   enclosing_anns d p, outermost first, + Preformat(first|cont) iff some node of p is <pre>. *)
Theorem doc_char_tag : forall d tree c t,
  teq (root_ct d tree) c t -> (16 <=? lab c) = true -> prefix_made d ->
  exists p, path_from (pe_of tree) p /\ own_at d p c /\ leaf_tag d p t.
Proof.
  intros d tree c t (t0 & E & Hr) Hdoc (PM1 & PM2 & PM3 & PM4).
  assert (Hno : forall x, c = x -> (16 <=? lab x) = false -> False) by (intros x -> Hx; congruence).
  destruct Hr as [[-> _]|[[Hl _]|(p & Hp & Hc)]].
  - exfalso. eapply Hno; reflexivity.
  - exfalso. rewrite Hl in Hdoc. discriminate.
  - destruct Hc as [[Hi Ht]|[[Hs Ht]|(Hl & Hm & Ht)]].
    + destruct Hi as [Ho|[[-> _]|[[-> | ->] _]]]; try (exfalso; eapply Hno; reflexivity).
      exists p. split; [exact Hp|]. split; [exact Ho|]. exists t0. split; [exact E|].
      cbn [orb app] in Ht. exact Ht.
    + exfalso.
      assert (Hseg : is_seg c -> False).
      { intros [sg ->]. rewrite seg_lab in Hdoc. discriminate. }
      assert (Hpm : lab c <? 16 = true -> False) by lia.
      destruct (fst (last_pe p)); cbn [struct_char] in Hs; try contradiction.
      * destruct Hs as [Hs|Hs]; [eapply Hpm, PM1, Hs|auto].
      * destruct Hs as [Hs|Hs]; [eapply Hpm, PM2, Hs|auto].
      * destruct Hs as [Hs|[Hs|Hs]]; [eapply Hpm, PM3, Hs|eapply Hno; [exact Hs|reflexivity]|auto].
      * destruct Hs as [[k Hs]|[Hs|Hs]]; [eapply Hpm, PM4, Hs|eapply Hno; [exact Hs|reflexivity]|auto].
      * destruct Hs as [Hs|Hs]; [eapply Hpm, ptext_lab, Hs|auto].
      * destruct Hs as [Hs|[Hs|[Hs|Hs]]]; [auto|eapply Hno; [exact Hs|reflexivity]..].
    + exfalso. destruct Hm as [[k Hm]| ->]; [|eapply Hno; reflexivity].
      unfold ftext in Hm. apply lab_of_asciil in Hm. rewrite Hm in Hdoc. discriminate.
Qed.
Print Assumptions doc_char_tag.

(* ---- 7.3 GOAL (A): what each node kind contributes to enclosing_anns ---- *)
Lemma pe_anns_tbl d e : pe_anns d e = style_anns d (snd e) ++ opt_tag (own_ann_tbl d (fst e)).
Proof. unfold pe_anns. rewrite own_ann_tbl_ok. reflexivity. Qed.

(* the annotations enclosing the end of a path, node by node, outermost first: the colours of
   the node's style (foreground, background), then what own_ann_tbl says for its kind *)
Theorem enclosing_anns_tbl : forall d p,
  enclosing_anns d p = flat_map (fun e => style_anns d (snd e) ++ opt_tag (own_ann_tbl d (fst e))) p.
Proof. intros d p. unfold enclosing_anns. apply flat_map_ext. intros e. apply pe_anns_tbl. Qed.

Theorem enclosing_anns_split : forall d p i sty q,
  enclosing_anns d (p ++ (i, sty) :: q) =
  enclosing_anns d p ++ style_anns d sty ++ opt_tag (own_ann_tbl d i) ++ enclosing_anns d q.
Proof.
  intros d p i sty q. rewrite enclosing_anns_app, enclosing_anns_cons, pe_anns_tbl.
  cbn [fst snd]. rewrite <- !app_assoc. reflexivity.
Qed.

(* every enclosing node contributes, and nothing else does *)
Theorem enclosing_anns_In : forall d p a,
  In a (enclosing_anns d p) <->
  exists e, In e p /\ (In a (style_anns d (snd e)) \/ own_ann_tbl d (fst e) = Some a).
Proof.
  intros d p a. rewrite enclosing_anns_tbl, in_flat_map. split.
  - intros (e & He & Ha). exists e. split; [exact He|]. apply in_app_or in Ha.
    destruct Ha as [Ha|Ha]; [left; exact Ha|right].
    destruct (own_ann_tbl d (fst e)); cbn [opt_tag In] in Ha; [destruct Ha as [->|[]]; reflexivity|destruct Ha].
  - intros (e & He & Ha). exists e. split; [exact He|]. apply in_or_app.
    destruct Ha as [Ha|Ha]; [left; exact Ha|right; rewrite Ha; left; reflexivity].
Qed.

(* the table for the rich decorator, every constructor listed *)
Definition rich_own_ann (i : rinfo) : option ann :=
  match i with
  | ILink href _ => Some (ALink href)
  | IEm _ => Some AEm
  | IStrong _ => Some AStrong
  | IStrikeout _ => Some AStrike
  | ICode _ => Some ACode
  | IImg src _ => Some (AImage src)
  | IDt _ => Some AEm
  | ISup cs => match sup_digits cs with Some _ => None | None => Some ADefault end
  | IText _ | IContainer _ | IBlock _ | IHeader _ _ | IDiv _ | IBlockQuote _ | IUl _ | IOl _ _
  | IDl _ | IDd _ | IBreak | ITable _ _ | ITableBody _ | ITableRow _ | ITableCell _
  | IFragStart _ | IListItem _ => None
  end.
Lemma rich_own_ann_ok i : own_ann_tbl rich_deco i = rich_own_ann i.
Proof. destruct i; reflexivity. Qed.

(* colours (CSS) of a node's style with the rich decorator: foreground, then background *)
Lemma rich_style_anns sty :
  style_anns rich_deco sty =
  match ws_val (c_colour (cs_core sty)) with Some (r, g, b) => [AColour r g b] | None => [] end ++
  match ws_val (c_bg (cs_core sty)) with Some (r, g, b) => [ABg r g b] | None => [] end.
Proof.
  unfold style_anns, col_anns. cbn [d_colours rich_deco].
  destruct (ws_val (c_colour (cs_core sty))) as [[[r g] b]|];
    destruct (ws_val (c_bg (cs_core sty))) as [[[r2 g2] b2]|]; reflexivity.
Qed.

(* Preformat: the continuation flag *)
Lemma rich_with_pre b X t :
  with_pre rich_deco b X t <->
  (if b then t = X ++ [APre false] \/ t = X ++ [APre true] else t = X).
Proof. reflexivity. Qed.

(* ---- 7.4 GOAL (B): independent of line wrapping, block nesting and table cells ---- *)
(* c has one home: every path that has c in an own text has the same enclosing annotations
   (true when the labels of the document's characters are distinct, as the harness makes them;
   a finite check on the tree) *)
Definition unique_home (d : deco) (tree : rnode) (c : chr) : Prop :=
  forall p p', path_from (pe_of tree) p -> path_from (pe_of tree) p' ->
    own_at d p c -> own_at d p' c ->
    enclosing_anns d p' = enclosing_anns d p /\ path_pre p' = path_pre p.

(* The tag of a document character of the text at the end of path p0 is
   enclosing_anns d p0 (+ Preformat) -- a function of the path alone: width, options (padding,
   wrap width, overflow, raw tables, borders, footnotes, ...) and min-wrap do not occur. *)
Theorem leaf_char_tag : forall d mw o width tree s ls p0 c,
  render_tree d mw o width tree = Ok s -> sub_into_lines s = Ok ls ->
  prefix_made d -> (16 <=? lab c) = true ->
  path_from (pe_of tree) p0 -> own_at d p0 c -> unique_home d tree c ->
  forall l t, In l ls -> In (c, t) (tl_pairs (rline_into_tagged l)) -> leaf_tag d p0 t.
Proof.
  intros d mw o width tree s ls p0 c H Hl PM Hdoc Hp0 Ho0 Hu l t Hin Hp.
  pose proof (render_tree_line_chars _ _ _ _ _ _ _ H Hl l Hin c t Hp) as K.
  destruct (doc_char_tag d tree c t K Hdoc PM) as (p & Hpp & Ho & (t0 & E & Ht)).
  destruct (Hu p0 p Hp0 Hpp Ho0 Ho) as [E1 E2]. exists t0. split; [exact E|].
  rewrite <- E1, <- E2. exact Ht.
Qed.
Print Assumptions leaf_char_tag.

Corollary leaf_tags_independent : forall d tree p0 c mw1 o1 w1 s1 ls1 mw2 o2 w2 s2 ls2,
  render_tree d mw1 o1 w1 tree = Ok s1 -> sub_into_lines s1 = Ok ls1 ->
  render_tree d mw2 o2 w2 tree = Ok s2 -> sub_into_lines s2 = Ok ls2 ->
  prefix_made d -> (16 <=? lab c) = true ->
  path_from (pe_of tree) p0 -> own_at d p0 c -> unique_home d tree c ->
  forall l1 t1 l2 t2,
    In l1 ls1 -> In (c, t1) (tl_pairs (rline_into_tagged l1)) ->
    In l2 ls2 -> In (c, t2) (tl_pairs (rline_into_tagged l2)) ->
    leaf_tag d p0 t1 /\ leaf_tag d p0 t2 /\ (path_pre p0 = false -> tag_eqb t1 t2 = true).
Proof.
  intros d tree p0 c mw1 o1 w1 s1 ls1 mw2 o2 w2 s2 ls2 H1 L1 H2 L2 PM Hdoc Hp0 Ho0 Hu
         l1 t1 l2 t2 I1 P1 I2 P2.
  pose proof (leaf_char_tag _ _ _ _ _ _ _ _ _ H1 L1 PM Hdoc Hp0 Ho0 Hu l1 t1 I1 P1) as K1.
  pose proof (leaf_char_tag _ _ _ _ _ _ _ _ _ H2 L2 PM Hdoc Hp0 Ho0 Hu l2 t2 I2 P2) as K2.
  split; [exact K1|]. split; [exact K2|]. intros Hpre.
  destruct K1 as (a & Ea & Ha). destruct K2 as (b & Eb & Hb). rewrite Hpre in Ha, Hb.
  cbn [with_pre] in Ha, Hb. subst a b. eapply tag_eqb_trans; [exact Ea|apply tag_eqb_sym, Eb].
Qed.
Print Assumptions leaf_tags_independent.

(* ---- 7.5 GOAL (C): renderer-made characters ---- *)
(* c is not a character of any text of the tree (document text, decorator affix) *)
Definition own_free (d : deco) (tree : rnode) (c : chr) : Prop :=
  forall p, path_from (pe_of tree) p -> ~ own_at d p c.

Definition teq_tag (t X : tag) : Prop := tag_eqb t X = true.

(* THE EXACT RULE for each kind of renderer-made character. *)
Theorem made_char_tag : forall d tree c t,
  teq (root_ct d tree) c t -> own_free d tree c ->
  (* block padding without a pending space *)
  (c = spacel L_pad /\ t = []) \/
  (* the footnote list *)
  (lab c = L_foot /\ t = [ADefault]) \/
  (* strike marks; collapsed spaces, tab fill, and block padding with a pending space: the tag
     of a (visible resp. whitespace) character c' of a text of the tree -- for padding that text
     may already be closed *)
  (exists p c', path_from (pe_of tree) p /\ own_at d p c' /\ leaf_tag d p t /\
     ((c = strike_chr /\ ws c' = false) \/
      ((c = spacel L_space \/ c = spacel L_pad) /\ ws c' = true))) \/
  (* prefixes (heading, quote, list marker and its continuation indent, dd), table borders, and
     in a row: bars, separators, cell padding: exactly the annotations enclosing the node that
     makes them (its ancestors' and its own colours), never Preformat *)
  (exists p, path_from (pe_of tree) p /\ struct_char d (fst (last_pe p)) c /\
     teq_tag t (enclosing_anns d p)) \/
  (* the footnote reference of a link: the link's ancestors and the link's colours, not Link *)
  (exists p, path_from (pe_of tree) p /\ is_link (fst (last_pe p)) = true /\ marker_char c /\
     exists t0, tag_eqb t t0 = true /\
       with_pre d (path_pre p)
         (enclosing_anns d (removelast p) ++ style_anns d (snd (last_pe p))) t0).
Proof.
  intros d tree c t (t0 & E & Hr) Hfree.
  destruct Hr as [[-> ->]|[[Hl ->]|(p & Hp & Hc)]].
  - left. split; [reflexivity|]. destruct t; [reflexivity|discriminate].
  - right. left. split; [exact Hl|].
    destruct t as [|a t]; [discriminate|]. cbn [tag_eqb] in E. apply andb_true_iff in E.
    destruct E as [E1 E2]. destruct t; [|discriminate]. destruct a; try discriminate. reflexivity.
  - right. right. cbn [orb app] in Hc.
    destruct Hc as [[Hi Ht]|[[Hs Ht]|(Hl & Hm & Ht)]].
    + left. destruct Hi as [Ho|[[-> (c' & Hc' & Hw)]|[Hc0 (c' & Hc' & Hw)]]].
      * exfalso. exact (Hfree p Hp Ho).
      * exists p, c'. repeat split; auto. exists t0. auto.
      * exists p, c'. repeat split; auto. exists t0. auto.
    + right. left. exists p. repeat split; auto. unfold teq_tag. subst t0. exact E.
    + right. right. exists p. repeat split; auto. exists t0. auto.
Qed.
Print Assumptions made_char_tag.

(* in particular: a prefix / border / separator character never carries Preformat or any
   annotation of an element that does not enclose the block that makes it *)
Corollary struct_char_anns : forall d p a,
  In a (enclosing_anns d p) ->
  exists e, In e p /\ (In a (style_anns d (snd e)) \/ own_ann_tbl d (fst e) = Some a).
Proof. intros d p a. apply enclosing_anns_In. Qed.

(* ================================================================== *)
(* 8. The side conditions are decidable: all paths of a tree            *)
(* ================================================================== *)

Fixpoint kid_paths (i : rinfo) : list (list pe) :=
  match i with
  | IText _ | IImg _ _ | IBreak | IFragStart _ => []
  | IContainer cs | ILink _ cs | IEm cs | IStrong cs | IStrikeout cs | ICode cs | IBlock cs
  | IHeader _ cs | IDiv cs | IBlockQuote cs | IUl cs | IOl _ cs | IDl cs | IDt cs | IDd cs
  | IListItem cs => flat_map paths_n cs
  | ISup cs => match sup_digits cs with Some _ => [] | None => flat_map paths_n cs end
  | ITable rows _ => flat_map paths_r rows
  | ITableBody _ => []
  | ITableRow r => match r with RRow cells _ => flat_map paths_c cells end
  | ITableCell c => match c with RCell _ content _ => flat_map paths_n content end
  end
with paths_n (n : rnode) : list (list pe) :=
  match n with RN i sty => [(i, sty)] :: map (cons (i, sty)) (kid_paths i) end
with paths_r (r : rrow) : list (list pe) :=
  match r with
  | RRow cells sty => [(ITableRow r, sty)] :: map (cons (ITableRow r, sty)) (flat_map paths_c cells)
  end
with paths_c (c : rcell) : list (list pe) :=
  match c with
  | RCell _ content sty =>
    [(ITableCell c, sty)] :: map (cons (ITableCell c, sty)) (flat_map paths_n content)
  end.

Definition paths_pe (e : pe) : list (list pe) := [e] :: map (cons e) (kid_paths (fst e)).

Lemma paths_n_pe n : paths_n n = paths_pe (pe_of n).
Proof. destruct n as [i sty]. reflexivity. Qed.
Lemma paths_r_pe r : paths_r r = paths_pe (pe_row r).
Proof. destruct r as [cells sty]. reflexivity. Qed.
Lemma paths_c_pe c : paths_c c = paths_pe (pe_cell c).
Proof. destruct c as [n content sty]. reflexivity. Qed.

Lemma kid_paths_In i k p : In k (rkids i) -> In p (paths_pe k) -> In p (kid_paths i).
Proof.
  intros Hk Hp.
  assert (N_ : forall cs, In k (map pe_of cs) -> In p (flat_map paths_n cs)).
  { intros cs H. apply in_map_iff in H. destruct H as (n & <- & Hn). apply in_flat_map.
    exists n. split; [exact Hn|]. rewrite paths_n_pe. exact Hp. }
  destruct i; cbn [rkids kid_paths] in *; try (destruct Hk; fail); try (apply N_, Hk).
  - apply in_map_iff in Hk. destruct Hk as (r & <- & Hr). apply in_flat_map.
    exists r. split; [exact Hr|]. rewrite paths_r_pe. exact Hp.
  - destruct r as [cells sty]. cbn [row_cells] in Hk. apply in_map_iff in Hk.
    destruct Hk as (c & <- & Hc). apply in_flat_map. exists c. split; [exact Hc|].
    rewrite paths_c_pe. exact Hp.
  - destruct c as [n content sty]. cbn [cell_content] in Hk. apply N_, Hk.
  - destruct (sup_digits cs); [destruct Hk|apply N_, Hk].
Qed.

Lemma path_from_paths e p : path_from e p -> In p (paths_pe e).
Proof.
  induction 1 as [e|e k p Hin Hp IH]; [left; reflexivity|].
  right. apply in_map. eapply kid_paths_In; eassumption.
Qed.

(* the paths whose last node has a character labelled l in an own text *)
Definition has_lab (l : N) (t : text) : bool := existsb (fun c => lab c =? l) t.
Definition homes (d : deco) (tree : rnode) (l : N) : list (list pe) :=
  filter (fun p => existsb (has_lab l) (own_texts d (fst (last_pe p)))) (paths_pe (pe_of tree)).

Lemma own_at_homes d tree p c : path_from (pe_of tree) p -> own_at d p c -> In p (homes d tree (lab c)).
Proof.
  intros Hp (t & Ht & Hc). unfold homes. apply filter_In. split; [apply path_from_paths, Hp|].
  apply existsb_exists. exists t. split; [exact Ht|]. unfold has_lab. apply existsb_exists.
  exists c. split; [exact Hc|apply N.eqb_refl].
Qed.

(* a label that occurs in the texts of at most one path: the character has one home *)
Theorem unique_home_check : forall d tree c,
  (length (homes d tree (lab c)) <=? 1)%nat = true -> unique_home d tree c.
Proof.
  intros d tree c H p p' Hp Hp' Ho Ho'.
  pose proof (own_at_homes d tree p c Hp Ho) as I1. pose proof (own_at_homes d tree p' c Hp' Ho') as I2.
  destruct (homes d tree (lab c)) as [|x [|y l]]; [destruct I1| |discriminate].
  destruct I1 as [<-|[]]. destruct I2 as [<-|[]]. auto.
Qed.

Definition chr_same (c c' : chr) : bool := (cp c =? cp c') && (lab c =? lab c').
Definition own_free_b (d : deco) (tree : rnode) (c : chr) : bool :=
  forallb (fun p => forallb (fun t => negb (existsb (chr_same c) t)) (own_texts d (fst (last_pe p))))
          (paths_pe (pe_of tree)).
Theorem own_free_check : forall d tree c, own_free_b d tree c = true -> own_free d tree c.
Proof.
  intros d tree c H p Hp (t & Ht & Hc). unfold own_free_b in H. rewrite forallb_forall in H.
  specialize (H p (path_from_paths _ _ Hp)). rewrite forallb_forall in H. specialize (H t Ht).
  apply negb_true_iff in H. assert (E : existsb (chr_same c) t = true); [|congruence].
  apply existsb_exists. exists c. split; [exact Hc|]. unfold chr_same. rewrite !N.eqb_refl. reflexivity.
Qed.

(* ================================================================== *)
(* 9. Non-vacuity: a document with every annotating kind, distinct      *)
(*    labels, rich decorator, footnotes on                              *)
(* ================================================================== *)

(* the text with code points l, labelled k, k+1, ... (document characters: k >= 16) *)
Fixpoint lstr_from (k : N) (l : list N) : text :=
  match l with [] => [] | c :: l' => mkchr c (Some 1) (c =? 32) k :: lstr_from (k + 1) l' end.
Definition ltxt (k : N) (l : list N) : rnode := ex_n (IText (lstr_from k l)).
(* per line: (code point, label, tag) of every character *)
Definition obs_pairs (r : res subr) : res (list (list (N * N * tag))) :=
  do s <- r; do ls <- sub_into_lines s;
  Ok (map (fun l => map (fun p => (cp (fst p), lab (fst p), snd p)) (tl_pairs (rline_into_tagged l))) ls).

(* <div style="color:#f00">
     <p>a <em style="background:#00f">b</em></p>
     <blockquote style="color:#0f0"><a href="u">q <code>r</code></a></blockquote>
     <table style="color:#00f"><tr style="background:#ff0">
        <td style="color:#0ff">x</td><td>yy</td></tr></table>
     <ol start=9><li style="color:#0f0">i</li><li>j</li></ol>
     <dl><dt>t</dt><dd>d</dd></dl>
     <h2><strong>h</strong></h2>
     <pre><span style="background:#010203">p  q</span></pre>
     <p><img src="s" alt="t"><sup>12</sup><s>z</s><sup>n</sup></p>
   </div> *)
Definition cx_u : text := lstr_from 200 [117].
Definition cx_src : text := lstr_from 210 [115].
Definition cx_r : rnode := ltxt 35 [114].
Definition cx_code : rnode := ex_n (ICode [cx_r]).
Definition cx_link : rnode := ex_n (ILink cx_u [ltxt 30 [113; 32]; cx_code]).
Definition cx_quote : rnode := RN (IBlockQuote [cx_link]) (sty_fg (0, 255, 0)).
Definition cx_x : rnode := ltxt 40 [120].
Definition cx_cell : rcell := RCell 1 [cx_x] (sty_fg (0, 255, 255)).
Definition cx_row : rrow := RRow [cx_cell; RCell 1 [ltxt 45 [121; 121]] cstyle0] (sty_bg (255, 255, 0)).
Definition cx_table : rnode := RN (ITable [cx_row] 2) (sty_fg (0, 0, 255)).
Definition cx_pq : rnode := RN (IText (lstr_from 80 [112; 32; 32; 113])) (sty_bg (1, 2, 3)).
Definition cx_pre : rnode := RN (IBlock [cx_pq]) ab_pre.
Definition cx_tree : rnode :=
  RN (IDiv
    [ex_n (IBlock [ltxt 16 [97; 32]; RN (IEm [ltxt 20 [98]]) (sty_bg (0, 0, 255))]);
     cx_quote; cx_table;
     ex_n (IOl 9 [RN (IListItem [ltxt 50 [105]]) (sty_fg (0, 255, 0)); ex_n (IListItem [ltxt 55 [106]])]);
     ex_n (IDl [ex_n (IDt [ltxt 60 [116]]); ex_n (IDd [ltxt 65 [100]])]);
     ex_n (IHeader 2 [ex_n (IStrong [ltxt 70 [104]])]);
     cx_pre;
     ex_n (IBlock [ex_n (IImg cx_src (lstr_from 90 [116])); ex_n (ISup [ltxt 95 [49; 50]]);
                   ex_n (IStrikeout [ltxt 100 [122]]); ex_n (ISup [ltxt 105 [110]])])])
    (sty_fg (255, 0, 0)).
Definition cx_opts : ropts := render_options (set_footnotes (with_decorator rich_deco) true).

Definition R_ : ann := AColour 255 0 0.
Example cx_obs :
  obs_pairs (render_tree rich_deco 3 cx_opts 30 cx_tree) =
  Ok [[(97, 16, [R_]); (32, 1, [R_]); (98, 20, [R_; ABg 0 0 255; AEm])];
      [];
      [(62, 3, [R_; AColour 0 255 0]); (32, 3, [R_; AColour 0 255 0]);
       (113, 30, [R_; AColour 0 255 0; ALink cx_u]); (32, 1, [R_; AColour 0 255 0; ALink cx_u]);
       (114, 35, [R_; AColour 0 255 0; ALink cx_u; ACode]);
       (91, 6, [R_; AColour 0 255 0]); (49, 6, [R_; AColour 0 255 0]); (93, 6, [R_; AColour 0 255 0])];
      [];
      [(9472, 4, [R_; AColour 0 0 255]); (9516, 4, [R_; AColour 0 0 255]);
       (9472, 4, [R_; AColour 0 0 255]); (9472, 4, [R_; AColour 0 0 255])];
      [(120, 40, [R_; AColour 0 0 255; ABg 255 255 0; AColour 0 255 255]);
       (9474, 4, [R_; AColour 0 0 255; ABg 255 255 0]);
       (121, 45, [R_; AColour 0 0 255; ABg 255 255 0]); (121, 46, [R_; AColour 0 0 255; ABg 255 255 0])];
      [(9472, 4, [R_; AColour 0 0 255; ABg 255 255 0]); (9524, 4, [R_; AColour 0 0 255; ABg 255 255 0]);
       (9472, 4, [R_; AColour 0 0 255; ABg 255 255 0]); (9472, 4, [R_; AColour 0 0 255; ABg 255 255 0])];
      [(57, 3, [R_]); (46, 3, [R_]); (32, 3, [R_]); (32, 3, [R_]); (105, 50, [R_; AColour 0 255 0])];
      [(49, 3, [R_]); (48, 3, [R_]); (46, 3, [R_]); (32, 3, [R_]); (106, 55, [R_])];
      [];
      [(116, 60, [R_; AEm])];
      [(32, 3, [R_]); (32, 3, [R_]); (100, 65, [R_])];
      [];
      [(35, 3, [R_]); (35, 3, [R_]); (32, 3, [R_]); (104, 70, [R_; AStrong])];
      [];
      [(112, 80, [R_; ABg 1 2 3; APre false]); (32, 1, [R_; ABg 1 2 3; APre false]);
       (32, 1, [R_; ABg 1 2 3; APre false]); (113, 83, [R_; ABg 1 2 3; APre false])];
      [];
      [(116, 90, [R_; AImage cx_src]); (185, 95, [R_]); (178, 96, [R_]);
       (122, 100, [R_; AStrike]); (822, 7, [R_; AStrike]);
       (94, 5, [R_; ADefault]); (123, 5, [R_; ADefault]); (110, 105, [R_; ADefault]);
       (125, 5, [R_; ADefault])];
      [];
      [(91, 6, [ADefault]); (49, 6, [ADefault]); (93, 6, [ADefault]); (58, 6, [ADefault]);
       (32, 6, [ADefault]); (117, 6, [ADefault])]].
Proof. vm_compute. reflexivity. Qed.

Definition cx_s : subr :=
  match render_tree rich_deco 3 cx_opts 30 cx_tree with Ok s => s | _ => sub_new 0 cx_opts end.
Example cx_render_eq : render_tree rich_deco 3 cx_opts 30 cx_tree = Ok cx_s.
Proof. vm_compute. reflexivity. Qed.
Definition cx_ls : list rline := match sub_into_lines cx_s with Ok ls => ls | _ => [] end.
Example cx_lines_eq : sub_into_lines cx_s = Ok cx_ls.
Proof. vm_compute. reflexivity. Qed.

(* the main theorems apply *)
Example cx_chars_applies : sub_R (teq (root_ct rich_deco cx_tree)) cx_s.
Proof. exact (render_tree_chars rich_deco 3 cx_opts 30 cx_tree cx_s cx_render_eq). Qed.
Example cx_line_chars_applies : forall l, In l cx_ls -> forall c t,
  In (c, t) (tl_pairs (rline_into_tagged l)) -> teq (root_ct rich_deco cx_tree) c t.
Proof. exact (render_tree_line_chars rich_deco 3 cx_opts 30 cx_tree cx_s cx_ls cx_render_eq cx_lines_eq). Qed.

Ltac path_tac :=
  repeat match goal with
         | |- path_from _ [_] => apply pf_one
         | |- path_from _ (_ :: ?x :: _) =>
           apply pf_cons with (c := x); [cbn; repeat (first [left; reflexivity|right])|]
         end.

(* the "r" in <div><blockquote><a><code>: path, enclosing annotations (table of section 7.3),
   uniqueness of its label, its line in the output, and leaf_char_tag for it *)
Definition cx_c_r : chr := mkchr 114 (Some 1) false 35.
Definition cx_path_r : list pe :=
  [pe_of cx_tree; pe_of cx_quote; pe_of cx_link; pe_of cx_code; pe_of cx_r].
Example cx_path_r_ok : path_from (pe_of cx_tree) cx_path_r.
Proof. unfold cx_path_r. path_tac. Qed.
Example cx_path_r_anns :
  enclosing_anns rich_deco cx_path_r = [AColour 255 0 0; AColour 0 255 0; ALink cx_u; ACode] /\
  path_pre cx_path_r = false.
Proof. split; reflexivity. Qed.
Example cx_r_own : own_at rich_deco cx_path_r cx_c_r.
Proof. exists [cx_c_r]. split; left; reflexivity. Qed.
Example cx_r_unique : unique_home rich_deco cx_tree cx_c_r.
Proof. apply unique_home_check. vm_compute. reflexivity. Qed.
Example cx_r_in_output :
  exists l, In l cx_ls /\
    In (cx_c_r, [AColour 255 0 0; AColour 0 255 0; ALink cx_u; ACode]) (tl_pairs (rline_into_tagged l)).
Proof.
  eexists. split; [vm_compute; right; right; left; reflexivity|].
  vm_compute. do 4 right. left. reflexivity.
Qed.
Example cx_r_leaf_char_tag : forall l t,
  In l cx_ls -> In (cx_c_r, t) (tl_pairs (rline_into_tagged l)) ->
  tag_eqb t [AColour 255 0 0; AColour 0 255 0; ALink cx_u; ACode] = true.
Proof.
  intros l t Hl Hp.
  destruct (leaf_char_tag rich_deco 3 cx_opts 30 cx_tree cx_s cx_ls cx_path_r cx_c_r
              cx_render_eq cx_lines_eq prefix_made_rich eq_refl cx_path_r_ok cx_r_own cx_r_unique
              l t Hl Hp) as (t0 & E & Ht).
  destruct cx_path_r_anns as [Ea Eb]. rewrite Ea, Eb in Ht. cbn [with_pre] in Ht. subst t0. exact E.
Qed.

(* the "x" in the table cell (div, table, row, cell, text), rendered at two widths, with and
   without padding / raw mode: leaf_tags_independent *)
Definition cx_c_x : chr := mkchr 120 (Some 1) false 40.
Definition cx_path_x : list pe :=
  [pe_of cx_tree; pe_of cx_table; pe_row cx_row; pe_cell cx_cell; pe_of cx_x].
Example cx_path_x_ok : path_from (pe_of cx_tree) cx_path_x.
Proof. unfold cx_path_x. path_tac. Qed.
Example cx_path_x_anns :
  enclosing_anns rich_deco cx_path_x =
  [AColour 255 0 0; AColour 0 0 255; ABg 255 255 0; AColour 0 255 255] /\ path_pre cx_path_x = false.
Proof. split; reflexivity. Qed.
Definition cx_opts2 : ropts := render_options (set_raw (set_pad (with_decorator rich_deco)) true).
Definition cx_s2 : subr :=
  match render_tree rich_deco 5 cx_opts2 11 cx_tree with Ok s => s | _ => sub_new 0 cx_opts end.
Example cx_render_eq2 : render_tree rich_deco 5 cx_opts2 11 cx_tree = Ok cx_s2.
Proof. vm_compute. reflexivity. Qed.
Definition cx_ls2 : list rline := match sub_into_lines cx_s2 with Ok ls => ls | _ => [] end.
Example cx_lines_eq2 : sub_into_lines cx_s2 = Ok cx_ls2.
Proof. vm_compute. reflexivity. Qed.
Example cx_x_independent : forall l1 t1 l2 t2,
  In l1 cx_ls -> In (cx_c_x, t1) (tl_pairs (rline_into_tagged l1)) ->
  In l2 cx_ls2 -> In (cx_c_x, t2) (tl_pairs (rline_into_tagged l2)) ->
  tag_eqb t1 t2 = true.
Proof.
  intros l1 t1 l2 t2 I1 P1 I2 P2.
  refine (proj2 (proj2 (leaf_tags_independent rich_deco cx_tree cx_path_x cx_c_x
            3 cx_opts 30 cx_s cx_ls 5 cx_opts2 11 cx_s2 cx_ls2
            cx_render_eq cx_lines_eq cx_render_eq2 cx_lines_eq2 prefix_made_rich eq_refl
            cx_path_x_ok _ _ l1 t1 l2 t2 I1 P1 I2 P2)) eq_refl).
  - exists [cx_c_x]. split; left; reflexivity.
  - apply unique_home_check. vm_compute. reflexivity.
Qed.

(* inside <pre>: one of the two Preformat variants *)
Definition cx_c_p : chr := mkchr 112 (Some 1) false 80.
Definition cx_path_p : list pe := [pe_of cx_tree; pe_of cx_pre; pe_of cx_pq].
Example cx_p_leaf_char_tag : forall l t,
  In l cx_ls -> In (cx_c_p, t) (tl_pairs (rline_into_tagged l)) ->
  t = [AColour 255 0 0; ABg 1 2 3; APre false] \/ t = [AColour 255 0 0; ABg 1 2 3; APre true].
Proof.
  intros l t Hl Hp.
  assert (P : path_from (pe_of cx_tree) cx_path_p) by (unfold cx_path_p; path_tac).
  assert (O : own_at rich_deco cx_path_p cx_c_p)
    by (exists (lstr_from 80 [112; 32; 32; 113]); split; left; reflexivity).
  assert (U : unique_home rich_deco cx_tree cx_c_p)
    by (apply unique_home_check; vm_compute; reflexivity).
  destruct (leaf_char_tag rich_deco 3 cx_opts 30 cx_tree cx_s cx_ls cx_path_p cx_c_p
              cx_render_eq cx_lines_eq prefix_made_rich eq_refl P O U l t Hl Hp) as (t0 & E & Ht).
  assert (Ht' : t0 = [AColour 255 0 0; ABg 1 2 3; APre false] \/
                t0 = [AColour 255 0 0; ABg 1 2 3; APre true]) by exact Ht.
  clear Ht P O U. destruct Ht' as [Ht'|Ht']; rewrite Ht' in E; [left|right];
    (apply tag_eqb_simple; [reflexivity|exact E]).
Qed.

(* a renderer-made character: the bar between the two cells is not a character of any text,
   made_char_tag classifies it, and its tag is the row's *)
Example cx_vbar_free : own_free rich_deco cx_tree vbar.
Proof. apply own_free_check. vm_compute. reflexivity. Qed.
Example cx_vbar_tag : forall l t,
  In l cx_ls -> In (vbar, t) (tl_pairs (rline_into_tagged l)) ->
  exists p, path_from (pe_of cx_tree) p /\ struct_char rich_deco (fst (last_pe p)) vbar /\
            teq_tag t (enclosing_anns rich_deco p).
Proof.
  intros l t Hl Hp.
  pose proof (made_char_tag rich_deco cx_tree vbar t (cx_line_chars_applies l Hl vbar t Hp) cx_vbar_free) as K.
  clear Hl Hp.
  destruct K as [[E _]|[[E _]|[(p & c' & _ & _ & _ & [[E _]|[[E|E] _]])|[H|(p & _ & _ & [[k Hk]|E] & _)]]]];
    [discriminate E|discriminate E|discriminate E|discriminate E|discriminate E|exact H| |discriminate E].
  unfold ftext in Hk. apply lab_of_asciil in Hk. discriminate Hk.
Qed.

(* the routes: GOAL (D) and the character theorem through lines_from_read, on a DOM *)
Definition cx_ist (attrs : list (text * text)) : res (list styledecl) := Ok [].
Definition cx_dr (doc : list node) : res (list ruleset) := Ok [].
Definition cx_doc : list node :=
  [NElem true (of_ascii [112]) []
     [NText (lstr_from 16 [97; 32]);
      NElem true (of_ascii [101; 109]) [] [NText (lstr_from 20 [98])]]].
Example cx_route_lines :
  (do ls <- lines_from_read cx_ist cx_dr cfg_rich cx_doc 10;
   Ok (map (fun l => map (fun p => (cp (fst p), lab (fst p), snd p)) (tl_pairs l)) ls)) =
  Ok [[(97, 16, []); (32, 1, []); (98, 20, [AEm])]].
Proof. vm_compute. reflexivity. Qed.
Example cx_route_applies : forall ls, lines_from_read cx_ist cx_dr cfg_rich cx_doc 10 = Ok ls ->
  exists tree, to_render_tree cx_ist cx_dr cfg_rich cx_doc = Ok tree /\
    forall l, In l ls -> forall c t, In (c, t) (tl_pairs l) -> teq (root_ct rich_deco tree) c t.
Proof. intros ls H. exact (c09_lines_from_read_chars cx_ist cx_dr cfg_rich cx_doc 10 ls H). Qed.
Example cx_route_concat :
  string_from_read cx_ist cx_dr cfg_rich cx_doc 10 =
  (do ls <- lines_from_read cx_ist cx_dr cfg_rich cx_doc 10;
   Ok (flat_map (fun l => flat_map fst (tl_tagged_strings l) ++ [newline_chr]) ls)).
Proof. exact (c09_pieces_concat cx_ist cx_dr cfg_rich cx_doc 10). Qed.
Print Assumptions unique_home_check.
Print Assumptions own_free_check.

(* ---- per-kind statements for the rich decorator (GOAL (A) in the property's words) ---- *)
Theorem enclosing_anns_rich : forall p,
  enclosing_anns rich_deco p =
  flat_map (fun e => style_anns rich_deco (snd e) ++ opt_tag (rich_own_ann (fst e))) p.
Proof.
  intros p. rewrite enclosing_anns_tbl. apply flat_map_ext. intros e. rewrite rich_own_ann_ok. reflexivity.
Qed.
(* a link contributes Link target, between its ancestors' and its descendants' annotations *)
Corollary rich_link_contributes : forall p href cs sty q,
  enclosing_anns rich_deco (p ++ (ILink href cs, sty) :: q) =
  enclosing_anns rich_deco p ++ style_anns rich_deco sty ++ [ALink href] ++ enclosing_anns rich_deco q.
Proof. intros. apply enclosing_anns_split. Qed.
(* an image's text gets Image src on top of the enclosing chain *)
Corollary rich_image_contributes : forall p src title sty,
  enclosing_anns rich_deco (p ++ [(IImg src title, sty)]) =
  enclosing_anns rich_deco p ++ style_anns rich_deco sty ++ [AImage src].
Proof. intros. rewrite enclosing_anns_split. cbn [enclosing_anns flat_map opt_tag own_ann_tbl rich_deco d_image snd]. rewrite app_nil_r. reflexivity. Qed.
(* headings, list items, table rows and cells, dd, blocks: only their colours *)
Corollary rich_block_contributes : forall p i sty q,
  rich_own_ann i = None ->
  enclosing_anns rich_deco (p ++ (i, sty) :: q) =
  enclosing_anns rich_deco p ++ style_anns rich_deco sty ++ enclosing_anns rich_deco q.
Proof. intros p i sty q H. rewrite enclosing_anns_split, rich_own_ann_ok, H. reflexivity. Qed.
Example rich_block_kinds : forall l cs r c,
  rich_own_ann (IHeader l cs) = None /\ rich_own_ann (IListItem cs) = None /\
  rich_own_ann (ITableRow r) = None /\ rich_own_ann (ITableCell c) = None /\
  rich_own_ann (IDd cs) = None /\ rich_own_ann (IBlockQuote cs) = None /\
  rich_own_ann (IDt cs) = Some AEm /\ rich_own_ann (IEm cs) = Some AEm /\
  rich_own_ann (IStrong cs) = Some AStrong /\ rich_own_ann (IStrikeout cs) = Some AStrike /\
  rich_own_ann (ICode cs) = Some ACode.
Proof. intros. repeat split. Qed.

(* ================================================================== *)
(* 10. OBSERVATIONS (computed in the model; O1 and O2 confirmed on the   *)
(*     implementation with the harness probe)                           *)
(* ================================================================== *)

Definition cx_padopts : ropts := render_options (set_pad (with_decorator rich_deco)).

(* O1 (sharpens AnnBalance F3; made_char_tag, third case).  With pad_block_width the padding of
   the last line of a block takes the tag of the pending inter-word space, i.e. of the last
   whitespace character added, even when the element that whitespace belongs to is already
   closed and does not enclose the block.  So padding can carry the Link annotation of a closed
   link and -- visibly, with a colour map -- the background colour of a closed span:
     <p>x<a href="u">y </a></p>                              padding carries Link "u"
     <p>x<span style="background-color:#010203">y </span></p>   padding carries Bg(1,2,3)
   This is the only kind of renderer-made character whose tag is not the annotation stack of the
   node that makes it: prefixes, borders, separators and cell padding never leak (fourth case of
   made_char_tag: exactly enclosing_anns of the block node's path). *)
Example o1_padding_carries_closed_link :
  obs_pairs (render_tree rich_deco 3 cx_padopts 6
    (ex_n (IBlock [ltxt 16 [120]; ex_n (ILink cx_u [ltxt 20 [121; 32]])]))) =
  Ok [[(120, 16, []); (121, 20, [ALink cx_u]);
       (32, 2, [ALink cx_u]); (32, 2, [ALink cx_u]); (32, 2, [ALink cx_u]); (32, 2, [ALink cx_u])]].
Proof. vm_compute. reflexivity. Qed.
Example o1_padding_carries_closed_background :
  obs_pairs (render_tree rich_deco 3 cx_padopts 6
    (ex_n (IBlock [ltxt 16 [120]; RN (IContainer [ltxt 20 [121; 32]]) (sty_bg (1, 2, 3))]))) =
  Ok [[(120, 16, []); (121, 20, [ABg 1 2 3]);
       (32, 2, [ABg 1 2 3]); (32, 2, [ABg 1 2 3]); (32, 2, [ABg 1 2 3]); (32, 2, [ABg 1 2 3])]].
Proof. vm_compute. reflexivity. Qed.

(* O2 (struct_char: is_seg for every kind with a prefix, and for rows).  A border line of a table
   that is nested in a block with a prefix (quote, list item, heading, dd) or in a cell of an
   outer table is re-tagged when the prefix is attached / the row is assembled (attach_prefix,
   row_line drop the tag of an RLine): it carries the annotations of that enclosing block, not
   those of its own table.  <blockquote style="color:#f00"><table style="color:#00f">: the text
   of the cell is red+blue, the table's borders are only red. *)
Example o2_nested_border_retagged :
  obs_pairs (render_tree rich_deco 3 ab_opts 20
    (RN (IBlockQuote [RN (ITable [RRow [RCell 1 [ltxt 16 [120]] cstyle0] cstyle0] 1) (sty_fg (0, 0, 255))])
        (sty_fg (255, 0, 0)))) =
  Ok [[(62, 3, [AColour 255 0 0]); (32, 3, [AColour 255 0 0]); (9472, 4, [AColour 255 0 0])];
      [(62, 3, [AColour 255 0 0]); (32, 3, [AColour 255 0 0]);
       (120, 16, [AColour 255 0 0; AColour 0 0 255])];
      [(62, 3, [AColour 255 0 0]); (32, 3, [AColour 255 0 0]); (9472, 4, [AColour 255 0 0])]].
Proof. vm_compute. reflexivity. Qed.
(* ... whereas at top level the same borders carry the table's colour *)
Example o2_top_level_border :
  obs_pairs (render_tree rich_deco 3 ab_opts 20
    (RN (ITable [RRow [RCell 1 [ltxt 16 [120]] cstyle0] cstyle0] 1) (sty_fg (0, 0, 255)))) =
  Ok [[(9472, 4, [AColour 0 0 255])]; [(120, 16, [AColour 0 0 255])]; [(9472, 4, [AColour 0 0 255])]].
Proof. vm_compute. reflexivity. Qed.

(* O3 (marker_char).  The footnote reference of a link inside <s> goes through the strikeout
   filter like document text: "[1]" is struck. *)
Example o3_marker_struck :
  obs_pairs (render_tree rich_deco 3 cx_opts 20
    (ex_n (IBlock [ex_n (IStrikeout [ex_n (ILink cx_u [ltxt 16 [120]])])]))) =
  Ok [[(120, 16, [AStrike; ALink cx_u]); (822, 7, [AStrike; ALink cx_u]);
       (91, 6, [AStrike]); (822, 7, [AStrike]); (49, 6, [AStrike]); (822, 7, [AStrike]);
       (93, 6, [AStrike]); (822, 7, [AStrike])];
      [];
      [(91, 6, [ADefault]); (49, 6, [ADefault]); (93, 6, [ADefault]); (58, 6, [ADefault]);
       (32, 6, [ADefault]); (117, 6, [ADefault])]].
Proof. vm_compute. reflexivity. Qed.

Print Assumptions own_ann_tbl_ok.
Print Assumptions enclosing_anns_split.
Print Assumptions enclosing_anns_In.
Print Assumptions enclosing_anns_rich.
