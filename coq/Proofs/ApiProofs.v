(* Proofs/ApiProofs.v -- facts about the public routes of the model (Api.v). *)
From H2T Require Import Base Tagged Wrap Sub Css Dom Render Api.
From Coq Require Import Lia.

Lemma tl_string_push_str_new : forall s t, tl_string (tl_push_str tl_new s t) = s.
Proof.
  intros s t. unfold tl_push_str. destruct s as [|c s']; [reflexivity|].
  unfold tl_string; cbn. rewrite app_nil_r. reflexivity.
Qed.

Lemma rline_string_into_tagged : forall r, tl_string (rline_into_tagged r) = rline_string r.
Proof.
  intros [l|b t]; cbn [rline_into_tagged rline_string]; [reflexivity|].
  unfold tl_push. apply tl_string_push_str_new.
Qed.

Definition join_lines (ls : list tline) : text :=
  flat_map (fun l => tl_string l ++ [newline_chr]) ls.

Lemma join_lines_map : forall rs,
  join_lines (map rline_into_tagged rs) = flat_map (fun l => rline_string l ++ [newline_chr]) rs.
Proof.
  induction rs as [|r rs IH]; [reflexivity|].
  unfold join_lines in *. cbn [map flat_map]. rewrite rline_string_into_tagged, IH. reflexivity.
Qed.

Section Routes.
  Variable inline_styles : list (text * text) -> res (list styledecl).
  Variable doc_rules : list node -> res (list ruleset).

  (* the string route is the line route with the lines joined *)
  Theorem routes_agree : forall c doc w,
    string_from_read inline_styles doc_rules c doc w =
    (do ls <- lines_from_read inline_styles doc_rules c doc w; Ok (join_lines ls)).
  Proof.
    intros c doc w. unfold string_from_read, lines_from_read.
    destruct (to_render_tree inline_styles doc_rules c doc) as [tree| | |]; cbn [bind]; try reflexivity.
    destruct (render_with_context c tree w) as [s| | |]; cbn [bind]; try reflexivity.
    unfold sub_into_string.
    destruct (sub_into_lines s) as [ls| | |]; cbn [bind]; try reflexivity.
    rewrite join_lines_map. reflexivity.
  Qed.

  (* width 0 never renders *)
  Theorem width_zero_too_narrow : forall c doc tree,
    to_render_tree inline_styles doc_rules c doc = Ok tree ->
    string_from_read inline_styles doc_rules c doc 0 = TooNarrow /\
    lines_from_read inline_styles doc_rules c doc 0 = TooNarrow.
  Proof.
    intros c doc tree H. unfold string_from_read, lines_from_read. rewrite H. cbn [bind].
    unfold render_with_context. cbn. split; reflexivity.
  Qed.

  Theorem width_zero_never_ok : forall c doc,
    match string_from_read inline_styles doc_rules c doc 0 with Ok _ => False | _ => True end.
  Proof.
    intros c doc. unfold string_from_read.
    destruct (to_render_tree inline_styles doc_rules c doc) as [tree| | |]; cbn [bind]; auto.
    unfold render_with_context. cbn. exact I.
  Qed.
End Routes.
