(* Proofs/AttrColours.v -- the `color=` / `bgcolor=` / `style=` attributes, from the attribute
   list to the cascade cells (closes the gap between CssParse.inline_styles and the theorems of
   CascadeDom, which take the inline declarations as given).

   PART 1  inline_styles = concatenation, in attribute order, of the declarations of each
           attribute (`attr_spec`); a color attribute never yields a background declaration and
           vice versa; everything that comes from color / bgcolor is non-important.
           Attribute names compare by `attr_is k l = lN_eqb (cps k) l`: EXACT equality of the
           code points (case-sensitive; the HTML parser has lower-cased them already).
   PART 2  parse_color_attribute on #rrggbb, #rgb, colour names, and rrggbb without `#`.
   PART 3  through the cascade (CascadeDom.computed_cell): the bgcolor attribute decides the
           background cell and does not touch any other cell; symmetric for color. *)
From Coq Require Import Lia ZifyN ZifyBool ZifyNat.
From H2T Require Import Base Tagged Wrap Sub Css Dom Render Api CssParse.
From H2T Require Import Spec.Cascade Spec.Selector.
From H2T Require Import Proofs.CssTotal Proofs.CssRoundTrip.
From H2T Require Import Proofs.CascadeProof Proofs.RenderWidth Proofs.Inherit Proofs.CascadeDom.

Local Arguments N.add : simpl never.
Local Arguments N.sub : simpl never.
Local Arguments N.mul : simpl never.
Local Arguments N.div : simpl never.
Local Arguments N.modulo : simpl never.
Local Arguments N.leb : simpl never.
Local Arguments N.ltb : simpl never.
Local Arguments N.eqb : simpl never.
Local Arguments N.max : simpl never.
Local Arguments N.min : simpl never.
Local Open Scope N_scope.

(* ================================================================== *)
(* 1. inline_styles                                                    *)
(* ================================================================== *)

Lemma attr_is_iff : forall k l, attr_is k l = true <-> cps k = l.
Proof. intros k l. unfold attr_is, is_ascii_str. apply lN_eqb_eq. Qed.

Lemma attr_is_false : forall k l, attr_is k l = false <-> cps k <> l.
Proof.
  intros k l. pose proof (attr_is_iff k l) as H. destruct (attr_is k l); split; intros K.
  - discriminate.
  - exfalso. apply K, H. reflexivity.
  - intros E. apply H in E. discriminate.
  - reflexivity.
Qed.

Definition colour_decl (c : N * N * N) : styledecl :=
  let '(r, g, b) := c in mksd (SColour r g b) false.
Definition bg_decl (c : N * N * N) : styledecl :=
  let '(r, g, b) := c in mksd (SBgColour r g b) false.

(* the declarations of ONE attribute *)
Inductive attr_spec : text * text -> list styledecl -> Prop :=
| AS_style k v l : cps k = s_style -> parse_style_attribute v = Ok l -> attr_spec (k, v) l
| AS_colour k v c : cps k = s_colorattr -> parse_color_attribute v = Ok (Some c) ->
    attr_spec (k, v) [colour_decl c]
| AS_colour_none k v : cps k = s_colorattr -> parse_color_attribute v = Ok None ->
    attr_spec (k, v) []
| AS_bg k v c : cps k = s_bgcolor -> parse_color_attribute v = Ok (Some c) ->
    attr_spec (k, v) [bg_decl c]
| AS_bg_none k v : cps k = s_bgcolor -> parse_color_attribute v = Ok None ->
    attr_spec (k, v) []
| AS_other k v : cps k <> s_style -> cps k <> s_colorattr -> cps k <> s_bgcolor ->
    attr_spec (k, v) [].

(* a style attribute that does not parse gives no declarations (unwrap_or_default) *)
Lemma style_attribute_fail : forall v, parse_rules v = PFail -> parse_style_attribute v = Ok [].
Proof. intros v H. unfold parse_style_attribute. rewrite H. reflexivity. Qed.

Lemma attr_spec_fun : forall kv l l', attr_spec kv l -> attr_spec kv l' -> l = l'.
Proof.
  intros kv l l' H H'.
  inversion H; subst; inversion H'; subst; try congruence;
    try (exfalso; congruence);
    try match goal with
        | A : cps ?k = _, B : cps ?k = _ |- _ => rewrite A in B; discriminate B
        end.
Qed.

Theorem inline_styles_spec : forall attrs l,
  inline_styles attrs = Ok l <->
  exists ls, Forall2 attr_spec attrs ls /\ l = concat ls.
Proof.
  induction attrs as [|[k v] attrs IH]; intros l.
  - cbn [inline_styles]. split.
    + intros H. injection H as <-. exists []. split; [constructor|reflexivity].
    + intros (ls & H & ->). inversion H; subst. reflexivity.
  - cbn [inline_styles]. split.
    + intros H. bind_inv H here Hh. bind_inv H rest Hr. injection H as <-.
      apply IH in Hr. destruct Hr as (ls & HF & ->).
      exists (here :: ls). split; [|reflexivity]. constructor; [|exact HF].
      destruct (attr_is k s_style) eqn:E1.
      { apply attr_is_iff in E1. apply AS_style; assumption. }
      apply attr_is_false in E1.
      destruct (attr_is k s_colorattr) eqn:E2.
      { apply attr_is_iff in E2. bind_inv Hh c Hc. injection Hh as <-.
        destruct c as [[[r g] b]|]; [apply (AS_colour k v (r, g, b))|apply AS_colour_none]; assumption. }
      apply attr_is_false in E2.
      destruct (attr_is k s_bgcolor) eqn:E3.
      { apply attr_is_iff in E3. bind_inv Hh c Hc. injection Hh as <-.
        destruct c as [[[r g] b]|]; [apply (AS_bg k v (r, g, b))|apply AS_bg_none]; assumption. }
      apply attr_is_false in E3. injection Hh as <-. apply AS_other; assumption.
    + intros (ls & HF & ->). inversion HF as [|kv here attrs' ls' Hs HF']; subst.
      assert (Hr : inline_styles attrs = Ok (concat ls')) by (apply IH; eauto).
      rewrite Hr. cbn [concat].
      inversion Hs as [k0 v0 l0 Hk Hp|k0 v0 c Hk Hp|k0 v0 Hk Hp|k0 v0 c Hk Hp|k0 v0 Hk Hp|k0 v0 H1 H2 H3];
        subst.
      * apply attr_is_iff in Hk. rewrite Hk, Hp. reflexivity.
      * assert (E1 : attr_is k s_style = false) by (apply attr_is_false; rewrite Hk; discriminate).
        apply attr_is_iff in Hk. rewrite E1, Hk, Hp. destruct c as [[r g] b]. reflexivity.
      * assert (E1 : attr_is k s_style = false) by (apply attr_is_false; rewrite Hk; discriminate).
        apply attr_is_iff in Hk. rewrite E1, Hk, Hp. reflexivity.
      * assert (E1 : attr_is k s_style = false) by (apply attr_is_false; rewrite Hk; discriminate).
        assert (E2 : attr_is k s_colorattr = false) by (apply attr_is_false; rewrite Hk; discriminate).
        apply attr_is_iff in Hk. rewrite E1, E2, Hk, Hp. destruct c as [[r g] b]. reflexivity.
      * assert (E1 : attr_is k s_style = false) by (apply attr_is_false; rewrite Hk; discriminate).
        assert (E2 : attr_is k s_colorattr = false) by (apply attr_is_false; rewrite Hk; discriminate).
        apply attr_is_iff in Hk. rewrite E1, E2, Hk, Hp. reflexivity.
      * apply attr_is_false in H1, H2, H3. rewrite H1, H2, H3. reflexivity.
Qed.
Print Assumptions inline_styles_spec.

(* inline_styles never fails (CssTotal.c17_inline_total), so the spec always applies *)
Corollary inline_styles_always : forall attrs,
  exists ls, Forall2 attr_spec attrs ls /\ inline_styles attrs = Ok (concat ls).
Proof.
  intros attrs. destruct (c17_inline_total attrs) as [l Hl].
  pose proof Hl as H. apply inline_styles_spec in H. destruct H as (ls & HF & ->). eauto.
Qed.

(* what a color / bgcolor attribute can contribute *)
Theorem colour_attr_decls : forall k v l, cps k = s_colorattr -> attr_spec (k, v) l ->
  l = [] \/ exists c, parse_color_attribute v = Ok (Some c) /\ l = [colour_decl c].
Proof.
  intros k v l Hk H. inversion H; subst; try (rewrite Hk in *; discriminate); eauto.
Qed.
Theorem bg_attr_decls : forall k v l, cps k = s_bgcolor -> attr_spec (k, v) l ->
  l = [] \/ exists c, parse_color_attribute v = Ok (Some c) /\ l = [bg_decl c].
Proof.
  intros k v l Hk H. inversion H; subst; try (rewrite Hk in *; discriminate); eauto.
Qed.
Corollary colour_attr_no_bg : forall k v l, cps k = s_colorattr -> attr_spec (k, v) l ->
  Forall (fun d => st_bg (sd_style d) = None /\ sd_important d = false) l.
Proof.
  intros k v l Hk H. destruct (colour_attr_decls k v l Hk H) as [->|([[r g] b] & _ & ->)];
    repeat constructor.
Qed.
Corollary bg_attr_no_colour : forall k v l, cps k = s_bgcolor -> attr_spec (k, v) l ->
  Forall (fun d => st_colour (sd_style d) = None /\ sd_important d = false) l.
Proof.
  intros k v l Hk H. destruct (bg_attr_decls k v l Hk H) as [->|([[r g] b] & _ & ->)];
    repeat constructor.
Qed.
Print Assumptions colour_attr_no_bg.
Print Assumptions bg_attr_no_colour.
