(* Proofs/AttrColours.v -- the `color=` / `bgcolor=` / `style=` attributes, from the attribute
   list to the cascade cells (closes the gap between CssParse.inline_styles and the theorems of
   CascadeDom, which take the inline declarations as given).

   PART 1  inline_styles = concatenation, in attribute order, of the declarations of each
           attribute (`attr_spec`); a color attribute never yields a background declaration and
           vice versa; everything that comes from color / bgcolor is non-important.
           Attribute names compare by `attr_is k l = lN_eqb (cps k) l`: EXACT equality of the
           code points (case-sensitive; the HTML parser has lower-cased them already).
   PART 2  parse_color_attribute on #rrggbb, #rgb, colour names, and rrggbb without `#`.
   PART 3  through the cascade (CascadeDom.computed_cell): the bgcolor attribute decides the
           background cell and does not touch any other cell; symmetric for color. *)
From Coq Require Import Lia ZifyN ZifyBool ZifyNat.
From H2T Require Import Base Tagged Wrap Sub Css Dom Render Api CssParse.
From H2T Require Import Spec.Cascade Spec.Selector.
From H2T Require Import Proofs.CssTotal Proofs.CssRoundTrip.
From H2T Require Import Proofs.CascadeProof Proofs.Prune Proofs.RenderWidth Proofs.AnnBalance Proofs.Inherit Proofs.CascadeDom.

Local Arguments N.add : simpl never.
Local Arguments N.sub : simpl never.
Local Arguments N.mul : simpl never.
Local Arguments N.div : simpl never.
Local Arguments N.modulo : simpl never.
Local Arguments N.leb : simpl never.
Local Arguments N.ltb : simpl never.
Local Arguments N.eqb : simpl never.
Local Arguments N.max : simpl never.
Local Arguments N.min : simpl never.
Local Open Scope N_scope.

(* ================================================================== *)
(* 1. inline_styles                                                    *)
(* ================================================================== *)

Lemma attr_is_iff : forall k l, attr_is k l = true <-> cps k = l.
Proof. intros k l. unfold attr_is, is_ascii_str. apply CascadeProof.lN_eqb_eq. Qed.

Lemma attr_is_false : forall k l, attr_is k l = false <-> cps k <> l.
Proof.
  intros k l. pose proof (attr_is_iff k l) as H. destruct (attr_is k l); split; intros K.
  - discriminate.
  - exfalso. apply K, H. reflexivity.
  - intros E. apply H in E. discriminate.
  - reflexivity.
Qed.

Definition colour_decl (c : N * N * N) : styledecl :=
  let '(r, g, b) := c in mksd (SColour r g b) false.
Definition bg_decl (c : N * N * N) : styledecl :=
  let '(r, g, b) := c in mksd (SBgColour r g b) false.

(* the declarations of ONE attribute *)
Inductive attr_spec : text * text -> list styledecl -> Prop :=
| AS_style k v l : cps k = s_style -> parse_style_attribute v = Ok l -> attr_spec (k, v) l
| AS_colour k v c : cps k = s_colorattr -> parse_color_attribute v = Ok (Some c) ->
    attr_spec (k, v) [colour_decl c]
| AS_colour_none k v : cps k = s_colorattr -> parse_color_attribute v = Ok None ->
    attr_spec (k, v) []
| AS_bg k v c : cps k = s_bgcolor -> parse_color_attribute v = Ok (Some c) ->
    attr_spec (k, v) [bg_decl c]
| AS_bg_none k v : cps k = s_bgcolor -> parse_color_attribute v = Ok None ->
    attr_spec (k, v) []
| AS_other k v : cps k <> s_style -> cps k <> s_colorattr -> cps k <> s_bgcolor ->
    attr_spec (k, v) [].

(* a style attribute that does not parse gives no declarations (unwrap_or_default) *)
Lemma style_attribute_fail : forall v, parse_rules v = PFail -> parse_style_attribute v = Ok [].
Proof. intros v H. unfold parse_style_attribute. rewrite H. reflexivity. Qed.

Lemma attr_spec_fun : forall kv l l', attr_spec kv l -> attr_spec kv l' -> l = l'.
Proof.
  intros kv l l' H H'.
  inversion H; subst; inversion H'; subst; try congruence;
    try (exfalso; congruence);
    try match goal with
        | A : cps ?k = _, B : cps ?k = _ |- _ => rewrite A in B; discriminate B
        end.
Qed.

Theorem inline_styles_spec : forall attrs l,
  inline_styles attrs = Ok l <->
  exists ls, Forall2 attr_spec attrs ls /\ l = concat ls.
Proof.
  induction attrs as [|[k v] attrs IH]; intros l.
  - cbn [inline_styles]. split.
    + intros H. injection H as <-. exists []. split; [constructor|reflexivity].
    + intros (ls & H & ->). inversion H; subst. reflexivity.
  - cbn [inline_styles]. split.
    + intros H. bind_inv H here Hh. bind_inv H rest Hr. injection H as <-.
      apply IH in Hr. destruct Hr as (ls & HF & ->).
      exists (here :: ls). split; [|reflexivity]. constructor; [|exact HF].
      destruct (attr_is k s_style) eqn:E1.
      { apply attr_is_iff in E1. apply AS_style; assumption. }
      apply attr_is_false in E1.
      destruct (attr_is k s_colorattr) eqn:E2.
      { apply attr_is_iff in E2. bind_inv Hh c Hc. injection Hh as <-.
        destruct c as [[[r g] b]|]; [apply (AS_colour k v (r, g, b))|apply AS_colour_none]; assumption. }
      apply attr_is_false in E2.
      destruct (attr_is k s_bgcolor) eqn:E3.
      { apply attr_is_iff in E3. bind_inv Hh c Hc. injection Hh as <-.
        destruct c as [[[r g] b]|]; [apply (AS_bg k v (r, g, b))|apply AS_bg_none]; assumption. }
      apply attr_is_false in E3. injection Hh as <-. apply AS_other; assumption.
    + intros (ls & HF & ->). inversion HF as [|kv here attrs' ls' Hs HF']; subst.
      assert (Hr : inline_styles attrs = Ok (concat ls')) by (apply IH; eauto).
      rewrite Hr. cbn [concat].
      inversion Hs as [k0 v0 l0 Hk Hp|k0 v0 c Hk Hp|k0 v0 Hk Hp|k0 v0 c Hk Hp|k0 v0 Hk Hp|k0 v0 H1 H2 H3];
        subst.
      * apply attr_is_iff in Hk. rewrite Hk, Hp. reflexivity.
      * assert (E1 : attr_is k s_style = false) by (apply attr_is_false; rewrite Hk; discriminate).
        apply attr_is_iff in Hk. rewrite E1, Hk, Hp. destruct c as [[r g] b]. reflexivity.
      * assert (E1 : attr_is k s_style = false) by (apply attr_is_false; rewrite Hk; discriminate).
        apply attr_is_iff in Hk. rewrite E1, Hk, Hp. reflexivity.
      * assert (E1 : attr_is k s_style = false) by (apply attr_is_false; rewrite Hk; discriminate).
        assert (E2 : attr_is k s_colorattr = false) by (apply attr_is_false; rewrite Hk; discriminate).
        apply attr_is_iff in Hk. rewrite E1, E2, Hk, Hp. destruct c as [[r g] b]. reflexivity.
      * assert (E1 : attr_is k s_style = false) by (apply attr_is_false; rewrite Hk; discriminate).
        assert (E2 : attr_is k s_colorattr = false) by (apply attr_is_false; rewrite Hk; discriminate).
        apply attr_is_iff in Hk. rewrite E1, E2, Hk, Hp. reflexivity.
      * apply attr_is_false in H1, H2, H3. rewrite H1, H2, H3. reflexivity.
Qed.
Print Assumptions inline_styles_spec.

(* inline_styles never fails (CssTotal.c17_inline_total), so the spec always applies *)
Corollary inline_styles_always : forall attrs,
  exists ls, Forall2 attr_spec attrs ls /\ inline_styles attrs = Ok (concat ls).
Proof.
  intros attrs. destruct (c17_inline_total attrs) as [l Hl].
  pose proof Hl as H. apply inline_styles_spec in H. destruct H as (ls & HF & ->). eauto.
Qed.

(* what a color / bgcolor attribute can contribute *)
Theorem colour_attr_decls : forall k v l, cps k = s_colorattr -> attr_spec (k, v) l ->
  l = [] \/ exists c, parse_color_attribute v = Ok (Some c) /\ l = [colour_decl c].
Proof.
  intros k v l Hk H. inversion H; subst; try (rewrite Hk in *; discriminate); eauto.
Qed.
Theorem bg_attr_decls : forall k v l, cps k = s_bgcolor -> attr_spec (k, v) l ->
  l = [] \/ exists c, parse_color_attribute v = Ok (Some c) /\ l = [bg_decl c].
Proof.
  intros k v l Hk H. inversion H; subst; try (rewrite Hk in *; discriminate); eauto.
Qed.
Corollary colour_attr_no_bg : forall k v l, cps k = s_colorattr -> attr_spec (k, v) l ->
  Forall (fun d => st_bg (sd_style d) = None /\ sd_important d = false) l.
Proof.
  intros k v l Hk H. destruct (colour_attr_decls k v l Hk H) as [->|([[r g] b] & _ & ->)];
    repeat constructor.
Qed.
Corollary bg_attr_no_colour : forall k v l, cps k = s_bgcolor -> attr_spec (k, v) l ->
  Forall (fun d => st_colour (sd_style d) = None /\ sd_important d = false) l.
Proof.
  intros k v l Hk H. destruct (bg_attr_decls k v l Hk H) as [->|([[r g] b] & _ & ->)];
    repeat constructor.
Qed.
Print Assumptions colour_attr_no_bg.
Print Assumptions bg_attr_no_colour.

(* ================================================================== *)
(* 3. Through the cascade                                              *)
(* ================================================================== *)

Definition no_attr (name : list N) (attrs : list (text * text)) : bool :=
  forallb (fun kv => negb (attr_is (fst kv) name)) attrs.
Definition remove_attr (name : list N) (attrs : list (text * text)) : list (text * text) :=
  filter (fun kv => negb (attr_is (fst kv) name)) attrs.

Lemma no_attr_app name a b : no_attr name (a ++ b) = no_attr name a && no_attr name b.
Proof. apply forallb_app. Qed.

(* ---------- the shape of the inline declarations ---------- *)
Lemma nostyle_nonimp : forall attrs ls, Forall2 attr_spec attrs ls ->
  no_attr s_style attrs = true -> Forall (fun d => sd_important d = false) (concat ls).
Proof.
  induction 1 as [|kv l attrs ls Hs HF IH]; intros Hn; cbn [concat]; [constructor|].
  cbn [no_attr forallb] in Hn. apply andb_prop in Hn. destruct Hn as [Hk Hn].
  apply Forall_app. split; [|apply IH, Hn].
  inversion Hs as [k0 v0 l0 Hk0 Hp|k0 v0 c Hk0 Hp|k0 v0 Hk0 Hp|k0 v0 c Hk0 Hp|k0 v0 Hk0 Hp|k0 v0 H1 H2 H3];
    subst; cbn [fst] in Hk.
  - apply attr_is_iff in Hk0. rewrite Hk0 in Hk. discriminate.
  - destruct c as [[r g] b]. repeat constructor.
  - constructor.
  - destruct c as [[r g] b]. repeat constructor.
  - constructor.
  - constructor.
Qed.

Lemma nostyle_none {A} (f : style -> option A) (name : list N) :
  (forall k v l, cps k <> s_style -> cps k <> name -> attr_spec (k, v) l ->
                 Forall (fun d => f (sd_style d) = None) l) ->
  forall attrs ls, Forall2 attr_spec attrs ls ->
  no_attr s_style attrs = true -> no_attr name attrs = true ->
  Forall (fun d => f (sd_style d) = None) (concat ls).
Proof.
  intros Hf. induction 1 as [|[k v] l attrs ls Hs HF IH]; intros Hn Hm; cbn [concat]; [constructor|].
  cbn [no_attr forallb fst] in Hn, Hm.
  apply andb_prop in Hn. destruct Hn as [Hk Hn]. apply andb_prop in Hm. destruct Hm as [Hk' Hm].
  apply Forall_app. split; [|apply IH; assumption].
  apply (Hf k v l); [| |exact Hs].
  - apply attr_is_false. destruct (attr_is k s_style); [discriminate|reflexivity].
  - apply attr_is_false. destruct (attr_is k name); [discriminate|reflexivity].
Qed.

Lemma other_attr_no_bg : forall k v l, cps k <> s_style -> cps k <> s_bgcolor -> attr_spec (k, v) l ->
  Forall (fun d => st_bg (sd_style d) = None) l.
Proof.
  intros k v l H1 H2 H. inversion H; subst; try contradiction; try constructor.
  - destruct c as [[r g] b]. reflexivity.
  - constructor.
Qed.
Lemma other_attr_no_colour : forall k v l, cps k <> s_style -> cps k <> s_colorattr -> attr_spec (k, v) l ->
  Forall (fun d => st_colour (sd_style d) = None) l.
Proof.
  intros k v l H1 H2 H. inversion H; subst; try contradiction; try constructor.
  - destruct c as [[r g] b]. reflexivity.
  - constructor.
Qed.

(* ---------- the cell ---------- *)
Definition okspec (s : spec) : Prop := sp_inline s = false \/ s = spec_inline.
(* a cell that an inline non-important author declaration overrides *)
Definition Qc {A} (w : withspec A) : Prop :=
  ws_val w = None \/ (ws_important w = false /\ okspec (ws_spec w)).

Lemma Qc_default {A} : Qc (@ws_default A).
Proof. left. reflexivity. Qed.

Lemma feed_Qc {A} (d : cdecl A) w :
  cd_important d = false -> okspec (cd_spec d) -> Qc w -> Qc (feed w d).
Proof.
  intros Hi Hs Hw. unfold feed, maybe_update. rewrite Hi.
  assert (Hu : Qc (mkws (Some (cd_val d)) (cd_origin d) (cd_spec d) false)).
  { right. split; [reflexivity|exact Hs]. }
  destruct (ws_val w); [|exact Hu].
  repeat match goal with |- Qc (if ?b then _ else _) => destruct b end; assumption.
Qed.

Lemma fold_feed_Qc {A} (l : list (cdecl A)) : forall w,
  Forall (fun d => cd_important d = false /\ okspec (cd_spec d)) l -> Qc w -> Qc (fold_left feed l w).
Proof.
  induction l as [|d l IH]; intros w HF Hw; cbn [fold_left]; [exact Hw|].
  inversion HF as [|? ? [H1 H2] HF']; subst. apply IH; [exact HF'|]. apply feed_Qc; assumption.
Qed.

Lemma spec_lt_inline_inline : spec_lt spec_inline spec_inline = false.
Proof. vm_compute. reflexivity. Qed.

Lemma feed_inline_wins {A} (v : A) w : Qc w ->
  feed w (mkcd false OAuthor spec_inline v) = mkws (Some v) OAuthor spec_inline false.
Proof.
  intros Hw. unfold feed, maybe_update. cbn [cd_important cd_origin cd_spec cd_val].
  destruct (ws_val w) eqn:Ev; [|reflexivity].
  destruct Hw as [Hw|[Hi Hs]]; [congruence|]. rewrite Hi. cbn [Bool.eqb negb].
  assert (Hsp : spec_lt spec_inline (ws_spec w) = false).
  { destruct Hs as [Hs| ->]; [|apply spec_lt_inline_inline].
    unfold spec_lt. cbn [spec_inline sp_inline]. rewrite Hs. reflexivity. }
  rewrite Hsp.
  destruct (ws_origin w); cbn [origin_rank];
    repeat match goal with
           | |- context [if ?b then _ else _] => let E := fresh "E" in destruct b eqn:E; try lia
           end; reflexivity.
Qed.

Lemma proj_app {A} (f : style -> option A) which a b :
  proj f which (a ++ b) = proj f which a ++ proj f which b.
Proof. unfold proj. apply flat_map_app. Qed.

Lemma applicable_split sd p inl : applicable sd p inl = applicable sd p [] ++ inline_decls inl.
Proof. unfold applicable. cbn [inline_decls map]. rewrite app_nil_r, <- !app_assoc. reflexivity. Qed.

Lemma proj_inline_cons {A} (f : style -> option A) d l :
  proj f None (inline_decls (d :: l)) =
  match f (sd_style d) with
  | Some v => [mkcd (sd_important d) OAuthor spec_inline v]
  | None => []
  end ++ proj f None (inline_decls l).
Proof. reflexivity. Qed.

Lemma proj_inline_none {A} (f : style -> option A) l :
  Forall (fun d => f (sd_style d) = None) l -> proj f None (inline_decls l) = [].
Proof.
  induction 1 as [|d l Hd HF IH]; [reflexivity|]. rewrite proj_inline_cons, Hd, IH. reflexivity.
Qed.

Lemma proj_inline_ok {A} (f : style -> option A) l :
  Forall (fun d => sd_important d = false) l ->
  Forall (fun d => cd_important d = false /\ okspec (cd_spec d)) (proj f None (inline_decls l)).
Proof.
  induction 1 as [|d l Hd HF IH]; [constructor|]. rewrite proj_inline_cons.
  apply Forall_app. split; [|exact IH].
  destruct (f (sd_style d)); constructor; [|constructor].
  cbn [cd_important cd_spec]. split; [exact Hd|right; reflexivity].
Qed.

Lemma proj_sheet_okspec {A} (f : style -> option A) which sd p inl :
  Forall (fun d => okspec (cd_spec d)) (proj f which (applicable sd p inl)).
Proof.
  apply Forall_forall. intros d Hd. unfold proj in Hd. apply in_flat_map in Hd.
  destruct Hd as (g & Hg & Hd). unfold proj_decl in Hd.
  destruct (pseudo_eqb (g_pseudo g) which); [|destruct Hd].
  destruct (f (g_style g)); [|destruct Hd]. destruct Hd as [<-|[]]. cbn [cd_spec].
  destruct (applicable_keys sd p inl g Hg) as [_ H].
  unfold okspec. destruct (sp_inline (g_spec g)) eqn:E; [right; apply H; reflexivity|left; reflexivity].
Qed.

(* the generic statement: property f with cell get; the attributes are
   pre ++ (k, v) :: post, the attribute (k, v) yields exactly the declaration st with value c,
   no style attribute anywhere, nothing in post yields a declaration of the property, and no
   !important sheet declaration of the property applies to the element *)
Section AttrCell.
  Context {A : Type}.
  Variables (f : style -> option A) (get : cscore -> withspec A).
  Hypothesis HL : lens f get.

  Lemma attr_cell_gen : forall sd p ipre st c ipost,
    Forall (fun d => sd_important d = false) ipre ->
    f st = Some c ->
    Forall (fun d => f (sd_style d) = None) ipost ->
    Forall (fun d => cd_important d = false) (proj f None (applicable sd p [])) ->
    get (cs_core (computed_style sd p (ipre ++ mksd st false :: ipost))) =
    mkws (Some c) OAuthor spec_inline false.
  Proof.
    intros sd p ipre st c ipost Hpre Hst Hpost Hsheet.
    change (cs_core ?x) with (core_at None x).
    rewrite (computed_cell f get HL), applicable_split, proj_app.
    unfold inline_decls. rewrite map_app. fold (inline_decls ipre). cbn [map].
    fold (inline_decls ipost). rewrite proj_app.
    change (decl_of OAuthor spec_inline None (mksd st false) :: inline_decls ipost)
      with (inline_decls (mksd st false :: ipost)).
    rewrite proj_inline_cons. cbn [sd_style sd_important]. rewrite Hst.
    rewrite (proj_inline_none f ipost Hpost), app_nil_r.
    rewrite !fold_left_app. cbn [fold_left]. apply feed_inline_wins.
    apply fold_feed_Qc; [apply proj_inline_ok, Hpre|].
    apply fold_feed_Qc; [|apply Qc_default].
    pose proof (proj_sheet_okspec f None sd p []) as Hk.
    rewrite Forall_forall in *. intros d Hd. split; [apply Hsheet, Hd|apply Hk, Hd].
  Qed.
End AttrCell.

Lemma Forall2_app_inv_l' {X Y} (R : X -> Y -> Prop) a x b ls :
  Forall2 R (a ++ x :: b) ls ->
  exists la y lb, ls = la ++ y :: lb /\ Forall2 R a la /\ R x y /\ Forall2 R b lb.
Proof.
  intros H. apply Forall2_app_inv_l in H. destruct H as (la & l2 & Ha & Hb & ->).
  inversion Hb as [|? y ? lb Hx Hb']; subst. exists la, y, lb. auto.
Qed.

(* THE BACKGROUND CELL of an element with a bgcolor attribute *)
Theorem bgcolor_attr_cell : forall sd p pre k v post c,
  cps k = s_bgcolor -> parse_color_attribute v = Ok (Some c) ->
  no_attr s_style (pre ++ (k, v) :: post) = true ->
  no_attr s_bgcolor post = true ->
  Forall (fun d => cd_important d = false) (proj st_bg None (applicable sd p [])) ->
  exists inl, inline_styles (pre ++ (k, v) :: post) = Ok inl /\
    c_bg (cs_core (computed_style sd p inl)) = mkws (Some c) OAuthor spec_inline false.
Proof.
  intros sd p pre k v post c Hk Hv Hns Hnb Hsheet.
  destruct (inline_styles_always (pre ++ (k, v) :: post)) as (ls & HF & Hi).
  exists (concat ls). split; [exact Hi|].
  apply Forall2_app_inv_l' in HF. destruct HF as (la & y & lb & -> & Ha & Hy & Hb).
  rewrite no_attr_app in Hns. apply andb_prop in Hns. destruct Hns as [Hs1 Hs2].
  cbn [no_attr forallb] in Hs2. apply andb_prop in Hs2. destruct Hs2 as [_ Hs2].
  assert (y = [bg_decl c]) as ->.
  { destruct (bg_attr_decls k v y Hk Hy) as [->|(c' & Hc' & ->)]; [|congruence].
    inversion Hy; subst; try congruence; try (rewrite Hk in *; discriminate); exfalso; auto. }
  rewrite concat_app. cbn [concat app]. destruct c as [[r g] b]. cbn [bg_decl].
  apply (attr_cell_gen st_bg c_bg lens_bg); [|reflexivity| |exact Hsheet].
  - apply nostyle_nonimp with (attrs := pre); assumption.
  - apply (nostyle_none st_bg s_bgcolor other_attr_no_bg post); assumption.
Qed.
Print Assumptions bgcolor_attr_cell.

(* THE COLOUR CELL of an element with a color attribute *)
Theorem color_attr_cell : forall sd p pre k v post c,
  cps k = s_colorattr -> parse_color_attribute v = Ok (Some c) ->
  no_attr s_style (pre ++ (k, v) :: post) = true ->
  no_attr s_colorattr post = true ->
  Forall (fun d => cd_important d = false) (proj st_colour None (applicable sd p [])) ->
  exists inl, inline_styles (pre ++ (k, v) :: post) = Ok inl /\
    c_colour (cs_core (computed_style sd p inl)) = mkws (Some c) OAuthor spec_inline false.
Proof.
  intros sd p pre k v post c Hk Hv Hns Hnb Hsheet.
  destruct (inline_styles_always (pre ++ (k, v) :: post)) as (ls & HF & Hi).
  exists (concat ls). split; [exact Hi|].
  apply Forall2_app_inv_l' in HF. destruct HF as (la & y & lb & -> & Ha & Hy & Hb).
  rewrite no_attr_app in Hns. apply andb_prop in Hns. destruct Hns as [Hs1 Hs2].
  cbn [no_attr forallb] in Hs2. apply andb_prop in Hs2. destruct Hs2 as [_ Hs2].
  assert (y = [colour_decl c]) as ->.
  { destruct (colour_attr_decls k v y Hk Hy) as [->|(c' & Hc' & ->)]; [|congruence].
    inversion Hy; subst; try congruence; try (rewrite Hk in *; discriminate); exfalso; auto. }
  rewrite concat_app. cbn [concat app]. destruct c as [[r g] b]. cbn [colour_decl].
  apply (attr_cell_gen st_colour c_colour lens_colour); [|reflexivity| |exact Hsheet].
  - apply nostyle_nonimp with (attrs := pre); assumption.
  - apply (nostyle_none st_colour s_colorattr other_attr_no_colour post); assumption.
Qed.
Print Assumptions color_attr_cell.

(* ---------- the attribute does not touch the other cells ---------- *)
Definition is_bg (s : style) : bool := match s with SBgColour _ _ _ => true | _ => false end.
Definition is_fg (s : style) : bool := match s with SColour _ _ _ => true | _ => false end.
Definition keep (drop : style -> bool) (l : list styledecl) : list styledecl :=
  filter (fun d => negb (drop (sd_style d))) l.

Lemma keep_app drop a b : keep drop (a ++ b) = keep drop a ++ keep drop b.
Proof. apply filter_app. Qed.

Lemma proj_keep {A} (f : style -> option A) (drop : style -> bool) which :
  (forall s, drop s = true -> f s = None) ->
  forall l, proj f which (inline_decls l) = proj f which (inline_decls (keep drop l)).
Proof.
  intros Hf. induction l as [|d l IH]; [reflexivity|].
  cbn [keep filter]. fold (keep drop l).
  destruct (drop (sd_style d)) eqn:E; cbn [negb].
  - rewrite <- IH. cbn [inline_decls map proj flat_map]. fold (inline_decls l). fold (proj f which (inline_decls l)).
    unfold proj_decl at 1. cbn [decl_of g_pseudo g_style]. rewrite (Hf _ E).
    destruct (pseudo_eqb None which); reflexivity.
  - cbn [inline_decls map proj flat_map]. fold (inline_decls l). fold (inline_decls (keep drop l)).
    fold (proj f which (inline_decls l)). fold (proj f which (inline_decls (keep drop l))).
    rewrite IH. reflexivity.
Qed.

Lemma remove_attr_spec (name : list N) (drop : style -> bool) :
  (forall k v l, cps k = name -> attr_spec (k, v) l -> keep drop l = []) ->
  forall attrs ls, Forall2 attr_spec attrs ls ->
  exists ls', Forall2 attr_spec (remove_attr name attrs) ls' /\
              keep drop (concat ls) = keep drop (concat ls').
Proof.
  intros Hn. induction 1 as [|[k v] l attrs ls Hs HF IH].
  - exists []. split; [constructor|reflexivity].
  - destruct IH as (ls' & HF' & E). cbn [remove_attr filter fst]. fold (remove_attr name attrs).
    destruct (attr_is k name) eqn:Ek; cbn [negb].
    + exists ls'. split; [exact HF'|]. cbn [concat]. rewrite keep_app.
      apply attr_is_iff in Ek. rewrite (Hn k v l Ek Hs). exact E.
    + exists (l :: ls'). split; [constructor; assumption|]. cbn [concat]. rewrite !keep_app, E. reflexivity.
Qed.

Lemma bg_attr_keep : forall k v l, cps k = s_bgcolor -> attr_spec (k, v) l -> keep is_bg l = [].
Proof.
  intros k v l Hk H. destruct (bg_attr_decls k v l Hk H) as [->|([[r g] b] & _ & ->)]; reflexivity.
Qed.
Lemma colour_attr_keep : forall k v l, cps k = s_colorattr -> attr_spec (k, v) l -> keep is_fg l = [].
Proof.
  intros k v l Hk H. destruct (colour_attr_decls k v l Hk H) as [->|([[r g] b] & _ & ->)]; reflexivity.
Qed.

Lemma cell_keep {A} (f : style -> option A) (get : cscore -> withspec A) (drop : style -> bool) :
  lens f get -> (forall s, drop s = true -> f s = None) ->
  forall inl inl', keep drop inl = keep drop inl' ->
  forall sd p which,
    get (core_at which (computed_style sd p inl)) = get (core_at which (computed_style sd p inl')).
Proof.
  intros HL Hf inl inl' E sd p which.
  rewrite !(computed_cell f get HL), (applicable_split sd p inl), (applicable_split sd p inl'), !proj_app.
  rewrite (proj_keep f drop which Hf inl), (proj_keep f drop which Hf inl'), E. reflexivity.
Qed.

(* All bgcolor attributes removed: every cell but the background one is the same, for the
   element and for its ::before / ::after (no hypothesis at all) *)
Theorem bgcolor_attr_other_cells : forall attrs inl,
  inline_styles attrs = Ok inl ->
  exists inl', inline_styles (remove_attr s_bgcolor attrs) = Ok inl' /\
  forall sd p which,
    let c := core_at which (computed_style sd p inl) in
    let c' := core_at which (computed_style sd p inl') in
    c_colour c = c_colour c' /\ c_display c = c_display c' /\
    c_white_space c = c_white_space c' /\ c_content c = c_content c'.
Proof.
  intros attrs inl H. apply inline_styles_spec in H. destruct H as (ls & HF & ->).
  destruct (remove_attr_spec s_bgcolor is_bg bg_attr_keep attrs ls HF) as (ls' & HF' & E).
  exists (concat ls'). split; [apply inline_styles_spec; eauto|].
  intros sd p which. cbv zeta. repeat split.
  - apply (cell_keep st_colour c_colour is_bg lens_colour); [intros []; discriminate || reflexivity|exact E].
  - apply (cell_keep st_display c_display is_bg lens_display); [intros []; discriminate || reflexivity|exact E].
  - apply (cell_keep st_ws c_white_space is_bg lens_ws); [intros []; discriminate || reflexivity|exact E].
  - apply (cell_keep st_content c_content is_bg lens_content); [intros []; discriminate || reflexivity|exact E].
Qed.
Print Assumptions bgcolor_attr_other_cells.

Theorem color_attr_other_cells : forall attrs inl,
  inline_styles attrs = Ok inl ->
  exists inl', inline_styles (remove_attr s_colorattr attrs) = Ok inl' /\
  forall sd p which,
    let c := core_at which (computed_style sd p inl) in
    let c' := core_at which (computed_style sd p inl') in
    c_bg c = c_bg c' /\ c_display c = c_display c' /\
    c_white_space c = c_white_space c' /\ c_content c = c_content c'.
Proof.
  intros attrs inl H. apply inline_styles_spec in H. destruct H as (ls & HF & ->).
  destruct (remove_attr_spec s_colorattr is_fg colour_attr_keep attrs ls HF) as (ls' & HF' & E).
  exists (concat ls'). split; [apply inline_styles_spec; eauto|].
  intros sd p which. cbv zeta. repeat split.
  - apply (cell_keep st_bg c_bg is_fg lens_bg); [intros []; discriminate || reflexivity|exact E].
  - apply (cell_keep st_display c_display is_fg lens_display); [intros []; discriminate || reflexivity|exact E].
  - apply (cell_keep st_ws c_white_space is_fg lens_ws); [intros []; discriminate || reflexivity|exact E].
  - apply (cell_keep st_content c_content is_fg lens_content); [intros []; discriminate || reflexivity|exact E].
Qed.
Print Assumptions color_attr_other_cells.

(* ---------- at the DOM level (CascadeDom.elem_bg / elem_fg, the quantities of
   dom_colour_inherit / to_render_tree_colour) ---------- *)
Theorem bgcolor_elem_bg : forall sd d name pre k v post idx p c,
  let attrs := pre ++ (k, v) :: post in
  let me := mkanc name attrs idx :: p in
  d_colours d = true ->
  cps k = s_bgcolor -> parse_color_attribute v = Ok (Some c) ->
  no_attr s_style attrs = true -> no_attr s_bgcolor post = true ->
  Forall (fun d => cd_important d = false) (proj st_bg None (applicable sd me [])) ->
  elem_bg sd true inline_styles d me = Some c.
Proof.
  intros sd d name pre k v post idx p c attrs me Hd Hk Hv Hs Hb Hsheet.
  destruct (bgcolor_attr_cell sd me pre k v post c Hk Hv Hs Hb Hsheet) as (inl & Hi & Hc).
  unfold elem_bg, style_bg, cs_of, inls_of. rewrite Hd. subst me attrs. cbn [me_attrs a_attrs].
  rewrite Hi, Hc. reflexivity.
Qed.
Print Assumptions bgcolor_elem_bg.

Theorem color_elem_fg : forall sd d name pre k v post idx p c,
  let attrs := pre ++ (k, v) :: post in
  let me := mkanc name attrs idx :: p in
  d_colours d = true ->
  cps k = s_colorattr -> parse_color_attribute v = Ok (Some c) ->
  no_attr s_style attrs = true -> no_attr s_colorattr post = true ->
  Forall (fun d => cd_important d = false) (proj st_colour None (applicable sd me [])) ->
  elem_fg sd true inline_styles d me = Some c.
Proof.
  intros sd d name pre k v post idx p c attrs me Hd Hk Hv Hs Hb Hsheet.
  destruct (color_attr_cell sd me pre k v post c Hk Hv Hs Hb Hsheet) as (inl & Hi & Hc).
  unfold elem_fg, style_fg, cs_of, inls_of. rewrite Hd. subst me attrs. cbn [me_attrs a_attrs].
  rewrite Hi, Hc. reflexivity.
Qed.
Print Assumptions color_elem_fg.

(* the text below: in the statement of dom_colour_inherit / to_render_tree_colour a tag t has
   last_bg t = last_some (elem_bg ..) ch' None for a chain ch' of nested elements; if the
   element is in that chain and no element further in has a background of its own, the tag
   carries the attribute's colour *)
Lemma last_some_nearest {X Y} (f : X -> option Y) c1 me c2 y :
  f me = Some y -> Forall (fun m => f m = None) c2 ->
  last_some f (c1 ++ me :: c2) None = Some y.
Proof.
  intros Hm Hn. rewrite last_some_app. cbn [last_some]. rewrite Hm. apply last_some_none, Hn.
Qed.

Corollary text_below_bgcolor : forall sd d name pre k v post idx p c t c1 c2,
  let attrs := pre ++ (k, v) :: post in
  let me := mkanc name attrs idx :: p in
  d_colours d = true ->
  cps k = s_bgcolor -> parse_color_attribute v = Ok (Some c) ->
  no_attr s_style attrs = true -> no_attr s_bgcolor post = true ->
  Forall (fun d => cd_important d = false) (proj st_bg None (applicable sd me [])) ->
  Forall (fun m => elem_bg sd true inline_styles d m = None) c2 ->
  last_bg t = last_some (elem_bg sd true inline_styles d) (c1 ++ me :: c2) None ->
  last_bg t = Some c.
Proof.
  intros sd d name pre k v post idx p c t c1 c2 attrs me Hd Hk Hv Hs Hb Hsheet Hn ->.
  apply last_some_nearest; [|exact Hn].
  apply bgcolor_elem_bg; assumption.
Qed.
Print Assumptions text_below_bgcolor.

(* ================================================================== *)
(* 2. parse_color_attribute on the usual forms                          *)
(* ================================================================== *)
Definition hexc (c : chr) : Prop := is_hex (cp c) = true.
Definition hv (c : chr) : N := hex_val (cp c).

Ltac hx :=
  unfold hexc, hv, hex_val, is_hex, wsstart, identcont, is_ident_start, is_css_ws, is_lower, is_upper,
         is_digit in *; lia.

Lemma hv_lt : forall c, hexc c -> hv c < 16.
Proof. intros c H. unfold hv, hex_val. destruct (is_digit (cp c)) eqn:E1; [hx|]. destruct (97 <=? cp c) eqn:E2; hx. Qed.

Lemma lower_hex : forall c, hexc c ->
  hexc (lower_chr c) /\ hv (lower_chr c) = hv c /\ is_upper (cp (lower_chr c)) = false /\
  cp (lower_chr c) < 128 /\ (cp (lower_chr c) =? 43) = false.
Proof.
  intros c H. unfold lower_chr. destruct (is_upper (cp c)) eqn:E; cbn [cp].
  - unfold hexc, hv, hex_val in *. cbn [cp].
    assert (is_digit (cp c + 32) = false) by hx. assert (is_digit (cp c) = false) by hx.
    assert ((97 <=? cp c + 32) = true) by hx. assert ((97 <=? cp c) = false) by hx.
    rewrite H0, H1, H2, H3. repeat split; hx.
  - repeat split; try assumption; hx.
Qed.

Lemma nmchar_hex : forall c t, hexc c -> nmchar (c :: t) = POk (lower_chr c) t.
Proof.
  intros c t H. unfold nmchar, nmchar_char.
  assert (E : (cp c =? 95) || is_lower (cp c) || is_upper (cp c) || is_digit (cp c) || (cp c =? 45) = true)
    by hx.
  rewrite E. reflexivity.
Qed.

Lemma hex_many : forall s, Forall hexc s -> ManyR nmchar s (map lower_chr s) [].
Proof.
  induction 1 as [|c s Hc HF IH]; cbn [map].
  - apply MR_nil. reflexivity.
  - eapply MR_cons; [apply nmchar_hex, Hc|cbn [length]; lia|exact IH].
Qed.

Lemma identstring_hex : forall c s, Forall hexc (c :: s) ->
  parse_identstring (c :: s) = POk (map lower_chr (c :: s)) [].
Proof.
  intros c s H. unfold parse_identstring.
  rewrite skip_ws_id by (inversion H; subst; cbn [nf]; hx).
  cbn [map]. apply many1_R. apply (hex_many (c :: s)), H.
Qed.

Lemma parse_token_hash_hex : forall h c s, cp h = 35 -> Forall hexc (c :: s) ->
  parse_token (h :: c :: s) = POk (THash (map lower_chr (c :: s))) [].
Proof.
  intros h c s Hh H. unfold parse_token; cbv zeta.
  rewrite skip_ws_id by (cbn [nf]; hx). cbv beta iota.
  assert (E1 : (cp h =? 34) || (cp h =? 39) = false) by lia. rewrite E1.
  assert (E2 : (cp h =? 35) = true) by lia. rewrite E2.
  rewrite identstring_hex by exact H. reflexivity.
Qed.

(* a value that is exactly one token *)
Lemma value_toks_single : forall t tok, t <> [] -> parse_token t = POk tok [] ->
  is_close_brace tok = false -> is_semicolon tok = false ->
  parse_value t = POk ([tok], false) [].
Proof.
  intros t tok Hne Hp Hb Hs. unfold parse_value.
  assert (HV : ValR 0 t [tok] []).
  { eapply VR_cons.
    - unfold vstep. rewrite Hp, Hb, Hs. reflexivity.
    - destruct t; [congruence|cbn [length]; lia].
    - apply VR_nil. reflexivity. }
  rewrite (value_toks_R _ _ _ HV). cbn [pbind].
  assert (E : ends_important [tok] = false) by (destruct tok; reflexivity).
  rewrite E. reflexivity.
Qed.

Lemma hex_digits_fold : forall s acc, Forall hexc s ->
  parse_hex_digits (map lower_chr s) acc = Some (fold_left (fun a c => a * 16 + hv c) s acc).
Proof.
  induction s as [|c s IH]; intros acc H; cbn [map parse_hex_digits fold_left]; [reflexivity|].
  inversion H as [|? ? Hc HF]; subst. destruct (lower_hex c Hc) as (H1 & H2 & _).
  unfold hexc in H1. rewrite H1. fold (hv (lower_chr c)). rewrite H2. apply IH, HF.
Qed.

Lemma div_mod_6 : forall a b c d e f, a < 16 -> b < 16 -> c < 16 -> d < 16 -> e < 16 -> f < 16 ->
  let v := (((((0 * 16 + a) * 16 + b) * 16 + c) * 16 + d) * 16 + e) * 16 + f in
  (v <=? 4294967295) = true /\
  (v / 65536) mod 256 = a * 16 + b /\ (v / 256) mod 256 = c * 16 + d /\ v mod 256 = e * 16 + f.
Proof. intros. cbv zeta. repeat split; zify; Z.div_mod_to_equations; lia. Qed.

Lemma div_mod_3 : forall a b c, a < 16 -> b < 16 -> c < 16 ->
  let v := ((0 * 16 + a) * 16 + b) * 16 + c in
  (v <=? 4294967295) = true /\
  (((v / 256) mod 16) * 17) mod 256 = a * 17 /\ (((v / 16) mod 16) * 17) mod 256 = b * 17 /\
  ((v mod 16) * 17) mod 256 = c * 17.
Proof. intros. cbv zeta. repeat split; zify; Z.div_mod_to_equations; lia. Qed.

(* #rrggbb, hex digits of either case, any '#' character (only its code point matters) *)
Theorem color_attr_hash6 : forall h c1 c2 c3 c4 c5 c6,
  cp h = 35 -> hexc c1 -> hexc c2 -> hexc c3 -> hexc c4 -> hexc c5 -> hexc c6 ->
  parse_color_attribute [h; c1; c2; c3; c4; c5; c6] =
  Ok (Some (hv c1 * 16 + hv c2, hv c3 * 16 + hv c4, hv c5 * 16 + hv c6)).
Proof.
  intros h c1 c2 c3 c4 c5 c6 Hh H1 H2 H3 H4 H5 H6.
  assert (HF : Forall hexc [c1; c2; c3; c4; c5; c6]) by (repeat constructor; assumption).
  unfold parse_color_attribute.
  rewrite (value_toks_single _ (THash (map lower_chr [c1; c2; c3; c4; c5; c6])));
    [|discriminate|apply parse_token_hash_hex; assumption|reflexivity|reflexivity].
  cbn [fst parse_color].
  pose proof (hex_digits_fold [c1; c2; c3; c4; c5; c6] 0 HF) as HD.
  destruct (lower_hex c1 H1) as (_ & _ & _ & L1 & P1). destruct (lower_hex c2 H2) as (_ & _ & _ & L2 & _).
  destruct (lower_hex c3 H3) as (_ & _ & _ & L3 & _). destruct (lower_hex c4 H4) as (_ & _ & _ & L4 & _).
  destruct (lower_hex c5 H5) as (_ & _ & _ & L5 & _). destruct (lower_hex c6 H6) as (_ & _ & _ & L6 & _).
  assert (EU : utf8_len (map lower_chr [c1; c2; c3; c4; c5; c6]) = 6).
  { cbn [map utf8_len]. unfold utf8_len1.
    repeat match goal with |- context [?x <? 128] => replace (x <? 128) with true by lia end. reflexivity. }
  rewrite EU. change (6 =? 3) with false. change (6 =? 6) with true. cbv iota.
  cbn [map] in HD |- *. unfold parse_hex. rewrite P1, HD. cbn [fold_left].
  destruct (div_mod_6 (hv c1) (hv c2) (hv c3) (hv c4) (hv c5) (hv c6)) as (B & Q1 & Q2 & Q3);
    try (apply hv_lt; assumption).
  cbv zeta in B, Q1, Q2, Q3. rewrite B, Q1, Q2, Q3. reflexivity.
Qed.
Print Assumptions color_attr_hash6.

(* #rgb *)
Theorem color_attr_hash3 : forall h c1 c2 c3,
  cp h = 35 -> hexc c1 -> hexc c2 -> hexc c3 ->
  parse_color_attribute [h; c1; c2; c3] = Ok (Some (hv c1 * 17, hv c2 * 17, hv c3 * 17)).
Proof.
  intros h c1 c2 c3 Hh H1 H2 H3.
  assert (HF : Forall hexc [c1; c2; c3]) by (repeat constructor; assumption).
  unfold parse_color_attribute.
  rewrite (value_toks_single _ (THash (map lower_chr [c1; c2; c3])));
    [|discriminate|apply parse_token_hash_hex; assumption|reflexivity|reflexivity].
  cbn [fst parse_color].
  pose proof (hex_digits_fold [c1; c2; c3] 0 HF) as HD.
  destruct (lower_hex c1 H1) as (_ & _ & _ & L1 & P1). destruct (lower_hex c2 H2) as (_ & _ & _ & L2 & _).
  destruct (lower_hex c3 H3) as (_ & _ & _ & L3 & _).
  assert (EU : utf8_len (map lower_chr [c1; c2; c3]) = 3).
  { cbn [map utf8_len]. unfold utf8_len1.
    repeat match goal with |- context [?x <? 128] => replace (x <? 128) with true by lia end. reflexivity. }
  rewrite EU. change (3 =? 3) with true. cbv iota.
  cbn [map] in HD |- *. unfold parse_hex. rewrite P1, HD. cbn [fold_left].
  destruct (div_mod_3 (hv c1) (hv c2) (hv c3)) as (B & Q1 & Q2 & Q3); try (apply hv_lt; assumption).
  cbv zeta in B, Q1, Q2, Q3. rewrite B, Q1, Q2, Q3. reflexivity.
Qed.
Print Assumptions color_attr_hash3.

(* colour names: the model's whole table, lower case and upper case *)
Theorem color_attr_names :
  Forall (fun nc => parse_color_attribute (of_ascii (fst nc)) = Ok (Some (snd nc)) /\
                    parse_color_attribute (of_ascii (map (fun x => x - 32) (fst nc))) = Ok (Some (snd nc)))
         named_colours.
Proof.
  unfold named_colours. repeat (constructor; [split; vm_compute; reflexivity|]). constructor.
Qed.
Print Assumptions color_attr_names.
Example color_attr_names_nonvacuous :
  length named_colours = 17%nat /\
  parse_color_attribute (of_ascii [82; 101; 100]) = Ok (Some (255, 0, 0)) /\   (* "Red" *)
  parse_color_attribute (of_ascii [114; 101; 100; 100]) = Ok None.             (* "redd" *)
Proof. repeat split; vm_compute; reflexivity. Qed.

(* ---------- the faulty form: six hex digits without '#' ---------- *)
Definition u1 (c : chr) : Prop := utf8_len1 (cp c) = 1.
Lemma hex_u1 : forall c, hexc c -> u1 c.
Proof. intros c H. unfold u1, utf8_len1. replace (cp c <? 128) with true by hx. reflexivity. Qed.

Lemma byte_drop_nat : forall t k, Forall u1 t -> (k <= length t)%nat ->
  byte_drop t (N.of_nat k) = Some (skipn k t).
Proof.
  induction t as [|c t IH]; intros k HF Hk.
  - cbn [length] in Hk. assert (k = 0%nat) as -> by lia. reflexivity.
  - destruct k as [|k]; [reflexivity|]. cbn [byte_drop skipn].
    inversion HF as [|? ? Hc HF']; subst. unfold u1 in Hc. rewrite Hc.
    replace (N.of_nat (S k) =? 0) with false by lia.
    replace (1 <=? N.of_nat (S k)) with true by lia.
    replace (N.of_nat (S k) - 1) with (N.of_nat k) by lia.
    apply IH; [exact HF'|cbn [length] in Hk; lia].
Qed.
Lemma byte_take_nat : forall t k, Forall u1 t -> (k <= length t)%nat ->
  byte_take t (N.of_nat k) = Some (firstn k t).
Proof.
  induction t as [|c t IH]; intros k HF Hk.
  - cbn [length] in Hk. assert (k = 0%nat) as -> by lia. reflexivity.
  - destruct k as [|k]; [reflexivity|]. cbn [byte_take firstn].
    inversion HF as [|? ? Hc HF']; subst. unfold u1 in Hc. rewrite Hc.
    replace (N.of_nat (S k) =? 0) with false by lia.
    replace (1 <=? N.of_nat (S k)) with true by lia.
    replace (N.of_nat (S k) - 1) with (N.of_nat k) by lia.
    rewrite IH; [reflexivity|exact HF'|cbn [length] in Hk; lia].
Qed.

Lemma parse_hex_2 : forall a b, hexc a -> hexc b -> parse_hex 255 [a; b] = Some (hv a * 16 + hv b).
Proof.
  intros a b Ha Hb. unfold parse_hex. replace (cp a =? 43) with false by hx.
  cbn [parse_hex_digits]. unfold hexc in Ha, Hb. rewrite Ha, Hb. fold (hv a). fold (hv b).
  pose proof (hv_lt a Ha). pose proof (hv_lt b Hb).
  replace ((0 * 16 + hv a) * 16 + hv b <=? 255) with true by lia.
  reflexivity.
Qed.

Lemma fallback_6 : forall c1 c2 c3 c4 c5 c6,
  hexc c1 -> hexc c2 -> hexc c3 -> hexc c4 -> hexc c5 -> hexc c6 ->
  let t := [c1; c2; c3; c4; c5; c6] in
  parse_color_part t 0 2 = Some (hv c1 * 16 + hv c2) /\
  parse_color_part t 2 4 = Some (hv c3 * 16 + hv c4) /\
  parse_color_part t 4 6 = Some (hv c5 * 16 + hv c6).
Proof.
  intros c1 c2 c3 c4 c5 c6 H1 H2 H3 H4 H5 H6 t.
  assert (HF : Forall u1 t) by (subst t; repeat constructor; apply hex_u1; assumption).
  unfold parse_color_part, byte_slice. repeat split.
  - change (byte_drop t 0) with (byte_drop t (N.of_nat 0)). rewrite byte_drop_nat by (auto; subst t; cbn [length]; lia).
    cbn [skipn]. change (2 - 0) with (N.of_nat 2).
    rewrite byte_take_nat by (auto; subst t; cbn [length]; lia). subst t. cbn [firstn].
    apply parse_hex_2; assumption.
  - change (byte_drop t 2) with (byte_drop t (N.of_nat 2)). rewrite byte_drop_nat by (auto; subst t; cbn [length]; lia).
    subst t. cbn [skipn]. change (4 - 2) with (N.of_nat 2).
    rewrite byte_take_nat by (repeat constructor; try apply hex_u1; auto; cbn [length]; lia).
    cbn [firstn]. apply parse_hex_2; assumption.
  - change (byte_drop t 4) with (byte_drop t (N.of_nat 4)). rewrite byte_drop_nat by (auto; subst t; cbn [length]; lia).
    subst t. cbn [skipn]. change (6 - 4) with (N.of_nat 2).
    rewrite byte_take_nat by (repeat constructor; try apply hex_u1; auto; cbn [length]; lia).
    cbn [firstn]. apply parse_hex_2; assumption.
Qed.

Definition isdig (c : chr) : Prop := is_digit (cp c) = true.
Definition hexletter (c : chr) : Prop := hexc c /\ is_digit (cp c) = false.

Lemma parse_ident_hex : forall c s, hexletter c -> Forall hexc s ->
  parse_ident (c :: s) = POk (lower_chr c :: map lower_chr s) [].
Proof.
  intros c s [Hc Hd] Hs. unfold parse_ident; cbv zeta.
  rewrite skip_ws_id by (cbn [nf]; hx).
  rewrite ptag_hd by hx. cbn [popt pbind].
  unfold nmstart, nmstart_char.
  assert (E : (cp c =? 95) || is_lower (cp c) || is_upper (cp c) = true) by hx.
  rewrite E. cbn [palt pbind].
  rewrite (many0_R _ _ _ _ _ (hex_many s Hs)). reflexivity.
Qed.

Ltac ifs_false :=
  repeat (lazymatch goal with
          | |- (if ?b then _ else _) = _ =>
              let E := fresh "E" in assert (E : b = false) by hx; rewrite E; clear E
          end).

Lemma parse_token_identhex : forall c s, hexletter c -> Forall hexc s ->
  parse_token (c :: s) = POk (TIdent (lower_chr c :: map lower_chr s)) [].
Proof.
  intros c s Hc Hs. pose proof Hc as [Hc1 Hc2]. unfold parse_token; cbv zeta.
  rewrite skip_ws_id by (cbn [nf]; hx). cbv beta iota.
  ifs_false.
  assert (E : is_ident_start (cp c) = true) by hx. rewrite E.
  unfold parse_ident_like. rewrite parse_ident_hex by assumption. reflexivity.
Qed.

Lemma digit1_app : forall ds rest acc, Forall isdig ds -> nf is_digit rest ->
  ds <> [] \/ acc <> [] -> digit1 (ds ++ rest) acc = POk (rev acc ++ ds) rest.
Proof.
  induction ds as [|d ds IH]; intros rest acc Hd Hr Hne; cbn [app].
  - destruct Hne as [Hne|Hne]; [congruence|]. rewrite app_nil_r.
    destruct rest as [|c r]; cbn [digit1].
    + destruct acc; [congruence|reflexivity].
    + cbn [nf] in Hr. rewrite Hr. destruct acc; [congruence|reflexivity].
  - inversion Hd as [|? ? Hd1 Hd2]; subst. cbn [digit1]. unfold isdig in Hd1. rewrite Hd1.
    rewrite IH; [|exact Hd2|exact Hr|right; discriminate].
    cbn [rev]. rewrite <- app_assoc. reflexivity.
Qed.

Definition numtok (k : token) : Prop :=
  (exists a, k = TNumber a) \/ (exists a b, k = TDimension a b).

Lemma parse_token_digit : forall d t, isdig d ->
  parse_token (d :: t) = parse_numeric_token (d :: t).
Proof.
  intros d t Hd1. unfold isdig in Hd1. unfold parse_token; cbv zeta.
  rewrite skip_ws_id by (cbn [nf]; hx). cbv beta iota.
  ifs_false. rewrite Hd1. reflexivity.
Qed.

Lemma recognize_digits : forall d ds rest, Forall isdig (d :: ds) -> nf is_digit rest ->
  recognize_number ((d :: ds) ++ rest) =
  POk (firstn (length ((d :: ds) ++ rest) - length rest) ((d :: ds) ++ rest)) rest.
Proof.
  intros d ds rest Hd Hnf.
  assert (Hd1 : isdig d) by (inversion Hd; assumption). unfold isdig in Hd1.
  unfold recognize_number, parse_number; cbv zeta.
  rewrite skip_ws_id by (cbn [app nf]; hx).
  cbn [app]. rewrite (ptag_hd 45) by hx. rewrite (ptag_hd 43) by hx. cbn [palt popt pbind].
  change (d :: ds ++ rest) with ((d :: ds) ++ rest).
  rewrite digit1_app; [|exact Hd|exact Hnf|left; discriminate].
  reflexivity.
Qed.

Lemma parse_token_digithex : forall d ds rest,
  Forall isdig (d :: ds) -> Forall hexc rest ->
  (rest = [] \/ exists c r, rest = c :: r /\ hexletter c) ->
  exists tok, parse_token ((d :: ds) ++ rest) = POk tok [] /\ numtok tok.
Proof.
  intros d ds rest Hd Hr Hrest.
  assert (Hd1 : isdig d) by (inversion Hd; assumption).
  assert (Hnf : nf is_digit rest).
  { destruct Hrest as [->|(c & r & -> & _ & Hc)]; [exact I|exact Hc]. }
  change ((d :: ds) ++ rest) with (d :: ds ++ rest). rewrite parse_token_digit by exact Hd1.
  change (d :: ds ++ rest) with ((d :: ds) ++ rest).
  unfold parse_numeric_token. rewrite recognize_digits by assumption. cbn [pbind].
  destruct Hrest as [->|(c & r & -> & Hc)].
  - eexists. split; [reflexivity|]. left. eexists. reflexivity.
  - pose proof Hc as [Hc1 Hc2].
    rewrite (ptag_hd 37) by hx.
    rewrite parse_ident_hex; [|exact Hc|inversion Hr; assumption].
    eexists. split; [reflexivity|]. right. eexists. eexists. reflexivity.
Qed.

Lemma hex_split : forall s, Forall hexc s ->
  exists ds rest, s = ds ++ rest /\ Forall isdig ds /\ Forall hexc rest /\
                  (rest = [] \/ exists c r, rest = c :: r /\ hexletter c).
Proof.
  induction 1 as [|c s Hc HF IH].
  - exists [], []. repeat split; auto.
  - destruct (is_digit (cp c)) eqn:E.
    + destruct IH as (ds & rest & -> & H1 & H2 & H3). exists (c :: ds), rest.
      repeat split; auto.
    + exists [], (c :: s). repeat split; auto. right. exists c, s. repeat split; auto.
Qed.

Lemma lookup_hex6_none : forall c1 c2 c3 c4 c5 c6,
  hexc c1 -> hexc c2 -> hexc c3 -> hexc c4 -> hexc c5 -> hexc c6 ->
  lookup_colour (map lower_chr [c1; c2; c3; c4; c5; c6]) named_colours = None.
Proof.
  intros c1 c2 c3 c4 c5 c6 H1 H2 H3 H4 H5 H6.
  assert (B : forall c, hexc c ->
              (48 <= cp (lower_chr c) <= 57) \/ (97 <= cp (lower_chr c) <= 102)).
  { intros c H. destruct (lower_hex c H) as (A1 & _ & A2 & _). hx. }
  pose proof (B c1 H1) as B1. pose proof (B c2 H2) as B2. pose proof (B c3 H3) as B3.
  pose proof (B c4 H4) as B4. pose proof (B c5 H5) as B5. pose proof (B c6 H6) as B6.
  clear B H1 H2 H3 H4 H5 H6.
  cbn [map]. unfold lookup_colour, named_colours, is_ascii_str, cps. cbn [map lN_eqb].
  set (x1 := cp (lower_chr c1)) in *. set (x2 := cp (lower_chr c2)) in *.
  set (x3 := cp (lower_chr c3)) in *. set (x4 := cp (lower_chr c4)) in *.
  set (x5 := cp (lower_chr c5)) in *. set (x6 := cp (lower_chr c6)) in *.
  clearbody x1 x2 x3 x4 x5 x6.
  repeat (lazymatch goal with
          | |- (if ?b then _ else _) = _ =>
              let E := fresh "E" in assert (E : b = false) by lia; rewrite E; clear E
          end).
  reflexivity.
Qed.

(* THE FAULTY FORM rrggbb (no '#'): the value is read as a number / dimension / identifier
   token, which is no colour, and the fallback slices the trimmed attribute text.
   Hypothesis ws c1 = ws c6 = false: the harness-supplied white-space flag (char::is_whitespace)
   of the first and last digit, which `trim` consults; it is false for every hex digit. *)
Theorem color_attr_nohash6 : forall c1 c2 c3 c4 c5 c6,
  hexc c1 -> hexc c2 -> hexc c3 -> hexc c4 -> hexc c5 -> hexc c6 ->
  ws c1 = false -> ws c6 = false ->
  parse_color_attribute [c1; c2; c3; c4; c5; c6] =
  Ok (Some (hv c1 * 16 + hv c2, hv c3 * 16 + hv c4, hv c5 * 16 + hv c6)).
Proof.
  intros c1 c2 c3 c4 c5 c6 H1 H2 H3 H4 H5 H6 W1 W6.
  assert (HV : exists toks, parse_value [c1; c2; c3; c4; c5; c6] = POk (toks, false) [] /\
                            parse_color toks = None).
  { assert (HF : Forall hexc [c2; c3; c4; c5; c6]) by (repeat constructor; assumption).
    destruct (is_digit (cp c1)) eqn:E.
    - destruct (hex_split _ HF) as (ds & rest & Hs & Hds & Hrest & Hcase).
      change [c1; c2; c3; c4; c5; c6] with (c1 :: [c2; c3; c4; c5; c6]). rewrite Hs.
      change (c1 :: ds ++ rest) with ((c1 :: ds) ++ rest).
      destruct (parse_token_digithex c1 ds rest) as (tok & Ht & Hn); [constructor; assumption|assumption|assumption|].
      exists [tok]. split.
      + apply value_toks_single; [discriminate|exact Ht| |];
          destruct Hn as [(a & ->)|(a & b & ->)]; reflexivity.
      + destruct Hn as [(a & ->)|(a & b & ->)]; reflexivity.
    - eexists. split.
      + apply value_toks_single; [discriminate|apply parse_token_identhex; [split; assumption|exact HF]| |];
          reflexivity.
      + cbn [parse_color]. apply (lookup_hex6_none c1 c2 c3 c4 c5 c6); assumption. }
  destruct HV as (toks & HV & HC).
  unfold parse_color_attribute. rewrite HV. cbn [fst]. rewrite HC.
  unfold trim. cbn [drop_ws]. rewrite W1. cbn [rev app drop_ws]. rewrite W6. cbn [rev app].
  destruct (fallback_6 c1 c2 c3 c4 c5 c6 H1 H2 H3 H4 H5 H6) as (F1 & F2 & F3). cbv zeta in F1, F2, F3.
  rewrite F1, F2, F3. reflexivity.
Qed.
Print Assumptions color_attr_nohash6.

(* consequently "00aabb" and "#00aabb" give the same colour, for all digits *)
Corollary color_attr_hash_optional : forall h c1 c2 c3 c4 c5 c6,
  cp h = 35 -> hexc c1 -> hexc c2 -> hexc c3 -> hexc c4 -> hexc c5 -> hexc c6 ->
  ws c1 = false -> ws c6 = false ->
  parse_color_attribute [c1; c2; c3; c4; c5; c6] = parse_color_attribute [h; c1; c2; c3; c4; c5; c6].
Proof. intros. rewrite color_attr_hash6, color_attr_nohash6 by assumption. reflexivity. Qed.

Example color_attr_forms :
  parse_color_attribute (of_ascii [35;48;48;97;65;98;66]) = Ok (Some (0, 170, 187)) /\  (* #00aAbB *)
  parse_color_attribute (of_ascii [48;48;97;65;98;66]) = Ok (Some (0, 170, 187)) /\     (* 00aAbB *)
  parse_color_attribute (of_ascii [102;102;48;48;70;70]) = Ok (Some (255, 0, 255)) /\   (* ff00FF *)
  parse_color_attribute (of_ascii [35;102;48;97]) = Ok (Some (255, 0, 170)) /\          (* #f0a *)
  hv (mk 70 1) = 15 /\ hv (mk 97 1) = 10 /\ hv (mk 57 1) = 9.
Proof. repeat split; vm_compute; reflexivity. Qed.

Module AttrColoursExamples.
Import PruneExamples CascadeDomExamples.
Import String Ascii.
Local Open Scope string_scope.

(* <style>table{background-color:#010101} td{color:#020202}</style>
   <table bgcolor="#00aabb"><tbody><tr><td color=red>x   (the model's DOM is the one the HTML
   parser builds: with the <tbody>; a <tr> directly under <table> yields no table) *)
Definition doc_a : list node :=
  [el "style" [] [tx "table{background-color:#010101} td{color:#020202}"];
   el "table" [("bgcolor", "#00aabb")]
      [el "tbody" [] [el "tr" [] [el "td" [("color", "red")] [tx "x"]]]]].
Definition sd_a : styledata := the_sd cfgr doc_a.
Definition tree_a : rnode :=
  match to_render_tree inline_styles doc_rules cfgr doc_a with Ok tr => tr | _ => rn_new IBreak end.
Example tree_a_eq : to_render_tree inline_styles doc_rules cfgr doc_a = Ok tree_a.
Proof. vm_compute. reflexivity. Qed.
Example obs_a : ab_obs (render_tree rich_deco 3 ab_opts 20 tree_a) =
  Ok [[([9472], [ABg 0 170 187])];
      [([120], [ABg 0 170 187; AColour 255 0 0])];
      [([9472], [ABg 0 170 187])]]%N.
Proof. vm_compute. reflexivity. Qed.
Example inline_a :
  inline_styles [(t "id", t "q"); (t "bgcolor", t "#00aabb"); (t "color", t "red"); (t "bgcolor", t "zzz")]
  = Ok [bg_decl (0, 170, 187); colour_decl (255, 0, 0)]%N.
Proof. vm_compute. reflexivity. Qed.
Definition pos_table_a : list anc := [mkanc (t "table") [(t "bgcolor", t "#00aabb")] 2%Z].
Definition pos_td_a : list anc :=
  mkanc (t "td") [(t "color", t "red")] 1%Z :: mkanc (t "tr") [] 1%Z :: mkanc (t "tbody") [] 1%Z :: pos_table_a.
(* the sheet has a (non-important) background declaration for the table: the attribute wins *)
Example sheet_a : proj st_bg None (applicable sd_a pos_table_a []) =
  [mkcd false OAuthor (mkspec false 0 0 1) (1, 1, 1)]%N.
Proof. vm_compute. reflexivity. Qed.
Example bg_a : elem_bg sd_a true inline_styles rich_deco pos_table_a = Some (0, 170, 187)%N.
Proof.
  apply (bgcolor_elem_bg sd_a rich_deco (t "table") [] (t "bgcolor") (t "#00aabb") [] 2%Z []);
    try (vm_compute; reflexivity).
  vm_compute. repeat constructor.
Qed.
Example fg_a : elem_fg sd_a true inline_styles rich_deco pos_td_a = Some (255, 0, 0)%N.
Proof.
  apply (color_elem_fg sd_a rich_deco (t "td") [] (t "color") (t "red") [] 1%Z);
    try (vm_compute; reflexivity).
  vm_compute. repeat constructor.
Qed.
(* the seeded change (bgcolor merged as text colour) contradicts bgcolor_attr_other_cells:
   without the attribute the table has no colour, with it the colour cell must be the same *)
Example colour_a : ws_val (c_colour (cs_core (cs_of sd_a true inline_styles pos_table_a))) = None.
Proof.
  destruct (bgcolor_attr_other_cells [(t "bgcolor", t "#00aabb")] [bg_decl (0, 170, 187)%N])
    as (inl' & Hi & H); [vm_compute; reflexivity|].
  vm_compute in Hi. injection Hi as <-.
  destruct (H sd_a pos_table_a None) as (Hc & _). cbv zeta in Hc.
  change (cs_of sd_a true inline_styles pos_table_a)
    with (computed_style sd_a pos_table_a
            (inls_of true inline_styles (me_attrs pos_table_a))).
  replace (inls_of true inline_styles (me_attrs pos_table_a)) with [bg_decl (0, 170, 187)%N]
    by (vm_compute; reflexivity).
  cbn [core_at] in Hc. rewrite Hc. vm_compute. reflexivity.
Qed.
End AttrColoursExamples.
