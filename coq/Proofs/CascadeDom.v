(* Proofs/CascadeDom.v -- property C19 at the DOM level: the missing link between
   CascadeProof (the cascade cell in isolation), SelectorProof (selector matching) and
   Inherit (colours in the render tree).

   PART 1 (computed_style).  `applicable sd p inl` is the explicit list of all declarations
   that apply to the element at position p (= the element followed by its ancestors), in the
   order in which the model feeds them: for the agent, user and author sheet in that order,
   for every rule of the sheet in source order whose selector matches p (`sel_matches`, i.e.
   `do_matches`), every declaration of the rule in source order, with the rule's origin, the
   selector's specificity and pseudo-element; then the declarations of the element's
   style / color / bgcolor attributes (`inl`) as author declarations with the inline
   specificity.  For every property cell (colour, background, display, white-space, content;
   the display cell has values in bool, true = `none`, false = any other display value, and
   display declarations of BOTH kinds take part in its cascade), of the element itself and of its ::before / ::after pseudo-elements:
        cell (computed_style sd p inl) = fold_left feed (proj which f (applicable sd p inl)) ws_default
   (`computed_cell`), hence by CascadeProof: the cell is empty iff no declaration of that
   property applies, else it is that of THE winner (`computed_cell_winner`, `cascade_value`):
   the declaration with the maximal key (layer, inline, ids, classes, types), the last one among
   those with that key.  The key is spelled out in `layer_table`, `key_lt_iff`, `spec_lt_iff`,
   `specificity_counts`, `applicable_keys`.

   PART 2 (process).  For every DOM, every style data, every CSS front end:
   `process_elem_holds`: an element that yields a node yields a node that carries exactly
   `cs_of me` (= computed_style of its position; for <pre> with the built-in white-space
   default added), possibly wrapped in unstyled containers next to a fragment marker or
   pseudo-element text.
   `process_kids_paths` / `dom_tree_paths`: the styles along EVERY path of the render tree
   (Inherit.path_from) are, in order, the computed styles of a chain of nested DOM elements
   (`in_dom`), interleaved with unstyled nodes (`cstyle0`: text, markers, wrappers), where only
   <thead>/<tbody> elements of the chain may be missing (their rows are spliced into the table).
   `dom_colour_inherit`, `to_render_tree_colour`: with Inherit.render_tree_colour_inherit:
   every tag in the output of render_tree on the tree of a document is [] (padding),
   [ADefault] (footnote list) or belongs to a chain of nested DOM elements such that its last
   colour annotation is the WINNER of the colour declarations applicable to the nearest element
   of the chain that has one (thead/tbody possibly left out).

   FINDINGS / OBSERVATIONS: section 9. *)
From Coq Require Import Lia ZifyN ZifyBool ZifyNat.
From H2T Require Import Base Tagged Wrap Sub Css Dom Render Api CssParse.
From H2T Require Import Spec.Cascade Spec.Selector.
From H2T Require Import Proofs.CascadeProof Proofs.SelectorProof Proofs.Prune.
From H2T Require Import Proofs.RenderWidth Proofs.AnnBalance Proofs.Inherit.

Local Arguments N.add : simpl never.
Local Arguments N.sub : simpl never.
Local Arguments N.leb : simpl never.
Local Arguments N.ltb : simpl never.
Local Arguments N.eqb : simpl never.
Local Arguments N.max : simpl never.
Local Arguments N.min : simpl never.
Local Open Scope N_scope.

(* ================================================================== *)
(* 1. The list of applicable declarations                              *)
(* ================================================================== *)

(* a declaration as merge_computed_style receives it *)
Record gdecl := mkg {
  g_imp : bool; g_origin : origin; g_spec : spec; g_pseudo : option pseudo; g_style : style }.

Definition decl_of (o : origin) (sp : spec) (ps : option pseudo) (d : styledecl) : gdecl :=
  mkg (sd_important d) o sp ps (sd_style d).

(* the declarations of one rule, if its selector matches *)
Definition rule_decls (o : origin) (p : list anc) (r : ruleset) : list gdecl :=
  if sel_matches (rs_sel r) p
  then map (decl_of o (specificity (rs_sel r)) (pseudo_el (rs_sel r))) (rs_styles r)
  else [].
Definition sheet_decls (o : origin) (rules : list ruleset) (p : list anc) : list gdecl :=
  flat_map (rule_decls o p) rules.
(* style / color / bgcolor attributes: author origin, inline specificity, no pseudo-element *)
Definition inline_decls (inl : list styledecl) : list gdecl :=
  map (decl_of OAuthor spec_inline None) inl.

(* ALL declarations that apply to the element at p, in the order the model feeds them *)
Definition applicable (sd : styledata) (p : list anc) (inl : list styledecl) : list gdecl :=
  sheet_decls OAgent (agent_rules sd) p ++ sheet_decls OUser (user_rules sd) p ++
  sheet_decls OAuthor (author_rules sd) p ++ inline_decls inl.

Definition gfeed (cs : cstyle) (g : gdecl) : cstyle :=
  merge_computed_style cs (g_imp g) (g_origin g) (g_spec g) (g_pseudo g) (g_style g).

Lemma fold_left_map_gen {A B C} (f : A -> C -> A) (g : B -> C) l : forall a,
  fold_left f (map g l) a = fold_left (fun a x => f a (g x)) l a.
Proof. induction l as [|x l IH]; intros a; cbn [map fold_left]; [reflexivity|apply IH]. Qed.

Lemma apply_rules_decls : forall o rules p cs,
  apply_rules o rules p cs = fold_left gfeed (sheet_decls o rules p) cs.
Proof.
  induction rules as [|r rules IH]; intros p cs; [reflexivity|].
  cbn [apply_rules sheet_decls flat_map]. fold (sheet_decls o rules p).
  rewrite fold_left_app, IH. f_equal. unfold rule_decls.
  destruct (sel_matches (rs_sel r) p); [|reflexivity].
  rewrite fold_left_map_gen. reflexivity.
Qed.

Theorem computed_style_applicable : forall sd p inl,
  computed_style sd p inl = fold_left gfeed (applicable sd p inl) cstyle0.
Proof.
  intros sd p inl. unfold computed_style, applicable.
  rewrite !fold_left_app, <- !apply_rules_decls. unfold inline_decls.
  rewrite fold_left_map_gen. reflexivity.
Qed.

(* ---------- what is in the list ---------- *)
Lemma in_sheet_decls : forall o rules p g,
  In g (sheet_decls o rules p) <->
  exists r d, In r rules /\ sel_matches (rs_sel r) p = true /\ In d (rs_styles r) /\
              g = decl_of o (specificity (rs_sel r)) (pseudo_el (rs_sel r)) d.
Proof.
  intros o rules p g. unfold sheet_decls. rewrite in_flat_map. split.
  - intros (r & Hr & Hg). unfold rule_decls in Hg.
    destruct (sel_matches (rs_sel r) p) eqn:E; [|destruct Hg].
    apply in_map_iff in Hg. destruct Hg as (d & <- & Hd). exists r, d. auto.
  - intros (r & d & Hr & Hm & Hd & ->). exists r. split; [exact Hr|].
    unfold rule_decls. rewrite Hm. apply in_map. exact Hd.
Qed.

(* a declaration applies iff it stands in a rule of one of the three sheets whose selector
   matches the element, or in the element's own attributes *)
Theorem in_applicable : forall sd p inl g,
  In g (applicable sd p inl) <->
  (exists o rules r d,
      ((o = OAgent /\ rules = agent_rules sd) \/ (o = OUser /\ rules = user_rules sd) \/
       (o = OAuthor /\ rules = author_rules sd)) /\
      In r rules /\ sel_matches (rs_sel r) p = true /\ In d (rs_styles r) /\
      g = decl_of o (specificity (rs_sel r)) (pseudo_el (rs_sel r)) d) \/
  (exists d, In d inl /\ g = decl_of OAuthor spec_inline None d).
Proof.
  intros sd p inl g. unfold applicable. rewrite !in_app_iff, !in_sheet_decls. split.
  - intros [H|[H|[H|H]]].
    + destruct H as (r & d & H). left. exists OAgent, (agent_rules sd), r, d. tauto.
    + destruct H as (r & d & H). left. exists OUser, (user_rules sd), r, d. tauto.
    + destruct H as (r & d & H). left. exists OAuthor, (author_rules sd), r, d. tauto.
    + right. apply in_map_iff in H. destruct H as (d & <- & Hd). exists d. auto.
  - intros [(o & rules & r & d & [[-> ->]|[[-> ->]|[-> ->]]] & H)|(d & Hd & ->)].
    + left. exists r, d. exact H.
    + right. left. exists r, d. exact H.
    + right. right. left. exists r, d. exact H.
    + right. right. right. apply in_map. exact Hd.
Qed.

(* ... with the relational selector semantics of Spec/Selector.v (SelectorProof.c20_match) *)
Corollary rule_applies_iff : forall (s : sel) ps p, wf s ->
  (sel_matches (mksel (flatten s) ps) p = true <-> matches s p).
Proof. intros s ps p Hwf. unfold sel_matches. cbn [comps]. apply c20_match, Hwf. Qed.

Lemma specificity_not_inline_gen : forall cs acc,
  sp_inline (specificity_of cs acc) = sp_inline acc.
Proof.
  induction cs as [|c cs IH]; intros acc; [reflexivity|].
  cbn [specificity_of]. rewrite IH. destruct c; reflexivity.
Qed.
Lemma specificity_not_inline : forall s, sp_inline (specificity s) = false.
Proof. intros s. apply specificity_not_inline_gen. Qed.

(* the origin / inline part of every applicable declaration *)
Theorem applicable_keys : forall sd p inl g, In g (applicable sd p inl) ->
  (g_origin g = OAgent \/ g_origin g = OUser \/ g_origin g = OAuthor) /\
  (sp_inline (g_spec g) = true -> g_origin g = OAuthor /\ g_spec g = spec_inline /\ g_pseudo g = None).
Proof.
  intros sd p inl g H. apply in_applicable in H.
  destruct H as [(o & rules & r & d & Ho & _ & _ & _ & ->)|(d & _ & ->)]; cbn [decl_of g_origin g_spec g_pseudo].
  - split; [destruct Ho as [[-> _]|[[-> _]|[-> _]]]; auto|].
    rewrite specificity_not_inline. discriminate.
  - auto.
Qed.

(* ================================================================== *)
(* 2. Projection to one property and one (pseudo-)element              *)
(* ================================================================== *)

Definition pseudo_eqb (a b : option pseudo) : bool :=
  match a, b with
  | None, None => true
  | Some PBefore, Some PBefore => true
  | Some PAfter, Some PAfter => true
  | _, _ => false
  end.

(* the cells of the element (None) or of its ::before / ::after pseudo-element *)
Definition core_at (which : option pseudo) (cs : cstyle) : cscore :=
  match which with
  | None => cs_core cs
  | Some PBefore => match cs_before cs with Some c => c | None => core0 end
  | Some PAfter => match cs_after cs with Some c => c | None => core0 end
  end.

(* the five properties *)
Definition st_colour (s : style) : option (N * N * N) :=
  match s with SColour r g b => Some (r, g, b) | _ => None end.
Definition st_bg (s : style) : option (N * N * N) :=
  match s with SBgColour r g b => Some (r, g, b) | _ => None end.
(* display: true = `none`, false = any other value; BOTH kinds are declarations of the cascade *)
Definition st_display (s : style) : option bool :=
  match s with SDisplay b => Some b | _ => None end.
Definition st_ws (s : style) : option wsmode :=
  match s with SWhiteSpace m => Some m | _ => None end.
Definition st_content (s : style) : option text :=
  match s with SContent t => Some t | _ => None end.

Section Proj.
  Context {A : Type}.
  Variable f : style -> option A.            (* the value a declaration gives the property *)
  Variable get : cscore -> withspec A.       (* the property's cell *)

  (* f / get name the same property *)
  Definition lens : Prop :=
    get core0 = ws_default /\
    forall c imp o sp st,
      get (merge_core c imp o sp st) =
      match f st with Some v => maybe_update (get c) imp o sp v | None => get c end.

  Definition proj_decl (which : option pseudo) (g : gdecl) : list (cdecl A) :=
    if pseudo_eqb (g_pseudo g) which
    then match f (g_style g) with
         | Some v => [mkcd (g_imp g) (g_origin g) (g_spec g) v]
         | None => []
         end
    else [].
  (* the declarations of this property for this (pseudo-)element, in feeding order *)
  Definition proj (which : option pseudo) (l : list gdecl) : list (cdecl A) :=
    flat_map (proj_decl which) l.

  Hypothesis HL : lens.

  Lemma gfeed_core_at : forall which cs g,
    get (core_at which (gfeed cs g)) = fold_left feed (proj_decl which g) (get (core_at which cs)).
  Proof.
    intros which cs [imp o sp ps st]. destruct HL as [_ HM].
    unfold gfeed, proj_decl, merge_computed_style. cbn [g_imp g_origin g_spec g_pseudo g_style].
    destruct ps as [[|]|], which as [[|]|]; cbn [pseudo_eqb core_at cs_core cs_before cs_after fold_left];
      try reflexivity; rewrite HM; destruct (f st); reflexivity.
  Qed.

  Lemma fold_core_at : forall which l cs,
    get (core_at which (fold_left gfeed l cs)) =
    fold_left feed (proj which l) (get (core_at which cs)).
  Proof.
    intros which. induction l as [|g l IH]; intros cs; [reflexivity|].
    cbn [fold_left proj flat_map]. fold (proj which l).
    rewrite fold_left_app, IH, gfeed_core_at. reflexivity.
  Qed.

  (* THE CELL = the fold of the cascade step over the applicable declarations *)
  Theorem computed_cell : forall which sd p inl,
    get (core_at which (computed_style sd p inl)) =
    fold_left feed (proj which (applicable sd p inl)) ws_default.
  Proof.
    intros which sd p inl. rewrite computed_style_applicable, fold_core_at.
    f_equal. destruct HL as [H0 _]. destruct which as [[|]|]; exact H0.
  Qed.

  Lemma proj_real_origin : forall which l,
    Forall (fun g => g_origin g <> ONone) l -> Forall real_origin (proj which l).
  Proof.
    intros which l H. apply Forall_forall. intros d Hd. unfold proj in Hd.
    apply in_flat_map in Hd. destruct Hd as (g & Hg & Hd).
    rewrite Forall_forall in H. specialize (H g Hg). unfold proj_decl in Hd.
    destruct (pseudo_eqb (g_pseudo g) which); [|destruct Hd].
    destruct (f (g_style g)); [|destruct Hd].
    destruct Hd as [<-|[]]. exact H.
  Qed.

  Lemma applicable_real : forall sd p inl, Forall (fun g => g_origin g <> ONone) (applicable sd p inl).
  Proof.
    intros sd p inl. apply Forall_forall. intros g Hg.
    destruct (applicable_keys sd p inl g Hg) as [[E|[E|E]] _]; rewrite E; discriminate.
  Qed.

  (* the value the CSS cascade gives a list of declarations of one property: none if the list
     is empty, else the value of the winner (maximal key, last among equals) *)
  Definition cascade_value (l : list (cdecl A)) (v : option A) : Prop :=
    (l = [] /\ v = None) \/
    exists i d, nth_error l i = Some d /\ is_winner l i /\ v = Some (cd_val d).

  Lemma cascade_value_fun : forall l v w, cascade_value l v -> cascade_value l w -> v = w.
  Proof.
    intros l v w [[-> ->]|(i & d & Hn & Hw & ->)] [[E ->]|(j & e & Hm & Hv & ->)]; try reflexivity.
    - destruct j; discriminate.
    - subst l. destruct i; discriminate.
    - pose proof (c19_winner_unique _ _ _ _ Hw Hv) as <-. congruence.
  Qed.

  (* THE CELL IS THE WINNER'S (whole cell: value, origin, specificity, importance) *)
  Theorem computed_cell_winner : forall which sd p inl,
    let l := proj which (applicable sd p inl) in
    let cell := get (core_at which (computed_style sd p inl)) in
    (l = [] /\ cell = ws_default) \/
    (exists i d, nth_error l i = Some d /\ is_winner l i /\ cell = cell_of d).
  Proof.
    intros which sd p inl. cbv zeta. rewrite computed_cell.
    destruct (proj which (applicable sd p inl)) as [|d0 l0] eqn:El; [left; auto|right].
    rewrite <- El.
    apply c19_cascade_cell; [rewrite El; discriminate|].
    apply proj_real_origin, applicable_real.
  Qed.

  Corollary computed_value : forall which sd p inl,
    cascade_value (proj which (applicable sd p inl))
                  (ws_val (get (core_at which (computed_style sd p inl)))).
  Proof.
    intros which sd p inl.
    destruct (computed_cell_winner which sd p inl) as [[E ->]|(i & d & Hn & Hw & ->)].
    - left. auto.
    - right. exists i, d. auto.
  Qed.

  (* no applicable declaration of the property <-> the cell is empty (nothing to inherit from
     the cascade: the value then comes from the enclosing elements, see part 2) *)
  Corollary computed_none_iff : forall which sd p inl,
    ws_val (get (core_at which (computed_style sd p inl))) = None <->
    proj which (applicable sd p inl) = [].
  Proof.
    intros which sd p inl.
    destruct (computed_cell_winner which sd p inl) as [[E ->]|(i & d & Hn & Hw & ->)].
    - split; auto.
    - split; [discriminate|]. intros E. rewrite E in Hn. destruct i; discriminate.
  Qed.
End Proj.

(* the five instances *)
Lemma lens_colour : lens st_colour c_colour.
Proof. split; [reflexivity|]. intros c imp o sp []; reflexivity. Qed.
Lemma lens_bg : lens st_bg c_bg.
Proof. split; [reflexivity|]. intros c imp o sp []; reflexivity. Qed.
Lemma lens_display : lens st_display c_display.
Proof. split; [reflexivity|]. intros c imp o sp []; reflexivity. Qed.
Lemma lens_ws : lens st_ws c_white_space.
Proof. split; [reflexivity|]. intros c imp o sp []; reflexivity. Qed.
Lemma lens_content : lens st_content c_content.
Proof. split; [reflexivity|]. intros c imp o sp []; reflexivity. Qed.

(* ALL cells of the element and of its pseudo-elements *)
Theorem c19_dom_cascade : forall which sd p inl,
  let ap := applicable sd p inl in
  let c := core_at which (computed_style sd p inl) in
  cascade_value (proj st_colour which ap) (ws_val (c_colour c)) /\
  cascade_value (proj st_bg which ap) (ws_val (c_bg c)) /\
  cascade_value (proj st_display which ap) (ws_val (c_display c)) /\
  cascade_value (proj st_ws which ap) (ws_val (c_white_space c)) /\
  cascade_value (proj st_content which ap) (ws_val (c_content c)).
Proof.
  intros which sd p inl. cbv zeta. repeat split.
  - apply (computed_value _ _ lens_colour).
  - apply (computed_value _ _ lens_bg).
  - apply (computed_value _ _ lens_display).
  - apply (computed_value _ _ lens_ws).
  - apply (computed_value _ _ lens_content).
Qed.

(* the remaining fields of the computed style *)
Lemma gfeed_pre : forall l cs, cs_internal_pre (fold_left gfeed l cs) = cs_internal_pre cs.
Proof.
  induction l as [|g l IH]; intros cs; [reflexivity|]. cbn [fold_left]. rewrite IH.
  unfold gfeed, merge_computed_style. destruct (g_pseudo g) as [[|]|]; reflexivity.
Qed.
Theorem computed_not_pre : forall sd p inl, cs_internal_pre (computed_style sd p inl) = false.
Proof. intros. rewrite computed_style_applicable, gfeed_pre. reflexivity. Qed.

Lemma gfeed_before_none : forall l cs,
  cs_before (fold_left gfeed l cs) = None <->
  cs_before cs = None /\ Forall (fun g => g_pseudo g <> Some PBefore) l.
Proof.
  induction l as [|g l IH]; intros cs; cbn [fold_left].
  - split; [intros H; split; [exact H|constructor]|tauto].
  - rewrite IH, Forall_cons_iff. unfold gfeed, merge_computed_style.
    destruct (g_pseudo g) as [[|]|]; cbn [cs_before]; intuition (try discriminate; try congruence).
Qed.
Lemma gfeed_after_none : forall l cs,
  cs_after (fold_left gfeed l cs) = None <->
  cs_after cs = None /\ Forall (fun g => g_pseudo g <> Some PAfter) l.
Proof.
  induction l as [|g l IH]; intros cs; cbn [fold_left].
  - split; [intros H; split; [exact H|constructor]|tauto].
  - rewrite IH, Forall_cons_iff. unfold gfeed, merge_computed_style.
    destruct (g_pseudo g) as [[|]|]; cbn [cs_after]; intuition (try discriminate; try congruence).
Qed.
(* the element has a ::before (::after) style iff some applicable declaration is for it *)
Theorem computed_before_none : forall sd p inl,
  cs_before (computed_style sd p inl) = None <->
  Forall (fun g => g_pseudo g <> Some PBefore) (applicable sd p inl).
Proof. intros. rewrite computed_style_applicable, gfeed_before_none. cbn. tauto. Qed.
Theorem computed_after_none : forall sd p inl,
  cs_after (computed_style sd p inl) = None <->
  Forall (fun g => g_pseudo g <> Some PAfter) (applicable sd p inl).
Proof. intros. rewrite computed_style_applicable, gfeed_after_none. cbn. tauto. Qed.

(* ================================================================== *)
(* 3. The cascade key of the model, spelled out                        *)
(* ================================================================== *)

(* importance and origin: agent < user < author < author! < user! < agent!  (the order of the
   property text) *)
Lemma layer_table : forall (A : Type) (s : spec) (v : A),
  layer (mkcd false OAgent s v) = 1 /\ layer (mkcd false OUser s v) = 2 /\
  layer (mkcd false OAuthor s v) = 3 /\ layer (mkcd true OAuthor s v) = 4 /\
  layer (mkcd true OUser s v) = 5 /\ layer (mkcd true OAgent s v) = 6.
Proof. intros. repeat split. Qed.

(* then specificity, of which the inline flag is the first component *)
Lemma key_lt_iff : forall (A : Type) (d e : cdecl A),
  key_lt d e = true <->
  layer d < layer e \/ (layer d = layer e /\ spec_lt (cd_spec d) (cd_spec e) = true).
Proof.
  intros A d e. rewrite key_lt_unfold, orb_true_iff, andb_true_iff, N.ltb_lt, N.eqb_eq. tauto.
Qed.

Lemma spec_lt_iff : forall a b,
  spec_lt a b = true <->
  (sp_inline a = false /\ sp_inline b = true) \/
  (sp_inline a = sp_inline b /\
   (sp_id a < sp_id b \/
    (sp_id a = sp_id b /\
     (sp_class a < sp_class b \/ (sp_class a = sp_class b /\ sp_typ a < sp_typ b))))).
Proof.
  intros [ia da ca ta] [ib db cb tb]. unfold spec_lt. cbn [sp_inline sp_id sp_class sp_typ].
  destruct ia, ib;
    destruct (N.ltb_spec da db), (N.ltb_spec db da), (N.ltb_spec ca cb), (N.ltb_spec cb ca),
             (N.ltb_spec ta tb);
    split; intros HH; try discriminate; try reflexivity; try lia;
    try (right; split; [reflexivity|lia]);
    try (left; split; reflexivity);
    try (destruct HH as [[? ?]|[? ?]]; try discriminate; lia).
Qed.

(* specificity of a selector: ids = #hash components; classes = .class and :nth-child(..)
   components; types = element names; `*`, combinators and the pseudo-ELEMENT count nothing *)
Definition cnt (f : comp -> bool) (cs : list comp) : N := N.of_nat (length (filter f cs)).
Definition is_hash (c : comp) : bool := match c with CHash _ => true | _ => false end.
Definition is_cls (c : comp) : bool :=
  match c with CClass _ | CNthChild _ _ => true | _ => false end.
Definition is_elt (c : comp) : bool := match c with CElement _ => true | _ => false end.

Lemma specificity_of_counts : forall cs acc,
  specificity_of cs acc =
  mkspec (sp_inline acc) (sp_id acc + cnt is_hash cs) (sp_class acc + cnt is_cls cs)
         (sp_typ acc + cnt is_elt cs).
Proof.
  unfold cnt. induction cs as [|c cs IH]; intros [i a b t].
  - cbn. f_equal; lia.
  - cbn [specificity_of]. rewrite IH.
    destruct c; cbn [sp_inline sp_id sp_class sp_typ filter is_hash is_cls is_elt length];
      f_equal; lia.
Qed.
Theorem specificity_counts : forall s,
  specificity s = mkspec false (cnt is_hash (comps s)) (cnt is_cls (comps s)) (cnt is_elt (comps s)).
Proof. intros s. unfold specificity. rewrite specificity_of_counts. reflexivity. Qed.

(* ================================================================== *)
(* 4. Style paths of a render tree                                     *)
(* ================================================================== *)

(* l is the list of styles along a path (Inherit.path_from) that starts at e *)
Definition sp (e : pe) (l : list cstyle) : Prop := exists q, path_from e q /\ map snd q = l.

Lemma sp_self e : sp e [snd e].
Proof. exists [e]. split; [apply pf_one|reflexivity]. Qed.
Lemma sp_kid e c l : In c (rkids (fst e)) -> sp c l -> sp e (snd e :: l).
Proof.
  intros Hin (q & Hq & <-). exists (e :: q).
  split; [eapply pf_cons; eassumption|reflexivity].
Qed.
Lemma sp_inv e l :
  sp e l -> l = [snd e] \/ exists c l', In c (rkids (fst e)) /\ sp c l' /\ l = snd e :: l'.
Proof.
  intros (q & Hq & <-). inversion Hq as [e0|e0 c p0 Hin Hp]; subst; [left; reflexivity|right].
  exists c, (map snd p0). split; [exact Hin|]. split; [exists p0; auto|reflexivity].
Qed.
Lemma sp_ext e e' l : snd e = snd e' -> rkids (fst e) = rkids (fst e') -> sp e' l -> sp e l.
Proof.
  intros Hs Hk H. apply sp_inv in H. destruct H as [->|(c & l' & Hin & Hsp & ->)].
  - rewrite <- Hs. apply sp_self.
  - rewrite <- Hs. apply sp_kid with (c := c); [rewrite Hk; exact Hin|exact Hsp].
Qed.

(* l' = l with unstyled nodes (cstyle0) inserted *)
Inductive pad : list cstyle -> list cstyle -> Prop :=
| pad_nil : pad [] []
| pad_keep s l l' : pad l l' -> pad (s :: l) (s :: l')
| pad_ins l l' : pad l l' -> pad l (cstyle0 :: l').
Lemma pad_refl l : pad l l.
Proof. induction l; constructor; assumption. Qed.

Definition pad_closed (R : list cstyle -> Prop) : Prop := forall l l', R l -> pad l l' -> R l'.

(* every style path of e' is a style path of e with unstyled nodes inserted *)
Definition dominates (e e' : pe) : Prop :=
  forall l', sp e' l' -> exists l0, sp e l0 /\ pad l0 l'.
Lemma dominates_refl e : dominates e e.
Proof. intros l H. exists l. split; [exact H|apply pad_refl]. Qed.

Lemma dom_step e e' :
  snd e' = snd e ->
  (forall c', In c' (rkids (fst e')) ->
     (forall l', sp c' l' -> pad [] l') \/ exists c, In c (rkids (fst e)) /\ dominates c c') ->
  dominates e e'.
Proof.
  intros Hs Hk l' H. apply sp_inv in H. destruct H as [->|(c' & l'' & Hin & Hsp & ->)].
  - exists [snd e]. split; [apply sp_self|rewrite Hs; apply pad_refl].
  - destruct (Hk c' Hin) as [Hp|(c & Hc & Hd)].
    + exists [snd e]. split; [apply sp_self|rewrite Hs; apply pad_keep, Hp, Hsp].
    + destruct (Hd l'' Hsp) as (l0 & Hl0 & Hp). exists (snd e :: l0).
      split; [eapply sp_kid; eassumption|rewrite Hs; apply pad_keep, Hp].
Qed.

(* an unstyled leaf: text, fragment marker *)
Definition leafx (x : rnode) : Prop := rn_style x = cstyle0 /\ rkids (rn_info x) = [].
Lemma leafx_sp x l : leafx x -> sp (pe_of x) l -> pad [] l.
Proof.
  intros [Hs Hk] H. apply sp_inv in H. cbn [pe_of fst snd] in H. rewrite Hk, Hs in H.
  destruct H as [->|(c & l' & [] & _)]. apply pad_ins, pad_nil.
Qed.

Lemma in_ins {A} b (x : A) v n : In n (ins b x v) -> n = x \/ In n v.
Proof.
  unfold ins. destruct b; [intros [<-|H]; auto|]. intros H. apply in_app_iff in H.
  destruct H as [H|[<-|[]]]; auto.
Qed.

Lemma dom_list_ins b x v c' : leafx x -> In c' (map pe_of (ins b x v)) ->
  (forall l', sp c' l' -> pad [] l') \/ exists c, In c (map pe_of v) /\ dominates c c'.
Proof.
  intros Hx Hin. apply in_map_iff in Hin. destruct Hin as (n & <- & Hn).
  apply in_ins in Hn. destruct Hn as [->|Hn].
  - left. intros l'. apply leafx_sp, Hx.
  - right. exists (pe_of n). split; [apply in_map, Hn|apply dominates_refl].
Qed.

Lemma dom_cell_ins b x n k s : leafx x ->
  dominates (pe_cell (RCell n k s)) (pe_cell (RCell n (ins b x k) s)).
Proof.
  intros Hx. apply dom_step; [reflexivity|]. intros c' Hin.
  cbn [pe_cell fst rkids cell_content] in *. eapply dom_list_ins; eassumption.
Qed.
Lemma dom_cells_ins b x cells c' : leafx x -> In c' (ins_first_cell b x cells) ->
  exists c, In c cells /\ dominates (pe_cell c) (pe_cell c').
Proof.
  intros Hx Hin. destruct cells as [|[n k s] cells]; [destruct Hin|].
  cbn [ins_first_cell] in Hin. destruct Hin as [<-|Hin].
  - exists (RCell n k s). split; [left; reflexivity|apply dom_cell_ins, Hx].
  - exists c'. split; [right; exact Hin|apply dominates_refl].
Qed.
Lemma dom_row_ins b x cells s : leafx x ->
  dominates (pe_row (RRow cells s)) (pe_row (RRow (ins_first_cell b x cells) s)).
Proof.
  intros Hx. apply dom_step; [reflexivity|]. intros c' Hin.
  cbn [pe_row fst rkids row_cells] in *. apply in_map_iff in Hin. destruct Hin as (c0' & <- & Hc0).
  destruct (dom_cells_ins b x cells c0' Hx Hc0) as (c0 & Hc & Hd).
  right. exists (pe_cell c0). split; [apply in_map, Hc|exact Hd].
Qed.
Lemma dom_rows_ins b x rows r' : leafx x -> In r' (ins_first_row b x rows) ->
  exists r, In r rows /\ dominates (pe_row r) (pe_row r').
Proof.
  intros Hx Hin. destruct rows as [|[cells s] rows]; [destruct Hin|].
  cbn [ins_first_row] in Hin. destruct Hin as [<-|Hin].
  - exists (RRow cells s). split; [left; reflexivity|apply dom_row_ins, Hx].
  - exists r'. split; [right; exact Hin|apply dominates_refl].
Qed.

(* ---------- the invariant of a processed node ---------- *)
(* R holds of every style path of the node, and of the rows / row / cell it carries for its
   parent (a <table> takes the rows out of its <tbody> nodes, a <tr> the cells out of its
   <td> nodes ...) *)
Definition Inv (R : list cstyle -> Prop) (r : rnode) : Prop :=
  (forall l, sp (pe_of r) l -> R l) /\
  (forall rows row l, rn_info r = ITableBody rows -> In row rows -> sp (pe_row row) l -> R l) /\
  (forall row l, rn_info r = ITableRow row -> sp (pe_row row) l -> R l) /\
  (forall c l, rn_info r = ITableCell c -> sp (pe_cell c) l -> R l).

Definition simple_kind (i : rinfo) : Prop :=
  match i with ITableBody _ | ITableRow _ | ITableCell _ => False | _ => True end.

Lemma Inv_impl (R R' : list cstyle -> Prop) r : (forall l, R l -> R' l) -> Inv R r -> Inv R' r.
Proof.
  intros H (I1 & I2 & I3 & I4). repeat split; intros; apply H; eauto.
Qed.

Lemma Inv_simple (R : list cstyle -> Prop) i s : simple_kind i -> (forall l, sp (i, s) l -> R l) -> Inv R (RN i s).
Proof.
  intros Hk H. split; [exact H|]. repeat split; intros; cbn [rn_info] in *; subst i; destruct Hk.
Qed.

Section Insert.
  Variable R : list cstyle -> Prop.
  Hypothesis R_nil : R [].
  Hypothesis R_pad : pad_closed R.

  Lemma R_dom e e' l : dominates e e' -> (forall l0, sp e l0 -> R l0) -> sp e' l -> R l.
  Proof. intros Hd He H. destruct (Hd l H) as (l0 & Hl0 & Hp). eapply R_pad; [apply He, Hl0|exact Hp]. Qed.

  Lemma Inv_leaf i : rkids i = [] -> simple_kind i -> Inv R (rn_new i).
  Proof.
    intros Hk Hs. apply Inv_simple; [exact Hs|]. intros l H.
    apply (R_pad []); [exact R_nil|]. apply (leafx_sp (rn_new i)); [split; [reflexivity|exact Hk]|exact H].
  Qed.

  Lemma Inv_wrap x orig cs : leafx x -> Inv R orig -> (forall n, In n cs -> n = x \/ n = orig) ->
    Inv R (rn_new (IContainer cs)).
  Proof.
    intros Hx (I1 & _) Hcs. apply Inv_simple; [exact I|]. intros l H.
    apply sp_inv in H. cbn [fst snd rkids] in H. destruct H as [->|(c & l' & Hin & Hsp & ->)].
    - apply (R_pad []); [exact R_nil|apply pad_ins, pad_nil].
    - apply in_map_iff in Hin. destruct Hin as (n & <- & Hn). destruct (Hcs n Hn) as [->| ->].
      + apply (R_pad []); [exact R_nil|]. apply pad_ins. eapply leafx_sp; eassumption.
      + apply (R_pad l'); [apply I1, Hsp|apply pad_ins, pad_refl].
  Qed.

  (* list-like containers *)
  Lemma Inv_ins_list (K : list rnode -> rinfo) b x v st : leafx x ->
    (forall v, rkids (K v) = map pe_of v) -> (forall v, simple_kind (K v)) ->
    Inv R (RN (K v) st) -> Inv R (RN (K (ins b x v)) st).
  Proof.
    intros Hx HK1 HK2 (I1 & _). apply Inv_simple; [apply HK2|]. intros l.
    apply (R_dom (K v, st)); [|exact I1].
    apply dom_step; [reflexivity|]. intros c' Hin. cbn [fst] in *. rewrite HK1 in *.
    eapply dom_list_ins; eassumption.
  Qed.

  Theorem Inv_insert x orig b : leafx x -> Inv R orig -> Inv R (insert_child x orig b).
  Proof.
    intros Hx HI. destruct orig as [info st].
    destruct info as [t|v|h v|v|v|v|v|src t|v|lv v|v|v|v|z v|v|v|v| |rows nc|rows|row|c|f|v|v];
      cbn [insert_child];
      try (destruct b; (eapply (Inv_wrap x); [exact Hx|exact HI|intros n [<-|[<-|[]]]; auto]); fail).
    - apply (Inv_ins_list IContainer); auto; intros; exact I.
    - apply (Inv_ins_list IBlock); auto; intros; exact I.
    - apply (Inv_ins_list IDiv); auto; intros; exact I.
    - apply (Inv_ins_list IBlockQuote); auto; intros; exact I.
    - apply (Inv_ins_list IDl); auto; intros; exact I.
    - apply (Inv_ins_list IDt); auto; intros; exact I.
    - apply (Inv_ins_list IDd); auto; intros; exact I.
    - (* table *)
      destruct HI as (I1 & _). apply Inv_simple; [exact I|]. intros l.
      apply (R_dom (ITable rows nc, st)); [|exact I1].
      apply dom_step; [reflexivity|]. intros c' Hin. cbn [pe_of rn_info rn_style fst rkids] in *.
      apply in_map_iff in Hin. destruct Hin as (r' & <- & Hr').
      destruct (dom_rows_ins b x rows r' Hx Hr') as (r & Hr & Hd).
      right. exists (pe_row r). split; [apply in_map, Hr|exact Hd].
    - (* table body *)
      destruct HI as (I1 & I2 & _). repeat split; cbn [rn_info]; try discriminate.
      + intros l. apply (R_dom (ITableBody rows, st)); [|exact I1].
        apply dom_step; [reflexivity|]. intros c' [].
      + intros rows' r' l E Hr'. injection E as <-.
        destruct (dom_rows_ins b x rows r' Hx Hr') as (r & Hr & Hd).
        apply (R_dom (pe_row r)); [exact Hd|]. intros l0. apply (I2 rows r l0 eq_refl Hr).
    - (* table row *)
      destruct row as [cells s]. destruct HI as (I1 & _ & I3 & _).
      repeat split; cbn [rn_info]; try discriminate.
      + intros l. apply (R_dom (ITableRow (RRow cells s), st)); [|exact I1].
        apply dom_step; [reflexivity|]. intros c' Hin. cbn [pe_of rn_info rn_style fst rkids row_cells] in *.
        apply in_map_iff in Hin. destruct Hin as (c0' & <- & Hc0).
        destruct (dom_cells_ins b x cells c0' Hx Hc0) as (c0 & Hc & Hd).
        right. exists (pe_cell c0). split; [apply in_map, Hc|exact Hd].
      + intros row' l E. injection E as <-.
        apply (R_dom (pe_row (RRow cells s))); [apply dom_row_ins, Hx|].
        intros l0. apply (I3 _ l0 eq_refl).
    - (* table cell *)
      destruct c as [n k s]. destruct HI as (I1 & _ & _ & I4).
      repeat split; cbn [rn_info]; try discriminate.
      + intros l. apply (R_dom (ITableCell (RCell n k s), st)); [|exact I1].
        apply dom_step; [reflexivity|]. intros c' Hin. cbn [pe_of rn_info rn_style fst rkids cell_content] in *.
        eapply dom_list_ins; eassumption.
      + intros c' l E. injection E as <-.
        apply (R_dom (pe_cell (RCell n k s))); [apply dom_cell_ins, Hx|].
        intros l0. apply (I4 _ l0 eq_refl).
    - apply (Inv_ins_list IListItem); auto; intros; exact I.
  Qed.

  Lemma Inv_wrap_pseudo computed nd : Inv R nd -> Inv R (wrap_pseudo computed nd).
  Proof.
    intros H. unfold wrap_pseudo.
    assert (H1 : Inv R match cs_before computed with
                       | Some c => match ws_val (c_content c) with
                                   | Some t => insert_child (rn_new (IText (relabel L_deco t))) nd true
                                   | None => nd
                                   end
                       | None => nd
                       end).
    { destruct (cs_before computed) as [c|]; [|exact H].
      destruct (ws_val (c_content c)); [|exact H].
      apply Inv_insert; [split; reflexivity|exact H]. }
    destruct (cs_after computed) as [c|]; [|exact H1].
    destruct (ws_val (c_content c)); [|exact H1].
    apply Inv_insert; [split; reflexivity|exact H1].
  Qed.
End Insert.

(* ---------- the table constructors keep contents and styles ---------- *)
Definition cell_sim (c c' : rcell) : Prop :=
  cell_content c = cell_content c' /\ cell_style c = cell_style c'.
Definition row_sim (r r' : rrow) : Prop :=
  row_style r = row_style r' /\ Forall2 cell_sim (row_cells r) (row_cells r').

Lemma Forall2_in_r {A B} (P : A -> B -> Prop) l l' y :
  Forall2 P l l' -> In y l' -> exists x, In x l /\ P x y.
Proof.
  induction 1 as [|a b l l' Hab H IH]; intros Hin; [destruct Hin|].
  destruct Hin as [<-|Hin]; [exists a; split; [left; reflexivity|exact Hab]|].
  destruct (IH Hin) as (x & Hx & Hp). exists x. split; [right; exact Hx|exact Hp].
Qed.

Lemma cell_sim_sp c c' l : cell_sim c c' -> sp (pe_cell c') l -> sp (pe_cell c) l.
Proof.
  intros [Hc Hs]. apply sp_ext; [exact Hs|]. cbn [pe_cell fst rkids]. rewrite Hc. reflexivity.
Qed.
Lemma row_sim_sp r r' l : row_sim r r' -> sp (pe_row r') l -> sp (pe_row r) l.
Proof.
  intros [Hs Hc] H. apply sp_inv in H. cbn [pe_row fst snd rkids] in H.
  destruct H as [->|(c & l' & Hin & Hsp & ->)].
  - rewrite <- Hs. apply (sp_self (pe_row r)).
  - apply in_map_iff in Hin. destruct Hin as (c0' & <- & Hc0).
    destruct (Forall2_in_r _ _ _ _ Hc Hc0) as (c0 & Hin0 & Hsim).
    rewrite <- Hs. apply (sp_kid (pe_row r) (pe_cell c0)).
    + cbn [pe_row fst rkids]. apply in_map, Hin0.
    + eapply cell_sim_sp; eassumption.
Qed.

Lemma remap_cells_sim : forall set cells pos mapped cells',
  remap_cells set cells pos mapped = Ok cells' -> Forall2 cell_sim cells cells'.
Proof.
  induction cells as [|[n k s] cells IH]; intros pos mapped cells' H; cbn [remap_cells] in H.
  - ok_inv H. constructor.
  - bind_inv H nextpos Hn. destruct (index_of nextpos set 0) as [nm|]; [|discriminate].
    bind_inv H cs0 Hc. bind_inv H r Hr. ok_inv H.
    constructor; [split; reflexivity|eapply IH; eassumption].
Qed.
Lemma remap_rows_sim : forall set rows rows',
  remap_rows set rows = Ok rows' -> Forall2 row_sim rows rows'.
Proof.
  induction rows as [|[cells s] rows IH]; intros rows' H; cbn [remap_rows] in H.
  - ok_inv H. constructor.
  - bind_inv H cells' Hc. bind_inv H r Hr. ok_inv H.
    constructor; [|apply IH, Hr]. split; [reflexivity|]. cbn [row_cells].
    eapply remap_cells_sim; eassumption.
Qed.

Lemma map2_in {A B C} (f : A -> B -> C) : forall l m y,
  In y (map2 f l m) -> exists a b, In a l /\ y = f a b.
Proof.
  induction l as [|a l IH]; intros [|b m] y H; cbn [map2] in H; try (destruct H; fail).
  destruct H as [<-|H].
  - exists a, b. split; [left; reflexivity|reflexivity].
  - destruct (IH m y H) as (a' & b' & Ha & ->). exists a', b'. split; [right; exact Ha|reflexivity].
Qed.
Lemma fix_zero_sim maxc r cnt : row_sim r (fix_zero_colspan maxc r cnt).
Proof.
  unfold fix_zero_colspan. destruct (fst cnt); destruct r as [cells s].
  - split; [reflexivity|]. cbn [row_cells].
    induction cells as [|[n k st] cells IH]; cbn [map]; constructor; [|exact IH].
    destruct (n =? 0); split; reflexivity.
  - split; [reflexivity|]. cbn [row_cells].
    induction cells as [|c cells IH]; constructor; [split; reflexivity|exact IH].
Qed.

Lemma noempty_inv {A B} (l : list A) (X : res (option B)) nd :
  match l with [] => Ok None | _ :: _ => X end = Ok (Some nd) -> X = Ok (Some nd).
Proof. destruct l; [discriminate|auto]. Qed.

Definition s_pre_names : list (list N) := [[112;114;101]].
Definition s_tb_names : list (list N) := [[116;104;101;97;100]; [116;98;111;100;121]].

(* the style of the node of a <pre> element: the built-in `white-space: pre` is fed to the
   white-space cell AFTER all applicable declarations, as an agent declaration of zero
   specificity *)
Definition pre_style (computed : cstyle) : cstyle :=
  let core := cs_core computed in
  mkcs (mkcore (c_colour core) (c_bg core) (c_display core)
               (maybe_update (c_white_space core) false OAgent spec0 WsPre) (c_content core))
       (cs_before computed) (cs_after computed) true.

(* ---------- build_element ---------- *)
Section Build.
  Variables Rk Rs : list cstyle -> Prop.
  Variable computed : cstyle.
  Variable name : text.
  Variable attrs : list (text * text).
  Variable cs : list rnode.
  Hypothesis Hcs : Forall (Inv Rk) cs.
  Hypothesis S_take : forall l, Rk l -> Rs (computed :: l).
  Hypothesis S_self : Rs [computed].
  Hypothesis S_pre : names s_pre_names name = true -> forall l, Rk l -> Rs (pre_style computed :: l).
  Hypothesis S_pre_self : names s_pre_names name = true -> Rs [pre_style computed].
  Hypothesis S_skip : names s_tb_names name = true -> forall l, Rk l -> Rs l.

  Lemma Inv_mk i s :
    (forall c, In c (rkids i) -> exists n, In n cs /\ c = pe_of n) -> simple_kind i ->
    (forall l, Rk l -> Rs (s :: l)) -> Rs [s] -> Inv Rs (RN i s).
  Proof.
    intros Hsub Hk Hstep Hself. apply Inv_simple; [exact Hk|]. intros l H.
    apply sp_inv in H. cbn [fst snd] in H. destruct H as [->|(c & l' & Hin & Hsp & ->)]; [exact Hself|].
    destruct (Hsub c Hin) as (n & Hn & ->). apply Hstep.
    pose proof (proj1 (Forall_forall _ _) Hcs) as Hcs'. apply (proj1 (Hcs' n Hn)). exact Hsp.
  Qed.

  Ltac sub_tac :=
    let c := fresh "c" in let Hc := fresh "Hc" in let n := fresh "n" in let Hn := fresh "Hn" in
    intros c Hc; cbn [rkids] in Hc;
    try match type of Hc with context [sup_digits ?x] => destruct (sup_digits x) end;
    try (destruct Hc; fail);
    apply in_map_iff in Hc; destruct Hc as (n & <- & Hn); exists n; split; [|reflexivity];
    (exact Hn || (unfold filter_info in Hn; apply filter_In in Hn; apply Hn)).

  Ltac fin H :=
    first [discriminate H
          |try (apply noempty_inv in H);
           injection H as <-; apply Inv_mk; [sub_tac|exact I|exact S_take|exact S_self]].

  Ltac nm H :=
    match type of H with
    | (if names ?L ?n then _ else _) = _ => destruct (names L n) eqn:?
    end.

  Lemma flat_body_in (n0 : list rnode) r :
    In r (flat_map (fun n => match rn_info n with ITableBody b => b | _ => [] end) n0) ->
    exists n b, In n n0 /\ rn_info n = ITableBody b /\ In r b.
  Proof.
    intros H. apply in_flat_map in H. destruct H as (n & Hn & Hr).
    destruct (rn_info n) eqn:E; try (destruct Hr; fail). exists n, rows. auto.
  Qed.
  Lemma flat_row_in (n0 : list rnode) r :
    In r (flat_map (fun n => match rn_info n with ITableRow r => [r] | _ => [] end) n0) ->
    exists n, In n n0 /\ rn_info n = ITableRow r.
  Proof.
    intros H. apply in_flat_map in H. destruct H as (n & Hn & Hr).
    destruct (rn_info n) eqn:E; try (destruct Hr; fail). destruct Hr as [<-|[]]. exists n. auto.
  Qed.
  Lemma flat_cell_in (n0 : list rnode) c :
    In c (flat_map (fun n => match rn_info n with ITableCell c => [c] | _ => [] end) n0) ->
    exists n, In n n0 /\ rn_info n = ITableCell c.
  Proof.
    intros H. apply in_flat_map in H. destruct H as (n & Hn & Hr).
    destruct (rn_info n) eqn:E; try (destruct Hr; fail). destruct Hr as [<-|[]]. exists n. auto.
  Qed.

  Lemma build_element_Inv nd :
    build_element name attrs computed cs = Ok (Some nd) -> Inv Rs nd.
  Proof.
    intros H. unfold build_element in H. cbv beta zeta in H.
    pose proof (proj1 (Forall_forall _ _) Hcs) as Hcs'.
    nm H; [fin H|]. nm H; [fin H|]. nm H; [fin H|].
    nm H.
    { destruct (find_attr attrs s_href); [|fin H].
      destruct (existsb (fun c => negb (is_shallow_empty c)) cs); fin H. }
    nm H; [fin H|]. nm H; [fin H|]. nm H; [fin H|]. nm H; [fin H|]. nm H; [fin H|].
    destruct (heading_level name); [fin H|].
    nm H; [fin H|]. nm H; [fin H|]. nm H; [fin H|]. nm H; [fin H|].
    nm H.
    { (* pre *)
      injection H as <-. apply (Inv_mk (IBlock cs) (pre_style computed)); [sub_tac|exact I|auto|auto]. }
    nm H; [fin H|].
    nm H.
    { (* table *)
      apply noempty_inv in H. bind_inv H t Ht. ok_inv H.
      unfold render_table_new in Ht. bind_inv Ht ps Hps. bind_inv Ht rows' Hrows. ok_inv Ht.
      apply remap_rows_sim in Hrows.
      apply Inv_simple; [exact I|]. intros l H. apply sp_inv in H. cbn [fst snd rkids] in H.
      destruct H as [->|(c & l' & Hin & Hsp & ->)]; [exact S_self|].
      apply in_map_iff in Hin. destruct Hin as (r' & <- & Hr').
      destruct (Forall2_in_r _ _ _ _ Hrows Hr') as (r & Hr & Hsim).
      apply flat_body_in in Hr. destruct Hr as (n & b & Hn & Eb & Hrb).
      apply S_take. destruct (Hcs' n Hn) as (_ & I2 & _).
      apply (I2 b r l' Eb Hrb). eapply row_sim_sp; eassumption. }
    nm H.
    { (* thead / tbody *)
      apply noempty_inv in H. bind_inv H rows' Hrows. injection H as <-.
      unfold tbody_rows in Hrows. bind_inv Hrows counts Hcounts. ok_inv Hrows.
      repeat split; cbn [rn_info]; try discriminate.
      - intros l H. apply sp_inv in H. cbn [pe_of rn_info rn_style fst snd rkids] in H.
        destruct H as [->|(c & l' & [] & _)]. exact S_self.
      - intros rows'' r' l E Hr' Hsp. injection E as <-.
        apply map2_in in Hr'. destruct Hr' as (r & cnt & Hr & ->).
        apply flat_row_in in Hr. destruct Hr as (n & Hn & En).
        apply S_skip; [assumption|]. destruct (Hcs' n Hn) as (_ & _ & I3 & _).
        apply (I3 r l En). eapply row_sim_sp; [apply fix_zero_sim|exact Hsp]. }
    nm H.
    { (* tr *)
      injection H as <-.
      assert (HR : forall l, sp (ITableRow (RRow (flat_map (fun n => match rn_info n with ITableCell c => [c] | _ => [] end) cs) computed), computed) l -> Rs l).
      { intros l H. apply sp_inv in H. cbn [fst snd rkids row_cells] in H.
        destruct H as [->|(c & l' & Hin & Hsp & ->)]; [exact S_self|].
        apply in_map_iff in Hin. destruct Hin as (c0 & <- & Hc0).
        apply flat_cell_in in Hc0. destruct Hc0 as (n & Hn & En).
        apply S_take. destruct (Hcs' n Hn) as (_ & _ & _ & I4). apply (I4 c0 l' En Hsp). }
      repeat split; cbn [rn_info]; try discriminate.
      - exact HR.
      - intros row l E. injection E as <-. exact (HR l). }
    nm H.
    { (* th / td *)
      injection H as <-.
      assert (HR : forall l, sp (ITableCell (RCell (td_colspan attrs) cs computed), computed) l -> Rs l).
      { intros l H. apply sp_inv in H. cbn [fst snd rkids cell_content] in H.
        destruct H as [->|(c & l' & Hin & Hsp & ->)]; [exact S_self|].
        apply in_map_iff in Hin. destruct Hin as (n & <- & Hn).
        apply S_take. apply (proj1 (Hcs' n Hn)). exact Hsp. }
      repeat split; cbn [rn_info]; try discriminate.
      - exact HR.
      - intros c l E. injection E as <-. exact (HR l). }
    nm H; [fin H|]. nm H; [fin H|]. nm H; [fin H|]. nm H; [fin H|]. nm H; [fin H|]. nm H; [fin H|].
    fin H.
  Qed.
End Build.

(* ================================================================== *)
(* 5. process: from the DOM to the styles of the render tree           *)
(* ================================================================== *)

(* st is the style of r, or of a node inside unstyled wrappers *)
Inductive holds (st : cstyle) : rnode -> Prop :=
| h_here i : holds st (RN i st)
| h_wrap cs r : In r cs -> holds st r -> holds st (RN (IContainer cs) cstyle0).

Lemma holds_insert st x orig b : holds st orig -> holds st (insert_child x orig b).
Proof.
  intros [i|cs r Hin Hr].
  - destruct i as [t|v|h v|v|v|v|v|src t|v|lv v|v|v|v|z v|v|v|v| |rows nc|rows|[cells s]|[n k s]|f|v|v];
      cbn [insert_child]; try apply h_here;
      destruct b; unfold rn_new; (eapply h_wrap; [|apply h_here]); cbn; auto.
  - cbn [insert_child]. apply h_wrap with (r := r); [|exact Hr].
    unfold ins. destruct b; [right; exact Hin|apply in_or_app; left; exact Hin].
Qed.
Lemma holds_wrap_pseudo st computed nd : holds st nd -> holds st (wrap_pseudo computed nd).
Proof.
  intros H. unfold wrap_pseudo.
  destruct (cs_before computed) as [c|]; [destruct (ws_val (c_content c))|];
    (destruct (cs_after computed) as [c'|]; [destruct (ws_val (c_content c'))|]);
    repeat apply holds_insert; exact H.
Qed.

Lemma pk_of_In : forall proc kids i cs c,
  pk_of proc kids i = Ok cs -> In c cs ->
  exists l1 k l2, kids = l1 ++ k :: l2 /\ proc k (i + count_elems l1)%Z = Ok (Some c).
Proof.
  induction kids as [|k kids IH]; intros i cs c H Hin; cbn [pk_of] in H.
  - ok_inv H. destruct Hin.
  - bind_inv H r Hr. bind_inv H rs Hrs. ok_inv H.
    assert (Hrest : In c rs -> exists l1 k0 l2, k :: kids = l1 ++ k0 :: l2 /\
                                   proc k0 (i + count_elems l1)%Z = Ok (Some c)).
    { intros Hc. destruct (IH _ _ _ Hrs Hc) as (l1 & k0 & l2 & -> & Hp).
      exists (k :: l1), k0, l2. split; [reflexivity|]. rewrite <- Hp. f_equal.
      cbn [count_elems]. unfold is_elem. destruct k; lia. }
    destruct r as [x|]; [|exact (Hrest Hin)].
    destruct Hin as [<-|Hin]; [|exact (Hrest Hin)].
    exists [], k, kids. split; [reflexivity|]. cbn [count_elems]. rewrite Z.add_0_r. exact Hr.
Qed.

(* process goes on iff the display cell is not `Some true` (display:none wins) *)
Lemma not_hidden {B} (x : option bool) (b : res (option B)) r :
  match x with Some true => Ok None | _ => b end = Ok (Some r) -> b = Ok (Some r).
Proof. destruct x as [[|]|]; [discriminate|auto|auto]. Qed.

Section DomLevel.
  Variable sd : styledata.
  Variable udc : bool.
  Variable inl : list (text * text) -> res (list styledecl).

  (* the inline declarations of an element with attributes attrs (none when document CSS is
     off; `process` fails when the front end fails, so the default is never seen) *)
  Definition inls_of (attrs : list (text * text)) : list styledecl :=
    match (if udc then inl attrs else Ok []) with Ok l => l | _ => [] end.
  (* a position me = the element followed by its ancestors (nearest first) *)
  Definition me_attrs (me : list anc) : list (text * text) :=
    match me with a :: _ => a_attrs a | [] => [] end.
  Definition me_name (me : list anc) : text := match me with a :: _ => a_name a | [] => [] end.
  (* ALL declarations applicable to the element at me, and its computed style *)
  Definition elem_decls (me : list anc) : list gdecl := applicable sd me (inls_of (me_attrs me)).
  Definition cs_of (me : list anc) : cstyle := computed_style sd me (inls_of (me_attrs me)).
  Definition is_pre (me : list anc) : bool := names s_pre_names (me_name me).
  Definition is_tb (me : list anc) : bool := names s_tb_names (me_name me).

  (* the cascade for the element at me (instances of section 2) *)
  Theorem elem_cascade : forall me which,
    let c := core_at which (cs_of me) in
    cascade_value (proj st_colour which (elem_decls me)) (ws_val (c_colour c)) /\
    cascade_value (proj st_bg which (elem_decls me)) (ws_val (c_bg c)) /\
    cascade_value (proj st_display which (elem_decls me)) (ws_val (c_display c)) /\
    cascade_value (proj st_ws which (elem_decls me)) (ws_val (c_white_space c)) /\
    cascade_value (proj st_content which (elem_decls me)) (ws_val (c_content c)).
  Proof. intros me which. apply c19_dom_cascade. Qed.

  (* a chain of nested elements of the DOM, outermost first, each given by its position:
     in_dom kids p i ch: ch starts at an element child of `kids`, where kids are the children
     of the element at position p (p = [] for the document) and the first element child has
     index i *)
  Inductive in_dom : list node -> list anc -> Z -> list (list anc) -> Prop :=
  | in_nil kids p i : in_dom kids p i []
  | in_cons kids p i l1 html name attrs ks l2 rest :
      kids = l1 ++ NElem html name attrs ks :: l2 ->
      in_dom ks (mkanc name attrs (i + count_elems l1) :: p) 1 rest ->
      in_dom kids p i ((mkanc name attrs (i + count_elems l1) :: p) :: rest).

  (* l = the styles along a render-tree path, ch = a chain of DOM elements: the styles are
     those of the chain in order, with unstyled nodes in between; a <pre> has its built-in
     white-space added; a <thead>/<tbody> may be left out *)
  Inductive srel : list cstyle -> list (list anc) -> Prop :=
  | sr_nil : srel [] []
  | sr_pad l ch : srel l ch -> srel (cstyle0 :: l) ch
  | sr_take l me ch : srel l ch -> srel (cs_of me :: l) (me :: ch)
  | sr_pre l me ch : is_pre me = true -> srel l ch -> srel (pre_style (cs_of me) :: l) (me :: ch)
  | sr_skip l me ch : is_tb me = true -> srel l ch -> srel l (me :: ch).

  Lemma srel_pad : forall l ch, srel l ch -> forall l', pad l l' -> srel l' ch.
  Proof.
    induction 1 as [|l ch H IH|l me ch H IH|l me ch Hp H IH|l me ch Ht H IH]; intros l' Hp'.
    - remember [] as l0 eqn:E. induction Hp' as [|s l l' Hp' IHp|l l' Hp' IHp]; [constructor|discriminate|].
      apply sr_pad, IHp, E.
    - remember (cstyle0 :: l) as l0 eqn:E. induction Hp' as [|s l1 l' Hp' IHp|l1 l' Hp' IHp]; [discriminate| |].
      + injection E as -> ->. apply sr_pad, IH, Hp'.
      + apply sr_pad, IHp, E.
    - remember (cs_of me :: l) as l0 eqn:E. induction Hp' as [|s l1 l' Hp' IHp|l1 l' Hp' IHp]; [discriminate| |].
      + injection E as -> ->. apply sr_take, IH, Hp'.
      + apply sr_pad, IHp, E.
    - remember (pre_style (cs_of me) :: l) as l0 eqn:E.
      induction Hp' as [|s l1 l' Hp' IHp|l1 l' Hp' IHp]; [discriminate| |].
      + injection E as -> ->. apply sr_pre; [exact Hp|apply IH, Hp'].
      + apply sr_pad, IHp, E.
    - apply sr_skip; [exact Ht|apply IH, Hp'].
  Qed.

  Definition Rdom (kids : list node) (p : list anc) (i : Z) (l : list cstyle) : Prop :=
    exists ch, in_dom kids p i ch /\ srel l ch.

  Lemma Rdom_nil kids p i : Rdom kids p i [].
  Proof. exists []. split; constructor. Qed.
  Lemma Rdom_pad kids p i : pad_closed (Rdom kids p i).
  Proof. intros l l' (ch & H1 & H2) Hp. exists ch. split; [exact H1|eapply srel_pad; eassumption]. Qed.

  Lemma in_dom_sub k l1 l2 p i ch :
    in_dom [k] p (i + count_elems l1) ch -> in_dom (l1 ++ k :: l2) p i ch.
  Proof.
    intros H. inversion H as [|kids p0 i0 l1' html name attrs ks l2' rest E Hr]; subst; [constructor|].
    destruct l1' as [|a l1']; [|destruct l1'; discriminate E].
    cbn [app] in E. injection E as ->. subst l2'. cbn [count_elems].
    rewrite Z.add_0_r. eapply in_cons; [reflexivity|].
    cbn [count_elems] in Hr. rewrite Z.add_0_r in Hr. exact Hr.
  Qed.
  Lemma Rdom_sub k l1 l2 p i l :
    Rdom [k] p (i + count_elems l1) l -> Rdom (l1 ++ k :: l2) p i l.
  Proof. intros (ch & H1 & H2). exists ch. split; [apply in_dom_sub, H1|exact H2]. Qed.

  Section Elem.
    Variables (html : bool) (name : text) (attrs : list (text * text)) (kids : list node).
    Variables (p : list anc) (idx : Z).
    Let me : list anc := mkanc name attrs idx :: p.
    Let Rk := Rdom kids me 1%Z.
    Let Rs := Rdom [NElem html name attrs kids] p idx.

    Lemma in_dom_elem ch : in_dom kids me 1 ch -> in_dom [NElem html name attrs kids] p idx (me :: ch).
    Proof.
      intros H. subst me.
      pose proof (in_cons [NElem html name attrs kids] p idx [] html name attrs kids [] ch eq_refl) as K.
      cbn [count_elems] in K. rewrite Z.add_0_r in K. apply K, H.
    Qed.
    Lemma S_take : forall l, Rk l -> Rs (cs_of me :: l).
    Proof. intros l (ch & H1 & H2). exists (me :: ch). split; [apply in_dom_elem, H1|apply sr_take, H2]. Qed.
    Lemma S_pre : names s_pre_names name = true -> forall l, Rk l -> Rs (pre_style (cs_of me) :: l).
    Proof.
      intros Hn l (ch & H1 & H2). exists (me :: ch).
      split; [apply in_dom_elem, H1|apply sr_pre; [exact Hn|exact H2]].
    Qed.
    Lemma S_skip : names s_tb_names name = true -> forall l, Rk l -> Rs l.
    Proof.
      intros Hn l (ch & H1 & H2). exists (me :: ch).
      split; [apply in_dom_elem, H1|apply sr_skip; [exact Hn|exact H2]].
    Qed.

    Lemma pbody_Inv rk r :
      (forall cs, rk = Ok cs -> Forall (Inv Rk) cs) ->
      pbody sd (if udc then inl attrs else Ok []) html name attrs me rk = Ok (Some r) ->
      Inv Rs r.
    Proof.
      intros Hk H. unfold pbody in H.
      destruct (if udc then inl attrs else Ok []) as [inls| | |] eqn:Einl; cbn [bind] in H; try discriminate.
      assert (Ecs : computed_style sd me inls = cs_of me).
      { unfold cs_of, inls_of. subst me. cbn [me_attrs a_attrs]. rewrite Einl. reflexivity. }
      rewrite Ecs in H.
      apply not_hidden in H.
      bind_inv H base Hbase.
      pose proof (Rdom_nil [NElem html name attrs kids] p idx) as R_nil.
      pose proof (Rdom_pad [NElem html name attrs kids] p idx) as R_pad.
      assert (S_self : Rs [cs_of me]) by (apply S_take, Rdom_nil).
      assert (HB : forall nd, base = Some nd -> Inv Rs nd).
      { intros nd ->. destruct (negb html).
        2: { destruct (names [[105; 109; 103]] name).
          { destruct (img_attrs attrs None None) as [[t|] [s|]]; try discriminate.
            injection Hbase as <-. apply Inv_simple; [exact I|]. intros l Hl.
            apply sp_inv in Hl. cbn [fst snd rkids] in Hl.
            destruct Hl as [->|(c & l' & [] & _)]. exact S_self. }
          destruct (names [[98; 114]] name).
          { injection Hbase as <-. apply Inv_simple; [exact I|]. intros l Hl.
            apply sp_inv in Hl. cbn [fst snd rkids] in Hl.
            destruct Hl as [->|(c & l' & [] & _)]. exact S_self. }
          destruct (names [[108;105;110;107]; [109;101;116;97]; [104;114]; [115;99;114;105;112;116];
                            [115;116;121;108;101]; [104;101;97;100]] name); [discriminate|].
          bind_inv Hbase cs Hcs.
          apply (build_element_Inv Rk Rs (cs_of me) name attrs cs (Hk cs Hcs) S_take S_self S_pre
                                   (fun Hn => S_pre Hn [] (Rdom_nil kids me 1%Z)) S_skip).
          exact Hbase. }
        bind_inv Hbase cs Hcs. apply noempty_inv in Hbase. injection Hbase as <-.
          apply (Inv_mk Rk Rs cs (Hk cs Hcs)); [|exact I|exact S_take|exact S_self].
          intros c Hc. cbn [rkids] in Hc. apply in_map_iff in Hc. destruct Hc as (n & <- & Hn).
          exists n. auto. }
      destruct (fragment_of name (html && names [[97]] name) attrs) as [frag|].
      - destruct base as [nd|]; injection H as <-.
        + apply Inv_insert; [exact R_nil|exact R_pad|split; reflexivity|].
          apply Inv_wrap_pseudo; auto.
        + apply Inv_leaf; [exact R_nil|exact R_pad|reflexivity|exact I].
      - destruct base as [nd|]; [|discriminate]. injection H as <-.
        apply Inv_wrap_pseudo; auto.
    Qed.
  End Elem.

  Lemma kids_Inv kids me i0 cs :
    Forall (fun k => forall p idx r, process sd udc inl k p idx = Ok (Some r) -> Inv (Rdom [k] p idx) r) kids ->
    pk_of (fun k i => process sd udc inl k me i) kids i0 = Ok cs ->
    Forall (Inv (Rdom kids me i0)) cs.
  Proof.
    intros HF H. apply Forall_forall. intros c Hc.
    destruct (pk_of_In _ _ _ _ _ H Hc) as (l1 & k & l2 & -> & Hp).
    rewrite Forall_forall in HF. specialize (HF k (in_elt k l1 l2) _ _ _ Hp).
    revert HF. apply Inv_impl. intros l. apply Rdom_sub.
  Qed.

  Theorem process_Inv : forall n p idx r,
    process sd udc inl n p idx = Ok (Some r) -> Inv (Rdom [n] p idx) r.
  Proof.
    induction n as [html name attrs kids IH|t| |] using node_ind'; intros p idx r H.
    - rewrite process_eq in H. eapply pbody_Inv; [|exact H].
      intros cs Hcs. eapply kids_Inv; eassumption.
    - cbn [process] in H. injection H as <-.
      apply Inv_leaf; [apply Rdom_nil|apply Rdom_pad|reflexivity|exact I].
    - discriminate.
    - discriminate.
  Qed.

  (* THE STYLES ALONG EVERY PATH OF THE RENDER TREE come, in order, from a chain of nested
     DOM elements *)
  Theorem process_kids_paths : forall kids p i cs,
    process_kids sd udc inl kids p i = Ok cs ->
    forall c q, In c cs -> path_from (pe_of c) q ->
    exists ch, in_dom kids p i ch /\ srel (map snd q) ch.
  Proof.
    intros kids p i cs H c q Hc Hq. rewrite process_kids_eq in H.
    assert (HF : Forall (Inv (Rdom kids p i)) cs).
    { eapply kids_Inv; [|exact H]. apply Forall_forall. intros k _. apply process_Inv. }
    rewrite Forall_forall in HF. apply (proj1 (HF c Hc)). exists q. auto.
  Qed.

  Theorem dom_tree_paths : forall doc tree,
    dom_to_render_tree sd udc inl doc = Ok tree ->
    forall q, path_from (pe_of tree) q ->
    exists ch, in_dom doc [] 1 ch /\ srel (map snd q) ch.
  Proof.
    intros doc tree H q Hq. unfold dom_to_render_tree in H. bind_inv H cs Hcs. ok_inv H.
    inversion Hq as [e0|e0 c q0 Hin Hq0]; subst.
    - exists []. split; [constructor|]. cbn [map pe_of rn_new rn_style snd]. apply sr_pad, sr_nil.
    - cbn [pe_of rn_new rn_info rn_style fst rkids] in Hin.
      apply in_map_iff in Hin. destruct Hin as (n & <- & Hn).
      destruct (process_kids_paths _ _ _ _ Hcs n q0 Hn Hq0) as (ch & H1 & H2).
      exists ch. split; [exact H1|]. cbn [map pe_of rn_new rn_style snd]. apply sr_pad, H2.
  Qed.

  (* ---------- every element that yields a node yields one that carries its style ---------- *)
  Lemma build_element_style name attrs computed cs nd :
    build_element name attrs computed cs = Ok (Some nd) ->
    rn_style nd = computed \/ (names s_pre_names name = true /\ rn_style nd = pre_style computed).
  Proof.
    intros H. unfold build_element in H. cbv beta zeta in H.
    repeat match type of H with
           | (if names ?L ?n then _ else _) = _ => destruct (names L n) eqn:?
           | match heading_level ?n with _ => _ end = _ => destruct (heading_level n)
           | match find_attr ?a ?k with _ => _ end = _ => destruct (find_attr a k)
           | (if existsb ?f ?l then _ else _) = _ => destruct (existsb f l)
           end;
      try discriminate H; try (apply noempty_inv in H);
      try (injection H as <-; left; reflexivity);
      try (injection H as <-; right; split; [assumption|reflexivity]).
    - bind_inv H t Ht. ok_inv H. left. reflexivity.
    - bind_inv H t Ht. ok_inv H. left. reflexivity.
  Qed.

  Theorem process_elem_holds : forall html name attrs kids p idx r,
    process sd udc inl (NElem html name attrs kids) p idx = Ok (Some r) ->
    let me := mkanc name attrs idx :: p in
    (exists f, r = rn_new (IFragStart f)) \/
    holds (cs_of me) r \/
    (names s_pre_names name = true /\ holds (pre_style (cs_of me)) r).
  Proof.
    intros html name attrs kids p idx r H me. rewrite process_eq in H. unfold pbody in H.
    destruct (if udc then inl attrs else Ok []) as [inls| | |] eqn:Einl; cbn [bind] in H; try discriminate.
    assert (Ecs : computed_style sd (mkanc name attrs idx :: p) inls = cs_of me).
    { unfold cs_of, inls_of. subst me. cbn [me_attrs a_attrs]. rewrite Einl. reflexivity. }
    rewrite Ecs in H.
    apply not_hidden in H.
    bind_inv H base Hbase.
    assert (HB : forall nd, base = Some nd ->
                 rn_style nd = cs_of me \/
                 (names s_pre_names name = true /\ rn_style nd = pre_style (cs_of me))).
    { intros nd ->. destruct (negb html).
      - bind_inv Hbase cs Hcs. apply noempty_inv in Hbase. injection Hbase as <-. left. reflexivity.
      - destruct (names [[105; 109; 103]] name).
        { destruct (img_attrs attrs None None) as [[t|] [s|]]; try discriminate.
          injection Hbase as <-. left. reflexivity. }
        destruct (names [[98; 114]] name); [injection Hbase as <-; left; reflexivity|].
        destruct (names [[108;105;110;107]; [109;101;116;97]; [104;114]; [115;99;114;105;112;116];
                         [115;116;121;108;101]; [104;101;97;100]] name); [discriminate|].
        bind_inv Hbase cs Hcs. eapply build_element_style, Hbase. }
    assert (HW : forall nd, base = Some nd ->
                 holds (cs_of me) (wrap_pseudo (cs_of me) nd) \/
                 (names s_pre_names name = true /\
                  holds (pre_style (cs_of me)) (wrap_pseudo (cs_of me) nd))).
    { intros nd E. destruct (HB nd E) as [Hs|[Hn Hs]]; [left|right; split; [exact Hn|]];
        apply holds_wrap_pseudo; rewrite <- Hs; destruct nd; apply h_here. }
    destruct (fragment_of name (html && names [[97]] name) attrs) as [frag|].
    - destruct base as [nd|]; injection H as <-.
      + right. destruct (HW nd eq_refl) as [Hh|[Hn Hh]]; [left|right; split; [exact Hn|]];
          apply holds_insert, Hh.
      + left. exists frag. reflexivity.
    - destruct base as [nd|]; [|discriminate]. injection H as <-. right. exact (HW nd eq_refl).
  Qed.

  (* ---------- colours: from the DOM to the tags of the output ---------- *)
  Definition style_fg (d : deco) (s : cstyle) : option (N * N * N) :=
    if d_colours d then ws_val (c_colour (cs_core s)) else None.
  Definition style_bg (d : deco) (s : cstyle) : option (N * N * N) :=
    if d_colours d then ws_val (c_bg (cs_core s)) else None.
  (* the winning colour declaration of the element at me, if any, as far as the decorator
     shows colours (elem_cascade: the value is the cascade winner of elem_decls me) *)
  Definition elem_fg (d : deco) (me : list anc) : option (N * N * N) := style_fg d (cs_of me).
  Definition elem_bg (d : deco) (me : list anc) : option (N * N * N) := style_bg d (cs_of me).

  (* ch' = ch without some of its thead / tbody elements *)
  Inductive skipT : list (list anc) -> list (list anc) -> Prop :=
  | sk_nil : skipT [] []
  | sk_keep me ch ch' : skipT ch ch' -> skipT (me :: ch) (me :: ch')
  | sk_drop me ch ch' : is_tb me = true -> skipT ch ch' -> skipT (me :: ch) ch'.

  Lemma srel_colour d l ch : srel l ch ->
    exists ch', skipT ch ch' /\
      (forall acc, last_some (style_fg d) l acc = last_some (elem_fg d) ch' acc) /\
      (forall acc, last_some (style_bg d) l acc = last_some (elem_bg d) ch' acc).
  Proof.
    induction 1 as [|l ch H IH|l me ch H IH|l me ch Hp H IH|l me ch Ht H IH].
    - exists []. repeat split; constructor.
    - destruct IH as (ch' & Hs & Hf & Hb). exists ch'. split; [exact Hs|].
      split; intros acc; cbn [last_some].
      + replace (style_fg d cstyle0) with (@None (N * N * N)); [apply Hf|].
        unfold style_fg. destruct (d_colours d); reflexivity.
      + replace (style_bg d cstyle0) with (@None (N * N * N)); [apply Hb|].
        unfold style_bg. destruct (d_colours d); reflexivity.
    - destruct IH as (ch' & Hs & Hf & Hb). exists (me :: ch'). split; [apply sk_keep, Hs|].
      split; intros acc; cbn [last_some]; [apply Hf|apply Hb].
    - destruct IH as (ch' & Hs & Hf & Hb). exists (me :: ch'). split; [apply sk_keep, Hs|].
      split; intros acc; cbn [last_some]; [apply Hf|apply Hb].
    - destruct IH as (ch' & Hs & Hf & Hb). exists ch'. split; [apply sk_drop; assumption|].
      split; assumption.
  Qed.

  Lemma last_some_map {A B C} (f : B -> option C) (g : A -> B) l : forall acc,
    last_some f (map g l) acc = last_some (fun x => f (g x)) l acc.
  Proof. induction l as [|x l IH]; intros acc; cbn [map last_some]; [reflexivity|apply IH]. Qed.

  (* a tag of the output: padding, footnote list, or the tag of a chain of nested DOM elements
     whose last colour annotations are the winning colours of the nearest element of the
     chain that has one (thead/tbody elements possibly left out) *)
  Definition dom_tag_col (d : deco) (doc : list node) (t : tag) : Prop :=
    t = [] \/ t = [ADefault] \/
    exists ch ch', in_dom doc [] 1 ch /\ skipT ch ch' /\
      last_fg t = last_some (elem_fg d) ch' None /\
      last_bg t = last_some (elem_bg d) ch' None.

  Theorem dom_colour_inherit : forall d mw o width doc tree s,
    deco_plain d ->
    dom_to_render_tree sd udc inl doc = Ok tree ->
    render_tree d mw o width tree = Ok s ->
    sub_Q (dom_tag_col d doc) s.
  Proof.
    intros d mw o width doc tree s Hd Ht Hr.
    apply (render_tree_colour_inherit d mw o width tree s Hd) in Hr. revert Hr.
    apply sub_Q_impl. intros t [A|[A|(q & Hq & _ & Hf & Hb)]]; [left; exact A|right; left; exact A|].
    right. right. destruct (dom_tree_paths doc tree Ht q Hq) as (ch & Hc & Hs).
    destruct (srel_colour d _ _ Hs) as (ch' & Hk & Kf & Kb). exists ch, ch'.
    split; [exact Hc|]. split; [exact Hk|]. split.
    - rewrite Hf. unfold nearest_fg. rewrite <- Kf, last_some_map. reflexivity.
    - rewrite Hb. unfold nearest_bg. rewrite <- Kb, last_some_map. reflexivity.
  Qed.
End DomLevel.

(* ================================================================== *)
(* 6. Through the public front end (Api.to_render_tree with CssParse)   *)
(* ================================================================== *)
Theorem to_render_tree_colour : forall c doc tree d mw o width s,
  deco_plain d ->
  to_render_tree inline_styles doc_rules c doc = Ok tree ->
  render_tree d mw o width tree = Ok s ->
  exists sd, effective_sd doc_rules c doc = Ok sd /\
             sub_Q (dom_tag_col sd (c_use_doc_css c) inline_styles d doc) s.
Proof.
  intros c doc tree d mw o width s Hd Ht Hr. unfold to_render_tree in Ht.
  bind_inv Ht sd Hsd. exists sd. split; [exact Hsd|].
  eapply dom_colour_inherit; eassumption.
Qed.

(* ... and the styles of the elements in that statement are cascade winners: for every
   position me, property and (pseudo-)element (elem_cascade), e.g. the colour: *)
Corollary elem_fg_winner : forall sd udc inl d me,
  d_colours d = true ->
  cascade_value (proj st_colour None (elem_decls sd udc inl me)) (elem_fg sd udc inl d me).
Proof.
  intros sd udc inl d me Hd. unfold elem_fg, style_fg. rewrite Hd.
  apply (elem_cascade sd udc inl me None).
Qed.
Corollary elem_bg_winner : forall sd udc inl d me,
  d_colours d = true ->
  cascade_value (proj st_bg None (elem_decls sd udc inl me)) (elem_bg sd udc inl d me).
Proof.
  intros sd udc inl d me Hd. unfold elem_bg, style_bg. rewrite Hd.
  apply (elem_cascade sd udc inl me None).
Qed.

(* the <pre> node: its white-space cell is the cascade over the applicable declarations
   followed by the built-in one; colours etc. are those of the element *)
Theorem pre_style_cells : forall sd p inl,
  let c := computed_style sd p inl in
  c_white_space (cs_core (pre_style c)) =
    fold_left feed (proj st_ws None (applicable sd p inl) ++ [mkcd false OAgent spec0 WsPre]) ws_default /\
  c_colour (cs_core (pre_style c)) = c_colour (cs_core c) /\
  c_bg (cs_core (pre_style c)) = c_bg (cs_core c) /\
  c_display (cs_core (pre_style c)) = c_display (cs_core c) /\
  c_content (cs_core (pre_style c)) = c_content (cs_core c) /\
  cs_before (pre_style c) = cs_before c /\ cs_after (pre_style c) = cs_after c.
Proof.
  intros sd p inl. cbv zeta. repeat split.
  rewrite fold_left_app, <- (computed_cell _ _ lens_ws None). reflexivity.
Qed.

(* ================================================================== *)
(* 7. Non-vacuity                                                      *)
(* ================================================================== *)
Module CascadeDomExamples.
Import PruneExamples.
Import String Ascii.
Local Open Scope string_scope.

Definition rules (s : string) : list ruleset :=
  match parse_css_rules (t s) with CssOk rs => rs | _ => [] end.

(* <p id=x class=k style="color:#444444"> under
   agent  p{color:#111111}
   user   p{color:#222222 !important} .k{color:#232323}
   author #x{color:#333333 !important} p.k{color:#343434} *)
Definition ex_sd : styledata :=
  mkstd (rules "p{color:#111111}")
        (rules "p{color:#222222 !important} .k{color:#232323}")
        (rules "#x{color:#333333 !important} p.k{color:#343434}").
Definition ex_attrs : list (text * text) :=
  [(t "id", t "x"); (t "class", t "k"); (t "style", t "color:#444444")].
Definition ex_me : list anc := [mkanc (t "p") ex_attrs 1%Z].
Definition ex_colours : list (cdecl (N * N * N)) :=
  proj st_colour None (elem_decls ex_sd true inline_styles ex_me).

(* the applicable colour declarations in feeding order: (layer, [inline; ids; classes; types], value) *)
Example ex_applicable :
  List.map (fun d => (layer d, spec_key (cd_spec d), cd_val d)) ex_colours =
  [(1, [0; 0; 0; 1], (17, 17, 17)); (5, [0; 0; 0; 1], (34, 34, 34));
   (2, [0; 0; 1; 0], (35, 35, 35)); (4, [0; 1; 0; 0], (51, 51, 51));
   (3, [0; 0; 1; 1], (52, 52, 52)); (3, [1; 0; 0; 0], (68, 68, 68))]%N.
Proof. vm_compute. reflexivity. Qed.

(* the user !important declaration wins *)
Example ex_winner : is_winner ex_colours 1.
Proof.
  eexists. split; [vm_compute; reflexivity|].
  intros [|[|[|[|[|[|j]]]]]] e Hj; vm_compute in Hj; try (destruct j; discriminate);
    injection Hj as <-; (split; [vm_compute; reflexivity|]); intros Hlt; try lia;
    vm_compute; reflexivity.
Qed.
(* so the theorem pins the computed colour *)
Example ex_theorem_value :
  ws_val (c_colour (cs_core (cs_of ex_sd true inline_styles ex_me))) = Some (34, 34, 34)%N.
Proof.
  destruct (elem_cascade ex_sd true inline_styles ex_me None) as (H & _). cbv zeta in H.
  eapply cascade_value_fun; [exact H|]. right. eexists 1%nat, _.
  split; [vm_compute; reflexivity|]. split; [exact ex_winner|reflexivity].
Qed.
Example ex_in_applicable :
  In (decl_of OUser (mkspec false 0 0 1) None (mksd (SColour 34 34 34) true))
     (elem_decls ex_sd true inline_styles ex_me).
Proof. vm_compute. auto 10. Qed.

(* a document: colours from the DOM to the output.
   <style>div{color:#ff0000} em{background-color:#0000ff} #q{color:#00ff00 !important}
          tbody{color:#010203}</style>
   <div><p>a<em>b</em></p>
        <table><tbody><tr id=q style="color:#000001"><td>x</td></tr></tbody></table>
        <pre style="color:#000002">p</pre></div> *)
Definition cfgr : config := set_doc_css cfg_rich.
Definition doc2_style : node :=
  el "style" [] [tx "div{color:#ff0000} em{background-color:#0000ff} #q{color:#00ff00 !important} tbody{color:#010203}"].
Definition doc2_td : node := el "td" [] [tx "x"].
Definition doc2_tr : node := el "tr" [("id","q");("style","color:#000001")] [doc2_td].
Definition doc2_tbody : node := el "tbody" [] [doc2_tr].
Definition doc2_table : node := el "table" [] [doc2_tbody].
Definition doc2_p : node := el "p" [] [tx "a"; el "em" [] [tx "b"]].
Definition doc2_pre : node := el "pre" [("style","color:#000002")] [tx "p"].
Definition doc2_div : node := el "div" [] [doc2_p; doc2_table; doc2_pre].
Definition doc2 : list node := [doc2_style; doc2_div].
Definition doc2_sd : styledata := the_sd cfgr doc2.
Definition doc2_tree : rnode :=
  match to_render_tree inline_styles doc_rules cfgr doc2 with Ok tr => tr | _ => rn_new IBreak end.
Definition doc2_s : subr :=
  match render_tree rich_deco 3 ab_opts 20 doc2_tree with Ok s => s | _ => sub_new 0 ab_opts end.
Example doc2_tree_eq : to_render_tree inline_styles doc_rules cfgr doc2 = Ok doc2_tree.
Proof. vm_compute. reflexivity. Qed.
Example doc2_render_eq : render_tree rich_deco 3 ab_opts 20 doc2_tree = Ok doc2_s.
Proof. vm_compute. reflexivity. Qed.
(* the output: "x" in the row is green (#q !important beats the row's inline colour), the
   tbody colour is nowhere, the <pre> text has its inline colour *)
Example doc2_obs :
  ab_obs (Ok doc2_s) =
  Ok [[([97], [AColour 255 0 0]); ([98], [AColour 255 0 0; ABg 0 0 255; AEm])]; [];
      [([9472], [AColour 255 0 0])];
      [([120], [AColour 255 0 0; AColour 0 255 0])];
      [([9472], [AColour 255 0 0; AColour 0 255 0])]; [];
      [([112], [AColour 255 0 0; AColour 0 0 2; APre false])]]%N.
Proof. vm_compute. reflexivity. Qed.
(* the theorem applies *)
Example doc2_applies : sub_Q (dom_tag_col doc2_sd true inline_styles rich_deco doc2) doc2_s.
Proof.
  destruct (to_render_tree_colour cfgr doc2 doc2_tree rich_deco 3 ab_opts 20 doc2_s rich_deco_plain
              doc2_tree_eq doc2_render_eq) as (sd & Hsd & H).
  assert (sd = doc2_sd) as <-; [|exact H].
  vm_compute in Hsd. injection Hsd as <-. vm_compute. reflexivity.
Qed.
(* the chain of the "x": div, table, tbody, tr, td; without the tbody its nearest colour is
   the row's winner, the green of the output above *)
Definition pos_div : list anc := [mkanc (t "div") [] 2%Z].
Definition pos_table : list anc := mkanc (t "table") [] 2%Z :: pos_div.
Definition pos_tbody : list anc := mkanc (t "tbody") [] 1%Z :: pos_table.
Definition pos_tr : list anc :=
  mkanc (t "tr") [(t "id", t "q"); (t "style", t "color:#000001")] 1%Z :: pos_tbody.
Definition pos_td : list anc := mkanc (t "td") [] 1%Z :: pos_tr.
Lemma in_cons' kids p i l1 html name attrs ks l2 rest me :
  kids = (l1 ++ NElem html name attrs ks :: l2)%list ->
  me = mkanc name attrs (i + count_elems l1) :: p ->
  in_dom ks me 1 rest -> in_dom kids p i (me :: rest).
Proof. intros -> -> H. eapply in_cons; [reflexivity|exact H]. Qed.
Example doc2_chain : in_dom doc2 [] 1 [pos_div; pos_table; pos_tbody; pos_tr; pos_td].
Proof.
  apply (in_cons' doc2 [] 1%Z [doc2_style] true (t "div") [] [doc2_p; doc2_table; doc2_pre] []);
    [reflexivity|reflexivity|].
  apply (in_cons' _ pos_div 1%Z [doc2_p] true (t "table") [] [doc2_tbody] [doc2_pre]);
    [reflexivity|reflexivity|].
  apply (in_cons' _ pos_table 1%Z [] true (t "tbody") [] [doc2_tr] []); [reflexivity|reflexivity|].
  apply (in_cons' _ pos_tbody 1%Z [] true (t "tr") [(t "id", t "q"); (t "style", t "color:#000001")]
                  [doc2_td] []); [reflexivity|reflexivity|].
  apply (in_cons' _ pos_tr 1%Z [] true (t "td") [] [tx "x"] []); [reflexivity|reflexivity|].
  apply in_nil.
Qed.
Example doc2_chain_colour :
  skipT [pos_div; pos_table; pos_tbody; pos_tr; pos_td] [pos_div; pos_table; pos_tr; pos_td] /\
  last_some (elem_fg doc2_sd true inline_styles rich_deco) [pos_div; pos_table; pos_tr; pos_td] None
    = Some (0, 255, 0)%N /\
  elem_fg doc2_sd true inline_styles rich_deco pos_tbody = Some (1, 2, 3)%N.
Proof.
  split; [|split; vm_compute; reflexivity].
  apply sk_keep, sk_keep, sk_drop; [vm_compute; reflexivity|]. apply sk_keep, sk_keep, sk_nil.
Qed.
(* process_elem_holds on the <pre> and the <div> *)
Example doc2_pre_holds :
  forall r, process doc2_sd true inline_styles doc2_pre pos_div 3%Z = Ok (Some r) ->
  holds (pre_style (cs_of doc2_sd true inline_styles
                          (mkanc (t "pre") [(t "style", t "color:#000002")] 3%Z :: pos_div))) r.
Proof.
  intros r H. vm_compute in H. injection H as <-. vm_compute. apply h_here.
Qed.
Example doc2_pre_some :
  exists r, process doc2_sd true inline_styles doc2_pre pos_div 3%Z = Ok (Some r).
Proof. eexists. vm_compute. reflexivity. Qed.
End CascadeDomExamples.

(* ================================================================== *)
(* 8. The selector side, on a parsed rule                              *)
(* ================================================================== *)
Module CascadeDomSel.
Import PruneExamples CascadeDomExamples.
Import String Ascii.
Local Open Scope string_scope.
(* "div > p.k" as the parser delivers it is `flatten` of the relational selector, so by
   rule_applies_iff the rule applies exactly to the elements the relational semantics
   (Spec/Selector.matches) selects *)
Definition s1 : sel := SChild (SCompound [SElt (t "div")]) [SElt (t "p"); SCls (t "k")].
Example parsed_is_flatten :
  List.map rs_sel (rules "div > p.k{color:#010101}") = [mksel (flatten s1) None].
Proof. vm_compute. reflexivity. Qed.
Example parsed_rule_applies : forall p,
  sel_matches (mksel (flatten s1) None) p = true <-> matches s1 p.
Proof. intros p. apply rule_applies_iff. cbn. split; [discriminate|discriminate]. Qed.
(* specificities: ids, then classes AND :nth-child, then element names; `*` counts nothing *)
Example parsed_specificities :
  List.map (fun r => specificity (rs_sel r))
           (rules "div > p.k:nth-child(2n+1){color:#010101} #a *{color:#010101}") =
  [mkspec false 0 2 2; mkspec false 1 0 0].
Proof. vm_compute. reflexivity. Qed.
End CascadeDomSel.

(* ================================================================== *)
(* 9. FINDINGS and observations                                        *)
(* ================================================================== *)
Module CascadeDomFindings.
Import PruneExamples CascadeDomExamples.
Import String Ascii.
Local Open Scope string_scope.

(* The cascade key of the model agrees with the property text everywhere:
   layer_table (agent < user < author < author! < user! < agent!), inline style is the first
   component of the specificity within the author layers (applicable_keys: inline
   declarations are author declarations; an inline !important declaration is in layer 4 with
   the inline flag, above every author !important selector rule), :nth-child counts as a
   class (specificity_counts). *)
Example inline_important_over_id_important :
  let d_inl : cdecl N := mkcd true OAuthor spec_inline 1%N in
  let d_id : cdecl N := mkcd true OAuthor (mkspec false 5 5 5) 2%N in
  let d_user : cdecl N := mkcd true OUser (mkspec false 0 0 0) 3%N in
  key_lt d_id d_inl = true /\ key_lt d_inl d_user = true.
Proof. split; reflexivity. Qed.

(* FORMER FINDING F1, REPAIRED (display is now cascaded as a property): every `display`
   declaration is a declaration of the model (SDisplay true = none, SDisplay false = any other
   value) and is fed to the display cell; the element is hidden iff the WINNER is `none`
   (cell value Some true).  So a `display` declaration that wins the cascade undoes a losing
   `display:none`:
     <style>p{display:none} #x{display:block !important}</style>
     <p id=x style="display:block !important">t</p>          renders "t"
   (before the repair only `display:none` reached the cascade and this rendered nothing).
   The applicable display declarations are all three, the winner is the inline !important
   one (layer 4, inline), its value is `false`; c19_dom_cascade / elem_cascade pin the cell. *)
Definition f1_doc : list node :=
  [el "style" [] [tx "p{display:none} #x{display:block !important}"];
   el "p" [("id","x"); ("style","display:block !important")] [tx "t"]].
Definition f1_me : list anc :=
  [mkanc (t "p") [(t "id", t "x"); (t "style", t "display:block !important")] 2%Z].
Definition f1_displays : list (cdecl bool) :=
  proj st_display None (elem_decls (the_sd cfg f1_doc) true inline_styles f1_me).
Example display_block_overrides_none :
  out cfg f1_doc = Ok (lN "t" ++ [10])%list /\
  List.length (rules "p{display:none} #x{display:block !important}") = 2%nat /\
  List.map (fun d => (layer d, spec_key (cd_spec d), cd_val d)) f1_displays
    = [(3, [0; 0; 0; 1], true); (4, [0; 1; 0; 0], false); (4, [1; 0; 0; 0], false)]%N /\
  ws_val (c_display (cs_core (cs_of (the_sd cfg f1_doc) true inline_styles f1_me))) = Some false /\
  (* a lone display:none still hides; a winning display:none beats display:block *)
  out cfg [el "style" [] [tx "p{display:none}"]; el "p" [("id","x")] [tx "t"]] = Ok [] /\
  out cfg [el "style" [] [tx "p{display:none !important} #x{display:block}"];
           el "p" [("id","x"); ("style","display:block")] [tx "t"]] = Ok [].
Proof. vm_compute. repeat split; reflexivity. Qed.
(* the inline !important `block` is the winner, so the theorem pins the display cell to
   `Some false` (visible) *)
Example display_winner : is_winner f1_displays 2.
Proof.
  eexists. split; [vm_compute; reflexivity|].
  intros [|[|[|j]]] e Hj; vm_compute in Hj; try (destruct j; discriminate);
    injection Hj as <-; (split; [vm_compute; reflexivity|]); intros Hlt; try lia;
    vm_compute; reflexivity.
Qed.
Example display_theorem_value :
  ws_val (c_display (cs_core (cs_of (the_sd cfg f1_doc) true inline_styles f1_me))) = Some false.
Proof.
  destruct (elem_cascade (the_sd cfg f1_doc) true inline_styles f1_me None) as (_ & _ & H & _).
  cbv zeta in H. eapply cascade_value_fun; [exact H|]. right. eexists 2%nat, _.
  split; [vm_compute; reflexivity|]. split; [exact display_winner|reflexivity].
Qed.

(* OBSERVATION O1 (legacy attributes): color= / bgcolor= are fed as INLINE author
   declarations (inline_decls), so they beat every normal author rule, even #id rules:
     <style>#x{color:#0000ff}</style><p id=x color="#ff0000">t</p>   is red.
   In CSS presentational hints are author declarations of ZERO specificity that precede the
   author sheets (blue).  The property text does not speak about them. *)
Definition obs_dom (c : config) (doc : list node) (w : N) :=
  do tr <- to_render_tree inline_styles doc_rules c doc;
  ab_obs (render_tree (c_deco c) (c_min_wrap c) (render_options c) w tr).
Example o1_legacy_colour_attribute_is_inline :
  obs_dom cfgr [el "style" [] [tx "#x{color:#0000ff}"];
                el "p" [("id","x"); ("color","#ff0000")] [tx "t"]] 20 =
  Ok [[([116], [AColour 255 0 0])]]%N.
Proof. vm_compute. reflexivity. Qed.

(* OBSERVATION O2 (known finding C20 tbody_style_dropped, seen from the DOM): sr_skip is
   needed, doc2 above: tbody{color:#010203} is the winner for the <tbody> (doc2_chain_colour)
   but no tag of the output has it (doc2_obs).  All other element kinds that yield a node
   keep their style on it (process_elem_holds); elements that yield nothing (display:none,
   head/script/style/..., empty span/p/div/..., a table without rows) have no node at all. *)

(* OBSERVATION O3: the built-in `white-space: pre` of a <pre> element takes part in the
   cascade as an agent declaration of zero specificity that comes last (pre_style_cells):
   any user or author declaration, and any agent rule with an element / class / id selector,
   overrides it; an agent rule `*{white-space:normal}` does not. *)
Example o3_pre_builtin :
  let sdp s := mkstd (rules s) [] [] in
  let me := [mkanc (t "pre") [] 1%Z] in
  ws_val (c_white_space (cs_core (pre_style (computed_style (sdp "*{white-space:normal}") me [])))) = Some WsPre /\
  ws_val (c_white_space (cs_core (pre_style (computed_style (sdp "pre{white-space:normal}") me [])))) = Some WsNormal.
Proof. vm_compute. split; reflexivity. Qed.
End CascadeDomFindings.

Print Assumptions computed_style_applicable.
Print Assumptions in_applicable.
Print Assumptions computed_cell.
Print Assumptions computed_cell_winner.
Print Assumptions c19_dom_cascade.
Print Assumptions computed_before_none.
Print Assumptions specificity_counts.
Print Assumptions spec_lt_iff.
Print Assumptions Inv_insert.
Print Assumptions process_Inv.
Print Assumptions process_elem_holds.
Print Assumptions process_kids_paths.
Print Assumptions dom_tree_paths.
Print Assumptions dom_colour_inherit.
Print Assumptions to_render_tree_colour.
Print Assumptions elem_fg_winner.
Print Assumptions pre_style_cells.
Print Assumptions CascadeDomExamples.ex_theorem_value.
Print Assumptions CascadeDomExamples.doc2_applies.
Print Assumptions CascadeDomFindings.display_block_overrides_none.
Print Assumptions CascadeDomFindings.display_theorem_value.
