(* Proofs/CascadeProof.v -- C19: the WithSpec cascade cell computes the CSS cascade
   (the last declaration among those with a maximal key). *)
From Coq Require Import Lia ZifyN ZifyBool ZifyNat.
From H2T Require Import Base Tagged Wrap Css Spec.Cascade.

Local Open Scope N_scope.

(* ------------------------------------------------------------------ *)
(* lexicographic order on lists of N: a strict total order (on equal lengths) *)

Lemma lex_lt_irrefl : forall a, lex_lt a a = false.
Proof.
  induction a as [|x a IH]; simpl; [reflexivity|].
  rewrite IH, N.ltb_irrefl, andb_false_r. reflexivity.
Qed.

Lemma lex_lt_trans : forall a b c,
  lex_lt a b = true -> lex_lt b c = true -> lex_lt a c = true.
Proof.
  induction a as [|x a IH]; intros [|y b] [|z c]; simpl; try discriminate.
  intros H1 H2.
  specialize (IH b c).
  destruct (lex_lt a b) eqn:E1, (lex_lt b c) eqn:E2;
    try (rewrite (IH eq_refl eq_refl)); clear IH;
    destruct (lex_lt a c); lia.
Qed.

Lemma lN_eqb_eq : forall a b, lN_eqb a b = true <-> a = b.
Proof.
  induction a as [|x a IH]; intros [|y b]; simpl; split; intros H; try discriminate; auto.
  - apply andb_true_iff in H. destruct H as [H1 H2].
    apply N.eqb_eq in H1. apply IH in H2. subst. reflexivity.
  - inversion H; subst. rewrite N.eqb_refl. simpl. apply IH. reflexivity.
Qed.

Lemma lex_lt_total : forall a b, length a = length b ->
  lex_lt a b = false -> lex_lt b a = false -> a = b.
Proof.
  induction a as [|x a IH]; intros [|y b]; simpl; intros HL H1 H2; try discriminate; auto.
  injection HL as HL.
  specialize (IH b HL).
  destruct (lex_lt a b) eqn:E1, (lex_lt b a) eqn:E2;
    try (assert (x = y) by lia; subst; rewrite IH by reflexivity; reflexivity);
    try lia.
Qed.

Lemma lex_lt_asym : forall a b, lex_lt a b = true -> lex_lt b a = false.
Proof.
  intros a b H. destruct (lex_lt b a) eqn:E; [|reflexivity].
  pose proof (lex_lt_trans _ _ _ H E) as H'. rewrite lex_lt_irrefl in H'. discriminate.
Qed.

(* ------------------------------------------------------------------ *)
(* keys *)

Section Cascade.
Context {A : Type}.

Lemma key_length : forall d : cdecl A, length (key d) = 5%nat.
Proof. reflexivity. Qed.

Lemma key_lt_irrefl : forall d : cdecl A, key_lt d d = false.
Proof. intros. apply lex_lt_irrefl. Qed.

Lemma key_lt_asym : forall d e : cdecl A, key_lt d e = true -> key_lt e d = false.
Proof. intros d e. apply lex_lt_asym. Qed.

Lemma key_eq_not_lt : forall d e : cdecl A, key_eq d e = true -> key_lt e d = false.
Proof.
  unfold key_eq, key_lt. intros d e H. apply lN_eqb_eq in H. rewrite H. apply lex_lt_irrefl.
Qed.

Lemma key_eq_not_lt' : forall d e : cdecl A, key_eq d e = true -> key_lt d e = false.
Proof.
  unfold key_eq, key_lt. intros d e H. apply lN_eqb_eq in H. rewrite H. apply lex_lt_irrefl.
Qed.

Lemma key_trichotomy : forall d e : cdecl A,
  key_lt d e = false -> key_lt e d = false -> key_eq d e = true.
Proof.
  unfold key_eq, key_lt. intros d e H1 H2. apply lN_eqb_eq.
  apply lex_lt_total; auto.
Qed.

(* "<=" is transitive: not (x < d), not (d < e)  ==>  not (x < e) *)
Lemma key_le_trans : forall x d e : cdecl A,
  key_lt x d = false -> key_lt d e = false -> key_lt x e = false.
Proof.
  intros x d e H1 H2. destruct (key_lt x e) eqn:E; [|reflexivity]. exfalso.
  destruct (key_lt d x) eqn:E2.
  - unfold key_lt in *. rewrite (lex_lt_trans _ _ _ E2 E) in H2. discriminate.
  - pose proof (key_trichotomy _ _ E2 H1) as HE. unfold key_eq in HE.
    apply lN_eqb_eq in HE. unfold key_lt in *. rewrite HE in H2. congruence.
Qed.

(* ------------------------------------------------------------------ *)
(* the cell and one step of the cascade *)

Definition cell_of (d : cdecl A) : withspec A :=
  mkws (Some (cd_val d)) (cd_origin d) (cd_spec d) (cd_important d).

Definition spec_key (s : spec) : list N :=
  [if sp_inline s then 1 else 0; sp_id s; sp_class s; sp_typ s].

Lemma spec_lt_lex : forall a b, spec_lt a b = lex_lt (spec_key a) (spec_key b).
Proof.
  intros [ia da ca ta] [ib db cb tb]. unfold spec_lt, spec_key. simpl.
  destruct ia, ib; simpl;
    destruct (N.ltb_spec da db), (N.ltb_spec db da), (N.eqb_spec da db);
    destruct (N.ltb_spec ca cb), (N.ltb_spec cb ca), (N.eqb_spec ca cb);
    destruct (N.ltb_spec ta tb); simpl; try reflexivity; try lia.
Qed.

Lemma key_lt_unfold : forall d e : cdecl A,
  key_lt d e = (layer d <? layer e) || ((layer d =? layer e) && spec_lt (cd_spec d) (cd_spec e)).
Proof. intros. rewrite spec_lt_lex. reflexivity. Qed.

Lemma feed_cell : forall d x : cdecl A, real_origin d -> real_origin x ->
  feed (cell_of d) x = if key_lt x d then cell_of d else cell_of x.
Proof.
  intros [id od sd vd] [ix ox sx vx] Hd Hx. unfold real_origin in *. simpl in *.
  rewrite key_lt_unfold. unfold feed, maybe_update, cell_of, layer. simpl.
  destruct (spec_lt sx sd);
    destruct id, ix, od, ox; try congruence; reflexivity.
Qed.

Lemma feed_default : forall x : cdecl A, feed ws_default x = cell_of x.
Proof. reflexivity. Qed.

(* ------------------------------------------------------------------ *)
(* the invariant *)

Lemma is_winner_snoc_keep : forall (l : list (cdecl A)) i d x,
  nth_error l i = Some d -> is_winner l i -> key_lt x d = true -> is_winner (l ++ [x]) i.
Proof.
  intros l i d x Hn (d' & Hn' & Hw) Hlt. rewrite Hn in Hn'. injection Hn' as <-.
  exists d. split.
  - rewrite nth_error_app1; [assumption|]. apply nth_error_Some. congruence.
  - intros j e Hj.
    destruct (Nat.lt_ge_cases j (length l)) as [Hlen|Hlen].
    + rewrite nth_error_app1 in Hj by assumption. apply Hw. assumption.
    + rewrite nth_error_app2 in Hj by assumption.
      destruct (j - length l)%nat as [|k] eqn:Ek; simpl in Hj.
      * injection Hj as <-. split.
        -- apply key_lt_asym. assumption.
        -- intros _. destruct (key_eq d x) eqn:E; [|reflexivity].
           apply key_eq_not_lt in E. congruence.
      * destruct k; discriminate.
Qed.

Lemma is_winner_snoc_new : forall (l : list (cdecl A)) i d x,
  nth_error l i = Some d -> is_winner l i -> key_lt x d = false ->
  is_winner (l ++ [x]) (length l).
Proof.
  intros l i d x Hn (d' & Hn' & Hw) Hlt. rewrite Hn in Hn'. injection Hn' as <-.
  exists x. split.
  - rewrite nth_error_app2 by lia. rewrite Nat.sub_diag. reflexivity.
  - intros j e Hj.
    destruct (Nat.lt_ge_cases j (length l)) as [Hlen|Hlen].
    + rewrite nth_error_app1 in Hj by assumption. split.
      * apply key_le_trans with (d := d); [assumption|]. apply (Hw j e Hj).
      * intros; lia.
    + rewrite nth_error_app2 in Hj by assumption.
      destruct (j - length l)%nat as [|k] eqn:Ek; simpl in Hj.
      * injection Hj as <-. split; [apply key_lt_irrefl|]. intros; lia.
      * destruct k; discriminate.
Qed.

Lemma is_winner_single : forall x : cdecl A, is_winner [x] 0.
Proof.
  intros x. exists x. split; [reflexivity|].
  intros [|[|j]] e Hj; simpl in Hj; try discriminate.
  injection Hj as <-. split; [apply key_lt_irrefl|]. intros; lia.
Qed.

Lemma cascade_inv : forall l : list (cdecl A),
  l <> [] -> Forall real_origin l ->
  exists i d, nth_error l i = Some d /\ is_winner l i /\
              fold_left feed l ws_default = cell_of d.
Proof.
  induction l as [|x l IH] using rev_ind; intros Hne Hall; [congruence|].
  apply Forall_app in Hall. destruct Hall as [Hall Hx].
  inversion Hx as [|? ? Hx' _]; subst.
  rewrite fold_left_app. simpl.
  destruct l as [|y l'].
  - exists 0%nat, x. simpl. split; [reflexivity|]. split; [apply is_winner_single|reflexivity].
  - destruct IH as (i & d & Hn & Hw & Hc); [discriminate|assumption|].
    rewrite Hc.
    assert (Hd : real_origin d).
    { rewrite Forall_forall in Hall. apply Hall. eapply nth_error_In. eassumption. }
    rewrite feed_cell by assumption.
    destruct (key_lt x d) eqn:E.
    + exists i, d. split; [|split; [|reflexivity]].
      * rewrite nth_error_app1; [assumption|]. apply nth_error_Some. congruence.
      * eapply is_winner_snoc_keep; eassumption.
    + exists (length (y :: l')), x. split; [|split; [|reflexivity]].
      * rewrite nth_error_app2 by lia. rewrite Nat.sub_diag. reflexivity.
      * eapply is_winner_snoc_new; eassumption.
Qed.

End Cascade.

(* ------------------------------------------------------------------ *)
(* C19 *)

Theorem c19_cascade : forall (A : Type) (l : list (cdecl A)),
  l <> [] -> Forall real_origin l ->
  exists i d, nth_error l i = Some d /\ is_winner l i /\
              ws_val (fold_left feed l ws_default) = Some (cd_val d).
Proof.
  intros A l Hne Hall.
  destruct (cascade_inv l Hne Hall) as (i & d & Hn & Hw & Hc).
  exists i, d. rewrite Hc. auto.
Qed.

Theorem c19_winner_unique : forall (A : Type) (l : list (cdecl A)) i j,
  is_winner l i -> is_winner l j -> i = j.
Proof.
  intros A l i j (di & Hi & Wi) (dj & Hj & Wj).
  destruct (Wi j dj Hj) as [Hij1 Hij2].
  destruct (Wj i di Hi) as [Hji1 Hji2].
  pose proof (key_trichotomy _ _ Hij1 Hji1) as E1.
  pose proof (key_trichotomy _ _ Hji1 Hij1) as E2.
  destruct (Nat.lt_trichotomy i j) as [H|[H|H]]; [|assumption|].
  - rewrite (Hij2 H) in E1. discriminate.
  - rewrite (Hji2 H) in E2. discriminate.
Qed.

Theorem c19_empty : forall A, ws_val (fold_left feed (@nil (cdecl A)) ws_default) = None.
Proof. reflexivity. Qed.

(* the whole cell, not only its value, is that of the winner *)
Theorem c19_cascade_cell : forall (A : Type) (l : list (cdecl A)),
  l <> [] -> Forall real_origin l ->
  exists i d, nth_error l i = Some d /\ is_winner l i /\
              fold_left feed l ws_default = cell_of d.
Proof. intros A. apply cascade_inv. Qed.

(* ------------------------------------------------------------------ *)
(* non-vacuity: agent normal (id-specific), user normal, author !important, inline normal *)

Definition ex_decls : list (cdecl N) :=
  [ mkcd false OAgent (mkspec false 1 0 0) 10;
    mkcd false OUser (mkspec false 0 0 1) 20;
    mkcd true OAuthor (mkspec false 0 1 0) 30;
    mkcd false OAuthor spec_inline 40 ].

Example ex_real : Forall real_origin ex_decls.
Proof. repeat constructor; discriminate. Qed.

Example ex_winner : is_winner ex_decls 2.
Proof.
  eexists. split; [reflexivity|].
  intros [|[|[|[|j]]]] e Hj; simpl in Hj; try (destruct j; discriminate);
    injection Hj as <-; (split; [vm_compute; reflexivity|]); intros Hlt; try lia;
    vm_compute; reflexivity.
Qed.

Example ex_fold : ws_val (fold_left feed ex_decls ws_default) = Some 30.
Proof. vm_compute. reflexivity. Qed.

(* by uniqueness, the theorem's witness is index 2 *)
Example ex_theorem_pins :
  forall i d, nth_error ex_decls i = Some d -> is_winner ex_decls i -> i = 2%nat /\ cd_val d = 30.
Proof.
  intros i d Hn Hw. pose proof (c19_winner_unique _ _ _ _ Hw ex_winner) as ->.
  split; [reflexivity|]. simpl in Hn. injection Hn as <-. reflexivity.
Qed.

Print Assumptions c19_cascade.
Print Assumptions c19_winner_unique.
Print Assumptions c19_empty.
Print Assumptions c19_cascade_cell.
Print Assumptions ex_winner.
