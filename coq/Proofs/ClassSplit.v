(* Proofs/ClassSplit.v -- what `has_class` (Css.v) means: the class attribute is split at
   white space (str::split_whitespace), a token is compared exactly with the selector's class.

   css.rs:93-105 (Class arm of do_matches):
       for attr in attrs.iter() {
           if &attr.name.local == "class" {
               for cls in attr.value.split_whitespace() { if cls == class { return ...rest } } } }
       false
   White space in the model = the `ws` flag of a character; the harness fills it with
   char::is_whitespace of the real character (harness/src/core.rs enc_char), i.e. the Unicode
   White_Space property (`rust_ws` below), NOT only the five HTML "ASCII whitespace" characters. *)
From Coq Require Import List NArith ZArith Bool Lia ZifyN ZifyBool ZifyNat.
From H2T Require Import Base Tagged Wrap Css.
Import ListNotations.
Local Open Scope N_scope.
Local Arguments N.add : simpl never.
Local Arguments N.eqb : simpl never.

(* ---------- declarative notion of a token ---------- *)
Definition no_ws (t : text) : Prop := forall c, In c t -> ws c = false.
Definition ends_ws (pre : text) : Prop := pre = [] \/ exists p c, pre = p ++ [c] /\ ws c = true.
Definition starts_ws (post : text) : Prop := post = [] \/ exists c p, post = c :: p /\ ws c = true.

(* t is a maximal non-empty run of non-white-space characters of v *)
Definition token_of (t v : text) : Prop :=
  exists pre post, v = pre ++ t ++ post /\ t <> [] /\ no_ws t /\ ends_ws pre /\ starts_ws post.

Lemma no_ws_app a b : no_ws (a ++ b) <-> no_ws a /\ no_ws b.
Proof.
  unfold no_ws; split.
  - intros H; split; intros c Hc; apply H; apply in_app_iff; auto.
  - intros [Ha Hb] c Hc; apply in_app_iff in Hc; destruct Hc; auto.
Qed.

Lemma no_ws_rev a : no_ws (rev a) <-> no_ws a.
Proof. unfold no_ws; split; intros H c Hc; apply H; [apply -> in_rev|apply in_rev]; exact Hc. Qed.

Lemma ends_ws_snoc q x : ends_ws (q ++ [x]) <-> ws x = true.
Proof.
  split.
  - intros [E|(p & c & E & Hc)].
    + destruct q; discriminate E.
    + apply app_inj_tail in E. destruct E as [_ ->]. exact Hc.
  - intros H; right; exists q, x; auto.
Qed.

Lemma ends_ws_app_r a b : b <> [] -> (ends_ws (a ++ b) <-> ends_ws b).
Proof.
  intros Hb. destruct (exists_last Hb) as (b' & x & ->).
  rewrite app_assoc. rewrite !ends_ws_snoc. tauto.
Qed.

Lemma ends_ws_no_ws pre : ends_ws pre -> no_ws pre -> pre = [].
Proof.
  intros [E|(p & c & -> & Hc)] Hn; [exact E|].
  assert (ws c = false) as Hf by (apply Hn; apply in_app_iff; right; left; reflexivity).
  congruence.
Qed.

Lemma starts_ws_no_ws post : starts_ws post -> no_ws post -> post = [].
Proof.
  intros [E|(c & p & -> & Hc)] Hn; [exact E|].
  assert (ws c = false) as Hf by (apply Hn; left; reflexivity). congruence.
Qed.

(* a text without white space has exactly one token, itself (none if empty) *)
Lemma token_of_no_ws t w : no_ws w -> (token_of t w <-> t = w /\ w <> []).
Proof.
  intros Hw; split.
  - intros (pre & post & E & Hne & Ht & Hpre & Hpost). subst w.
    apply no_ws_app in Hw. destruct Hw as [Hw1 Hw2]. apply no_ws_app in Hw2. destruct Hw2 as [_ Hw3].
    apply ends_ws_no_ws in Hpre; [|exact Hw1]. apply starts_ws_no_ws in Hpost; [|exact Hw3].
    subst. cbn [app]. rewrite app_nil_r. auto.
  - intros [-> Hne]. exists [], []. cbn [app]. rewrite app_nil_r.
    repeat split; auto; left; reflexivity.
Qed.

(* a leading white-space character is harmless *)
Lemma token_of_ws_cons t c v : ws c = true -> (token_of t (c :: v) <-> token_of t v).
Proof.
  intros Hc; split.
  - intros (pre & post & E & Hne & Ht & Hpre & Hpost).
    destruct pre as [|c' pre'].
    + destruct t as [|c' t']; [congruence|]. cbn [app] in E. injection E as <- _.
      assert (ws c = false) by (apply Ht; left; reflexivity). congruence.
    + cbn [app] in E. injection E as <- E. exists pre', post. repeat split; auto.
      destruct pre' as [|d pre'']; [left; reflexivity|].
      apply (ends_ws_app_r [c] (d :: pre'')); [discriminate|exact Hpre].
  - intros (pre & post & E & Hne & Ht & Hpre & Hpost). exists (c :: pre), post.
    repeat split; auto; [cbn [app]; congruence|].
    destruct pre as [|d pre']; [apply (ends_ws_snoc [] c); exact Hc|].
    apply (ends_ws_app_r [c] (d :: pre')); [discriminate|exact Hpre].
Qed.

(* first word: a white-space-free non-empty w followed by a separator *)
Lemma token_of_word t w c v : no_ws w -> w <> [] -> ws c = true ->
  (token_of t (w ++ c :: v) <-> t = w \/ token_of t v).
Proof.
  intros Hw Hwne Hc; split.
  - intros (pre & post & E & Hne & Ht & Hpre & Hpost).
    apply app_eq_app in E. destruct E as (l & [[E1 E2]|[E1 E2]]).
    + (* w = pre ++ l, t ++ post = l ++ c :: v *)
      subst w. apply no_ws_app in Hw. destruct Hw as [Hw1 Hw2].
      apply ends_ws_no_ws in Hpre; [|exact Hw1]. subst pre. cbn [app] in *.
      apply app_eq_app in E2. destruct E2 as (l2 & [[E3 E4]|[E3 E4]]).
      * (* t = l ++ l2, c :: v = l2 ++ post *)
        destruct l2 as [|d l2']; [rewrite app_nil_r in E3; left; exact E3|].
        cbn [app] in E4. injection E4 as <- _.
        assert (ws c = false) by (apply Ht; rewrite E3; apply in_app_iff; right; left; reflexivity).
        congruence.
      * (* l = t ++ l2, post = l2 ++ c :: v *)
        destruct l2 as [|d l2']; [rewrite app_nil_r in E3; left; auto|].
        subst l. destruct Hpost as [E|(d' & p & E & Hd)]; [subst post; discriminate E|].
        rewrite E4 in E. cbn [app] in E. injection E as <- _.
        assert (ws d = false) by (apply Hw2; apply in_app_iff; right; left; reflexivity). congruence.
    + (* pre = w ++ l, c :: v = l ++ t ++ post *)
      destruct l as [|d l'].
      * rewrite app_nil_r in E1. subst pre. apply ends_ws_no_ws in Hpre; [|exact Hw]. congruence.
      * cbn [app] in E2. injection E2 as <- E2. right. exists l', post. repeat split; auto.
        destruct l' as [|e l'']; [left; reflexivity|].
        subst pre. change (w ++ c :: e :: l'') with (w ++ [c] ++ (e :: l'')) in Hpre.
        rewrite app_assoc in Hpre. apply ends_ws_app_r in Hpre; [exact Hpre|discriminate].
  - intros [->|(pre & post & E & Hne & Ht & Hpre & Hpost)].
    + exists [], (c :: v). cbn [app]. repeat split; auto; [left; reflexivity|].
      right; exists c, v; auto.
    + exists (w ++ c :: pre), post. subst v. repeat split; auto.
      * rewrite <- app_assoc. reflexivity.
      * destruct pre as [|d pre'].
        -- apply ends_ws_snoc. exact Hc.
        -- change (w ++ c :: d :: pre') with (w ++ [c] ++ (d :: pre')). rewrite app_assoc.
           apply ends_ws_app_r; [discriminate|exact Hpre].
Qed.

(* ---------- the model's split computes the tokens ---------- *)
Lemma split_ws_aux_spec : forall v cur t, no_ws cur ->
  (In t (split_ws_aux v cur) <-> token_of t (rev cur ++ v)).
Proof.
  induction v as [|c v IH]; intros cur t Hcur.
  - cbn [split_ws_aux]. rewrite app_nil_r.
    rewrite token_of_no_ws by (apply no_ws_rev; exact Hcur).
    destruct cur as [|d cur'].
    + cbn [rev In]. split; [tauto|intros [_ H]; congruence].
    + cbn [In]. split.
      * intros [<-|[]]. split; [reflexivity|]. cbn [rev]. intros E. destruct (rev cur'); discriminate E.
      * intros [-> _]. left; reflexivity.
  - cbn [split_ws_aux]. destruct (ws c) eqn:Hc.
    + destruct cur as [|d cur'].
      * cbn [rev app]. rewrite token_of_ws_cons by exact Hc.
        rewrite (IH [] t) by (intros ? []). reflexivity.
      * assert (rev (d :: cur') <> []) as Hne by (cbn [rev]; intros E; destruct (rev cur'); discriminate E).
        rewrite token_of_word; [|apply no_ws_rev; exact Hcur|exact Hne|exact Hc].
        cbn [In]. rewrite (IH [] t) by (intros ? []). cbn [rev app].
        split; intros [H|H]; auto.
    + rewrite IH.
      * cbn [rev]. rewrite <- app_assoc. reflexivity.
      * intros x [<-|Hx]; [exact Hc|apply Hcur; exact Hx].
Qed.

Theorem split_whitespace_spec : forall v t,
  In t (split_whitespace v) <-> token_of t v.
Proof. intros v t. unfold split_whitespace. rewrite split_ws_aux_spec by (intros ? []). reflexivity. Qed.
Print Assumptions split_whitespace_spec.

(* ---------- the whole list (order, multiplicity): v = s0 t1 s1 ... tn sn ---------- *)
Definition only_ws (s : text) : Prop := forall c, In c s -> ws c = true.

Inductive toks : text -> list text -> Prop :=
| toks_ws : forall s, only_ws s -> toks s []
| toks_end : forall s t, only_ws s -> t <> [] -> no_ws t -> toks (s ++ t) [t]
| toks_cons : forall s t c rest l, only_ws s -> t <> [] -> no_ws t -> ws c = true ->
    toks rest l -> toks (s ++ t ++ c :: rest) (t :: l).

Lemma split_ws_aux_word : forall w r cur, no_ws w ->
  split_ws_aux (w ++ r) cur = split_ws_aux r (rev w ++ cur).
Proof.
  induction w as [|c w IH]; intros r cur Hw; [reflexivity|].
  cbn [app split_ws_aux]. rewrite (Hw c) by (left; reflexivity).
  rewrite IH by (intros x Hx; apply Hw; right; exact Hx).
  cbn [rev]. rewrite <- app_assoc. reflexivity.
Qed.

Lemma split_ws_cons c v : ws c = true -> split_whitespace (c :: v) = split_whitespace v.
Proof. intros Hc. unfold split_whitespace. cbn [split_ws_aux]. rewrite Hc. reflexivity. Qed.

Lemma split_only_ws_app s r : only_ws s -> split_whitespace (s ++ r) = split_whitespace r.
Proof.
  induction s as [|c s IH]; intros Hs; [reflexivity|].
  cbn [app]. rewrite split_ws_cons by (apply Hs; left; reflexivity).
  apply IH. intros x Hx; apply Hs; right; exact Hx.
Qed.

Lemma split_word_sep w c v : no_ws w -> w <> [] -> ws c = true ->
  split_whitespace (w ++ c :: v) = w :: split_whitespace v.
Proof.
  intros Hw Hne Hc. unfold split_whitespace. rewrite split_ws_aux_word by exact Hw.
  rewrite app_nil_r. cbn [split_ws_aux]. rewrite Hc.
  destruct (rev w) as [|d r] eqn:E.
  - apply (f_equal (@rev chr)) in E. rewrite rev_involutive in E. cbn [rev] in E. congruence.
  - rewrite <- E, rev_involutive. reflexivity.
Qed.

Lemma split_word_end w : no_ws w -> w <> [] -> split_whitespace w = [w].
Proof.
  intros Hw Hne. unfold split_whitespace. rewrite <- (app_nil_r w) at 1.
  rewrite split_ws_aux_word by exact Hw. rewrite app_nil_r. cbn [split_ws_aux].
  destruct (rev w) as [|d r] eqn:E.
  - apply (f_equal (@rev chr)) in E. rewrite rev_involutive in E. cbn [rev] in E. congruence.
  - rewrite <- E, rev_involutive. reflexivity.
Qed.

Lemma toks_ws_cons c v l : ws c = true -> toks v l -> toks (c :: v) l.
Proof.
  intros Hc H. assert (forall s, only_ws s -> only_ws (c :: s)) as Hs
    by (intros s Hs x [<-|Hx]; auto).
  destruct H as [s H|s t H Hne Ht|s t d rest l H Hne Ht Hd Hr].
  - apply toks_ws; auto.
  - apply (toks_end (c :: s)); auto.
  - apply (toks_cons (c :: s)); auto.
Qed.

Lemma split_ws_aux_toks : forall v cur, no_ws cur -> toks (rev cur ++ v) (split_ws_aux v cur).
Proof.
  induction v as [|c v IH]; intros cur Hcur.
  - cbn [split_ws_aux]. rewrite app_nil_r. destruct cur as [|d cur'].
    + apply toks_ws. intros ? [].
    + apply (toks_end []); [intros ? []| |apply no_ws_rev; exact Hcur].
      cbn [rev]. intros E. destruct (rev cur'); discriminate E.
  - cbn [split_ws_aux]. destruct (ws c) eqn:Hc.
    + destruct cur as [|d cur'].
      * cbn [rev app]. apply toks_ws_cons; [exact Hc|]. apply (IH []). intros ? [].
      * apply (toks_cons []); [intros ? []| |apply no_ws_rev; exact Hcur|exact Hc|].
        -- cbn [rev]. intros E. destruct (rev cur'); discriminate E.
        -- apply (IH []). intros ? [].
    + replace (rev cur ++ c :: v) with (rev (c :: cur) ++ v) by (cbn [rev]; rewrite <- app_assoc; reflexivity).
      apply IH. intros x [<-|Hx]; [exact Hc|apply Hcur; exact Hx].
Qed.

(* the model's split is THE decomposition: l is the token list of v iff l = split_whitespace v *)
Theorem split_whitespace_toks : forall v l, toks v l <-> split_whitespace v = l.
Proof.
  intros v l; split.
  - induction 1 as [s H|s t H Hne Ht|s t c rest l H Hne Ht Hc Hr IH].
    + rewrite <- (app_nil_r s). rewrite split_only_ws_app by exact H. reflexivity.
    + rewrite split_only_ws_app by exact H. apply split_word_end; assumption.
    + rewrite split_only_ws_app by exact H. rewrite split_word_sep by assumption. rewrite IH; reflexivity.
  - intros <-. apply (split_ws_aux_toks v []). intros ? [].
Qed.
Print Assumptions split_whitespace_toks.

(* ---------- has_class ---------- *)
Lemma lN_eqb_iff' : forall a b, lN_eqb a b = true <-> a = b.
Proof.
  induction a as [|x a IH]; destruct b as [|y b]; cbn [lN_eqb]; try (split; [discriminate|discriminate]).
  - tauto.
  - rewrite andb_true_iff, IH, N.eqb_eq. split; [intros [-> ->]; reflexivity|intros E; injection E; auto].
Qed.

(* names and tokens are compared by code points only (`cps`), exactly: case-sensitive, no
   normalisation; width/ws/label fields of the characters are ignored *)
Theorem has_class_spec : forall a cls,
  has_class a cls = true <->
  exists k v, In (k, v) (a_attrs a) /\ cps k = s_class /\
              exists t, token_of t v /\ cps t = cps cls.
Proof.
  intros a cls. unfold has_class. rewrite existsb_exists. split.
  - intros ([k v] & Hin & H). cbn [fst snd] in H. apply andb_true_iff in H. destruct H as [Hk Hv].
    apply existsb_exists in Hv. destruct Hv as (t & Ht & He).
    exists k, v. split; [exact Hin|]. split; [apply lN_eqb_iff'; exact Hk|].
    exists t. split; [apply split_whitespace_spec; exact Ht|apply lN_eqb_iff'; exact He].
  - intros (k & v & Hin & Hk & t & Ht & He). exists (k, v). split; [exact Hin|].
    cbn [fst snd]. apply andb_true_iff. split; [apply lN_eqb_iff'; exact Hk|].
    apply existsb_exists. exists t. split; [apply split_whitespace_spec; exact Ht|apply lN_eqb_iff'; exact He].
Qed.
Print Assumptions has_class_spec.

(* the Class arm of the matcher, in these terms *)
Corollary class_arm_spec : forall cls rest a p,
  do_matches (CClass cls :: rest) (a :: p) = true <->
  (exists k v, In (k, v) (a_attrs a) /\ cps k = s_class /\ exists t, token_of t v /\ cps t = cps cls)
  /\ do_matches rest (a :: p) = true.
Proof. intros. cbn [do_matches]. rewrite andb_true_iff, has_class_spec. reflexivity. Qed.
Print Assumptions class_arm_spec.

(* ---------- corollaries: separators in any position / number are harmless ---------- *)
Lemma split_ws_aux_only_ws : forall s, only_ws s -> split_ws_aux s [] = [].
Proof.
  induction s as [|c s IH]; intros Hs; [reflexivity|].
  cbn [split_ws_aux]. rewrite (Hs c) by (left; reflexivity). apply IH. intros x Hx; apply Hs; right; exact Hx.
Qed.

Lemma split_ws_aux_trailing : forall v s cur, only_ws s -> split_ws_aux (v ++ s) cur = split_ws_aux v cur.
Proof.
  induction v as [|c v IH]; intros s cur Hs.
  - cbn [app]. destruct s as [|d s']; [reflexivity|].
    cbn [split_ws_aux]. rewrite (Hs d) by (left; reflexivity).
    rewrite split_ws_aux_only_ws by (intros x Hx; apply Hs; right; exact Hx). reflexivity.
  - cbn [app split_ws_aux]. rewrite !IH by exact Hs. reflexivity.
Qed.

Corollary split_leading_trailing s1 v s2 : only_ws s1 -> only_ws s2 ->
  split_whitespace (s1 ++ v ++ s2) = split_whitespace v.
Proof.
  intros H1 H2. rewrite split_only_ws_app by exact H1. unfold split_whitespace.
  apply split_ws_aux_trailing; exact H2.
Qed.

Lemma split_ws_aux_double : forall a c d b cur, ws c = true -> ws d = true ->
  split_ws_aux (a ++ c :: d :: b) cur = split_ws_aux (a ++ c :: b) cur.
Proof.
  induction a as [|x a IH]; intros c d b cur Hc Hd.
  - cbn [app split_ws_aux]. rewrite Hc, Hd. reflexivity.
  - cbn [app split_ws_aux]. rewrite !IH by assumption. reflexivity.
Qed.

Corollary split_double_sep a c d b : ws c = true -> ws d = true ->
  split_whitespace (a ++ c :: d :: b) = split_whitespace (a ++ c :: b).
Proof. intros; apply split_ws_aux_double; assumption. Qed.

(* any two separators are interchangeable: only the flag matters *)
Lemma split_ws_aux_swap_sep : forall a c d b cur, ws c = true -> ws d = true ->
  split_ws_aux (a ++ c :: b) cur = split_ws_aux (a ++ d :: b) cur.
Proof.
  induction a as [|x a IH]; intros c d b cur Hc Hd.
  - cbn [app split_ws_aux]. rewrite Hc, Hd. reflexivity.
  - cbn [app split_ws_aux]. rewrite !(IH c d) by assumption. reflexivity.
Qed.

Corollary split_any_sep a c d b : ws c = true -> ws d = true ->
  split_whitespace (a ++ c :: b) = split_whitespace (a ++ d :: b).
Proof. intros; apply split_ws_aux_swap_sep; assumption. Qed.

(* (c) several class attributes: each of them counts *)
Corollary has_class_any_attr a cls k v t :
  In (k, v) (a_attrs a) -> cps k = s_class -> In t (split_whitespace v) -> cps t = cps cls ->
  has_class a cls = true.
Proof.
  intros Hin Hk Ht He. apply has_class_spec. exists k, v. repeat split; auto.
  exists t. split; [apply split_whitespace_spec; exact Ht|exact He].
Qed.

(* (b) the comparison sees code points only *)
Corollary has_class_cps a cls cls' : cps cls = cps cls' -> has_class a cls = has_class a cls'.
Proof.
  intros E. destruct (has_class a cls) eqn:H1; destruct (has_class a cls') eqn:H2; try reflexivity.
  - apply has_class_spec in H1. destruct H1 as (k & v & Hin & Hk & t & Ht & He).
    rewrite E in He. assert (has_class a cls' = true) by (apply has_class_spec; eauto 8). congruence.
  - apply has_class_spec in H2. destruct H2 as (k & v & Hin & Hk & t & Ht & He).
    rewrite <- E in He. assert (has_class a cls = true) by (apply has_class_spec; eauto 8). congruence.
Qed.
Print Assumptions has_class_cps.

(* ---------- which characters separate: the flag = char::is_whitespace (Unicode White_Space) ---------- *)
Definition rust_ws (n : N) : bool :=
  ((9 <=? n) && (n <=? 13)) || (n =? 32) || (n =? 133) || (n =? 160) || (n =? 5760) ||
  ((8192 <=? n) && (n <=? 8202)) || (n =? 8232) || (n =? 8233) || (n =? 8239) || (n =? 8287) || (n =? 12288).
Definition html_ws (n : N) : bool := (n =? 9) || (n =? 10) || (n =? 12) || (n =? 13) || (n =? 32).
Definition ws_faithful (c : chr) : Prop := ws c = rust_ws (cp c).

(* every HTML ASCII-whitespace character separates (given the harness's flag) ... *)
Lemma html_ws_separates c : ws_faithful c -> html_ws (cp c) = true -> ws c = true.
Proof.
  unfold ws_faithful, html_ws, rust_ws. intros -> H.
  repeat (apply orb_true_iff in H; destruct H as [H|H]); apply N.eqb_eq in H; rewrite H; reflexivity.
Qed.
(* ... but so do U+000B, U+0085, U+00A0, ... which HTML does not treat as class separators *)
Example rust_ws_more : map (fun n => (rust_ws n, html_ws n)) [11; 133; 160; 8195; 12288]
  = [(true,false); (true,false); (true,false); (true,false); (true,false)].
Proof. vm_compute. reflexivity. Qed.

(* ---------- Examples ---------- *)
Definition dch (n : N) : chr := mkchr n (Some 1) (rust_ws n) 16.
Definition dtx (l : list N) : text := map dch l.
Definition cls_attr (l : list N) : text * text := (dtx s_class, dtx l).
Definition el (attrs : list (text * text)) : anc := mkanc (dtx [100;105;118]) attrs 1.
(* j=106 k=107 *)

(* (a) class="j<TAB>k", "j<LF>k", "j<FF>k", "j<CR>k", "j k": both j and k *)
Example ex_five_seps :
  map (fun s => (has_class (el [cls_attr [106; s; 107]]) (dtx [106]),
                 has_class (el [cls_attr [106; s; 107]]) (dtx [107]),
                 has_class (el [cls_attr [106; s; 107]]) (dtx [106; s; 107])))
      [9; 10; 12; 13; 32]
  = [(true,true,false); (true,true,false); (true,true,false); (true,true,false); (true,true,false)].
Proof. vm_compute. reflexivity. Qed.

Example ex_split_tab : map cps (split_whitespace (dtx [106; 9; 107])) = [[106]; [107]].
Proof. vm_compute. reflexivity. Qed.

(* leading / trailing / repeated / mixed separators *)
Example ex_messy : map cps (split_whitespace (dtx [32; 9; 106; 106; 13; 10; 12; 107; 32; 32]))
  = [[106;106]; [107]].
Proof. vm_compute. reflexivity. Qed.
Example ex_messy_toks : toks (dtx [32; 9; 106; 106; 13; 10; 12; 107; 32; 32]) [dtx [106;106]; dtx [107]].
Proof. apply split_whitespace_toks. vm_compute. reflexivity. Qed.
Example ex_token_of : token_of (dtx [107]) (dtx [106; 9; 107; 10]).
Proof. apply split_whitespace_spec. vm_compute. right; left; reflexivity. Qed.
Example ex_not_token : ~ token_of (dtx [106]) (dtx [106; 106; 9; 107]).   (* a proper part of a run is no token *)
Proof. rewrite <- split_whitespace_spec. vm_compute. intros [H|[H|[]]]; discriminate H. Qed.
Example ex_empty : split_whitespace (dtx [32; 9]) = [] /\ has_class (el [cls_attr [32; 9]]) [] = false
  /\ has_class (el [cls_attr []]) [] = false.     (* the empty name is never a class *)
Proof. vm_compute. auto. Qed.

(* difference to the DOM standard (which splits at 9,10,12,13,32 only): NBSP and VT split too *)
Example ex_nbsp_vt :
  (has_class (el [cls_attr [106; 160; 107]]) (dtx [107]),
   has_class (el [cls_attr [106; 11; 107]]) (dtx [107]),
   has_class (el [cls_attr [106; 160; 107]]) (dtx [106; 160; 107])) = (true, true, false).
Proof. vm_compute. reflexivity. Qed.

(* (b) exact comparison: "K" is not "k"; label/width of the characters do not matter *)
Example ex_case : (has_class (el [cls_attr [106; 32; 75]]) (dtx [107]),
                   has_class (el [cls_attr [106; 32; 75]]) (dtx [75]),
                   has_class (el [cls_attr [106; 32; 75]]) (of_ascii [75])) = (false, true, true).
Proof. vm_compute. reflexivity. Qed.

(* the attribute name is compared exactly too: "CLASS" / "classs" do not count *)
Example ex_attr_name :
  (has_class (el [(dtx [67;76;65;83;83], dtx [107])]) (dtx [107]),
   has_class (el [(dtx [99;108;97;115;115;115], dtx [107])]) (dtx [107])) = (false, false).
Proof. vm_compute. reflexivity. Qed.

(* (c) two class attributes (html5ever never delivers this: it drops duplicate attributes and keeps the
   first; the model, like the loop in css.rs, would look at all of them) *)
Example ex_two_attrs :
  (has_class (el [cls_attr [106]; (dtx s_id, dtx [120]); cls_attr [120; 9; 107]]) (dtx [107]),
   has_class (el [cls_attr [106]; (dtx s_id, dtx [120]); cls_attr [120; 9; 107]]) (dtx [106])) = (true, true).
Proof. vm_compute. reflexivity. Qed.

(* the matcher: .k matches <div class="j<TAB>k"> *)
Example ex_match : do_matches [CClass (dtx [107])] [el [cls_attr [106; 9; 107]]] = true.
Proof. vm_compute. reflexivity. Qed.
Example ex_class_arm : 
  (exists k v, In (k, v) (a_attrs (el [cls_attr [106; 9; 107]])) /\ cps k = s_class /\
     exists t, token_of t v /\ cps t = cps (dtx [107])) /\ do_matches [] [el [cls_attr [106; 9; 107]]] = true.
Proof. apply (class_arm_spec (dtx [107]) [] (el [cls_attr [106; 9; 107]]) []). vm_compute. reflexivity. Qed.
