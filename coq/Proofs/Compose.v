(* Proofs/Compose.v -- C07 (prefix composition) and C15, first clause (a maximum wrap
   width >= the width changes nothing) for the whole renderer model.  No axioms. *)
From H2T Require Import Base Tagged Wrap Sub Css Dom Render Api.
From H2T Require Import Proofs.WrapInv Proofs.Small Proofs.RenderWidth.
From Coq Require Import Lia ZifyN ZifyBool ZifyNat.

Local Arguments N.add : simpl never.
Local Arguments N.sub : simpl never.
Local Arguments N.mul : simpl never.
Local Arguments N.div : simpl never.
Local Arguments N.modulo : simpl never.
Local Arguments N.leb : simpl never.
Local Arguments N.ltb : simpl never.
Local Arguments N.eqb : simpl never.
Local Arguments N.min : simpl never.
Local Arguments N.max : simpl never.
Local Arguments N.to_nat : simpl never.
Local Arguments N.of_nat : simpl never.
Local Open Scope N_scope.

(* ================================================================== *)
(* 1. Outcome relation and lock-step simulation of two runs             *)
(* ================================================================== *)

(* same outcome kind (the same Panic site), related values when Ok *)
Definition res_rel {A B} (P : A -> B -> Prop) (x : res A) (y : res B) : Prop :=
  match x, y with
  | Ok a, Ok b => P a b
  | TooNarrow, TooNarrow => True
  | Panic i, Panic j => i = j
  | OutOfFuel, OutOfFuel => True
  | _, _ => False
  end.

Lemma res_rel_bind {A B A' B'} (P : A -> B -> Prop) (Q : A' -> B' -> Prop) x y k1 k2 :
  res_rel P x y -> (forall a b, P a b -> res_rel Q (k1 a) (k2 b)) ->
  res_rel Q (bind x k1) (bind y k2).
Proof. destruct x, y; cbn [res_rel bind]; intros H K; try contradiction; auto. Qed.

Lemma res_rel_refl {A} (x : res A) : res_rel eq x x.
Proof. destruct x; cbn; auto. Qed.

Lemma res_rel_eq {A} (x y : res A) : res_rel eq x y -> x = y.
Proof. destruct x, y; cbn; intros H; try contradiction; congruence. Qed.

Lemma res_rel_impl {A B} (P Q : A -> B -> Prop) x y :
  (forall a b, P a b -> Q a b) -> res_rel P x y -> res_rel Q x y.
Proof. destruct x, y; cbn; auto. Qed.

Lemma res_rel_ok_l {A B} (P : A -> B -> Prop) x y a :
  res_rel P x y -> x = Ok a -> exists b, y = Ok b /\ P a b.
Proof. intros H ->. destruct y; cbn in H; try contradiction. eauto. Qed.

Lemma res_rel_fold {A B C} (P : A -> B -> Prop) (f : C -> A -> res A) (g : C -> B -> res B) :
  forall (l : list C) x y,
  (forall c, In c l -> forall a b, P a b -> res_rel P (f c a) (g c b)) ->
  res_rel P x y ->
  res_rel P (fold_left (fun acc c => do s <- acc; f c s) l x)
            (fold_left (fun acc c => do s <- acc; g c s) l y).
Proof.
  induction l as [|c l IH]; intros x y Hstep Hxy; cbn [fold_left]; [exact Hxy|].
  apply IH; [intros c' Hc'; apply Hstep; right; exact Hc'|].
  eapply res_rel_bind; [exact Hxy|]. apply Hstep. left. reflexivity.
Qed.

(* the operations of the sub-renderer used by render_node respect a relation SR between
   two sub-renderers *)
Definition pureR (SR : subr -> subr -> Prop) (g : subr -> subr) : Prop :=
  forall x y, SR x y -> SR (g x) (g y).
Definition opR (SR : subr -> subr -> Prop) (f : subr -> res subr) : Prop :=
  forall x y, SR x y -> res_rel SR (f x) (f y).

Record SimOps (d : deco) (SR : subr -> subr -> Prop) : Prop := mkSimOps {
  so_push_colour : forall r g b, pureR SR (fun s => push_colour d s r g b);
  so_push_bg : forall r g b, pureR SR (fun s => push_bgcolour d s r g b);
  so_push_ws : forall m, pureR SR (fun s => push_ws_mode s m);
  so_push_pre : pureR SR push_preformat;
  so_pop_colour : pureR SR (pop_colour d);
  so_pop_ws : pureR SR pop_ws_mode;
  so_pop_pre : opR SR pop_preformat;
  so_inline : forall t, opR SR (fun s => add_inline_text d s t);
  so_start_link : forall h, opR SR (fun s => sub_start_link d s h);
  so_end_link : opR SR (sub_end_link d);
  so_foot : forall x y, SR x y -> o_footnotes (sopts x) = o_footnotes (sopts y);
  so_em_s : opR SR (start_emphasis d);       so_em_e : opR SR (end_emphasis d);
  so_strong_s : opR SR (start_strong d);     so_strong_e : opR SR (end_strong d);
  so_strike_s : opR SR (start_strikeout d);  so_strike_e : opR SR (end_strikeout d);
  so_code_s : opR SR (start_code d);         so_code_e : opR SR (end_code d);
  so_sup_s : opR SR (start_superscript d);   so_sup_e : opR SR (end_superscript d);
  so_image : forall src t, opR SR (fun s => add_image d s src t);
  so_start_block : opR SR start_block;
  so_end_block : pureR SR end_block;
  so_new_line : opR SR new_line;
  so_new_line_hard : opR SR new_line_hard;
  so_frag : forall n, pureR SR (fun s => record_frag_start s n);
  so_wm : forall x y p mn, SR x y -> width_minus x p mn = width_minus y p mn;
  so_new_wm : forall x y p mn w, SR x y -> width_minus x p mn = Ok w ->
              SR (new_sub_renderer x w) (new_sub_renderer y w);
  so_append : forall x y u v f r, SR x y -> SR u v ->
              res_rel SR (append_subrender x u f r) (append_subrender y v f r);
  so_width : forall x y, SR x y -> swidth_ x = swidth_ y;
  so_raw : forall x y, SR x y -> o_raw (sopts x) = o_raw (sopts y);
  so_borders : forall x y, SR x y -> o_borders (sopts x) = o_borders (sopts y);
  so_hborder : forall w, opR SR (fun s => add_horizontal_border_width s w);
  so_new_cell : forall x y u v w, SR x y -> w <= swidth_ x -> SR u v ->
                SR (new_sub_renderer u w) (new_sub_renderer v w);
  so_vert : forall x y us vs, SR x y -> Forall2 SR us vs ->
            res_rel SR (append_vert_row x us) (append_vert_row y vs);
  so_cols : forall x y us vs, SR x y -> Forall2 SR us vs ->
            res_rel SR (append_columns_with_borders x us true)
                       (append_columns_with_borders y vs true);
  so_empty : forall u v, SR u v -> sub_empty u = sub_empty v
}.

(* children of a node, rendered in order *)
Definition rkids (d : deco) (mw : N) (cs : list rnode) (st : rstate) : res rstate :=
  fold_left (fun acc c => do s <- acc; render_node d mw c s) cs (Ok st).

Lemma In_sspan w l : In w l -> w + 1 <= sspan l.
Proof.
  induction l as [|x l IH]; intros H; [destruct H|]. rewrite sspan_cons.
  destruct H as [->|H]; [lia|specialize (IH H); lia].
Qed.

Section Sim.
  Variable d : deco.
  Variable mw : N.
  Variable SR : subr -> subr -> Prop.
  Hypothesis ops : SimOps d SR.

  (* two render states: the same links, related top sub-renderers, and any two tails *)
  Definition StR (r1 r2 : list subr) (a b : rstate) : Prop :=
    links a = links b /\ exists s1 s2, stack a = s1 :: r1 /\ stack b = s2 :: r2 /\ SR s1 s2.

  Lemma sim_with_top r1 r2 f g a b :
    (forall x y, SR x y -> res_rel SR (f x) (g y)) -> StR r1 r2 a b ->
    res_rel (StR r1 r2) (with_top a f) (with_top b g).
  Proof.
    intros Hf (Hl & s1 & s2 & E1 & E2 & Hs). unfold with_top. rewrite E1, E2.
    eapply res_rel_bind; [apply Hf, Hs|]. intros x y Hxy. cbn [res_rel].
    split; [exact Hl|]. exists x, y. auto.
  Qed.

  Lemma sim_with_top' r1 r2 g a b :
    pureR SR g -> StR r1 r2 a b -> res_rel (StR r1 r2) (with_top' a g) (with_top' b g).
  Proof. intros Hg. apply sim_with_top. intros x y Hxy. cbn [res_rel]. apply Hg, Hxy. Qed.

  Lemma sim_ok r1 r2 a b : StR r1 r2 a b -> res_rel (StR r1 r2) (Ok a) (Ok b).
  Proof. intros H. exact H. Qed.

  Lemma sim_apply_style r1 r2 cs a b :
    StR r1 r2 a b ->
    res_rel (fun x y => StR r1 r2 (fst x) (fst y) /\ snd x = snd y)
            (apply_style d a cs) (apply_style d b cs).
  Proof.
    intros H. unfold apply_style.
    eapply res_rel_bind with (P := StR r1 r2).
    { destruct (ws_val (c_colour (cs_core cs))) as [[[r g] bl]|];
        [apply sim_with_top'; [apply (so_push_colour _ _ ops)|exact H]|exact H]. }
    intros a1 b1 H1.
    eapply res_rel_bind with (P := StR r1 r2).
    { destruct (ws_val (c_bg (cs_core cs))) as [[[r g] bl]|];
        [apply sim_with_top'; [apply (so_push_bg _ _ ops)|exact H1]|exact H1]. }
    intros a2 b2 H2.
    eapply res_rel_bind with (P := StR r1 r2).
    { destruct (match ws_val (c_white_space (cs_core cs)) with
                | Some WsPre => Some WsPre
                | Some WsPreWrap => Some WsPreWrap
                | _ => None
                end) as [m|];
        [apply sim_with_top'; [apply (so_push_ws _ _ ops)|exact H2]|exact H2]. }
    intros a3 b3 H3.
    eapply res_rel_bind with (P := StR r1 r2).
    { destruct (cs_internal_pre cs);
        [apply sim_with_top'; [apply (so_push_pre _ _ ops)|exact H3]|exact H3]. }
    intros a4 b4 H4. cbn [res_rel fst snd]. auto.
  Qed.

  Lemma sim_unwind r1 r2 p a b :
    StR r1 r2 a b -> res_rel (StR r1 r2) (unwind d p a) (unwind d p b).
  Proof.
    intros H. unfold unwind.
    eapply res_rel_bind with (P := StR r1 r2).
    { destruct (p_bg p); [apply sim_with_top'; [apply (so_pop_colour _ _ ops)|exact H]|exact H]. }
    intros a1 b1 H1.
    eapply res_rel_bind with (P := StR r1 r2).
    { destruct (p_colour p); [apply sim_with_top'; [apply (so_pop_colour _ _ ops)|exact H1]|exact H1]. }
    intros a2 b2 H2.
    eapply res_rel_bind with (P := StR r1 r2).
    { destruct (p_ws p); [apply sim_with_top'; [apply (so_pop_ws _ _ ops)|exact H2]|exact H2]. }
    intros a3 b3 H3.
    destruct (p_pre p); [apply sim_with_top; [apply (so_pop_pre _ _ ops)|exact H3]|exact H3].
  Qed.

  Lemma sim_inline r1 r2 t a b :
    StR r1 r2 a b -> res_rel (StR r1 r2) (inline_text d a t) (inline_text d b t).
  Proof. unfold inline_text. apply sim_with_top. apply (so_inline _ _ ops). Qed.

  Lemma sim_top r1 r2 a b :
    StR r1 r2 a b ->
    res_rel (fun x y => SR x y /\ stack a = x :: r1 /\ stack b = y :: r2) (top a) (top b).
  Proof.
    intros (Hl & s1 & s2 & E1 & E2 & Hs). unfold top. rewrite E1, E2. cbn [res_rel]. auto.
  Qed.

  Lemma sim_push r1 r2 a b x y u v :
    links a = links b -> stack a = x :: r1 -> stack b = y :: r2 -> SR u v ->
    StR (x :: r1) (y :: r2) (push_sub a u) (push_sub b v).
  Proof.
    intros Hl E1 E2 Huv. split; [exact Hl|]. exists u, v. cbn [push_sub stack].
    rewrite E1, E2. auto.
  Qed.

  Lemma sim_pop r1 r2 x y a b :
    SR x y -> StR (x :: r1) (y :: r2) a b ->
    res_rel (fun p q => SR (fst p) (fst q) /\ StR r1 r2 (snd p) (snd q)) (pop_sub a) (pop_sub b).
  Proof.
    intros Hxy (Hl & s1 & s2 & E1 & E2 & Hs). unfold pop_sub. rewrite E1, E2.
    cbn [res_rel fst snd]. split; [exact Hs|]. split; [exact Hl|]. exists x, y. auto.
  Qed.

  (* the per-node statement *)
  Definition node_sim (n : rnode) : Prop :=
    forall r1 r2 a b, StR r1 r2 a b ->
      res_rel (StR r1 r2) (render_node d mw n a) (render_node d mw n b).

  Lemma sim_kids cs r1 r2 a b :
    Forall node_sim cs -> StR r1 r2 a b ->
    res_rel (StR r1 r2) (rkids d mw cs a) (rkids d mw cs b).
  Proof.
    intros HF H. unfold rkids. apply res_rel_fold; [|exact H].
    intros c Hc x y Hxy. rewrite Forall_forall in HF. apply (HF c Hc), Hxy.
  Qed.

  Lemma sim_wrap (f1 f2 : subr -> res subr) cs ps r1 r2 a b :
    opR SR f1 -> opR SR f2 -> Forall node_sim cs -> StR r1 r2 a b ->
    res_rel (StR r1 r2)
      (do x <- with_top a f1; do y <- rkids d mw cs x; do z <- with_top y f2; unwind d ps z)
      (do x <- with_top b f1; do y <- rkids d mw cs x; do z <- with_top y f2; unwind d ps z).
  Proof.
    intros K1 K2 HF H.
    eapply res_rel_bind; [apply sim_with_top; [apply K1|exact H]|]. intros x1 x2 Hx.
    eapply res_rel_bind; [apply sim_kids; [exact HF|exact Hx]|]. intros y1 y2 Hy.
    eapply res_rel_bind; [apply sim_with_top; [apply K2|exact Hy]|]. intros z1 z2 Hz.
    apply sim_unwind, Hz.
  Qed.

  (* a prefixed block: top, width_minus, push, body, pop *)
  Lemma sim_scope r1 r2 a b p mn (body : rstate -> res rstate) :
    StR r1 r2 a b ->
    (forall q1 q2 a' b', StR q1 q2 a' b' -> res_rel (StR q1 q2) (body a') (body b')) ->
    forall {C1 C2} (k1 : subr * rstate -> res C1) (k2 : subr * rstate -> res C2) (Q : C1 -> C2 -> Prop),
    (forall u v a' b', SR u v -> StR r1 r2 a' b' -> res_rel Q (k1 (u, a')) (k2 (v, b'))) ->
    res_rel Q
      (do tp <- top a; do w <- width_minus tp p mn;
       do st2 <- body (push_sub a (new_sub_renderer tp w)); do pp <- pop_sub st2; k1 pp)
      (do tp <- top b; do w <- width_minus tp p mn;
       do st2 <- body (push_sub b (new_sub_renderer tp w)); do pp <- pop_sub st2; k2 pp).
  Proof.
    intros H Hbody C1 C2 k1 k2 Q Hk.
    eapply res_rel_bind; [apply sim_top, H|]. intros x y (Hxy & E1 & E2).
    rewrite <- (so_wm _ _ ops x y p mn Hxy).
    destruct (width_minus x p mn) as [w| | |] eqn:Ew; cbn [bind res_rel]; auto.
    eapply res_rel_bind.
    { apply Hbody. apply sim_push; [exact (proj1 H)|exact E1|exact E2|].
      eapply (so_new_wm _ _ ops); eassumption. }
    intros a2 b2 H2.
    eapply res_rel_bind; [apply (sim_pop r1 r2 x y); assumption|].
    intros [u a3] [v b3] [Huv H3]. cbn [fst snd] in *. apply Hk; assumption.
  Qed.

  (* ---- table rows ---- *)
  Lemma sim_cells tpx tpy (Htp : SR tpx tpy) : forall cells wsl r1 r2 a b us vs,
    Forall (fun c => Forall node_sim (cell_content c)) cells ->
    Forall (fun w => w <= swidth_ tpx) (somes wsl) ->
    StR r1 r2 a b -> Forall2 SR us vs ->
    res_rel (fun p q => StR r1 r2 (fst p) (fst q) /\ Forall2 SR (snd p) (snd q))
            (cells_loop d mw cells wsl a us) (cells_loop d mw cells wsl b vs).
  Proof.
    induction cells as [|[n content csty] cells IH]; intros wsl r1 r2 a b us vs HF Hw H Huv;
      cbn [cells_loop].
    - cbn [res_rel fst snd]. auto.
    - inversion HF as [|? ? HF1 HF2]; subst. cbn [cell_content] in HF1.
      destruct wsl as [|[w|] wsl]; [cbn [res_rel fst snd]; auto| |].
      + cbn [somes] in Hw. inversion Hw as [|? ? Hw1 Hw2]; subst.
        eapply res_rel_bind; [apply sim_top, H|]. intros x y (Hxy & E1 & E2).
        assert (Hp : StR (x :: r1) (y :: r2) (push_sub a (new_sub_renderer x w))
                         (push_sub b (new_sub_renderer y w))).
        { apply sim_push; [exact (proj1 H)|exact E1|exact E2|].
          exact (so_new_cell _ _ ops tpx tpy x y w Htp Hw1 Hxy). }
        eapply res_rel_bind; [apply sim_apply_style, Hp|].
        intros [a4 p4] [b4 q4] [H4 Epq]. cbn [fst snd] in H4, Epq. subst q4.
        eapply res_rel_bind; [apply (sim_kids content); [exact HF1|exact H4]|]. intros a5 b5 H5.
        eapply res_rel_bind; [apply sim_unwind, H5|]. intros a6 b6 H6.
        eapply res_rel_bind; [apply (sim_pop r1 r2 x y); assumption|].
        intros [u a7] [v b7] [Huv' H7]. cbn [fst snd] in *.
        apply IH; auto. apply Forall2_app; auto.
      + cbn [somes] in Hw. apply IH; auto.
  Qed.

  Lemma sim_row vr col_widths tpx tpy r r1 r2 a b :
    SR tpx tpy ->
    (vr = true -> forall w, In w col_widths -> w = swidth_ tpx) ->
    (vr = false -> sspan col_widths <= swidth_ tpx + 1) ->
    Forall (fun c => Forall node_sim (cell_content c)) (row_cells r) ->
    StR r1 r2 a b ->
    res_rel (StR r1 r2) (row_body d mw vr col_widths r a) (row_body d mw vr col_widths r b).
  Proof.
    intros Htp Hv Hh HF H. destruct r as [rcells rstyle]. cbn [row_cells] in HF. unfold row_body.
    eapply res_rel_bind; [apply sim_apply_style, H|].
    intros [a1 p1] [b1 q1] [H1 Epq]. cbn [fst snd] in H1, Epq. subst q1.
    destruct (cell_widths vr col_widths rcells 0) as [cws| | |] eqn:Ecws; cbn [bind res_rel]; auto.
    assert (Hw : Forall (fun w => w <= swidth_ tpx) (somes cws)).
    { destruct vr.
      - pose proof (cell_widths_v _ _ _ _ Ecws) as Hcv. eapply Forall_impl; [|exact Hcv].
        intros w [_ Hin]. rewrite (Hv eq_refl w Hin). lia.
      - destruct (cell_widths_h _ _ _ _ Ecws) as [_ Hsp].
        change (N.to_nat 0) with 0%nat in Hsp. cbn [skipn] in Hsp.
        specialize (Hh eq_refl). rewrite sspan_eq in Hh.
        apply Forall_forall. intros w Hin. pose proof (In_sspan _ _ Hin). lia. }
    eapply res_rel_bind; [apply (sim_cells tpx tpy Htp rcells cws r1 r2 a1 b1 [] []); auto|].
    intros [a8 us] [b8 vs] [H8 Huv]. cbn [fst snd] in H8, Huv.
    eapply res_rel_bind with (P := StR r1 r2).
    { destruct vr.
      - apply sim_with_top; [|exact H8]. intros x y Hxy. apply (so_vert _ _ ops); assumption.
      - assert (Ee : existsb (fun c => negb (sub_empty c)) us = existsb (fun c => negb (sub_empty c)) vs).
        { clear -Huv ops. induction Huv as [|u v us vs Huv1 _ IH]; [reflexivity|].
          cbn [existsb]. rewrite IH, (so_empty _ _ ops u v Huv1). reflexivity. }
        rewrite <- Ee. destruct (existsb (fun c => negb (sub_empty c)) us); [|exact H8].
        apply sim_with_top; [|exact H8]. intros x y Hxy. apply (so_cols _ _ ops); assumption. }
    intros a9 b9 H9. apply sim_unwind, H9.
  Qed.

  Lemma node_sim_all : forall n, node_sim n.
  Proof.
    apply rnode_ind'. intros i sty IH r1 r2 a b Hab.
    destruct i; cbn [direct_kids] in IH; cbn [render_node rn_info rn_style];
      (match goal with
       | |- res_rel _ (bind ?e _) (bind ?e _) => destruct e as [sz| | |]; cbn [bind res_rel]; auto
       end);
      (eapply res_rel_bind; [apply sim_apply_style, Hab|]);
      intros [a1 p1] [b1 q1] [H1 Epq]; cbn [fst snd] in H1, Epq; subst q1.
    - (* IText *)
      eapply res_rel_bind; [apply sim_inline, H1|]. intros; apply sim_unwind; assumption.
    - (* IContainer *)
      eapply res_rel_bind; [apply (sim_kids cs); [exact IH|exact H1]|].
      intros; apply sim_unwind; assumption.
    - (* ILink *)
      assert (H1' : StR r1 r2 (mkrst (stack a1) (links a1 ++ [href]))
                               (mkrst (stack b1) (links b1 ++ [href]))).
      { destruct H1 as (Hl & s1 & s2 & E1 & E2 & Hs). split; [cbn [links]; congruence|].
        exists s1, s2. cbn [stack]. auto. }
      eapply res_rel_bind; [apply sim_with_top; [apply (so_start_link _ _ ops)|exact H1']|].
      intros a2 b2 H2.
      eapply res_rel_bind; [apply (sim_kids cs); [exact IH|exact H2]|]. intros a3 b3 H3.
      eapply res_rel_bind; [apply sim_with_top; [apply (so_end_link _ _ ops)|exact H3]|].
      intros a4 b4 H4.
      eapply res_rel_bind; [apply sim_top, H4|]. intros x y (Hxy & E1 & E2).
      rewrite <- (so_foot _ _ ops x y Hxy), <- (proj1 H4).
      eapply res_rel_bind with (P := StR r1 r2).
      { destruct (o_footnotes (sopts x)); [apply sim_inline, H4|exact H4]. }
      intros; apply sim_unwind; assumption.
    - (* IEm *) apply sim_wrap; auto; [apply (so_em_s _ _ ops)|apply (so_em_e _ _ ops)].
    - (* IStrong *) apply sim_wrap; auto; [apply (so_strong_s _ _ ops)|apply (so_strong_e _ _ ops)].
    - (* IStrikeout *) apply sim_wrap; auto; [apply (so_strike_s _ _ ops)|apply (so_strike_e _ _ ops)].
    - (* ICode *) apply sim_wrap; auto; [apply (so_code_s _ _ ops)|apply (so_code_e _ _ ops)].
    - (* IImg *)
      eapply res_rel_bind; [apply sim_with_top; [apply (so_image _ _ ops)|exact H1]|].
      intros; apply sim_unwind; assumption.
    - (* IBlock *)
      apply (sim_wrap start_block (fun s => Ok (end_block s))); auto;
        [apply (so_start_block _ _ ops)|].
      intros x y Hxy. cbn [res_rel]. apply (so_end_block _ _ ops), Hxy.
    - (* IHeader *)
      destruct (negb (swidth (d_header_prefix d level) =? e_prefix sz)); [reflexivity|].
      apply (sim_scope r1 r2 a1 b1 _ _ (rkids d mw cs)); [exact H1| |].
      { intros; apply sim_kids; assumption. }
      intros u v a3 b3 Huv H3.
      eapply res_rel_bind; [apply sim_with_top; [apply (so_start_block _ _ ops)|exact H3]|].
      intros a4 b4 H4.
      eapply res_rel_bind; [apply sim_with_top; [|exact H4]|].
      { intros x y Hxy. apply (so_append _ _ ops); assumption. }
      intros a5 b5 H5.
      eapply res_rel_bind; [apply sim_with_top'; [apply (so_end_block _ _ ops)|exact H5]|].
      intros; apply sim_unwind; assumption.
    - (* IDiv *)
      apply sim_wrap; auto; apply (so_new_line _ _ ops).
    - (* IBlockQuote *)
      destruct (negb (e_prefix sz =? swidth (d_quote_prefix d))); [reflexivity|].
      destruct (usub 21 (e_min sz) (swidth (d_quote_prefix d))) as [iw| | |]; cbn [bind res_rel]; auto.
      apply (sim_scope r1 r2 a1 b1 _ _ (rkids d mw cs)); [exact H1| |].
      { intros; apply sim_kids; assumption. }
      intros u v a3 b3 Huv H3.
      eapply res_rel_bind; [apply sim_with_top; [apply (so_start_block _ _ ops)|exact H3]|].
      intros a4 b4 H4.
      eapply res_rel_bind; [apply sim_with_top; [|exact H4]|].
      { intros x y Hxy. apply (so_append _ _ ops); assumption. }
      intros a5 b5 H5.
      eapply res_rel_bind; [apply sim_with_top'; [apply (so_end_block _ _ ops)|exact H5]|].
      intros; apply sim_unwind; assumption.
    - (* IUl *)
      eapply res_rel_bind with (P := StR r1 r2); [|intros; apply sim_unwind; assumption].
      apply (res_rel_fold (StR r1 r2)
               (fun item s =>
                  do inner_width <- usub 22 (e_min sz) (swidth (d_ul_prefix d));
                  do tp <- top s;
                  do w <- width_minus tp (swidth (d_ul_prefix d)) inner_width;
                  do s2 <- render_node d mw item (push_sub s (new_sub_renderer tp w));
                  do pp <- pop_sub s2;
                  let '(sub, s3) := pp in
                  with_top s3 (fun t => append_subrender t sub (d_ul_prefix d)
                     (repeat_chr (spacel L_prefix) (N.to_nat (swidth (d_ul_prefix d))))))
               _ cs); [|exact H1].
      intros item Hitem x y Hxy.
      destruct (usub 22 (e_min sz) (swidth (d_ul_prefix d))) as [iw| | |]; cbn [bind res_rel]; auto.
      apply (sim_scope r1 r2 x y _ _ (render_node d mw item)); [exact Hxy| |].
      { rewrite Forall_forall in IH. exact (IH item Hitem). }
      intros u v a3 b3 Huv H3. apply sim_with_top; [|exact H3].
      intros x' y' Hxy'. apply (so_append _ _ ops); assumption.
    - (* IOl *)
      eapply res_rel_bind with (P := fun p q => StR r1 r2 (fst p) (fst q) /\ snd p = snd q);
        [|intros p q [Hpq _]; apply sim_unwind; exact Hpq].
      set (pw := N.max (swidth (d_ol_prefix d start))
                       (swidth (d_ol_prefix d (isat64 (isat64 (start + Z.of_nat (length cs)) - 1))))).
      apply (res_rel_fold (fun p q => StR r1 r2 (fst p) (fst q) /\ snd p = snd q)
               (ol_step d mw sz pw) (ol_step d mw sz pw) cs); [|cbn [res_rel fst snd]; auto].
      intros item Hitem [x ix] [y iy] [Hxy Ei]. cbn [fst snd] in Hxy, Ei. subst iy.
      unfold ol_step.
      destruct (usub 23 (e_min sz) (e_prefix sz)) as [iw| | |]; cbn [bind res_rel]; auto.
      apply (sim_scope r1 r2 x y _ _ (render_node d mw item)); [exact Hxy| |].
      { rewrite Forall_forall in IH. exact (IH item Hitem). }
      intros u v a3 b3 Huv H3.
      eapply res_rel_bind; [apply sim_with_top; [|exact H3]|].
      { intros x' y' Hxy'. apply (so_append _ _ ops); assumption. }
      intros a4 b4 H4. cbn [res_rel fst snd]. auto.
    - (* IDl *)
      eapply res_rel_bind; [apply sim_with_top; [apply (so_start_block _ _ ops)|exact H1]|].
      intros a2 b2 H2.
      eapply res_rel_bind; [apply (sim_kids cs); [exact IH|exact H2]|].
      intros; apply sim_unwind; assumption.
    - (* IDt *)
      eapply res_rel_bind; [apply sim_with_top; [apply (so_new_line _ _ ops)|exact H1]|].
      intros a2 b2 H2.
      apply sim_wrap; auto; [apply (so_em_s _ _ ops)|apply (so_em_e _ _ ops)].
    - (* IDd *)
      destruct (usub 24 (e_min sz) 2) as [iw| | |]; cbn [bind res_rel]; auto.
      apply (sim_scope r1 r2 a1 b1 _ _ (rkids d mw cs)); [exact H1| |].
      { intros; apply sim_kids; assumption. }
      intros u v a3 b3 Huv H3.
      eapply res_rel_bind; [apply sim_with_top; [|exact H3]|].
      { intros x y Hxy. apply (so_append _ _ ops); assumption. }
      intros; apply sim_unwind; assumption.
    - (* IBreak *)
      eapply res_rel_bind; [apply sim_with_top; [apply (so_new_line_hard _ _ ops)|exact H1]|].
      intros; apply sim_unwind; assumption.
    - (* ITable *)
      match goal with
      | |- res_rel _ (bind ?e _) (bind ?e _) =>
        destruct e as [col_sizes| | |]; cbn [bind res_rel]; auto
      end.
      eapply res_rel_bind; [apply sim_top, H1|]. intros x y (Hxy & E1 & E2).
      rewrite <- (so_width _ _ ops x y Hxy), <- (so_raw _ _ ops x y Hxy),
        <- (so_borders _ _ ops x y Hxy).
      set (vr := o_raw (sopts x)
                 || ((swidth_ x <? sumN (map e_min col_sizes) + (N.of_nat (length col_sizes) - 1))
                     || (swidth_ x =? 0))).
      match goal with
      | |- res_rel _ (bind ?e _) (bind ?e _) =>
        destruct e as [col_widths| | |] eqn:Hcw; cbn [bind res_rel]; auto
      end.
      assert (Hv : vr = true -> forall w, In w col_widths -> w = swidth_ x).
      { intros E w Hw. rewrite E in Hcw. cbn [negb] in Hcw. ok_inv Hcw.
        apply in_map_iff in Hw. destruct Hw as (? & <- & _). reflexivity. }
      assert (Hh : vr = false -> sspan col_widths <= swidth_ x + 1).
      { intros E. rewrite E in Hcw. cbn [negb] in Hcw.
        destruct (map (col_width_of (swidth_ x) (sumN (map e_size col_sizes))) col_sizes) as [|x0 l].
        - ok_inv Hcw. rewrite sspan_nil. lia.
        - apply shrink_loop_ok in Hcw. rewrite sspan_eq. lia. }
      eapply res_rel_bind; [apply sim_with_top; [apply (so_start_block _ _ ops)|exact H1]|].
      intros a2 b2 H2.
      eapply res_rel_bind with (P := StR r1 r2).
      { match goal with |- res_rel _ (if ?c then _ else _) _ => destruct c end; [|exact H2].
        apply sim_with_top; [apply (so_hborder _ _ ops)|exact H2]. }
      intros a3 b3 H3.
      eapply res_rel_bind with (P := StR r1 r2); [|intros; apply sim_unwind; assumption].
      apply (res_rel_fold (StR r1 r2) (row_body d mw vr col_widths) (row_body d mw vr col_widths) rows);
        [|exact H3].
      intros r Hr a' b' H'.
      apply Forall_flat_map in IH. rewrite Forall_forall in IH. specialize (IH r Hr).
      unfold row_kids in IH. apply Forall_flat_map in IH.
      apply (sim_row vr col_widths x y r r1 r2 a' b' Hxy Hv Hh IH H').
    - (* ITableBody *) reflexivity.
    - (* ITableRow *) reflexivity.
    - (* ITableCell *) reflexivity.
    - (* IFragStart *)
      eapply res_rel_bind; [apply sim_with_top'; [apply (so_frag _ _ ops)|exact H1]|].
      intros; apply sim_unwind; assumption.
    - (* IListItem *)
      apply (sim_wrap start_block (fun s => Ok (end_block s))); auto;
        [apply (so_start_block _ _ ops)|].
      intros x y Hxy. cbn [res_rel]. apply (so_end_block _ _ ops), Hxy.
    - (* ISup *)
      destruct (sup_digits cs) as [digitstr|].
      + eapply res_rel_bind; [apply sim_inline, H1|]. intros; apply sim_unwind; assumption.
      + apply sim_wrap; auto; [apply (so_sup_s _ _ ops)|apply (so_sup_e _ _ ops)].
  Qed.
End Sim.
