(* Proofs/Compose.v -- two whole-renderer properties of the model (Render.v), for all inputs.
   No axioms (every main theorem is followed by Print Assumptions).

   METHOD.  One lock-step simulation of two runs of render_node (section 1, `node_sim_all`):
   if the sub-renderer operations respect a relation SR between sub-renderers (record `SimOps`),
   then two runs from states with the same links and SR-related TOP sub-renderers (the tails of
   the two stacks are arbitrary and unrelated) have the same outcome kind and end in states
   related in the same way, with the tails untouched.  Three instances:
     SR = eq            -> the FRAME property (section 2): render_node only touches the top
                           sub-renderer and does not depend on the rest of the stack;
     SR = R2            -> C15 (section 5): run 2 has the options of run 1 + a maximum wrap width;
     SR = CL (diagonal) -> the invariant `clean_top` (section 6).

   PART A -- C07 (sections 3, 4, 6, 7).  For each prefixing node kind of the model there is a
   theorem  render_node d mw (RN (I<kind> ..) sty) st0 = Ok st' -> exists ..., <equation>:

     c07_blockquote, c07_header, c07_dd, c07_ul, c07_ol      (and c07_quote_in_quote)

   Common shape.  After apply_style d st0 sty = Ok (st, ps) the stack is tp :: rest (tp the top
   sub-renderer, width W = swidth_ tp).  The children are rendered BY THE SAME FUNCTION from the
   state  mkrst [new_sub_renderer tp w] (links st)  -- one fresh sub-renderer, alone on the
   stack, with tp's options, annotation stack, strikeout-filter depth, preformatted depth and
   white-space mode stack (no lines, no pending text), and the links collected so far -- where
   width_minus tp p mn = Ok w, p = the display width of the prefix (`nested`; by
   `width_minus_spec`, w = max (W - p) mn, and w = W - p <= W when overflow is not allowed).
   That run ends in  mkrst [sub] lk'  with sub_into_lines sub = Ok ols.  Then
     - block quote (p = swidth "> "), heading (p = swidth "## "):  start_block tp = Ok s4
       (tp's pending wrapped text flushed and, iff some line of tp has content, ONE empty line
       added: `start_block_spec`), then s5 = s4 + the lines of sub each with the prefix in front:
         out_lines (end_block s5) = Ok (strs (slines s4) ++ map (app prefix) (strs ols))
       end_block only sets the at_block_end flag (so that the next inline text starts a block);
       the final state is  unwind d ps (mkrst (end_block s5 :: rest) lk').
       The blank line before the block comes from start_block and is outside the equation.
     - dd (p = 2): no start_block / end_block:
         out_lines s5 = do l <- out_lines tp; Ok (l ++ map (app "  ") (strs ols))
       (out_lines tp = tp's lines with its pending wrapped text flushed).
     - ul: every item in its own fresh sub-renderer made from tp (`items_rendered`, links threaded
       from item to item), Ls = the lines of the items:
         out_lines s' = do l <- out_lines tp; Ok (l ++ flat_map (fun ols => prefixed bullet indent (strs ols)) Ls)
       prefixed first rest [l1; l2; ...] = [first ++ l1; rest ++ l2; ...], indent = swidth bullet
       spaces.  No blank line is added around the list or between items by the list itself.
     - ol: the same with p = pw, ol_prefix_size d start (length items) = Ok pw, item k (0-based)
       has first prefix ol_marker pw (ol_num start k) = pad_width (d_ol_prefix d (ol_num start k)) pw
       and rest = pw spaces; ol_num start k = start + k as long as that is an i64
       (`ol_num_consecutive`), and every marker has display width exactly pw
       (`ol_marker_width`, for decorators satisfying RenderWidth.ol_prefix_monotone/_sat, e.g.
       the three built-in ones, and start >= i64_min, which Dom.parse_i64 guarantees).
   Side condition of the LINE equations: `clean_top st0` (there is a top sub-renderer and its
   pending fragment markers carry no text).  It holds in the initial state and in every fresh
   sub-renderer and is preserved by render_node (`clean_top_preserved`, section 6), so it
   holds at every call of render_node made during render_tree.  For quote / heading / dd the
   structural part (what is rendered where) needs no hypothesis; the two list theorems assume
   clean_top st0 throughout.
   Stacking: the `nested` run is again a run of render_node/rkids from a clean state, so the
   equations compose; `c07_quote_in_quote` works this out (every line gets q ++ q ++ line).

   PART B -- C15, first clause (section 5).
     c15_maxwrap_noop_render :
       wrap_width o1 = None -> wrap_width o2 = Some m -> same_but_wrap o1 o2 ->
       o_allow_overflow o1 = false -> width <= m ->
       res_rel (fun s1 s2 => s2 = reopt s1 o2 /\ sub_into_lines s2 = sub_into_lines s1)
               (render_tree d mw o1 width tree) (render_tree d mw o2 width tree)
     (res_rel: the same outcome kind, the same Panic site; when both Ok the resulting
     sub-renderers are equal except for the stored options, and have the same lines), and through
     Api.v:  c15_lines_from_read, c15_string_from_read (plain equalities of the results).
     Invariant carried: every sub-renderer on the stack has the options o1 / o2 and width <= m.
     HYPOTHESIS o_allow_overflow o1 = false is NEEDED: with overflow allowed width_minus makes a
     nested block max (W - p) (estimated minimum) wide, which can exceed the outer width, and the
     maximum wrap width then bites inside it although m >= width
     (`cexb_overflow_maxwrap_bites`, a FINDING against the first clause of C15).

   Examples (non-vacuity): section 5 end (exb_applies) and section 8. *)
From H2T Require Import Base Tagged Wrap Sub Css Dom Render Api.
From H2T Require Import Proofs.WrapInv Proofs.Small Proofs.RenderWidth.
From Coq Require Import Lia ZifyN ZifyBool ZifyNat.

Local Arguments N.add : simpl never.
Local Arguments N.sub : simpl never.
Local Arguments N.mul : simpl never.
Local Arguments N.div : simpl never.
Local Arguments N.modulo : simpl never.
Local Arguments N.leb : simpl never.
Local Arguments N.ltb : simpl never.
Local Arguments N.eqb : simpl never.
Local Arguments N.min : simpl never.
Local Arguments N.max : simpl never.
Local Arguments N.to_nat : simpl never.
Local Arguments N.of_nat : simpl never.
Local Open Scope N_scope.

(* ================================================================== *)
(* 1. Outcome relation and lock-step simulation of two runs             *)
(* ================================================================== *)

(* same outcome kind (the same Panic site), related values when Ok *)
Definition res_rel {A B} (P : A -> B -> Prop) (x : res A) (y : res B) : Prop :=
  match x, y with
  | Ok a, Ok b => P a b
  | TooNarrow, TooNarrow => True
  | Panic i, Panic j => i = j
  | OutOfFuel, OutOfFuel => True
  | _, _ => False
  end.

Lemma res_rel_bind {A B A' B'} (P : A -> B -> Prop) (Q : A' -> B' -> Prop) x y k1 k2 :
  res_rel P x y -> (forall a b, P a b -> res_rel Q (k1 a) (k2 b)) ->
  res_rel Q (bind x k1) (bind y k2).
Proof. destruct x, y; cbn [res_rel bind]; intros H K; try contradiction; auto. Qed.

Lemma res_rel_refl {A} (x : res A) : res_rel eq x x.
Proof. destruct x; cbn; auto. Qed.

Lemma res_rel_eq {A} (x y : res A) : res_rel eq x y -> x = y.
Proof. destruct x, y; cbn; intros H; try contradiction; congruence. Qed.

Lemma res_rel_impl {A B} (P Q : A -> B -> Prop) x y :
  (forall a b, P a b -> Q a b) -> res_rel P x y -> res_rel Q x y.
Proof. destruct x, y; cbn; auto. Qed.

Lemma res_rel_ok_l {A B} (P : A -> B -> Prop) x y a :
  res_rel P x y -> x = Ok a -> exists b, y = Ok b /\ P a b.
Proof. intros H ->. destruct y; cbn in H; try contradiction. eauto. Qed.

Lemma res_rel_fold {A B C} (P : A -> B -> Prop) (f : C -> A -> res A) (g : C -> B -> res B) :
  forall (l : list C) x y,
  (forall c, In c l -> forall a b, P a b -> res_rel P (f c a) (g c b)) ->
  res_rel P x y ->
  res_rel P (fold_left (fun acc c => do s <- acc; f c s) l x)
            (fold_left (fun acc c => do s <- acc; g c s) l y).
Proof.
  induction l as [|c l IH]; intros x y Hstep Hxy; cbn [fold_left]; [exact Hxy|].
  apply IH; [intros c' Hc'; apply Hstep; right; exact Hc'|].
  eapply res_rel_bind; [exact Hxy|]. apply Hstep. left. reflexivity.
Qed.

(* the operations of the sub-renderer used by render_node respect a relation SR between
   two sub-renderers *)
Definition pureR (SR : subr -> subr -> Prop) (g : subr -> subr) : Prop :=
  forall x y, SR x y -> SR (g x) (g y).
Definition opR (SR : subr -> subr -> Prop) (f : subr -> res subr) : Prop :=
  forall x y, SR x y -> res_rel SR (f x) (f y).

Record SimOps (d : deco) (SR : subr -> subr -> Prop) : Prop := mkSimOps {
  so_push_colour : forall r g b, pureR SR (fun s => push_colour d s r g b);
  so_push_bg : forall r g b, pureR SR (fun s => push_bgcolour d s r g b);
  so_push_ws : forall m, pureR SR (fun s => push_ws_mode s m);
  so_push_pre : pureR SR push_preformat;
  so_pop_colour : pureR SR (pop_colour d);
  so_pop_ws : pureR SR pop_ws_mode;
  so_pop_pre : opR SR pop_preformat;
  so_inline : forall t, opR SR (fun s => add_inline_text d s t);
  so_start_link : forall h, opR SR (fun s => sub_start_link d s h);
  so_end_link : opR SR (sub_end_link d);
  so_foot : forall x y, SR x y -> o_footnotes (sopts x) = o_footnotes (sopts y);
  so_em_s : opR SR (start_emphasis d);       so_em_e : opR SR (end_emphasis d);
  so_strong_s : opR SR (start_strong d);     so_strong_e : opR SR (end_strong d);
  so_strike_s : opR SR (start_strikeout d);  so_strike_e : opR SR (end_strikeout d);
  so_code_s : opR SR (start_code d);         so_code_e : opR SR (end_code d);
  so_sup_s : opR SR (start_superscript d);   so_sup_e : opR SR (end_superscript d);
  so_image : forall src t, opR SR (fun s => add_image d s src t);
  so_start_block : opR SR start_block;
  so_end_block : pureR SR end_block;
  so_new_line : opR SR new_line;
  so_new_line_hard : opR SR new_line_hard;
  so_frag : forall n, pureR SR (fun s => record_frag_start s n);
  so_wm : forall x y p mn, SR x y -> width_minus x p mn = width_minus y p mn;
  so_new_wm : forall x y p mn w, SR x y -> width_minus x p mn = Ok w ->
              SR (new_sub_renderer x w) (new_sub_renderer y w);
  so_append : forall x y u v f r, SR x y -> SR u v ->
              res_rel SR (append_subrender x u f r) (append_subrender y v f r);
  so_width : forall x y, SR x y -> swidth_ x = swidth_ y;
  so_raw : forall x y, SR x y -> o_raw (sopts x) = o_raw (sopts y);
  so_borders : forall x y, SR x y -> o_borders (sopts x) = o_borders (sopts y);
  so_hborder : forall w, opR SR (fun s => add_horizontal_border_width s w);
  so_new_cell : forall x y u v w, SR x y -> w <= swidth_ x -> SR u v ->
                SR (new_sub_renderer u w) (new_sub_renderer v w);
  so_vert : forall x y us vs, SR x y -> Forall2 SR us vs ->
            res_rel SR (append_vert_row x us) (append_vert_row y vs);
  so_cols : forall x y us vs, SR x y -> Forall2 SR us vs ->
            res_rel SR (append_columns_with_borders x us true)
                       (append_columns_with_borders y vs true);
  so_empty : forall u v, SR u v -> sub_empty u = sub_empty v
}.

(* children of a node, rendered in order *)
Definition rkids (d : deco) (mw : N) (cs : list rnode) (st : rstate) : res rstate :=
  fold_left (fun acc c => do s <- acc; render_node d mw c s) cs (Ok st).

Lemma In_sspan w l : In w l -> w + 1 <= sspan l.
Proof.
  induction l as [|x l IH]; intros H; [destruct H|]. rewrite sspan_cons.
  destruct H as [->|H]; [lia|specialize (IH H); lia].
Qed.

Section Sim.
  Variable d : deco.
  Variable mw : N.
  Variable SR : subr -> subr -> Prop.
  Hypothesis ops : SimOps d SR.

  (* two render states: the same links, related top sub-renderers, and any two tails *)
  Definition StR (r1 r2 : list subr) (a b : rstate) : Prop :=
    links a = links b /\ exists s1 s2, stack a = s1 :: r1 /\ stack b = s2 :: r2 /\ SR s1 s2.

  Lemma sim_with_top r1 r2 f g a b :
    (forall x y, SR x y -> res_rel SR (f x) (g y)) -> StR r1 r2 a b ->
    res_rel (StR r1 r2) (with_top a f) (with_top b g).
  Proof.
    intros Hf (Hl & s1 & s2 & E1 & E2 & Hs). unfold with_top. rewrite E1, E2.
    eapply res_rel_bind; [apply Hf, Hs|]. intros x y Hxy. cbn [res_rel].
    split; [exact Hl|]. exists x, y. auto.
  Qed.

  Lemma sim_with_top' r1 r2 g a b :
    pureR SR g -> StR r1 r2 a b -> res_rel (StR r1 r2) (with_top' a g) (with_top' b g).
  Proof. intros Hg. apply sim_with_top. intros x y Hxy. cbn [res_rel]. apply Hg, Hxy. Qed.

  Lemma sim_ok r1 r2 a b : StR r1 r2 a b -> res_rel (StR r1 r2) (Ok a) (Ok b).
  Proof. intros H. exact H. Qed.

  Lemma sim_apply_style r1 r2 cs a b :
    StR r1 r2 a b ->
    res_rel (fun x y => StR r1 r2 (fst x) (fst y) /\ snd x = snd y)
            (apply_style d a cs) (apply_style d b cs).
  Proof.
    intros H. unfold apply_style.
    eapply res_rel_bind with (P := StR r1 r2).
    { destruct (ws_val (c_colour (cs_core cs))) as [[[r g] bl]|];
        [apply sim_with_top'; [apply (so_push_colour _ _ ops)|exact H]|exact H]. }
    intros a1 b1 H1.
    eapply res_rel_bind with (P := StR r1 r2).
    { destruct (ws_val (c_bg (cs_core cs))) as [[[r g] bl]|];
        [apply sim_with_top'; [apply (so_push_bg _ _ ops)|exact H1]|exact H1]. }
    intros a2 b2 H2.
    eapply res_rel_bind with (P := StR r1 r2).
    { destruct (match ws_val (c_white_space (cs_core cs)) with
                | Some WsPre => Some WsPre
                | Some WsPreWrap => Some WsPreWrap
                | _ => None
                end) as [m|];
        [apply sim_with_top'; [apply (so_push_ws _ _ ops)|exact H2]|exact H2]. }
    intros a3 b3 H3.
    eapply res_rel_bind with (P := StR r1 r2).
    { destruct (cs_internal_pre cs);
        [apply sim_with_top'; [apply (so_push_pre _ _ ops)|exact H3]|exact H3]. }
    intros a4 b4 H4. cbn [res_rel fst snd]. auto.
  Qed.

  Lemma sim_unwind r1 r2 p a b :
    StR r1 r2 a b -> res_rel (StR r1 r2) (unwind d p a) (unwind d p b).
  Proof.
    intros H. unfold unwind.
    eapply res_rel_bind with (P := StR r1 r2).
    { destruct (p_bg p); [apply sim_with_top'; [apply (so_pop_colour _ _ ops)|exact H]|exact H]. }
    intros a1 b1 H1.
    eapply res_rel_bind with (P := StR r1 r2).
    { destruct (p_colour p); [apply sim_with_top'; [apply (so_pop_colour _ _ ops)|exact H1]|exact H1]. }
    intros a2 b2 H2.
    eapply res_rel_bind with (P := StR r1 r2).
    { destruct (p_ws p); [apply sim_with_top'; [apply (so_pop_ws _ _ ops)|exact H2]|exact H2]. }
    intros a3 b3 H3.
    destruct (p_pre p); [apply sim_with_top; [apply (so_pop_pre _ _ ops)|exact H3]|exact H3].
  Qed.

  Lemma sim_inline r1 r2 t a b :
    StR r1 r2 a b -> res_rel (StR r1 r2) (inline_text d a t) (inline_text d b t).
  Proof. unfold inline_text. apply sim_with_top. apply (so_inline _ _ ops). Qed.

  Lemma sim_top r1 r2 a b :
    StR r1 r2 a b ->
    res_rel (fun x y => SR x y /\ stack a = x :: r1 /\ stack b = y :: r2) (top a) (top b).
  Proof.
    intros (Hl & s1 & s2 & E1 & E2 & Hs). unfold top. rewrite E1, E2. cbn [res_rel]. auto.
  Qed.

  Lemma sim_push r1 r2 a b x y u v :
    links a = links b -> stack a = x :: r1 -> stack b = y :: r2 -> SR u v ->
    StR (x :: r1) (y :: r2) (push_sub a u) (push_sub b v).
  Proof.
    intros Hl E1 E2 Huv. split; [exact Hl|]. exists u, v. cbn [push_sub stack].
    rewrite E1, E2. auto.
  Qed.

  Lemma sim_pop r1 r2 x y a b :
    SR x y -> StR (x :: r1) (y :: r2) a b ->
    res_rel (fun p q => SR (fst p) (fst q) /\ StR r1 r2 (snd p) (snd q)) (pop_sub a) (pop_sub b).
  Proof.
    intros Hxy (Hl & s1 & s2 & E1 & E2 & Hs). unfold pop_sub. rewrite E1, E2.
    cbn [res_rel fst snd]. split; [exact Hs|]. split; [exact Hl|]. exists x, y. auto.
  Qed.

  (* the per-node statement *)
  Definition node_sim (n : rnode) : Prop :=
    forall r1 r2 a b, StR r1 r2 a b ->
      res_rel (StR r1 r2) (render_node d mw n a) (render_node d mw n b).

  Lemma sim_kids cs r1 r2 a b :
    Forall node_sim cs -> StR r1 r2 a b ->
    res_rel (StR r1 r2) (rkids d mw cs a) (rkids d mw cs b).
  Proof.
    intros HF H. unfold rkids. apply res_rel_fold; [|exact H].
    intros c Hc x y Hxy. rewrite Forall_forall in HF. apply (HF c Hc), Hxy.
  Qed.

  Lemma sim_wrap (f1 f2 : subr -> res subr) cs ps r1 r2 a b :
    opR SR f1 -> opR SR f2 -> Forall node_sim cs -> StR r1 r2 a b ->
    res_rel (StR r1 r2)
      (do x <- with_top a f1; do y <- rkids d mw cs x; do z <- with_top y f2; unwind d ps z)
      (do x <- with_top b f1; do y <- rkids d mw cs x; do z <- with_top y f2; unwind d ps z).
  Proof.
    intros K1 K2 HF H.
    eapply res_rel_bind; [apply sim_with_top; [apply K1|exact H]|]. intros x1 x2 Hx.
    eapply res_rel_bind; [apply sim_kids; [exact HF|exact Hx]|]. intros y1 y2 Hy.
    eapply res_rel_bind; [apply sim_with_top; [apply K2|exact Hy]|]. intros z1 z2 Hz.
    apply sim_unwind, Hz.
  Qed.

  (* a prefixed block: top, width_minus, push, body, pop *)
  Lemma sim_scope r1 r2 a b p mn (body : rstate -> res rstate) :
    StR r1 r2 a b ->
    (forall q1 q2 a' b', StR q1 q2 a' b' -> res_rel (StR q1 q2) (body a') (body b')) ->
    forall {C1 C2} (k1 : subr * rstate -> res C1) (k2 : subr * rstate -> res C2) (Q : C1 -> C2 -> Prop),
    (forall u v a' b', SR u v -> StR r1 r2 a' b' -> res_rel Q (k1 (u, a')) (k2 (v, b'))) ->
    res_rel Q
      (do tp <- top a; do w <- width_minus tp p mn;
       do st2 <- body (push_sub a (new_sub_renderer tp w)); do pp <- pop_sub st2; k1 pp)
      (do tp <- top b; do w <- width_minus tp p mn;
       do st2 <- body (push_sub b (new_sub_renderer tp w)); do pp <- pop_sub st2; k2 pp).
  Proof.
    intros H Hbody C1 C2 k1 k2 Q Hk.
    eapply res_rel_bind; [apply sim_top, H|]. intros x y (Hxy & E1 & E2).
    rewrite <- (so_wm _ _ ops x y p mn Hxy).
    destruct (width_minus x p mn) as [w| | |] eqn:Ew; cbn [bind res_rel]; auto.
    eapply res_rel_bind.
    { apply Hbody. apply sim_push; [exact (proj1 H)|exact E1|exact E2|].
      eapply (so_new_wm _ _ ops); eassumption. }
    intros a2 b2 H2.
    eapply res_rel_bind; [apply (sim_pop r1 r2 x y); assumption|].
    intros [u a3] [v b3] [Huv H3]. cbn [fst snd] in *. apply Hk; assumption.
  Qed.

  (* ---- table rows ---- *)
  Lemma sim_cells tpx tpy (Htp : SR tpx tpy) : forall cells wsl r1 r2 a b us vs,
    Forall (fun c => Forall node_sim (cell_content c)) cells ->
    Forall (fun w => w <= swidth_ tpx) (somes wsl) ->
    StR r1 r2 a b -> Forall2 SR us vs ->
    res_rel (fun p q => StR r1 r2 (fst p) (fst q) /\ Forall2 SR (snd p) (snd q))
            (cells_loop d mw cells wsl a us) (cells_loop d mw cells wsl b vs).
  Proof.
    induction cells as [|[n content csty] cells IH]; intros wsl r1 r2 a b us vs HF Hw H Huv;
      cbn [cells_loop].
    - cbn [res_rel fst snd]. auto.
    - inversion HF as [|? ? HF1 HF2]; subst. cbn [cell_content] in HF1.
      destruct wsl as [|[w|] wsl]; [cbn [res_rel fst snd]; auto| |].
      + cbn [somes] in Hw. inversion Hw as [|? ? Hw1 Hw2]; subst.
        eapply res_rel_bind; [apply sim_top, H|]. intros x y (Hxy & E1 & E2).
        assert (Hp : StR (x :: r1) (y :: r2) (push_sub a (new_sub_renderer x w))
                         (push_sub b (new_sub_renderer y w))).
        { apply sim_push; [exact (proj1 H)|exact E1|exact E2|].
          exact (so_new_cell _ _ ops tpx tpy x y w Htp Hw1 Hxy). }
        eapply res_rel_bind; [apply sim_apply_style, Hp|].
        intros [a4 p4] [b4 q4] [H4 Epq]. cbn [fst snd] in H4, Epq. subst q4.
        eapply res_rel_bind; [apply (sim_kids content); [exact HF1|exact H4]|]. intros a5 b5 H5.
        eapply res_rel_bind; [apply sim_unwind, H5|]. intros a6 b6 H6.
        eapply res_rel_bind; [apply (sim_pop r1 r2 x y); assumption|].
        intros [u a7] [v b7] [Huv' H7]. cbn [fst snd] in *.
        apply IH; auto. apply Forall2_app; auto.
      + cbn [somes] in Hw. apply IH; auto.
  Qed.

  Lemma sim_row vr col_widths tpx tpy r r1 r2 a b :
    SR tpx tpy ->
    (vr = true -> forall w, In w col_widths -> w = swidth_ tpx) ->
    (vr = false -> sspan col_widths <= swidth_ tpx + 1) ->
    Forall (fun c => Forall node_sim (cell_content c)) (row_cells r) ->
    StR r1 r2 a b ->
    res_rel (StR r1 r2) (row_body d mw vr col_widths r a) (row_body d mw vr col_widths r b).
  Proof.
    intros Htp Hv Hh HF H. destruct r as [rcells rstyle]. cbn [row_cells] in HF. unfold row_body.
    eapply res_rel_bind; [apply sim_apply_style, H|].
    intros [a1 p1] [b1 q1] [H1 Epq]. cbn [fst snd] in H1, Epq. subst q1.
    destruct (cell_widths vr col_widths rcells 0) as [cws| | |] eqn:Ecws; cbn [bind res_rel]; auto.
    assert (Hw : Forall (fun w => w <= swidth_ tpx) (somes cws)).
    { destruct vr.
      - pose proof (cell_widths_v _ _ _ _ Ecws) as Hcv. eapply Forall_impl; [|exact Hcv].
        intros w [_ Hin]. rewrite (Hv eq_refl w Hin). lia.
      - destruct (cell_widths_h _ _ _ _ Ecws) as [_ Hsp].
        change (N.to_nat 0) with 0%nat in Hsp. cbn [skipn] in Hsp.
        specialize (Hh eq_refl). rewrite sspan_eq in Hh.
        apply Forall_forall. intros w Hin. pose proof (In_sspan _ _ Hin). lia. }
    eapply res_rel_bind; [apply (sim_cells tpx tpy Htp rcells cws r1 r2 a1 b1 [] []); auto|].
    intros [a8 us] [b8 vs] [H8 Huv]. cbn [fst snd] in H8, Huv.
    eapply res_rel_bind with (P := StR r1 r2).
    { destruct vr.
      - apply sim_with_top; [|exact H8]. intros x y Hxy. apply (so_vert _ _ ops); assumption.
      - assert (Ee : existsb (fun c => negb (sub_empty c)) us = existsb (fun c => negb (sub_empty c)) vs).
        { clear -Huv ops. induction Huv as [|u v us vs Huv1 _ IH]; [reflexivity|].
          cbn [existsb]. rewrite IH, (so_empty _ _ ops u v Huv1). reflexivity. }
        rewrite <- Ee. destruct (existsb (fun c => negb (sub_empty c)) us); [|exact H8].
        apply sim_with_top; [|exact H8]. intros x y Hxy. apply (so_cols _ _ ops); assumption. }
    intros a9 b9 H9. apply sim_unwind, H9.
  Qed.

  Lemma node_sim_all : forall n, node_sim n.
  Proof.
    apply rnode_ind'. intros i sty IH r1 r2 a b Hab.
    destruct i; cbn [direct_kids] in IH; cbn [render_node rn_info rn_style];
      (match goal with
       | |- res_rel _ (bind ?e _) (bind ?e _) => destruct e as [sz| | |]; cbn [bind res_rel]; auto
       end);
      (eapply res_rel_bind; [apply sim_apply_style, Hab|]);
      intros [a1 p1] [b1 q1] [H1 Epq]; cbn [fst snd] in H1, Epq; subst q1.
    - (* IText *)
      eapply res_rel_bind; [apply sim_inline, H1|]. intros; apply sim_unwind; assumption.
    - (* IContainer *)
      eapply res_rel_bind; [apply (sim_kids cs); [exact IH|exact H1]|].
      intros; apply sim_unwind; assumption.
    - (* ILink *)
      assert (H1' : StR r1 r2 (mkrst (stack a1) (links a1 ++ [href]))
                               (mkrst (stack b1) (links b1 ++ [href]))).
      { destruct H1 as (Hl & s1 & s2 & E1 & E2 & Hs). split; [cbn [links]; congruence|].
        exists s1, s2. cbn [stack]. auto. }
      eapply res_rel_bind; [apply sim_with_top; [apply (so_start_link _ _ ops)|exact H1']|].
      intros a2 b2 H2.
      eapply res_rel_bind; [apply (sim_kids cs); [exact IH|exact H2]|]. intros a3 b3 H3.
      eapply res_rel_bind; [apply sim_with_top; [apply (so_end_link _ _ ops)|exact H3]|].
      intros a4 b4 H4.
      eapply res_rel_bind; [apply sim_top, H4|]. intros x y (Hxy & E1 & E2).
      rewrite <- (so_foot _ _ ops x y Hxy), <- (proj1 H4).
      eapply res_rel_bind with (P := StR r1 r2).
      { destruct (o_footnotes (sopts x)); [apply sim_inline, H4|exact H4]. }
      intros; apply sim_unwind; assumption.
    - (* IEm *) apply sim_wrap; auto; [apply (so_em_s _ _ ops)|apply (so_em_e _ _ ops)].
    - (* IStrong *) apply sim_wrap; auto; [apply (so_strong_s _ _ ops)|apply (so_strong_e _ _ ops)].
    - (* IStrikeout *) apply sim_wrap; auto; [apply (so_strike_s _ _ ops)|apply (so_strike_e _ _ ops)].
    - (* ICode *) apply sim_wrap; auto; [apply (so_code_s _ _ ops)|apply (so_code_e _ _ ops)].
    - (* IImg *)
      eapply res_rel_bind; [apply sim_with_top; [apply (so_image _ _ ops)|exact H1]|].
      intros; apply sim_unwind; assumption.
    - (* IBlock *)
      apply (sim_wrap start_block (fun s => Ok (end_block s))); auto;
        [apply (so_start_block _ _ ops)|].
      intros x y Hxy. cbn [res_rel]. apply (so_end_block _ _ ops), Hxy.
    - (* IHeader *)
      destruct (negb (swidth (d_header_prefix d level) =? e_prefix sz)); [reflexivity|].
      apply (sim_scope r1 r2 a1 b1 _ _ (rkids d mw cs)); [exact H1| |].
      { intros; apply sim_kids; assumption. }
      intros u v a3 b3 Huv H3.
      eapply res_rel_bind; [apply sim_with_top; [apply (so_start_block _ _ ops)|exact H3]|].
      intros a4 b4 H4.
      eapply res_rel_bind; [apply sim_with_top; [|exact H4]|].
      { intros x y Hxy. apply (so_append _ _ ops); assumption. }
      intros a5 b5 H5.
      eapply res_rel_bind; [apply sim_with_top'; [apply (so_end_block _ _ ops)|exact H5]|].
      intros; apply sim_unwind; assumption.
    - (* IDiv *)
      apply sim_wrap; auto; apply (so_new_line _ _ ops).
    - (* IBlockQuote *)
      destruct (negb (e_prefix sz =? swidth (d_quote_prefix d))); [reflexivity|].
      destruct (usub 21 (e_min sz) (swidth (d_quote_prefix d))) as [iw| | |]; cbn [bind res_rel]; auto.
      apply (sim_scope r1 r2 a1 b1 _ _ (rkids d mw cs)); [exact H1| |].
      { intros; apply sim_kids; assumption. }
      intros u v a3 b3 Huv H3.
      eapply res_rel_bind; [apply sim_with_top; [apply (so_start_block _ _ ops)|exact H3]|].
      intros a4 b4 H4.
      eapply res_rel_bind; [apply sim_with_top; [|exact H4]|].
      { intros x y Hxy. apply (so_append _ _ ops); assumption. }
      intros a5 b5 H5.
      eapply res_rel_bind; [apply sim_with_top'; [apply (so_end_block _ _ ops)|exact H5]|].
      intros; apply sim_unwind; assumption.
    - (* IUl *)
      eapply res_rel_bind with (P := StR r1 r2); [|intros; apply sim_unwind; assumption].
      apply (res_rel_fold (StR r1 r2)
               (fun item s =>
                  do inner_width <- usub 22 (e_min sz) (swidth (d_ul_prefix d));
                  do tp <- top s;
                  do w <- width_minus tp (swidth (d_ul_prefix d)) inner_width;
                  do s2 <- render_node d mw item (push_sub s (new_sub_renderer tp w));
                  do pp <- pop_sub s2;
                  let '(sub, s3) := pp in
                  with_top s3 (fun t => append_subrender t sub (d_ul_prefix d)
                     (repeat_chr (spacel L_prefix) (N.to_nat (swidth (d_ul_prefix d))))))
               _ cs); [|exact H1].
      intros item Hitem x y Hxy.
      destruct (usub 22 (e_min sz) (swidth (d_ul_prefix d))) as [iw| | |]; cbn [bind res_rel]; auto.
      apply (sim_scope r1 r2 x y _ _ (render_node d mw item)); [exact Hxy| |].
      { rewrite Forall_forall in IH. exact (IH item Hitem). }
      intros u v a3 b3 Huv H3. apply sim_with_top; [|exact H3].
      intros x' y' Hxy'. apply (so_append _ _ ops); assumption.
    - (* IOl *)
      eapply res_rel_bind with (P := fun p q => StR r1 r2 (fst p) (fst q) /\ snd p = snd q);
        [|intros p q [Hpq _]; apply sim_unwind; exact Hpq].
      set (pw := N.max (swidth (d_ol_prefix d start))
                       (swidth (d_ol_prefix d (isat64 (isat64 (start + Z.of_nat (length cs)) - 1))))).
      apply (res_rel_fold (fun p q => StR r1 r2 (fst p) (fst q) /\ snd p = snd q)
               (ol_step d mw sz pw) (ol_step d mw sz pw) cs); [|cbn [res_rel fst snd]; auto].
      intros item Hitem [x ix] [y iy] [Hxy Ei]. cbn [fst snd] in Hxy, Ei. subst iy.
      unfold ol_step.
      destruct (usub 23 (e_min sz) (e_prefix sz)) as [iw| | |]; cbn [bind res_rel]; auto.
      apply (sim_scope r1 r2 x y _ _ (render_node d mw item)); [exact Hxy| |].
      { rewrite Forall_forall in IH. exact (IH item Hitem). }
      intros u v a3 b3 Huv H3.
      eapply res_rel_bind; [apply sim_with_top; [|exact H3]|].
      { intros x' y' Hxy'. apply (so_append _ _ ops); assumption. }
      intros a4 b4 H4. cbn [res_rel fst snd]. auto.
    - (* IDl *)
      eapply res_rel_bind; [apply sim_with_top; [apply (so_start_block _ _ ops)|exact H1]|].
      intros a2 b2 H2.
      eapply res_rel_bind; [apply (sim_kids cs); [exact IH|exact H2]|].
      intros; apply sim_unwind; assumption.
    - (* IDt *)
      eapply res_rel_bind; [apply sim_with_top; [apply (so_new_line _ _ ops)|exact H1]|].
      intros a2 b2 H2.
      apply sim_wrap; auto; [apply (so_em_s _ _ ops)|apply (so_em_e _ _ ops)].
    - (* IDd *)
      destruct (usub 24 (e_min sz) 2) as [iw| | |]; cbn [bind res_rel]; auto.
      apply (sim_scope r1 r2 a1 b1 _ _ (rkids d mw cs)); [exact H1| |].
      { intros; apply sim_kids; assumption. }
      intros u v a3 b3 Huv H3.
      eapply res_rel_bind; [apply sim_with_top; [|exact H3]|].
      { intros x y Hxy. apply (so_append _ _ ops); assumption. }
      intros; apply sim_unwind; assumption.
    - (* IBreak *)
      eapply res_rel_bind; [apply sim_with_top; [apply (so_new_line_hard _ _ ops)|exact H1]|].
      intros; apply sim_unwind; assumption.
    - (* ITable *)
      match goal with
      | |- res_rel _ (bind ?e _) (bind ?e _) =>
        destruct e as [col_sizes| | |]; cbn [bind res_rel]; auto
      end.
      eapply res_rel_bind; [apply sim_top, H1|]. intros x y (Hxy & E1 & E2).
      rewrite <- (so_width _ _ ops x y Hxy), <- (so_raw _ _ ops x y Hxy),
        <- (so_borders _ _ ops x y Hxy).
      set (vr := o_raw (sopts x)
                 || ((swidth_ x <? sumN (map e_min col_sizes) + (N.of_nat (length col_sizes) - 1))
                     || (swidth_ x =? 0))).
      match goal with
      | |- res_rel _ (bind ?e _) (bind ?e _) =>
        destruct e as [col_widths| | |] eqn:Hcw; cbn [bind res_rel]; auto
      end.
      assert (Hv : vr = true -> forall w, In w col_widths -> w = swidth_ x).
      { intros E w Hw. rewrite E in Hcw. cbn [negb] in Hcw. ok_inv Hcw.
        apply in_map_iff in Hw. destruct Hw as (? & <- & _). reflexivity. }
      assert (Hh : vr = false -> sspan col_widths <= swidth_ x + 1).
      { intros E. rewrite E in Hcw. cbn [negb] in Hcw.
        destruct (map (col_width_of (swidth_ x) (sumN (map e_size col_sizes))) col_sizes) as [|x0 l].
        - ok_inv Hcw. rewrite sspan_nil. lia.
        - apply shrink_loop_ok in Hcw. rewrite sspan_eq. lia. }
      eapply res_rel_bind; [apply sim_with_top; [apply (so_start_block _ _ ops)|exact H1]|].
      intros a2 b2 H2.
      eapply res_rel_bind with (P := StR r1 r2).
      { match goal with |- res_rel _ (if ?c then _ else _) _ => destruct c end; [|exact H2].
        apply sim_with_top; [apply (so_hborder _ _ ops)|exact H2]. }
      intros a3 b3 H3.
      eapply res_rel_bind with (P := StR r1 r2); [|intros; apply sim_unwind; assumption].
      apply (res_rel_fold (StR r1 r2) (row_body d mw vr col_widths) (row_body d mw vr col_widths) rows);
        [|exact H3].
      intros r Hr a' b' H'.
      apply Forall_flat_map in IH. rewrite Forall_forall in IH. specialize (IH r Hr).
      unfold row_kids in IH. apply Forall_flat_map in IH.
      apply (sim_row vr col_widths x y r r1 r2 a' b' Hxy Hv Hh IH H').
    - (* ITableBody *) reflexivity.
    - (* ITableRow *) reflexivity.
    - (* ITableCell *) reflexivity.
    - (* IFragStart *)
      eapply res_rel_bind; [apply sim_with_top'; [apply (so_frag _ _ ops)|exact H1]|].
      intros; apply sim_unwind; assumption.
    - (* IListItem *)
      apply (sim_wrap start_block (fun s => Ok (end_block s))); auto;
        [apply (so_start_block _ _ ops)|].
      intros x y Hxy. cbn [res_rel]. apply (so_end_block _ _ ops), Hxy.
    - (* ISup *)
      destruct (sup_digits cs) as [digitstr|].
      + eapply res_rel_bind; [apply sim_inline, H1|]. intros; apply sim_unwind; assumption.
      + apply sim_wrap; auto; [apply (so_sup_s _ _ ops)|apply (so_sup_e _ _ ops)].
  Qed.
End Sim.

(* ================================================================== *)
(* 2. Frame property: render_node only touches the top sub-renderer     *)
(* ================================================================== *)

Lemma Forall2_eq {A} (l l' : list A) : Forall2 eq l l' -> l = l'.
Proof. induction 1; congruence. Qed.

Lemma eq_ops d : SimOps d eq.
Proof.
  constructor; unfold pureR, opR; intros; subst;
    repeat match goal with H : Forall2 eq _ _ |- _ => apply Forall2_eq in H; subst end;
    try reflexivity; try apply res_rel_refl.
Qed.

Section Frame.
  Variables (d : deco) (mw : N).

  Definition framed (body : rstate -> res rstate) : Prop :=
    forall q1 q2 a b, StR eq q1 q2 a b -> res_rel (StR eq q1 q2) (body a) (body b).

  Lemma framed_node n : framed (render_node d mw n).
  Proof. intros q1 q2 a b. apply (node_sim_all d mw eq (eq_ops d) n). Qed.

  Lemma framed_kids cs : framed (rkids d mw cs).
  Proof.
    intros q1 q2 a b. apply (sim_kids d mw eq). apply Forall_forall. intros n _.
    apply (node_sim_all d mw eq (eq_ops d) n).
  Qed.

  (* running on a stack s :: rest leaves rest alone, and the run does not depend on it *)
  Lemma frame body (Hb : framed body) s rest lk st' :
    body (mkrst (s :: rest) lk) = Ok st' ->
    exists s' lk', st' = mkrst (s' :: rest) lk' /\
      forall rest2, body (mkrst (s :: rest2) lk) = Ok (mkrst (s' :: rest2) lk').
  Proof.
    intros H.
    assert (G : forall rest2, exists s', stack st' = s' :: rest /\
                  body (mkrst (s :: rest2) lk) = Ok (mkrst (s' :: rest2) (links st'))).
    { intros rest2.
      assert (HS : StR eq rest rest2 (mkrst (s :: rest) lk) (mkrst (s :: rest2) lk)).
      { split; [reflexivity|]. exists s, s. auto. }
      destruct (res_rel_ok_l _ _ _ _ (Hb _ _ _ _ HS) H) as (b' & Eb & Hl & s1 & s2 & E1 & E2 & <-).
      exists s1. split; [exact E1|]. rewrite Eb. destruct b' as [stk lks]. cbn [stack links] in *.
      congruence. }
    destruct (G rest) as (s' & Es & _). exists s', (links st'). split.
    - destruct st' as [stk lks]. cbn [stack links] in *. congruence.
    - intros rest2. destruct (G rest2) as (s'' & Es' & E). rewrite Es in Es'. congruence.
  Qed.
End Frame.

(* ================================================================== *)
(* 3. C07: strings of prefixed lines                                    *)
(* ================================================================== *)
From H2T Require Proofs.TableProof.

Definition strs (ls : list rline) : list text := map rline_string ls.

(* the prefix strings put in front of the line strings: first on the first line, rest on
   every later line *)
Definition prefixed (first rest : text) (ls : list text) : list text :=
  match ls with
  | [] => []
  | l :: ls' => (first ++ l) :: map (app rest) ls'
  end.

Lemma prefixed_same p ls : prefixed p p ls = map (app p) ls.
Proof. destruct ls; reflexivity. Qed.

Lemma attach_prefix_string t p l : rline_string (attach_prefix t p l) = p ++ rline_string l.
Proof.
  destruct l as [tl|b bt].
  - apply attach_prefix_text. right. exact I.
  - cbn [attach_prefix rline_string]. rewrite !TableProof.tl_string_push. reflexivity.
Qed.

Lemma attach_prefixes_strs t first rest ls :
  strs (attach_prefixes t first rest ls) = prefixed first rest (strs ls).
Proof.
  destruct ls as [|l ls]; [reflexivity|]. unfold strs. cbn [attach_prefixes map prefixed].
  rewrite attach_prefix_string, !map_map. f_equal. apply map_ext. intros l'.
  apply attach_prefix_string.
Qed.

(* text of the pending fragment markers (they are Frag elements, so it is empty: see
   section 6, `clean_top` is an invariant of the renderer) *)
Definition ptxt (s : subr) : text := flat_map elem_text (pending_frags s).

Lemma no_content_text v : existsb elem_has_content v = false -> flat_map elem_text v = [].
Proof.
  induction v as [|e v IH]; [reflexivity|]. cbn [existsb flat_map]. intros H.
  apply orb_false_iff in H. destruct H as [He Hv]. destruct e; [discriminate|].
  cbn [elem_text app]. auto.
Qed.

Lemma string_fold_push v : forall l, tl_string (fold_left tl_push v l) = tl_string l ++ flat_map elem_text v.
Proof.
  induction v as [|e v IH]; intros l; cbn [fold_left flat_map]; [rewrite app_nil_r; reflexivity|].
  rewrite IH, TableProof.tl_string_push, <- app_assoc. reflexivity.
Qed.

(* fields that add_line / extend_lines / flush_wrapping do not change *)
Definition same_ctx (s s' : subr) : Prop :=
  swidth_ s' = swidth_ s /\ sopts s' = sopts s /\ ann_stack s' = ann_stack s /\
  at_block_end s' = at_block_end s /\ filter_depth s' = filter_depth s /\
  pre_depth s' = pre_depth s /\ ws_stack s' = ws_stack s.

Lemma same_ctx_refl s : same_ctx s s.
Proof. unfold same_ctx. auto 10. Qed.
Lemma same_ctx_trans a b c : same_ctx a b -> same_ctx b c -> same_ctx a c.
Proof. unfold same_ctx. intuition congruence. Qed.

Lemma add_line_spec s l :
  ptxt s = [] ->
  strs (slines (add_line s l)) = strs (slines s) ++ [rline_string l] /\
  ptxt (add_line s l) = [] /\ wrapping (add_line s l) = wrapping s /\ same_ctx s (add_line s l).
Proof.
  intros Hp. unfold add_line, ptxt, strs in *.
  destruct (pending_frags s) as [|e pf] eqn:E; destruct l as [tl|b t]; sprj;
    rewrite ?map_app; cbn [map]; repeat split; auto; try (rewrite E; exact Hp).
  cbn [rline_string]. rewrite !string_fold_push, Hp. reflexivity.
Qed.

Lemma extend_lines_spec ls : forall s,
  ptxt s = [] ->
  strs (slines (extend_lines s ls)) = strs (slines s) ++ strs ls /\
  ptxt (extend_lines s ls) = [] /\ wrapping (extend_lines s ls) = wrapping s /\
  same_ctx s (extend_lines s ls).
Proof.
  unfold extend_lines. induction ls as [|l ls IH]; intros s Hp; cbn [fold_left].
  - unfold strs. cbn [map]. rewrite app_nil_r. split; [reflexivity|]. split; [exact Hp|].
    split; [reflexivity|apply same_ctx_refl].
  - destruct (add_line_spec s l Hp) as (A & B & C & D).
    destruct (IH (add_line s l) B) as (A' & B' & C' & D').
    split; [|split; [exact B'|split; [congruence|eapply same_ctx_trans; eassumption]]].
    rewrite A', A. unfold strs. cbn [map]. rewrite <- app_assoc. reflexivity.
Qed.

Lemma flush_wrapping_spec s s1 :
  flush_wrapping s = Ok s1 -> ptxt s = [] ->
  wrapping s1 = None /\ ptxt s1 = [] /\ same_ctx s s1 /\ (wrapping s = None -> s1 = s) /\
  exists new, strs (slines s1) = strs (slines s) ++ new.
Proof.
  unfold flush_wrapping. destruct (wrapping s) as [w|] eqn:Ew.
  - destruct (take_trailing_fragments w) as [w1 frags] eqn:Et. intros H Hp.
    bind_inv H lm Hlm. ok_inv H.
    assert (Hfr : flat_map elem_text frags = []).
    { rewrite ttf_eq in Et. injection Et as _ <-. apply no_content_text, tfr_snd_nocontent. }
    pose proof (no_content_text _ (wb_into_lines_markers_no_content _ _ Hlm)) as Hmk.
    destruct lm as [ls mk]. cbn [fst snd] in *.
    destruct (extend_lines_spec (map RText ls) (set_wrapping s None) Hp) as (A & B & C & D).
    sprj. split; [exact C|]. split.
    { unfold ptxt in *. sprj. rewrite !flat_map_app, Hfr, Hmk, B. reflexivity. }
    split; [exact D|]. split; [discriminate|]. eexists. exact A.
  - intros H Hp. ok_inv H. split; [exact Ew|]. split; [exact Hp|]. split; [apply same_ctx_refl|].
    split; [auto|]. exists []. rewrite app_nil_r. reflexivity.
Qed.

(* the line strings a sub-renderer would give (its pending wrapped text flushed) *)
Definition out_lines (s : subr) : res (list text) := do ls <- sub_into_lines s; Ok (strs ls).

Lemma out_lines_flush s s1 : flush_wrapping s = Ok s1 -> out_lines s = Ok (strs (slines s1)).
Proof. intros H. unfold out_lines, sub_into_lines. rewrite H. reflexivity. Qed.

Lemma flush_none s : wrapping s = None -> flush_wrapping s = Ok s.
Proof. intros H. unfold flush_wrapping. rewrite H. reflexivity. Qed.

Lemma out_lines_none s : wrapping s = None -> out_lines s = Ok (strs (slines s)).
Proof. intros H. apply out_lines_flush, flush_none, H. Qed.

Lemma out_lines_end_block s : out_lines (end_block s) = out_lines s.
Proof.
  unfold out_lines, sub_into_lines, flush_wrapping, end_block. sprj.
  destruct (wrapping s) as [w|]; [|reflexivity].
  destruct (take_trailing_fragments w) as [w1 frags].
  destruct (wb_into_lines_markers w1) as [[ls mk]| | |]; cbn [bind fst snd]; try reflexivity.
  f_equal. f_equal. sprj.
  assert (G : forall l a b, slines a = slines b -> pending_frags a = pending_frags b ->
                slines (extend_lines a l) = slines (extend_lines b l)).
  { clear. unfold extend_lines. induction l as [|x l IH]; intros a b H1 H2; cbn [fold_left]; [exact H1|].
    apply IH; unfold add_line; rewrite H1, H2; destruct (pending_frags b), x; reflexivity. }
  apply G; reflexivity.
Qed.

Lemma out_lines_app3 (x : res (list text)) a b :
  (do l <- (do l <- x; Ok (l ++ a)); Ok (l ++ b)) = (do l <- x; Ok (l ++ a ++ b)).
Proof. destruct x; cbn [bind]; try reflexivity. rewrite app_assoc. reflexivity. Qed.

(* append_subrender: the lines of `other`, prefixed, come after the (flushed) lines of s *)
Lemma append_subrender_spec s other first rest s' :
  append_subrender s other first rest = Ok s' -> ptxt s = [] ->
  exists ols, sub_into_lines other = Ok ols /\
    out_lines s' = (do l <- out_lines s; Ok (l ++ prefixed first rest (strs ols))) /\
    wrapping s' = None /\ ptxt s' = [] /\ same_ctx s s'.
Proof.
  intros H Hp. unfold append_subrender in H. bind_inv H s1 H1. bind_inv H ols H2. ok_inv H.
  destruct (flush_wrapping_spec _ _ H1 Hp) as (A & B & C & _ & _).
  destruct (extend_lines_spec (attach_prefixes (ann_stack s1) first rest ols) s1 B) as (E & F & G & I).
  exists ols. split; [exact H2|]. rewrite A in G.
  rewrite (out_lines_flush _ _ H1). cbn [bind].
  rewrite (out_lines_none _ G), E, attach_prefixes_strs.
  split; [reflexivity|]. split; [exact G|]. split; [exact F|].
  eapply same_ctx_trans; eassumption.
Qed.

Lemma start_block_spec s s4 :
  start_block s = Ok s4 -> ptxt s = [] ->
  wrapping s4 = None /\ ptxt s4 = [] /\
  swidth_ s4 = swidth_ s /\ sopts s4 = sopts s /\ ann_stack s4 = ann_stack s /\
  exists s1, flush_wrapping s = Ok s1 /\
    strs (slines s4) = strs (slines s1) ++
                       (if existsb rline_has_content (slines s1) then [[]] else []).
Proof.
  intros H Hp. unfold start_block in H. bind_inv H s1 H1. bind_inv H s2 H2. ok_inv H.
  destruct (flush_wrapping_spec _ _ H1 Hp) as (A & B & (c1 & c2 & c3 & _) & _ & _).
  destruct (existsb rline_has_content (slines s1)) eqn:Ex.
  - unfold add_empty_line in H2. rewrite (flush_none _ A) in H2. cbn [bind] in H2. ok_inv H2.
    destruct (add_line_spec s1 (RText tl_new) B) as (E & F & G & (d1 & d2 & d3 & _)).
    sprj. split; [congruence|]. split; [exact F|]. repeat split; try congruence.
    exists s1. split; [exact H1|]. rewrite E, Ex. reflexivity.
  - injection H2 as <-. sprj. repeat split; auto. exists s1. split; [exact H1|]. rewrite Ex.
    rewrite app_nil_r. reflexivity.
Qed.

(* ================================================================== *)
(* 4. C07: the compositional equation of the prefixing node kinds       *)
(* ================================================================== *)

(* [nested body tp lk p mn sub lk' ols]: `body` run in a FRESH sub-renderer made from tp, p
   columns narrower (new_sub_renderer tp w, w = width_minus tp p mn, alone on the stack), with
   the links lk collected so far, ends with sub-renderer sub (whose lines are ols) and links lk' *)
Definition nested (body : rstate -> res rstate) (tp : subr) (lk : list text) (p mn : N)
           (sub : subr) (lk' : list text) (ols : list rline) : Prop :=
  exists w, width_minus tp p mn = Ok w /\
            body (mkrst [new_sub_renderer tp w] lk) = Ok (mkrst [sub] lk') /\
            sub_into_lines sub = Ok ols.

(* what w is *)
Lemma width_minus_spec tp p mn w :
  width_minus tp p mn = Ok w ->
  w = N.max (swidth_ tp - p) mn /\
  (o_allow_overflow (sopts tp) = false -> w = swidth_ tp - p /\ p <= swidth_ tp /\ mn <= w).
Proof.
  unfold width_minus. intros H.
  destruct (((swidth_ tp - p <? mn) || (swidth_ tp <? p)) && negb (o_allow_overflow (sopts tp))) eqn:E;
    [discriminate|]. ok_inv H. split; [reflexivity|]. intros Ho. rewrite Ho in E. cbn [negb] in E.
  rewrite andb_true_r in E. apply orb_false_iff in E. lia.
Qed.

Lemma nested_ctx body tp tp' lk p mn sub lk' ols :
  same_ctx tp tp' -> nested body tp' lk p mn sub lk' ols -> nested body tp lk p mn sub lk' ols.
Proof.
  intros (c1 & c2 & c3 & _ & c5 & c6 & c7) (w & A & B & C). exists w.
  unfold width_minus, new_sub_renderer in *. rewrite c1, c2, c3, c5, c6, c7 in *. auto.
Qed.

Lemma scope_inv body (Hb : framed body) st tp rest p mn {C} (k : subr * rstate -> res C) r :
  stack st = tp :: rest ->
  (do tp <- top st; do w <- width_minus tp p mn;
   do st2 <- body (push_sub st (new_sub_renderer tp w)); do pp <- pop_sub st2; k pp) = Ok r ->
  exists w sub lk', width_minus tp p mn = Ok w /\
    body (mkrst [new_sub_renderer tp w] (links st)) = Ok (mkrst [sub] lk') /\
    k (sub, mkrst (tp :: rest) lk') = Ok r.
Proof.
  intros Es H. unfold top in H. rewrite Es in H. cbn [bind] in H.
  bind_inv H w Hw. bind_inv H st2 H2. bind_inv H pp Hpp.
  unfold push_sub in H2. rewrite Es in H2.
  destruct (frame body Hb _ _ _ _ H2) as (sub & lk' & -> & Hfr).
  unfold pop_sub in Hpp. cbn [stack links] in Hpp. ok_inv Hpp.
  exists w, sub, lk'. split; [exact Hw|]. split; [apply Hfr|exact H].
Qed.

Lemma with_top_at st s rest f st' :
  stack st = s :: rest -> with_top st f = Ok st' ->
  exists s', f s = Ok s' /\ st' = mkrst (s' :: rest) (links st).
Proof.
  intros Es H. unfold with_top in H. rewrite Es in H. bind_inv H s' Hs. ok_inv H. eauto.
Qed.

Lemma with_top_mk s rest lk f st' :
  with_top (mkrst (s :: rest) lk) f = Ok st' ->
  exists s', f s = Ok s' /\ st' = mkrst (s' :: rest) lk.
Proof. apply with_top_at. reflexivity. Qed.

(* there is a top sub-renderer and it has no pending fragment text (an invariant, section 6) *)
Definition clean_top (st : rstate) : Prop :=
  match stack st with s :: _ => ptxt s = [] | [] => False end.

Lemma with_top'_pf st g st' :
  (forall s, pending_frags (g s) = pending_frags s) -> clean_top st ->
  with_top' st g = Ok st' -> clean_top st'.
Proof.
  intros Hg Hc H. unfold with_top', with_top in H. unfold clean_top in *.
  destruct (stack st) as [|s rest]; [discriminate|]. cbn [bind] in H. ok_inv H. cbn [stack].
  unfold ptxt in *. rewrite Hg. exact Hc.
Qed.

Lemma apply_style_clean d st cs st' p :
  apply_style d st cs = Ok (st', p) -> clean_top st -> clean_top st'.
Proof.
  intros H Hc. unfold apply_style in H.
  bind_inv H st1 H1. bind_inv H st2 H2. bind_inv H st3 H3. bind_inv H st4 H4. injection H as <- _.
  assert (C1 : clean_top st1).
  { destruct (ws_val (c_colour (cs_core cs))) as [[[r g] b]|]; [|ok_inv H1; exact Hc].
    eapply with_top'_pf; [|exact Hc|exact H1]. intros s. unfold push_colour, push_ann.
    destruct (d_colours d); reflexivity. }
  assert (C2 : clean_top st2).
  { destruct (ws_val (c_bg (cs_core cs))) as [[[r g] b]|]; [|ok_inv H2; exact C1].
    eapply with_top'_pf; [|exact C1|exact H2]. intros s. unfold push_bgcolour, push_ann.
    destruct (d_colours d); reflexivity. }
  assert (C3 : clean_top st3).
  { destruct (match ws_val (c_white_space (cs_core cs)) with
              | Some WsPre => Some WsPre
              | Some WsPreWrap => Some WsPreWrap
              | _ => None
              end) as [m|]; [|ok_inv H3; exact C2].
    eapply with_top'_pf; [|exact C2|exact H3]. reflexivity. }
  destruct (cs_internal_pre cs); [|ok_inv H4; exact C3].
  eapply with_top'_pf; [|exact C3|exact H4]. reflexivity.
Qed.

Section PartA.
  Variables (d : deco) (mw : N).

  (* ---- block quote, heading: start_block; prefixed lines; end_block ---- *)
  (* the common tail of IBlockQuote and IHeader *)
  Lemma block_tail tp rest lk' sub prefix ps st' :
    (do st4 <- with_top (mkrst (tp :: rest) lk') start_block;
     do st5 <- with_top st4 (fun s => append_subrender s sub prefix prefix);
     do st6 <- with_top' st5 end_block; unwind d ps st6) = Ok st' ->
    exists s4 s5,
      start_block tp = Ok s4 /\ append_subrender s4 sub prefix prefix = Ok s5 /\
      unwind d ps (mkrst (end_block s5 :: rest) lk') = Ok st'.
  Proof.
    intros H. bind_inv H st4 H4. bind_inv H st5 H5. bind_inv H st6 H6.
    destruct (with_top_mk _ _ _ _ _ H4) as (s4 & E4 & ->).
    destruct (with_top_mk _ _ _ _ _ H5) as (s5 & E5 & ->).
    unfold with_top' in H6. destruct (with_top_mk _ _ _ _ _ H6) as (s6 & E6 & ->).
    ok_inv E6. cbn [links] in *. eauto.
  Qed.

  (* [block_eq tp sub prefix s4 s5]: the top sub-renderer tp gets start_block (giving s4: its
     wrapped text flushed and, if it has a line with content, one empty line), then every line
     of sub with `prefix` in front (giving s5); end_block then only sets a flag. *)
  Definition block_eq (tp sub : subr) (prefix : text) (s4 s5 : subr) : Prop :=
    start_block tp = Ok s4 /\ append_subrender s4 sub prefix prefix = Ok s5.

  Lemma block_eq_lines tp sub prefix s4 s5 ols :
    block_eq tp sub prefix s4 s5 -> ptxt tp = [] -> sub_into_lines sub = Ok ols ->
    out_lines s4 = Ok (strs (slines s4)) /\
    out_lines (end_block s5) = Ok (strs (slines s4) ++ map (app prefix) (strs ols)) /\
    ptxt (end_block s5) = [].
  Proof.
    intros [H4 H5] Hp Hols.
    destruct (start_block_spec _ _ H4 Hp) as (A & B & _).
    destruct (append_subrender_spec _ _ _ _ _ H5 B) as (ols' & E1 & E2 & E3 & E4 & _).
    assert (ols' = ols) by congruence. subst ols'.
    rewrite out_lines_end_block, E2, (out_lines_none _ A). cbn [bind]. rewrite prefixed_same.
    auto.
  Qed.

  Theorem c07_blockquote cs sty st0 st' :
    render_node d mw (RN (IBlockQuote cs) sty) st0 = Ok st' ->
    let q := d_quote_prefix d in
    exists st ps tp rest mn sub lk' ols s4 s5,
      apply_style d st0 sty = Ok (st, ps) /\ stack st = tp :: rest /\
      nested (rkids d mw cs) tp (links st) (swidth q) mn sub lk' ols /\
      block_eq tp sub q s4 s5 /\
      unwind d ps (mkrst (end_block s5 :: rest) lk') = Ok st' /\
      (clean_top st0 ->
       out_lines (end_block s5) = Ok (strs (slines s4) ++ map (app q) (strs ols))).
  Proof.
    intros H q. cbn [render_node rn_info rn_style] in H.
    bind_inv H sz Hsz. bind_inv H ap Hap. destruct ap as [st ps].
    destruct (negb (e_prefix sz =? swidth (d_quote_prefix d))); [discriminate|].
    bind_inv H iw Hiw.
    destruct (stack st) as [|tp rest] eqn:Es; [unfold top in H; rewrite Es in H; discriminate|].
    destruct (scope_inv (rkids d mw cs) (framed_kids d mw cs) st tp rest _ _ _ _ Es H)
      as (w & sub & lk' & Hw & Hbody & Hk).
    destruct (block_tail _ _ _ _ _ _ _ Hk) as (s4 & s5 & E4 & E5 & Hfin).
    assert (Hols : exists ols, sub_into_lines sub = Ok ols).
    { unfold append_subrender in E5. bind_inv E5 x Hx. bind_inv E5 ols Ho. eauto. }
    destruct Hols as [ols Hols].
    exists st, ps, tp, rest, iw, sub, lk', ols, s4, s5.
    split; [exact Hap|]. split; [exact Es|]. split; [exists w; auto|].
    split; [split; assumption|]. split; [exact Hfin|].
    intros Hc. pose proof (apply_style_clean _ _ _ _ _ Hap Hc) as Hc'.
    unfold clean_top in Hc'. rewrite Es in Hc'.
    apply (block_eq_lines tp sub q s4 s5 ols); [split; assumption|exact Hc'|exact Hols].
  Qed.

  Theorem c07_header level cs sty st0 st' :
    render_node d mw (RN (IHeader level cs) sty) st0 = Ok st' ->
    let h := d_header_prefix d level in
    exists st ps tp rest mn sub lk' ols s4 s5,
      apply_style d st0 sty = Ok (st, ps) /\ stack st = tp :: rest /\
      nested (rkids d mw cs) tp (links st) (swidth h) mn sub lk' ols /\
      block_eq tp sub h s4 s5 /\
      unwind d ps (mkrst (end_block s5 :: rest) lk') = Ok st' /\
      (clean_top st0 ->
       out_lines (end_block s5) = Ok (strs (slines s4) ++ map (app h) (strs ols))).
  Proof.
    intros H h. cbn [render_node rn_info rn_style] in H.
    bind_inv H sz Hsz. bind_inv H ap Hap. destruct ap as [st ps].
    destruct (N.eqb_spec (swidth (d_header_prefix d level)) (e_prefix sz)) as [Ep|];
      cbn [negb] in H; [|discriminate]. rewrite <- Ep in H.
    destruct (stack st) as [|tp rest] eqn:Es; [unfold top in H; rewrite Es in H; discriminate|].
    destruct (scope_inv (rkids d mw cs) (framed_kids d mw cs) st tp rest _ _ _ _ Es H)
      as (w & sub & lk' & Hw & Hbody & Hk).
    destruct (block_tail _ _ _ _ _ _ _ Hk) as (s4 & s5 & E4 & E5 & Hfin).
    assert (Hols : exists ols, sub_into_lines sub = Ok ols).
    { unfold append_subrender in E5. bind_inv E5 x Hx. bind_inv E5 ols Ho. eauto. }
    destruct Hols as [ols Hols].
    exists st, ps, tp, rest, (e_min sz - swidth (d_header_prefix d level)), sub, lk', ols, s4, s5.
    split; [exact Hap|]. split; [exact Es|]. split; [exists w; auto|].
    split; [split; assumption|]. split; [exact Hfin|].
    intros Hc. pose proof (apply_style_clean _ _ _ _ _ Hap Hc) as Hc'.
    unfold clean_top in Hc'. rewrite Es in Hc'.
    apply (block_eq_lines tp sub h s4 s5 ols); [split; assumption|exact Hc'|exact Hols].
  Qed.

  (* ---- dd: no start_block / end_block; the prefix is two spaces ---- *)
  Theorem c07_dd cs sty st0 st' :
    render_node d mw (RN (IDd cs) sty) st0 = Ok st' ->
    let p2 := ptext [32; 32] in
    exists st ps tp rest mn sub lk' ols s5,
      apply_style d st0 sty = Ok (st, ps) /\ stack st = tp :: rest /\
      nested (rkids d mw cs) tp (links st) 2 mn sub lk' ols /\
      append_subrender tp sub p2 p2 = Ok s5 /\
      unwind d ps (mkrst (s5 :: rest) lk') = Ok st' /\
      (clean_top st0 ->
       out_lines s5 = (do l <- out_lines tp; Ok (l ++ map (app p2) (strs ols)))).
  Proof.
    intros H p2. cbn [render_node rn_info rn_style] in H.
    bind_inv H sz Hsz. bind_inv H ap Hap. destruct ap as [st ps].
    bind_inv H iw Hiw.
    destruct (stack st) as [|tp rest] eqn:Es; [unfold top in H; rewrite Es in H; discriminate|].
    destruct (scope_inv (rkids d mw cs) (framed_kids d mw cs) st tp rest _ _ _ _ Es H)
      as (w & sub & lk' & Hw & Hbody & Hk).
    bind_inv Hk st4 H4. destruct (with_top_mk _ _ _ _ _ H4) as (s5 & E5 & ->).
    assert (Hols : exists ols, sub_into_lines sub = Ok ols).
    { unfold append_subrender in E5. bind_inv E5 x Hx. bind_inv E5 ols Ho. eauto. }
    destruct Hols as [ols Hols].
    exists st, ps, tp, rest, iw, sub, lk', ols, s5.
    split; [exact Hap|]. split; [exact Es|]. split; [exists w; auto|].
    split; [exact E5|]. split; [exact Hk|].
    intros Hc. pose proof (apply_style_clean _ _ _ _ _ Hap Hc) as Hc'.
    unfold clean_top in Hc'. rewrite Es in Hc'.
    destruct (append_subrender_spec _ _ _ _ _ E5 Hc') as (ols' & E1 & E2 & _).
    assert (ols' = ols) by congruence. subst ols'. rewrite E2, prefixed_same. reflexivity.
  Qed.

  (* ---- lists: every item in its own fresh sub-renderer, appended with its marker ---- *)

  (* the items rendered one after the other, each in a fresh sub-renderer made from tp that is
     p columns narrower; the links are threaded through; Ls = the lines of each item *)
  Fixpoint items_rendered (items : list rnode) (tp : subr) (p : N) (lk lk' : list text)
           (Ls : list (list rline)) {struct items} : Prop :=
    match items, Ls with
    | [], [] => lk' = lk
    | it :: items', ols :: Ls' =>
      exists mn sub lk1, nested (render_node d mw it) tp lk p mn sub lk1 ols /\
                         items_rendered items' tp p lk1 lk' Ls'
    | _, _ => False
    end.

  (* item number k (0-based) has marker `first (num k)` on its first line and `rest` on the
     later ones *)
  Fixpoint items_lines (first : Z -> text) (rest : text) (num : nat -> Z) (k : nat)
           (Ls : list (list rline)) : list text :=
    match Ls with
    | [] => []
    | ols :: Ls' => prefixed (first (num k)) rest (strs ols) ++ items_lines first rest num (S k) Ls'
    end.

  Section Items.
    Variables (A : Type) (stf : A -> rstate) (idx : A -> Z) (stepf : rnode -> A -> res A).
    Variables (p : N) (first : Z -> text) (rest_ : text) (nxt : Z -> Z) (num : nat -> Z).
    Hypothesis num_S : forall k, num (S k) = nxt (num k).
    Hypothesis step_ok : forall it a a' tp rest,
      stepf it a = Ok a' -> stack (stf a) = tp :: rest ->
      exists mn sub lk1 ols s1,
        nested (render_node d mw it) tp (links (stf a)) p mn sub lk1 ols /\
        append_subrender tp sub (first (idx a)) rest_ = Ok s1 /\
        stf a' = mkrst (s1 :: rest) lk1 /\ idx a' = nxt (idx a).

    Lemma items_fold : forall items a a' tp0 tp rest k,
      fold_left (fun acc it => do s <- acc; stepf it s) items (Ok a) = Ok a' ->
      stack (stf a) = tp :: rest -> same_ctx tp0 tp -> ptxt tp = [] -> idx a = num k ->
      exists Ls s' lk',
        stf a' = mkrst (s' :: rest) lk' /\
        items_rendered items tp0 p (links (stf a)) lk' Ls /\
        out_lines s' = (do l <- out_lines tp; Ok (l ++ items_lines first rest_ num k Ls)) /\
        ptxt s' = [] /\ same_ctx tp0 s'.
    Proof.
      induction items as [|it items IH]; intros a a' tp0 tp rest k H Es Hctx Hp Hk.
      - cbn [fold_left] in H. ok_inv H. exists [], tp, (links (stf a')).
        split; [destruct (stf a') as [stk lks]; cbn [stack links] in *; congruence|].
        split; [reflexivity|]. split; [|auto].
        cbn [items_lines]. destruct (out_lines tp); cbn [bind]; try reflexivity.
        rewrite app_nil_r. reflexivity.
      - apply fold_bind_cons in H. destruct H as (a1 & Hstep & H).
        destruct (step_ok _ _ _ _ _ Hstep Es) as (mn & sub & lk1 & ols & s1 & Hn & Happ & E1 & Ei).
        destruct (append_subrender_spec _ _ _ _ _ Happ Hp) as (ols' & O1 & O2 & O3 & O4 & O5).
        assert (ols' = ols) by (destruct Hn as (? & _ & _ & ?); congruence). subst ols'.
        destruct (IH a1 a' tp0 s1 rest (S k) H) as (Ls & s' & lk' & F1 & F2 & F3 & F4 & F5).
        { rewrite E1. reflexivity. }
        { eapply same_ctx_trans; eassumption. }
        { exact O4. }
        { rewrite Ei, Hk, num_S. reflexivity. }
        exists (ols :: Ls), s', lk'. split; [exact F1|]. split.
        { cbn [items_rendered]. exists mn, sub, lk1. split.
          - exact (nested_ctx _ tp0 tp _ _ _ _ _ _ Hctx Hn).
          - rewrite E1 in F2. exact F2. }
        split; [|auto]. rewrite F3, O2, out_lines_app3. cbn [items_lines]. rewrite Hk. reflexivity.
    Qed.
  End Items.

  Lemma items_lines_const b r num : forall Ls k,
    items_lines (fun _ => b) r num k Ls = flat_map (fun ols => prefixed b r (strs ols)) Ls.
  Proof.
    induction Ls as [|ols Ls IH]; intros k; cbn [items_lines flat_map]; [reflexivity|].
    rewrite IH. reflexivity.
  Qed.

  Lemma items_rendered_length : forall items tp p lk lk' Ls,
    items_rendered items tp p lk lk' Ls -> length Ls = length items.
  Proof.
    induction items as [|it items IH]; intros tp p lk lk' [|ols Ls] H; cbn [items_rendered] in H;
      try contradiction; [reflexivity|].
    destruct H as (mn & sub & lk1 & _ & H). cbn [length]. f_equal. eapply IH, H.
  Qed.

  (* ---- unordered list ---- *)
  Theorem c07_ul items sty st0 st' :
    render_node d mw (RN (IUl items) sty) st0 = Ok st' -> clean_top st0 ->
    let bullet := d_ul_prefix d in
    let indent := repeat_chr (spacel L_prefix) (N.to_nat (swidth bullet)) in
    exists st ps tp rest s' lk' Ls,
      apply_style d st0 sty = Ok (st, ps) /\ stack st = tp :: rest /\
      items_rendered items tp (swidth bullet) (links st) lk' Ls /\
      out_lines s' = (do l <- out_lines tp;
                      Ok (l ++ flat_map (fun ols => prefixed bullet indent (strs ols)) Ls)) /\
      unwind d ps (mkrst (s' :: rest) lk') = Ok st' /\
      swidth indent = swidth bullet.
  Proof.
    intros H Hc bullet indent. cbn [render_node rn_info rn_style] in H.
    bind_inv H sz Hsz. bind_inv H ap Hap. destruct ap as [st ps]. bind_inv H st1 Hfold.
    pose proof (apply_style_clean _ _ _ _ _ Hap Hc) as Hc'. unfold clean_top in Hc'.
    destruct (stack st) as [|tp rest] eqn:Es; [contradiction|].
    destruct (items_fold rstate (fun x => x) (fun _ => 0%Z)
                (fun item s =>
                   do inner_width <- usub 22 (e_min sz) (swidth (d_ul_prefix d));
                   do tp <- top s;
                   do w <- width_minus tp (swidth (d_ul_prefix d)) inner_width;
                   do s2 <- render_node d mw item (push_sub s (new_sub_renderer tp w));
                   do pp <- pop_sub s2;
                   let '(sub, s3) := pp in
                   with_top s3 (fun t => append_subrender t sub (d_ul_prefix d)
                      (repeat_chr (spacel L_prefix) (N.to_nat (swidth (d_ul_prefix d))))))
                (swidth bullet) (fun _ => bullet) indent (fun i => i) (fun _ => 0%Z)
                (fun _ => eq_refl)) with (items := items) (a := st) (a' := st1) (tp0 := tp) (tp := tp)
                                         (rest := rest) (k := 0%nat)
      as (Ls & s' & lk' & F1 & F2 & F3 & F4 & F5);
      [|exact Hfold|exact Es|apply same_ctx_refl|exact Hc'|reflexivity|].
    { intros it a a' tp1 rest1 Hstep Ea. bind_inv Hstep iw Hiw.
      destruct (scope_inv (render_node d mw it) (framed_node d mw it) a tp1 rest1 _ _ _ _ Ea Hstep)
        as (w & sub & lk1 & Hw & Hbody & Hk).
      destruct (with_top_mk _ _ _ _ _ Hk) as (s1 & E1 & ->).
      assert (Hols : exists ols, sub_into_lines sub = Ok ols).
      { unfold append_subrender in E1. bind_inv E1 x Hx. bind_inv E1 ols Ho. eauto. }
      destruct Hols as [ols Hols].
      exists iw, sub, lk1, ols, s1. split; [exists w; auto|]. auto. }
    exists st, ps, tp, rest, s', lk', Ls. subst st1.
    split; [exact Hap|]. split; [exact Es|]. split; [exact F2|].
    split; [rewrite F3, items_lines_const; reflexivity|]. split; [exact H|].
    unfold indent. rewrite swidth_repeat_w1 by reflexivity. lia.
  Qed.

  (* ---- ordered list ---- *)
  (* the number of item k (0-based): start, then +1 per item, saturating at the i64 bounds
     exactly as the model's loop does *)
  Fixpoint ol_num (start : Z) (k : nat) : Z :=
    match k with O => start | S k' => isat64 (ol_num start k' + 1) end.

  Lemma ol_num_consecutive start k :
    (i64_min <= start)%Z -> (start + Z.of_nat k <= i64_max)%Z ->
    ol_num start k = (start + Z.of_nat k)%Z.
  Proof.
    intros Hmin. induction k as [|k IH]; intros Hmax; cbn [ol_num]; [lia|].
    unfold i64_min, i64_max in *. rewrite IH by lia. unfold isat64, i64_min, i64_max. lia.
  Qed.

  Lemma ol_num_idx start k : (i64_min <= start)%Z -> ol_num start k = ol_idx start k.
  Proof.
    intros Hmin. induction k as [|k IH]; [reflexivity|].
    cbn [ol_num]. rewrite IH. apply ol_idx_succ, Hmin.
  Qed.

  Definition ol_marker (pw : N) (i : Z) : text := pad_width (d_ol_prefix d i) pw.
  Definition ol_indent (pw : N) : text := pad_chars [] pw.

  Lemma ol_indent_eq pw : ol_indent pw = repeat_chr (spacel L_prefix) (N.to_nat pw).
  Proof. unfold ol_indent, pad_chars. cbn [length app]. rewrite Nat.sub_0_r. reflexivity. Qed.

  Lemma ol_indent_width pw : swidth (ol_indent pw) = pw.
  Proof. rewrite ol_indent_eq, swidth_repeat_w1 by reflexivity. lia. Qed.

  (* all markers of a list have the common width pw, for decorators whose ordered prefix does
     not get narrower between two numbers (RenderWidth.ol_prefix_monotone / _sat, proved there
     for the built-in decorators) *)
  Lemma ol_marker_width start n pw k :
    ol_prefix_monotone d -> ol_prefix_sat d -> (i64_min <= start)%Z ->
    ol_prefix_size d start n = Ok pw -> (k < n)%nat ->
    swidth (ol_marker pw (ol_num start k)) = pw.
  Proof.
    intros Hd Hsat Hmin Hpw Hk. unfold ol_prefix_size in Hpw. ok_inv Hpw.
    unfold ol_marker. rewrite swidth_pad_width, (ol_num_idx _ _ Hmin).
    set (mn := isat64 (isat64 (start + Z.of_nat n) - 1)).
    pose proof (Hd start (ol_idx start k) mn) as Hm. unfold ol_prefix_sat in Hsat.
    assert (Hcases : ol_idx start k = start \/ (start <= ol_idx start k <= mn)%Z \/
                     (ol_idx start k = i64_max /\ mn = (i64_max - 1)%Z)).
    { unfold ol_idx, mn, isat64, i64_min, i64_max in *. destruct k; lia. }
    destruct Hcases as [E|[E|[E1 E2]]].
    - rewrite E. lia.
    - specialize (Hm E). lia.
    - rewrite E1, E2. lia.
  Qed.

  Theorem c07_ol start items sty st0 st' :
    render_node d mw (RN (IOl start items) sty) st0 = Ok st' -> clean_top st0 ->
    exists pw st ps tp rest s' lk' Ls,
      ol_prefix_size d start (length items) = Ok pw /\
      apply_style d st0 sty = Ok (st, ps) /\ stack st = tp :: rest /\
      items_rendered items tp pw (links st) lk' Ls /\
      out_lines s' = (do l <- out_lines tp;
                      Ok (l ++ items_lines (ol_marker pw) (ol_indent pw) (ol_num start) 0 Ls)) /\
      unwind d ps (mkrst (s' :: rest) lk') = Ok st'.
  Proof.
    intros H Hc. cbn [render_node rn_info rn_style] in H.
    bind_inv H sz Hsz. bind_inv H ap Hap. destruct ap as [st ps]. bind_inv H r Hfold.
    pose proof (apply_style_clean _ _ _ _ _ Hap Hc) as Hc'. unfold clean_top in Hc'.
    destruct (stack st) as [|tp rest] eqn:Es; [contradiction|].
    set (pw := N.max (swidth (d_ol_prefix d start))
                     (swidth (d_ol_prefix d (isat64 (isat64 (start + Z.of_nat (length items)) - 1))))) in *.
    assert (Hfold' : fold_left (fun acc item => do si <- acc; ol_step d mw sz pw item si) items
                               (Ok (st, start)) = Ok r) by exact Hfold.
    destruct (items_fold (rstate * Z) fst snd (ol_step d mw sz pw)
                pw (ol_marker pw) (ol_indent pw) (fun i => isat64 (i + 1)) (ol_num start)
                (fun _ => eq_refl)) with (items := items) (a := (st, start)) (a' := r) (tp0 := tp)
                                         (tp := tp) (rest := rest) (k := 0%nat)
      as (Ls & s' & lk' & F1 & F2 & F3 & F4 & F5);
      [|exact Hfold'|exact Es|apply same_ctx_refl|exact Hc'|reflexivity|].
    { intros it [a ia] a' tp1 rest1 Hstep Ea. cbn [fst snd] in *. unfold ol_step in Hstep.
      bind_inv Hstep iw Hiw.
      destruct (scope_inv (render_node d mw it) (framed_node d mw it) a tp1 rest1 _ _ _ _ Ea Hstep)
        as (w & sub & lk1 & Hw & Hbody & Hk).
      bind_inv Hk s4 H4. ok_inv Hk.
      destruct (with_top_mk _ _ _ _ _ H4) as (s1 & E1 & ->).
      assert (Hols : exists ols, sub_into_lines sub = Ok ols).
      { unfold append_subrender in E1. bind_inv E1 x Hx. bind_inv E1 ols Ho. eauto. }
      destruct Hols as [ols Hols].
      exists iw, sub, lk1, ols, s1. cbn [fst snd]. split; [exists w; auto|]. auto. }
    exists pw, st, ps, tp, rest, s', lk', Ls. cbn [fst snd] in *.
    split; [reflexivity|]. split; [exact Hap|]. split; [exact Es|]. split; [exact F2|].
    split; [exact F3|]. rewrite F1 in H. exact H.
  Qed.
End PartA.

(* ================================================================== *)
(* 5. C15: a maximum wrap width >= the width changes nothing            *)
(* ================================================================== *)

(* the same sub-renderer with other options *)
Definition reopt (s : subr) (o : ropts) : subr :=
  mksub (swidth_ s) o (slines s) (pending_frags s) (at_block_end s) (wrapping s) (ann_stack s)
        (filter_depth s) (pre_depth s) (ws_stack s).

Definition with_max_wrap (o : ropts) (m : N) : ropts :=
  mkopts (Some m) (o_allow_overflow o) (o_pad o) (o_raw o) (o_borders o) (o_wrap_links o)
         (o_footnotes o) (o_strike o).

Ltac rprj :=
  cbn [reopt with_max_wrap swidth_ sopts slines pending_frags at_block_end wrapping ann_stack
       filter_depth pre_depth ws_stack set_lines set_abe set_wrapping set_ann set_filter
       set_pre_depth set_ws_stack wrap_width o_allow_overflow o_pad o_raw o_borders o_wrap_links
       o_footnotes o_strike] in *.

Lemma add_line_reopt s o l : add_line (reopt s o) l = reopt (add_line s l) o.
Proof. unfold add_line. rprj. destruct (pending_frags s), l; reflexivity. Qed.

Lemma extend_lines_reopt o ls : forall s, extend_lines (reopt s o) ls = reopt (extend_lines s ls) o.
Proof.
  unfold extend_lines. induction ls as [|l ls IH]; intros s; cbn [fold_left]; [reflexivity|].
  rewrite add_line_reopt. apply IH.
Qed.

Lemma extend_lines_same ls : forall s,
  swidth_ (extend_lines s ls) = swidth_ s /\ sopts (extend_lines s ls) = sopts s.
Proof.
  unfold extend_lines. induction ls as [|l ls IH]; intros s; cbn [fold_left]; [auto|].
  destruct (IH (add_line s l)) as [A B]. destruct (add_line_same s l) as (a & b & _).
  split; congruence.
Qed.

Section PartB.
  Variables (d : deco) (o1 : ropts) (m : N).
  Hypothesis Hww : wrap_width o1 = None.
  Hypothesis Hov : o_allow_overflow o1 = false.
  Let o2 := with_max_wrap o1 m.

  Definition good (s : subr) : Prop := sopts s = o1 /\ swidth_ s <= m.
  (* run 1 has options o1, run 2 has o2 = o1 + max wrap width m; nothing else differs, and
     no sub-renderer is wider than m *)
  Definition R2 (a b : subr) : Prop := good a /\ b = reopt a o2.

  Lemma good_same s s' : swidth_ s' = swidth_ s -> sopts s' = sopts s -> good s -> good s'.
  Proof. unfold good. intros -> ->. auto. Qed.

  (* a field setter *)
  Lemma R2_pure g :
    (forall s o, g (reopt s o) = reopt (g s) o) ->
    (forall s, swidth_ (g s) = swidth_ s /\ sopts (g s) = sopts s) -> pureR R2 g.
  Proof.
    intros H1 H2 x y [Hg ->]. split; [|apply H1].
    destruct (H2 x). eapply good_same; eassumption.
  Qed.

  Lemma R2_pure_op g : pureR R2 g -> opR R2 (fun s => Ok (g s)).
  Proof. intros H x y Hxy. cbn [res_rel]. apply H, Hxy. Qed.

  Lemma R2_bind f g : opR R2 f -> opR R2 g -> opR R2 (fun s => do x <- f s; g x).
  Proof. intros Hf Hg x y Hxy. eapply res_rel_bind; [apply Hf, Hxy|]. intros. apply Hg. assumption. Qed.

  Lemma R2_flush : opR R2 flush_wrapping.
  Proof.
    intros x y [Hg ->]. unfold flush_wrapping. rprj. destruct (wrapping x) as [w|].
    - destruct (take_trailing_fragments w) as [w1 frags].
      destruct (wb_into_lines_markers w1) as [[ls mk]| | |]; cbn [bind res_rel fst snd]; auto.
      change (set_wrapping (reopt x o2) None) with (reopt (set_wrapping x None) o2).
      rewrite extend_lines_reopt. rprj. split; [|reflexivity].
      destruct (extend_lines_same (map RText ls) (set_wrapping x None)) as [A B].
      eapply good_same; [| |exact Hg]; rprj; assumption.
    - cbn [res_rel]. split; [exact Hg|reflexivity].
  Qed.

  Lemma R2_add_line l : pureR R2 (fun s => add_line s l).
  Proof.
    apply R2_pure; [intros; apply add_line_reopt|].
    intros s. destruct (add_line_same s l) as (a & b & _). auto.
  Qed.

  Lemma R2_set_abe b : pureR R2 (fun s => set_abe s b).
  Proof. apply R2_pure; intros; [reflexivity|rprj; auto]. Qed.

  Lemma R2_add_empty_line : opR R2 add_empty_line.
  Proof.
    unfold add_empty_line. apply R2_bind; [apply R2_flush|]. apply R2_pure_op.
    intros x y H. apply (R2_set_abe false), (R2_add_line (RText tl_new)), H.
  Qed.

  Lemma R2_slines x y : R2 x y -> slines y = slines x /\ wrapping y = wrapping x /\
    at_block_end y = at_block_end x /\ ann_stack y = ann_stack x /\
    filter_depth y = filter_depth x /\ pre_depth y = pre_depth x /\ ws_stack y = ws_stack x /\
    swidth_ y = swidth_ x /\ pending_frags y = pending_frags x.
  Proof. intros [_ ->]. rprj. auto 10. Qed.

  Lemma R2_start_block : opR R2 start_block.
  Proof.
    intros x y Hxy. unfold start_block.
    eapply res_rel_bind; [apply R2_flush, Hxy|]. intros x1 y1 H1.
    destruct (R2_slines _ _ H1) as (E & _). rewrite E.
    eapply res_rel_bind with (P := R2).
    { destruct (existsb rline_has_content (slines x1)); [apply R2_add_empty_line, H1|exact H1]. }
    intros x2 y2 H2. cbn [res_rel]. apply (R2_set_abe false), H2.
  Qed.

  Lemma R2_new_line_hard : opR R2 new_line_hard.
  Proof.
    intros x y Hxy. unfold new_line_hard. destruct (R2_slines _ _ Hxy) as (_ & E & _). rewrite E.
    destruct (wrapping x) as [w|]; [|apply R2_add_empty_line, Hxy].
    destruct ((wordlen w =? 0) && (tlen_ (wline w) =? 0));
      [apply R2_add_empty_line, Hxy|apply R2_flush, Hxy].
  Qed.

  Lemma R2_hline b t : opR R2 (fun s => add_horizontal_line s b t).
  Proof.
    unfold add_horizontal_line. apply R2_bind; [apply R2_flush|]. apply R2_pure_op, R2_add_line.
  Qed.

  Lemma R2_hborder w : opR R2 (fun s => add_horizontal_border_width s w).
  Proof.
    intros x y Hxy. unfold add_horizontal_border_width.
    eapply res_rel_bind; [apply R2_flush, Hxy|]. intros x1 y1 H1.
    destruct (R2_slines _ _ H1) as (_ & _ & _ & E & _). rewrite E. cbn [res_rel].
    apply R2_add_line, H1.
  Qed.

  Lemma R2_get_wrapping x y : R2 x y -> get_wrapping y = get_wrapping x.
  Proof.
    intros [[Ho Hw] ->]. unfold get_wrapping. rprj. destruct (wrapping x); [reflexivity|].
    rewrite Ho, Hww. unfold o2. rprj. f_equal. lia.
  Qed.

  Lemma R2_set_wrapping w : pureR R2 (fun s => set_wrapping s w).
  Proof. apply R2_pure; intros; [reflexivity|rprj; auto]. Qed.

  Lemma R2_inline t : opR R2 (fun s => add_inline_text d s t).
  Proof.
    intros x y Hxy. unfold add_inline_text. unfold ws_mode.
    destruct (R2_slines _ _ Hxy) as (_ & _ & E1 & _ & _ & _ & E2 & _). rewrite E1, E2.
    destruct (negb (preserve_ws match ws_stack x with m0 :: _ => m0 | [] => WsNormal end)
              && at_block_end x && all_ws t); [exact Hxy|].
    eapply res_rel_bind with (P := R2).
    { destruct (at_block_end x); [apply R2_start_block, Hxy|exact Hxy]. }
    intros x1 y1 H1. rewrite (R2_get_wrapping _ _ H1).
    destruct (R2_slines _ _ H1) as (_ & _ & _ & F1 & F2 & F3 & F4 & _). rewrite F1, F2, F3, F4.
    match goal with |- res_rel _ (bind ?e _) (bind ?e _) => destruct e as [w1| | |]; cbn [bind res_rel]; auto end.
    apply R2_set_wrapping, H1.
  Qed.

  Lemma R2_push_ann a : pureR R2 (fun s => push_ann s a).
  Proof. apply R2_pure; intros; [reflexivity|unfold push_ann; rprj; auto]. Qed.
  Lemma R2_pop_ann : pureR R2 pop_ann.
  Proof. apply R2_pure; intros; [reflexivity|unfold pop_ann; rprj; auto]. Qed.

  Lemma R2_start_deco p : opR R2 (fun s => start_deco d s p).
  Proof. intros x y Hxy. unfold start_deco. apply R2_inline, R2_push_ann, Hxy. Qed.
  Lemma R2_end_deco e : opR R2 (fun s => end_deco d s e).
  Proof.
    unfold end_deco. apply R2_bind; [apply R2_inline|apply R2_pure_op, R2_pop_ann].
  Qed.

  Lemma R2_set_filter n : pureR R2 (fun s => set_filter s n).
  Proof. apply R2_pure; intros; [reflexivity|rprj; auto]. Qed.

  Lemma R2_opts x y : R2 x y ->
    o_strike (sopts y) = o_strike (sopts x) /\ o_footnotes (sopts y) = o_footnotes (sopts x) /\
    o_raw (sopts y) = o_raw (sopts x) /\ o_borders (sopts y) = o_borders (sopts x) /\
    o_allow_overflow (sopts y) = o_allow_overflow (sopts x) /\
    o_wrap_links (sopts y) = o_wrap_links (sopts x).
  Proof. intros [[Ho _] ->]. rprj. rewrite Ho. unfold o2. rprj. auto 10. Qed.

  Lemma R2_start_strikeout : opR R2 (start_strikeout d).
  Proof.
    intros x y Hxy. unfold start_strikeout.
    eapply res_rel_bind; [apply R2_start_deco, Hxy|]. intros x1 y1 H1. cbn [res_rel].
    destruct (R2_opts _ _ H1) as (E & _). destruct (R2_slines _ _ H1) as (_ & _ & _ & _ & F & _).
    rewrite E, F. destruct (o_strike (sopts x1)); [apply R2_set_filter, H1|exact H1].
  Qed.

  Lemma R2_end_strikeout : opR R2 (end_strikeout d).
  Proof.
    intros x y Hxy. unfold end_strikeout.
    destruct (R2_opts _ _ Hxy) as (E & _). destruct (R2_slines _ _ Hxy) as (_ & _ & _ & _ & F & _).
    rewrite E, F.
    eapply res_rel_bind with (P := R2); [|intros; apply R2_end_deco; assumption].
    destruct (o_strike (sopts x)); [|exact Hxy].
    destruct (filter_depth x); [reflexivity|]. cbn [res_rel]. apply R2_set_filter, Hxy.
  Qed.

  Lemma R2_image src t : opR R2 (fun s => add_image d s src t).
  Proof.
    intros x y Hxy. unfold add_image.
    eapply res_rel_bind; [apply R2_inline, R2_push_ann, Hxy|]. intros x1 y1 H1.
    cbn [res_rel]. apply R2_pop_ann, H1.
  Qed.

  Lemma R2_frag n : pureR R2 (fun s => record_frag_start s n).
  Proof.
    intros x y Hxy. unfold record_frag_start. rewrite (R2_get_wrapping _ _ Hxy).
    apply R2_set_wrapping, Hxy.
  Qed.

  Lemma R2_sub_into_lines x y : R2 x y -> sub_into_lines y = sub_into_lines x.
  Proof.
    intros Hxy. unfold sub_into_lines. pose proof (R2_flush _ _ Hxy) as H.
    destruct (flush_wrapping x), (flush_wrapping y); cbn [res_rel bind] in *; try contradiction;
      try congruence.
    destruct (R2_slines _ _ H) as (E & _). rewrite E. reflexivity.
  Qed.

  Lemma R2_append x y u v f r :
    R2 x y -> R2 u v -> res_rel R2 (append_subrender x u f r) (append_subrender y v f r).
  Proof.
    intros Hxy Huv. unfold append_subrender.
    eapply res_rel_bind; [apply R2_flush, Hxy|]. intros x1 y1 H1.
    rewrite (R2_sub_into_lines _ _ Huv).
    destruct (sub_into_lines u) as [ols| | |]; cbn [bind res_rel]; auto.
    destruct (R2_slines _ _ H1) as (_ & _ & _ & E & _). rewrite E.
    destruct H1 as [Hg ->]. rewrite extend_lines_reopt. split; [|reflexivity].
    destruct (extend_lines_same (attach_prefixes (ann_stack x1) f r ols) x1) as [A B].
    eapply good_same; eassumption.
  Qed.

  Lemma R2_width_minus x y p mn : R2 x y -> width_minus x p mn = width_minus y p mn.
  Proof.
    intros Hxy. unfold width_minus. destruct (R2_opts _ _ Hxy) as (_ & _ & _ & _ & E & _).
    destruct (R2_slines _ _ Hxy) as (_ & _ & _ & _ & _ & _ & _ & F & _). rewrite E, F. reflexivity.
  Qed.

  Lemma R2_new x y w : R2 x y -> w <= m -> R2 (new_sub_renderer x w) (new_sub_renderer y w).
  Proof.
    intros [[Ho Hw] ->] Hm. split; [|reflexivity]. split; [exact Ho|exact Hm].
  Qed.

  Lemma R2_new_wm x y p mn w :
    R2 x y -> width_minus x p mn = Ok w -> R2 (new_sub_renderer x w) (new_sub_renderer y w).
  Proof.
    intros Hxy Hwm. apply R2_new; [exact Hxy|].
    destruct Hxy as [[Ho Hw] _]. destruct (width_minus_spec _ _ _ _ Hwm) as [_ H].
    rewrite Ho in H. specialize (H Hov). lia.
  Qed.

  Lemma R2_sub_empty u v : R2 u v -> sub_empty u = sub_empty v.
  Proof.
    intros Huv. unfold sub_empty. destruct (R2_slines _ _ Huv) as (E1 & E2 & _).
    rewrite E1, E2. reflexivity.
  Qed.

  (* ---- append_vert_row ---- *)
  Lemma R2_vert_cols : forall us vs x y first,
    R2 x y -> Forall2 R2 us vs -> res_rel R2 (vert_cols x us first) (vert_cols y vs first).
  Proof.
    induction us as [|u us IH]; intros vs x y first Hxy Huv; inversion Huv as [|? v ? vs' Huv1 Huv2];
      subst; cbn [vert_cols]; [exact Hxy|].
    destruct (R2_opts _ _ Hxy) as (_ & _ & _ & Eb & _).
    destruct (R2_slines _ _ Hxy) as (_ & _ & _ & Ea & _ & _ & _ & Ew & _).
    rewrite Eb, Ea, Ew.
    eapply res_rel_bind with (P := R2).
    { destruct (negb first && o_borders (sopts x)); [apply R2_hline, Hxy|exact Hxy]. }
    intros x1 y1 H1.
    eapply res_rel_bind; [apply R2_append; eassumption|]. intros x2 y2 H2. apply IH; assumption.
  Qed.

  Lemma R2_vert x y us vs :
    R2 x y -> Forall2 R2 us vs -> res_rel R2 (append_vert_row x us) (append_vert_row y vs).
  Proof.
    intros Hxy Huv. unfold append_vert_row.
    eapply res_rel_bind; [apply R2_flush, Hxy|]. intros x1 y1 H1.
    eapply res_rel_bind; [apply R2_vert_cols; eassumption|]. intros x2 y2 H2.
    destruct (R2_opts _ _ H2) as (_ & _ & _ & Eb & _). rewrite Eb.
    destruct (o_borders (sopts x2)); [|exact H2].
    unfold add_horizontal_border.
    destruct (R2_slines _ _ H2) as (_ & _ & _ & _ & _ & _ & _ & Ew & _). rewrite Ew.
    apply R2_hborder, H2.
  Qed.

  (* ---- append_columns_with_borders ---- *)
  Lemma R2_col_line_sets t : forall us vs,
    Forall2 R2 us vs -> col_line_sets t us = col_line_sets t vs.
  Proof.
    induction us as [|u us IH]; intros vs Huv; inversion Huv as [|? v ? vs' Huv1 Huv2]; subst;
      cbn [col_line_sets]; [reflexivity|].
    rewrite (R2_sub_into_lines _ _ Huv1), (IH _ Huv2).
    destruct (R2_slines _ _ Huv1) as (_ & _ & _ & _ & _ & _ & _ & Ew & _). rewrite Ew. reflexivity.
  Qed.

  Lemma row_lines_reopt t draw sets pads o : forall n i s,
    row_lines t draw n i sets pads (reopt s o) = reopt (row_lines t draw n i sets pads s) o.
  Proof.
    induction n as [|n IH]; intros i s; cbn [row_lines]; [reflexivity|].
    rewrite add_line_reopt. apply IH.
  Qed.

  Lemma row_lines_same t draw sets pads : forall n i s,
    swidth_ (row_lines t draw n i sets pads s) = swidth_ s /\
    sopts (row_lines t draw n i sets pads s) = sopts s.
  Proof.
    induction n as [|n IH]; intros i s; cbn [row_lines]; [auto|].
    destruct (IH (S i) (add_line s (RText (row_line t draw i sets pads tl_new)))) as [A B].
    destruct (add_line_same s (RText (row_line t draw i sets pads tl_new))) as (a & b & _).
    split; congruence.
  Qed.

  Lemma R2_cols x y us vs collapse :
    R2 x y -> Forall2 R2 us vs ->
    res_rel R2 (append_columns_with_borders x us collapse) (append_columns_with_borders y vs collapse).
  Proof.
    intros Hxy Huv. unfold append_columns_with_borders.
    eapply res_rel_bind; [apply R2_flush, Hxy|]. intros x1 y1 H1.
    destruct (R2_slines _ _ H1) as (El & _ & _ & Ea & _ & _ & _ & _ & Ep).
    rewrite Ea, El, Ep, <- (R2_col_line_sets (ann_stack x1) us vs Huv).
    destruct (col_line_sets (ann_stack x1) us) as [sets| | |]; cbn [bind res_rel]; auto.
    destruct (match sets with [] => Panic 36 | _ :: _ => Ok tt end) as [[]| | |];
      cbn [bind res_rel]; auto.
    match goal with
    | |- res_rel _ (let '(p1, n1) := ?e in _) _ => destruct e as [prev1 next1]
    end.
    match goal with
    | |- res_rel _ (bind ?e _) (bind ?e _) =>
      destruct e as [[[[prev3 next3] sets4] pads]| | |]; cbn [bind res_rel]; auto
    end.
    destruct H1 as [Hg ->]. rprj.
    set (lines1 := match olast (slines x1) with
                   | Some (RLine _ pt) =>
                     match prev3 with
                     | Some pb => replace_last (slines x1) (RLine pb pt)
                     | None => slines x1
                     end
                   | _ => slines x1
                   end).
    change (set_lines (reopt x1 o2) lines1 (pending_frags x1))
      with (reopt (set_lines x1 lines1 (pending_frags x1)) o2).
    rewrite row_lines_reopt. rprj.
    destruct Hg as [Ho Hw]. rewrite Ho. unfold o2 at 1 3. rprj.
    set (s3 := row_lines _ _ _ _ _ _ _).
    assert (Hg3 : good s3).
    { subst s3.
      match goal with
      | |- good (row_lines ?t ?dr ?n ?i ?sets ?pads ?s) =>
        destruct (row_lines_same t dr sets pads n i s) as [A B]
      end.
      split; [rewrite B; exact Ho|rewrite A; exact Hw]. }
    destruct (o_borders o1).
    - rewrite add_line_reopt. split; [|reflexivity].
      destruct (add_line_same s3 (RLine next3 (ann_stack x1))) as (a & b & _).
      eapply good_same; eassumption.
    - split; [exact Hg3|reflexivity].
  Qed.

  Lemma R2_ops : SimOps d R2.
  Proof.
    constructor.
    - intros r g b. apply R2_pure; intros; unfold push_colour; destruct (d_colours d);
        try reflexivity; unfold push_ann; rprj; auto.
    - intros r g b. apply R2_pure; intros; unfold push_bgcolour; destruct (d_colours d);
        try reflexivity; unfold push_ann; rprj; auto.
    - intros mo. apply R2_pure; intros; [reflexivity|unfold push_ws_mode; rprj; auto].
    - apply R2_pure; intros; [reflexivity|unfold push_preformat; rprj; auto].
    - apply R2_pure; intros; unfold pop_colour; destruct (d_colours d);
        try reflexivity; unfold pop_ann; rprj; auto.
    - apply R2_pure; intros; [reflexivity|unfold pop_ws_mode; rprj; auto].
    - intros x y Hxy. unfold pop_preformat.
      destruct (R2_slines _ _ Hxy) as (_ & _ & _ & _ & _ & E & _). rewrite E.
      destruct (0 <? pre_depth x); [|reflexivity]. cbn [res_rel].
      revert x y Hxy E. intros x y Hxy E.
      assert (P : pureR R2 (fun s => set_pre_depth s (pre_depth x - 1)))
        by (apply R2_pure; intros; [reflexivity|rprj; auto]).
      apply P, Hxy.
    - apply R2_inline.
    - intros h. apply R2_start_deco.
    - apply (R2_end_deco (d_link_end d)).
    - intros x y Hxy. destruct (R2_opts _ _ Hxy) as (_ & E & _). auto.
    - apply (R2_start_deco (d_em_start d)).
    - apply (R2_end_deco (d_em_end d)).
    - apply (R2_start_deco (d_strong_start d)).
    - apply (R2_end_deco (d_strong_end d)).
    - apply R2_start_strikeout.
    - apply R2_end_strikeout.
    - apply (R2_start_deco (d_code_start d)).
    - apply (R2_end_deco (d_code_end d)).
    - apply (R2_start_deco (d_sup_start d)).
    - apply (R2_end_deco (d_sup_end d)).
    - apply R2_image.
    - apply R2_start_block.
    - apply (R2_set_abe true).
    - apply R2_flush.
    - apply R2_new_line_hard.
    - apply R2_frag.
    - intros; apply R2_width_minus; assumption.
    - intros; eapply R2_new_wm; eassumption.
    - intros; apply R2_append; assumption.
    - intros x y Hxy. destruct (R2_slines _ _ Hxy) as (_ & _ & _ & _ & _ & _ & _ & E & _). auto.
    - intros x y Hxy. destruct (R2_opts _ _ Hxy) as (_ & _ & E & _). auto.
    - intros x y Hxy. destruct (R2_opts _ _ Hxy) as (_ & _ & _ & E & _). auto.
    - apply R2_hborder.
    - intros x y u v w Hxy Hw Huv. apply R2_new; [exact Huv|].
      destruct Hxy as [[_ Hm] _]. lia.
    - intros; apply R2_vert; assumption.
    - intros; apply R2_cols; assumption.
    - apply R2_sub_empty.
  Qed.
End PartB.

(* ---- the footnote list (fmt_links) ---- *)
Lemma fl_chars_reopt o t : forall cs s buf wl pos,
  fl_chars (reopt s o) t cs buf wl pos =
  (let '(s', b, w, p) := fl_chars s t cs buf wl pos in (reopt s' o, b, w, p)).
Proof.
  induction cs as [|c cs IH]; intros s buf wl pos; cbn [fl_chars]; [reflexivity|]. rprj.
  destruct (swidth_ s <? pos + cw0 c); [rewrite add_line_reopt|]; apply IH.
Qed.

Lemma fl_chars_same t : forall cs s buf wl pos,
  swidth_ (fst (fst (fst (fl_chars s t cs buf wl pos)))) = swidth_ s /\
  sopts (fst (fst (fst (fl_chars s t cs buf wl pos)))) = sopts s.
Proof.
  induction cs as [|c cs IH]; intros s buf wl pos; cbn [fl_chars]; [cbn [fst]; auto|].
  destruct (swidth_ s <? pos + cw0 c); [|apply IH].
  match goal with |- context [fl_chars (add_line s ?l) t cs ?b ?w ?p] =>
    destruct (IH (add_line s l) b w p) as [A B]; destruct (add_line_same s l) as (a & b' & _)
  end. split; congruence.
Qed.

Lemma fl_strings_reopt o : forall sl s wl pos,
  o_wrap_links o = o_wrap_links (sopts s) ->
  fl_strings (reopt s o) sl wl pos =
  (let '(s', w) := fl_strings s sl wl pos in (reopt s' o, w)) /\
  swidth_ (fst (fl_strings s sl wl pos)) = swidth_ s /\
  sopts (fst (fl_strings s sl wl pos)) = sopts s.
Proof.
  induction sl as [|[str tg] sl IH]; intros s wl pos Ho; cbn [fl_strings]; [cbn [fst]; auto|].
  rprj. rewrite Ho.
  destruct (o_wrap_links (sopts s) && (swidth_ s <? pos + swidth (nl_to_space str))); [|apply IH, Ho].
  rewrite fl_chars_reopt.
  pose proof (fl_chars_same [ADefault] (nl_to_space str) s [] wl pos) as [A B].
  destruct (fl_chars s [ADefault] (nl_to_space str) [] wl pos) as [[[s1 buf] wl1] pos1].
  cbn [fst] in A, B.
  destruct (IH s1 (tl_push_str wl1 buf [ADefault]) pos1) as (C & D & E); [congruence|].
  split; [exact C|]. split; congruence.
Qed.

Lemma fmt_links_reopt o : forall links s,
  o_wrap_links o = o_wrap_links (sopts s) ->
  fmt_links (reopt s o) links = reopt (fmt_links s links) o /\
  swidth_ (fmt_links s links) = swidth_ s /\ sopts (fmt_links s links) = sopts s.
Proof.
  induction links as [|l links IH]; intros s Ho; cbn [fmt_links]; [auto|].
  destruct (fl_strings_reopt o (tl_tagged_strings l) s tl_new 0 Ho) as (A & B & C).
  rewrite A. destruct (fl_strings s (tl_tagged_strings l) tl_new 0) as [s1 wl]. cbn [fst] in B, C.
  rewrite add_line_reopt.
  destruct (add_line_same s1 (RText wl)) as (a & b & _).
  destruct (IH (add_line s1 (RText wl))) as (D & E & F); [congruence|].
  split; [exact D|]. split; congruence.
Qed.

(* o2 is o1 with a maximum wrap width *)
Definition same_but_wrap (o1 o2 : ropts) : Prop :=
  o_allow_overflow o2 = o_allow_overflow o1 /\ o_pad o2 = o_pad o1 /\ o_raw o2 = o_raw o1 /\
  o_borders o2 = o_borders o1 /\ o_wrap_links o2 = o_wrap_links o1 /\
  o_footnotes o2 = o_footnotes o1 /\ o_strike o2 = o_strike o1.

Lemma same_but_wrap_eq o1 o2 m :
  same_but_wrap o1 o2 -> wrap_width o2 = Some m -> o2 = with_max_wrap o1 m.
Proof.
  destruct o2. unfold same_but_wrap, with_max_wrap. rprj.
  intros (-> & -> & -> & -> & -> & -> & ->) ->. reflexivity.
Qed.

(* MAIN THEOREM (C15, first clause), whole renderer.
   o1 has no maximum wrap width and does not allow overflow; o2 = o1 + maximum wrap width m,
   width <= m.  Then the two renders have the same outcome kind (the same Panic site even) and,
   when Ok, the resulting sub-renderers are equal up to the stored options; in particular
   they have the same lines. *)
Theorem c15_maxwrap_noop_render d mw o1 o2 m width tree :
  wrap_width o1 = None -> wrap_width o2 = Some m -> same_but_wrap o1 o2 ->
  o_allow_overflow o1 = false -> width <= m ->
  res_rel (fun s1 s2 => s2 = reopt s1 o2 /\ sub_into_lines s2 = sub_into_lines s1)
          (render_tree d mw o1 width tree) (render_tree d mw o2 width tree).
Proof.
  intros Hww Hm Hsame Hov Hw. rewrite (same_but_wrap_eq _ _ _ Hsame Hm). clear o2 Hm Hsame.
  set (o2 := with_max_wrap o1 m).
  apply res_rel_impl with (P := R2 o1 m).
  { intros a b Hab. split; [apply Hab|]. apply (R2_sub_into_lines o1 m), Hab. }
  unfold render_tree.
  destruct (est_of d mw tree) as [e| | |]; cbn [bind res_rel]; auto.
  eapply res_rel_bind.
  { apply (node_sim_all d mw (R2 o1 m) (R2_ops d o1 m Hww Hov) tree [] []).
    split; [reflexivity|]. exists (sub_new width o1), (sub_new width o2). cbn [stack].
    split; [reflexivity|]. split; [reflexivity|]. split; [split; [reflexivity|exact Hw]|reflexivity]. }
  intros a b (Hl & s1 & s2 & E1 & E2 & Hs). rewrite E1, E2, <- Hl.
  unfold sub_finalise. destruct (R2_opts o1 m _ _ Hs) as (_ & Ef & _ & _ & _ & Ewl). rewrite Ef.
  destruct (if o_footnotes (sopts s1) then finalise_from 1 (links a) else []) as [|l ls] eqn:El;
    [exact Hs|].
  eapply res_rel_bind; [apply (R2_start_block o1 m), Hs|]. intros x y [Hg ->]. cbn [res_rel].
  destruct (fmt_links_reopt o2 (l :: ls) x) as (A & B & C).
  { destruct Hg as [Ho _]. rewrite Ho. reflexivity. }
  split; [|exact A]. eapply good_same; eassumption.
Qed.
Print Assumptions c15_maxwrap_noop_render.

Lemma bind_assoc {A B C} (x : res A) (f : A -> res B) (g : B -> res C) :
  (do b <- (do a <- x; f a); g b) = (do a <- x; do b <- f a; g b).
Proof. destruct x; reflexivity. Qed.

(* the same, as plain statements *)
Corollary c15_maxwrap_same_lines d mw o1 o2 m width tree :
  wrap_width o1 = None -> wrap_width o2 = Some m -> same_but_wrap o1 o2 ->
  o_allow_overflow o1 = false -> width <= m ->
  (do s <- render_tree d mw o2 width tree; sub_into_lines s) =
  (do s <- render_tree d mw o1 width tree; sub_into_lines s).
Proof.
  intros H1 H2 H3 H4 H5. pose proof (c15_maxwrap_noop_render d mw o1 o2 m width tree H1 H2 H3 H4 H5) as H.
  destruct (render_tree d mw o1 width tree), (render_tree d mw o2 width tree);
    cbn [res_rel bind] in *; try contradiction; try congruence. apply H.
Qed.

(* through the public routes: setting max_wrap_width to m >= width changes neither the lines nor
   the string (the very same outcome, errors included) *)
Section RoutesB.
  Variable inl : list (text * text) -> res (list styledecl).
  Variable dr : list node -> res (list ruleset).

  Lemma c15_render_with_context c tree w m :
    c_max_wrap c = None -> c_overflow c = false -> w <= m ->
    (do s <- render_with_context (set_max_wrap c m) tree w; sub_into_lines s) =
    (do s <- render_with_context c tree w; sub_into_lines s).
  Proof.
    intros Hn Ho Hw. unfold render_with_context. destruct (w =? 0); [reflexivity|].
    apply (c15_maxwrap_same_lines _ _ (render_options c) (render_options (set_max_wrap c m)) m);
      auto; unfold same_but_wrap; cbn; auto 10.
  Qed.

  Theorem c15_lines_from_read c doc w m :
    c_max_wrap c = None -> c_overflow c = false -> w <= m ->
    lines_from_read inl dr (set_max_wrap c m) doc w = lines_from_read inl dr c doc w.
  Proof.
    intros Hn Ho Hw. unfold lines_from_read.
    change (to_render_tree inl dr (set_max_wrap c m) doc) with (to_render_tree inl dr c doc).
    destruct (to_render_tree inl dr c doc) as [tree| | |]; cbn [bind]; try reflexivity.
    rewrite <- !bind_assoc. rewrite (c15_render_with_context c tree w m Hn Ho Hw). reflexivity.
  Qed.

  Theorem c15_string_from_read c doc w m :
    c_max_wrap c = None -> c_overflow c = false -> w <= m ->
    string_from_read inl dr (set_max_wrap c m) doc w = string_from_read inl dr c doc w.
  Proof.
    intros Hn Ho Hw. unfold string_from_read.
    change (to_render_tree inl dr (set_max_wrap c m) doc) with (to_render_tree inl dr c doc).
    destruct (to_render_tree inl dr c doc) as [tree| | |]; cbn [bind]; try reflexivity.
    unfold sub_into_string.
    rewrite <- !bind_assoc. rewrite (c15_render_with_context c tree w m Hn Ho Hw). reflexivity.
  Qed.
End RoutesB.
Print Assumptions c15_lines_from_read.
Print Assumptions c15_string_from_read.

(* ---- non-vacuity, and why `o_allow_overflow o1 = false` is needed ---- *)
Definition exb_opts : ropts := render_options (with_decorator plain_deco).
Definition exb_opts_m (m : N) : ropts := render_options (set_max_wrap (with_decorator plain_deco) m).
Definition out_of (r : res subr) : res (list (list N)) :=
  do s <- r; do ls <- sub_into_lines s; Ok (map (fun l => cps (rline_string l)) ls).

(* the tree of RenderWidth (paragraph, table, ul, ol) at width 12, maximum wrap width 12:
   the hypotheses hold and both sides are Ok with 14 lines *)
Example exb_applies :
  wrap_width exb_opts = None /\ wrap_width (exb_opts_m 12) = Some 12 /\
  same_but_wrap exb_opts (exb_opts_m 12) /\ o_allow_overflow exb_opts = false /\
  (exists ls, out_of (render_tree plain_deco 3 exb_opts 12 ex_tree) = Ok ls /\ length ls = 14%nat /\
              out_of (render_tree plain_deco 3 (exb_opts_m 12) 12 ex_tree) = Ok ls) /\
  (* a smaller maximum does change the output, so the statement is not trivially true *)
  out_of (render_tree plain_deco 3 (exb_opts_m 6) 12 ex_tree)
    <> out_of (render_tree plain_deco 3 exb_opts 12 ex_tree).
Proof.
  split; [reflexivity|]. split; [reflexivity|]. split; [unfold same_but_wrap; cbn; auto 10|].
  split; [reflexivity|]. split.
  - eexists. split; [vm_compute; reflexivity|]. split; vm_compute; reflexivity.
  - vm_compute. discriminate.
Qed.

(* FINDING.  With allow_width_overflow the statement is false: `width_minus` then gives a nested
   block the width max(width - prefix, estimated minimum), which can exceed the outer width, and
   a maximum wrap width m >= width still bites inside it.
   <blockquote>ab c d</blockquote> at width 2 with overflow allowed:
     no maximum:        "> ab" / "> c d"      (the quote's sub-renderer has width 3)
     max_wrap_width 2:  "> ab" / "> c" / "> d" *)
Definition cexb_o1 : ropts := render_options (set_overflow (with_decorator plain_deco)).
Definition cexb_o2 : ropts := render_options (set_max_wrap (set_overflow (with_decorator plain_deco)) 2).
Definition cexb_tree : rnode := ex_n (IBlockQuote [ex_n (IText (ex_str [97;98;32;99;32;100]))]).
Example cexb_overflow_maxwrap_bites :
  wrap_width cexb_o1 = None /\ wrap_width cexb_o2 = Some 2 /\ same_but_wrap cexb_o1 cexb_o2 /\
  out_of (render_tree plain_deco 3 cexb_o1 2 cexb_tree) = Ok [[62;32;97;98]; [62;32;99;32;100]] /\
  out_of (render_tree plain_deco 3 cexb_o2 2 cexb_tree) = Ok [[62;32;97;98]; [62;32;99]; [62;32;100]].
Proof.
  split; [reflexivity|]. split; [reflexivity|]. split; [unfold same_but_wrap; cbn; auto 10|].
  split; vm_compute; reflexivity.
Qed.

(* ================================================================== *)
(* 6. `clean_top` is an invariant of the renderer                       *)
(* ================================================================== *)
(* (pending fragment markers never carry text: the side condition of the line equations of
   section 4 holds in the initial state, in every fresh sub-renderer, and is preserved by
   render_node.)  Obtained from the simulation of section 1 with the diagonal relation
   "the same sub-renderer, and it is clean". *)

Definition CL (x y : subr) : Prop := x = y /\ ptxt x = [].
Definition keepc (f : subr -> res subr) : Prop :=
  forall s s', ptxt s = [] -> f s = Ok s' -> ptxt s' = [].

Lemma CL_pure g : (forall s, pending_frags (g s) = pending_frags s) -> pureR CL g.
Proof. intros H x y [<- Hp]. split; [reflexivity|]. unfold ptxt in *. rewrite H. exact Hp. Qed.

Lemma CL_op f : keepc f -> opR CL f.
Proof.
  intros H x y [<- Hp]. destruct (f x) as [x'| | |] eqn:E; cbn [res_rel]; auto.
  split; [reflexivity|]. eapply H; eassumption.
Qed.

Lemma keepc_bind f g : keepc f -> keepc g -> keepc (fun s => do x <- f s; g x).
Proof. intros Hf Hg s s' Hp H. bind_inv H x Hx. eapply Hg; [|exact H]. eapply Hf; eassumption. Qed.

Lemma keepc_pure g : (forall s, pending_frags (g s) = pending_frags s) -> keepc (fun s => Ok (g s)).
Proof. intros H s s' Hp E. ok_inv E. unfold ptxt in *. rewrite H. exact Hp. Qed.

Lemma keepc_flush : keepc flush_wrapping.
Proof. intros s s' Hp H. apply (flush_wrapping_spec _ _ H Hp). Qed.

Lemma keepc_add_line l : keepc (fun s => Ok (add_line s l)).
Proof. intros s s' Hp H. ok_inv H. apply (add_line_spec s l Hp). Qed.

Lemma keepc_add_empty_line : keepc add_empty_line.
Proof.
  unfold add_empty_line. apply keepc_bind; [apply keepc_flush|].
  intros s s' Hp H. ok_inv H. unfold ptxt. sprj. apply (add_line_spec s (RText tl_new) Hp).
Qed.

Lemma keepc_start_block : keepc start_block.
Proof. intros s s' Hp H. apply (start_block_spec _ _ H Hp). Qed.

Lemma keepc_new_line_hard : keepc new_line_hard.
Proof.
  intros s s' Hp H. unfold new_line_hard in H. destruct (wrapping s) as [w|].
  - destruct ((wordlen w =? 0) && (tlen_ (wline w) =? 0));
      [eapply keepc_add_empty_line|eapply keepc_flush]; eassumption.
  - eapply keepc_add_empty_line; eassumption.
Qed.

Lemma keepc_inline d t : keepc (fun s => add_inline_text d s t).
Proof.
  intros s s' Hp H. unfold add_inline_text in H.
  destruct (negb (preserve_ws (ws_mode s)) && at_block_end s && all_ws t); [ok_inv H; exact Hp|].
  bind_inv H s1 H1. bind_inv H w1 Hw. ok_inv H. unfold ptxt. sprj.
  destruct (at_block_end s); [eapply keepc_start_block; eassumption|ok_inv H1; exact Hp].
Qed.

Lemma keepc_start_deco d p : keepc (fun s => start_deco d s p).
Proof. intros s s' Hp H. unfold start_deco in H. eapply keepc_inline; [|exact H]. exact Hp. Qed.

Lemma keepc_end_deco d e : keepc (fun s => end_deco d s e).
Proof. unfold end_deco. apply keepc_bind; [apply keepc_inline|apply keepc_pure; reflexivity]. Qed.

Lemma keepc_hline b t : keepc (fun s => add_horizontal_line s b t).
Proof. unfold add_horizontal_line. apply keepc_bind; [apply keepc_flush|apply keepc_add_line]. Qed.

Lemma keepc_hborder w : keepc (fun s => add_horizontal_border_width s w).
Proof.
  intros s s' Hp H. unfold add_horizontal_border_width in H. bind_inv H s1 H1. ok_inv H.
  apply add_line_spec. eapply keepc_flush; eassumption.
Qed.

Lemma keepc_append other f r : keepc (fun s => append_subrender s other f r).
Proof.
  intros s s' Hp H. destruct (append_subrender_spec _ _ _ _ _ H Hp) as (? & _ & _ & _ & E & _).
  exact E.
Qed.

Lemma keepc_vert_cols : forall cols first s s',
  ptxt s = [] -> vert_cols s cols first = Ok s' -> ptxt s' = [].
Proof.
  induction cols as [|c cols IH]; intros first s s' Hp H; cbn [vert_cols] in H; [ok_inv H; exact Hp|].
  bind_inv H s1 H1. bind_inv H s2 H2. eapply IH; [|exact H].
  eapply keepc_append; [|exact H2].
  destruct (negb first && o_borders (sopts s)); [eapply keepc_hline; eassumption|ok_inv H1; exact Hp].
Qed.

Lemma keepc_vert cols : keepc (fun s => append_vert_row s cols).
Proof.
  intros s s' Hp H. unfold append_vert_row in H. bind_inv H s1 H1. bind_inv H s2 H2.
  assert (Hp2 : ptxt s2 = []).
  { eapply keepc_vert_cols; [|exact H2]. eapply keepc_flush; eassumption. }
  destruct (o_borders (sopts s2)); [|ok_inv H; exact Hp2].
  eapply keepc_hborder; eassumption.
Qed.

Lemma row_lines_clean t draw sets pads : forall n i s,
  ptxt s = [] -> ptxt (row_lines t draw n i sets pads s) = [].
Proof.
  induction n as [|n IH]; intros i s Hp; cbn [row_lines]; [exact Hp|].
  apply IH. apply add_line_spec, Hp.
Qed.

Lemma keepc_cols cols collapse : keepc (fun s => append_columns_with_borders s cols collapse).
Proof.
  intros s s' Hp H. unfold append_columns_with_borders in H.
  bind_inv H s1 H1. bind_inv H sets Hsets. bind_inv H chk Hchk.
  match type of H with (let '(p1, n1) := ?e in _) = _ => destruct e as [prev1 next1] end.
  bind_inv H r Hr. destruct r as [[[prev3 next3] sets4] pads]. ok_inv H.
  assert (Hp1 : ptxt s1 = []) by (eapply keepc_flush; eassumption).
  match goal with
  | |- ptxt (if ?c then add_line ?s3 ?l else _) = [] =>
    assert (Hp3 : ptxt s3 = []); [|destruct c; [apply add_line_spec, Hp3|exact Hp3]]
  end.
  apply row_lines_clean. exact Hp1.
Qed.

Lemma CL_ops d : SimOps d CL.
Proof.
  constructor.
  - intros r g b. apply CL_pure. intros s. unfold push_colour, push_ann. destruct (d_colours d); reflexivity.
  - intros r g b. apply CL_pure. intros s. unfold push_bgcolour, push_ann. destruct (d_colours d); reflexivity.
  - intros mo. apply CL_pure. reflexivity.
  - apply CL_pure. reflexivity.
  - apply CL_pure. intros s. unfold pop_colour, pop_ann. destruct (d_colours d); reflexivity.
  - apply CL_pure. reflexivity.
  - apply CL_op. intros s s' Hp H. unfold pop_preformat in H.
    destruct (0 <? pre_depth s); [ok_inv H; exact Hp|discriminate].
  - intros t. apply CL_op, keepc_inline.
  - intros h. apply CL_op, keepc_start_deco.
  - apply CL_op, (keepc_end_deco d (d_link_end d)).
  - intros x y [<- _]. reflexivity.
  - apply CL_op, (keepc_start_deco d (d_em_start d)).
  - apply CL_op, (keepc_end_deco d (d_em_end d)).
  - apply CL_op, (keepc_start_deco d (d_strong_start d)).
  - apply CL_op, (keepc_end_deco d (d_strong_end d)).
  - apply CL_op. unfold start_strikeout. apply keepc_bind; [apply keepc_start_deco|].
    intros s s' Hp H. ok_inv H. destruct (o_strike (sopts s)); exact Hp.
  - apply CL_op. intros s s' Hp H. unfold end_strikeout in H. bind_inv H s1 H1.
    eapply keepc_end_deco; [|exact H].
    destruct (o_strike (sopts s)); [|ok_inv H1; exact Hp].
    destruct (filter_depth s); [discriminate|ok_inv H1; exact Hp].
  - apply CL_op, (keepc_start_deco d (d_code_start d)).
  - apply CL_op, (keepc_end_deco d (d_code_end d)).
  - apply CL_op, (keepc_start_deco d (d_sup_start d)).
  - apply CL_op, (keepc_end_deco d (d_sup_end d)).
  - intros src t. apply CL_op. unfold add_image.
    intros s s' Hp H. bind_inv H s1 H1. ok_inv H.
    eapply (keepc_inline d) in H1; [exact H1|exact Hp].
  - apply CL_op, keepc_start_block.
  - apply CL_pure. reflexivity.
  - apply CL_op, keepc_flush.
  - apply CL_op, keepc_new_line_hard.
  - intros n. apply CL_pure. reflexivity.
  - intros x y p mn [<- _]. reflexivity.
  - intros x y p mn w [<- _] _. split; reflexivity.
  - intros x y u v f r [<- Hp] [<- _]. apply (CL_op (fun s => append_subrender s u f r));
      [apply keepc_append|split; [reflexivity|exact Hp]].
  - intros x y [<- _]. reflexivity.
  - intros x y [<- _]. reflexivity.
  - intros x y [<- _]. reflexivity.
  - intros w. apply CL_op, keepc_hborder.
  - intros x y u v w _ _ [<- _]. split; reflexivity.
  - intros x y us vs [<- Hp] Huv.
    assert (us = vs).
    { clear -Huv. induction Huv as [|u v us vs [E _] _ IH]; [reflexivity|congruence]. }
    subst vs. apply (CL_op (fun s => append_vert_row s us)); [apply keepc_vert|split; auto].
  - intros x y us vs [<- Hp] Huv.
    assert (us = vs).
    { clear -Huv. induction Huv as [|u v us vs [E _] _ IH]; [reflexivity|congruence]. }
    subst vs. apply (CL_op (fun s => append_columns_with_borders s us true));
      [apply keepc_cols|split; auto].
  - intros u v [<- _]. reflexivity.
Qed.

(* render_node keeps the top sub-renderer clean (and leaves the rest of the stack alone) *)
Theorem clean_top_preserved d mw n st st' :
  render_node d mw n st = Ok st' -> clean_top st -> clean_top st'.
Proof.
  intros H Hc. unfold clean_top in *. destruct (stack st) as [|s rest] eqn:Es; [contradiction|].
  assert (HS : StR CL rest rest st st).
  { split; [reflexivity|]. exists s, s. repeat split; auto. }
  pose proof (node_sim_all d mw CL (CL_ops d) n rest rest st st HS) as G.
  rewrite H in G. cbn [res_rel] in G. destruct G as (_ & s1 & s2 & E1 & _ & _ & Hp).
  rewrite E1. exact Hp.
Qed.

Lemma clean_top_kids d mw cs st st' : rkids d mw cs st = Ok st' -> clean_top st -> clean_top st'.
Proof.
  unfold rkids. intros H Hc. revert H.
  apply (fold_bind_inv clean_top (render_node d mw) cs); [|exact Hc].
  intros n _ a a' Ha Hn. eapply clean_top_preserved; eassumption.
Qed.

(* the states in which rendering starts are clean: the initial one and every fresh sub-renderer *)
Lemma clean_top_initial width o : clean_top (mkrst [sub_new width o] []).
Proof. reflexivity. Qed.
Lemma clean_top_fresh tp w lk : clean_top (mkrst [new_sub_renderer tp w] lk).
Proof. reflexivity. Qed.
Print Assumptions clean_top_preserved.

(* ================================================================== *)
(* 7. C07: nested structures stack their prefixes                       *)
(* ================================================================== *)
(* The equations of section 4 compose: the `nested` premise of the outer node is a run of
   render_node on the inner node from a fresh (hence clean, empty) state, to which the equation
   of the inner node applies.  Worked out for a block quote directly inside a block quote. *)

Lemma extend_lines_ext l : forall a b,
  slines a = slines b -> pending_frags a = pending_frags b ->
  slines (extend_lines a l) = slines (extend_lines b l) /\
  pending_frags (extend_lines a l) = pending_frags (extend_lines b l).
Proof.
  unfold extend_lines. induction l as [|x l IH]; intros a b H1 H2; cbn [fold_left]; [auto|].
  apply IH; unfold add_line; rewrite H1, H2; destruct (pending_frags b), x; reflexivity.
Qed.

Lemma sub_into_lines_ext s s' :
  slines s' = slines s -> pending_frags s' = pending_frags s -> wrapping s' = wrapping s ->
  sub_into_lines s' = sub_into_lines s.
Proof.
  intros H1 H2 H3. unfold sub_into_lines, flush_wrapping. rewrite H3.
  destruct (wrapping s) as [w|]; [|cbn [bind]; congruence].
  destruct (take_trailing_fragments w) as [w1 frags].
  destruct (wb_into_lines_markers w1) as [[ls mk]| | |]; cbn [bind fst snd]; try reflexivity. sprj. f_equal.
  apply extend_lines_ext; sprj; assumption.
Qed.

Definition same_out (s s' : subr) : Prop :=
  slines s' = slines s /\ pending_frags s' = pending_frags s /\ wrapping s' = wrapping s.

Lemma same_out_trans a b c : same_out a b -> same_out b c -> same_out a c.
Proof. unfold same_out. intuition congruence. Qed.

Lemma with_top'_out g s rest lk st' :
  (forall x, same_out x (g x)) -> with_top' (mkrst (s :: rest) lk) g = Ok st' ->
  exists s', st' = mkrst (s' :: rest) lk /\ same_out s s'.
Proof.
  intros Hg H. unfold with_top' in H. destruct (with_top_mk _ _ _ _ _ H) as (s' & E & ->).
  ok_inv E. eauto.
Qed.

Lemma apply_style_out d s rest lk cs st ps :
  apply_style d (mkrst (s :: rest) lk) cs = Ok (st, ps) ->
  exists s', st = mkrst (s' :: rest) lk /\ same_out s s'.
Proof.
  intros H. unfold apply_style in H.
  bind_inv H st1 H1. bind_inv H st2 H2. bind_inv H st3 H3. bind_inv H st4 H4. injection H as <- _.
  assert (A1 : exists s1, st1 = mkrst (s1 :: rest) lk /\ same_out s s1).
  { destruct (ws_val (c_colour (cs_core cs))) as [[[r g] b]|].
    - eapply with_top'_out; [|exact H1]. intros x. unfold push_colour, push_ann.
      destruct (d_colours d); repeat split.
    - ok_inv H1. exists s. repeat split. }
  destruct A1 as (s1 & -> & O1).
  assert (A2 : exists s2, st2 = mkrst (s2 :: rest) lk /\ same_out s1 s2).
  { destruct (ws_val (c_bg (cs_core cs))) as [[[r g] b]|].
    - eapply with_top'_out; [|exact H2]. intros x. unfold push_bgcolour, push_ann.
      destruct (d_colours d); repeat split.
    - ok_inv H2. exists s1. repeat split. }
  destruct A2 as (s2 & -> & O2).
  assert (A3 : exists s3, st3 = mkrst (s3 :: rest) lk /\ same_out s2 s3).
  { destruct (match ws_val (c_white_space (cs_core cs)) with
              | Some WsPre => Some WsPre
              | Some WsPreWrap => Some WsPreWrap
              | _ => None
              end) as [mo|].
    - eapply with_top'_out; [|exact H3]. intros x. repeat split.
    - ok_inv H3. exists s2. repeat split. }
  destruct A3 as (s3 & -> & O3).
  assert (A4 : exists s4, st4 = mkrst (s4 :: rest) lk /\ same_out s3 s4).
  { destruct (cs_internal_pre cs).
    - eapply with_top'_out; [|exact H4]. intros x. repeat split.
    - ok_inv H4. exists s3. repeat split. }
  destruct A4 as (s4 & -> & O4). exists s4. split; [reflexivity|].
  eapply same_out_trans; [|exact O4]. eapply same_out_trans; [|exact O3].
  eapply same_out_trans; eassumption.
Qed.

Lemma unwind_out d ps s rest lk st' :
  unwind d ps (mkrst (s :: rest) lk) = Ok st' ->
  exists s', st' = mkrst (s' :: rest) lk /\ same_out s s'.
Proof.
  intros H. unfold unwind in H. bind_inv H st1 H1. bind_inv H st2 H2. bind_inv H st3 H3.
  assert (A1 : exists s1, st1 = mkrst (s1 :: rest) lk /\ same_out s s1).
  { destruct (p_bg ps).
    - eapply with_top'_out; [|exact H1]. intros x. unfold pop_bgcolour, pop_colour, pop_ann.
      destruct (d_colours d); repeat split.
    - ok_inv H1. exists s. repeat split. }
  destruct A1 as (s1 & -> & O1).
  assert (A2 : exists s2, st2 = mkrst (s2 :: rest) lk /\ same_out s1 s2).
  { destruct (p_colour ps).
    - eapply with_top'_out; [|exact H2]. intros x. unfold pop_colour, pop_ann.
      destruct (d_colours d); repeat split.
    - ok_inv H2. exists s1. repeat split. }
  destruct A2 as (s2 & -> & O2).
  assert (A3 : exists s3, st3 = mkrst (s3 :: rest) lk /\ same_out s2 s3).
  { destruct (p_ws ps).
    - eapply with_top'_out; [|exact H3]. intros x. repeat split.
    - ok_inv H3. exists s2. repeat split. }
  destruct A3 as (s3 & -> & O3).
  assert (A4 : exists s4, st' = mkrst (s4 :: rest) lk /\ same_out s3 s4).
  { destruct (p_pre ps).
    - destruct (with_top_mk _ _ _ _ _ H) as (s4 & E & ->). exists s4. split; [reflexivity|].
      unfold pop_preformat in E. destruct (0 <? pre_depth s3); [|discriminate]. ok_inv E.
      repeat split.
    - ok_inv H. exists s3. repeat split. }
  destruct A4 as (s4 & -> & O4). exists s4. split; [reflexivity|].
  eapply same_out_trans; [|exact O4]. eapply same_out_trans; [|exact O3].
  eapply same_out_trans; eassumption.
Qed.

Lemma same_out_lines s s' : same_out s s' -> out_lines s' = out_lines s.
Proof. intros (A & B & C). unfold out_lines. rewrite (sub_into_lines_ext s s' A B C). reflexivity. Qed.

Lemma rkids_single d mw n st : rkids d mw [n] st = render_node d mw n st.
Proof. reflexivity. Qed.

Section Stack.
  Variables (d : deco) (mw : N).

  (* a block quote rendered in a fresh sub-renderer (no lines, nothing pending): ALL its lines
     are the lines of its content, rendered one level deeper, with the quote mark in front *)
  Lemma quote_in_fresh cs sty tp w lk sub lk' ols :
    render_node d mw (RN (IBlockQuote cs) sty) (mkrst [new_sub_renderer tp w] lk)
      = Ok (mkrst [sub] lk') ->
    sub_into_lines sub = Ok ols ->
    let q := d_quote_prefix d in
    exists tp2 ps mn sub2 ols2,
      apply_style d (mkrst [new_sub_renderer tp w] lk) sty = Ok (mkrst [tp2] lk, ps) /\
      nested (rkids d mw cs) tp2 lk (swidth q) mn sub2 lk' ols2 /\
      strs ols = map (app q) (strs ols2).
  Proof.
    intros H Hols q.
    destruct (c07_blockquote d mw cs sty _ _ H)
      as (st & ps & tp2 & rest & mn & sub2 & lk2 & ols2 & s4 & s5 & Hap & Es & Hn & Hb & Hfin & Hl).
    specialize (Hl (clean_top_fresh tp w lk)).
    destruct (apply_style_out _ _ _ _ _ _ _ Hap) as (s' & -> & O1 & O2 & O3).
    cbn [stack links] in Es, Hn. injection Es as <- <-.
    destruct (unwind_out _ _ _ _ _ _ Hfin) as (s'' & E'' & O'). injection E'' as <- <-.
    exists s', ps, mn, sub2, ols2. split; [exact Hap|]. split; [exact Hn|].
    (* start_block on a sub-renderer without lines adds nothing *)
    destruct Hb as [H4 H5].
    assert (Hs4 : slines s4 = []).
    { unfold start_block in H4. rewrite flush_none in H4 by (rewrite O3; reflexivity).
      cbn [bind] in H4. rewrite O1 in H4. cbn [new_sub_renderer sub_new set_ann slines existsb bind] in H4.
      ok_inv H4. sprj. rewrite O1. reflexivity. }
    rewrite Hs4 in Hl. cbn [strs map app] in Hl.
    rewrite <- (same_out_lines _ _ O') in Hl. unfold out_lines in Hl. rewrite Hols in Hl.
    cbn [bind] in Hl. injection Hl as Hl. exact Hl.
  Qed.

  (* quote inside quote: every line of the inner content carries both marks *)
  Theorem c07_quote_in_quote cs sty2 sty st0 st' :
    render_node d mw (RN (IBlockQuote [RN (IBlockQuote cs) sty2]) sty) st0 = Ok st' ->
    clean_top st0 ->
    let q := d_quote_prefix d in
    exists st ps tp rest w mn sub lk' s4 s5 tp2 ps2 mn2 sub2 ols2,
      apply_style d st0 sty = Ok (st, ps) /\ stack st = tp :: rest /\
      width_minus tp (swidth q) mn = Ok w /\
      apply_style d (mkrst [new_sub_renderer tp w] (links st)) sty2 = Ok (mkrst [tp2] (links st), ps2) /\
      nested (rkids d mw cs) tp2 (links st) (swidth q) mn2 sub2 lk' ols2 /\
      block_eq tp sub q s4 s5 /\
      unwind d ps (mkrst (end_block s5 :: rest) lk') = Ok st' /\
      out_lines (end_block s5) = Ok (strs (slines s4) ++ map (fun l => q ++ q ++ l) (strs ols2)).
  Proof.
    intros H Hc q.
    destruct (c07_blockquote d mw _ sty _ _ H)
      as (st & ps & tp & rest & mn & sub & lk' & ols & s4 & s5 & Hap & Es & Hn & Hb & Hfin & Hl).
    specialize (Hl Hc). destruct Hn as (w & Hw & Hbody & Hols). rewrite rkids_single in Hbody.
    destruct (quote_in_fresh cs sty2 tp w (links st) sub lk' ols Hbody Hols)
      as (tp2 & ps2 & mn2 & sub2 & ols2 & Hap2 & Hn2 & Hs).
    exists st, ps, tp, rest, w, mn, sub, lk', s4, s5, tp2, ps2, mn2, sub2, ols2.
    repeat (split; [assumption|]). rewrite Hl. fold q in Hs. rewrite Hs, map_map. reflexivity.
  Qed.
End Stack.
Print Assumptions c07_quote_in_quote.

(* ================================================================== *)
(* 8. C07: non-vacuity examples                                         *)
(* ================================================================== *)
Definition exA_o : ropts := render_options (with_decorator plain_deco).
Definition exA_st0 : rstate := mkrst [sub_new 12 exA_o] [].
Definition exA_st0w : rstate := mkrst [sub_new 16 exA_o] [].
(* the code points of the line strings of the top sub-renderer *)
Definition top_lines (r : res rstate) : res (list (list N)) :=
  do st <- r; do s <- top st; do ls <- out_lines s; Ok (map cps ls).
Definition exA_txt (l : list N) : rnode := ex_n (IText (ex_str l)).
Definition exA_li (l : list N) : rnode := ex_n (IListItem [exA_txt l]).
(* "hello wide world" *)
Definition exA_hww : list N := [104;101;108;108;111;32;119;105;100;101;32;119;111;114;108;100].
Definition exA_of (r : res rstate) : rstate := match r with Ok st => st | _ => mkrst [] [] end.

(* block quote at width 12: the content wrapped at width 10, "> " on every line *)
Definition exA_quote : rnode := ex_n (IBlockQuote [exA_txt exA_hww]).
Example exA_quote_lines :
  top_lines (render_node plain_deco 3 exA_quote exA_st0)
  = Ok [[62;32; 104;101;108;108;111;32;119;105;100;101]; [62;32; 119;111;114;108;100]] /\
  top_lines (rkids plain_deco 3 [exA_txt exA_hww] (mkrst [new_sub_renderer (sub_new 12 exA_o) 10] []))
  = Ok [[104;101;108;108;111;32;119;105;100;101]; [119;111;114;108;100]].
Proof. split; vm_compute; reflexivity. Qed.
Example exA_quote_ok :
  render_node plain_deco 3 exA_quote exA_st0 = Ok (exA_of (render_node plain_deco 3 exA_quote exA_st0)).
Proof. vm_compute. reflexivity. Qed.
(* the theorem applies (its conclusion, instantiated) *)
Example exA_quote_applies := c07_blockquote plain_deco 3 _ _ _ _ exA_quote_ok.

(* heading level 2: "## " on every line *)
Definition exA_header : rnode := ex_n (IHeader 2 [exA_txt exA_hww]).
Example exA_header_lines :
  top_lines (render_node plain_deco 3 exA_header exA_st0)
  = Ok [[35;35;32; 104;101;108;108;111]; [35;35;32; 119;105;100;101]; [35;35;32; 119;111;114;108;100]].
Proof. vm_compute. reflexivity. Qed.
Example exA_header_ok :
  render_node plain_deco 3 exA_header exA_st0 = Ok (exA_of (render_node plain_deco 3 exA_header exA_st0)).
Proof. vm_compute. reflexivity. Qed.
Example exA_header_applies := c07_header plain_deco 3 _ _ _ _ _ exA_header_ok.

(* definition: two spaces on every line *)
Definition exA_dd : rnode := ex_n (IDd [exA_txt exA_hww]).
Example exA_dd_lines :
  top_lines (render_node plain_deco 3 exA_dd exA_st0)
  = Ok [[32;32; 104;101;108;108;111;32;119;105;100;101]; [32;32; 119;111;114;108;100]].
Proof. vm_compute. reflexivity. Qed.
Example exA_dd_ok :
  render_node plain_deco 3 exA_dd exA_st0 = Ok (exA_of (render_node plain_deco 3 exA_dd exA_st0)).
Proof. vm_compute. reflexivity. Qed.
Example exA_dd_applies := c07_dd plain_deco 3 _ _ _ _ exA_dd_ok.

(* unordered list: "* " on an item's first line, two spaces on its later lines *)
Definition exA_ul : rnode := ex_n (IUl [exA_li exA_hww; exA_li [120]]).
Example exA_ul_lines :
  top_lines (render_node plain_deco 3 exA_ul exA_st0)
  = Ok [[42;32; 104;101;108;108;111;32;119;105;100;101]; [32;32; 119;111;114;108;100]; [42;32; 120]].
Proof. vm_compute. reflexivity. Qed.
Example exA_ul_ok :
  render_node plain_deco 3 exA_ul exA_st0 = Ok (exA_of (render_node plain_deco 3 exA_ul exA_st0)).
Proof. vm_compute. reflexivity. Qed.
Example exA_ul_applies := c07_ul plain_deco 3 _ _ _ _ exA_ul_ok (clean_top_initial 12 exA_o).

(* ordered list from 9: "9.  " and "10. " (common width 4), four spaces on later lines *)
Definition exA_ol : rnode := ex_n (IOl 9 [exA_li exA_hww; exA_li [120]]).
Example exA_ol_lines :
  top_lines (render_node plain_deco 3 exA_ol exA_st0)
  = Ok [[57;46;32;32; 104;101;108;108;111]; [32;32;32;32; 119;105;100;101];
        [32;32;32;32; 119;111;114;108;100]; [49;48;46;32; 120]] /\
  ol_prefix_size plain_deco 9 2 = Ok 4 /\
  map cps [ol_marker plain_deco 4 (ol_num 9 0); ol_marker plain_deco 4 (ol_num 9 1); ol_indent 4]
  = [[57;46;32;32]; [49;48;46;32]; [32;32;32;32]].
Proof. repeat split; vm_compute; reflexivity. Qed.
Example exA_ol_ok :
  render_node plain_deco 3 exA_ol exA_st0 = Ok (exA_of (render_node plain_deco 3 exA_ol exA_st0)).
Proof. vm_compute. reflexivity. Qed.
Example exA_ol_applies := c07_ol plain_deco 3 _ _ _ _ _ exA_ol_ok (clean_top_initial 12 exA_o).
Example exA_ol_marker_width :
  swidth (ol_marker plain_deco 4 (ol_num 9 1)) = 4 :=
  ol_marker_width plain_deco 9 2 4 1 ol_prefix_monotone_plain ol_prefix_sat_plain
                  ltac:(unfold i64_min; lia) eq_refl ltac:(lia).

(* stacking: ul inside a quote inside an ordered item, width 16 *)
Definition exA_nest : rnode :=
  ex_n (IOl 9 [ex_n (IListItem [ex_n (IBlockQuote [ex_n (IUl [exA_li exA_hww; exA_li [120]])])]);
               exA_li [121]]).
Example exA_nest_lines :
  top_lines (render_node plain_deco 3 exA_nest exA_st0w)
  = Ok [[57;46;32;32; 62;32; 42;32; 104;101;108;108;111];
        [32;32;32;32; 62;32; 32;32; 119;105;100;101];
        [32;32;32;32; 62;32; 32;32; 119;111;114;108;100];
        [32;32;32;32; 62;32; 42;32; 120];
        [49;48;46;32; 121]].
Proof. vm_compute. reflexivity. Qed.

(* quote in quote *)
Definition exA_qq : rnode := ex_n (IBlockQuote [ex_n (IBlockQuote [exA_txt exA_hww])]).
Example exA_qq_lines :
  top_lines (render_node plain_deco 3 exA_qq exA_st0)
  = Ok [[62;32;62;32; 104;101;108;108;111]; [62;32;62;32; 119;105;100;101];
        [62;32;62;32; 119;111;114;108;100]].
Proof. vm_compute. reflexivity. Qed.
Example exA_qq_ok :
  render_node plain_deco 3 exA_qq exA_st0 = Ok (exA_of (render_node plain_deco 3 exA_qq exA_st0)).
Proof. vm_compute. reflexivity. Qed.
Example exA_qq_applies :=
  c07_quote_in_quote plain_deco 3 _ _ _ _ _ exA_qq_ok (clean_top_initial 12 exA_o).

Print Assumptions node_sim_all.
Print Assumptions frame.
Print Assumptions c07_blockquote.
Print Assumptions c07_header.
Print Assumptions c07_dd.
Print Assumptions c07_ul.
Print Assumptions c07_ol.
Print Assumptions ol_marker_width.
Print Assumptions ol_num_consecutive.
Print Assumptions exA_ol_marker_width.
