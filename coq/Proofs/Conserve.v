(* Proofs/Conserve.v -- C03 (document text is preserved: nothing lost, duplicated,
   reordered or invented) and C14 (fragment markers) for the WrappedBlock model
   (Wrap.v).  No axioms.

   Method: one generic "stream" of a block, parametrised by a character filter p
   that rejects every character the block makes itself (p (spacel l) = false):
     pstream p b = markers (inl name) and p-characters (inr c) of
                   finished lines ++ current line ++ pending word, in order.
   Every wblock operation leaves the stream unchanged or appends to it.
   Instances: p = non-whitespace  (content / frags / stream: C03, C14)
              p = whitespace that is not U+0020 (nothing of that kind is ever
                  in a block: c03_only_spaces_invented). *)
From H2T Require Import Base Tagged Wrap.
From Coq Require Import Lia ZifyN ZifyBool ZifyNat.

Local Arguments N.add : simpl never.
Local Arguments N.sub : simpl never.
Local Arguments N.mul : simpl never.
Local Arguments N.div : simpl never.
Local Arguments N.modulo : simpl never.
Local Arguments N.leb : simpl never.
Local Arguments N.ltb : simpl never.
Local Arguments N.eqb : simpl never.
Local Arguments N.min : simpl never.
Local Arguments N.max : simpl never.
Local Arguments N.to_nat : simpl never.
Local Arguments N.of_nat : simpl never.
Local Open Scope N_scope.

(* ------------------------------------------------------------------ *)
(* Statements' vocabulary *)

(* the characters of a text that reach the output: non-whitespace characters that have a width *)
Definition kept (s : text) : text :=
  filter (fun c => negb (ws c) && match cw c with Some _ => true | None => false end) s.

(* all document characters held by a block, in order: finished lines, current line, pending word *)
Definition content (b : wblock) : text :=
  filter (fun c => negb (ws c))
         (flat_map tl_string (wtext b) ++ tl_string (wline b) ++ flat_map elem_text (wword b)).

Definition frags_of_line (l : tline) : list text :=
  flat_map (fun e => match e with Frag n => [n] | Str _ _ => [] end) (tv l).
Definition frags (b : wblock) : list text :=
  flat_map frags_of_line (wtext b) ++ frags_of_line (wline b) ++
  flat_map (fun e => match e with Frag n => [n] | _ => [] end) (wword b).

(* stream items: a marker or a character *)
Definition sitem : Type := (text + chr)%type.
Definition projr (l : list sitem) : text :=
  flat_map (fun x => match x with inr c => [c] | inl _ => [] end) l.
Definition projl (l : list sitem) : list text :=
  flat_map (fun x => match x with inl n => [n] | inr _ => [] end) l.

Definition nonws (c : chr) : bool := negb (ws c).

(* ------------------------------------------------------------------ *)
(* Tactics *)

Ltac bd H x Hx :=
  match type of H with
  | bind ?r _ = Ok _ =>
    destruct r as [x| | |] eqn:Hx; cbn [bind] in H; [|discriminate H..]
  end.

Ltac ifd H Hc :=
  match type of H with
  | (if ?c then _ else _) = _ => destruct c eqn:Hc
  end.

(* ------------------------------------------------------------------ *)
(* p-free list facts *)

Lemma skipn_length_app {A} (a b : list A) : skipn (length a) (a ++ b) = b.
Proof. induction a as [|x a IH]; cbn [length app skipn]; auto. Qed.

Lemma projr_app a b : projr (a ++ b) = projr a ++ projr b.
Proof. apply flat_map_app. Qed.
Lemma projl_app a b : projl (a ++ b) = projl a ++ projl b.
Proof. apply flat_map_app. Qed.
Lemma projr_map_inr s : projr (map inr s) = s.
Proof. induction s as [|c s IH]; cbn; [reflexivity | unfold projr in IH; rewrite IH; reflexivity]. Qed.
Lemma projl_map_inr (s : text) : projl (map inr s) = [].
Proof. induction s as [|c s IH]; cbn; auto. Qed.

Lemma v_push_merge_cons2 e e' v s t :
  v_push_merge (e :: e' :: v) s t = e :: v_push_merge (e' :: v) s t.
Proof. reflexivity. Qed.

(* take_zw takes a prefix *)
Lemma take_zw_prefix : forall s, exists suf, s = take_zw s ++ suf.
Proof.
  induction s as [|c s [suf IH]]; cbn [take_zw].
  - exists []. reflexivity.
  - destruct (cw c) as [[|q]|].
    + exists suf. cbn [app]. rewrite <- IH. reflexivity.
    + exists (c :: s). reflexivity.
    + exists (c :: s). reflexivity.
Qed.

(* hw_scan takes a prefix of the remaining piece (or nothing) *)
Lemma hw_scan_prefix ovf l0 : forall s first tr ll wp taken ll' wp',
  hw_scan ovf l0 first s tr ll wp = Ok (taken, ll', wp') ->
  (first = true -> tr = []) ->
  taken = [] \/ exists suf, rev tr ++ s = taken ++ suf.
Proof.
  induction s as [|c s IH]; intros first tr ll wp taken ll' wp' H Hf; cbn [hw_scan] in H.
  - inversion H; subst. left; reflexivity.
  - destruct (cw c) as [c_w|]; [|discriminate H].
    destruct (c_w <=? ll) eqn:Hfit.
    + apply IH in H; [|discriminate].
      destruct H as [H|[suf H]]; [left; exact H|right].
      exists suf. rewrite <- H. cbn [rev]. rewrite <- app_assoc. reflexivity.
    + destruct first.
      * rewrite (Hf eq_refl) in *. bd H lw Hlw.
        destruct (lw =? 0).
        -- destruct ovf; [|discriminate H]. inversion H; subst.
           right. destruct (take_zw_prefix s) as [suf Hs]. exists suf.
           cbn [rev app]. rewrite <- Hs. reflexivity.
        -- inversion H; subst. left; reflexivity.
      * inversion H; subst. right. exists (c :: s). reflexivity.
Qed.

Lemma hw_scan_split ovf l0 rest ll wp taken ll' wp' :
  hw_scan ovf l0 true rest [] ll wp = Ok (taken, ll', wp') ->
  taken ++ skipn (length taken) rest = rest.
Proof.
  intros H. apply hw_scan_prefix in H; [|reflexivity].
  destruct H as [H|[suf H]].
  - subst. reflexivity.
  - cbn [rev app] in H. subst rest. rewrite skipn_length_app. reflexivity.
Qed.

(* ------------------------------------------------------------------ *)
Section Generic.
Variable p : chr -> bool.
Hypothesis Hp : forall l, p (spacel l) = false.

Definition pel (e : elem) : list sitem :=
  match e with Str s _ => map inr (filter p s) | Frag n => [inl n] end.
Definition pline (l : tline) : list sitem := flat_map pel (tv l).
Definition plines (b : wblock) : list sitem := flat_map pline (wtext b) ++ pline (wline b).
Definition pstream (b : wblock) : list sitem := plines b ++ flat_map pel (wword b).

Definition pchars (s : text) : list sitem := map inr (filter p s).

Lemma pchars_app a b : pchars (a ++ b) = pchars a ++ pchars b.
Proof. unfold pchars. rewrite filter_app, map_app. reflexivity. Qed.
Lemma pchars_nil : pchars [] = [].
Proof. reflexivity. Qed.

Lemma filter_spacesl lb n : filter p (spacesl lb n) = [].
Proof.
  unfold spacesl. induction (N.to_nat n) as [|k IH]; cbn [repeat_chr filter];
    [reflexivity | rewrite Hp; exact IH].
Qed.
Lemma pchars_spacesl lb n : pchars (spacesl lb n) = [].
Proof. unfold pchars. rewrite filter_spacesl. reflexivity. Qed.
Lemma pchars_spacel lb : pchars [spacel lb] = [].
Proof. unfold pchars. cbn [filter]. rewrite Hp. reflexivity. Qed.

(* ---- TaggedLine primitives ---- *)

Lemma pel_vpm v s t : flat_map pel (v_push_merge v s t) = flat_map pel v ++ pchars s.
Proof.
  induction v as [|e v IH].
  - cbn [v_push_merge flat_map pel app]. rewrite app_nil_r. reflexivity.
  - destruct v as [|e' v].
    + cbn [v_push_merge]. destruct e as [s0 t0|n].
      * destruct (tag_eqb t0 t); cbn [flat_map pel app]; rewrite ?app_nil_r.
        -- apply pchars_app.
        -- reflexivity.
      * cbn [flat_map pel app]. rewrite app_nil_r. reflexivity.
    + rewrite v_push_merge_cons2.
      change (flat_map pel (e :: v_push_merge (e' :: v) s t))
        with (pel e ++ flat_map pel (v_push_merge (e' :: v) s t)).
      rewrite IH.
      change (flat_map pel (e :: e' :: v)) with (pel e ++ flat_map pel (e' :: v)).
      rewrite app_assoc. reflexivity.
Qed.

Lemma pline_push_str l s t : pline (tl_push_str l s t) = pline l ++ pchars s.
Proof.
  unfold tl_push_str. destruct s as [|c s].
  - rewrite pchars_nil, app_nil_r. reflexivity.
  - unfold pline. cbn [tv]. apply pel_vpm.
Qed.

Lemma pline_push l e : pline (tl_push l e) = pline l ++ pel e.
Proof.
  destruct e as [s t|n]; cbn [tl_push].
  - apply pline_push_str.
  - unfold pline. cbn [tv]. rewrite flat_map_app. cbn [flat_map]. rewrite app_nil_r. reflexivity.
Qed.

Lemma pline_fold els : forall l, pline (fold_left tl_push els l) = pline l ++ flat_map pel els.
Proof.
  induction els as [|e els IH]; intros l; cbn [fold_left flat_map].
  - rewrite app_nil_r. reflexivity.
  - rewrite IH, pline_push, app_assoc. reflexivity.
Qed.

Lemma pline_push_char l c t : pline (tl_push_char l c t) = pline l ++ pchars [c].
Proof. unfold tl_push_char, pline. cbn [tv]. apply pel_vpm. Qed.

Lemma pline_push_wsl lb l n t : pline (tl_push_wsl lb l n t) = pline l.
Proof. unfold tl_push_wsl. rewrite pline_push_str, pchars_spacesl, app_nil_r. reflexivity. Qed.

Lemma pline_pad_to l w t l' : tl_pad_to l w t = Ok l' -> pline l' = pline l.
Proof.
  unfold tl_pad_to. intros H. bd H x Hx.
  destruct (x <? w); inversion H; subst; [apply pline_push_wsl | reflexivity].
Qed.

Lemma pline_new : pline tl_new = [].
Proof. reflexivity. Qed.

(* ---- "lines changed only by made spaces, word untouched" ---- *)

Definition same (b b' : wblock) : Prop := plines b' = plines b /\ wword b' = wword b.

Lemma same_refl b : same b b.
Proof. split; reflexivity. Qed.
Lemma same_trans a b c : same a b -> same b c -> same a c.
Proof. intros [H1 H2] [H3 H4]. split; congruence. Qed.
Lemma pstream_same b b' : same b b' -> pstream b' = pstream b.
Proof. intros [H1 H2]. unfold pstream. rewrite H1, H2. reflexivity. Qed.

Lemma plines_set_line b l : plines (set_line b l) = flat_map pline (wtext b) ++ pline l.
Proof. reflexivity. Qed.
Lemma plines_push b e : plines (set_line b (tl_push (wline b) e)) = plines b ++ pel e.
Proof. rewrite plines_set_line, pline_push. unfold plines. rewrite app_assoc. reflexivity. Qed.

Lemma same_push_wsl b lb n t : same b (set_line b (tl_push_wsl lb (wline b) n t)).
Proof. split; [|reflexivity]. rewrite plines_set_line, pline_push_wsl. reflexivity. Qed.
Lemma same_push_spaces b lb n t : same b (set_line b (tl_push (wline b) (Str (spacesl lb n) t))).
Proof. exact (same_push_wsl b lb n t). Qed.
Lemma same_push_space_char b lb t : same b (set_line b (tl_push_char (wline b) (spacel lb) t)).
Proof.
  split; [|reflexivity].
  rewrite plines_set_line, pline_push_char, pchars_spacel, app_nil_r. reflexivity.
Qed.

Lemma ffl_same b b' : force_flush_line b = Ok b' -> same b b'.
Proof.
  unfold force_flush_line. intros H. bd H l Hl. inversion H; subst. clear H.
  assert (El : pline l = pline (wline b)).
  { destruct (pad_blocks b); [eapply pline_pad_to; exact Hl | inversion Hl; reflexivity]. }
  split; [|reflexivity].
  unfold plines. cbn [set_text_line wtext wline]. rewrite flat_map_app. cbn [flat_map].
  rewrite El, pline_new, !app_nil_r. reflexivity.
Qed.

Lemma fl_same b b' : flush_line b = Ok b' -> same b b'.
Proof.
  unfold flush_line. destruct (tl_is_empty (wline b)); intros H.
  - inversion H; subst. (split; reflexivity).
  - apply ffl_same, H.
Qed.

Lemma ws_loop_same : forall fuel b b', ws_loop fuel b = Ok b' -> same b b'.
Proof.
  induction fuel as [|f IH]; intros b b' H; cbn [ws_loop] in H.
  - destruct (wslen b =? 0); [|discriminate H]. inversion H; subst. (split; reflexivity).
  - destruct (wslen b =? 0); [inversion H; subst; (split; reflexivity)|].
    destruct (wwidth b =? 0); [inversion H; subst; (split; reflexivity)|].
    destruct (spacetag b) as [st|]; [|discriminate H].
    cbv zeta in H. bd H b2 H2. apply IH in H.
    eapply same_trans; [|exact H].
    change (same b b2).
    eapply same_trans; [apply (same_push_wsl b L_space (N.min (wslen b) (wwidth b)) st)|].
    destruct (N.min (wslen b) (wwidth b) =? wwidth b).
    + apply fl_same, H2.
    + inversion H2; subst. (split; reflexivity).
Qed.

Lemma tab_loop_same : forall fuel b t tw pos one fl r,
  tab_loop fuel b t tw pos one fl = Ok r -> same b (fst r).
Proof.
  induction fuel as [|f IH]; intros b t tw pos one fl r H; cbn [tab_loop] in H.
  - destruct (negb (pos mod 8 =? 0) || negb one); [discriminate H|].
    inversion H; subst. (split; reflexivity).
  - destruct (negb (pos mod 8 =? 0) || negb one);
      [|inversion H; subst; (split; reflexivity)].
    destruct (wwidth b =? 0); [inversion H; subst; (split; reflexivity)|].
    destruct (wwidth b <=? pos).
    + bd H b1 H1. apply fl_same in H1. apply IH in H. eapply same_trans; eauto.
    + apply IH in H. eapply same_trans; [apply (same_push_space_char b L_space t)|exact H].
Qed.

(* ---- hard wrap: the word's elements are appended to the lines, in order ---- *)

Lemma hw_piece_stream t w : forall fuel b rest consumed ll wpos b' ll',
  hw_piece fuel b t w rest consumed ll wpos = Ok (b', ll') ->
  plines b' = plines b ++ pchars rest /\ wword b' = wword b.
Proof.
  induction fuel as [|f IH]; intros b rest consumed ll wpos b' ll' H; cbn [hw_piece] in H;
    [discriminate H|].
  bd H rem Hrem. destruct (ll <? rem).
  - bd H r Hr. destruct r as [[taken x] wpos']. cbv zeta in H.
    bd H b2 H2. apply IH in H. destruct H as [HA HB].
    apply ffl_same in H2. destruct H2 as [H2a H2b].
    apply hw_scan_split in Hr.
    split.
    + rewrite HA, H2a, plines_push. cbn [pel]. fold (pchars taken).
      rewrite <- app_assoc, <- pchars_app, Hr. reflexivity.
    + rewrite HB, H2b. reflexivity.
  - destruct (negb consumed).
    + bd H l1 Hl1. inversion H; subst. split; [exact (plines_push b (Str rest t))|reflexivity].
    + destruct rest as [|c rest].
      * inversion H; subst. rewrite pchars_nil, app_nil_r. split; reflexivity.
      * bd H l1 Hl1. inversion H; subst.
        split; [exact (plines_push b (Str (c :: rest) t))|reflexivity].
Qed.

Lemma hw_elems_stream : forall els b ll b',
  hw_elems b els ll = Ok b' ->
  plines b' = plines b ++ flat_map pel els /\ wword b' = wword b.
Proof.
  induction els as [|e els IH]; intros b ll b' H; cbn [hw_elems] in H.
  - inversion H; subst. cbn [flat_map]. rewrite app_nil_r. split; reflexivity.
  - destruct e as [s t|n].
    + bd H r Hr. destruct r as [b1 ll1]. apply hw_piece_stream in Hr. destruct Hr as [HA HB].
      apply IH in H. destruct H as [HC HD]. split.
      * rewrite HC, HA. cbn [flat_map pel]. rewrite app_assoc. reflexivity.
      * congruence.
    + apply IH in H. destruct H as [HC HD]. split.
      * rewrite HC, plines_push. cbn [flat_map]. rewrite <- app_assoc. reflexivity.
      * rewrite HD. reflexivity.
Qed.

Lemma fwhw_stream b b' :
  flush_word_hard_wrap b = Ok b' ->
  plines b' = plines b ++ flat_map pel (wword b) /\ wword b' = [].
Proof.
  unfold flush_word_hard_wrap. intros H. bd H ll Hll. cbv zeta in H.
  apply hw_elems_stream in H. exact H.
Qed.

(* ---- flush_word ---- *)

Lemma fw_space_fit b b1 :
  (if 0 <? wslen b
   then match spacetag b with
        | None => Panic 2
        | Some st =>
          Ok (set_space (set_line b (tl_push (wline b) (Str (spacesl L_space (wslen b)) st))) None 0)
        end
   else Ok b) = Ok b1 -> same b b1.
Proof.
  destruct (0 <? wslen b); intros H.
  - destruct (spacetag b) as [st|]; [|discriminate H]. inversion H; subst.
    exact (same_push_spaces b L_space (wslen b) st).
  - inversion H; subst. (split; reflexivity).
Qed.

Lemma fw_space_nofit b m sil b1 :
  (if negb (do_wrap m)
   then if sil <=? wslen b
        then Ok (set_space b (spacetag b) (wslen b - sil))
        else if 0 <? wslen b
             then match spacetag b with
                  | None => Panic 2
                  | Some st =>
                    Ok (set_space (set_line b (tl_push_wsl L_space (wline b) (wslen b) st)) None 0)
                  end
             else Ok b
   else Ok (set_space b None 0)) = Ok b1 -> same b b1.
Proof.
  destruct (negb (do_wrap m)); intros H.
  - destruct (sil <=? wslen b); [inversion H; subst; (split; reflexivity)|].
    destruct (0 <? wslen b); [|inversion H; subst; (split; reflexivity)].
    destruct (spacetag b) as [st|]; [|discriminate H]. inversion H; subst.
    exact (same_push_wsl b L_space (wslen b) st).
  - inversion H; subst. (split; reflexivity).
Qed.

Lemma flush_word_stream b m b' : flush_word b m = Ok b' -> pstream b' = pstream b.
Proof.
  unfold flush_word. destruct (word_is_empty (wword b)); intros H.
  - inversion H; subst. reflexivity.
  - cbv zeta in H. bd H sil Hsil.
    ifd H Hfit.
    + bd H b1 H1. apply fw_space_fit in H1. destruct H1 as [H1a H1b].
      inversion H; subst. clear H.
      unfold pstream. cbn [set_word wword flat_map]. rewrite app_nil_r.
      change (plines (set_word (set_line b1 (fold_left tl_push (wword b1) (wline b1))) [] 0))
        with (plines (set_line b1 (fold_left tl_push (wword b1) (wline b1)))).
      rewrite plines_set_line, pline_fold, app_assoc.
      change (flat_map pline (wtext b1) ++ pline (wline b1)) with (plines b1).
      rewrite H1a, H1b. reflexivity.
    + bd H b1 H1. apply fw_space_nofit in H1.
      bd H b2 H2. apply fl_same in H2.
      bd H b4 H4. apply ws_loop_same in H4.
      bd H b6 H6. apply fwhw_stream in H6. destruct H6 as [H6a H6b].
      inversion H; subst. clear H.
      assert (S5 : same b b4).
      { eapply same_trans; [exact H1|]. eapply same_trans; [exact H2|].
        destruct (is_pre m); exact H4. }
      destruct S5 as [S5a S5b].
      unfold pstream.
      change (plines (set_word b6 (wword b6) 0)) with (plines b6).
      change (wword (set_word b6 (wword b6) 0)) with (wword b6).
      rewrite H6a, H6b. cbn [flat_map]. rewrite app_nil_r.
      change (plines (set_space b4 None (wslen b4))) with (plines b4).
      change (wword (set_space b4 None (wslen b4))) with (wword b4).
      rewrite S5a, S5b. reflexivity.
Qed.

(* ---- add_char / add_chars / wb_add_text ---- *)

Lemma kept_cons c s : kept (c :: s) = kept [c] ++ kept s.
Proof.
  unfold kept. cbn [filter].
  destruct (negb (ws c) && match cw c with Some _ => true | None => false end); reflexivity.
Qed.
Lemma kept_ws c : ws c = true -> kept [c] = [].
Proof. intros H. unfold kept. cbn [filter]. rewrite H. reflexivity. Qed.
Lemma kept_nowidth c : cw c = None -> kept [c] = [].
Proof. intros H. unfold kept. cbn [filter]. rewrite H, andb_false_r. reflexivity. Qed.
Lemma kept_char c w : ws c = false -> cw c = Some w -> kept [c] = [c].
Proof. intros H H'. unfold kept. cbn [filter]. rewrite H, H'. reflexivity. Qed.

Lemma pstream_word_push b n c t :
  pstream (set_word b (v_push_merge (wword b) [c] t) n) = pstream b ++ pchars [c].
Proof.
  unfold pstream. cbn [set_word wword].
  change (plines (set_word b (v_push_merge (wword b) [c] t) n)) with (plines b).
  rewrite pel_vpm, app_assoc. reflexivity.
Qed.

Lemma add_char_stream m t1 t2 b u c b' u' :
  add_char m t1 t2 (b, u) c = Ok (b', u') ->
  pstream b' = pstream b ++ pchars (kept [c]).
Proof.
  unfold add_char. intros H. bd H b0 H0.
  assert (S0 : pstream b0 = pstream b).
  { destruct (ws c && (0 <? wordlen b));
      [eapply flush_word_stream; exact H0 | inversion H0; reflexivity]. }
  cbv zeta in H. rewrite <- S0. clear H0 S0 b.
  destruct (ws c) eqn:Hws.
  - rewrite (kept_ws c Hws), pchars_nil, app_nil_r. apply pstream_same.
    destruct (preserve_ws m).
    + destruct (cp c =? 10).
      { bd H b1 H1. inversion H; subst. apply ffl_same in H1. exact H1. }
      destruct (cp c =? 9).
      { bd H r H1. cbv zeta in H. inversion H; subst. apply tab_loop_same in H1.
        destruct (is_pre m && snd r); exact H1. }
      destruct (cw c) as [cwidth|]; [|inversion H; subst; (split; reflexivity)].
      destruct (wwidth b0 <? tlen_ (wline b0) + wslen b0 + cwidth);
        [|inversion H; subst; (split; reflexivity)].
      bd H b2 H2. apply fl_same in H2.
      destruct (do_wrap m); inversion H; subst; exact H2.
    + destruct ((0 <? tlen_ (wline b0)) && (wslen b0 =? 0)); inversion H; subst; (split; reflexivity).
  - destruct (cw c) as [cwidth|] eqn:Hcw.
    + rewrite (kept_char c cwidth Hws Hcw). inversion H; subst. clear H.
      rewrite pstream_word_push.
      destruct (is_pre m && (wwidth b0 <? tlen_ (wline b0) + wslen b0 + (wordlen b0 + cwidth)));
        reflexivity.
    + rewrite (kept_nowidth c Hcw), pchars_nil, app_nil_r. inversion H; subst. reflexivity.
Qed.

Lemma add_chars_stream m t1 t2 : forall s b u b' u',
  add_chars m t1 t2 (b, u) s = Ok (b', u') ->
  pstream b' = pstream b ++ pchars (kept s).
Proof.
  induction s as [|c s IH]; intros b u b' u' H; cbn [add_chars] in H.
  - inversion H; subst. cbn [kept filter]. rewrite pchars_nil, app_nil_r. reflexivity.
  - bd H st Hst. destruct st as [b1 u1].
    apply add_char_stream in Hst. apply IH in H.
    rewrite H, Hst, (kept_cons c s), pchars_app, app_assoc. reflexivity.
Qed.

Lemma add_text_stream b s m t1 t2 b' :
  wb_add_text b s m t1 t2 = Ok b' -> pstream b' = pstream b ++ pchars (kept s).
Proof.
  unfold wb_add_text. intros H. bd H r Hr. destruct r as [b1 u1].
  inversion H; subst. cbn [fst]. eapply add_chars_stream; exact Hr.
Qed.

Lemma add_frag_stream b n : pstream (wb_add_element b (Frag n)) = pstream b ++ [inl n].
Proof.
  unfold pstream. cbn [wb_add_element set_word wword].
  change (plines (set_word b (wword b ++ [Frag n]) (wordlen b))) with (plines b).
  rewrite flat_map_app, app_assoc. reflexivity.
Qed.

(* ---- wb_flush / wb_into_lines ---- *)

Lemma wb_flush_stream b b' : wb_flush b = Ok b' -> pstream b' = pstream b.
Proof.
  unfold wb_flush. intros H. bd H b1 H1.
  apply flush_word_stream in H1. apply fl_same, pstream_same in H. congruence.
Qed.

Lemma projr_pel e : projr (pel e) = filter p (elem_text e).
Proof. destruct e as [s t|n]; cbn [pel elem_text]; [apply projr_map_inr | reflexivity]. Qed.
Lemma projr_flat_pel v : projr (flat_map pel v) = filter p (flat_map elem_text v).
Proof.
  induction v as [|e v IH]; cbn [flat_map]; [reflexivity|].
  rewrite projr_app, filter_app, projr_pel, IH. reflexivity.
Qed.
Lemma projr_pline l : projr (pline l) = filter p (tl_string l).
Proof. apply projr_flat_pel. Qed.
Lemma projr_plines ls : projr (flat_map pline ls) = filter p (flat_map tl_string ls).
Proof.
  induction ls as [|l ls IH]; cbn [flat_map]; [reflexivity|].
  rewrite projr_app, filter_app, projr_pline, IH. reflexivity.
Qed.
Lemma projr_pstream b :
  projr (pstream b) =
  filter p (flat_map tl_string (wtext b) ++ tl_string (wline b) ++ flat_map elem_text (wword b)).
Proof.
  unfold pstream, plines.
  rewrite !projr_app, !filter_app, projr_plines, projr_pline, projr_flat_pel, app_assoc.
  reflexivity.
Qed.

End Generic.

(* ------------------------------------------------------------------ *)
(* p-free facts about what is left pending after a flush *)

Lemma no_content_text v : existsb elem_has_content v = false -> flat_map elem_text v = [].
Proof.
  induction v as [|e v IH]; cbn [existsb flat_map]; [reflexivity|].
  destruct e as [s t|n]; cbn [elem_has_content orb elem_text app]; [discriminate | exact IH].
Qed.
Lemma word_is_empty_text v : word_is_empty v = true -> flat_map elem_text v = [].
Proof.
  unfold word_is_empty. intros H. apply no_content_text.
  destruct (existsb elem_has_content v); [discriminate H | reflexivity].
Qed.
Lemma tl_is_empty_string l : tl_is_empty l = true -> tl_string l = [].
Proof. apply word_is_empty_text. Qed.

Definition all_true (c : chr) : bool := true.

Lemma fl_word b b' : flush_line b = Ok b' -> wword b' = wword b.
Proof.
  unfold flush_line, force_flush_line. destruct (tl_is_empty (wline b)); intros H.
  - inversion H; reflexivity.
  - bd H l Hl. inversion H; reflexivity.
Qed.
Lemma ffl_word b b' : force_flush_line b = Ok b' -> wword b' = wword b.
Proof. unfold force_flush_line. intros H. bd H l Hl. inversion H; reflexivity. Qed.

Lemma ws_loop_word : forall fuel b b', ws_loop fuel b = Ok b' -> wword b' = wword b.
Proof.
  induction fuel as [|f IH]; intros b b' H; cbn [ws_loop] in H.
  - destruct (wslen b =? 0); [|discriminate H]. inversion H; reflexivity.
  - destruct (wslen b =? 0); [inversion H; reflexivity|].
    destruct (wwidth b =? 0); [inversion H; reflexivity|].
    destruct (spacetag b) as [st|]; [|discriminate H].
    cbv zeta in H. bd H b2 H2. apply IH in H. rewrite H.
    change (wword (set_space b2 (spacetag b2) (wslen b2 - N.min (wslen b) (wwidth b))))
      with (wword b2).
    destruct (N.min (wslen b) (wwidth b) =? wwidth b).
    + apply fl_word in H2. exact H2.
    + inversion H2; reflexivity.
Qed.

Lemma hw_piece_word t w : forall fuel b rest consumed ll wpos b' ll',
  hw_piece fuel b t w rest consumed ll wpos = Ok (b', ll') -> wword b' = wword b.
Proof.
  induction fuel as [|f IH]; intros b rest consumed ll wpos b' ll' H; cbn [hw_piece] in H;
    [discriminate H|].
  bd H rem Hrem. destruct (ll <? rem).
  - bd H r Hr. destruct r as [[taken x] wpos']. cbv zeta in H.
    bd H b2 H2. apply IH in H. apply ffl_word in H2. rewrite H, H2. reflexivity.
  - destruct (negb consumed).
    + bd H l1 Hl1. inversion H; reflexivity.
    + destruct rest as [|c rest].
      * inversion H; reflexivity.
      * bd H l1 Hl1. inversion H; reflexivity.
Qed.

Lemma hw_elems_word : forall els b ll b', hw_elems b els ll = Ok b' -> wword b' = wword b.
Proof.
  induction els as [|e els IH]; intros b ll b' H; cbn [hw_elems] in H.
  - inversion H; reflexivity.
  - destruct e as [s t|n].
    + bd H r Hr. destruct r as [b1 ll1]. apply hw_piece_word in Hr. apply IH in H. congruence.
    + apply IH in H. rewrite H. reflexivity.
Qed.

Lemma flush_word_word_empty b m b' :
  flush_word b m = Ok b' -> word_is_empty (wword b') = true.
Proof.
  unfold flush_word. destruct (word_is_empty (wword b)) eqn:Hwe; intros H.
  - inversion H; subst. exact Hwe.
  - cbv zeta in H. bd H sil Hsil. ifd H Hfit.
    + bd H b1 H1. inversion H; reflexivity.
    + bd H b1 H1. bd H b2 H2. bd H b4 H4. bd H b6 H6. inversion H; subst.
      unfold flush_word_hard_wrap in H6. bd H6 ll Hll. cbv zeta in H6.
      apply hw_elems_word in H6.
      change (wword (set_word b6 (wword b6) 0)) with (wword b6). rewrite H6. reflexivity.
Qed.

Lemma wb_flush_pending_empty b b' :
  wb_flush b = Ok b' -> tl_string (wline b') = [] /\ flat_map elem_text (wword b') = [].
Proof.
  unfold wb_flush. intros H. bd H b1 H1. apply flush_word_word_empty in H1.
  split.
  - unfold flush_line, force_flush_line in H. destruct (tl_is_empty (wline b1)) eqn:He.
    + inversion H; subst. apply tl_is_empty_string, He.
    + bd H l Hl. inversion H; reflexivity.
  - apply fl_word in H. rewrite H. apply word_is_empty_text, H1.
Qed.

Lemma into_lines_generic p (Hp : forall l, p (spacel l) = false) b ls :
  wb_into_lines b = Ok ls -> filter p (flat_map tl_string ls) = projr (pstream p b).
Proof.
  unfold wb_into_lines. intros H. bd H b1 H1. inversion H; subst. clear H.
  rewrite <- (wb_flush_stream p Hp b b1 H1), projr_pstream.
  apply wb_flush_pending_empty in H1. destruct H1 as [Ha Hb].
  rewrite Ha, Hb, !app_nil_r. reflexivity.
Qed.

(* ------------------------------------------------------------------ *)
(* Runs *)

Definition tcall : Type := (text * wsmode * tag * tag)%type.
Definition call_text (c : tcall) : text := fst (fst (fst c)).
Definition step (rb : res wblock) (c : tcall) : res wblock :=
  do b <- rb; let '(s, m, t1, t2) := c in wb_add_text b s m t1 t2.

Lemma fold_step_notok calls : forall r b,
  fold_left step calls r = Ok b -> exists b0, r = Ok b0.
Proof.
  induction calls as [|c calls IH]; intros r b H; cbn [fold_left] in H.
  - eauto.
  - apply IH in H. destruct H as [b1 H]. destruct r as [b0| | |]; try discriminate H. eauto.
Qed.

Lemma fold_step_stream p (Hp : forall l, p (spacel l) = false) calls : forall b0 b,
  fold_left step calls (Ok b0) = Ok b ->
  pstream p b = pstream p b0 ++ pchars p (flat_map (fun c => kept (call_text c)) calls).
Proof.
  induction calls as [|c calls IH]; intros b0 b H; cbn [fold_left flat_map] in *.
  - inversion H; subst. rewrite pchars_nil, app_nil_r. reflexivity.
  - destruct (fold_step_notok _ _ _ H) as [b1 H1]. rewrite H1 in H. apply IH in H.
    destruct c as [[[s m] t1] t2]. cbn [step bind] in H1.
    apply (add_text_stream p Hp) in H1.
    rewrite H, H1, pchars_app, app_assoc. reflexivity.
Qed.

(* ------------------------------------------------------------------ *)
(* Instance 1: non-whitespace characters *)

Lemma nonws_spacel l : nonws (spacel l) = false.
Proof. reflexivity. Qed.

(* the stream of a block: markers and non-whitespace characters, in the order
   finished lines, current line, pending word *)
Definition stream (b : wblock) : list sitem := pstream nonws b.

Lemma content_stream b : content b = projr (stream b).
Proof. unfold stream. rewrite projr_pstream. reflexivity. Qed.

Lemma projl_pel p e : projl (pel p e) = match e with Frag n => [n] | Str _ _ => [] end.
Proof. destruct e as [s t|n]; cbn [pel]; [apply projl_map_inr | reflexivity]. Qed.
Lemma projl_flat_pel p v :
  projl (flat_map (pel p) v) = flat_map (fun e => match e with Frag n => [n] | Str _ _ => [] end) v.
Proof.
  induction v as [|e v IH]; cbn [flat_map]; [reflexivity|].
  rewrite projl_app, projl_pel, IH. reflexivity.
Qed.
Lemma projl_plines p ls : projl (flat_map (pline p) ls) = flat_map frags_of_line ls.
Proof.
  induction ls as [|l ls IH]; cbn [flat_map]; [reflexivity|].
  rewrite projl_app, IH. unfold pline at 1. rewrite projl_flat_pel. reflexivity.
Qed.
Lemma frags_pstream p b : frags b = projl (pstream p b).
Proof.
  unfold pstream, plines, frags. rewrite !projl_app, projl_plines, projl_flat_pel.
  unfold pline. rewrite projl_flat_pel, app_assoc. reflexivity.
Qed.
Lemma frags_stream b : frags b = projl (stream b).
Proof. apply frags_pstream. Qed.

Lemma filter_nonws_kept s : filter (fun c => negb (ws c)) (kept s) = kept s.
Proof.
  unfold kept. induction s as [|c s IH]; cbn [filter]; [reflexivity|].
  destruct (ws c) eqn:Hws; cbn [negb andb]; [exact IH|].
  destruct (cw c); [|exact IH]. cbn [filter]. rewrite Hws. cbn [negb]. rewrite IH. reflexivity.
Qed.
Lemma filter_nonws_flat_kept (calls : list tcall) :
  filter nonws (flat_map (fun c => kept (call_text c)) calls)
  = flat_map (fun c => kept (call_text c)) calls.
Proof.
  induction calls as [|c calls IH]; cbn [flat_map]; [reflexivity|].
  rewrite filter_app, IH. unfold nonws at 1. rewrite filter_nonws_kept. reflexivity.
Qed.

Lemma pchars_nonws_kept s : pchars nonws (kept s) = map inr (kept s).
Proof. unfold pchars, nonws. rewrite filter_nonws_kept. reflexivity. Qed.

(* ---------------- C14 stream theorems ---------------- *)

Theorem c14_stream_add_text : forall b s m t1 t2 b',
  wb_add_text b s m t1 t2 = Ok b' -> stream b' = stream b ++ map inr (kept s).
Proof.
  intros b s m t1 t2 b' H. unfold stream.
  rewrite (add_text_stream nonws nonws_spacel _ _ _ _ _ _ H), pchars_nonws_kept. reflexivity.
Qed.

Theorem c14_stream_add_frag : forall b n,
  stream (wb_add_element b (Frag n)) = stream b ++ [inl n].
Proof. intros. apply add_frag_stream. Qed.

Theorem c14_stream_flush : forall b b', wb_flush b = Ok b' -> stream b' = stream b.
Proof. intros b b' H. exact (wb_flush_stream nonws nonws_spacel b b' H). Qed.

Theorem c14_stream_flush_word : forall b m b', flush_word b m = Ok b' -> stream b' = stream b.
Proof. intros b m b' H. exact (flush_word_stream nonws nonws_spacel b m b' H). Qed.

(* ---------------- C03 ---------------- *)

Theorem c03_add_text_conserves : forall b s m t1 t2 b',
  wb_add_text b s m t1 t2 = Ok b' -> content b' = content b ++ kept s.
Proof.
  intros b s m t1 t2 b' H. rewrite !content_stream, (c14_stream_add_text _ _ _ _ _ _ H).
  rewrite projr_app, projr_map_inr. reflexivity.
Qed.

Theorem c03_into_lines_conserves : forall b ls,
  wb_into_lines b = Ok ls ->
  filter (fun c => negb (ws c)) (flat_map tl_string ls) = content b.
Proof.
  intros b ls H. rewrite content_stream. exact (into_lines_generic nonws nonws_spacel b ls H).
Qed.

Lemma pstream_new p W pad ovf : pstream p (wb_new W pad ovf) = [].
Proof. reflexivity. Qed.

Theorem c03_run_conserves : forall W pad ovf (calls : list (text * wsmode * tag * tag)) ls,
  (do b <- fold_left (fun rb c => do b <- rb; let '(s, m, t1, t2) := c in wb_add_text b s m t1 t2)
                     calls (Ok (wb_new W pad ovf));
   wb_into_lines b) = Ok ls ->
  filter (fun c => negb (ws c)) (flat_map tl_string ls)
  = flat_map (fun c => kept (fst (fst (fst c)))) calls.
Proof.
  intros W pad ovf calls ls H.
  change (fun rb c => do b <- rb; let '(s, m, t1, t2) := c in wb_add_text b s m t1 t2)
    with step in H.
  bd H b Hb.
  apply (into_lines_generic nonws nonws_spacel) in H.
  apply (fold_step_stream nonws nonws_spacel) in Hb.
  rewrite pstream_new, app_nil_l in Hb.
  change (fun c : chr => negb (ws c)) with nonws. rewrite H, Hb.
  unfold pchars. rewrite projr_map_inr. apply filter_nonws_flat_kept.
Qed.

(* Instance 2: whitespace characters that are not U+0020 -- there are none *)
Definition odd_ws (c : chr) : bool := ws c && negb (cp c =? 32).

Lemma odd_ws_spacel l : odd_ws (spacel l) = false.
Proof. reflexivity. Qed.

Lemma filter_odd_kept s : filter odd_ws (kept s) = [].
Proof.
  unfold kept. induction s as [|c s IH]; cbn [filter]; [reflexivity|].
  destruct (ws c) eqn:Hws; cbn [negb andb]; [exact IH|].
  destruct (cw c); [|exact IH]. cbn [filter]. unfold odd_ws at 1. rewrite Hws. cbn [andb].
  exact IH.
Qed.
Lemma filter_odd_flat_kept (calls : list tcall) :
  filter odd_ws (flat_map (fun c => kept (call_text c)) calls) = [].
Proof.
  induction calls as [|c calls IH]; cbn [flat_map]; [reflexivity|].
  rewrite filter_app, IH, filter_odd_kept. reflexivity.
Qed.

Theorem c03_only_spaces_invented : forall W pad ovf (calls : list (text * wsmode * tag * tag)) ls,
  (do b <- fold_left (fun rb c => do b <- rb; let '(s, m, t1, t2) := c in wb_add_text b s m t1 t2)
                     calls (Ok (wb_new W pad ovf));
   wb_into_lines b) = Ok ls ->
  forall c, In c (flat_map tl_string ls) -> ws c = true -> cp c = 32.
Proof.
  intros W pad ovf calls ls H c Hin Hws.
  change (fun rb c => do b <- rb; let '(s, m, t1, t2) := c in wb_add_text b s m t1 t2)
    with step in H.
  bd H b Hb.
  apply (into_lines_generic odd_ws odd_ws_spacel) in H.
  apply (fold_step_stream odd_ws odd_ws_spacel) in Hb.
  rewrite pstream_new, app_nil_l in Hb. rewrite Hb in H.
  unfold pchars in H. rewrite filter_odd_flat_kept in H. cbn [map projr flat_map] in H.
  destruct (cp c =? 32) eqn:E; [apply N.eqb_eq, E|].
  assert (Hc : In c (filter odd_ws (flat_map tl_string ls))).
  { apply filter_In. split; [exact Hin|]. unfold odd_ws. rewrite Hws, E. reflexivity. }
  rewrite H in Hc. contradiction.
Qed.

(* the other half of "everything else is whitespace": a character of the output that is not
   whitespace is one of the kept document characters *)
Corollary c03_nonws_is_document : forall W pad ovf (calls : list (text * wsmode * tag * tag)) ls,
  (do b <- fold_left (fun rb c => do b <- rb; let '(s, m, t1, t2) := c in wb_add_text b s m t1 t2)
                     calls (Ok (wb_new W pad ovf));
   wb_into_lines b) = Ok ls ->
  forall c, In c (flat_map tl_string ls) -> ws c = false ->
  In c (flat_map (fun c => kept (fst (fst (fst c)))) calls).
Proof.
  intros W pad ovf calls ls H c Hin Hws.
  rewrite <- (c03_run_conserves _ _ _ _ _ H). apply filter_In. split; [exact Hin|].
  rewrite Hws. reflexivity.
Qed.

(* ---------------- C14 ---------------- *)

Theorem c14_add_text_keeps_frags : forall b s m t1 t2 b',
  wb_add_text b s m t1 t2 = Ok b' -> frags b' = frags b.
Proof.
  intros b s m t1 t2 b' H. rewrite !frags_stream, (c14_stream_add_text _ _ _ _ _ _ H).
  rewrite projl_app, projl_map_inr, app_nil_r. reflexivity.
Qed.

Theorem c14_add_frag : forall b n, frags (wb_add_element b (Frag n)) = frags b ++ [n].
Proof.
  intros b n. rewrite !frags_stream, c14_stream_add_frag, projl_app. reflexivity.
Qed.

Theorem c14_flush_keeps_frags : forall b b', wb_flush b = Ok b' -> frags b' = frags b.
Proof.
  intros b b' H. rewrite !frags_stream, (c14_stream_flush _ _ H). reflexivity.
Qed.

Theorem c14_flush_word_keeps_frags : forall b m b', flush_word b m = Ok b' -> frags b' = frags b.
Proof.
  intros b m b' H. rewrite !frags_stream, (c14_stream_flush_word _ _ _ H). reflexivity.
Qed.

(* adding an element (marker) never touches the document characters *)
Theorem c03_add_frag_content : forall b n, content (wb_add_element b (Frag n)) = content b.
Proof.
  intros b n. rewrite !content_stream, c14_stream_add_frag, projr_app. cbn [projr flat_map].
  rewrite app_nil_r. reflexivity.
Qed.

(* ---------------- runs mixing text and markers ---------------- *)

Inductive action : Type :=
| AText (s : text) (m : wsmode) (main_tag wrap_tag : tag)
| AFrag (name : text).

Definition do_action (b : wblock) (a : action) : res wblock :=
  match a with
  | AText s m t1 t2 => wb_add_text b s m t1 t2
  | AFrag n => Ok (wb_add_element b (Frag n))
  end.

Fixpoint run_actions (b : wblock) (acts : list action) : res wblock :=
  match acts with
  | [] => Ok b
  | a :: acts' => do b' <- do_action b a; run_actions b' acts'
  end.

Definition action_stream (a : action) : list sitem :=
  match a with
  | AText s _ _ _ => map inr (kept s)
  | AFrag n => [inl n]
  end.

(* whole run, relative position: the stream of the block (hence, after wb_flush, of its lines
   and pending marker-only word) is exactly the sequence of kept characters and markers in the
   order they were added: a marker is after all characters added before it and before all
   characters added after it, whatever wrapping / hard-wrapping happened *)
Theorem c14_run_stream : forall acts b b',
  run_actions b acts = Ok b' -> stream b' = stream b ++ flat_map action_stream acts.
Proof.
  induction acts as [|a acts IH]; intros b b' H; cbn [run_actions flat_map] in *.
  - inversion H; subst. rewrite app_nil_r. reflexivity.
  - bd H b1 H1. apply IH in H. rewrite H, app_assoc. f_equal.
    destruct a as [s m t1 t2|n]; cbn [do_action action_stream] in *.
    + apply c14_stream_add_text in H1. exact H1.
    + inversion H1; subst. apply c14_stream_add_frag.
Qed.

Theorem c14_run_flush_stream : forall W pad ovf acts b b',
  run_actions (wb_new W pad ovf) acts = Ok b -> wb_flush b = Ok b' ->
  stream b' = flat_map action_stream acts.
Proof.
  intros W pad ovf acts b b' H Hf. apply c14_run_stream in H. apply c14_stream_flush in Hf.
  rewrite Hf, H. reflexivity.
Qed.

(* ------------------------------------------------------------------ *)
(* Non-vacuity *)

Definition Al (k0 : N) (l : list N) : text :=
  (* ASCII with labels k0, k0+1, ...; 32 / 10 are whitespace *)
  (fix go (l : list N) (k : N) : text :=
     match l with
     | [] => []
     | c :: l' => mkchr c (Some 1) ((c =? 32) || (c =? 10)) k :: go l' (k + 1)
     end) l k0.
Definition A (l : list N) : text := Al 16 l.

Definition show_line (l : tline) : list (list N + list N) :=
  map (fun e => match e with Str s _ => inr (cps s) | Frag n => inl (cps n) end) (tv l).

(* "ab " ; marker "m" ; "cdefghijklmn op"   at width 5, normal mode *)
Definition ex_acts (m : wsmode) : list action :=
  [ AText (A [97;98;32]) m [] [];
    AFrag (of_ascii [109]);
    AText (Al 40 [99;100;101;102;103;104;105;106;107;108;109;110;32;111;112]) m [] [] ].

Definition ex_run (m : wsmode) : res (list tline) :=
  do b <- run_actions (wb_new 5 false false) (ex_acts m); wb_into_lines b.

Example ex_normal_lines :
  option_map (map show_line) (match ex_run WsNormal with Ok ls => Some ls | _ => None end)
  = Some [ [inr [97;98]];
           [inl [109]; inr [99;100;101;102;103]];
           [inr [104;105;106;107;108]];
           [inr [109;110;32;111;112]] ].
Proof. vm_compute. reflexivity. Qed.

Example ex_pre_lines :
  option_map (map show_line) (match ex_run WsPre with Ok ls => Some ls | _ => None end)
  = Some [ [inr [97;98;32]];
           [inl [109]; inr [99;100;101;102;103]];
           [inr [104;105;106;107;108]];
           [inr [109;110;32;111;112]] ].
Proof. vm_compute. reflexivity. Qed.

(* the theorems apply to these runs: the marker/character stream of the flushed block is the
   input sequence (labels 16.. included), as c14_run_flush_stream says *)
Example ex_normal_theorem : forall b b',
  run_actions (wb_new 5 false false) (ex_acts WsNormal) = Ok b -> wb_flush b = Ok b' ->
  stream b' = flat_map action_stream (ex_acts WsNormal).
Proof. intros b b'. apply c14_run_flush_stream. Qed.

Example ex_normal_stream_labels :
  option_map (fun b => map (fun x => match x with inl n => inl (cps n) | inr c => inr (cp c, lab c) end)
                           (stream b))
             (match (do b <- run_actions (wb_new 5 false false) (ex_acts WsNormal); wb_flush b)
              with Ok b => Some b | _ => None end)
  = Some [ inr (97,16); inr (98,17); inl [109];
           inr (99,40); inr (100,41); inr (101,42); inr (102,43); inr (103,44); inr (104,45);
           inr (105,46); inr (106,47); inr (107,48); inr (108,49); inr (109,50); inr (110,51);
           inr (111,53); inr (112,54) ].
Proof. vm_compute. reflexivity. Qed.

(* text-only runs in the exact shape of c03_run_conserves: "ab cdefghijklmn op" *)
Definition ex_calls (m : wsmode) : list (text * wsmode * tag * tag) :=
  [ (A [97;98;32], m, [], []);
    (Al 40 [99;100;101;102;103;104;105;106;107;108;109;110;32;111;112], m, [], []) ].
Definition ex_trun (pad : bool) (m : wsmode) : res (list tline) :=
  do b <- fold_left (fun rb c => do b <- rb; let '(s, m, t1, t2) := c in wb_add_text b s m t1 t2)
                    (ex_calls m) (Ok (wb_new 5 pad false));
  wb_into_lines b.

Example ex_trun_normal :
  option_map (map (fun l => cps (tl_string l)))
             (match ex_trun true WsNormal with Ok ls => Some ls | _ => None end)
  = Some [ [97;98;32;32;32]; [99;100;101;102;103]; [104;105;106;107;108]; [109;110;32;111;112] ].
Proof. vm_compute. reflexivity. Qed.
Example ex_trun_pre :
  option_map (map (fun l => cps (tl_string l)))
             (match ex_trun false WsPre with Ok ls => Some ls | _ => None end)
  = Some [ [97;98;32]; [99;100;101;102;103]; [104;105;106;107;108]; [109;110;32;111;112] ].
Proof. vm_compute. reflexivity. Qed.
Example ex_trun_theorem : forall pad m ls, ex_trun pad m = Ok ls ->
  filter (fun c => negb (ws c)) (flat_map tl_string ls)
  = flat_map (fun c => kept (fst (fst (fst c)))) (ex_calls m).
Proof. intros pad m ls. apply c03_run_conserves. Qed.

(* Remark (not a counterexample to any statement above): a marker added after the last word stays
   pending in the word after wb_flush -- c14_flush_keeps_frags counts it there -- and is therefore
   NOT in the lines returned by wb_into_lines; the Rust caller collects it with
   take_trailing_fragments (outside these theorems). *)
Example ex_trailing_marker_pending :
  let r := do b <- run_actions (wb_new 5 false false)
                     [AText (A [97;98]) WsNormal [] []; AText (A [32]) WsNormal [] [];
                      AFrag (of_ascii [109])];
           wb_flush b in
  option_map (fun b => (map cps (flat_map frags_of_line (wtext b)), map cps (frags b)))
             (match r with Ok b => Some b | _ => None end)
  = Some ([], [[109]]).
Proof. vm_compute. reflexivity. Qed.

Print Assumptions c03_add_text_conserves.
Print Assumptions c03_into_lines_conserves.
Print Assumptions c03_run_conserves.
Print Assumptions c03_only_spaces_invented.
Print Assumptions c03_nonws_is_document.
Print Assumptions c14_add_text_keeps_frags.
Print Assumptions c14_add_frag.
Print Assumptions c14_flush_keeps_frags.
Print Assumptions c14_stream_add_text.
Print Assumptions c14_stream_add_frag.
Print Assumptions c14_run_stream.
Print Assumptions c14_run_flush_stream.
