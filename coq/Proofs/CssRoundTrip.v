(* Proofs/CssRoundTrip.v -- round trip  parse (print x) = x  for the CSS front end
   (CssParse.v): selectors, rule sets, style sheets; optional whitespace is insignificant.
   No axioms.

   Main theorems
     parse_selector_rt, parse_selector_rt_ws        (section 7)
     parse_selector_rt_nthws, parse_selector_rt_ws_nthws   (section 7; optional whitespace [nws]
                                                    inside `:nth-child( An + B )`)
     parse_ruleset_rt, parse_ruleset_rt_canon       (section 10)
     parse_stylesheet_rt_ws, parse_stylesheet_rt    (section 10)
     insignificant_whitespace                       (section 10)
     parse_ruleset_rt2, parse_stylesheet_rt_ws2, insignificant_whitespace2   (section 10; the
       positions of [wsp2] = those of [wsp] + before the `,` of a selector list + [nws]); the
       unnumbered theorems are their instances without the extra whitespace
   Former findings (section 12), repaired in CssParse (nth_full, comma_sep): `:nth-child(2n + 1)`
   and `p::before , q` are now accepted.  Still not accepted: upper case `2N+1`.

   Concrete syntax chosen for the printer (canonical spelling):
     selector   = components in SOURCE order (the parser stores them right-to-left, so
                  the printer prints  rev (comps s)), then `::before` / `::after`
     CElement n = n            CClass n = `.` n         CHash h = `#` h        CStar = `*`
     CCombChild = ` > `        CCombDescendant = ` ` (one space)
     CNthChild a b = `:nth-child(` [-]|a| `n` (+|-)|b| `)`     e.g. :nth-child(2n+1), (-3n-2), (0n+5)
     declaration = `color: #rrggbb` | `background-color: #rrggbb` | `display: none` | `display: block`
                   (DDisplay false), each optionally followed by ` !important`
     rule set    = `sel, sel { decl; decl }` newline

   Well-formed selectors, [wf_selector] (a boolean): with l = rev (comps s) the source order,
     - every component is [comp_ok]: identifiers of CElement are [-](_|a-z)(_|a-z|0-9|-)*
       ([ident_okb]; the parser lower-cases element names), those of CClass are
       [-](_|a-z|A-Z)(_|a-z|A-Z|0-9|-)* ([ident_okc]) and those of CHash (_|a-z|A-Z|0-9|-)+
       ([body_okc]): class names and ids are case-sensitive and come back as written
       (parse_ident_cased / parse_identstring_cased; before that repair of the parser they were
       lower-cased and [comp_ok] had to demand lower case for them too); |a|,|b| <= 2^31-1 (the
       range the parser accepts: it parses the magnitude as an i32 and then applies the sign);
     - [chain l]: each component may be followed by the first printed character of the next
       one ([follow]): no identifier directly after an identifier (`.a` `b` would read `.ab`),
       no two combinators in a row;
     - l is not empty and neither starts nor ends with a combinator.
   RESTRICTIONS with respect to "everything parse_selector can return":
     - identifiers over the SIMPLE ALPHABET only: element names in lower case (the parser
       lowercases A-Z there), class names and ids in either case, no
       escapes `\41 ` / `\{`, no non-ASCII characters.  The cw / ws / lab fields of the identifier
       characters are arbitrary (they survive the round trip), except that a leading `-` must be
       the parser's own [dash] character, which is what parse_ident returns.  The general case
       (escapes) is NOT done.
     - the parser also accepts and returns `> a`, `a >` and `a > > b` (leading, trailing, doubled
       child combinator; not CSS); these are excluded from [wf_selector].
     - a descendant combinator at either end is never returned (pop_desc), so excluding it is
       no restriction. *)
From H2T Require Import Base Tagged Wrap Css Dom CssParse Proofs.CssTotal.
From Coq Require Import Lia ZifyN ZifyBool ZifyNat.
Local Arguments N.add : simpl never.
Local Arguments N.sub : simpl never.
Local Arguments N.mul : simpl never.
Local Arguments N.div : simpl never.
Local Arguments N.modulo : simpl never.
Local Arguments N.leb : simpl never.
Local Arguments N.ltb : simpl never.
Local Arguments N.eqb : simpl never.
Local Arguments N.max : simpl never.
Local Arguments N.min : simpl never.
Local Open Scope N_scope.

(* ------------------------------------------------------------------ *)
(* 1. many0 / many1 / separated_list0 as relations (no fuel) *)
Inductive ManyR {A} (p : text -> pr A) : text -> list A -> text -> Prop :=
| MR_nil : forall t, p t = PFail -> ManyR p t [] t
| MR_cons : forall t a t' l r, p t = POk a t' -> (length t' < length t)%nat ->
    ManyR p t' l r -> ManyR p t (a :: l) r.

Lemma many0_f_R : forall A (p : text -> pr A) t l r, ManyR p t l r ->
  forall fuel acc, (length t < fuel)%nat -> many0_f fuel p t acc = POk (rev acc ++ l) r.
Proof.
  intros A p t l r H; induction H as [t Hp|t a t' l r Hp Hlt HR IH]; intros fuel acc Hf;
    (destruct fuel as [|f]; [lia|]); cbn [many0_f]; rewrite Hp.
  - rewrite app_nil_r; reflexivity.
  - destruct (Nat.eqb_spec (length t') (length t)) as [He|Hne]; [lia|].
    rewrite IH by lia. cbn [rev]. rewrite <- app_assoc. reflexivity.
Qed.
Lemma many0_R : forall A (p : text -> pr A) t l r, ManyR p t l r -> many0 p t = POk l r.
Proof. intros A p t l r H; unfold many0. rewrite (many0_f_R _ _ _ _ _ H) by lia. reflexivity. Qed.
Lemma many1_R : forall A (p : text -> pr A) t a l r,
  ManyR p t (a :: l) r -> many1 p t = POk (a :: l) r.
Proof.
  intros A p t a l r H; inversion H as [|t0 a0 t' l0 r0 Hp Hlt HR]; subst.
  unfold many1; rewrite Hp. rewrite (many0_f_R _ _ _ _ _ HR) by lia. reflexivity.
Qed.
Lemma many1_fail : forall A (p : text -> pr A) t, p t = PFail -> many1 p t = PFail.
Proof. intros A p t H; unfold many1; rewrite H; reflexivity. Qed.

Lemma ManyR_len : forall A (p : text -> pr A) t l r, ManyR p t l r -> (length r <= length t)%nat.
Proof. intros A p t l r H; induction H; lia. Qed.
Lemma ManyR_end : forall A (p : text -> pr A) t l r, ManyR p t l r -> p r = PFail.
Proof. intros A p t l r H; induction H; auto. Qed.
Lemma ManyR_app : forall A (p : text -> pr A) t l1 m l2 r,
  ManyR p t l1 m -> (p m = PFail -> ManyR p m l2 r) -> ManyR p t (l1 ++ l2) r.
Proof.
  intros A p t l1 m l2 r H; induction H as [t Hp|t a t' l r0 Hp Hlt HR IH]; intros H2; cbn [app].
  - auto.
  - eapply MR_cons; eauto.
Qed.
Lemma ManyR_total : forall A (p : text -> pr A), (forall t, B (length t) (p t)) ->
  forall t, exists l r, ManyR p t l r.
Proof.
  intros A p Hp t. remember (length t) as n eqn:Hn. revert t Hn.
  induction n as [n IH] using lt_wf_ind; intros t Hn.
  pose proof (Hp t) as Ht. destruct (p t) as [a rest| |s|] eqn:E; cbn [B] in Ht; try contradiction.
  - destruct (IH (length rest) ltac:(lia) rest eq_refl) as (l & r & H).
    exists (a :: l), r. eapply MR_cons; eauto.
  - exists [], t. apply MR_nil; exact E.
Qed.

Inductive SepR {A C} (sep : text -> pr C) (p : text -> pr A) : text -> list A -> text -> Prop :=
| SR_nil : forall t, sep t = PFail -> SepR sep p t [] t
| SR_stop : forall t u t1, sep t = POk u t1 -> (length t1 < length t)%nat -> p t1 = PFail ->
    SepR sep p t [] t
| SR_cons : forall t u t1 a t2 l r, sep t = POk u t1 -> (length t1 < length t)%nat ->
    p t1 = POk a t2 -> (length t2 <= length t1)%nat -> SepR sep p t2 l r ->
    SepR sep p t (a :: l) r.

Lemma sep_list_f_R : forall A C (sep : text -> pr C) (p : text -> pr A) t l r, SepR sep p t l r ->
  forall fuel acc, (length t < fuel)%nat -> sep_list_f fuel sep p t acc = POk (rev acc ++ l) r.
Proof.
  intros A C sep p t l r H;
    induction H as [t Hs|t u t1 Hs Hlt Hp|t u t1 a t2 l r Hs Hlt Hp Hle HR IH]; intros fuel acc Hf;
    (destruct fuel as [|f]; [lia|]); cbn [sep_list_f]; rewrite Hs.
  - rewrite app_nil_r; reflexivity.
  - destruct (Nat.eqb_spec (length t1) (length t)) as [He|Hne]; [lia|].
    rewrite Hp, app_nil_r; reflexivity.
  - destruct (Nat.eqb_spec (length t1) (length t)) as [He|Hne]; [lia|].
    rewrite Hp. rewrite IH by lia. cbn [rev]. rewrite <- app_assoc. reflexivity.
Qed.
Lemma separated_list0_R : forall A C (sep : text -> pr C) (p : text -> pr A) t a t1 l r,
  p t = POk a t1 -> SepR sep p t1 l r -> separated_list0 sep p t = POk (a :: l) r.
Proof.
  intros A C sep p t a t1 l r Hp H; unfold separated_list0; rewrite Hp.
  rewrite (sep_list_f_R _ _ _ _ _ _ _ H) by lia. reflexivity.
Qed.
Lemma separated_list0_nil : forall A C (sep : text -> pr C) (p : text -> pr A) t,
  p t = PFail -> separated_list0 sep p t = POk [] t.
Proof. intros A C sep p t Hp; unfold separated_list0; rewrite Hp; reflexivity. Qed.

(* ------------------------------------------------------------------ *)
(* 2. first-character conditions, tags, whitespace *)

(* [nf P t]: t does not start with a character of class P (t may be empty) *)
Definition nf (P : N -> bool) (t : text) : Prop :=
  match t with [] => True | c :: _ => P (cp c) = false end.

Definition wsstart (x : N) : bool := is_css_ws x || (x =? 47).
Definition lowstart (x : N) : bool := (x =? 95) || is_lower x.
Definition lownm (x : N) : bool := (x =? 95) || is_lower x || is_digit x || (x =? 45).
Definition identcont (x : N) : bool :=
  (x =? 95) || is_lower x || is_upper x || is_digit x || (x =? 45) || (x =? 92).

Ltac cls :=
  unfold wsstart, lowstart, lownm, identcont, is_css_ws, is_lower, is_upper, is_digit in *; lia.

Lemma nf_imp : forall (P Q : N -> bool) t,
  (forall x, P x = false -> Q x = false) -> nf P t -> nf Q t.
Proof. intros P Q [|c t] H Hn; cbn [nf] in *; auto. Qed.

Lemma cps_of_ascii : forall l, cps (of_ascii l) = l.
Proof.
  induction l as [|x l IH]; [reflexivity|].
  unfold cps, of_ascii in *; cbn [map cp mk]. rewrite IH; reflexivity.
Qed.
Lemma ptag_cps : forall w k, ptag (cps w) (w ++ k) = POk tt k.
Proof.
  induction w as [|c w IH]; intros k; [reflexivity|].
  unfold cps in *; cbn [map ptag app]. rewrite N.eqb_refl. apply IH.
Qed.
Lemma ptag_lit : forall l k, ptag l (of_ascii l ++ k) = POk tt k.
Proof. intros l k. rewrite <- (cps_of_ascii l) at 1. apply ptag_cps. Qed.
Lemma ptag_nf : forall x lit t, nf (fun y => y =? x) t -> ptag (x :: lit) t = PFail.
Proof. intros x lit [|c t] H; cbn [ptag nf] in *; [reflexivity|]. rewrite H; reflexivity. Qed.
Lemma ptag_hd : forall x lit c t, (cp c =? x) = false -> ptag (x :: lit) (c :: t) = PFail.
Proof. intros x lit c t H; cbn [ptag]; rewrite H; reflexivity. Qed.

Lemma mwi_fail : forall t, nf wsstart t -> match_whitespace_item t = PFail.
Proof.
  intros [|c t] H; cbn [nf] in H; unfold match_whitespace_item, match_comment.
  - reflexivity.
  - assert (Hw : is_css_ws (cp c) = false) by cls. rewrite Hw.
    rewrite ptag_hd by cls. reflexivity.
Qed.
Lemma mwi_ws : forall c t, is_css_ws (cp c) = true -> match_whitespace_item (c :: t) = POk tt t.
Proof. intros c t H; unfold match_whitespace_item; rewrite H; reflexivity. Qed.

Lemma skip_ws_R : forall t l r, ManyR match_whitespace_item t l r -> skip_ws t = r.
Proof. intros t l r H; unfold skip_ws; rewrite (many0_R _ _ _ _ _ H); reflexivity. Qed.
Lemma skip_ws_id : forall t, nf wsstart t -> skip_ws t = t.
Proof. intros t H; eapply skip_ws_R, MR_nil, mwi_fail, H. Qed.
Lemma mwi_total : forall t, exists l r, ManyR match_whitespace_item t l r.
Proof. apply ManyR_total, match_whitespace_item_Bs. Qed.
Lemma skip_ws_cons : forall c t, is_css_ws (cp c) = true -> skip_ws (c :: t) = skip_ws t.
Proof.
  intros c t H. destruct (mwi_total t) as (l & r & HR).
  rewrite (skip_ws_R _ _ _ HR).
  eapply skip_ws_R, MR_cons; [apply mwi_ws, H|cbn [length]; lia|exact HR].
Qed.
Lemma skip_ws_fail : forall t, match_whitespace_item (skip_ws t) = PFail.
Proof.
  intros t. destruct (mwi_total t) as (l & r & HR).
  rewrite (skip_ws_R _ _ _ HR). eapply ManyR_end, HR.
Qed.
Lemma skip_ws_idem : forall t, skip_ws (skip_ws t) = skip_ws t.
Proof. intros t; eapply skip_ws_R, MR_nil, skip_ws_fail. Qed.
Lemma skip_ws_nil : skip_ws [] = [].
Proof. reflexivity. Qed.

(* ------------------------------------------------------------------ *)
(* 3. identifiers over the simple alphabet *)
Definition body_ok (cs : text) : bool := forallb (fun c => lownm (cp c)) cs.
Definition is_dash_chr (c : chr) : bool :=
  (cp c =? 45) && match cw c with Some w => w =? 1 | None => false end && negb (ws c) && (lab c =? 0).
(* what parse_ident can return without escapes: [-] (_|a-z) (_|a-z|0-9|-)*, the leading
   dash being the parser's own `dash` character *)
Definition ident_okb (n : text) : bool :=
  match n with
  | [] => false
  | c :: r =>
    if cp c =? 45
    then is_dash_chr c && match r with st :: cs => lowstart (cp st) && body_ok cs | [] => false end
    else lowstart (cp c) && body_ok r
  end.

Lemma is_dash_chr_eq : forall c, is_dash_chr c = true -> c = dash.
Proof.
  intros [x w s l]; unfold is_dash_chr, dash, mk; cbn [cp cw ws lab]; intros H.
  destruct w as [w|]; [|lia]. destruct s; [cbn in H; lia|].
  assert (x = 45) by lia. assert (w = 1) by lia. assert (l = 0) by lia. subst. reflexivity.
Qed.

Lemma ident_okb_inv : forall n, ident_okb n = true ->
  exists st cs, (n = st :: cs \/ n = dash :: st :: cs) /\ lowstart (cp st) = true /\ body_ok cs = true.
Proof.
  intros [|c r] H; cbn [ident_okb] in H; [discriminate|].
  destruct (cp c =? 45) eqn:E.
  - apply andb_prop in H; destruct H as [Hd H]. apply is_dash_chr_eq in Hd; subst c.
    destruct r as [|st cs]; [discriminate|]. apply andb_prop in H; destruct H as [H1 H2].
    exists st, cs; auto.
  - apply andb_prop in H; destruct H as [H1 H2]. exists c, r; auto.
Qed.

Lemma lower_chr_id : forall c, is_upper (cp c) = false -> lower_chr c = c.
Proof. intros c H; unfold lower_chr; rewrite H; reflexivity. Qed.

Lemma nmchar_ok : forall c t, lownm (cp c) = true -> nmchar (c :: t) = POk c t.
Proof.
  intros c t H; unfold nmchar, nmchar_char.
  assert (E : (cp c =? 95) || is_lower (cp c) || is_upper (cp c) || is_digit (cp c) || (cp c =? 45) = true)
    by cls.
  rewrite E. rewrite lower_chr_id by cls. reflexivity.
Qed.
Lemma ident_escape_fail : forall t, nf (fun y => y =? 92) t -> ident_escape t = PFail.
Proof. intros t H; unfold ident_escape; rewrite ptag_nf by exact H; reflexivity. Qed.
Lemma nmchar_fail : forall t, nf identcont t -> nmchar t = PFail.
Proof.
  intros t H; unfold nmchar.
  assert (E : nmchar_char t = PFail).
  { destruct t as [|c t]; [reflexivity|]; cbn [nf] in H; unfold nmchar_char.
    assert (E : (cp c =? 95) || is_lower (cp c) || is_upper (cp c) || is_digit (cp c) || (cp c =? 45) = false)
      by cls.
    rewrite E; reflexivity. }
  rewrite E; cbn [palt]. apply ident_escape_fail.
  eapply nf_imp; [|exact H]. intros x Hx; cls.
Qed.
Lemma nmstart_ok : forall c t, lowstart (cp c) = true -> nmstart (c :: t) = POk c t.
Proof.
  intros c t H; unfold nmstart, nmstart_char.
  assert (E : (cp c =? 95) || is_lower (cp c) || is_upper (cp c) = true) by cls.
  rewrite E. rewrite lower_chr_id by cls. reflexivity.
Qed.
Lemma nmstart_fail : forall t,
  nf (fun x => (x =? 95) || is_lower x || is_upper x || (x =? 92)) t -> nmstart t = PFail.
Proof.
  intros t H; unfold nmstart.
  assert (E : nmstart_char t = PFail).
  { destruct t as [|c t]; [reflexivity|]; cbn [nf] in H; unfold nmstart_char.
    assert (E : (cp c =? 95) || is_lower (cp c) || is_upper (cp c) = false) by cls.
    rewrite E; reflexivity. }
  rewrite E; cbn [palt]. apply ident_escape_fail.
  eapply nf_imp; [|exact H]. intros x Hx; cls.
Qed.

Lemma body_many : forall cs k, body_ok cs = true -> nf identcont k -> ManyR nmchar (cs ++ k) cs k.
Proof.
  induction cs as [|c cs IH]; intros k Hb Hk; cbn [app].
  - apply MR_nil, nmchar_fail, Hk.
  - cbn [body_ok forallb] in Hb. apply andb_prop in Hb; destruct Hb as [Hc Hb].
    eapply MR_cons; [apply nmchar_ok, Hc|cbn [length]; lia|apply IH; auto].
Qed.

(* the class of characters that cannot follow a printed identifier *)
Lemma parse_ident_ok : forall n k, ident_okb n = true -> nf identcont k ->
  parse_ident (n ++ k) = POk n k.
Proof.
  intros n k Hn Hk. apply ident_okb_inv in Hn.
  destruct Hn as (st & cs & [Hn|Hn] & Hst & Hcs); subst n; unfold parse_ident; cbv zeta; cbn [app].
  - rewrite skip_ws_id by (cbn [nf]; cls).
    rewrite ptag_hd by cls. cbn [popt pbind].
    rewrite nmstart_ok by exact Hst. cbn [pbind].
    rewrite (many0_R _ _ _ _ _ (body_many cs k Hcs Hk)). reflexivity.
  - rewrite skip_ws_id by (cbn [nf dash mk cp]; cls).
    unfold dash at 1 2; cbn [ptag cp mk]. change (45 =? 45) with true. cbn [popt pbind].
    rewrite nmstart_ok by exact Hst. cbn [pbind].
    rewrite (many0_R _ _ _ _ _ (body_many cs k Hcs Hk)). reflexivity.
Qed.
Lemma parse_ident_fail : forall t,
  nf (fun x => wsstart x || (x =? 45) || (x =? 95) || is_lower x || is_upper x || (x =? 92)) t ->
  parse_ident t = PFail.
Proof.
  intros t H; unfold parse_ident; cbv zeta.
  rewrite skip_ws_id by (eapply nf_imp; [|exact H]; intros x Hx; cls).
  rewrite ptag_nf by (eapply nf_imp; [|exact H]; intros x Hx; cls). cbn [popt pbind].
  rewrite nmstart_fail by (eapply nf_imp; [|exact H]; intros x Hx; cls). reflexivity.
Qed.

Lemma parse_identstring_ok : forall h k, h <> [] -> body_ok h = true -> nf identcont k ->
  parse_identstring (h ++ k) = POk h k.
Proof.
  intros h k Hne Hb Hk; unfold parse_identstring.
  destruct h as [|c cs]; [congruence|].
  assert (Hc : lownm (cp c) = true) by (cbn [body_ok forallb] in Hb; apply andb_prop in Hb; tauto).
  rewrite skip_ws_id by (cbn [app nf]; cls).
  apply many1_R, body_many; auto.
Qed.

(* ---- the `_cased` twins: class names and ids keep their letter case (parse_ident_cased,
   parse_identstring_cased), so their alphabet has both cases ---- *)
Definition casestart (x : N) : bool := (x =? 95) || is_lower x || is_upper x.
Definition casenm (x : N) : bool := (x =? 95) || is_lower x || is_upper x || is_digit x || (x =? 45).
Definition body_okc (cs : text) : bool := forallb (fun c => casenm (cp c)) cs.
(* what parse_ident_cased can return without escapes: [-] (_|a-z|A-Z) (_|a-z|A-Z|0-9|-)* *)
Definition ident_okc (n : text) : bool :=
  match n with
  | [] => false
  | c :: r =>
    if cp c =? 45
    then is_dash_chr c && match r with st :: cs => casestart (cp st) && body_okc cs | [] => false end
    else casestart (cp c) && body_okc r
  end.

Ltac clsc := unfold casestart, casenm in *; cls.

Lemma ident_okc_inv : forall n, ident_okc n = true ->
  exists st cs, (n = st :: cs \/ n = dash :: st :: cs) /\ casestart (cp st) = true /\ body_okc cs = true.
Proof.
  intros [|c r] H; cbn [ident_okc] in H; [discriminate|].
  destruct (cp c =? 45) eqn:E.
  - apply andb_prop in H; destruct H as [Hd H]. apply is_dash_chr_eq in Hd; subst c.
    destruct r as [|st cs]; [discriminate|]. apply andb_prop in H; destruct H as [H1 H2].
    exists st, cs; auto.
  - apply andb_prop in H; destruct H as [H1 H2]. exists c, r; auto.
Qed.

(* the lower-case alphabet is part of the two-case one *)
Lemma body_ok_c : forall cs, body_ok cs = true -> body_okc cs = true.
Proof.
  induction cs as [|c cs IH]; [reflexivity|]. cbn [body_ok body_okc forallb]. intros H.
  apply andb_prop in H; destruct H as [Hc H]. fold (body_ok cs) in H. fold (body_okc cs).
  rewrite (IH H). assert (E : casenm (cp c) = true) by clsc. rewrite E. reflexivity.
Qed.
Lemma ident_okb_c : forall n, ident_okb n = true -> ident_okc n = true.
Proof.
  intros [|c r] H; cbn [ident_okb ident_okc] in *; [discriminate|].
  destruct (cp c =? 45).
  - apply andb_prop in H; destruct H as [Hd H]. rewrite Hd. destruct r as [|st cs]; [discriminate|].
    apply andb_prop in H; destruct H as [H1 H2]. rewrite (body_ok_c _ H2).
    assert (E : casestart (cp st) = true) by clsc. rewrite E. reflexivity.
  - apply andb_prop in H; destruct H as [H1 H2]. rewrite (body_ok_c _ H2).
    assert (E : casestart (cp c) = true) by clsc. rewrite E. reflexivity.
Qed.

Lemma nmchar_cased_ok : forall c t, casenm (cp c) = true -> nmchar_cased (c :: t) = POk c t.
Proof.
  intros c t H; unfold nmchar_cased, nmchar_char_cased.
  assert (E : (cp c =? 95) || is_lower (cp c) || is_upper (cp c) || is_digit (cp c) || (cp c =? 45) = true)
    by clsc.
  rewrite E. reflexivity.
Qed.
Lemma nmchar_cased_fail : forall t, nf identcont t -> nmchar_cased t = PFail.
Proof.
  intros t H; unfold nmchar_cased.
  assert (E : nmchar_char_cased t = PFail).
  { destruct t as [|c t]; [reflexivity|]; cbn [nf] in H; unfold nmchar_char_cased.
    assert (E : (cp c =? 95) || is_lower (cp c) || is_upper (cp c) || is_digit (cp c) || (cp c =? 45) = false)
      by cls.
    rewrite E; reflexivity. }
  rewrite E; cbn [palt]. apply ident_escape_fail.
  eapply nf_imp; [|exact H]. intros x Hx; cls.
Qed.
Lemma nmstart_cased_ok : forall c t, casestart (cp c) = true -> nmstart_cased (c :: t) = POk c t.
Proof.
  intros c t H; unfold nmstart_cased, nmstart_char_cased.
  assert (E : (cp c =? 95) || is_lower (cp c) || is_upper (cp c) = true) by clsc.
  rewrite E. reflexivity.
Qed.
Lemma nmstart_cased_fail : forall t,
  nf (fun x => (x =? 95) || is_lower x || is_upper x || (x =? 92)) t -> nmstart_cased t = PFail.
Proof.
  intros t H; unfold nmstart_cased.
  assert (E : nmstart_char_cased t = PFail).
  { destruct t as [|c t]; [reflexivity|]; cbn [nf] in H; unfold nmstart_char_cased.
    assert (E : (cp c =? 95) || is_lower (cp c) || is_upper (cp c) = false) by cls.
    rewrite E; reflexivity. }
  rewrite E; cbn [palt]. apply ident_escape_fail.
  eapply nf_imp; [|exact H]. intros x Hx; cls.
Qed.

Lemma body_many_c : forall cs k, body_okc cs = true -> nf identcont k ->
  ManyR nmchar_cased (cs ++ k) cs k.
Proof.
  induction cs as [|c cs IH]; intros k Hb Hk; cbn [app].
  - apply MR_nil, nmchar_cased_fail, Hk.
  - cbn [body_okc forallb] in Hb. apply andb_prop in Hb; destruct Hb as [Hc Hb].
    eapply MR_cons; [apply nmchar_cased_ok, Hc|cbn [length]; lia|apply IH; auto].
Qed.

Lemma parse_ident_cased_ok : forall n k, ident_okc n = true -> nf identcont k ->
  parse_ident_cased (n ++ k) = POk n k.
Proof.
  intros n k Hn Hk. apply ident_okc_inv in Hn.
  destruct Hn as (st & cs & [Hn|Hn] & Hst & Hcs); subst n; unfold parse_ident_cased; cbv zeta; cbn [app].
  - rewrite skip_ws_id by (cbn [nf]; clsc).
    rewrite ptag_hd by clsc. cbn [popt pbind].
    rewrite nmstart_cased_ok by exact Hst. cbn [pbind].
    rewrite (many0_R _ _ _ _ _ (body_many_c cs k Hcs Hk)). reflexivity.
  - rewrite skip_ws_id by (cbn [nf dash mk cp]; cls).
    unfold dash at 1 2; cbn [ptag cp mk]. change (45 =? 45) with true. cbn [popt pbind].
    rewrite nmstart_cased_ok by exact Hst. cbn [pbind].
    rewrite (many0_R _ _ _ _ _ (body_many_c cs k Hcs Hk)). reflexivity.
Qed.
Lemma parse_ident_cased_fail : forall t,
  nf (fun x => wsstart x || (x =? 45) || (x =? 95) || is_lower x || is_upper x || (x =? 92)) t ->
  parse_ident_cased t = PFail.
Proof.
  intros t H; unfold parse_ident_cased; cbv zeta.
  rewrite skip_ws_id by (eapply nf_imp; [|exact H]; intros x Hx; cls).
  rewrite ptag_nf by (eapply nf_imp; [|exact H]; intros x Hx; cls). cbn [popt pbind].
  rewrite nmstart_cased_fail by (eapply nf_imp; [|exact H]; intros x Hx; cls). reflexivity.
Qed.

Lemma parse_identstring_cased_ok : forall h k, h <> [] -> body_okc h = true -> nf identcont k ->
  parse_identstring_cased (h ++ k) = POk h k.
Proof.
  intros h k Hne Hb Hk; unfold parse_identstring_cased.
  destruct h as [|c cs]; [congruence|].
  assert (Hc : casenm (cp c) = true) by (cbn [body_okc forallb] in Hb; apply andb_prop in Hb; tauto).
  rewrite skip_ws_id by (cbn [app nf]; clsc).
  apply many1_R, body_many_c; auto.
Qed.

(* ------------------------------------------------------------------ *)
(* 4. decimal numbers: digit1 / parse_digits invert Base.dec_N *)
Definition digits_ok (l : list N) : Prop := Forall (fun d => 48 <= d <= 57) l.

Lemma dec_pos_fuel_digits : forall f n acc, digits_ok acc -> digits_ok (dec_pos_fuel f n acc).
Proof.
  induction f as [|f IH]; intros n acc Ha; cbn [dec_pos_fuel]; [exact Ha|].
  assert (Hd : digits_ok ((48 + n mod 10) :: acc)).
  { constructor; [|exact Ha]. pose proof (N.mod_upper_bound n 10 ltac:(lia)). lia. }
  destruct (n / 10 =? 0); [exact Hd|apply IH, Hd].
Qed.
Lemma dec_pos_fuel_ne0 : forall f n acc, acc <> [] -> dec_pos_fuel f n acc <> [].
Proof.
  induction f as [|f IH]; intros n acc Ha; cbn [dec_pos_fuel]; [exact Ha|].
  destruct (n / 10 =? 0); [discriminate|apply IH; discriminate].
Qed.
Lemma dec_pos_fuel_ne : forall f n acc, dec_pos_fuel (S f) n acc <> [].
Proof.
  intros f n acc; cbn [dec_pos_fuel].
  destruct (n / 10 =? 0); [discriminate|apply dec_pos_fuel_ne0; discriminate].
Qed.
Lemma dec_N_digits : forall n, digits_ok (dec_N n).
Proof. intros n; unfold dec_N; apply dec_pos_fuel_digits; constructor. Qed.
Lemma dec_N_ne : forall n, dec_N n <> [].
Proof. intros n; unfold dec_N; apply dec_pos_fuel_ne. Qed.

Lemma parse_digits_dec : forall f n acc,
  n < 2 ^ N.of_nat f ->
  parse_digits (of_ascii (dec_pos_fuel f n acc)) 0 = parse_digits (of_ascii acc) n.
Proof.
  induction f as [|f IH]; intros n acc Hn.
  - cbn [dec_pos_fuel]. change (2 ^ N.of_nat 0) with 1 in Hn. assert (n = 0) by lia; subst; reflexivity.
  - cbn [dec_pos_fuel].
    pose proof (N.div_mod n 10 ltac:(lia)) as Hdm.
    pose proof (N.mod_upper_bound n 10 ltac:(lia)) as Hmod.
    assert (Hstep : forall q, parse_digits (of_ascii ((48 + n mod 10) :: acc)) q =
                             parse_digits (of_ascii acc) (q * 10 + n mod 10)).
    { intros q. unfold of_ascii; cbn [map parse_digits cp mk].
      assert (E : (48 <=? 48 + n mod 10) && (48 + n mod 10 <=? 57) = true) by lia.
      rewrite E. f_equal. lia. }
    destruct (N.eqb_spec (n / 10) 0) as [Hq|Hq].
    + rewrite Hstep. f_equal. lia.
    + rewrite IH.
      * rewrite Hstep. f_equal. lia.
      * rewrite Nat2N.inj_succ, N.pow_succ_r' in Hn.
        apply N.div_lt_upper_bound; lia.
Qed.
Lemma parse_digits_dec_N : forall n, parse_digits (of_ascii (dec_N n)) 0 = Some n.
Proof.
  intros n; unfold dec_N. rewrite parse_digits_dec; [reflexivity|].
  rewrite Nat2N.inj_succ, N2Nat.id.
  destruct n as [|p]; [reflexivity|]. apply N.log2_spec; lia.
Qed.

Lemma digit1_digits : forall l k acc, digits_ok l -> nf is_digit k -> (l <> [] \/ acc <> []) ->
  digit1 (of_ascii l ++ k) acc = POk (rev acc ++ of_ascii l) k.
Proof.
  induction l as [|d l IH]; intros k acc Hl Hk Hne.
  - cbn [of_ascii map app]. rewrite app_nil_r.
    destruct Hne as [Hne|Hne]; [congruence|].
    destruct k as [|c k]; cbn [digit1].
    + destruct acc; [congruence|reflexivity].
    + cbn [nf] in Hk; rewrite Hk. destruct acc; [congruence|reflexivity].
  - inversion Hl as [|d' l' Hd Hl']; subst.
    unfold of_ascii; cbn [map app digit1 cp mk]. fold (of_ascii l).
    assert (E : is_digit d = true) by cls. rewrite E.
    rewrite IH; auto; [|right; discriminate].
    cbn [rev]. rewrite <- app_assoc. reflexivity.
Qed.

Lemma nf_digits : forall (P : N -> bool) l k, l <> [] -> digits_ok l ->
  (forall d, 48 <= d <= 57 -> P d = false) -> nf P (of_ascii l ++ k).
Proof.
  intros P [|d l] k Hne Hl HP; [congruence|].
  inversion Hl; subst. unfold of_ascii; cbn [map app nf cp mk]. auto.
Qed.
Lemma nf_lit : forall (P : N -> bool) x l k, P x = false -> nf P (of_ascii (x :: l) ++ k).
Proof. intros; unfold of_ascii; cbn [map app nf cp mk]; auto. Qed.

(* ------------------------------------------------------------------ *)
(* 4b. whitespace material: spaces, tabs, newlines, comments *)
Fixpoint nocs (t : text) : bool :=      (* no `*/` inside *)
  match t with
  | c :: ((d :: _) as t') => negb ((cp c =? 42) && (cp d =? 47)) && nocs t'
  | _ => true
  end.
Inductive wsm : text -> Prop :=
| wsm_nil : wsm []
| wsm_ws : forall c w, is_css_ws (cp c) = true -> wsm w -> wsm (c :: w)
| wsm_comment : forall body w, nocs body = true -> wsm w ->
    wsm (of_ascii [47; 42] ++ body ++ of_ascii [42; 47] ++ w).

Lemma take_until_body : forall body k, nocs body = true ->
  take_until_star_slash (body ++ of_ascii [42; 47] ++ k) = Some (of_ascii [42; 47] ++ k).
Proof.
  induction body as [|c body IH]; intros k Hb; [reflexivity|].
  destruct body as [|d body'].
  - cbn [app]. change (of_ascii [42; 47] ++ k) with (mk 42 1 :: mk 47 1 :: k).
    cbn [take_until_star_slash cp mk].
    change (42 =? 47) with false. rewrite andb_false_r. rewrite N.eqb_refl. reflexivity.
  - cbn [nocs] in Hb. apply andb_prop in Hb; destruct Hb as [Hcd Hb].
    specialize (IH k Hb). cbn [app] in IH |- *.
    cbn [take_until_star_slash]. cbn [take_until_star_slash] in IH.
    destruct ((cp c =? 42) && (cp d =? 47)); [discriminate|]. exact IH.
Qed.
Lemma match_comment_ok : forall body k, nocs body = true ->
  match_comment (of_ascii [47; 42] ++ body ++ of_ascii [42; 47] ++ k) = POk tt k.
Proof.
  intros body k Hb. unfold match_comment. rewrite ptag_lit. cbn [pbind].
  rewrite take_until_body by exact Hb. apply ptag_lit.
Qed.
Lemma wsm_many : forall w k, wsm w -> nf wsstart k ->
  exists l, ManyR match_whitespace_item (w ++ k) l k /\ (w <> [] -> l <> []).
Proof.
  intros w k Hw Hk; induction Hw as [|c w Hc Hw IH|body w Hb Hw IH].
  - exists []; split; [apply MR_nil, mwi_fail, Hk|congruence].
  - destruct IH as (l & HR & _). exists (tt :: l); split; [|discriminate].
    cbn [app]. eapply MR_cons; [apply mwi_ws, Hc|cbn [length]; lia|exact HR].
  - destruct IH as (l & HR & _). exists (tt :: l); split; [|discriminate].
    rewrite <- !app_assoc.
    eapply MR_cons; [|  |exact HR].
    + change (of_ascii [47; 42] ++ body ++ of_ascii [42; 47] ++ w ++ k)
        with (mk 47 1 :: (of_ascii [42] ++ body ++ of_ascii [42; 47] ++ w ++ k)).
      unfold match_whitespace_item. change (is_css_ws (cp (mk 47 1))) with false. cbv iota.
      apply (match_comment_ok body (w ++ k) Hb).
    + rewrite !app_length. cbn [length of_ascii map]. lia.
Qed.
Lemma skip_ws_wsm : forall w k, wsm w -> nf wsstart k -> skip_ws (w ++ k) = k.
Proof. intros w k Hw Hk. destruct (wsm_many w k Hw Hk) as (l & HR & _). eapply skip_ws_R, HR. Qed.
Lemma wsm_app : forall w1 w2, wsm w1 -> wsm w2 -> wsm (w1 ++ w2).
Proof.
  intros w1 w2 H1 H2; induction H1; cbn [app]; auto.
  - apply wsm_ws; auto.
  - rewrite <- !app_assoc. apply wsm_comment; auto.
Qed.
Lemma wsm_nf : forall (P : N -> bool) w k, wsm w -> (forall x, wsstart x = true -> P x = false) ->
  (w <> [] \/ nf P k) -> nf P (w ++ k).
Proof.
  intros P w k Hw HP Hk; destruct Hw as [|c w Hc Hw|body w Hb Hw]; cbn [app].
  - destruct Hk; [congruence|assumption].
  - cbn [nf]. apply HP. cls.
  - rewrite <- !app_assoc. apply nf_lit. apply HP. reflexivity.
Qed.

(* a non-empty whitespace run in front of a character that is not `>` is a descendant combinator *)
Lemma comp_ws : forall w k, wsm w -> w <> [] -> nf (fun x => wsstart x || (x =? 62)) k ->
  parse_simple_selector_component (w ++ k) = POk CCombDescendant k.
Proof.
  intros w k Hw Hne Hk.
  assert (Hk' : nf wsstart k) by (eapply nf_imp; [|exact Hk]; intros x Hx; cls).
  unfold parse_simple_selector_component.
  rewrite skip_ws_wsm by assumption.
  rewrite (ptag_nf 62) by (eapply nf_imp; [|exact Hk]; intros x Hx; cls). cbn [pbind palt].
  rewrite (ptag_nf 42) by (apply wsm_nf; [exact Hw|intros; cls|left; exact Hne]). cbn [pbind palt].
  unfold parse_ws.
  destruct (wsm_many w k Hw Hk') as (l & HR & Hl).
  destruct l as [|[] l]; [specialize (Hl Hne); congruence|].
  rewrite (many1_R _ _ _ _ _ _ HR). reflexivity.
Qed.

(* ------------------------------------------------------------------ *)
(* 5. the printer for selectors *)
Definition i32max : Z := 2147483647.
(* optional whitespace inside `:nth-child( An + B )`; the canonical printer uses none *)
Record nws := mknws {
  n_open : text;    (* after `(` *)
  n_pre : text;     (* between `n` and the sign of B *)
  n_post : text;    (* between the sign of B and its digits *)
  n_close : text    (* before `)` *)
}.
Definition nws_ok (q : nws) : Prop :=
  wsm (n_open q) /\ wsm (n_pre q) /\ wsm (n_post q) /\ wsm (n_close q).
Definition nws0 : nws := mknws [] [] [] [].
Lemma nws0_ok : nws_ok nws0.
Proof. repeat split; apply wsm_nil. Qed.

Definition nth_args (a b : Z) : text :=
  (if (a <? 0)%Z then of_ascii [45] else []) ++ of_ascii (dec_N (Z.abs_N a)) ++ of_ascii [110] ++
  of_ascii [if (b <? 0)%Z then 45 else 43] ++ of_ascii (dec_N (Z.abs_N b)).
Definition print_nth (a b : Z) : text :=
  of_ascii [58] ++ of_ascii s_nth_child ++ of_ascii [40] ++ nth_args a b ++ of_ascii [41].
Definition nth_args_q (q : nws) (a b : Z) : text :=
  (if (a <? 0)%Z then of_ascii [45] else []) ++ of_ascii (dec_N (Z.abs_N a)) ++ of_ascii [110] ++
  n_pre q ++ of_ascii [if (b <? 0)%Z then 45 else 43] ++ n_post q ++ of_ascii (dec_N (Z.abs_N b)).
Definition print_nth_q (q : nws) (a b : Z) : text :=
  of_ascii [58] ++ of_ascii s_nth_child ++ of_ascii [40] ++ n_open q ++ nth_args_q q a b ++
  n_close q ++ of_ascii [41].

Definition print_comp (c : comp) : text :=
  match c with
  | CClass n => of_ascii [46] ++ n
  | CHash h => of_ascii [35] ++ h
  | CElement n => n
  | CStar => of_ascii [42]
  | CCombChild => of_ascii [32; 62; 32]
  | CCombDescendant => of_ascii [32]
  | CNthChild a b => print_nth a b
  end.
Definition print_comp_q (q : nws) (c : comp) : text :=
  match c with
  | CClass n => of_ascii [46] ++ n
  | CHash h => of_ascii [35] ++ h
  | CElement n => n
  | CStar => of_ascii [42]
  | CCombChild => of_ascii [32; 62; 32]
  | CCombDescendant => of_ascii [32]
  | CNthChild a b => print_nth_q q a b
  end.
Definition print_pseudo (p : option pseudo) : text :=
  match p with
  | None => []
  | Some PBefore => of_ascii [58;58;98;101;102;111;114;101]
  | Some PAfter => of_ascii [58;58;97;102;116;101;114]
  end.
(* components in source order *)
Definition print_comps (l : list comp) : text := flat_map print_comp l.
Definition print_selector (s : selector) : text :=
  print_comps (rev (comps s)) ++ print_pseudo (pseudo_el s).
Definition print_comps_q (q : nws) (l : list comp) : text := flat_map (print_comp_q q) l.
Definition print_selector_q (q : nws) (s : selector) : text :=
  print_comps_q q (rev (comps s)) ++ print_pseudo (pseudo_el s).

(* the canonical printer is the instance without whitespace *)
Lemma print_comp_q0 : forall c, print_comp_q nws0 c = print_comp c.
Proof. intros []; reflexivity. Qed.
Lemma print_comps_q0 : forall l, print_comps_q nws0 l = print_comps l.
Proof.
  induction l as [|c l IH]; [reflexivity|].
  unfold print_comps_q, print_comps in *; cbn [flat_map]. rewrite IH, print_comp_q0. reflexivity.
Qed.
Lemma print_selector_q0 : forall s, print_selector_q nws0 s = print_selector s.
Proof. intros s; unfold print_selector_q, print_selector. rewrite print_comps_q0. reflexivity. Qed.

(* ---- nth-child ---- *)
Lemma opt_sign_minus : forall t, opt_sign (mk 45 1 :: t) = ((-1)%Z, t).
Proof. reflexivity. Qed.
Lemma opt_sign_nf : forall t, nf (fun x => (x =? 45) || (x =? 43)) t -> opt_sign t = (1%Z, t).
Proof.
  intros [|c t] H; cbn [nf opt_sign] in *; [reflexivity|].
  assert (E1 : (cp c =? 45) = false) by lia. assert (E2 : (cp c =? 43) = false) by lia.
  rewrite E1, E2; reflexivity.
Qed.
Lemma sign_minus : forall t, sign (mk 45 1 :: t) = POk (-1)%Z t.
Proof. reflexivity. Qed.
Lemma sign_plus : forall t, sign (mk 43 1 :: t) = POk 1%Z t.
Proof. reflexivity. Qed.

Lemma i32_of_digits_dec : forall n, n <= 2147483647 ->
  i32_of_digits (of_ascii (dec_N n)) = Some (Z.of_N n).
Proof.
  intros n H; unfold i32_of_digits. rewrite parse_digits_dec_N.
  assert (E : (n <=? 2147483647) = true) by lia. rewrite E; reflexivity.
Qed.

Lemma nth_full_ok : forall q a b k, nws_ok q ->
  (Z.abs a <= i32max)%Z -> (Z.abs b <= i32max)%Z -> nf is_digit k ->
  nth_full (nth_args_q q a b ++ k) = POk (a, b) k.
Proof.
  intros q a b k (_ & Hpre & Hpost & _) Ha Hb Hk. unfold i32max in *.
  set (tl := n_pre q ++ of_ascii [if (b <? 0)%Z then 45 else 43] ++ n_post q ++
             of_ascii (dec_N (Z.abs_N b)) ++ k).
  assert (Hfin : forall sa, (Z.of_N (Z.abs_N a) * sa)%Z = a ->
    pbind (popt (digit1 (of_ascii (dec_N (Z.abs_N a)) ++ of_ascii [110] ++ tl) [])
                (of_ascii (dec_N (Z.abs_N a)) ++ of_ascii [110] ++ tl))
      (fun a_opt r2 =>
       pbind (ptag [110] r2) (fun _ r3 =>
       let r4 := skip_ws r3 in
       pbind (sign r4) (fun b_sign r5a =>
       let r5 := skip_ws r5a in
       pbind (digit1 r5 []) (fun b_val r6 =>
       match (match a_opt with Some d => i32_of_digits d | None => Some 1%Z end), i32_of_digits b_val with
       | Some a0, Some b0 => POk ((a0 * sa)%Z, (b0 * b_sign)%Z) r6
       | _, _ => PFail
       end)))) = POk (a, b) k).
  { intros sa Hsa.
    rewrite digit1_digits; [|apply dec_N_digits|apply nf_lit; reflexivity|left; apply dec_N_ne].
    cbn [rev app popt pbind]. rewrite ptag_lit. cbn [pbind]. cbv zeta.
    rewrite i32_of_digits_dec by lia. unfold tl.
    assert (Hd : nf wsstart (of_ascii (dec_N (Z.abs_N b)) ++ k))
      by (apply nf_digits; [apply dec_N_ne|apply dec_N_digits|intros; cls]).
    destruct (b <? 0)%Z eqn:Eb.
    - rewrite skip_ws_wsm by (auto; apply nf_lit; reflexivity).
      unfold of_ascii at 1; cbn [map app]. rewrite sign_minus. cbn [pbind].
      rewrite skip_ws_wsm by auto.
      rewrite digit1_digits; [|apply dec_N_digits|exact Hk|left; apply dec_N_ne].
      cbn [rev app pbind]. rewrite i32_of_digits_dec by lia.
      f_equal. f_equal; lia.
    - rewrite skip_ws_wsm by (auto; apply nf_lit; reflexivity).
      unfold of_ascii at 1; cbn [map app]. rewrite sign_plus. cbn [pbind].
      rewrite skip_ws_wsm by auto.
      rewrite digit1_digits; [|apply dec_N_digits|exact Hk|left; apply dec_N_ne].
      cbn [rev app pbind]. rewrite i32_of_digits_dec by lia.
      f_equal. f_equal; lia. }
  unfold nth_args_q. rewrite <- !app_assoc. fold tl. unfold nth_full.
  destruct (a <? 0)%Z eqn:Ea.
  - unfold of_ascii at 1; cbn [map app]. rewrite opt_sign_minus. apply Hfin. lia.
  - cbn [app]. rewrite opt_sign_nf by (apply nf_digits; [apply dec_N_ne|apply dec_N_digits|intros; lia]).
    apply Hfin. lia.
Qed.

Lemma nf_nth_args : forall (P : N -> bool) q a b k, P 45 = false ->
  (forall d, 48 <= d <= 57 -> P d = false) -> nf P (nth_args_q q a b ++ k).
Proof.
  intros P q a b k H45 Hd. unfold nth_args_q. rewrite <- !app_assoc.
  destruct (a <? 0)%Z.
  - apply nf_lit, H45.
  - cbn [app]. apply nf_digits; [apply dec_N_ne|apply dec_N_digits|exact Hd].
Qed.

Lemma parse_nth_child_args_ok : forall q a b k, nws_ok q ->
  (Z.abs a <= i32max)%Z -> (Z.abs b <= i32max)%Z ->
  parse_nth_child_args (of_ascii [40] ++ n_open q ++ nth_args_q q a b ++ n_close q ++ of_ascii [41] ++ k)
  = POk (CNthChild a b) k.
Proof.
  intros q a b k Hq Ha Hb. pose proof Hq as (Hopen & _ & _ & Hclose).
  unfold parse_nth_child_args. rewrite ptag_lit. cbn [pbind]. cbv zeta.
  rewrite skip_ws_wsm; [|exact Hopen|apply nf_nth_args; [reflexivity|intros; cls]].
  unfold s_even, s_odd.
  rewrite (ptag_nf 101) by (apply nf_nth_args; [reflexivity|intros; lia]).
  rewrite (ptag_nf 111) by (apply nf_nth_args; [reflexivity|intros; lia]).
  cbn [pmap palt].
  rewrite nth_full_ok; [|exact Hq|exact Ha|exact Hb|apply wsm_nf; [exact Hclose|intros; cls|right; apply nf_lit; reflexivity]].
  cbn [palt pbind fst snd].
  rewrite skip_ws_wsm by (auto; apply nf_lit; reflexivity).
  rewrite ptag_lit. reflexivity.
Qed.

Lemma ident_nth_child : ident_okb (of_ascii s_nth_child) = true.
Proof. reflexivity. Qed.

Lemma parse_pseudo_class_ok : forall q a b k, nws_ok q ->
  (Z.abs a <= i32max)%Z -> (Z.abs b <= i32max)%Z ->
  parse_pseudo_class (print_nth_q q a b ++ k) = POk (CNthChild a b) k.
Proof.
  intros q a b k Hq Ha Hb. unfold parse_pseudo_class, print_nth_q. rewrite <- !app_assoc.
  rewrite ptag_lit. cbn [pbind].
  rewrite parse_ident_ok by (try apply ident_nth_child; apply nf_lit; reflexivity).
  cbn [pbind].
  change (is_ascii_str (of_ascii s_nth_child) s_nth_child) with true. cbv iota.
  apply parse_nth_child_args_ok; auto.
Qed.

(* ---- one component ---- *)
Section SelQ.
Variable q : nws.
Hypothesis Hq : nws_ok q.

Definition comp_ok (c : comp) : bool :=
  match c with
  | CClass n => ident_okc n          (* either letter case: kept as written *)
  | CElement n => ident_okb n        (* lower case: the parser lower-cases element names *)
  | CHash h => match h with [] => false | _ => body_okc h end
  | CNthChild a b => (Z.abs a <=? i32max)%Z && (Z.abs b <=? i32max)%Z
  | CStar | CCombChild | CCombDescendant => true
  end.
(* code point of the first printed character *)
Definition fc (c : comp) : N :=
  match c with
  | CClass _ => 46 | CHash _ => 35 | CStar => 42 | CCombChild | CCombDescendant => 32
  | CNthChild _ _ => 58
  | CElement n => match n with c :: _ => cp c | [] => 0 end
  end.
(* [follow x c]: character c may come right after the printed component x *)
Definition follow (x : comp) (c : N) : bool :=
  match x with
  | CClass _ | CElement _ | CHash _ => negb (identcont c)
  | CStar | CNthChild _ _ => true
  | CCombChild => negb (wsstart c)
  | CCombDescendant => negb (wsstart c) && negb (c =? 62)
  end.
Definition nfollow (x : comp) (k : text) : Prop := nf (fun c => negb (follow x c)) k.

Lemma comp_simple : forall t, nf (fun x => wsstart x || (x =? 62)) t ->
  parse_simple_selector_component t =
  palt (pdo (_, r) <- ptag [42] t; POk CStar r) (fun _ =>
  palt (parse_class t) (fun _ =>
  palt (parse_hash t) (fun _ =>
  palt (pmap CElement (parse_ident t)) (fun _ =>
  parse_pseudo_class t)))).
Proof.
  intros t H. unfold parse_simple_selector_component.
  rewrite skip_ws_id by (eapply nf_imp; [|exact H]; intros x Hx; cls).
  rewrite (ptag_nf 62) by (eapply nf_imp; [|exact H]; intros x Hx; cls).
  cbn [pbind palt].
  unfold parse_ws. rewrite many1_fail by (apply mwi_fail; eapply nf_imp; [|exact H]; intros x Hx; cls).
  reflexivity.
Qed.

Lemma fc_elem : forall n, ident_okb n = true ->
  fc (CElement n) = 45 \/ lowstart (fc (CElement n)) = true.
Proof.
  intros n H. apply ident_okb_inv in H. destruct H as (st & cs & [H|H] & Hst & _); subst n; cbn [fc].
  - right; exact Hst.
  - left; reflexivity.
Qed.
Lemma nf_print : forall (P : N -> bool) y k, comp_ok y = true -> P (fc y) = false ->
  nf P (print_comp_q q y ++ k).
Proof.
  intros P y k Hy HP. destruct y; cbn [print_comp_q fc comp_ok] in *;
    try (unfold print_nth_q; rewrite <- ?app_assoc); try (apply nf_lit; exact HP).
  destruct n as [|c n]; [discriminate|]. cbn [app nf]. exact HP.
Qed.
Lemma print_comp_len : forall y, comp_ok y = true -> (0 < length (print_comp_q q y))%nat.
Proof.
  intros y Hy. destruct y; cbn [print_comp_q comp_ok] in *; try (cbn; lia).
  destruct n; [discriminate|cbn; lia].
Qed.

Lemma comp_rt : forall x k, comp_ok x = true -> nfollow x k ->
  parse_simple_selector_component (print_comp_q q x ++ k) = POk x k.
Proof.
  intros x k Hx Hk. unfold nfollow in Hk.
  destruct x as [n|n|h| | | |a b]; cbn [comp_ok follow] in *.
  - (* class *)
    cbn [print_comp_q]. rewrite <- app_assoc.
    rewrite comp_simple by (apply nf_lit; reflexivity).
    rewrite (ptag_nf 42) by (apply nf_lit; reflexivity). cbn [pbind palt].
    unfold parse_class. rewrite ptag_lit. cbn [pbind].
    rewrite parse_ident_cased_ok; [reflexivity|exact Hx|].
    eapply nf_imp; [|exact Hk]. intros y Hy; cbv beta in Hy; destruct (identcont y); cbn in Hy |- *; congruence.
  - (* element *)
    cbn [print_comp_q].
    assert (Hnf : forall P : N -> bool, P 45 = false -> (forall y, lowstart y = true -> P y = false) ->
                  nf P (n ++ k)).
    { intros P H45 Hl. apply (nf_print P (CElement n) k Hx).
      destruct (fc_elem n Hx) as [E|E]; [rewrite E; exact H45|apply Hl, E]. }
    rewrite comp_simple by (apply Hnf; [reflexivity|intros; cls]).
    rewrite (ptag_nf 42) by (apply Hnf; [reflexivity|intros; cls]). cbn [pbind palt].
    unfold parse_class. rewrite (ptag_nf 46) by (apply Hnf; [reflexivity|intros; cls]). cbn [pbind palt].
    unfold parse_hash. rewrite (ptag_nf 35) by (apply Hnf; [reflexivity|intros; cls]). cbn [pbind palt].
    rewrite parse_ident_ok; [reflexivity|exact Hx|].
    eapply nf_imp; [|exact Hk]. intros y Hy; cbv beta in Hy; destruct (identcont y); cbn in Hy |- *; congruence.
  - (* hash *)
    cbn [print_comp_q]. rewrite <- app_assoc.
    rewrite comp_simple by (apply nf_lit; reflexivity).
    rewrite (ptag_nf 42) by (apply nf_lit; reflexivity). cbn [pbind palt].
    unfold parse_class. rewrite (ptag_nf 46) by (apply nf_lit; reflexivity). cbn [pbind palt].
    unfold parse_hash. rewrite ptag_lit. cbn [pbind].
    rewrite parse_identstring_cased_ok; [reflexivity|destruct h; [discriminate|discriminate]
                                  |destruct h; [discriminate|exact Hx]|].
    eapply nf_imp; [|exact Hk]. intros y Hy; cbv beta in Hy; destruct (identcont y); cbn in Hy |- *; congruence.
  - (* star *)
    cbn [print_comp_q].
    rewrite comp_simple by (apply nf_lit; reflexivity).
    rewrite ptag_lit. reflexivity.
  - (* child *)
    cbn [print_comp_q]. unfold parse_simple_selector_component.
    change (of_ascii [32; 62; 32] ++ k) with (mk 32 1 :: (of_ascii [62] ++ (mk 32 1 :: k))).
    rewrite skip_ws_cons by reflexivity.
    rewrite skip_ws_id by (apply nf_lit; reflexivity).
    rewrite ptag_lit. cbn [pbind palt].
    rewrite skip_ws_cons by reflexivity.
    rewrite skip_ws_id; [reflexivity|].
    eapply nf_imp; [|exact Hk]. intros y Hy; cbv beta in Hy; destruct (wsstart y); cbn in Hy |- *; congruence.
  - (* descendant *)
    cbn [print_comp_q]. unfold parse_simple_selector_component.
    change (of_ascii [32] ++ k) with (mk 32 1 :: k).
    assert (Hw : nf wsstart k).
    { eapply nf_imp; [|exact Hk]. intros y Hy; cbv beta in Hy; destruct (wsstart y); cbn in Hy |- *; congruence. }
    rewrite skip_ws_cons by reflexivity. rewrite skip_ws_id by exact Hw.
    rewrite (ptag_nf 62) by (eapply nf_imp; [|exact Hk]; intros y Hy; cbv beta in Hy;
                             destruct (wsstart y), (y =? 62); cbn in Hy |- *; congruence).
    cbn [pbind palt].
    rewrite ptag_hd by reflexivity. cbn [pbind palt].
    unfold parse_ws.
    rewrite (many1_R _ match_whitespace_item (mk 32 1 :: k) tt [] k).
    + reflexivity.
    + eapply MR_cons; [apply mwi_ws; reflexivity|cbn [length]; lia|apply MR_nil, mwi_fail, Hw].
  - (* nth-child *)
    cbn [print_comp_q]. apply andb_prop in Hx; destruct Hx as [Ha Hb].
    assert (Hl : forall (P : N -> bool) , P 58 = false -> nf P (print_nth_q q a b ++ k)).
    { intros P HP; unfold print_nth_q; rewrite <- !app_assoc; apply nf_lit, HP. }
    rewrite comp_simple by (apply Hl; reflexivity).
    rewrite (ptag_nf 42) by (apply Hl; reflexivity). cbn [pbind palt].
    unfold parse_class. rewrite (ptag_nf 46) by (apply Hl; reflexivity). cbn [pbind palt].
    unfold parse_hash. rewrite (ptag_nf 35) by (apply Hl; reflexivity). cbn [pbind palt].
    rewrite parse_ident_fail by (apply Hl; reflexivity). cbn [pmap palt].
    apply parse_pseudo_class_ok; [exact Hq|lia|lia].
Qed.

(* ---- a sequence of components ---- *)
Fixpoint chain (l : list comp) : bool :=
  match l with
  | x :: ((y :: _) as l') => follow x (fc y) && chain l'
  | _ => true
  end.
Definition is_comb (c : comp) : bool :=
  match c with CCombChild | CCombDescendant => true | _ => false end.

Lemma print_comps_cons : forall x l, print_comps_q q (x :: l) = print_comp_q q x ++ print_comps_q q l.
Proof. reflexivity. Qed.

Lemma chain_many : forall l T l2 R,
  forallb comp_ok l = true -> chain l = true ->
  (l <> [] -> nfollow (last l CStar) T) ->
  ManyR parse_simple_selector_component T l2 R ->
  ManyR parse_simple_selector_component (print_comps_q q l ++ T) (l ++ l2) R.
Proof.
  induction l as [|x l IH]; intros T l2 R Hok Hch Hlast HT; [exact HT|].
  cbn [forallb] in Hok. apply andb_prop in Hok; destruct Hok as [Hx Hok].
  rewrite print_comps_cons, <- app_assoc. cbn [app].
  assert (Hk : nfollow x (print_comps_q q l ++ T)).
  { destruct l as [|y l'].
    - cbn [print_comps_q flat_map app]. apply Hlast; discriminate.
    - cbn [chain] in Hch. apply andb_prop in Hch; destruct Hch as [Hf _].
      cbn [forallb] in Hok. apply andb_prop in Hok; destruct Hok as [Hy _].
      rewrite print_comps_cons, <- app_assoc. unfold nfollow. apply nf_print; [exact Hy|].
      rewrite Hf; reflexivity. }
  eapply MR_cons; [apply comp_rt; assumption| |].
  - rewrite (app_length (print_comp_q q x)). pose proof (print_comp_len x Hx). lia.
  - apply IH; auto.
    + destruct l as [|y l']; [reflexivity|]. cbn [chain] in Hch. apply andb_prop in Hch; tauto.
    + intros Hne. destruct l as [|y l']; [congruence|]. apply Hlast; discriminate.
Qed.

(* ---- the whole selector ---- *)
(* characters that can continue a selector *)
Definition selcont (x : N) : bool :=
  identcont x || wsstart x || (x =? 62) || (x =? 42) || (x =? 46) || (x =? 35) || (x =? 58).

Lemma comp_fail_stop : forall T, nf selcont T -> parse_simple_selector_component T = PFail.
Proof.
  intros T H.
  rewrite comp_simple by (eapply nf_imp; [|exact H]; intros x Hx; unfold selcont in Hx; cls).
  rewrite (ptag_nf 42) by (eapply nf_imp; [|exact H]; intros x Hx; unfold selcont in Hx; cls).
  cbn [pbind palt].
  unfold parse_class. rewrite (ptag_nf 46) by (eapply nf_imp; [|exact H]; intros x Hx; unfold selcont in Hx; cls).
  cbn [pbind palt].
  unfold parse_hash. rewrite (ptag_nf 35) by (eapply nf_imp; [|exact H]; intros x Hx; unfold selcont in Hx; cls).
  cbn [pbind palt].
  rewrite parse_ident_fail by (eapply nf_imp; [|exact H]; intros x Hx; unfold selcont in Hx; cls).
  cbn [pmap palt].
  unfold parse_pseudo_class.
  rewrite (ptag_nf 58) by (eapply nf_imp; [|exact H]; intros x Hx; unfold selcont in Hx; cls).
  reflexivity.
Qed.
(* `::before` / `::after` (any text that starts with two colons) *)
Lemma comp_fail_colons : forall T,
  parse_simple_selector_component (of_ascii [58] ++ of_ascii [58] ++ T) = PFail.
Proof.
  intros T.
  rewrite comp_simple by (apply nf_lit; reflexivity).
  rewrite (ptag_nf 42) by (apply nf_lit; reflexivity). cbn [pbind palt].
  unfold parse_class. rewrite (ptag_nf 46) by (apply nf_lit; reflexivity). cbn [pbind palt].
  unfold parse_hash. rewrite (ptag_nf 35) by (apply nf_lit; reflexivity). cbn [pbind palt].
  rewrite parse_ident_fail by (apply nf_lit; reflexivity). cbn [pmap palt].
  unfold parse_pseudo_class. rewrite ptag_lit. cbn [pbind].
  rewrite parse_ident_fail by (apply nf_lit; reflexivity). reflexivity.
Qed.

Lemma olast_snoc : forall A (l : list A) x, olast (l ++ [x]) = Some x.
Proof. intros A l x; unfold olast. rewrite rev_app_distr. reflexivity. Qed.
Lemma olast_last : forall A (l : list A) d, l <> [] -> olast l = Some (last l d).
Proof.
  intros A l d H. rewrite (app_removelast_last d H) at 1. apply olast_snoc.
Qed.
Lemma pop_desc_id : forall l, is_desc (last l CStar) = false -> pop_desc l = l.
Proof.
  intros l H. unfold pop_desc. destruct l as [|x l]; [reflexivity|].
  rewrite (olast_last _ (x :: l) CStar) by discriminate. rewrite H. reflexivity.
Qed.
Lemma pop_desc_snoc : forall l, pop_desc (l ++ [CCombDescendant]) = l.
Proof. intros l. unfold pop_desc. rewrite olast_snoc. cbn [is_desc]. apply removelast_last. Qed.
Lemma last_rev_hd : forall (l : list comp) x, last (rev (x :: l)) CStar = x.
Proof. intros l x. cbn [rev]. apply last_last. Qed.

Lemma is_comb_desc : forall c, is_comb c = false -> is_desc c = false.
Proof. intros []; cbn; congruence. Qed.

Definition wf_src (l : list comp) : bool :=
  forallb comp_ok l && chain l &&
  match l with [] => false | x :: _ => negb (is_comb x) end &&
  negb (is_comb (last l CStar)).
(* well-formed selectors: the stored list is the source list reversed *)
Definition wf_selector (s : selector) : bool := wf_src (rev (comps s)).

Lemma pseudo_elem_some : forall pe T, pe <> None ->
  parse_pseudo_element (print_pseudo pe ++ T) = (pe, T).
Proof.
  intros [[|]|] T H; [| |congruence]; unfold parse_pseudo_element, starts_with; cbn [print_pseudo].
  - rewrite ptag_lit. reflexivity.
  - change (ptag [58; 58; 98; 101; 102; 111; 114; 101] (of_ascii [58; 58; 97; 102; 116; 101; 114] ++ T))
      with (@PFail unit).
    rewrite ptag_lit. reflexivity.
Qed.
Lemma pseudo_elem_none : forall T, nf (fun x => x =? 58) T -> parse_pseudo_element T = (None, T).
Proof.
  intros T H; unfold parse_pseudo_element, starts_with. rewrite !ptag_nf by exact H. reflexivity.
Qed.

(* what may follow a printed selector: anything after a pseudo-element; otherwise a text
   that is empty or starts with a character that cannot continue a selector (`{`, `,`, `)` ...),
   optionally preceded by ONE space, which the parser takes for a descendant combinator and
   then drops again *)
Lemma last_follow_any : forall x c, is_comb x = false -> identcont c = false -> follow x c = true.
Proof. intros x c0 Hx Hc; destruct x; cbn in *; try congruence; rewrite Hc; reflexivity. Qed.

Lemma parse_selector_src : forall l K l2 R,
  wf_src l = true ->
  nf identcont K ->
  ManyR parse_simple_selector_component K l2 R ->
  parse_selector (print_comps_q q l ++ K) =
  (let cs2 := pop_desc (rev (pop_desc (l ++ l2))) in
   let '(pe, rest') := parse_pseudo_element R in POk (mksel cs2 pe) rest').
Proof.
  intros l K l2 R Hwf HK HR. unfold wf_src in Hwf.
  apply andb_prop in Hwf; destruct Hwf as [Hwf Hlast].
  apply andb_prop in Hwf; destruct Hwf as [Hwf Hfirst].
  apply andb_prop in Hwf; destruct Hwf as [Hok Hch].
  destruct l as [|x l]; [discriminate|].
  assert (Hlf : x :: l <> [] -> nfollow (last (x :: l) CStar) K).
  { intros _. unfold nfollow. eapply nf_imp; [|exact HK]. intros c Hc.
    rewrite last_follow_any; [reflexivity| |exact Hc].
    destruct (is_comb (last (x :: l) CStar)); [discriminate|reflexivity]. }
  pose proof (chain_many (x :: l) K l2 R Hok Hch Hlf HR) as HM.
  unfold parse_selector.
  assert (E : palt (parse_selector_with_element (print_comps_q q (x :: l) ++ K))
                   (fun _ => parse_selector_without_element (print_comps_q q (x :: l) ++ K))
              = POk ((x :: l) ++ l2) R).
  { inversion HM as [|t a t' l0 r0 Hp Hlt HR' Et El]; subst.
    destruct (match x with CElement _ => true | _ => false end) eqn:Ex.
    - destruct x as [|n| | | | |]; try discriminate.
      unfold parse_selector_with_element.
      rewrite print_comps_cons, <- app_assoc. cbn [print_comp_q].
      rewrite print_comps_cons, <- app_assoc in Hp. cbn [print_comp_q] in Hp.
      (* the component parser took the element through parse_ident *)
      assert (Hid : parse_ident (n ++ print_comps_q q l ++ K) = POk n t').
      { cbn [forallb comp_ok] in Hok. apply andb_prop in Hok; destruct Hok as [Hn _].
        assert (Hnf : forall P : N -> bool, P 45 = false -> (forall y, lowstart y = true -> P y = false) ->
                      nf P (n ++ print_comps_q q l ++ K)).
        { intros P H45 Hl. apply (nf_print P (CElement n) _ Hn).
          destruct (fc_elem n Hn) as [E|E]; [rewrite E; exact H45|apply Hl, E]. }
        rewrite comp_simple in Hp by (apply Hnf; [reflexivity|intros; cls]).
        rewrite (ptag_nf 42) in Hp by (apply Hnf; [reflexivity|intros; cls]). cbn [pbind palt] in Hp.
        unfold parse_class in Hp.
        rewrite (ptag_nf 46) in Hp by (apply Hnf; [reflexivity|intros; cls]). cbn [pbind palt] in Hp.
        unfold parse_hash in Hp.
        rewrite (ptag_nf 35) in Hp by (apply Hnf; [reflexivity|intros; cls]). cbn [pbind palt] in Hp.
        destruct (parse_ident (n ++ print_comps_q q l ++ K)) as [n' r'| | |]; cbn [pmap palt] in Hp.
        - inversion Hp; subst; reflexivity.
        - unfold parse_pseudo_class in Hp.
          rewrite (ptag_nf 58) in Hp by (apply Hnf; [reflexivity|intros; cls]). discriminate.
        - discriminate.
        - discriminate. }
      rewrite Hid. cbn [pbind]. rewrite (many0_R _ _ _ _ _ HR'). reflexivity.
    - assert (Hf : parse_ident (print_comps_q q (x :: l) ++ K) = PFail).
      { rewrite print_comps_cons, <- app_assoc.
        cbn [forallb] in Hok. apply andb_prop in Hok; destruct Hok as [Hx _].
        apply parse_ident_fail. apply nf_print; [exact Hx|].
        destruct x; try discriminate; reflexivity. }
      unfold parse_selector_with_element. rewrite Hf. cbn [pbind palt].
      unfold parse_selector_without_element. apply many1_R. exact HM. }
  rewrite E. reflexivity.
Qed.

End SelQ.

(* ------------------------------------------------------------------ *)
(* 7. MAIN THEOREM 1: selectors round-trip *)
Lemma wf_src_inv : forall l, wf_src l = true ->
  exists x l', l = x :: l' /\ is_comb x = false /\ is_comb (last l CStar) = false.
Proof.
  intros l H; unfold wf_src in H.
  apply andb_prop in H; destruct H as [H Hlast]. apply andb_prop in H; destruct H as [_ Hfirst].
  destruct l as [|x l']; [discriminate|]. exists x, l'; split; [reflexivity|].
  split.
  - destruct (is_comb x) eqn:E; [discriminate|reflexivity].
  - destruct (is_comb (last (x :: l') CStar)) eqn:E; [discriminate|reflexivity].
Qed.

Lemma pops_id : forall l, wf_src l = true -> pop_desc (rev (pop_desc l)) = rev l.
Proof.
  intros l H. destruct (wf_src_inv l H) as (x & l' & -> & Hx & Hl).
  rewrite (pop_desc_id (x :: l')) by (apply is_comb_desc, Hl).
  apply pop_desc_id. rewrite last_rev_hd. apply is_comb_desc, Hx.
Qed.

(* [rest]: the text after the selector.  After a pseudo-element anything may follow; otherwise
   rest must be empty or start with a character that cannot continue a selector (`{` `,` `)` ...:
   anything but  a-z A-Z 0-9 _ - \ whitespace / > * . # :  ).
   General form: optional whitespace [q] inside `:nth-child( An + B )` (after `(`, around the sign
   of B, before `)`), accepted since the repair of nth_full. *)
Theorem parse_selector_rt_nthws : forall q s rest,
  nws_ok q -> wf_selector s = true ->
  (pseudo_el s = None -> nf selcont rest) ->
  parse_selector (print_selector_q q s ++ rest) = POk s rest.
Proof.
  intros q [cs pe] rest Hq Hwf Hrest. unfold wf_selector, print_selector_q in *. cbn [comps pseudo_el] in *.
  rewrite <- app_assoc.
  assert (HK : parse_simple_selector_component (print_pseudo pe ++ rest) = PFail /\
               nf identcont (print_pseudo pe ++ rest)).
  { destruct pe as [[|]|]; cbn [print_pseudo].
    - split; [apply (comp_fail_colons (of_ascii [98;101;102;111;114;101] ++ rest))|apply nf_lit; reflexivity].
    - split; [apply (comp_fail_colons (of_ascii [97;102;116;101;114] ++ rest))|apply nf_lit; reflexivity].
    - cbn [app]. specialize (Hrest eq_refl). split; [apply comp_fail_stop, Hrest|].
      eapply nf_imp; [|exact Hrest]. intros x Hx; unfold selcont in Hx; cls. }
  destruct HK as [HK1 HK2].
  rewrite (parse_selector_src q Hq _ _ [] _ Hwf HK2 (MR_nil _ _ HK1)). cbv zeta.
  rewrite app_nil_r, pops_id by exact Hwf. rewrite rev_involutive.
  destruct pe as [p|].
  - rewrite pseudo_elem_some by discriminate. reflexivity.
  - cbn [print_pseudo app]. rewrite pseudo_elem_none; [reflexivity|].
    eapply nf_imp; [|exact (Hrest eq_refl)]. intros x Hx; unfold selcont in Hx; cls.
Qed.

(* the same with whitespace material (spaces, newlines, comments) between the selector and
   the stop character, as in `p {`: the parser reads a descendant combinator and drops it *)
Theorem parse_selector_rt_ws_nthws : forall q s w rest,
  nws_ok q -> wf_selector s = true -> pseudo_el s = None ->
  wsm w -> w <> [] -> nf selcont rest ->
  parse_selector (print_selector_q q s ++ w ++ rest) = POk s rest.
Proof.
  intros q [cs pe] w rest Hq Hwf Hpe Hw Hne Hrest. unfold wf_selector, print_selector_q in *.
  cbn [comps pseudo_el] in *. subst pe. cbn [print_pseudo]. rewrite app_nil_r.
  assert (HR : ManyR parse_simple_selector_component (w ++ rest) [CCombDescendant] rest).
  { eapply MR_cons; [apply comp_ws; auto| |apply MR_nil, comp_fail_stop, Hrest].
    - eapply nf_imp; [|exact Hrest]. intros x Hx; unfold selcont in Hx; cls.
    - rewrite app_length. destruct w; [congruence|cbn [length]; lia]. }
  assert (HK : nf identcont (w ++ rest)).
  { apply wsm_nf; [exact Hw|intros; cls|left; exact Hne]. }
  rewrite (parse_selector_src q Hq _ _ _ _ Hwf HK HR). cbv zeta.
  rewrite pop_desc_snoc.
  destruct (wf_src_inv _ Hwf) as (x & l' & El & Hx & Hl).
  rewrite El. rewrite pop_desc_id by (rewrite last_rev_hd; apply is_comb_desc, Hx).
  rewrite <- El, rev_involutive.
  rewrite pseudo_elem_none; [reflexivity|].
  eapply nf_imp; [|exact Hrest]. intros y Hy; unfold selcont in Hy; cls.
Qed.

(* the canonical spelling (no whitespace inside `:nth-child(..)`) *)
Theorem parse_selector_rt : forall s rest,
  wf_selector s = true ->
  (pseudo_el s = None -> nf selcont rest) ->
  parse_selector (print_selector s ++ rest) = POk s rest.
Proof.
  intros s rest Hwf Hrest. rewrite <- print_selector_q0.
  apply parse_selector_rt_nthws; [apply nws0_ok|exact Hwf|exact Hrest].
Qed.

Theorem parse_selector_rt_ws : forall s w rest,
  wf_selector s = true -> pseudo_el s = None ->
  wsm w -> w <> [] -> nf selcont rest ->
  parse_selector (print_selector s ++ w ++ rest) = POk s rest.
Proof.
  intros s w rest Hwf Hpe Hw Hne Hrest. rewrite <- print_selector_q0.
  apply parse_selector_rt_ws_nthws; auto using nws0_ok.
Qed.

(* non-vacuity:  div > p.c #id :nth-child(2n+1)   and   *.x-1::before  *)
Definition ex_sel1 : selector :=
  mksel [CNthChild 2 1; CCombDescendant; CHash (of_ascii [105;100]); CCombDescendant;
         CClass (of_ascii [99]); CElement (of_ascii [112]); CCombChild;
         CElement (of_ascii [100;105;118])] None.
Definition ex_sel2 : selector :=
  mksel [CClass (of_ascii [120;45;49]); CStar] (Some PBefore).
Example ex_sel1_wf : wf_selector ex_sel1 = true. Proof. reflexivity. Qed.
Example ex_sel1_print : print_selector ex_sel1 =
  of_ascii [100;105;118;32;62;32;112;46;99;32;35;105;100;32;58;110;116;104;45;99;104;105;108;100;
            40;50;110;43;49;41].
Proof. reflexivity. Qed.
Example ex_sel1_rt : parse_selector (print_selector ex_sel1 ++ of_ascii [123]) = POk ex_sel1 (of_ascii [123]).
Proof. apply parse_selector_rt; [reflexivity|intros _; reflexivity]. Qed.
Example ex_sel1_rt_ws :
  parse_selector (print_selector ex_sel1 ++ of_ascii [32;10] ++ of_ascii [123]) = POk ex_sel1 (of_ascii [123]).
Proof.
  apply parse_selector_rt_ws; try reflexivity; try discriminate.
  repeat (apply wsm_ws; [reflexivity|]). apply wsm_nil.
Qed.
Example ex_sel2_wf : wf_selector ex_sel2 = true. Proof. reflexivity. Qed.
Example ex_sel2_print : print_selector ex_sel2 =
  of_ascii [42;46;120;45;49;58;58;98;101;102;111;114;101].
Proof. reflexivity. Qed.
Example ex_sel2_rt : forall rest, parse_selector (print_selector ex_sel2 ++ rest) = POk ex_sel2 rest.
Proof. intros rest; apply parse_selector_rt; [reflexivity|discriminate]. Qed.
(* -3n-2, 0n+5 *)
Example ex_nth : forall rest, nf selcont rest ->
  parse_selector (print_selector (mksel [CNthChild (-3) (-2); CNthChild 0 5; CStar] None) ++ rest)
  = POk (mksel [CNthChild (-3) (-2); CNthChild 0 5; CStar] None) rest.
Proof. intros rest H; apply parse_selector_rt; [reflexivity|intros _; exact H]. Qed.

Print Assumptions parse_selector_rt.
Print Assumptions parse_selector_rt_ws.

(* ------------------------------------------------------------------ *)
(* 8. tokens and declaration values *)
Lemma parse_token_hash : forall w r1, wsm w ->
  parse_token (w ++ mk 35 1 :: r1) =
  match parse_identstring r1 with
  | POk id r => POk (THash id) r
  | PPanic s => PPanic s
  | PFuel => PFuel
  | PFail => POk (TDelim 35) r1
  end.
Proof.
  intros w r1 Hw. unfold parse_token; cbv zeta.
  rewrite skip_ws_wsm by (auto; reflexivity). reflexivity.
Qed.
Lemma parse_token_bang : forall w r1, wsm w -> parse_token (w ++ mk 33 1 :: r1) = POk (TDelim 33) r1.
Proof.
  intros w r1 Hw. unfold parse_token; cbv zeta.
  rewrite skip_ws_wsm by (auto; reflexivity). reflexivity.
Qed.
Lemma parse_token_semi : forall w r1, wsm w -> parse_token (w ++ mk 59 1 :: r1) = POk TSemicolon r1.
Proof.
  intros w r1 Hw. unfold parse_token; cbv zeta.
  rewrite skip_ws_wsm by (auto; reflexivity). reflexivity.
Qed.
Lemma parse_token_close : forall w r1, wsm w -> parse_token (w ++ mk 125 1 :: r1) = POk TCloseBrace r1.
Proof.
  intros w r1 Hw. unfold parse_token; cbv zeta.
  rewrite skip_ws_wsm by (auto; reflexivity). reflexivity.
Qed.
Lemma parse_token_lower : forall w c r1, wsm w -> is_lower (cp c) = true ->
  parse_token (w ++ c :: r1) = parse_ident_like (c :: r1).
Proof.
  intros w c r1 Hw Hc. unfold parse_token; cbv zeta.
  rewrite skip_ws_wsm by (auto; cbn [nf]; cls). cbv beta iota.
  repeat (lazymatch goal with
          | |- (if ?b then _ else _) = _ =>
              let E := fresh "E" in assert (E : b = false) by cls; rewrite E; clear E
          end).
  assert (E : is_ident_start (cp c) = true) by (unfold is_ident_start; cls).
  rewrite E. reflexivity.
Qed.

Lemma parse_ident_like_ok : forall n k, ident_okb n = true -> nf identcont k -> nf (fun x => x =? 40) k ->
  parse_ident_like (n ++ k) = POk (TIdent n) k.
Proof.
  intros n k Hn Hk H40. unfold parse_ident_like. rewrite parse_ident_ok by assumption. cbn [pbind].
  rewrite ptag_nf by exact H40. reflexivity.
Qed.

(* the value loop value_toks_f as a relation (no fuel).  [vstep d t] is one step of the loop at
   bracket depth d: the next token, or PFail where the loop stops (a `}`, a `;` at depth 0, or no
   token at all) *)
Definition vstep (d : nat) (t : text) : pr token :=
  match parse_token t with
  | POk tok rest =>
      if is_close_brace tok || (is_semicolon tok && Nat.eqb d 0) then PFail else POk tok rest
  | other => other
  end.
Inductive ValR : nat -> text -> list token -> text -> Prop :=
| VR_nil : forall d t, vstep d t = PFail -> ValR d t [] t
| VR_cons : forall d t a t' l r, vstep d t = POk a t' -> (length t' < length t)%nat ->
    ValR (depth_after a d) t' l r -> ValR d t (a :: l) r.

Lemma value_toks_f_R : forall d t l r, ValR d t l r ->
  forall fuel acc, (length t < fuel)%nat -> value_toks_f fuel d t acc = POk (rev acc ++ l) r.
Proof.
  intros d t l r H; induction H as [d t Hp|d t a t' l r Hp Hlt HR IH]; intros fuel acc Hf;
    (destruct fuel as [|f]; [lia|]); cbn [value_toks_f]; unfold vstep in Hp.
  - destruct (parse_token t) as [tok rest| |s|]; try discriminate.
    + destruct (is_close_brace tok); [rewrite app_nil_r; reflexivity|].
      destruct (is_semicolon tok && Nat.eqb d 0); cbn [orb] in Hp;
        [rewrite app_nil_r; reflexivity|discriminate].
    + rewrite app_nil_r; reflexivity.
  - destruct (parse_token t) as [tok rest| |s|]; try discriminate.
    destruct (is_close_brace tok); cbn [orb] in Hp; [discriminate|].
    destruct (is_semicolon tok && Nat.eqb d 0); cbn [orb] in Hp; [discriminate|].
    inversion Hp; subst tok rest.
    destruct (Nat.eqb_spec (length t') (length t)) as [He|Hne]; [lia|].
    rewrite IH by lia. cbn [rev]. rewrite <- app_assoc. reflexivity.
Qed.
Lemma value_toks_R : forall t l r, ValR 0 t l r -> value_toks t = POk l r.
Proof. intros t l r H; unfold value_toks. rewrite (value_toks_f_R _ _ _ _ H) by lia. reflexivity. Qed.

(* token-level round trips, through one step of the value loop (at any bracket depth) *)
Lemma ptns_hash : forall d w h k, wsm w -> h <> [] -> body_ok h = true -> nf identcont k ->
  vstep d (w ++ of_ascii [35] ++ h ++ k) = POk (THash h) k.
Proof.
  intros d w h k Hw Hne Hb Hk. unfold vstep.
  change (of_ascii [35] ++ h ++ k) with (mk 35 1 :: (h ++ k)).
  rewrite parse_token_hash by exact Hw. rewrite parse_identstring_ok by assumption. reflexivity.
Qed.
Lemma ptns_bang : forall d w k, wsm w ->
  vstep d (w ++ of_ascii [33] ++ k) = POk (TDelim 33) k.
Proof.
  intros d w k Hw. unfold vstep.
  change (of_ascii [33] ++ k) with (mk 33 1 :: k). rewrite parse_token_bang by exact Hw. reflexivity.
Qed.
Lemma ptns_word : forall d w l k, wsm w -> ident_okb (of_ascii l) = true ->
  match l with x :: _ => is_lower x = true | [] => False end ->
  nf identcont k -> nf (fun x => x =? 40) k ->
  vstep d (w ++ of_ascii l ++ k) = POk (TIdent (of_ascii l)) k.
Proof.
  intros d w l k Hw Hl Hx Hk H40. unfold vstep.
  destruct l as [|x l]; [contradiction|].
  change (of_ascii (x :: l) ++ k) with (mk x 1 :: (of_ascii l ++ k)).
  rewrite parse_token_lower by (auto; exact Hx).
  change (mk x 1 :: (of_ascii l ++ k)) with (of_ascii (x :: l) ++ k).
  rewrite parse_ident_like_ok by assumption. reflexivity.
Qed.
(* a `;` outside all brackets and a `}` end the value *)
Lemma ptns_semi : forall w k, wsm w -> vstep 0 (w ++ of_ascii [59] ++ k) = PFail.
Proof.
  intros w k Hw. unfold vstep.
  change (of_ascii [59] ++ k) with (mk 59 1 :: k). rewrite parse_token_semi by exact Hw. reflexivity.
Qed.
Lemma ptns_close : forall d w k, wsm w -> vstep d (w ++ of_ascii [125] ++ k) = PFail.
Proof.
  intros d w k Hw. unfold vstep.
  change (of_ascii [125] ++ k) with (mk 125 1 :: k). rewrite parse_token_close by exact Hw. reflexivity.
Qed.

(* ---- hexadecimal colours ---- *)
Definition hexc (d : N) : N := if d <? 10 then 48 + d else 87 + d.
Definition hex2 (r : N) : list N := [hexc (r / 16); hexc (r mod 16)].
Definition hex6 (r g b : N) : text := of_ascii (hex2 r ++ hex2 g ++ hex2 b).

Lemma hexc_facts : forall d, d < 16 ->
  is_hex (hexc d) = true /\ hex_val (hexc d) = d /\ lownm (hexc d) = true /\ hexc d < 128.
Proof.
  intros d Hd. unfold hexc, is_hex, hex_val, lownm, is_digit, is_lower.
  destruct (N.ltb_spec d 10) as [H|H].
  - assert (E : (48 <=? 48 + d) && (48 + d <=? 57) = true) by lia. rewrite E. repeat split; lia.
  - assert (E : (48 <=? 87 + d) && (87 + d <=? 57) = false) by lia. rewrite E.
    assert (E2 : (97 <=? 87 + d) = true) by lia. rewrite E2. repeat split; lia.
Qed.

Lemma hex6_body : forall r g b, r < 256 -> g < 256 -> b < 256 -> body_ok (hex6 r g b) = true.
Proof.
  intros r g b Hr Hg Hb. unfold hex6, hex2, of_ascii, body_ok; cbn [app map forallb cp mk].
  pose proof (N.mod_upper_bound r 16 ltac:(lia)). pose proof (N.mod_upper_bound g 16 ltac:(lia)).
  pose proof (N.mod_upper_bound b 16 ltac:(lia)).
  assert (r / 16 < 16) by (apply N.div_lt_upper_bound; lia).
  assert (g / 16 < 16) by (apply N.div_lt_upper_bound; lia).
  assert (b / 16 < 16) by (apply N.div_lt_upper_bound; lia).
  rewrite (proj1 (proj2 (proj2 (hexc_facts (r / 16) ltac:(assumption))))).
  rewrite (proj1 (proj2 (proj2 (hexc_facts (r mod 16) ltac:(assumption))))).
  rewrite (proj1 (proj2 (proj2 (hexc_facts (g / 16) ltac:(assumption))))).
  rewrite (proj1 (proj2 (proj2 (hexc_facts (g mod 16) ltac:(assumption))))).
  rewrite (proj1 (proj2 (proj2 (hexc_facts (b / 16) ltac:(assumption))))).
  rewrite (proj1 (proj2 (proj2 (hexc_facts (b mod 16) ltac:(assumption))))).
  reflexivity.
Qed.

Lemma rgb_arith : forall r g b, r < 256 -> g < 256 -> b < 256 ->
  let v := r * 65536 + g * 256 + b in
  (v <=? 4294967295) = true /\ (v / 65536) mod 256 = r /\ (v / 256) mod 256 = g /\ v mod 256 = b.
Proof.
  intros r g b Hr Hg Hb v.
  assert (E1 : v / 65536 = r) by (symmetry; apply (N.div_unique v 65536 r (g * 256 + b)); unfold v; lia).
  assert (E2 : v / 256 = r * 256 + g) by (symmetry; apply (N.div_unique v 256 (r * 256 + g) b); unfold v; lia).
  assert (E3 : (r * 256 + g) mod 256 = g) by (symmetry; apply (N.mod_unique _ 256 r g); lia).
  assert (E4 : v mod 256 = b) by (symmetry; apply (N.mod_unique v 256 (r * 256 + g) b); unfold v; lia).
  rewrite E1, E2, E3, E4, (N.mod_small r 256) by lia. repeat split; unfold v; lia.
Qed.

Lemma parse_color_hex : forall r g b, r < 256 -> g < 256 -> b < 256 ->
  parse_color [THash (hex6 r g b)] = Some (r, g, b).
Proof.
  intros r g b Hr Hg Hb.
  pose proof (N.mod_upper_bound r 16 ltac:(lia)) as Hr2. pose proof (N.mod_upper_bound g 16 ltac:(lia)) as Hg2.
  pose proof (N.mod_upper_bound b 16 ltac:(lia)) as Hb2.
  assert (Hr1 : r / 16 < 16) by (apply N.div_lt_upper_bound; lia).
  assert (Hg1 : g / 16 < 16) by (apply N.div_lt_upper_bound; lia).
  assert (Hb1 : b / 16 < 16) by (apply N.div_lt_upper_bound; lia).
  pose proof (N.div_mod r 16 ltac:(lia)) as Er. pose proof (N.div_mod g 16 ltac:(lia)) as Eg.
  pose proof (N.div_mod b 16 ltac:(lia)) as Eb.
  destruct (hexc_facts _ Hr1) as (Hh1 & Hv1 & _ & Hl1). destruct (hexc_facts _ Hr2) as (Hh2 & Hv2 & _ & Hl2).
  destruct (hexc_facts _ Hg1) as (Hh3 & Hv3 & _ & Hl3). destruct (hexc_facts _ Hg2) as (Hh4 & Hv4 & _ & Hl4).
  destruct (hexc_facts _ Hb1) as (Hh5 & Hv5 & _ & Hl5). destruct (hexc_facts _ Hb2) as (Hh6 & Hv6 & _ & Hl6).
  unfold parse_color, hex6, hex2, of_ascii. cbn [app map utf8_len cp mk].
  unfold utf8_len1.
  rewrite (proj2 (N.ltb_lt _ _) Hl1), (proj2 (N.ltb_lt _ _) Hl2), (proj2 (N.ltb_lt _ _) Hl3),
          (proj2 (N.ltb_lt _ _) Hl4), (proj2 (N.ltb_lt _ _) Hl5), (proj2 (N.ltb_lt _ _) Hl6).
  change (1 + (1 + (1 + (1 + (1 + (1 + 0))))) =? 3) with false.
  change (1 + (1 + (1 + (1 + (1 + (1 + 0))))) =? 6) with true. cbv iota.
  unfold parse_hex. cbn [cp mk].
  assert (E43 : (hexc (r / 16) =? 43) = false) by (unfold hexc; destruct (r / 16 <? 10); lia).
  rewrite E43. cbn [parse_hex_digits cp mk].
  rewrite Hh1, Hh2, Hh3, Hh4, Hh5, Hh6, Hv1, Hv2, Hv3, Hv4, Hv5, Hv6.
  replace ((((((0 * 16 + r / 16) * 16 + r mod 16) * 16 + g / 16) * 16 + g mod 16) * 16 + b / 16) * 16 + b mod 16)
    with (r * 65536 + g * 256 + b) by (clear - Er Eg Eb; lia).
  clear - Hr Hg Hb.
  destruct (rgb_arith r g b Hr Hg Hb) as (Ele & E1 & E2 & E3).
  rewrite Ele, E1, E2, E3. reflexivity.
Qed.

(* ------------------------------------------------------------------ *)
(* 9. declarations, rule sets, style sheets: printer with whitespace parameters *)
(* the optional whitespace (spaces, tabs, newlines, comments) of one rule set *)
Record wsp := mkwsp {
  w_comma : text;   (* after the `,` between selectors *)
  w_sel : text;     (* before `{` *)
  w_open : text;    (* after `{` *)
  w_c1 : text;      (* before `:` *)
  w_c2 : text;      (* after `:` *)
  w_imp : text;     (* before `!important` *)
  w_s1 : text;      (* before `;` *)
  w_s2 : text;      (* after `;` *)
  w_close : text;   (* before `}` *)
  w_end : text      (* after `}` *)
}.
Definition wsp_ok (p : wsp) : Prop :=
  wsm (w_comma p) /\ wsm (w_sel p) /\ wsm (w_open p) /\ wsm (w_c1 p) /\ wsm (w_c2 p) /\
  wsm (w_imp p) /\ wsm (w_s1 p) /\ wsm (w_s2 p) /\ wsm (w_close p) /\ wsm (w_end p).
(* the canonical spelling:  `a, b { color: #ff0000 !important; display: none }` newline *)
Definition sp1 : text := of_ascii [32].
Definition canon : wsp := mkwsp sp1 sp1 sp1 [] sp1 sp1 [] sp1 sp1 (of_ascii [10]).

Definition s_block : list N := [98;108;111;99;107].
Definition decl_ok (d : declaration) : bool :=
  match d_data d with
  | DColor r g b | DBackgroundColor r g b => (r <? 256) && (g <? 256) && (b <? 256)
  | DDisplay _ => true
  | _ => false
  end.
Definition prop_name (d : decl) : list N :=
  match d with
  | DColor _ _ _ => p_color
  | DBackgroundColor _ _ _ => p_background_color
  | _ => p_display
  end.
Definition val_text (d : decl) : text :=
  match d with
  | DColor r g b | DBackgroundColor r g b => of_ascii [35] ++ hex6 r g b
  | DDisplay true => of_ascii s_none
  | _ => of_ascii s_block
  end.
Definition val_toks (d : decl) : list token :=
  match d with
  | DColor r g b | DBackgroundColor r g b => [THash (hex6 r g b)]
  | DDisplay true => [TIdent (of_ascii s_none)]
  | _ => [TIdent (of_ascii s_block)]
  end.
Definition imp_text (p : wsp) (i : bool) : text :=
  if i then w_imp p ++ of_ascii [33] ++ of_ascii s_important else [].
Definition imp_toks (i : bool) : list token :=
  if i then [TDelim 33; TIdent (of_ascii s_important)] else [].

Definition print_decl_ws (p : wsp) (d : declaration) : text :=
  of_ascii (prop_name (d_data d)) ++ w_c1 p ++ of_ascii [58] ++ w_c2 p ++
  val_text (d_data d) ++ imp_text p (d_important d).
Definition print_decls_ws (p : wsp) (ds : list declaration) : text :=
  match ds with
  | [] => []
  | d :: ds' => print_decl_ws p d ++
                flat_map (fun d' => w_s1 p ++ of_ascii [59] ++ w_s2 p ++ print_decl_ws p d') ds'
  end.
Definition print_sels_ws (p : wsp) (ss : list selector) : text :=
  match ss with
  | [] => []
  | s :: ss' => print_selector s ++
                flat_map (fun s' => of_ascii [44] ++ w_comma p ++ print_selector s') ss'
  end.
Definition print_ruleset_ws (p : wsp) (r : cssruleset) : text :=
  print_sels_ws p (crs_selectors r) ++ w_sel p ++ of_ascii [123] ++ w_open p ++
  print_decls_ws p (crs_decls r) ++ w_close p ++ of_ascii [125] ++ w_end p.
Definition print_ruleset : cssruleset -> text := print_ruleset_ws canon.

(* a text at which a declaration value ends *)
Definition vstop (K : text) : Prop :=
  vstep 0 K = PFail /\ nf identcont K /\ nf (fun x => x =? 40) K.

Lemma len_app_lt : forall (a k : text), a <> [] -> (length k < length (a ++ k))%nat.
Proof. intros a k H; rewrite app_length; destruct a; [congruence|cbn [length]; lia]. Qed.

Lemma value_many : forall p data i K, wsm (w_imp p) -> decl_ok (mkdecl data i) = true -> vstop K ->
  ValR 0 (val_text data ++ imp_text p i ++ K) (val_toks data ++ imp_toks i) K.
Proof.
  intros p data i K Hw Hd (HK1 & HK2 & HK3).
  (* the tail: [!important] then K *)
  assert (Htail : ValR 0 (imp_text p i ++ K) (imp_toks i) K /\
                  nf identcont (imp_text p i ++ K) /\ nf (fun x => x =? 40) (imp_text p i ++ K)).
  { destruct i; cbn [imp_text imp_toks app].
    - rewrite <- !app_assoc. split; [|split].
      + eapply VR_cons; [apply ptns_bang, Hw| |].
        * rewrite !app_length; cbn [length of_ascii map]; lia.
        * eapply VR_cons; [apply (ptns_word _ [] s_important K wsm_nil); auto; reflexivity
                          |apply len_app_lt; discriminate|apply VR_nil, HK1].
      + apply wsm_nf; [exact Hw|intros; cls|right; apply nf_lit; reflexivity].
      + apply wsm_nf; [exact Hw|intros; cls|right; apply nf_lit; reflexivity].
    - split; [apply VR_nil, HK1|split; assumption]. }
  destruct Htail as (HT1 & HT2 & HT3).
  unfold decl_ok in Hd; cbn [d_data] in Hd.
  destruct data as [r g b|r g b| | | | |[|]| | |]; try discriminate; cbn [val_text val_toks app].
  - rewrite <- app_assoc.
    assert (Hr : r < 256 /\ g < 256 /\ b < 256) by lia. destruct Hr as (Hr & Hg & Hb).
    eapply VR_cons; [apply (ptns_hash _ [] _ _ wsm_nil); [discriminate|apply hex6_body; assumption|exact HT2]
                    |rewrite !app_length; cbn [length of_ascii map]; lia|exact HT1].
  - rewrite <- app_assoc.
    assert (Hr : r < 256 /\ g < 256 /\ b < 256) by lia. destruct Hr as (Hr & Hg & Hb).
    eapply VR_cons; [apply (ptns_hash _ [] _ _ wsm_nil); [discriminate|apply hex6_body; assumption|exact HT2]
                    |rewrite !app_length; cbn [length of_ascii map]; lia|exact HT1].
  - eapply VR_cons; [apply (ptns_word _ [] s_none _ wsm_nil); auto; reflexivity
                    |apply len_app_lt; discriminate|exact HT1].
  - eapply VR_cons; [apply (ptns_word _ [] s_block _ wsm_nil); auto; reflexivity
                    |apply len_app_lt; discriminate|exact HT1].
Qed.

Lemma parse_value_ok : forall p data i K, wsm (w_imp p) -> decl_ok (mkdecl data i) = true -> vstop K ->
  parse_value (val_text data ++ imp_text p i ++ K) = POk (val_toks data, i) K.
Proof.
  intros p data i K Hw Hd HK. unfold parse_value.
  rewrite (value_toks_R _ _ _ (value_many p data i K Hw Hd HK)). cbn [pbind].
  unfold decl_ok in Hd; cbn [d_data] in Hd.
  destruct data as [r g b|r g b| | | | |[|]| | |]; try discriminate; destruct i; reflexivity.
Qed.

Lemma decl_of_ok : forall data i, decl_ok (mkdecl data i) = true ->
  decl_of (of_ascii (prop_name data)) (val_toks data) = data.
Proof.
  intros data i Hd. unfold decl_ok in Hd; cbn [d_data] in Hd.
  destruct data as [r g b|r g b| | | | |[|]| | |]; try discriminate; cbn [prop_name val_toks].
  - change (decl_of (of_ascii p_color) [THash (hex6 r g b)])
      with (match parse_color [THash (hex6 r g b)] with Some (r, g, b) => DColor r g b | None => DUnknown end).
    rewrite parse_color_hex by lia. reflexivity.
  - change (decl_of (of_ascii p_background_color) [THash (hex6 r g b)])
      with (match parse_color [THash (hex6 r g b)] with
            | Some (r, g, b) => DBackgroundColor r g b | None => DUnknown end).
    rewrite parse_color_hex by lia. reflexivity.
  - reflexivity.
  - reflexivity.
Qed.

Lemma prop_name_ident : forall data, ident_okb (of_ascii (prop_name data)) = true.
Proof. intros data; destruct data; reflexivity. Qed.
Lemma val_text_nf : forall (P : N -> bool) data k,
  P 35 = false -> (forall x, is_lower x = true -> P x = false) -> nf P (val_text data ++ k).
Proof.
  intros P data k H35 Hl.
  destruct data as [r g b|r g b| | | | |[|]| | |]; cbn [val_text]; rewrite <- ?app_assoc;
    apply nf_lit; auto; apply Hl; reflexivity.
Qed.
Lemma print_decl_nf : forall (P : N -> bool) p d k,
  (forall x, is_lower x = true -> P x = false) -> nf P (print_decl_ws p d ++ k).
Proof.
  intros P p d k Hl. unfold print_decl_ws. rewrite <- !app_assoc.
  destruct (d_data d); apply nf_lit; apply Hl; reflexivity.
Qed.

Lemma parse_declaration_ok : forall p d K, wsp_ok p -> decl_ok d = true -> vstop K ->
  parse_declaration (print_decl_ws p d ++ K) = POk d K.
Proof.
  intros p [data i] K Hp Hd HK.
  destruct Hp as (_ & _ & _ & Hc1 & Hc2 & Himp & _).
  unfold parse_declaration, print_decl_ws; cbn [d_data d_important]. rewrite <- !app_assoc.
  rewrite parse_ident_ok;
    [|apply prop_name_ident|apply wsm_nf; [exact Hc1|intros; cls|right; apply nf_lit; reflexivity]].
  cbn [pbind]. cbv zeta.
  rewrite skip_ws_wsm by (auto; apply nf_lit; reflexivity).
  rewrite ptag_lit. cbn [pbind].
  rewrite skip_ws_wsm; [|exact Hc2|apply val_text_nf; [reflexivity|intros; cls]].
  rewrite (parse_value_ok p data i K Himp Hd HK). cbn [pbind fst snd].
  rewrite (decl_of_ok data i Hd). reflexivity.
Qed.

(* ---- declaration lists ---- *)
Lemma vstop_semi : forall w k, wsm w -> vstop (w ++ of_ascii [59] ++ k).
Proof.
  intros w k Hw; split; [apply ptns_semi, Hw|split];
    (apply wsm_nf; [exact Hw|intros; cls|right; apply nf_lit; reflexivity]).
Qed.
Lemma vstop_close : forall w k, wsm w -> vstop (w ++ of_ascii [125] ++ k).
Proof.
  intros w k Hw; split; [apply ptns_close, Hw|split];
    (apply wsm_nf; [exact Hw|intros; cls|right; apply nf_lit; reflexivity]).
Qed.

Lemma semi_item_ok : forall w1 w2 N, wsm w1 -> wsm w2 -> nf wsstart N ->
  semi_item (w1 ++ of_ascii [59] ++ w2 ++ N) = POk tt N.
Proof.
  intros w1 w2 N H1 H2 HN. unfold semi_item.
  rewrite skip_ws_wsm by (auto; apply nf_lit; reflexivity).
  rewrite ptag_lit. cbn [pbind]. rewrite skip_ws_wsm by auto. reflexivity.
Qed.
Lemma semi_item_fail : forall w N, wsm w -> nf (fun x => wsstart x || (x =? 59)) N ->
  semi_item (w ++ N) = PFail.
Proof.
  intros w N Hw HN. unfold semi_item.
  rewrite skip_ws_wsm; [|exact Hw|eapply nf_imp; [|exact HN]; intros x Hx; cls].
  rewrite ptag_nf by (eapply nf_imp; [|exact HN]; intros x Hx; cls). reflexivity.
Qed.
(* no empty declaration in front: the leading many0 semi_item of parse_rules consumes nothing *)
Lemma many0_semi_item_none : forall N, nf (fun x => wsstart x || (x =? 59)) N ->
  many0 semi_item N = POk [] N.
Proof. intros N HN. apply many0_R, MR_nil, (semi_item_fail [] N wsm_nil HN). Qed.
Lemma semi_sep_ok : forall w1 w2 N, wsm w1 -> wsm w2 -> nf (fun x => wsstart x || (x =? 59)) N ->
  semi_sep (w1 ++ of_ascii [59] ++ w2 ++ N) = POk [tt] N.
Proof.
  intros w1 w2 N H1 H2 HN. unfold semi_sep. apply many1_R.
  assert (HN' : nf wsstart N) by (eapply nf_imp; [|exact HN]; intros x Hx; cls).
  eapply MR_cons; [apply semi_item_ok; auto| |apply MR_nil, (semi_item_fail [] N wsm_nil HN)].
  rewrite !app_length; cbn [length of_ascii map]; lia.
Qed.

Section Decls.
  Variable p : wsp.
  Hypothesis Hp : wsp_ok p.
  Variable Z : text.
  Let K : text := w_close p ++ of_ascii [125] ++ Z.
  Let tailf := fun d' => w_s1 p ++ of_ascii [59] ++ w_s2 p ++ print_decl_ws p d'.

  Lemma vstop_tail : forall ds, vstop (flat_map tailf ds ++ K).
  Proof.
    destruct Hp as (_ & _ & _ & _ & _ & _ & Hs1 & _ & Hcl & _).
    intros [|d ds]; cbn [flat_map app].
    - apply vstop_close, Hcl.
    - unfold tailf at 1. rewrite <- !app_assoc. apply vstop_semi, Hs1.
  Qed.

  Lemma decls_tail : forall ds, forallb decl_ok ds = true ->
    SepR semi_sep parse_declaration (flat_map tailf ds ++ K) ds K.
  Proof.
    pose proof Hp as Hp'. destruct Hp' as (_ & _ & _ & _ & _ & _ & Hs1 & Hs2 & Hcl & _).
    induction ds as [|d ds IH]; intros Hds; cbn [flat_map app].
    - apply SR_nil. unfold semi_sep, K. apply many1_fail.
      apply semi_item_fail; [exact Hcl|apply nf_lit; reflexivity].
    - cbn [forallb] in Hds. apply andb_prop in Hds; destruct Hds as [Hd Hds].
      unfold tailf at 1. rewrite <- !app_assoc.
      eapply SR_cons.
      + apply semi_sep_ok; auto. apply print_decl_nf. intros; cls.
      + rewrite !app_length; cbn [length of_ascii map]; lia.
      + apply parse_declaration_ok; auto. apply vstop_tail.
      + rewrite !app_length; lia.
      + apply IH, Hds.
  Qed.

  Lemma parse_rules_ok : forall ds, forallb decl_ok ds = true ->
    exists K', parse_rules (skip_ws (w_open p ++ print_decls_ws p ds ++ K)) = POk ds K' /\
               skip_ws K' = of_ascii [125] ++ Z.
  Proof.
    pose proof Hp as Hp'. destruct Hp' as (_ & _ & Hop & _ & _ & _ & Hs1 & Hs2 & Hcl & _).
    intros [|d ds] Hds; cbn [print_decls_ws].
    - exists (of_ascii [125] ++ Z). cbn [app]. unfold K. rewrite app_assoc.
      rewrite skip_ws_wsm by (try apply wsm_app; auto; apply nf_lit; reflexivity).
      split; [|apply skip_ws_id, nf_lit; reflexivity].
      unfold parse_rules.
      rewrite many0_semi_item_none by reflexivity.
      cbn [pbind]. apply separated_list0_nil.
      unfold parse_declaration. rewrite parse_ident_fail by (apply nf_lit; reflexivity). reflexivity.
    - exists K. rewrite <- app_assoc.
      rewrite skip_ws_wsm by (auto; apply print_decl_nf; intros; cls).
      cbn [forallb] in Hds. apply andb_prop in Hds; destruct Hds as [Hd Hds].
      split; [|unfold K; apply skip_ws_wsm; auto; apply nf_lit; reflexivity].
      unfold parse_rules.
      rewrite many0_semi_item_none by (apply print_decl_nf; intros; cls).
      cbn [pbind]. eapply separated_list0_R.
      + apply parse_declaration_ok; auto. apply vstop_tail.
      + apply decls_tail, Hds.
  Qed.
End Decls.

(* ---- selector lists ---- *)
(* the extended set of optional-whitespace positions (accepted since the repairs of comma_sep and
   nth_full): those of [wsp], plus before the `,` of a selector list, plus inside `:nth-child(..)` *)
Record wsp2 := mkwsp2 {
  w_base : wsp;
  w_comma0 : text;  (* before the `,` between selectors *)
  w_nth : nws       (* inside `:nth-child( An + B )`: after `(`, around the sign of B, before `)` *)
}.
Definition wsp2_ok (p : wsp2) : Prop := wsp_ok (w_base p) /\ wsm (w_comma0 p) /\ nws_ok (w_nth p).
Definition lift_wsp (p : wsp) : wsp2 := mkwsp2 p [] nws0.
Lemma lift_wsp_ok : forall p, wsp_ok p -> wsp2_ok (lift_wsp p).
Proof. intros p Hp; split; [exact Hp|split; [apply wsm_nil|apply nws0_ok]]. Qed.

Definition print_sels_ws2 (p : wsp2) (ss : list selector) : text :=
  match ss with
  | [] => []
  | s :: ss' => print_selector_q (w_nth p) s ++
                flat_map (fun s' => w_comma0 p ++ of_ascii [44] ++ w_comma (w_base p) ++
                                    print_selector_q (w_nth p) s') ss'
  end.
Definition print_ruleset_ws2 (p : wsp2) (r : cssruleset) : text :=
  print_sels_ws2 p (crs_selectors r) ++ w_sel (w_base p) ++ of_ascii [123] ++ w_open (w_base p) ++
  print_decls_ws (w_base p) (crs_decls r) ++ w_close (w_base p) ++ of_ascii [125] ++ w_end (w_base p).

Lemma print_sels_ws2_lift : forall p ss, print_sels_ws2 (lift_wsp p) ss = print_sels_ws p ss.
Proof.
  intros p [|s ss]; [reflexivity|]. cbn [print_sels_ws2 print_sels_ws lift_wsp w_nth w_comma0 w_base].
  reflexivity.
Qed.
Lemma print_ruleset_ws2_lift : forall p r, print_ruleset_ws2 (lift_wsp p) r = print_ruleset_ws p r.
Proof. intros p r. unfold print_ruleset_ws2, print_ruleset_ws. rewrite print_sels_ws2_lift. reflexivity. Qed.

Definition selstart (x : N) : bool :=
  (x =? 46) || (x =? 35) || (x =? 42) || (x =? 58) || (x =? 45) || lowstart x.

Lemma sel_first : forall (P : N -> bool) q s k, wf_selector s = true ->
  (forall x, selstart x = true -> P x = false) -> nf P (print_selector_q q s ++ k).
Proof.
  intros P q s k Hwf HP. unfold wf_selector in Hwf.
  destruct (wf_src_inv _ Hwf) as (x & l' & El & Hx & _).
  unfold print_selector_q. rewrite El, print_comps_cons, <- !app_assoc.
  unfold wf_src in Hwf. rewrite El in Hwf.
  assert (Hok : comp_ok x = true).
  { destruct (forallb comp_ok (x :: l')) eqn:E; [|discriminate].
    cbn [forallb] in E. apply andb_prop in E; tauto. }
  apply nf_print; [exact Hok|]. apply HP.
  destruct x; try discriminate; try reflexivity.
  destruct (fc_elem n Hok) as [E|E]; unfold selstart; rewrite E; [reflexivity|].
  repeat rewrite orb_true_r; reflexivity.
Qed.

Lemma print_selector_ne : forall q s, wf_selector s = true -> print_selector_q q s <> [].
Proof.
  intros q s Hwf E.
  unfold wf_selector in Hwf. destruct (wf_src_inv _ Hwf) as (x & l' & El & Hx & _).
  unfold print_selector_q in E. rewrite El, print_comps_cons in E.
  unfold wf_src in Hwf. rewrite El in Hwf.
  assert (Hok : comp_ok x = true).
  { destruct (forallb comp_ok (x :: l')) eqn:E'; [|discriminate].
    cbn [forallb] in E'. apply andb_prop in E'; tauto. }
  pose proof (print_comp_len q x Hok) as Hl.
  destruct (print_comp_q q x); [cbn in Hl; lia|discriminate].
Qed.

(* whitespace is skipped on both sides of the `,` *)
Lemma comma_sep_ok : forall w0 w N, wsm w0 -> wsm w -> nf wsstart N ->
  comma_sep (w0 ++ of_ascii [44] ++ w ++ N) = POk tt N.
Proof.
  intros w0 w N Hw0 Hw HN. unfold comma_sep.
  rewrite skip_ws_wsm by (auto; apply nf_lit; reflexivity).
  rewrite ptag_lit. cbn [pbind]. rewrite skip_ws_wsm by auto. reflexivity.
Qed.
Lemma comma_sep_fail : forall w N, wsm w -> nf (fun x => wsstart x || (x =? 44)) N ->
  comma_sep (w ++ N) = PFail.
Proof.
  intros w N Hw HN. unfold comma_sep.
  rewrite skip_ws_wsm; [|exact Hw|eapply nf_imp; [|exact HN]; intros x Hx; cls].
  rewrite ptag_nf by (eapply nf_imp; [|exact HN]; intros x Hx; cls). reflexivity.
Qed.

(* a selector, optional whitespace, a stop character: after a pseudo-element the whitespace
   stays in the rest; otherwise it is read as a descendant combinator and dropped *)
Lemma sel_then_ws : forall q s w K, nws_ok q -> wf_selector s = true -> wsm w -> nf selcont K ->
  exists w', wsm w' /\ parse_selector (print_selector_q q s ++ w ++ K) = POk s (w' ++ K).
Proof.
  intros q s w K Hq Hs Hw HK. destruct (pseudo_el s) eqn:Epe.
  - exists w. split; [exact Hw|]. apply parse_selector_rt_nthws; [exact Hq|exact Hs|congruence].
  - exists []. split; [apply wsm_nil|]. cbn [app]. destruct w as [|c w'].
    + cbn [app]. apply parse_selector_rt_nthws; [exact Hq|exact Hs|intros _; exact HK].
    + apply parse_selector_rt_ws_nthws; auto; discriminate.
Qed.

Section Sels.
  Variable p : wsp2.
  Hypothesis Hp : wsp2_ok p.
  Variable Z : text.
  Let Zb : text := of_ascii [123] ++ Z.
  Let q : nws := w_nth p.
  Let tailf := fun s' => w_comma0 p ++ of_ascii [44] ++ w_comma (w_base p) ++ print_selector_q q s'.

  Lemma sels_tail : forall ss s, wf_selector s = true -> forallb wf_selector ss = true ->
    exists r0 r1, parse_selector (print_selector_q q s ++ flat_map tailf ss ++ w_sel (w_base p) ++ Zb) = POk s r0 /\
                  SepR comma_sep parse_selector r0 ss r1 /\ skip_ws r1 = Zb.
  Proof.
    pose proof Hp as Hp'. destruct Hp' as ((Hco & Hse & _) & Hco0 & Hq).
    assert (HZ : nf selcont Zb) by (apply nf_lit; reflexivity).
    induction ss as [|s2 ss IH]; intros s Hs Hss; cbn [flat_map app].
    - destruct (sel_then_ws q s (w_sel (w_base p)) Zb Hq Hs Hse HZ) as (w' & Hw' & Hsel).
      exists (w' ++ Zb), (w' ++ Zb). split; [exact Hsel|split].
      + apply SR_nil. apply comma_sep_fail; [exact Hw'|apply nf_lit; reflexivity].
      + apply skip_ws_wsm; [exact Hw'|apply nf_lit; reflexivity].
    - cbn [forallb] in Hss. apply andb_prop in Hss; destruct Hss as [Hs2 Hss].
      destruct (IH s2 Hs2 Hss) as (r0 & r1 & Hp2 & HS & Hr1).
      unfold tailf at 1. rewrite <- !app_assoc.
      destruct (sel_then_ws q s (w_comma0 p)
                  (of_ascii [44] ++ w_comma (w_base p) ++ print_selector_q q s2 ++
                   flat_map tailf ss ++ w_sel (w_base p) ++ Zb) Hq Hs Hco0
                  ltac:(apply nf_lit; reflexivity)) as (w' & Hw' & Hsel).
      eexists; exists r1. split; [exact Hsel|split; [|exact Hr1]].
      eapply SR_cons.
      + apply comma_sep_ok; [exact Hw'|exact Hco|].
        apply sel_first; [exact Hs2|]. intros x Hx; unfold selstart in Hx; cls.
      + rewrite !app_length; cbn [length of_ascii map]; lia.
      + exact Hp2.
      + pose proof (parse_selector_B (print_selector_q q s2 ++ flat_map tailf ss ++ w_sel (w_base p) ++ Zb)) as HB.
        rewrite Hp2 in HB. cbn [B] in HB. lia.
      + exact HS.
  Qed.

  Lemma sels_ok : forall ss, ss <> [] -> forallb wf_selector ss = true ->
    exists r1, separated_list0 comma_sep parse_selector (print_sels_ws2 p ss ++ w_sel (w_base p) ++ Zb) = POk ss r1 /\
               skip_ws r1 = Zb.
  Proof.
    intros [|s ss] Hne Hss; [congruence|]. cbn [forallb] in Hss. apply andb_prop in Hss; destruct Hss as [Hs Hss].
    destruct (sels_tail ss s Hs Hss) as (r0 & r1 & H0 & HS & Hr1).
    exists r1; split; [|exact Hr1]. cbn [print_sels_ws2]. rewrite <- !app_assoc.
    eapply separated_list0_R; eauto.
  Qed.
End Sels.

(* ------------------------------------------------------------------ *)
(* 10. MAIN THEOREMS 2 and 3: rule sets and style sheets, with optional whitespace *)
Definition ruleset_ok (r : cssruleset) : bool :=
  match crs_selectors r with [] => false | _ => true end &&
  forallb wf_selector (crs_selectors r) && forallb decl_ok (crs_decls r).

Lemma many0_semi_ws_none : forall k, many0 semi_ws (of_ascii [125] ++ k) = POk [] (of_ascii [125] ++ k).
Proof.
  intros k. apply many0_R, MR_nil. unfold semi_ws. rewrite ptag_nf by (apply nf_lit; reflexivity). reflexivity.
Qed.

(* the general form, with all the optional-whitespace positions of [wsp2] *)
Theorem parse_ruleset_rt2 : forall p r rest,
  wsp2_ok p -> ruleset_ok r = true ->
  parse_ruleset (print_ruleset_ws2 p r ++ rest) = POk r (skip_ws (w_end (w_base p) ++ rest)).
Proof.
  intros p [ss ds] rest Hp Hr. unfold ruleset_ok in Hr; cbn [crs_selectors crs_decls] in Hr.
  apply andb_prop in Hr; destruct Hr as [Hr Hds]. apply andb_prop in Hr; destruct Hr as [Hne Hss].
  assert (Hne' : ss <> []) by (destruct ss; [cbn in Hne; congruence|discriminate]).
  pose proof Hp as (Hb & _ & _). set (b := w_base p) in *.
  unfold print_ruleset_ws2; cbn [crs_selectors crs_decls]. fold b. rewrite <- !app_assoc.
  destruct (sels_ok p Hp (w_open b ++ print_decls_ws b ds ++ w_close b ++ of_ascii [125] ++ w_end b ++ rest)
                    ss Hne' Hss) as (r1 & Hsel & Hr1). fold b in Hsel.
  destruct (parse_rules_ok b Hb (w_end b ++ rest) ds Hds) as (K' & Hrules & HK').
  unfold parse_ruleset. cbv zeta.
  assert (Hstart : nf wsstart (print_sels_ws2 p ss ++ w_sel b ++ of_ascii [123] ++ w_open b ++
                    print_decls_ws b ds ++ w_close b ++ of_ascii [125] ++ w_end b ++ rest)).
  { destruct ss as [|s ss']; [congruence|]. cbn [print_sels_ws2]. rewrite <- app_assoc.
    cbn [forallb] in Hss. apply andb_prop in Hss; destruct Hss as [Hs _].
    apply sel_first; [exact Hs|]. intros x Hx; unfold selstart in Hx; cls. }
  rewrite (skip_ws_id _ Hstart). rewrite Hsel. cbn [pbind].
  rewrite Hr1. rewrite ptag_lit. cbn [pbind].
  rewrite Hrules. cbn [pbind]. rewrite HK'.
  rewrite many0_semi_ws_none. cbn [pbind].
  rewrite skip_ws_id by (apply nf_lit; reflexivity). rewrite ptag_lit. reflexivity.
Qed.

Theorem parse_ruleset_rt : forall p r rest,
  wsp_ok p -> ruleset_ok r = true ->
  parse_ruleset (print_ruleset_ws p r ++ rest) = POk r (skip_ws (w_end p ++ rest)).
Proof.
  intros p r rest Hp Hr. rewrite <- print_ruleset_ws2_lift.
  apply (parse_ruleset_rt2 (lift_wsp p) r rest (lift_wsp_ok p Hp) Hr).
Qed.

(* a sheet: rule sets, each with its own whitespace choices *)
Definition print_sheet_ws (prs : list (wsp * cssruleset)) : text :=
  flat_map (fun pr => print_ruleset_ws (fst pr) (snd pr)) prs.
Definition sheet_ok (prs : list (wsp * cssruleset)) : Prop :=
  Forall (fun pr => wsp_ok (fst pr) /\ ruleset_ok (snd pr) = true) prs.
Definition print_sheet_ws2 (prs : list (wsp2 * cssruleset)) : text :=
  flat_map (fun pr => print_ruleset_ws2 (fst pr) (snd pr)) prs.
Definition sheet_ok2 (prs : list (wsp2 * cssruleset)) : Prop :=
  Forall (fun pr => wsp2_ok (fst pr) /\ ruleset_ok (snd pr) = true) prs.
Definition lift_sheet (prs : list (wsp * cssruleset)) : list (wsp2 * cssruleset) :=
  map (fun pr => (lift_wsp (fst pr), snd pr)) prs.
Lemma print_sheet_ws2_lift : forall prs, print_sheet_ws2 (lift_sheet prs) = print_sheet_ws prs.
Proof.
  induction prs as [|pr prs IH]; [reflexivity|].
  unfold print_sheet_ws2, print_sheet_ws, lift_sheet in *. cbn [map flat_map fst snd].
  rewrite IH, print_ruleset_ws2_lift. reflexivity.
Qed.
Lemma lift_sheet_ok : forall prs, sheet_ok prs -> sheet_ok2 (lift_sheet prs).
Proof.
  intros prs H. unfold sheet_ok2, lift_sheet. apply Forall_map.
  eapply Forall_impl; [|exact H]. intros pr [H1 H2]. cbn [fst snd]. split; [apply lift_wsp_ok, H1|exact H2].
Qed.
Lemma lift_sheet_snd : forall prs, map snd (lift_sheet prs) = map snd prs.
Proof. intros prs. unfold lift_sheet. rewrite map_map. reflexivity. Qed.

Lemma print_ruleset_first : forall (P : N -> bool) p r k, ruleset_ok r = true ->
  (forall x, selstart x = true -> P x = false) -> nf P (print_ruleset_ws2 p r ++ k).
Proof.
  intros P p [ss ds] k Hr HP. unfold ruleset_ok in Hr; cbn [crs_selectors crs_decls] in Hr.
  apply andb_prop in Hr; destruct Hr as [Hr _]. apply andb_prop in Hr; destruct Hr as [Hne Hss].
  destruct ss as [|s ss]; [cbn in Hne; congruence|].
  cbn [forallb] in Hss. apply andb_prop in Hss; destruct Hss as [Hs _].
  unfold print_ruleset_ws2; cbn [crs_selectors print_sels_ws2]. rewrite <- !app_assoc.
  apply sel_first; auto.
Qed.

Lemma sheet_many : forall prs, sheet_ok2 prs ->
  ManyR parse_statement (print_sheet_ws2 prs) (map (fun pr => Some (snd pr)) prs) [] /\
  nf wsstart (print_sheet_ws2 prs).
Proof.
  induction prs as [|[p r] prs IH]; intros Hok.
  - split; [apply MR_nil; reflexivity|exact I].
  - inversion Hok as [|pr prs' [Hp Hr] Hok']; subst. cbn [fst snd] in *.
    destruct (IH Hok') as [HM Hnf].
    unfold print_sheet_ws2; cbn [flat_map map fst snd]. fold (print_sheet_ws2 prs).
    split.
    + pose proof Hp as ((_ & _ & _ & _ & _ & _ & _ & _ & _ & Hend) & _ & _).
      eapply MR_cons; [| |exact HM].
      * unfold parse_statement. rewrite (parse_ruleset_rt2 p r _ Hp Hr). cbn [pmap palt].
        rewrite skip_ws_wsm by assumption. reflexivity.
      * apply len_app_lt. intros E.
        unfold print_ruleset_ws2 in E. destruct r as [[|s ss] ds]; [discriminate|].
        cbn [crs_selectors print_sels_ws2] in E. rewrite <- !app_assoc in E.
        unfold ruleset_ok in Hr; cbn [crs_selectors crs_decls] in Hr.
        apply andb_prop in Hr; destruct Hr as [Hr _]. apply andb_prop in Hr; destruct Hr as [_ Hss].
        cbn [forallb] in Hss. apply andb_prop in Hss; destruct Hss as [Hs _].
        apply (print_selector_ne (w_nth p) s Hs). destruct (print_selector_q (w_nth p) s); [reflexivity|discriminate].
    + apply print_ruleset_first; [exact Hr|]. intros x Hx; unfold selstart in Hx; cls.
Qed.

Theorem parse_stylesheet_rt_ws2 : forall prs, sheet_ok2 prs ->
  parse_stylesheet (print_sheet_ws2 prs) = POk (map snd prs) [].
Proof.
  intros prs Hok. unfold parse_stylesheet.
  rewrite (many0_R _ _ _ _ _ (proj1 (sheet_many prs Hok))). cbn [pbind].
  f_equal. induction prs as [|pr prs IH]; [reflexivity|].
  cbn [map flat_map app]. f_equal. apply IH. inversion Hok; assumption.
Qed.

Theorem parse_stylesheet_rt_ws : forall prs, sheet_ok prs ->
  parse_stylesheet (print_sheet_ws prs) = POk (map snd prs) [].
Proof.
  intros prs Hok. rewrite <- print_sheet_ws2_lift, <- lift_sheet_snd.
  apply parse_stylesheet_rt_ws2, lift_sheet_ok, Hok.
Qed.

(* the canonical printer: parse (print rs) = rs *)
Lemma canon_ok : wsp_ok canon.
Proof.
  unfold wsp_ok, canon, sp1; cbn [w_comma w_sel w_open w_c1 w_c2 w_imp w_s1 w_s2 w_close w_end].
  repeat split; try apply wsm_nil; (apply wsm_ws; [reflexivity|apply wsm_nil]).
Qed.

Theorem parse_ruleset_rt_canon : forall r rest, ruleset_ok r = true ->
  parse_ruleset (print_ruleset r ++ rest) = POk r (skip_ws rest).
Proof.
  intros r rest Hr. unfold print_ruleset. rewrite (parse_ruleset_rt canon r rest canon_ok Hr).
  cbn [w_end canon]. change (of_ascii [10] ++ rest) with (mk 10 1 :: rest).
  rewrite skip_ws_cons by reflexivity. reflexivity.
Qed.

Theorem parse_stylesheet_rt : forall rs, forallb ruleset_ok rs = true ->
  parse_stylesheet (concat (map print_ruleset rs)) = POk rs [].
Proof.
  intros rs Hrs.
  assert (E : concat (map print_ruleset rs) = print_sheet_ws (map (fun r => (canon, r)) rs)).
  { unfold print_sheet_ws. rewrite flat_map_concat_map, map_map. reflexivity. }
  rewrite E, parse_stylesheet_rt_ws.
  - rewrite map_map. cbn [snd]. rewrite map_id. reflexivity.
  - unfold sheet_ok. apply Forall_forall. intros pr Hin. apply in_map_iff in Hin.
    destruct Hin as (r & <- & Hin). cbn [fst snd]. split; [apply canon_ok|].
    rewrite forallb_forall in Hrs. apply Hrs, Hin.
Qed.

(* C17, parsing side: style sheets that differ only in optional whitespace / comments
   (at the positions of [wsp2]: those of [wsp], before the `,`, inside `:nth-child(..)`) yield
   the same rules as the canonical spelling, hence style every document identically *)
Theorem insignificant_whitespace2 : forall prs, sheet_ok2 prs ->
  parse_css_rules (print_sheet_ws2 prs) = parse_css_rules (concat (map print_ruleset (map snd prs))).
Proof.
  intros prs Hok. unfold parse_css_rules.
  rewrite (parse_stylesheet_rt_ws2 prs Hok).
  rewrite parse_stylesheet_rt; [reflexivity|].
  apply forallb_forall. intros r Hin. apply in_map_iff in Hin. destruct Hin as (pr & <- & Hin).
  unfold sheet_ok2 in Hok. rewrite Forall_forall in Hok. apply (Hok pr Hin).
Qed.

(* the positions of [wsp] only *)
Theorem insignificant_whitespace : forall prs, sheet_ok prs ->
  parse_css_rules (print_sheet_ws prs) = parse_css_rules (concat (map print_ruleset (map snd prs))).
Proof.
  intros prs Hok. rewrite <- print_sheet_ws2_lift, <- lift_sheet_snd.
  apply insignificant_whitespace2, lift_sheet_ok, Hok.
Qed.

(* ------------------------------------------------------------------ *)
(* 11. non-vacuity *)
Definition ex_rs1 : cssruleset :=
  mkcrs [ex_sel1; ex_sel2]
        [mkdecl (DColor 255 0 0) true; mkdecl (DBackgroundColor 0 128 255) false;
         mkdecl (DDisplay true) false].
Definition ex_rs2 : cssruleset := mkcrs [mksel [CElement (of_ascii [97])] None] [].

Example ex_rs_ok : forallb ruleset_ok [ex_rs1; ex_rs2] = true. Proof. reflexivity. Qed.
(* div > p.c #id :nth-child(2n+1), *.x-1::before { color: #ff0000 !important; background-color: #0080ff; display: none }
   a {  }  *)
Example ex_rs1_print : print_ruleset ex_rs1 = of_ascii
  [100;105;118;32;62;32;112;46;99;32;35;105;100;32;58;110;116;104;45;99;104;105;108;100;40;50;110;43;49;41;
   44;32;42;46;120;45;49;58;58;98;101;102;111;114;101;32;123;32;99;111;108;111;114;58;32;35;102;102;48;48;48;48;
   32;33;105;109;112;111;114;116;97;110;116;59;32;98;97;99;107;103;114;111;117;110;100;45;99;111;108;111;114;58;
   32;35;48;48;56;48;102;102;59;32;100;105;115;112;108;97;121;58;32;110;111;110;101;32;125;10].
Proof. vm_compute. reflexivity. Qed.
Example ex_rs2_print : print_ruleset ex_rs2 = of_ascii [97;32;123;32;32;125;10].
Proof. vm_compute. reflexivity. Qed.
Example ex_sheet_rt :
  parse_stylesheet (concat (map print_ruleset [ex_rs1; ex_rs2])) = POk [ex_rs1; ex_rs2] [].
Proof. apply parse_stylesheet_rt, ex_rs_ok. Qed.
(* the same by computation, as a check of the statement itself *)
Example ex_sheet_rt_computed :
  parse_stylesheet (concat (map print_ruleset [ex_rs1; ex_rs2])) = POk [ex_rs1; ex_rs2] [].
Proof. vm_compute. reflexivity. Qed.

(* whitespace variant: comments and newlines everywhere
   `sel,/* c */\n sel/* c */{\n\t decl /* c */:/* c */ val/* c */!important /* c */;\n ... /* c */}\r\n` *)
Definition cmt : text := of_ascii [47;42;32;99;32;42;47].           (* /* c */ *)
Definition ex_wsp : wsp :=
  mkwsp (cmt ++ of_ascii [10;32]) cmt (of_ascii [10;9;32]) (of_ascii [32] ++ cmt) cmt cmt
        (of_ascii [32] ++ cmt) (of_ascii [10]) cmt (of_ascii [13;10]).
Lemma cmt_wsm : forall w, wsm w -> wsm (cmt ++ w).
Proof. intros w Hw. apply (wsm_comment (of_ascii [32;99;32]) w); [reflexivity|exact Hw]. Qed.
Example ex_wsp_ok : wsp_ok ex_wsp.
Proof.
  unfold wsp_ok, ex_wsp; cbn [w_comma w_sel w_open w_c1 w_c2 w_imp w_s1 w_s2 w_close w_end].
  assert (Hc : wsm cmt) by (rewrite <- (app_nil_r cmt); apply cmt_wsm, wsm_nil).
  repeat split; try exact Hc.
  - apply cmt_wsm. repeat (apply wsm_ws; [reflexivity|]). apply wsm_nil.
  - repeat (apply wsm_ws; [reflexivity|]). apply wsm_nil.
  - apply wsm_ws; [reflexivity|exact Hc].
  - apply wsm_ws; [reflexivity|exact Hc].
  - repeat (apply wsm_ws; [reflexivity|]). apply wsm_nil.
  - repeat (apply wsm_ws; [reflexivity|]). apply wsm_nil.
Qed.
Example ex_ws_same :
  parse_css_rules (print_sheet_ws [(ex_wsp, ex_rs1); (canon, ex_rs2); (ex_wsp, ex_rs1)]) =
  parse_css_rules (concat (map print_ruleset [ex_rs1; ex_rs2; ex_rs1])).
Proof.
  apply (insignificant_whitespace [(ex_wsp, ex_rs1); (canon, ex_rs2); (ex_wsp, ex_rs1)]).
  unfold sheet_ok.
  repeat (apply Forall_cons; [cbn [fst snd]; split; [first [apply ex_wsp_ok|apply canon_ok]|reflexivity]|]).
  apply Forall_nil.
Qed.
Example ex_ws_computed :
  parse_stylesheet (print_sheet_ws [(ex_wsp, ex_rs1); (canon, ex_rs2)]) = POk [ex_rs1; ex_rs2] [].
Proof. vm_compute. reflexivity. Qed.
Example ex_ws_differs : print_ruleset_ws ex_wsp ex_rs1 <> print_ruleset ex_rs1.
Proof. vm_compute. discriminate. Qed.

(* the extended positions: whitespace / comments before the `,` and inside `:nth-child( 2n + 1 )`
   `div > p.c #id :nth-child( 2n /* c */+ 1 ) /* c */,/* c */\n *.x-1::before/* c */{ ... }` *)
Definition ex_nws : nws := mknws sp1 (of_ascii [32] ++ cmt) sp1 sp1.
Definition ex_wsp2 : wsp2 := mkwsp2 ex_wsp (of_ascii [32] ++ cmt) ex_nws.
Definition ex_wsp2b : wsp2 := mkwsp2 canon sp1 (mknws [] sp1 sp1 []).
Example ex_nws_ok : nws_ok ex_nws.
Proof.
  unfold nws_ok, ex_nws, sp1; cbn [n_open n_pre n_post n_close].
  assert (Hc : wsm cmt) by (rewrite <- (app_nil_r cmt); apply cmt_wsm, wsm_nil).
  repeat split; try (apply wsm_ws; [reflexivity|apply wsm_nil]).
  apply wsm_ws; [reflexivity|exact Hc].
Qed.
Example ex_wsp2_ok : wsp2_ok ex_wsp2.
Proof.
  split; [apply ex_wsp_ok|split; [|apply ex_nws_ok]]. cbn [w_comma0 ex_wsp2].
  apply wsm_ws; [reflexivity|]. rewrite <- (app_nil_r cmt); apply cmt_wsm, wsm_nil.
Qed.
Example ex_wsp2b_ok : wsp2_ok ex_wsp2b.
Proof.
  split; [apply canon_ok|]. unfold nws_ok, ex_wsp2b, sp1; cbn [w_comma0 w_nth n_open n_pre n_post n_close].
  repeat split; try apply wsm_nil; (apply wsm_ws; [reflexivity|apply wsm_nil]).
Qed.
(* div > p.c #id :nth-child(2n + 1) *)
Example ex_sel1_print_nthws : print_selector_q (mknws [] sp1 sp1 []) ex_sel1 =
  of_ascii [100;105;118;32;62;32;112;46;99;32;35;105;100;32;58;110;116;104;45;99;104;105;108;100;
            40;50;110;32;43;32;49;41].
Proof. reflexivity. Qed.
Example ex_sel1_rt_nthws :
  parse_selector (print_selector_q ex_nws ex_sel1 ++ of_ascii [123]) = POk ex_sel1 (of_ascii [123]).
Proof. apply parse_selector_rt_nthws; [apply ex_nws_ok|reflexivity|intros _; reflexivity]. Qed.
(* div > p.c #id :nth-child(2n + 1) , *.x-1::before { color: #ff0000 !important; ... }  *)
Example ex_rs1_print2 : print_ruleset_ws2 ex_wsp2b ex_rs1 = of_ascii
  [100;105;118;32;62;32;112;46;99;32;35;105;100;32;58;110;116;104;45;99;104;105;108;100;40;50;110;32;43;32;49;41;
   32;44;32;42;46;120;45;49;58;58;98;101;102;111;114;101;32;123;32;99;111;108;111;114;58;32;35;102;102;48;48;48;48;
   32;33;105;109;112;111;114;116;97;110;116;59;32;98;97;99;107;103;114;111;117;110;100;45;99;111;108;111;114;58;
   32;35;48;48;56;48;102;102;59;32;100;105;115;112;108;97;121;58;32;110;111;110;101;32;125;10].
Proof. vm_compute. reflexivity. Qed.
(* `*.x-1::before /* c */,... div ... {`: whitespace before the comma after a pseudo-element too *)
Definition ex_rs3 : cssruleset := mkcrs [ex_sel2; ex_sel1; ex_sel2] [mkdecl (DDisplay true) false].
Example ex_ws2_same :
  parse_css_rules (print_sheet_ws2 [(ex_wsp2, ex_rs1); (ex_wsp2b, ex_rs3); (lift_wsp canon, ex_rs2); (ex_wsp2, ex_rs3)]) =
  parse_css_rules (concat (map print_ruleset [ex_rs1; ex_rs3; ex_rs2; ex_rs3])).
Proof.
  apply (insignificant_whitespace2 [(ex_wsp2, ex_rs1); (ex_wsp2b, ex_rs3); (lift_wsp canon, ex_rs2); (ex_wsp2, ex_rs3)]).
  unfold sheet_ok2.
  repeat (apply Forall_cons;
          [cbn [fst snd]; split;
           [first [apply ex_wsp2_ok|apply ex_wsp2b_ok|apply lift_wsp_ok, canon_ok]|reflexivity]|]).
  apply Forall_nil.
Qed.
Example ex_ws2_computed :
  parse_stylesheet (print_sheet_ws2 [(ex_wsp2, ex_rs1); (ex_wsp2b, ex_rs3); (ex_wsp2, ex_rs3)])
  = POk [ex_rs1; ex_rs3; ex_rs3] [].
Proof. vm_compute. reflexivity. Qed.
Example ex_ws2_differs :
  print_ruleset_ws2 ex_wsp2 ex_rs1 <> print_ruleset_ws ex_wsp ex_rs1 /\
  print_ruleset_ws2 ex_wsp2b ex_rs1 <> print_ruleset ex_rs1.
Proof. split; vm_compute; discriminate. Qed.

(* ------------------------------------------------------------------ *)
(* 12. FORMER FINDINGS, now repaired in the model (CssParse.nth_full / comma_sep), and what is
   still not accepted.  The general statements are parse_selector_rt_nthws and
   parse_ruleset_rt2 / insignificant_whitespace2 above. *)
(* (a) `li:nth-child(2n + 1){color:red}`: whitespace is now skipped on both sides of the sign of
       B (it used to be skipped only between `n` and the sign, so the usual spelling `2n + 1` was
       not an An+B and the whole rule set was dropped).  `2n + 1`, `2n+ 1`, `2n +1` now give the
       same rule as `2n+1`. *)
Example repaired_nth_space :
  exists r,
  parse_css_rules (of_ascii
     [108;105;58;110;116;104;45;99;104;105;108;100;40;50;110;43;49;41;123;99;111;108;111;114;58;114;101;100;125])
     = CssOk [r] /\
  parse_css_rules (of_ascii
     [108;105;58;110;116;104;45;99;104;105;108;100;40;50;110;32;43;32;49;41;123;99;111;108;111;114;58;114;101;100;125])
     = CssOk [r] /\
  parse_css_rules (of_ascii
     [108;105;58;110;116;104;45;99;104;105;108;100;40;50;110;43;32;49;41;123;99;111;108;111;114;58;114;101;100;125])
     = CssOk [r] /\
  parse_css_rules (of_ascii
     [108;105;58;110;116;104;45;99;104;105;108;100;40;50;110;32;43;49;41;123;99;111;108;111;114;58;114;101;100;125])
     = CssOk [r].
Proof. eexists; repeat split; vm_compute; reflexivity. Qed.
(*     STILL a finding (not touched by the repair): upper case `2N+1` / `EVEN` (CSS is
       case-insensitive there) is not an An+B; the rule set is dropped. *)
Example finding_nth_upper :
  parse_css_rules (of_ascii
     [108;105;58;110;116;104;45;99;104;105;108;100;40;50;78;43;49;41;123;99;111;108;111;114;58;114;101;100;125])
     = CssOk [].
Proof. vm_compute; reflexivity. Qed.
(* (b) `p::before , i{display:none}`: whitespace is now skipped before the `,` of a selector
       list as well.  (After a plain selector it was always eaten as a descendant combinator and
       dropped; after a pseudo-element it was not, and the rule set was dropped.)  `p::before , i`
       now gives the same two rules as `p::before, i`.  [wsp2] has the "before the comma"
       position [w_comma0]. *)
Example repaired_pseudo_comma :
  exists r1 r2,
  parse_css_rules (of_ascii
     [112;58;58;98;101;102;111;114;101;44;32;105;123;100;105;115;112;108;97;121;58;110;111;110;101;125])
     = CssOk [r1; r2] /\
  parse_css_rules (of_ascii
     [112;58;58;98;101;102;111;114;101;32;44;32;105;123;100;105;115;112;108;97;121;58;110;111;110;101;125])
     = CssOk [r1; r2].
Proof. do 2 eexists; repeat split; vm_compute; reflexivity. Qed.

(* (c) `.MsoNormal, #Main p.Note { color: red }`: class names and ids keep their letter case
       (parse_class -> parse_ident_cased, parse_hash -> parse_identstring_cased; they used to be
       lower-cased while read, so `.MsoNormal` was stored as `msonormal` and never matched
       class="MsoNormal").  Through Css.sel_matches the first rule matches an element with
       class="MsoNormal" and not one with class="msonormal"; the second one needs id="Main" and
       class="Note" as written.  The element name `p` (and `P`) is still lower-cased. *)
Definition ex_cased_sheet : text := of_ascii
  [46;77;115;111;78;111;114;109;97;108;44;32;35;77;97;105;110;32;112;46;78;111;116;101;32;123;32;
   99;111;108;111;114;58;32;114;101;100;32;125].
Definition ex_cased_sel1 : selector := mksel [CClass (of_ascii [77;115;111;78;111;114;109;97;108])] None.
Definition ex_cased_sel2 : selector :=
  mksel [CClass (of_ascii [78;111;116;101]); CElement (of_ascii [112]); CCombDescendant;
         CHash (of_ascii [77;97;105;110])] None.
Definition ex_el (name : list N) (k v : list N) : anc := mkanc (of_ascii name) [(of_ascii k, of_ascii v)] 1.
Example repaired_cased_names :
  parse_css_rules ex_cased_sheet =
    CssOk [mkrs ex_cased_sel1 [mksd (SColour 255 0 0) false];
           mkrs ex_cased_sel2 [mksd (SColour 255 0 0) false]] /\
  wf_selector ex_cased_sel1 = true /\ wf_selector ex_cased_sel2 = true /\
  (* <p class="MsoNormal"> matches, <p class="msonormal"> does not *)
  sel_matches ex_cased_sel1 [ex_el [112] s_class [77;115;111;78;111;114;109;97;108]] = true /\
  sel_matches ex_cased_sel1 [ex_el [112] s_class [109;115;111;110;111;114;109;97;108]] = false /\
  (* <div id="Main"><p class="Note"> matches; id="main" or class="note" does not *)
  sel_matches ex_cased_sel2 [ex_el [112] s_class [78;111;116;101]; ex_el [100;105;118] s_id [77;97;105;110]] = true /\
  sel_matches ex_cased_sel2 [ex_el [112] s_class [78;111;116;101]; ex_el [100;105;118] s_id [109;97;105;110]] = false /\
  sel_matches ex_cased_sel2 [ex_el [112] s_class [110;111;116;101]; ex_el [100;105;118] s_id [77;97;105;110]] = false /\
  (* the round trip theorem covers them: the printed selector is the source text *)
  print_selector ex_cased_sel2 = of_ascii [35;77;97;105;110;32;112;46;78;111;116;101] /\
  parse_selector (print_selector ex_cased_sel2 ++ of_ascii [123]) = POk ex_cased_sel2 (of_ascii [123]) /\
  (* element names are still lower-cased:  P.Note{  reads as  p.Note *)
  parse_selector (of_ascii [80;46;78;111;116;101;123]) =
    POk (mksel [CClass (of_ascii [78;111;116;101]); CElement (of_ascii [112])] None) (of_ascii [123]).
Proof. repeat split; vm_compute; reflexivity. Qed.

Print Assumptions parse_selector_rt_nthws.
Print Assumptions parse_selector_rt_ws_nthws.
Print Assumptions parse_ruleset_rt2.
Print Assumptions parse_stylesheet_rt_ws2.
Print Assumptions insignificant_whitespace2.
Print Assumptions parse_ruleset_rt.
Print Assumptions parse_stylesheet_rt_ws.
Print Assumptions parse_ruleset_rt_canon.
Print Assumptions parse_stylesheet_rt.
Print Assumptions insignificant_whitespace.

(* no finding here: non-canonical spellings of the child combinator, and `div *`
   (an earlier defect read it as `div*`), parse to the same selectors as the canonical ones *)
Definition sel_ab_child : selector :=
  mksel [CElement (of_ascii [98]); CCombChild; CElement (of_ascii [97])] None.
Example variants_ok :
  parse_selector (of_ascii [97;62;98;123]) = POk sel_ab_child (of_ascii [123]) /\        (* a>b{ *)
  parse_selector (of_ascii [97;32;32;62;98;123]) = POk sel_ab_child (of_ascii [123]) /\  (* a  >b{ *)
  parse_selector (print_selector sel_ab_child ++ of_ascii [123]) = POk sel_ab_child (of_ascii [123]) /\
  parse_selector (of_ascii [100;105;118;32;42;123]) =                                      (* div *{ *)
    POk (mksel [CStar; CCombDescendant; CElement (of_ascii [100;105;118])] None) (of_ascii [123]).
Proof. repeat split; vm_compute; reflexivity. Qed.
