(* Proofs/CssTotal.v -- property C17 "supplying CSS never breaks rendering":
   totality of the CSS front end of the model.  For EVERY input text the parsers of
   CssParse.v return POk or PFail -- never PPanic, never PFuel -- and the rest they
   return is a suffix no longer than the input.  No axioms. *)
From H2T Require Import Base Tagged Wrap Css Dom CssParse.
From Coq Require Import Lia ZifyN ZifyBool ZifyNat.
Local Open Scope nat_scope.

(* ------------------------------------------------------------------ *)
(* The predicates of the method *)
Definition safe {A} (r : pr A) : Prop :=
  match r with PPanic _ | PFuel => False | _ => True end.
Definition shorter_eq {A} (t : text) (r : pr A) : Prop :=
  match r with POk _ rest => length rest <= length t | _ => True end.
Definition shorter {A} (t : text) (r : pr A) : Prop :=
  match r with POk _ rest => length rest < length t | _ => True end.

(* one bounded predicate carries both: safe, and on success the rest is shorter than n *)
Definition B {A} (n : nat) (r : pr A) : Prop :=
  match r with
  | POk _ rest => length rest < n
  | PFail => True
  | PPanic _ | PFuel => False
  end.

Lemma B_safe_shorter_eq : forall A (t : text) (r : pr A),
  B (S (length t)) r <-> safe r /\ shorter_eq t r.
Proof. intros A t [a rest| |s|]; cbn; intuition lia. Qed.
Lemma B_safe_shorter : forall A (t : text) (r : pr A),
  B (length t) r <-> safe r /\ shorter t r.
Proof. intros A t [a rest| |s|]; cbn; intuition lia. Qed.

Lemma B_mono : forall A n m (r : pr A), B n r -> n <= m -> B m r.
Proof. intros A n m [a rest| |s|]; cbn; intros; try lia; auto. Qed.

Lemma B_bind : forall A C m n (e : pr A) (k : A -> text -> pr C),
  B m e -> (forall a r, length r < m -> B n (k a r)) -> B n (pbind e k).
Proof. intros A C m n [a rest| |s|] k He Hk; cbn in *; auto; contradiction. Qed.

Lemma B_palt : forall A n (p : pr A) q, B n p -> (p = PFail -> B n (q tt)) -> B n (palt p q).
Proof. intros A n [a rest| |s|] q Hp Hq; cbn in *; auto. Qed.

Lemma B_popt : forall A n (p : pr A) t, B n p -> length t < n -> B n (popt p t).
Proof. intros A n [a rest| |s|] t Hp Ht; cbn in *; auto. Qed.

Lemma B_pmap : forall A C n (f : A -> C) (p : pr A), B n p -> B n (pmap f p).
Proof. intros A C n f [a rest| |s|] Hp; cbn in *; auto. Qed.

(* ------------------------------------------------------------------ *)
(* Generic combinators *)
Lemma ptag_B : forall lit t, B (S (length t)) (ptag lit t).
Proof.
  induction lit as [|x lit IH]; intros t; cbn [ptag].
  - cbn; lia.
  - destruct t as [|c t']; [exact I|].
    destruct (N.eqb (cp c) x); [|exact I].
    eapply B_mono; [apply IH|cbn; lia].
Qed.
Lemma ptag_Bs : forall x lit t, B (length t) (ptag (x :: lit) t).
Proof.
  intros x lit t; cbn [ptag].
  destruct t as [|c t']; [exact I|].
  destruct (N.eqb (cp c) x); [|exact I].
  eapply B_mono; [apply ptag_B|cbn; lia].
Qed.

Lemma starts_with_lt : forall x lit t r, starts_with (x :: lit) t = Some r -> length r < length t.
Proof.
  intros x lit t r H; unfold starts_with in H.
  pose proof (ptag_Bs x lit t) as HB.
  destruct (ptag (x :: lit) t); try discriminate.
  inversion H; subst; exact HB.
Qed.

Lemma many0_f_B : forall A (p : text -> pr A),
  (forall t, B (S (length t)) (p t)) ->
  forall fuel t acc, length t < fuel -> B (S (length t)) (many0_f fuel p t acc).
Proof.
  intros A p Hp; induction fuel as [|f IH]; intros t acc Hlen; [lia|].
  cbn [many0_f]. pose proof (Hp t) as Ht.
  destruct (p t) as [a rest| |s|]; cbn [B] in *; try contradiction.
  - destruct (Nat.eqb_spec (length rest) (length t)) as [He|Hne]; [exact I|].
    eapply B_mono; [apply IH; lia|lia].
  - lia.
Qed.
Lemma many0_B : forall A (p : text -> pr A),
  (forall t, B (S (length t)) (p t)) -> forall t, B (S (length t)) (many0 p t).
Proof. intros; unfold many0; apply many0_f_B; auto. Qed.
Lemma many1_B : forall A (p : text -> pr A),
  (forall t, B (S (length t)) (p t)) -> forall t, B (S (length t)) (many1 p t).
Proof.
  intros A p Hp t; unfold many1. pose proof (Hp t) as Ht.
  destruct (p t) as [a rest| |s|]; cbn [B] in *; try contradiction; auto.
  eapply B_mono; [apply many0_f_B; auto|lia].
Qed.
Lemma many1_Bs : forall A (p : text -> pr A),
  (forall t, B (length t) (p t)) -> forall t, B (length t) (many1 p t).
Proof.
  intros A p Hp t; unfold many1. pose proof (Hp t) as Ht.
  destruct (p t) as [a rest| |s|]; cbn [B] in *; try contradiction; auto.
  eapply B_mono; [apply many0_f_B; auto|lia].
  intros t0; eapply B_mono; [apply Hp|lia].
Qed.

Lemma sep_list_f_B : forall A C (sep : text -> pr C) (p : text -> pr A),
  (forall t, B (S (length t)) (sep t)) ->
  (forall t, B (S (length t)) (p t)) ->
  forall fuel t acc, length t < fuel -> B (S (length t)) (sep_list_f fuel sep p t acc).
Proof.
  intros A C sep p Hsep Hp; induction fuel as [|f IH]; intros t acc Hlen; [lia|].
  cbn [sep_list_f]. pose proof (Hsep t) as Ht.
  destruct (sep t) as [u t1| |s|]; cbn [B] in *; try contradiction.
  - destruct (Nat.eqb_spec (length t1) (length t)) as [He|Hne]; [exact I|].
    pose proof (Hp t1) as Ht1.
    destruct (p t1) as [a t2| |s|]; cbn [B] in *; try contradiction.
    + eapply B_mono; [apply IH; lia|lia].
    + lia.
  - lia.
Qed.
Lemma separated_list0_B : forall A C (sep : text -> pr C) (p : text -> pr A),
  (forall t, B (S (length t)) (sep t)) ->
  (forall t, B (S (length t)) (p t)) ->
  forall t, B (S (length t)) (separated_list0 sep p t).
Proof.
  intros A C sep p Hsep Hp t; unfold separated_list0. pose proof (Hp t) as Ht.
  destruct (p t) as [a t1| |s|]; cbn [B] in *; try contradiction.
  - eapply B_mono; [apply sep_list_f_B; auto|lia].
  - lia.
Qed.

(* ------------------------------------------------------------------ *)
(* Lexical helpers *)
Lemma take_until_le : forall t r, take_until_star_slash t = Some r -> length r <= length t.
Proof.
  induction t as [|c t' IH]; intros r H; cbn [take_until_star_slash] in H; [discriminate|].
  destruct t' as [|d t'']; [discriminate|].
  destruct (N.eqb (cp c) 42 && N.eqb (cp d) 47).
  - inversion H; subst; lia.
  - apply IH in H. cbn [length] in *; lia.
Qed.

Lemma match_comment_Bs : forall t, B (length t) (match_comment t).
Proof.
  intros t; unfold match_comment.
  eapply (B_bind _ _ (length t)); [apply ptag_Bs|].
  intros _ r1 Hr1.
  destruct (take_until_star_slash r1) as [r2|] eqn:E; [|exact I].
  apply take_until_le in E.
  eapply B_mono; [apply ptag_B|lia].
Qed.

Lemma match_whitespace_item_Bs : forall t, B (length t) (match_whitespace_item t).
Proof.
  intros t; unfold match_whitespace_item.
  destruct t as [|c t']; [apply match_comment_Bs|].
  destruct (is_css_ws (cp c)); [cbn; lia|apply match_comment_Bs].
Qed.
Lemma match_whitespace_item_B : forall t, B (S (length t)) (match_whitespace_item t).
Proof. intros; eapply B_mono; [apply match_whitespace_item_Bs|lia]. Qed.

Lemma skip_ws_le : forall t, length (skip_ws t) <= length t.
Proof.
  intros t; unfold skip_ws.
  pose proof (many0_B _ _ match_whitespace_item_B t) as H.
  destruct (many0 match_whitespace_item t); cbn [B] in *; lia.
Qed.

(* ------------------------------------------------------------------ *)
(* Automation *)
Create HintDb bdb.

Ltac ws_facts :=
  repeat match goal with
  | |- context [skip_ws ?t] =>
      lazymatch goal with
      | _ : length (skip_ws t) <= length t |- _ => fail
      | _ => pose proof (skip_ws_le t)
      end
  | _ : context [skip_ws ?t] |- _ =>
      lazymatch goal with
      | _ : length (skip_ws t) <= length t |- _ => fail
      | _ => pose proof (skip_ws_le t)
      end
  end.

Ltac bfin := ws_facts; cbn [B length fst snd] in *; lia.

Ltac bsolve :=
  ws_facts;
  lazymatch goal with
  | |- B ?n (pbind ?e ?k) =>
      first [ solve [ eapply (B_bind _ _ n); [ bsolve | intros; bsolve ] ]
            | solve [ eapply (B_bind _ _ (S n)); [ bsolve | intros; bsolve ] ] ]
  | |- B _ (palt _ _) => apply B_palt; [ bsolve | intros _; bsolve ]
  | |- B _ (pmap _ _) => apply B_pmap; bsolve
  | |- B _ (popt _ _) => apply B_popt; [ bsolve | bfin ]
  | |- B _ (POk _ _) => bfin
  | |- B _ PFail => exact I
  | |- B _ (if ?b then _ else _) => destruct b; bsolve
  | |- B _ _ => eapply B_mono; [ solve [ eauto with bdb ] | bfin ]
  end.

(* case analysis on a parser call [e] that is scrutinised by a plain match; [m] = its bound *)
Ltac bcase e m :=
  let H := fresh "Hc" in
  assert (H : B m e) by bsolve;
  destruct e as [? ? | | ? | ]; cbn [B] in H; try contradiction.

#[export] Hint Resolve ptag_Bs | 0 : bdb.
#[export] Hint Resolve ptag_B | 1 : bdb.
#[export] Hint Resolve match_comment_Bs match_whitespace_item_Bs | 0 : bdb.
#[export] Hint Resolve match_whitespace_item_B | 1 : bdb.
#[export] Hint Resolve many0_B many1_B separated_list0_B | 1 : bdb.
#[export] Hint Resolve many1_Bs | 0 : bdb.

Lemma nmstart_char_Bs : forall t, B (length t) (nmstart_char t).
Proof. intros [|c t']; cbn [nmstart_char]; bsolve. Qed.
Lemma nmchar_char_Bs : forall t, B (length t) (nmchar_char t).
Proof. intros [|c t']; cbn [nmchar_char]; bsolve. Qed.
#[export] Hint Resolve nmstart_char_Bs nmchar_char_Bs | 0 : bdb.

Lemma esc_scan_ge : forall t k j, esc_scan t k = Some j -> k <= j.
Proof.
  induction t as [|c t' IH]; intros k j H; cbn [esc_scan] in H; [discriminate|].
  destruct (is_hex (cp c) && Nat.ltb k 6).
  - apply IH in H; lia.
  - inversion H; lia.
Qed.

Lemma ident_escape_Bs : forall t, B (length t) (ident_escape t).
Proof.
  intros t; unfold ident_escape.
  eapply (B_bind _ _ (length t)); [apply ptag_Bs|].
  intros _ rest Hrest.
  destruct rest as [|c rest']; [bfin|].
  destruct (is_hex (cp c)); [|bfin].
  cbv zeta. cbn [B]. rewrite skipn_length. lia.
Qed.
#[export] Hint Resolve ident_escape_Bs | 0 : bdb.

Lemma nmstart_Bs : forall t, B (length t) (nmstart t).
Proof. intros t; unfold nmstart; bsolve. Qed.
Lemma nmchar_Bs : forall t, B (length t) (nmchar t).
Proof. intros t; unfold nmchar; bsolve. Qed.
Lemma nmchar_B : forall t, B (S (length t)) (nmchar t).
Proof. intros; eapply B_mono; [apply nmchar_Bs|lia]. Qed.
#[export] Hint Resolve nmstart_Bs nmchar_Bs | 0 : bdb.
#[export] Hint Resolve nmchar_B | 1 : bdb.

Lemma parse_ident_Bs : forall t, B (length t) (parse_ident t).
Proof. intros t; unfold parse_ident; cbv zeta; bsolve. Qed.
Lemma parse_ident_B : forall t, B (S (length t)) (parse_ident t).
Proof. intros; eapply B_mono; [apply parse_ident_Bs|lia]. Qed.
#[export] Hint Resolve parse_ident_Bs | 0 : bdb.
#[export] Hint Resolve parse_ident_B | 1 : bdb.

Lemma parse_identstring_B : forall t, B (S (length t)) (parse_identstring t).
Proof. intros t; unfold parse_identstring; bsolve. Qed.
#[export] Hint Resolve parse_identstring_B | 1 : bdb.

(* the `_cased` twins (class names and ids keep their letter case) *)
Lemma nmstart_char_cased_Bs : forall t, B (length t) (nmstart_char_cased t).
Proof. intros [|c t']; cbn [nmstart_char_cased]; bsolve. Qed.
Lemma nmchar_char_cased_Bs : forall t, B (length t) (nmchar_char_cased t).
Proof. intros [|c t']; cbn [nmchar_char_cased]; bsolve. Qed.
#[export] Hint Resolve nmstart_char_cased_Bs nmchar_char_cased_Bs | 0 : bdb.

Lemma nmstart_cased_Bs : forall t, B (length t) (nmstart_cased t).
Proof. intros t; unfold nmstart_cased; bsolve. Qed.
Lemma nmchar_cased_Bs : forall t, B (length t) (nmchar_cased t).
Proof. intros t; unfold nmchar_cased; bsolve. Qed.
Lemma nmchar_cased_B : forall t, B (S (length t)) (nmchar_cased t).
Proof. intros; eapply B_mono; [apply nmchar_cased_Bs|lia]. Qed.
#[export] Hint Resolve nmstart_cased_Bs nmchar_cased_Bs | 0 : bdb.
#[export] Hint Resolve nmchar_cased_B | 1 : bdb.

Lemma parse_ident_cased_Bs : forall t, B (length t) (parse_ident_cased t).
Proof. intros t; unfold parse_ident_cased; cbv zeta; bsolve. Qed.
Lemma parse_ident_cased_B : forall t, B (S (length t)) (parse_ident_cased t).
Proof. intros; eapply B_mono; [apply parse_ident_cased_Bs|lia]. Qed.
#[export] Hint Resolve parse_ident_cased_Bs | 0 : bdb.
#[export] Hint Resolve parse_ident_cased_B | 1 : bdb.

Lemma parse_identstring_cased_B : forall t, B (S (length t)) (parse_identstring_cased t).
Proof. intros t; unfold parse_identstring_cased; bsolve. Qed.
#[export] Hint Resolve parse_identstring_cased_B | 1 : bdb.

(* ------------------------------------------------------------------ *)
(* Tokens *)
Lemma digit1_B : forall t acc, B (S (length t)) (digit1 t acc).
Proof.
  induction t as [|c t' IH]; intros acc; cbn [digit1].
  - destruct acc; bsolve.
  - destruct (is_digit (cp c)).
    + eapply B_mono; [apply IH|cbn; lia].
    + destruct acc; bsolve.
Qed.
Lemma digit1_Bs : forall t, B (length t) (digit1 t []).
Proof.
  intros [|c t']; cbn [digit1]; [exact I|].
  destruct (is_digit (cp c)); [|exact I].
  eapply B_mono; [apply digit1_B|cbn; lia].
Qed.
#[export] Hint Resolve digit1_Bs | 0 : bdb.
#[export] Hint Resolve digit1_B | 1 : bdb.

Lemma digit0_le : forall t acc, length (snd (digit0 t acc)) <= length t.
Proof.
  induction t as [|c t' IH]; intros acc; cbn [digit0]; [cbn; lia|].
  destruct (is_digit (cp c)); [specialize (IH (c :: acc)); cbn [length]; lia|cbn; lia].
Qed.

Lemma parse_number_Bs : forall t, B (length t) (parse_number t).
Proof.
  intros t; unfold parse_number; cbv zeta.
  eapply (B_bind _ _ (S (length t))); [bsolve|].
  intros _ r1 Hr1.
  apply B_palt; [bsolve|intros _].
  pose proof (digit0_le r1 []) as Hd.
  destruct (digit0 r1 []) as [d0 r2]; cbn [snd] in Hd.
  eapply (B_bind _ _ (length t)); [bsolve|].
  intros _ r3 Hr3. bsolve.
Qed.
#[export] Hint Resolve parse_number_Bs | 0 : bdb.

Lemma recognize_number_Bs : forall t, B (length t) (recognize_number t).
Proof.
  intros t; unfold recognize_number.
  pose proof (parse_number_Bs t) as H.
  destruct (parse_number t); cbn [B] in *; auto.
Qed.
#[export] Hint Resolve recognize_number_Bs | 0 : bdb.

Lemma parse_numeric_token_Bs : forall t, B (length t) (parse_numeric_token t).
Proof.
  intros t; unfold parse_numeric_token.
  eapply (B_bind _ _ (length t)); [bsolve|].
  intros num rest Hrest.
  bcase (ptag [37%N] rest) (length rest); [bfin|].
  bcase (parse_ident rest) (length rest); bfin.
Qed.
#[export] Hint Resolve parse_numeric_token_Bs | 0 : bdb.

Lemma parse_ident_like_Bs : forall t, B (length t) (parse_ident_like t).
Proof.
  intros t; unfold parse_ident_like.
  eapply (B_bind _ _ (length t)); [bsolve|].
  intros ident rest Hrest.
  bcase (ptag [40%N] rest) (length rest); bfin.
Qed.
#[export] Hint Resolve parse_ident_like_Bs | 0 : bdb.

Lemma string_loop_B : forall n t e acc, length t <= n -> B (S (length t)) (string_loop t e acc).
Proof.
  induction n as [|n IH]; intros t e acc Hn.
  - destruct t; [cbn; lia|cbn in Hn; lia].
  - destruct t as [|c t']; cbn [string_loop]; [cbn; lia|].
    cbn [length] in Hn.
    destruct (N.eqb (cp c) e); [bfin|].
    destruct (N.eqb (cp c) 10); [bfin|].
    destruct (N.eqb (cp c) 92).
    + destruct t' as [|d t'']; [bfin|].
      cbn [length] in *.
      destruct (N.eqb (cp d) 10); (eapply B_mono; [apply IH; lia|cbn [length]; lia]).
    + eapply B_mono; [apply IH; lia|cbn [length]; lia].
Qed.

(* the only PPanic of CssParse.v: parse_string_token on the empty input; on a non-empty
   input it is safe and consumes at least the opening quote *)
Lemma parse_string_token_Bs : forall c t, B (length (c :: t)) (parse_string_token (c :: t)).
Proof.
  intros c t; cbn [parse_string_token].
  eapply B_mono; [eapply string_loop_B; reflexivity|cbn [length]; lia].
Qed.

Lemma parse_token_Bs : forall t, B (length t) (parse_token t).
Proof.
  intros t; unfold parse_token; cbv zeta.
  pose proof (skip_ws_le t) as Hws.
  destruct (skip_ws t) as [|c r1]; [exact I|].
  assert (Hr1 : length r1 < length t) by (cbn [length] in Hws; lia).
  repeat match goal with
  | |- B _ (if ?b then _ else _) => destruct b
  end.
  all: try solve [cbn [B]; lia].
  - eapply B_mono; [apply parse_string_token_Bs|lia].
  - bcase (parse_identstring r1) (S (length r1)); bfin.
  - bcase (parse_numeric_token r1) (length r1); bfin.
  - bcase (parse_numeric_token (c :: r1)) (length (c :: r1)); [bfin|].
    destruct (starts_with [45; 45; 62]%N (c :: r1)) as [rc|] eqn:E.
    + apply starts_with_lt in E. bfin.
    + bcase (parse_ident_like (c :: r1)) (length (c :: r1)); bfin.
  - bcase (parse_numeric_token (c :: r1)) (length (c :: r1)); bfin.
  - destruct (starts_with [60; 33; 45; 45]%N (c :: r1)) as [rc|] eqn:E.
    + apply starts_with_lt in E. bfin.
    + bfin.
  - bcase (parse_ident (c :: r1)) (length (c :: r1)); bfin.
  - bcase (parse_ident_like (c :: r1)) (length (c :: r1)); bfin.
  - bsolve.
  - bsolve.
Qed.
Lemma parse_token_B : forall t, B (S (length t)) (parse_token t).
Proof. intros; eapply B_mono; [apply parse_token_Bs|lia]. Qed.
#[export] Hint Resolve parse_token_Bs | 0 : bdb.
#[export] Hint Resolve parse_token_B | 1 : bdb.

(* the statements asked for in the method *)
Theorem parse_token_safe : forall t, safe (parse_token t).
Proof. intros t; apply (B_safe_shorter _ t), parse_token_Bs. Qed.
Theorem parse_token_progress : forall t tok rest,
  parse_token t = POk tok rest -> length rest < length t.
Proof. intros t tok rest H; pose proof (parse_token_Bs t) as HB; rewrite H in HB; exact HB. Qed.

(* the value loop (replaces many0 parse_token_not_semicolon): with fuel above the input length it
   never runs out of fuel, never panics (parse_token does not) and returns a suffix of its input *)
Lemma value_toks_f_B : forall fuel d t acc,
  length t < fuel -> B (S (length t)) (value_toks_f fuel d t acc).
Proof.
  induction fuel as [|f IH]; intros d t acc Hlen; [lia|].
  cbn [value_toks_f]. pose proof (parse_token_Bs t) as Ht.
  destruct (parse_token t) as [tok rest| |s|]; cbn [B] in *; try contradiction; [|lia].
  destruct (is_close_brace tok); [cbn [B]; lia|].
  destruct (is_semicolon tok && Nat.eqb d 0); [cbn [B]; lia|].
  destruct (Nat.eqb (length rest) (length t)); [cbn [B]; lia|].
  eapply B_mono; [apply IH; lia|lia].
Qed.
Lemma value_toks_B : forall t, B (S (length t)) (value_toks t).
Proof. intros t; unfold value_toks; apply value_toks_f_B; lia. Qed.
#[export] Hint Resolve value_toks_B | 1 : bdb.

Lemma parse_value_B : forall t, B (S (length t)) (parse_value t).
Proof. intros t; unfold parse_value; bsolve. Qed.
#[export] Hint Resolve parse_value_B | 1 : bdb.

(* ------------------------------------------------------------------ *)
(* Declarations *)
Lemma parse_declaration_B : forall t, B (S (length t)) (parse_declaration t).
Proof. intros t; unfold parse_declaration; cbv zeta; bsolve. Qed.
#[export] Hint Resolve parse_declaration_B | 1 : bdb.

Lemma semi_item_B : forall t, B (S (length t)) (semi_item t).
Proof. intros t; unfold semi_item; bsolve. Qed.
#[export] Hint Resolve semi_item_B | 1 : bdb.
Lemma semi_ws_B : forall t, B (S (length t)) (semi_ws t).
Proof. intros t; unfold semi_ws; bsolve. Qed.
#[export] Hint Resolve semi_ws_B | 1 : bdb.
Lemma semi_sep_B : forall t, B (S (length t)) (semi_sep t).
Proof. intros t; unfold semi_sep; apply many1_B; intros t0; apply semi_item_B. Qed.
#[export] Hint Resolve semi_sep_B | 1 : bdb.

Lemma parse_rules_B : forall t, B (S (length t)) (parse_rules t).
Proof. intros t; unfold parse_rules; bsolve. Qed.
#[export] Hint Resolve parse_rules_B | 1 : bdb.

(* ------------------------------------------------------------------ *)
(* Selectors *)
Lemma parse_class_B : forall t, B (S (length t)) (parse_class t).
Proof. intros t; unfold parse_class; bsolve. Qed.
#[export] Hint Resolve parse_class_B | 1 : bdb.

Lemma opt_sign_le : forall t, length (snd (opt_sign t)) <= length t.
Proof.
  intros [|c t']; cbn [opt_sign]; [cbn; lia|].
  destruct (N.eqb (cp c) 45); [cbn; lia|].
  destruct (N.eqb (cp c) 43); cbn; lia.
Qed.
Lemma sign_B : forall t, B (S (length t)) (sign t).
Proof. intros [|c t']; cbn [sign]; bsolve. Qed.
#[export] Hint Resolve sign_B | 1 : bdb.

Lemma nth_full_B : forall t, B (S (length t)) (nth_full t).
Proof.
  intros t; unfold nth_full.
  pose proof (opt_sign_le t) as Hs.
  destruct (opt_sign t) as [a_sign r1]; cbn [snd] in Hs.
  eapply (B_bind _ _ (S (length t))); [bsolve|]; intros a_opt r2 Hr2.
  eapply (B_bind _ _ (S (length t))); [bsolve|]; intros _ r3 Hr3.
  cbv zeta.
  eapply (B_bind _ _ (S (length t))); [bsolve|]; intros b_sign r5 Hr5.
  eapply (B_bind _ _ (S (length t))); [bsolve|]; intros b_val r6 Hr6.
  destruct (match a_opt with Some d => i32_of_digits d | None => Some 1%Z end);
    [|exact I].
  destruct (i32_of_digits b_val); bfin.
Qed.
Lemma nth_a_only_B : forall t, B (S (length t)) (nth_a_only t).
Proof.
  intros t; unfold nth_a_only.
  pose proof (opt_sign_le t) as Hs.
  destruct (opt_sign t) as [a_sign r1]; cbn [snd] in Hs.
  eapply (B_bind _ _ (S (length t))); [bsolve|]; intros a_opt r2 Hr2.
  eapply (B_bind _ _ (S (length t))); [bsolve|]; intros _ r3 Hr3.
  destruct (match a_opt with Some d => i32_of_digits d | None => Some 1%Z end); bfin.
Qed.
Lemma nth_b_only_B : forall t, B (S (length t)) (nth_b_only t).
Proof.
  intros t; unfold nth_b_only.
  pose proof (opt_sign_le t) as Hs.
  destruct (opt_sign t) as [b_sign r1]; cbn [snd] in Hs.
  eapply (B_bind _ _ (S (length t))); [bsolve|]; intros b_val r2 Hr2.
  destruct (i32_of_digits b_val); bfin.
Qed.
#[export] Hint Resolve nth_full_B nth_a_only_B nth_b_only_B | 1 : bdb.

Lemma parse_nth_child_args_B : forall t, B (S (length t)) (parse_nth_child_args t).
Proof. intros t; unfold parse_nth_child_args; cbv zeta; bsolve. Qed.
#[export] Hint Resolve parse_nth_child_args_B | 1 : bdb.

Lemma parse_pseudo_class_B : forall t, B (S (length t)) (parse_pseudo_class t).
Proof. intros t; unfold parse_pseudo_class; bsolve. Qed.
Lemma parse_hash_B : forall t, B (S (length t)) (parse_hash t).
Proof. intros t; unfold parse_hash; bsolve. Qed.
Lemma parse_ws_Bs : forall t, B (length t) (parse_ws t).
Proof. intros t; unfold parse_ws; bsolve. Qed.
#[export] Hint Resolve parse_ws_Bs | 0 : bdb.
#[export] Hint Resolve parse_pseudo_class_B parse_hash_B | 1 : bdb.

Lemma parse_simple_selector_component_B :
  forall t, B (S (length t)) (parse_simple_selector_component t).
Proof. intros t; unfold parse_simple_selector_component; bsolve. Qed.
#[export] Hint Resolve parse_simple_selector_component_B | 1 : bdb.

Lemma parse_selector_with_element_B : forall t, B (S (length t)) (parse_selector_with_element t).
Proof. intros t; unfold parse_selector_with_element; bsolve. Qed.
Lemma parse_selector_without_element_B :
  forall t, B (S (length t)) (parse_selector_without_element t).
Proof. intros t; unfold parse_selector_without_element; bsolve. Qed.
#[export] Hint Resolve parse_selector_with_element_B parse_selector_without_element_B | 1 : bdb.

Lemma parse_pseudo_element_le : forall t, length (snd (parse_pseudo_element t)) <= length t.
Proof.
  intros t; unfold parse_pseudo_element.
  destruct (starts_with _ t) as [r|] eqn:E1; [apply starts_with_lt in E1; cbn [snd]; lia|].
  clear E1; destruct (starts_with _ t) as [r|] eqn:E2; [apply starts_with_lt in E2; cbn [snd]; lia|].
  cbn [snd]; lia.
Qed.

Lemma parse_selector_B : forall t, B (S (length t)) (parse_selector t).
Proof.
  intros t; unfold parse_selector.
  eapply (B_bind _ _ (S (length t))); [bsolve|]; intros cs rest Hrest.
  cbv zeta.
  pose proof (parse_pseudo_element_le rest) as Hp.
  destruct (parse_pseudo_element rest) as [pe rest']; bfin.
Qed.
#[export] Hint Resolve parse_selector_B | 1 : bdb.

Lemma comma_sep_B : forall t, B (S (length t)) (comma_sep t).
Proof. intros t; unfold comma_sep; bsolve. Qed.
#[export] Hint Resolve comma_sep_B | 1 : bdb.

Lemma parse_ruleset_B : forall t, B (S (length t)) (parse_ruleset t).
Proof. intros t; unfold parse_ruleset; cbv zeta; bsolve. Qed.
#[export] Hint Resolve parse_ruleset_B | 1 : bdb.

(* ------------------------------------------------------------------ *)
(* Statements: the fuel of skip_to_end_of_statement suffices because parse_token
   consumes at least one character whenever it succeeds *)
Lemma skip_stmt_B : forall fuel t stack,
  length t < fuel -> B (S (length t)) (skip_stmt fuel t stack).
Proof.
  induction fuel as [|f IH]; intros t stack Hlen; [lia|].
  cbn [skip_stmt].
  pose proof (parse_token_Bs t) as Ht.
  destruct (parse_token t) as [tok remain| |s|]; cbn [B] in Ht; try contradiction;
    [|bfin].
  assert (Hrec : forall st, B (S (length t)) (skip_stmt f remain st))
    by (intros st; eapply B_mono; [apply IH; lia|lia]).
  destruct tok; try apply Hrec.
  all: try (destruct stack as [|top_ stack']; [try exact I; try bfin|]).
  all: try apply Hrec.
  all: cbn [closer_kind].
  all: try (destruct (N.eqb top_ _); [|exact I]).
  all: try (destruct (_ && _)); try apply Hrec; try bfin.
Qed.
Lemma skip_to_end_of_statement_B : forall t, B (S (length t)) (skip_to_end_of_statement t).
Proof. intros t; unfold skip_to_end_of_statement; apply skip_stmt_B; lia. Qed.
#[export] Hint Resolve skip_to_end_of_statement_B | 1 : bdb.

Lemma parse_at_rule_B : forall t, B (S (length t)) (parse_at_rule t).
Proof. intros t; unfold parse_at_rule; bsolve. Qed.
Lemma skip_unparsable_ruleset_B : forall t, B (S (length t)) (skip_unparsable_ruleset t).
Proof. intros t; unfold skip_unparsable_ruleset; bsolve. Qed.
#[export] Hint Resolve parse_at_rule_B skip_unparsable_ruleset_B | 1 : bdb.

Lemma parse_statement_B : forall t, B (S (length t)) (parse_statement t).
Proof. intros t; unfold parse_statement; bsolve. Qed.
#[export] Hint Resolve parse_statement_B | 1 : bdb.

Lemma parse_stylesheet_B : forall t, B (S (length t)) (parse_stylesheet t).
Proof. intros t; unfold parse_stylesheet; bsolve. Qed.

(* ------------------------------------------------------------------ *)
(* The method's statement for every entry point: safe /\ shorter_eq *)
Theorem parse_value_total : forall t, safe (parse_value t) /\ shorter_eq t (parse_value t).
Proof. intros t; apply B_safe_shorter_eq, parse_value_B. Qed.
Theorem parse_declaration_total :
  forall t, safe (parse_declaration t) /\ shorter_eq t (parse_declaration t).
Proof. intros t; apply B_safe_shorter_eq, parse_declaration_B. Qed.
Theorem parse_rules_total : forall t, safe (parse_rules t) /\ shorter_eq t (parse_rules t).
Proof. intros t; apply B_safe_shorter_eq, parse_rules_B. Qed.
Theorem parse_selector_total : forall t, safe (parse_selector t) /\ shorter_eq t (parse_selector t).
Proof. intros t; apply B_safe_shorter_eq, parse_selector_B. Qed.
Theorem parse_ruleset_total : forall t, safe (parse_ruleset t) /\ shorter_eq t (parse_ruleset t).
Proof. intros t; apply B_safe_shorter_eq, parse_ruleset_B. Qed.
Theorem skip_to_end_of_statement_total :
  forall t, safe (skip_to_end_of_statement t) /\ shorter_eq t (skip_to_end_of_statement t).
Proof. intros t; apply B_safe_shorter_eq, skip_to_end_of_statement_B. Qed.
Theorem parse_statement_total :
  forall t, safe (parse_statement t) /\ shorter_eq t (parse_statement t).
Proof. intros t; apply B_safe_shorter_eq, parse_statement_B. Qed.
Theorem parse_stylesheet_total :
  forall t, safe (parse_stylesheet t) /\ shorter_eq t (parse_stylesheet t).
Proof. intros t; apply B_safe_shorter_eq, parse_stylesheet_B. Qed.

(* ------------------------------------------------------------------ *)
(* C17 *)

(* add_css / add_agent_css: for every string the outcome is rules or a parse error -
   never a panic, never out of fuel (= never a hang) *)
Theorem c17_add_css_total : forall css : text,
  match parse_css_rules css with CssOk _ | CssErr => True | CssPanic _ | CssFuel => False end.
Proof.
  intros css; unfold parse_css_rules.
  pose proof (parse_stylesheet_B css) as H.
  destruct (parse_stylesheet css); cbn [B] in H; auto.
Qed.

Lemma parse_style_attribute_total : forall t, exists l, parse_style_attribute t = Ok l.
Proof.
  intros t; unfold parse_style_attribute.
  pose proof (parse_rules_B t) as H.
  destruct (parse_rules t); cbn [B] in H; try contradiction; eauto.
Qed.
Lemma parse_color_attribute_total : forall t, exists c, parse_color_attribute t = Ok c.
Proof.
  intros t; unfold parse_color_attribute.
  pose proof (parse_value_B t) as H.
  destruct (parse_value t) as [v rest| |s|]; cbn [B] in H; try contradiction; eauto.
  destruct (parse_color (fst v)); eauto.
  destruct (parse_color_part _ _ _); eauto.
  destruct (parse_color_part _ _ _); eauto.
  destruct (parse_color_part _ _ _); eauto.
Qed.

(* inline style / color / bgcolor attributes *)
Theorem c17_inline_total : forall attrs, exists l, inline_styles attrs = Ok l.
Proof.
  induction attrs as [|[k v] attrs IH]; cbn [inline_styles]; [eauto|].
  destruct IH as [rest Hrest]; rewrite Hrest.
  destruct (parse_style_attribute_total v) as [ls Hs].
  destruct (parse_color_attribute_total v) as [c Hc].
  destruct (attr_is k s_style); [rewrite Hs; cbn [bind]; eauto|].
  destruct (attr_is k s_colorattr); [rewrite Hc; cbn [bind]; eauto|].
  destruct (attr_is k s_bgcolor); [rewrite Hc; cbn [bind]; eauto|].
  cbn [bind]; eauto.
Qed.

Lemma rules_of_texts_total : forall l, exists rs, rules_of_texts l = Ok rs.
Proof.
  induction l as [|css l IH]; cbn [rules_of_texts]; [eauto|].
  destruct IH as [rest Hrest]; rewrite Hrest.
  pose proof (c17_add_css_total css) as H.
  destruct (parse_css_rules css); try contradiction; cbn [bind]; eauto.
Qed.

(* <style> elements of a document: malformed CSS is ignored, never an error *)
Theorem c17_doc_rules_total : forall doc, exists l, doc_rules doc = Ok l.
Proof. intros doc; unfold doc_rules; apply rules_of_texts_total. Qed.

(* ------------------------------------------------------------------ *)
(* Non-vacuity: a concrete 2-rule sheet with a comment, an unknown property, !important,
   a missing final semicolon and an @media block parses to exactly 2 rulesets:
     /* c */ p { color: red !important; foo: bar }
     @media print { a { color: blue } }
     .x > b { display: none; white-space: pre }                                        *)
Definition example_sheet : text := of_ascii
  [47;42;32;99;32;42;47;32;
   112;32;123;32;99;111;108;111;114;58;32;114;101;100;32;33;105;109;112;111;114;116;97;110;116;59;
   32;102;111;111;58;32;98;97;114;32;125;10;
   64;109;101;100;105;97;32;112;114;105;110;116;32;123;32;97;32;123;32;99;111;108;111;114;58;32;
   98;108;117;101;32;125;32;125;10;
   46;120;32;62;32;98;32;123;32;100;105;115;112;108;97;121;58;32;110;111;110;101;59;32;
   119;104;105;116;101;45;115;112;97;99;101;58;32;112;114;101;32;125;10]%N.

Example c17_nonvacuous :
  match parse_css_rules example_sheet with
  | CssOk rs =>
      length rs = 2 /\
      map rs_styles rs =
        [ [mksd (SColour 255 0 0) true];
          [mksd (SDisplay true) false; mksd (SWhiteSpace WsPre) false] ]%N
  | _ => False
  end.
Proof. vm_compute. split; reflexivity. Qed.

(* malformed input is skipped, not a panic:   }}"\     and     p{(["     *)
Example c17_garbage :
  parse_css_rules (of_ascii [125;125;34;92]%N) = CssOk [] /\
  parse_css_rules (of_ascii [112;123;40;91;34]%N) = CssOk [].
Proof. vm_compute. split; reflexivity. Qed.

Print Assumptions c17_add_css_total.
Print Assumptions c17_inline_total.
Print Assumptions c17_doc_rules_total.
