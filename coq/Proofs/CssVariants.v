(* Proofs/CssVariants.v -- property C17, second sentence: style sheets that differ only in
   CSS-insignificant syntax style a document identically.  Proofs/CssRoundTrip.v covers optional
   whitespace and comments; this file adds the other variant classes of the property:
     (1) letter case of property names, of hex digits and of every other identifier the model
         reads through parse_ident (value keywords, `!important`, units, function names),
     (2) the final semicolon of a block dropped, kept or repeated, and empty declarations
         between declarations,
     (3) unknown properties (and declarations the model does not understand) interleaved anywhere
         in a block,
     (4) junk statements between rule sets: unknown at-rules and unparsable rule sets.
   No axioms.

   The printer.  A variant sheet is a list of statements [vstmt]:
     VRule v   a rule set [vrule]: the selector list with the whitespace positions of
               CssRoundTrip.wsp2, then a block [vblock] of entries.  An [entry] is a declaration
               [ditem] = property name in ANY letter case, `:`, a value made of [atom]s (identifiers
               in any letter case, functions, #hash, numbers, dimensions, percentages, strings,
               punctuation; each atom with optional whitespace/comments in front), then whitespace,
               then a list of `;` (one per element, each followed by whitespace): [] = final `;`
               dropped, [w] = kept, [w; w'; ..] = repeated / empty declarations.
               What a declaration MEANS is computed ([item_decl]) from the lowercased name and the
               tokens: one of the model's properties, or DUnknown.
     VJunk j w a text j with [junk_ok j] (parse_statement skips exactly j, whatever follows) and
               the whitespace after it.
   Main theorems
     parse_vrule            parse_ruleset (print_vrule v ++ rest) = POk (vrule_raw v) (skip_ws ..)
     junk_at_rule           family A: `@name` atoms, ended by `;` outside brackets or by a balanced
                            `{..}` block, is junk_ok               (@import ..;  @media .. {..})
     junk_unparsable        family B: atoms that form one statement and on which parse_ruleset
                            fails are junk_ok; with fails_pseudo_class (`a:hover {..}`) and
                            fails_after_elem (`p[x=y] {..}`, `a(..`, `a=..`)
     variant_sheet_rt       parse_stylesheet (lead ++ print_vsheet ss) = POk (vsheet_raw ss) rest,
                            rest whitespace only
     variant_rules          parse_css_rules (lead ++ print_vsheet ss)
                              = CssOk (rules_of (vsheet_meaning ss))
                            where vsheet_meaning = the rule sets minus the unknown declarations
     variants_agree         two variant sheets with the same meaning give the same rules
     insignificant_variants ... the same rules as the canonical text CssRoundTrip.print_ruleset of
                            the meaning (when it is in that printer's fragment)
     real_item_decl/_ok     a declaration of the canonical printer, written in any letter case
                            (name, hex digits, keyword, `!important`), means that declaration
     unknown_item           a name outside the ten known ones gives DUnknown
   Hypotheses ([vsheet_ok]): decidable well-formedness of the syntax tree - whitespace fields are
   whitespace/comments ([wsm]); atoms are lexically valid ([atom_okb]); adjacent atoms do not merge
   into another token ([achain]: e.g. an identifier directly followed by an identifier or `(`, a
   number followed by a digit, `%` or - even after whitespace, because parse_ident skips
   whitespace - by an identifier); values contain no `{` `}` ([vatom]) and a `;` only inside
   parentheses / square brackets, all of which are closed again when the value ends ([vdepth],
   the bracket depth of CssParse.value_toks_f; see F-b); every declaration but the last is
   followed by at least one `;`; `;`s before the first declaration are allowed in every block
   ([b_lead]; former finding F-a); selectors as in CssRoundTrip.
   RESTRICTIONS: selectors are those of CssRoundTrip.wf_selector (element names in lower case,
   class names and ids in either case, kept as written; letter case of selectors is not in the
   property); identifiers in values start with a letter or `_` (no
   `-webkit-box`, no escapes, no non-ASCII), numbers are digit strings (no sign, no decimal point):
   these are checked by computation only (unusual_values_ok).
   FINDINGS (section 13): F-a leading `;` and F-b `;` inside brackets in a value are REPAIRED in
   CssParse (parse_rules, value_toks) and are Examples of the new behaviour; `{}` in a value and an
   unclosed bracket in a value still lose declarations. *)
From H2T Require Import Base Tagged Wrap Css Dom CssParse Proofs.CssTotal Proofs.CssRoundTrip.
From Coq Require Import Lia ZifyN ZifyBool ZifyNat.
Local Arguments N.add : simpl never.
Local Arguments N.sub : simpl never.
Local Arguments N.mul : simpl never.
Local Arguments N.div : simpl never.
Local Arguments N.modulo : simpl never.
Local Arguments N.leb : simpl never.
Local Arguments N.ltb : simpl never.
Local Arguments N.eqb : simpl never.
Local Arguments N.max : simpl never.
Local Arguments N.min : simpl never.
Local Open Scope N_scope.

(* ------------------------------------------------------------------ *)
(* 1. identifiers in mixed case: parse_ident lowercases A-Z *)
Definition lowerN (x : N) : N := if is_upper x then x + 32 else x.
Definition mstart (x : N) : bool := (x =? 95) || is_lower x || is_upper x.
Definition mnm (x : N) : bool := mstart x || is_digit x || (x =? 45).

Ltac cls2 :=
  unfold is_ident_start, mnm, mstart, lowerN, wsstart, lowstart, lownm, identcont, is_css_ws,
         is_lower, is_upper, is_digit in *; lia.

Lemma lower_chr_mk : forall x, lower_chr (mk x 1) = mk (lowerN x) 1.
Proof.
  intros x. unfold lower_chr, lowerN, mk; cbn [cp cw ws lab]. destruct (is_upper x); reflexivity.
Qed.
Lemma lower_text_ascii : forall l, map lower_chr (of_ascii l) = of_ascii (map lowerN l).
Proof.
  induction l as [|x l IH]; [reflexivity|].
  unfold of_ascii in *; cbn [map]. rewrite IH. f_equal. apply lower_chr_mk.
Qed.

Lemma nmchar_mixed : forall c t, mnm (cp c) = true -> nmchar (c :: t) = POk (lower_chr c) t.
Proof.
  intros c t H; unfold nmchar, nmchar_char.
  assert (E : (cp c =? 95) || is_lower (cp c) || is_upper (cp c) || is_digit (cp c) || (cp c =? 45) = true)
    by cls2.
  rewrite E. reflexivity.
Qed.
Lemma nmstart_mixed : forall c t, mstart (cp c) = true -> nmstart (c :: t) = POk (lower_chr c) t.
Proof.
  intros c t H; unfold nmstart, nmstart_char.
  assert (E : (cp c =? 95) || is_lower (cp c) || is_upper (cp c) = true) by cls2.
  rewrite E. reflexivity.
Qed.
Lemma body_many_mixed : forall l k, forallb mnm l = true -> nf identcont k ->
  ManyR nmchar (of_ascii l ++ k) (of_ascii (map lowerN l)) k.
Proof.
  induction l as [|x l IH]; intros k Hb Hk.
  - apply MR_nil, nmchar_fail, Hk.
  - cbn [forallb] in Hb. apply andb_prop in Hb; destruct Hb as [Hx Hb].
    change (of_ascii (x :: l) ++ k) with (mk x 1 :: (of_ascii l ++ k)).
    change (of_ascii (map lowerN (x :: l))) with (mk (lowerN x) 1 :: of_ascii (map lowerN l)).
    rewrite <- lower_chr_mk.
    eapply MR_cons; [apply nmchar_mixed; exact Hx|cbn [length]; lia|apply IH; auto].
Qed.

(* names: [-] (_|a-z|A-Z) (_|a-z|A-Z|0-9|-)*;  words: the same without the leading dash *)
Definition word_okb (n : list N) : bool :=
  match n with x :: r => mstart x && forallb mnm r | [] => false end.
Definition name_okb (n : list N) : bool :=
  match n with
  | x :: r => if x =? 45 then word_okb r else word_okb n
  | [] => false
  end.
Lemma word_name : forall n, word_okb n = true -> name_okb n = true.
Proof.
  intros [|x r] H; [discriminate|]. cbn [name_okb].
  destruct (N.eqb_spec x 45) as [E|E]; [|exact H].
  subst x. cbn [word_okb] in H. apply andb_prop in H. destruct H as [H _]. cbv in H. discriminate.
Qed.

Lemma parse_ident_word : forall n k, word_okb n = true -> nf identcont k ->
  parse_ident (of_ascii n ++ k) = POk (of_ascii (map lowerN n)) k.
Proof.
  intros [|x r] k Hn Hk; [discriminate|]. cbn [word_okb] in Hn.
  apply andb_prop in Hn; destruct Hn as [Hx Hr].
  unfold parse_ident; cbv zeta.
  change (of_ascii (x :: r) ++ k) with (mk x 1 :: (of_ascii r ++ k)).
  rewrite skip_ws_id by (cbn [nf cp mk]; cls2).
  rewrite ptag_hd by (cbn [cp mk]; cls2). cbn [popt pbind].
  rewrite nmstart_mixed by exact Hx. cbn [pbind].
  rewrite (many0_R _ _ _ _ _ (body_many_mixed r k Hr Hk)).
  rewrite lower_chr_mk. reflexivity.
Qed.
Lemma parse_ident_name : forall n k, name_okb n = true -> nf identcont k ->
  parse_ident (of_ascii n ++ k) = POk (of_ascii (map lowerN n)) k.
Proof.
  intros [|x r] k Hn Hk; [discriminate|]. cbn [name_okb] in Hn.
  destruct (N.eqb_spec x 45) as [E|E]; [|apply parse_ident_word; assumption].
  subst x. destruct r as [|y s]; [discriminate|]. cbn [word_okb] in Hn.
  apply andb_prop in Hn; destruct Hn as [Hy Hs].
  unfold parse_ident; cbv zeta.
  change (of_ascii (45 :: y :: s) ++ k) with (mk 45 1 :: mk y 1 :: (of_ascii s ++ k)).
  rewrite skip_ws_id by reflexivity.
  cbn [ptag cp mk]. change (45 =? 45) with true. cbn [popt pbind].
  rewrite nmstart_mixed by exact Hy. cbn [pbind].
  rewrite (many0_R _ _ _ _ _ (body_many_mixed s k Hs Hk)).
  rewrite lower_chr_mk. reflexivity.
Qed.
Lemma parse_identstring_mixed : forall h k, h <> [] -> forallb mnm h = true -> nf identcont k ->
  parse_identstring (of_ascii h ++ k) = POk (of_ascii (map lowerN h)) k.
Proof.
  intros [|x r] k Hne Hb Hk; [congruence|]. unfold parse_identstring.
  assert (Hx : mnm x = true) by (cbn [forallb] in Hb; apply andb_prop in Hb; tauto).
  change (of_ascii (x :: r) ++ k) with (mk x 1 :: (of_ascii r ++ k)).
  rewrite skip_ws_id by (cbn [nf cp mk]; cls2).
  change (mk x 1 :: (of_ascii r ++ k)) with (of_ascii (x :: r) ++ k).
  change (of_ascii (map lowerN (x :: r))) with (mk (lowerN x) 1 :: of_ascii (map lowerN r)).
  apply many1_R. change (mk (lowerN x) 1 :: of_ascii (map lowerN r)) with (of_ascii (map lowerN (x :: r))).
  apply body_many_mixed; auto.
Qed.

(* ------------------------------------------------------------------ *)
(* 2. atoms: the tokens of declaration values and of skipped statements *)
Inductive atom :=
| AIdent (n : list N)        (* identifier, any letter case *)
| AFun (n : list N)          (* identifier directly followed by `(` *)
| AHash (h : list N)         (* `#` name characters *)
| ANum (d : list N)          (* digits *)
| ADim (d u : list N)        (* digits, unit *)
| APct (d : list N)          (* digits `%` *)
| AStr (s : list N)          (* a double-quoted string without double quote, backslash, newline inside *)
| APunct (x : N).            (* one of  ; ( ) , : [ ] { }  or a delimiter  ! $ % & * = > ? ^ ` | ~ *)

Definition puncts : list N :=
  [59; 40; 41; 44; 58; 91; 93; 123; 125; 33; 36; 37; 38; 42; 61; 62; 63; 94; 96; 124; 126].
Definition punct_okb (x : N) : bool := existsb (N.eqb x) puncts.
Definition punct_tok (x : N) : token :=
  if x =? 59 then TSemicolon else if x =? 40 then TOpenRound else if x =? 41 then TCloseRound
  else if x =? 44 then TComma else if x =? 58 then TColon else if x =? 91 then TOpenSquare
  else if x =? 93 then TCloseSquare else if x =? 123 then TOpenBrace else if x =? 125 then TCloseBrace
  else TDelim x.

Definition str_char (x : N) : bool := negb (x =? 34) && negb (x =? 10) && negb (x =? 92).
Definition digits_b (d : list N) : bool :=
  match d with [] => false | _ => forallb is_digit d end.

Definition atom_okb (a : atom) : bool :=
  match a with
  | AIdent n | AFun n => word_okb n
  | AHash h => match h with [] => false | _ => forallb mnm h end
  | ANum d | APct d => digits_b d
  | ADim d u => digits_b d && word_okb u
  | AStr s => forallb str_char s
  | APunct x => punct_okb x
  end.
Definition print_atom (a : atom) : text :=
  match a with
  | AIdent n => of_ascii n
  | AFun n => of_ascii n ++ of_ascii [40]
  | AHash h => of_ascii [35] ++ of_ascii h
  | ANum d => of_ascii d
  | ADim d u => of_ascii d ++ of_ascii u
  | APct d => of_ascii d ++ of_ascii [37]
  | AStr s => of_ascii [34] ++ of_ascii s ++ of_ascii [34]
  | APunct x => of_ascii [x]
  end.
Definition atom_tok (a : atom) : token :=
  match a with
  | AIdent n => TIdent (of_ascii (map lowerN n))
  | AFun n => TFunction (of_ascii (map lowerN n))
  | AHash h => THash (of_ascii (map lowerN h))
  | ANum d => TNumber (of_ascii d)
  | ADim d u => TDimension (of_ascii d) (of_ascii (map lowerN u))
  | APct d => TPercentage (of_ascii d)
  | AStr s => TString (of_ascii s)
  | APunct x => punct_tok x
  end.
(* code point of the first printed character *)
Definition afc (a : atom) : N :=
  match a with
  | AIdent n | AFun n => hd 0 n
  | AHash _ => 35
  | ANum d | ADim d _ | APct d => hd 0 d
  | AStr _ => 34
  | APunct x => x
  end.

(* what may come after a printed atom *)
Definition follows (a : atom) (R : text) : Prop :=
  match a with
  | AIdent _ => nf identcont R /\ nf (fun x => x =? 40) R
  | AHash _ | ADim _ _ => nf identcont R
  | ANum _ => nf is_digit R /\ nf (fun x => x =? 37) R /\ parse_ident R = PFail
  | _ => True
  end.
(* the same as a test on the next atom: [sp] = there is whitespace or a comment in between,
   [x] = the first character after it *)
Definition followsb (a : atom) (sp : bool) (x : N) : bool :=
  match a with
  | AIdent _ => sp || negb (identcont x || (x =? 40))
  | AHash _ | ADim _ _ => sp || negb (identcont x)
  | ANum _ => negb (mstart x || (x =? 45) || (x =? 92)) && (sp || negb (is_digit x || (x =? 37)))
  | _ => true
  end.

Definition isnil {A} (l : list A) : bool := match l with [] => true | _ => false end.

Lemma digits_b_ok : forall d, digits_b d = true -> d <> [] /\ digits_ok d.
Proof.
  intros d H. destruct d as [|x d']; [discriminate|]. split; [discriminate|].
  unfold digits_b in H. rewrite forallb_forall in H. apply Forall_forall. intros y Hy.
  specialize (H y Hy). cls2.
Qed.

Lemma afc_print : forall a, atom_okb a = true -> exists r, print_atom a = mk (afc a) 1 :: r.
Proof.
  intros a H. destruct a as [n|n|h|d|d u|d|s|x]; cbn [atom_okb print_atom afc] in *.
  - destruct n; [discriminate|]. eexists; reflexivity.
  - destruct n; [discriminate|]. eexists; reflexivity.
  - eexists; reflexivity.
  - destruct d; [discriminate|]. eexists; reflexivity.
  - destruct d; [discriminate|]. eexists; reflexivity.
  - destruct d; [discriminate|]. eexists; reflexivity.
  - eexists; reflexivity.
  - eexists; reflexivity.
Qed.
(* no atom starts with whitespace, `/` or `@` *)
Lemma afc_class : forall a, atom_okb a = true ->
  wsstart (afc a) = false /\ (afc a =? 64) = false.
Proof.
  intros a H. destruct a as [n|n|h|d|d u|d|s|x]; cbn [atom_okb afc] in *.
  - destruct n as [|y r]; [discriminate|]. cbn [word_okb hd] in *. apply andb_prop in H. split; cls2.
  - destruct n as [|y r]; [discriminate|]. cbn [word_okb hd] in *. apply andb_prop in H. split; cls2.
  - split; reflexivity.
  - destruct d as [|y r]; [discriminate|]. cbn [digits_b forallb hd] in *. apply andb_prop in H. split; cls2.
  - apply andb_prop in H. destruct H as [H _].
    destruct d as [|y r]; [discriminate|]. cbn [digits_b forallb hd] in *. apply andb_prop in H. split; cls2.
  - destruct d as [|y r]; [discriminate|]. cbn [digits_b forallb hd] in *. apply andb_prop in H. split; cls2.
  - split; reflexivity.
  - unfold punct_okb, puncts in H. cbn [existsb] in H.
    repeat (apply orb_prop in H; destruct H as [H|H]; [apply N.eqb_eq in H; subst x; split; reflexivity|]).
    discriminate.
Qed.

(* ------------------------------------------------------------------ *)
(* 3. parse_token on a printed atom *)
Ltac ifs_false :=
  repeat (lazymatch goal with
          | |- (if ?b then _ else _) = _ =>
              let E := fresh "E" in assert (E : b = false) by cls2; rewrite E; clear E
          end).

Lemma parse_token_word : forall w c r1, wsm w -> mstart (cp c) = true ->
  parse_token (w ++ c :: r1) = parse_ident_like (c :: r1).
Proof.
  intros w c r1 Hw Hc. unfold parse_token; cbv zeta.
  rewrite skip_ws_wsm by (auto; cbn [nf]; cls2). cbv beta iota.
  ifs_false.
  assert (E : is_ident_start (cp c) = true) by cls2.
  rewrite E. reflexivity.
Qed.
Lemma parse_token_digit : forall w c r1, wsm w -> is_digit (cp c) = true ->
  parse_token (w ++ c :: r1) = parse_numeric_token (c :: r1).
Proof.
  intros w c r1 Hw Hc. unfold parse_token; cbv zeta.
  rewrite skip_ws_wsm by (auto; cbn [nf]; cls2). cbv beta iota.
  ifs_false.
  assert (E : is_digit (cp c) = true) by exact Hc.
  rewrite E. reflexivity.
Qed.
Lemma parse_token_quote : forall w r1, wsm w ->
  parse_token (w ++ mk 34 1 :: r1) = string_loop r1 34 [].
Proof.
  intros w r1 Hw. unfold parse_token; cbv zeta.
  rewrite skip_ws_wsm by (auto; reflexivity). reflexivity.
Qed.
Lemma parse_token_punct : forall w x r1, wsm w -> punct_okb x = true ->
  parse_token (w ++ mk x 1 :: r1) = POk (punct_tok x) r1.
Proof.
  intros w x r1 Hw H. unfold punct_okb, puncts in H. cbn [existsb] in H.
  unfold parse_token; cbv zeta.
  repeat (apply orb_prop in H; destruct H as [H|H];
          [apply N.eqb_eq in H; subst x; rewrite skip_ws_wsm by (auto; reflexivity); reflexivity|]).
  discriminate.
Qed.

Lemma string_loop_ok : forall s R acc, forallb str_char s = true ->
  string_loop (of_ascii s ++ mk 34 1 :: R) 34 acc = POk (TString (rev acc ++ of_ascii s)) R.
Proof.
  induction s as [|x s IH]; intros R acc Hs.
  - cbn [of_ascii map app string_loop cp mk]. change (34 =? 34) with true. cbv iota.
    rewrite app_nil_r. reflexivity.
  - cbn [forallb] in Hs. apply andb_prop in Hs; destruct Hs as [Hx Hs]. unfold str_char in Hx.
    change (of_ascii (x :: s) ++ mk 34 1 :: R) with (mk x 1 :: (of_ascii s ++ mk 34 1 :: R)).
    cbn [string_loop cp mk].
    assert (E1 : (x =? 34) = false) by lia. assert (E2 : (x =? 10) = false) by lia.
    assert (E3 : (x =? 92) = false) by lia. rewrite E1, E2, E3.
    rewrite IH by exact Hs. cbn [rev]. rewrite <- app_assoc. reflexivity.
Qed.

Lemma recognize_number_digits : forall d R, d <> [] -> digits_ok d -> nf is_digit R ->
  recognize_number (of_ascii d ++ R) = POk (of_ascii d) R.
Proof.
  intros d R Hne Hd HR. unfold recognize_number, parse_number; cbv zeta.
  assert (Hnf : forall P : N -> bool, (forall y, 48 <= y <= 57 -> P y = false) -> nf P (of_ascii d ++ R))
    by (intros P HP; apply nf_digits; auto).
  rewrite skip_ws_id by (apply Hnf; intros; cls2).
  rewrite (ptag_nf 45) by (apply Hnf; intros; lia).
  rewrite (ptag_nf 43) by (apply Hnf; intros; lia). cbn [palt popt pbind].
  rewrite digit1_digits by (auto). cbn [rev app pmap palt].
  rewrite app_length. replace (length (of_ascii d) + length R - length R)%nat with (length (of_ascii d)) by lia.
  rewrite firstn_app, Nat.sub_diag, firstn_all. cbn [firstn]. rewrite app_nil_r. reflexivity.
Qed.

Lemma atom_token : forall w a R, wsm w -> atom_okb a = true -> follows a R ->
  parse_token (w ++ print_atom a ++ R) = POk (atom_tok a) R.
Proof.
  intros w a R Hw Ha HR.
  destruct a as [n|n|h|d|d u|d|s|x]; cbn [atom_okb print_atom atom_tok follows] in *.
  - (* identifier *)
    destruct HR as [HR1 HR2].
    destruct n as [|y r]; [discriminate|].
    pose proof Ha as Ha'. cbn [word_okb] in Ha'. apply andb_prop in Ha'. destruct Ha' as [Hy _].
    change (of_ascii (y :: r) ++ R) with (mk y 1 :: (of_ascii r ++ R)).
    rewrite parse_token_word by (auto; exact Hy).
    change (mk y 1 :: (of_ascii r ++ R)) with (of_ascii (y :: r) ++ R).
    unfold parse_ident_like. rewrite parse_ident_word by assumption. cbn [pbind].
    rewrite ptag_nf by exact HR2. reflexivity.
  - (* function *)
    destruct n as [|y r]; [discriminate|].
    pose proof Ha as Ha'. cbn [word_okb] in Ha'. apply andb_prop in Ha'. destruct Ha' as [Hy _].
    rewrite <- app_assoc.
    change (of_ascii (y :: r) ++ of_ascii [40] ++ R) with (mk y 1 :: (of_ascii r ++ of_ascii [40] ++ R)).
    rewrite parse_token_word by (auto; exact Hy).
    change (mk y 1 :: (of_ascii r ++ of_ascii [40] ++ R)) with (of_ascii (y :: r) ++ of_ascii [40] ++ R).
    unfold parse_ident_like. rewrite parse_ident_word by (auto; apply nf_lit; reflexivity). cbn [pbind].
    rewrite ptag_lit. reflexivity.
  - (* hash *)
    rewrite <- app_assoc. change (of_ascii [35] ++ of_ascii h ++ R) with (mk 35 1 :: (of_ascii h ++ R)).
    rewrite parse_token_hash by exact Hw.
    rewrite parse_identstring_mixed; [reflexivity|destruct h; [discriminate|discriminate]
                                     |destruct h; [discriminate|exact Ha]|exact HR].
  - (* number *)
    destruct HR as (HR1 & HR2 & HR3).
    destruct (digits_b_ok d Ha) as [Hne Hd].
    destruct d as [|y r]; [congruence|].
    assert (Hy : is_digit y = true) by (inversion Hd; subst; cls2).
    change (of_ascii (y :: r) ++ R) with (mk y 1 :: (of_ascii r ++ R)).
    rewrite parse_token_digit by (auto; exact Hy).
    change (mk y 1 :: (of_ascii r ++ R)) with (of_ascii (y :: r) ++ R).
    unfold parse_numeric_token. rewrite recognize_number_digits by assumption. cbn [pbind].
    rewrite ptag_nf by exact HR2. rewrite HR3. reflexivity.
  - (* dimension *)
    apply andb_prop in Ha; destruct Ha as [Ha Hu].
    destruct (digits_b_ok d Ha) as [Hne Hd].
    destruct d as [|y r]; [congruence|].
    assert (Hy : is_digit y = true) by (inversion Hd; subst; cls2).
    rewrite <- app_assoc.
    change (of_ascii (y :: r) ++ of_ascii u ++ R) with (mk y 1 :: (of_ascii r ++ of_ascii u ++ R)).
    rewrite parse_token_digit by (auto; exact Hy).
    change (mk y 1 :: (of_ascii r ++ of_ascii u ++ R)) with (of_ascii (y :: r) ++ of_ascii u ++ R).
    destruct u as [|z u']; [discriminate|].
    pose proof Hu as Hu'. cbn [word_okb] in Hu'. apply andb_prop in Hu'. destruct Hu' as [Hz _].
    unfold parse_numeric_token.
    rewrite recognize_number_digits; [|congruence|exact Hd|apply nf_lit; cls2]. cbn [pbind].
    rewrite ptag_nf by (apply nf_lit; cls2).
    rewrite parse_ident_word by assumption. reflexivity.
  - (* percentage *)
    destruct (digits_b_ok d Ha) as [Hne Hd].
    destruct d as [|y r]; [congruence|].
    assert (Hy : is_digit y = true) by (inversion Hd; subst; cls2).
    rewrite <- app_assoc.
    change (of_ascii (y :: r) ++ of_ascii [37] ++ R) with (mk y 1 :: (of_ascii r ++ of_ascii [37] ++ R)).
    rewrite parse_token_digit by (auto; exact Hy).
    change (mk y 1 :: (of_ascii r ++ of_ascii [37] ++ R)) with (of_ascii (y :: r) ++ of_ascii [37] ++ R).
    unfold parse_numeric_token.
    rewrite recognize_number_digits; [|congruence|exact Hd|apply nf_lit; reflexivity]. cbn [pbind].
    rewrite ptag_lit. reflexivity.
  - (* string *)
    rewrite <- !app_assoc.
    change (of_ascii [34] ++ of_ascii s ++ of_ascii [34] ++ R) with (mk 34 1 :: (of_ascii s ++ mk 34 1 :: R)).
    rewrite parse_token_quote by exact Hw. rewrite string_loop_ok by exact Ha. reflexivity.
  - (* punctuation *)
    change (of_ascii [x] ++ R) with (mk x 1 :: R). apply parse_token_punct; assumption.
Qed.

(* ------------------------------------------------------------------ *)
(* 4. sequences of atoms, each with optional whitespace / comments in front *)
Definition atoms := list (text * atom).
Definition print_atoms (l : atoms) : text := flat_map (fun wa => fst wa ++ print_atom (snd wa)) l.
Definition atoms_ok (l : atoms) : Prop :=
  Forall (fun wa => wsm (fst wa) /\ atom_okb (snd wa) = true) l.
(* consecutive atoms do not merge into another token *)
Fixpoint achain (l : atoms) : bool :=
  match l with
  | (_, a) :: (((w', a') :: _) as l') => followsb a (negb (isnil w')) (afc a') && achain l'
  | _ => true
  end.
Definition toks_of (l : atoms) : list token := map (fun wa => atom_tok (snd wa)) l.

Lemma print_atoms_cons : forall w a l, print_atoms ((w, a) :: l) = w ++ print_atom a ++ print_atoms l.
Proof. intros; unfold print_atoms; cbn [flat_map fst snd]. rewrite <- app_assoc. reflexivity. Qed.
Lemma print_atoms_app : forall l1 l2, print_atoms (l1 ++ l2) = print_atoms l1 ++ print_atoms l2.
Proof. intros; unfold print_atoms; apply flat_map_app. Qed.
Lemma atoms_ok_app : forall l1 l2, atoms_ok l1 -> atoms_ok l2 -> atoms_ok (l1 ++ l2).
Proof. intros; unfold atoms_ok; apply Forall_app; auto. Qed.

Lemma follows_b : forall a w c r, wsm w -> wsstart (cp c) = false ->
  followsb a (negb (isnil w)) (cp c) = true -> follows a (w ++ c :: r).
Proof.
  intros a w c r Hw Hc Hf.
  assert (Hgen : forall P : N -> bool, (forall x, wsstart x = true -> P x = false) ->
                 (isnil w = true -> P (cp c) = false) -> nf P (w ++ c :: r)).
  { intros P HP Hc'. destruct w as [|c0 w0] eqn:Ew.
    - cbn [app nf]. apply Hc'; reflexivity.
    - rewrite <- Ew in *. apply wsm_nf; [exact Hw|exact HP|left; rewrite Ew; discriminate]. }
  destruct a as [n|n|h|d|d u|d|s|x]; cbn [follows followsb] in *; try exact I.
  - split; apply Hgen; try (intros; cls2);
      intros E; rewrite E in Hf; cbn [negb orb] in Hf; destruct (identcont (cp c)), (cp c =? 40); cbn in *; congruence.
  - apply Hgen; [intros; cls2|].
    intros E; rewrite E in Hf; cbn [negb orb] in Hf; destruct (identcont (cp c)); cbn in *; congruence.
  - apply andb_prop in Hf. destruct Hf as [Hf1 Hf2]. split; [|split].
    + apply Hgen; [intros; cls2|].
      intros E; rewrite E in Hf2; cbn [negb orb] in Hf2; destruct (is_digit (cp c)); cbn in *; congruence.
    + apply Hgen; [intros; cls2|].
      intros E; rewrite E in Hf2; cbn [negb orb] in Hf2. destruct (is_digit (cp c)), (cp c =? 37); cbn in *; congruence.
    + unfold parse_ident; cbv zeta.
      rewrite skip_ws_wsm by (auto; cbn [nf]; exact Hc).
      rewrite ptag_hd by (destruct (cp c =? 45); [rewrite !orb_true_r in Hf1; discriminate|reflexivity]).
      cbn [popt pbind]. rewrite nmstart_fail; [reflexivity|]. cbn [nf]. cls2.
  - apply Hgen; [intros; cls2|].
    intros E; rewrite E in Hf; cbn [negb orb] in Hf; destruct (identcont (cp c)); cbn in *; congruence.
Qed.

Lemma follows_next : forall a w' a' T, wsm w' -> atom_okb a' = true ->
  followsb a (negb (isnil w')) (afc a') = true -> follows a (w' ++ print_atom a' ++ T).
Proof.
  intros a w' a' T Hw Ha Hf. destruct (afc_print a' Ha) as (r & Er). rewrite Er. cbn [app].
  apply follows_b; [exact Hw|apply (afc_class a' Ha)|exact Hf].
Qed.

(* where a declaration value ends: optional whitespace, then `;` or `}` *)
Definition vend (K : text) : Prop :=
  exists w x k, wsm w /\ (x = 59 \/ x = 125) /\ K = w ++ of_ascii [x] ++ k.
Lemma vend_semi : forall w k, wsm w -> vend (w ++ of_ascii [59] ++ k).
Proof. intros w k Hw; exists w, 59, k; auto. Qed.
Lemma vend_close : forall w k, wsm w -> vend (w ++ of_ascii [125] ++ k).
Proof. intros w k Hw; exists w, 125, k; auto. Qed.
Lemma vend_vstop : forall K, vend K -> vstop K.
Proof.
  intros K (w & x & k & Hw & [Hx|Hx] & ->); subst x; [apply vstop_semi|apply vstop_close]; exact Hw.
Qed.
Lemma follows_vend : forall a K, vend K -> follows a K.
Proof.
  intros a K (w & x & k & Hw & Hx & ->). change (of_ascii [x] ++ k) with (mk x 1 :: k).
  apply follows_b; [exact Hw|destruct Hx; subst x; reflexivity|].
  destruct Hx; subst x; destruct a, (isnil w); reflexivity.
Qed.

Lemma print_atom_ne : forall a, atom_okb a = true -> print_atom a <> [].
Proof. intros a Ha. destruct (afc_print a Ha) as (r & Er). rewrite Er. discriminate. Qed.

(* the first token of a sequence; [E] is what follows the whole sequence *)
Lemma atoms_head : forall w a l E, atoms_ok ((w, a) :: l) -> achain ((w, a) :: l) = true ->
  (l = [] -> follows a E) ->
  parse_token (w ++ print_atom a ++ print_atoms l ++ E) = POk (atom_tok a) (print_atoms l ++ E).
Proof.
  intros w a l E Hok Hch HE. inversion Hok as [|wa l0 [Hw Ha] Hl]; subst. cbn [fst snd] in *.
  apply atom_token; [exact Hw|exact Ha|].
  destruct l as [|[w' a'] l'].
  - cbn [print_atoms flat_map app]. apply HE; reflexivity.
  - inversion Hl as [|wa' l0' [Hw' Ha'] Hl']; subst. cbn [fst snd] in *.
    rewrite print_atoms_cons, <- !app_assoc.
    cbn [achain] in Hch. apply andb_prop in Hch. destruct Hch as [Hf _].
    apply follows_next; assumption.
Qed.
Lemma achain_tl : forall wa l, achain (wa :: l) = true -> achain l = true.
Proof.
  intros [w a] [|[w' a'] l] H; [reflexivity|]. cbn [achain] in H. apply andb_prop in H. tauto.
Qed.
Lemma atoms_step_len : forall w a (T : text), atom_okb a = true ->
  (length T < length (w ++ print_atom a ++ T))%nat.
Proof.
  intros w a T Ha. rewrite !app_length. pose proof (print_atom_ne a Ha).
  destruct (print_atom a); [congruence|cbn [length]; lia].
Qed.

(* atoms of declaration values: no `{`, `}` ... *)
Definition vatom (a : atom) : bool :=
  match a with APunct x => negb ((x =? 123) || (x =? 125)) | _ => true end.
(* ... and a `;` only inside parentheses / square brackets, which are closed again at the end of
   the value (the value loop CssParse.value_toks_f counts the bracket depth with [depth_after]:
   `name(`, `(`, `[` open, `)`, `]` close - a stray closer at depth 0 is harmless; a `;` at depth 0
   ends the value, a `;` at a positive depth belongs to it; an opener that is never closed would
   make the loop run on over the following `;`s up to the `}` of the block) *)
Fixpoint vdepth (l : atoms) (d : nat) : bool :=
  match l with
  | [] => Nat.eqb d 0
  | (_, a) :: l' =>
      negb (is_semicolon (atom_tok a) && Nat.eqb d 0) && vdepth l' (depth_after (atom_tok a) d)
  end.
Lemma vatom_tok : forall a, atom_okb a = true -> vatom a = true ->
  is_close_brace (atom_tok a) = false.
Proof.
  intros a Ha Hv. destruct a as [n|n|h|d|d u|d|s|x]; try reflexivity.
  cbn [atom_okb vatom atom_tok] in *. unfold punct_okb, puncts in Ha. cbn [existsb] in Ha.
  repeat (apply orb_prop in Ha; destruct Ha as [Ha|Ha];
          [apply N.eqb_eq in Ha; subst x; first [reflexivity|discriminate]|]).
  discriminate.
Qed.

(* the value loop, started at depth d, returns exactly the atoms' tokens and stops at K *)
Lemma atoms_many : forall l d K, atoms_ok l -> forallb (fun wa => vatom (snd wa)) l = true ->
  vdepth l d = true -> achain l = true -> vend K ->
  ValR d (print_atoms l ++ K) (toks_of l) K.
Proof.
  induction l as [|[w a] l IH]; intros d K Hok Hv Hdp Hch HK.
  - cbn [vdepth] in Hdp. apply Nat.eqb_eq in Hdp. subst d.
    apply VR_nil. apply (vend_vstop K HK).
  - cbn [forallb snd] in Hv. apply andb_prop in Hv. destruct Hv as [Hva Hv].
    cbn [vdepth] in Hdp. apply andb_prop in Hdp. destruct Hdp as [Hsemi Hdp].
    pose proof Hok as Hok'. inversion Hok' as [|wa l0 [Hw Ha] Hl]; subst. cbn [fst snd] in *.
    rewrite print_atoms_cons, <- !app_assoc. cbn [toks_of map snd].
    eapply VR_cons.
    + unfold vstep.
      rewrite (atoms_head w a l K Hok Hch (fun _ => follows_vend a K HK)).
      rewrite (vatom_tok a Ha Hva). cbn [orb].
      destruct (is_semicolon (atom_tok a) && Nat.eqb d 0); [discriminate|reflexivity].
    + apply atoms_step_len, Ha.
    + apply IH; auto. eapply achain_tl, Hch.
Qed.

(* ------------------------------------------------------------------ *)
(* 5. declarations: a name in any letter case, `:`, a value made of atoms.  What the
   declaration means is COMPUTED from the lowercased name and the tokens: a known property
   with a value the model understands, or DUnknown (dropped by styles_from_properties). *)
Record ditem := mkditem {
  di_name : list N;     (* property name as written *)
  di_w1 : text;         (* whitespace before `:` *)
  di_val : atoms        (* the value; the whitespace after `:` is that of the first atom *)
}.
Definition print_ditem (i : ditem) : text :=
  of_ascii (di_name i) ++ di_w1 i ++ of_ascii [58] ++ print_atoms (di_val i).
Definition strip_important (toks : list token) : list token * bool :=
  if ends_important toks then (removelast (removelast toks), true) else (toks, false).
Definition item_decl (i : ditem) : declaration :=
  let v := strip_important (toks_of (di_val i)) in
  mkdecl (decl_of (of_ascii (map lowerN (di_name i))) (fst v)) (snd v).
Definition ditem_ok (i : ditem) : Prop :=
  name_okb (di_name i) = true /\ wsm (di_w1 i) /\ di_val i <> [] /\ atoms_ok (di_val i) /\
  forallb (fun wa => vatom (snd wa)) (di_val i) = true /\ vdepth (di_val i) 0 = true /\
  achain (di_val i) = true.

Lemma name_first : forall (P : N -> bool) n k, name_okb n = true ->
  P 45 = false -> (forall x, mstart x = true -> P x = false) -> nf P (of_ascii n ++ k).
Proof.
  intros P [|x r] k Hn H45 Hm; [discriminate|]. cbn [name_okb] in Hn.
  change (of_ascii (x :: r) ++ k) with (mk x 1 :: (of_ascii r ++ k)). cbn [nf cp mk].
  destruct (N.eqb_spec x 45) as [E|E]; [subst; exact H45|].
  cbn [word_okb] in Hn. apply andb_prop in Hn. apply Hm. tauto.
Qed.
Lemma ditem_first : forall (P : N -> bool) i k, ditem_ok i ->
  P 45 = false -> (forall x, mstart x = true -> P x = false) -> nf P (print_ditem i ++ k).
Proof.
  intros P i k (Hn & _) H45 Hm. unfold print_ditem. rewrite <- !app_assoc. apply name_first; auto.
Qed.

Lemma parse_declaration_item : forall i K, ditem_ok i -> vend K ->
  parse_declaration (print_ditem i ++ K) = POk (item_decl i) K.
Proof.
  intros [n w1 val] K (Hn & Hw1 & Hne & Hok & Hv & Hdp & Hch) HK. cbn [di_name di_w1 di_val] in *.
  unfold parse_declaration, print_ditem, item_decl; cbn [di_name di_w1 di_val]. rewrite <- !app_assoc.
  rewrite parse_ident_name;
    [|exact Hn|apply wsm_nf; [exact Hw1|intros; cls2|right; apply nf_lit; reflexivity]].
  cbn [pbind]. cbv zeta.
  rewrite skip_ws_wsm by (auto; apply nf_lit; reflexivity).
  rewrite ptag_lit. cbn [pbind].
  destruct val as [|[w a] l]; [congruence|].
  inversion Hok as [|wa l0 [Hw Ha] Hl]; subst. cbn [fst snd] in *.
  rewrite print_atoms_cons, <- !app_assoc.
  assert (Hsk : skip_ws (w ++ print_atom a ++ print_atoms l ++ K) = print_atoms (([], a) :: l) ++ K).
  { rewrite print_atoms_cons, <- !app_assoc. cbn [app]. apply skip_ws_wsm; [exact Hw|].
    destruct (afc_print a Ha) as (r & Er). rewrite Er. cbn [app nf cp mk]. apply (afc_class a Ha). }
  rewrite Hsk.
  assert (HM : ValR 0 (print_atoms (([], a) :: l) ++ K) (toks_of ((w, a) :: l)) K).
  { apply (atoms_many (([], a) :: l) 0%nat K); auto.
    constructor; [split; [apply wsm_nil|exact Ha]|exact Hl]. }
  unfold parse_value. rewrite (value_toks_R _ _ _ HM). cbn [pbind]. unfold strip_important.
  destruct (ends_important (toks_of ((w, a) :: l))); reflexivity.
Qed.

(* ------------------------------------------------------------------ *)
(* 6. blocks: declarations separated by one or more `;` (empty declarations), the last one
   followed by any number of `;` (none, one, several) *)
Record entry := mkentry {
  e_item : ditem;
  e_pre : text;            (* whitespace after the value *)
  e_semis : list text      (* one `;` per element, each followed by this whitespace *)
}.
Definition print_semis (l : list text) : text := flat_map (fun w => of_ascii [59] ++ w) l.
Definition print_entry (e : entry) : text :=
  print_ditem (e_item e) ++ e_pre e ++ print_semis (e_semis e).
Definition print_entries (es : list entry) : text := flat_map print_entry es.
Record vblock := mkvblock {
  b_open : text;           (* whitespace after `{` *)
  b_lead : list text;      (* `;`s before the first declaration (or of a block without any) *)
  b_entries : list entry
}.
Definition print_block (b : vblock) : text :=
  b_open b ++ print_semis (b_lead b) ++ print_entries (b_entries b).
Definition entry_ok (e : entry) : Prop :=
  ditem_ok (e_item e) /\ wsm (e_pre e) /\ Forall wsm (e_semis e).
(* every declaration but the last is followed by at least one `;` *)
Fixpoint seps_ok (es : list entry) : Prop :=
  match es with
  | e :: ((_ :: _) as es') => e_semis e <> [] /\ seps_ok es'
  | _ => True
  end.
(* `;`s before the first declaration (empty declarations) are accepted in every block since the
   repair of parse_rules (former finding F-a, section 13) *)
Definition block_ok (b : vblock) : Prop :=
  wsm (b_open b) /\ Forall wsm (b_lead b) /\
  Forall entry_ok (b_entries b) /\ seps_ok (b_entries b).
Definition block_decls (b : vblock) : list declaration :=
  map (fun e => item_decl (e_item e)) (b_entries b).

Lemma print_semis_cons : forall w l, print_semis (w :: l) = of_ascii [59] ++ w ++ print_semis l.
Proof. intros; unfold print_semis; cbn [flat_map]. rewrite <- app_assoc. reflexivity. Qed.
Lemma semis_first' : forall (P : N -> bool) l N, P 59 = false -> nf P N -> nf P (print_semis l ++ N).
Proof.
  intros P [|w l] N H59 HN.
  - exact HN.
  - rewrite print_semis_cons, <- !app_assoc. apply nf_lit, H59.
Qed.
Lemma semis_first : forall (P : N -> bool) l x k, P 59 = false -> P x = false ->
  nf P (print_semis l ++ of_ascii [x] ++ k).
Proof.
  intros P [|w l] x k H59 Hx.
  - cbn [print_semis flat_map app]. apply nf_lit, Hx.
  - rewrite print_semis_cons, <- !app_assoc. apply nf_lit, H59.
Qed.

Lemma semis_item_many : forall l pre N, wsm pre -> Forall wsm l -> l <> [] ->
  nf (fun x => wsstart x || (x =? 59)) N ->
  exists u, ManyR semi_item (pre ++ print_semis l ++ N) (tt :: u) N.
Proof.
  induction l as [|w1 l IH]; intros pre N Hpre Hl Hne HN; [congruence|].
  inversion Hl as [|w0 l0 Hw1 Hl']; subst.
  assert (HN' : nf wsstart N) by (eapply nf_imp; [|exact HN]; intros x Hx; cls).
  rewrite print_semis_cons, <- !app_assoc.
  destruct l as [|w2 l''].
  - exists []. cbn [print_semis flat_map app].
    eapply MR_cons; [apply semi_item_ok; auto| |apply MR_nil, (semi_item_fail [] N wsm_nil HN)].
    rewrite !app_length; cbn [length of_ascii map]; lia.
  - destruct (IH [] N wsm_nil Hl' ltac:(discriminate) HN) as (u & HM). cbn [app] in HM.
    exists (tt :: u).
    eapply MR_cons; [apply semi_item_ok; auto| |exact HM].
    + rewrite print_semis_cons, <- !app_assoc. apply nf_lit; reflexivity.
    + rewrite !app_length; cbn [length of_ascii map]; lia.
Qed.
Lemma semi_sep_many : forall l pre N, wsm pre -> Forall wsm l -> l <> [] ->
  nf (fun x => wsstart x || (x =? 59)) N ->
  exists u, semi_sep (pre ++ print_semis l ++ N) = POk u N.
Proof.
  intros l pre N Hpre Hl Hne HN. destruct (semis_item_many l pre N Hpre Hl Hne HN) as (u & HM).
  exists (tt :: u). unfold semi_sep. apply many1_R, HM.
Qed.

Lemma semis_ws_many : forall l Z, Forall wsm l ->
  exists u, ManyR semi_ws (print_semis l ++ of_ascii [125] ++ Z) u (of_ascii [125] ++ Z).
Proof.
  induction l as [|w l IH]; intros Z Hl.
  - exists []. cbn [print_semis flat_map app]. apply MR_nil. unfold semi_ws.
    rewrite ptag_nf by (apply nf_lit; reflexivity). reflexivity.
  - inversion Hl as [|w0 l0 Hw Hl']; subst. destruct (IH Z Hl') as (u & HM).
    exists (tt :: u). rewrite print_semis_cons, <- !app_assoc.
    eapply MR_cons; [| |exact HM].
    + unfold semi_ws. rewrite ptag_lit. cbn [pbind].
      rewrite skip_ws_wsm; [reflexivity|exact Hw|apply semis_first; reflexivity].
    + rewrite !app_length; cbn [length of_ascii map]; lia.
Qed.

(* the `;`s in front of the first declaration are consumed by the many0 semi_item of parse_rules *)
Lemma lead_semis : forall l N, Forall wsm l -> nf (fun x => wsstart x || (x =? 59)) N ->
  exists u, many0 semi_item (print_semis l ++ N) = POk u N.
Proof.
  intros [|w l] N Hl HN.
  - exists []. apply many0_semi_item_none, HN.
  - destruct (semis_item_many (w :: l) [] N wsm_nil Hl ltac:(discriminate) HN) as (u & HM).
    exists (tt :: u). apply many0_R, HM.
Qed.

Section Block.
  Variable Z : text.
  Let C : text := of_ascii [125] ++ Z.

  (* the text after the item of entry e, when es follow *)
  Let after (e : entry) (es : list entry) : text :=
    e_pre e ++ print_semis (e_semis e) ++ print_entries es ++ C.

  Lemma vend_after : forall e es, entry_ok e -> seps_ok (e :: es) -> vend (after e es).
  Proof.
    intros e es (_ & Hpre & Hs) Hsep. unfold after.
    destruct (e_semis e) as [|w l] eqn:El.
    - destruct es as [|e2 es']; [|cbn [seps_ok] in Hsep; rewrite El in Hsep; tauto].
      cbn [print_semis print_entries flat_map app]. apply vend_close, Hpre.
    - rewrite print_semis_cons, <- !app_assoc. apply vend_semi, Hpre.
  Qed.

  Lemma entries_tail : forall es e, Forall entry_ok (e :: es) -> seps_ok (e :: es) ->
    exists pre' semis', wsm pre' /\ Forall wsm semis' /\
      SepR semi_sep parse_declaration (after e es)
           (map (fun e' => item_decl (e_item e')) es) (pre' ++ print_semis semis' ++ C).
  Proof.
    induction es as [|e2 es IH]; intros e Hok Hsep.
    - inversion Hok as [|e0 l0 He _]; subst. destruct He as (Hi & Hpre & Hs).
      exists (e_pre e), (e_semis e). split; [exact Hpre|split; [exact Hs|]].
      unfold after. cbn [print_entries flat_map app map].
      destruct (e_semis e) as [|w l] eqn:El.
      + cbn [print_semis flat_map app]. apply SR_nil. unfold semi_sep. apply many1_fail.
        apply semi_item_fail; [exact Hpre|apply nf_lit; reflexivity].
      + destruct (semi_sep_many (w :: l) (e_pre e) C Hpre Hs ltac:(discriminate)
                    ltac:(apply nf_lit; reflexivity)) as (u & Hu).
        eapply SR_stop; [exact Hu| |].
        * rewrite print_semis_cons, !app_length; cbn [length of_ascii map]; lia.
        * unfold parse_declaration. rewrite parse_ident_fail by (apply nf_lit; reflexivity). reflexivity.
    - inversion Hok as [|e0 l0 He Hok']; subst. destruct He as (Hi & Hpre & Hs).
      pose proof Hsep as Hsep'. cbn [seps_ok] in Hsep'. destruct Hsep' as [Hne Hsep2].
      destruct (IH e2 Hok' Hsep2) as (pre' & semis' & Hp' & Hs' & HS).
      exists pre', semis'. split; [exact Hp'|split; [exact Hs'|]].
      inversion Hok' as [|e0 l0 He2 _]; subst.
      unfold after. cbn [print_entries flat_map map]. fold (print_entries es).
      unfold print_entry at 1. rewrite <- !app_assoc.
      fold (after e2 es).
      destruct (semi_sep_many (e_semis e) (e_pre e) (print_ditem (e_item e2) ++ after e2 es) Hpre Hs Hne
                  ltac:(apply ditem_first; [apply He2|reflexivity|intros; cls2])) as (u & Hu).
      eapply SR_cons; [exact Hu| | | |exact HS].
      + destruct (e_semis e) as [|w l]; [congruence|].
        rewrite print_semis_cons, !app_length; cbn [length of_ascii map]; lia.
      + apply parse_declaration_item; [apply He2|apply vend_after; assumption].
      + rewrite app_length; lia.
  Qed.

  Lemma block_parse : forall b, block_ok b ->
    exists Kend u, parse_rules (skip_ws (print_block b ++ C)) = POk (block_decls b) Kend /\
                   many0 semi_ws (skip_ws Kend) = POk u C.
  Proof.
    intros [op lead es] (Hop & Hlead & Hes & Hsep). cbn [b_open b_lead b_entries] in *.
    unfold print_block, block_decls; cbn [b_open b_lead b_entries].
    destruct es as [|e es].
    - cbn [print_entries flat_map map]. rewrite app_nil_r, <- app_assoc.
      rewrite skip_ws_wsm by (auto; apply semis_first; reflexivity).
      assert (HC : nf (fun x => wsstart x || (x =? 59)) C) by (apply nf_lit; reflexivity).
      destruct (lead_semis lead C Hlead HC) as (u0 & Hu0).
      exists C, []. split.
      + unfold parse_rules. rewrite Hu0. cbn [pbind]. apply separated_list0_nil. unfold parse_declaration.
        rewrite parse_ident_fail by (apply nf_lit; reflexivity). reflexivity.
      + rewrite skip_ws_id by (apply nf_lit; reflexivity). apply many0_semi_ws_none.
    - inversion Hes as [|e0 l0 He _]; subst.
      cbn [print_entries flat_map]. fold (print_entries es). unfold print_entry at 1. rewrite <- !app_assoc.
      fold (after e es).
      assert (HD : nf (fun x => wsstart x || (x =? 59)) (print_ditem (e_item e) ++ after e es))
        by (apply ditem_first; [apply He|reflexivity|intros; cls2]).
      rewrite skip_ws_wsm
        by first [assumption
                 |apply semis_first'; [reflexivity|eapply nf_imp; [|exact HD]; intros x Hx; cls]].
      destruct (lead_semis lead _ Hlead HD) as (u0 & Hu0).
      destruct (entries_tail es e Hes Hsep) as (pre' & semis' & Hp' & Hs' & HS).
      exists (pre' ++ print_semis semis' ++ C). destruct (semis_ws_many semis' Z Hs') as (u & HM). exists u. split.
      + unfold parse_rules. rewrite Hu0. cbn [pbind map]. eapply separated_list0_R; [|exact HS].
        apply parse_declaration_item; [apply He|apply vend_after; assumption].
      + rewrite skip_ws_wsm by (auto; apply semis_first; reflexivity). apply many0_R, HM.
  Qed.
End Block.

(* ------------------------------------------------------------------ *)
(* 7. rule sets: the selector list with the whitespace positions of CssRoundTrip.wsp2 (only the
   selector-related fields, w_sel and w_end of [v_ws] are used), then a variant block *)
Record vrule := mkvrule { v_ws : wsp2; v_sels : list selector; v_block : vblock }.
Definition print_vrule (v : vrule) : text :=
  print_sels_ws2 (v_ws v) (v_sels v) ++ w_sel (w_base (v_ws v)) ++ of_ascii [123] ++
  print_block (v_block v) ++ of_ascii [125] ++ w_end (w_base (v_ws v)).
(* what the parser returns: every declaration as written, unknown ones included *)
Definition vrule_raw (v : vrule) : cssruleset := mkcrs (v_sels v) (block_decls (v_block v)).
Definition vrule_ok (v : vrule) : Prop :=
  wsp2_ok (v_ws v) /\ v_sels v <> [] /\ forallb wf_selector (v_sels v) = true /\ block_ok (v_block v).

Lemma print_vrule_first : forall (P : N -> bool) v k, vrule_ok v ->
  (forall x, selstart x = true -> P x = false) -> nf P (print_vrule v ++ k).
Proof.
  intros P [p ss b] k (_ & Hne & Hss & _) HP. cbn [v_ws v_sels v_block] in *.
  destruct ss as [|s ss]; [congruence|].
  cbn [forallb] in Hss. apply andb_prop in Hss; destruct Hss as [Hs _].
  unfold print_vrule; cbn [v_ws v_sels v_block print_sels_ws2]. rewrite <- !app_assoc.
  apply sel_first; auto.
Qed.

Theorem parse_vrule : forall v rest, vrule_ok v ->
  parse_ruleset (print_vrule v ++ rest) = POk (vrule_raw v) (skip_ws (w_end (w_base (v_ws v)) ++ rest)).
Proof.
  intros v rest Hv. pose proof Hv as (Hp & Hne & Hss & Hb).
  destruct v as [p ss b]. cbn [v_ws v_sels v_block] in *.
  pose proof Hp as (Hbase & _ & _). set (bs := w_base p) in *.
  assert (Hstart : nf wsstart (print_vrule (mkvrule p ss b) ++ rest))
    by (apply print_vrule_first; [exact Hv|intros x Hx; unfold selstart in Hx; cls]).
  unfold parse_ruleset. cbv zeta. rewrite (skip_ws_id _ Hstart).
  unfold print_vrule, vrule_raw; cbn [v_ws v_sels v_block]. fold bs. rewrite <- !app_assoc.
  destruct (sels_ok p Hp (print_block b ++ of_ascii [125] ++ w_end bs ++ rest) ss Hne Hss)
    as (r1 & Hsel & Hr1). fold bs in Hsel.
  rewrite Hsel. cbn [pbind]. rewrite Hr1. rewrite ptag_lit. cbn [pbind].
  destruct (block_parse (w_end bs ++ rest) b Hb) as (Kend & u & Hrules & Hmany).
  rewrite Hrules. cbn [pbind]. rewrite Hmany. cbn [pbind].
  rewrite skip_ws_id by (apply nf_lit; reflexivity). rewrite ptag_lit. reflexivity.
Qed.

(* ------------------------------------------------------------------ *)
(* 8. junk statements: texts that parse_statement skips as a whole, whatever comes after *)
Definition junk_ok (j : text) : Prop :=
  (exists c r, j = c :: r /\ wsstart (cp c) = false) /\
  forall w rest, wsm w -> parse_statement (w ++ j ++ rest) = POk None rest.

(* skip_to_end_of_statement on tokens: Some l = the statement ends (with a `;` outside brackets
   or with the `}` that closes its outermost `{`) and l are the tokens after it *)
Fixpoint skip_sim (toks : list token) (stack : list N) : option (list token) :=
  match toks with
  | [] => None
  | tok :: toks' =>
    match tok with
    | TFunction _ | TOpenRound => skip_sim toks' (0 :: stack)
    | TCDO => skip_sim toks' (1 :: stack)
    | TOpenSquare => skip_sim toks' (2 :: stack)
    | TOpenBrace => skip_sim toks' (3 :: stack)
    | TSemicolon => match stack with [] => Some toks' | _ => skip_sim toks' stack end
    | TCDC | TCloseSquare | TCloseRound | TCloseBrace =>
      match stack, closer_kind tok with
      | top_ :: stack', Some k =>
        if top_ =? k then
          if (k =? 3) && match stack' with [] => true | _ => false end
          then Some toks'
          else skip_sim toks' stack'
        else None
      | _, _ => None
      end
    | _ => skip_sim toks' stack
    end
  end.
(* the atoms form exactly one statement: brackets balanced, ended by `;` or by the closing `}` *)
Definition complete (l : atoms) : Prop := skip_sim (toks_of l) [] = Some [].

Lemma toks_of_nil : forall l, toks_of l = [] -> l = [].
Proof. intros [|x l] H; [reflexivity|discriminate]. Qed.

Lemma skip_stmt_atoms : forall l stack rest fuel, atoms_ok l -> achain l = true ->
  skip_sim (toks_of l) stack = Some [] -> (length l < fuel)%nat ->
  skip_stmt fuel (print_atoms l ++ rest) stack = POk tt rest.
Proof.
  induction l as [|[w a] l IH]; intros stack rest fuel Hok Hch Hs Hf; [discriminate|].
  destruct fuel as [|f]; [lia|]. cbn [length] in Hf.
  pose proof Hok as Hok'. inversion Hok' as [|wa l0 [Hw Ha] Hl]; subst. cbn [fst snd] in *.
  pose proof (achain_tl _ _ Hch) as Hch'.
  assert (HE : l = [] -> follows a rest).
  { intros ->. destruct a; try exact I; discriminate. }
  rewrite print_atoms_cons, <- !app_assoc. cbn [skip_stmt].
  rewrite (atoms_head w a l rest Hok Hch HE).
  change (toks_of ((w, a) :: l)) with (atom_tok a :: toks_of l) in Hs.
  assert (Hrec : forall st, skip_sim (toks_of l) st = Some [] ->
                 skip_stmt f (print_atoms l ++ rest) st = POk tt rest)
    by (intros st Hst; apply IH; auto; lia).
  assert (Hend : Some (toks_of l) = Some [] -> print_atoms l ++ rest = rest).
  { intros E. injection E as E. apply toks_of_nil in E. subst l. reflexivity. }
  destruct (atom_tok a) eqn:Et; cbn [skip_sim closer_kind] in Hs; cbn [closer_kind];
    try (apply Hrec; exact Hs).
  - (* --> *) destruct stack as [|top_ stack']; [discriminate|].
    destruct (top_ =? 1); [|discriminate]. change (1 =? 3) with false in *. cbn [andb] in *.
    apply Hrec; exact Hs.
  - (* ; *) destruct stack as [|top_ stack']; [rewrite (Hend Hs); reflexivity|apply Hrec; exact Hs].
  - (* ] *) destruct stack as [|top_ stack']; [discriminate|].
    destruct (top_ =? 2); [|discriminate]. change (2 =? 3) with false in *. cbn [andb] in *.
    apply Hrec; exact Hs.
  - (* ) *) destruct stack as [|top_ stack']; [discriminate|].
    destruct (top_ =? 0); [|discriminate]. change (0 =? 3) with false in *. cbn [andb] in *.
    apply Hrec; exact Hs.
  - (* } *) destruct stack as [|top_ stack']; [discriminate|].
    destruct (top_ =? 3); [|discriminate]. change (3 =? 3) with true in *. cbn [andb] in *.
    destruct stack' as [|t2 st2]; [rewrite (Hend Hs); reflexivity|apply Hrec; exact Hs].
Qed.

Lemma print_atoms_len : forall l, atoms_ok l -> (length l <= length (print_atoms l))%nat.
Proof.
  induction l as [|[w a] l IH]; intros Hok; [cbn; lia|].
  inversion Hok as [|wa l0 [Hw Ha] Hl]; subst. cbn [fst snd] in *.
  rewrite print_atoms_cons, !app_length. pose proof (print_atom_ne a Ha). specialize (IH Hl).
  destruct (print_atom a); [congruence|cbn [length]; lia].
Qed.
Lemma skip_to_end_atoms : forall l rest, atoms_ok l -> achain l = true -> complete l ->
  skip_to_end_of_statement (print_atoms l ++ rest) = POk tt rest.
Proof.
  intros l rest Hok Hch Hc. unfold skip_to_end_of_statement. apply skip_stmt_atoms; auto.
  rewrite app_length. pose proof (print_atoms_len l Hok). lia.
Qed.

(* ---- why parse_ruleset fails on a junk statement ---- *)
Lemma parse_ruleset_ws : forall w X, wsm w -> nf wsstart X -> parse_ruleset (w ++ X) = parse_ruleset X.
Proof.
  intros w X Hw HX. unfold parse_ruleset. cbv zeta. rewrite skip_ws_wsm by assumption.
  rewrite (skip_ws_id X HX). reflexivity.
Qed.
Lemma parse_selector_fail : forall t, nf selcont t -> parse_selector t = PFail.
Proof.
  intros t H. unfold parse_selector, parse_selector_with_element, parse_selector_without_element.
  rewrite parse_ident_fail by (eapply nf_imp; [|exact H]; intros x Hx; unfold selcont in Hx; cls).
  cbn [pbind palt]. rewrite many1_fail by (apply comp_fail_stop, H). reflexivity.
Qed.
(* a text that starts with a character no selector starts with, other than `{` *)
Lemma parse_ruleset_fail_start : forall t, nf selcont t -> nf (fun x => x =? 123) t ->
  parse_ruleset t = PFail.
Proof.
  intros t H1 H2. unfold parse_ruleset. cbv zeta.
  assert (Hw : nf wsstart t) by (eapply nf_imp; [|exact H1]; intros x Hx; unfold selcont in Hx; cls).
  rewrite (skip_ws_id t Hw).
  rewrite separated_list0_nil by (apply parse_selector_fail, H1). cbn [pbind].
  rewrite (skip_ws_id t Hw). rewrite ptag_nf by exact H2. reflexivity.
Qed.

(* ---- family A: at-rules.  `@name` then atoms that form one statement: ended by a `;` outside
   all brackets (`@import "x" screen;`) or by a `{`..`}` block with balanced contents
   (`@media (min-width: 100px) { p { color: red } }`, `@font-face { ... }`) ---- *)
Definition at_follow (l : atoms) : bool :=
  match l with (w, a) :: _ => negb (isnil w) || negb (identcont (afc a)) | [] => false end.
Definition print_at (nm : list N) (l : atoms) : text :=
  of_ascii [64] ++ of_ascii nm ++ print_atoms l.

Theorem junk_at_rule : forall nm l, name_okb nm = true -> atoms_ok l -> achain l = true ->
  complete l -> at_follow l = true -> junk_ok (print_at nm l).
Proof.
  intros nm l Hnm Hok Hch Hc Haf. split; [exists (mk 64 1); eexists; split; reflexivity|].
  intros w rest Hw. unfold print_at. rewrite <- !app_assoc.
  assert (Hid : nf identcont (print_atoms l ++ rest)).
  { destruct l as [|[w1 a1] l']; [discriminate|]. cbn [at_follow] in Haf.
    inversion Hok as [|wa l0 [Hw1 Ha1] Hl]; subst. cbn [fst snd] in *.
    rewrite print_atoms_cons, <- !app_assoc.
    apply (follows_next (AHash []) w1 a1 _ Hw1 Ha1). exact Haf. }
  unfold parse_statement.
  rewrite parse_ruleset_ws by (auto; apply nf_lit; reflexivity).
  rewrite parse_ruleset_fail_start by (apply nf_lit; reflexivity). cbn [pmap palt].
  unfold parse_at_rule. rewrite skip_ws_wsm by (auto; apply nf_lit; reflexivity).
  rewrite ptag_lit. cbn [pbind].
  rewrite skip_ws_id by (apply name_first; [exact Hnm|reflexivity|intros; cls2]).
  rewrite parse_ident_name by assumption. cbn [pbind].
  rewrite skip_to_end_atoms by assumption. reflexivity.
Qed.

(* ---- family B: unparsable rule sets.  Atoms that form one statement, do not start with `@`,
   and on which parse_ruleset fails ---- *)
Definition ruleset_fails (j : text) : Prop := forall rest, parse_ruleset (j ++ rest) = PFail.

Theorem junk_unparsable : forall a l, atoms_ok (([], a) :: l) -> achain (([], a) :: l) = true ->
  complete (([], a) :: l) -> ruleset_fails (print_atoms (([], a) :: l)) ->
  junk_ok (print_atoms (([], a) :: l)).
Proof.
  intros a l Hok Hch Hc Hfail.
  inversion Hok as [|wa l0 [_ Ha] Hl]; subst. cbn [fst snd] in *.
  destruct (afc_print a Ha) as (r & Er). destruct (afc_class a Ha) as [Hws H64].
  assert (Hfirst : forall (P : N -> bool) T, P (afc a) = false -> nf P (print_atoms (([], a) :: l) ++ T)).
  { intros P T HP. rewrite print_atoms_cons. cbn [app]. rewrite Er. cbn [app nf cp mk]. exact HP. }
  split.
  - rewrite print_atoms_cons. cbn [app]. rewrite Er. cbn [app]. exists (mk (afc a) 1). eexists. split; [reflexivity|exact Hws].
  - intros w rest Hw. unfold parse_statement.
    rewrite parse_ruleset_ws by (auto; apply Hfirst; exact Hws).
    rewrite Hfail. cbn [pmap palt].
    unfold parse_at_rule. rewrite skip_ws_wsm by (auto; apply Hfirst; exact Hws).
    rewrite ptag_nf by (apply Hfirst; exact H64). cbn [pbind pmap palt].
    unfold skip_unparsable_ruleset.
    assert (E : w ++ print_atoms (([], a) :: l) ++ rest = print_atoms ((w, a) :: l) ++ rest).
    { rewrite !print_atoms_cons, <- !app_assoc. reflexivity. }
    rewrite E. rewrite skip_to_end_atoms.
    + cbn [pbind]. rewrite print_atoms_cons, <- !app_assoc.
      pose proof (atoms_step_len w a (print_atoms l ++ rest) Ha) as Hlen.
      assert (Hlen2 : (length rest <= length (print_atoms l ++ rest))%nat) by (rewrite app_length; lia).
      destruct (Nat.eqb_spec (length rest) (length (w ++ print_atom a ++ print_atoms l ++ rest))) as [E2|E2];
        [lia|reflexivity].
    + constructor; [split; [exact Hw|exact Ha]|exact Hl].
    + exact Hch.
    + exact Hc.
Qed.

(* a one-element selector `n` followed by a text T that no selector continues with *)
Lemma parse_selector_elem : forall n T, word_okb n = true -> nf identcont T ->
  parse_simple_selector_component T = PFail -> parse_pseudo_element T = (None, T) ->
  parse_selector (of_ascii n ++ T) = POk (mksel [CElement (of_ascii (map lowerN n))] None) T.
Proof.
  intros n T Hn HT Hc Hpe. unfold parse_selector, parse_selector_with_element.
  rewrite parse_ident_word by assumption. cbn [pbind].
  rewrite (many0_R _ _ _ _ _ (MR_nil _ _ Hc)). cbn [pbind palt]. cbv zeta.
  assert (E : forall x, pop_desc (rev (pop_desc [CElement x])) = [CElement x]) by reflexivity.
  rewrite E, Hpe. reflexivity.
Qed.
Lemma ruleset_fails_elem : forall n T, word_okb n = true -> nf identcont T ->
  parse_simple_selector_component T = PFail -> parse_pseudo_element T = (None, T) ->
  nf (fun x => wsstart x || (x =? 44) || (x =? 123)) T ->
  parse_ruleset (of_ascii n ++ T) = PFail.
Proof.
  intros n T Hn HT Hc Hpe Hstop. unfold parse_ruleset. cbv zeta.
  destruct n as [|y r] eqn:En; [discriminate|]. rewrite <- En in *.
  assert (Hy : mstart y = true) by (rewrite En in Hn; cbn [word_okb] in Hn; apply andb_prop in Hn; tauto).
  rewrite skip_ws_id by (rewrite En; cbn [of_ascii map app nf cp mk]; cls2).
  rewrite (separated_list0_R _ _ comma_sep parse_selector _ _ T [] T
             (parse_selector_elem n T Hn HT Hc Hpe)).
  - cbn [pbind]. rewrite skip_ws_id by (eapply nf_imp; [|exact Hstop]; intros x Hx; cls).
    rewrite ptag_nf by (eapply nf_imp; [|exact Hstop]; intros x Hx; cls). reflexivity.
  - apply SR_nil. apply (comma_sep_fail [] T wsm_nil).
    eapply nf_imp; [|exact Hstop]. intros x Hx; cls.
Qed.

(* B1: `n:m ... { ... }` with a pseudo-class other than nth-child (`a:hover { }`, `p:first-child`) *)
Lemma comp_fail_pseudo : forall m T, word_okb m = true -> nf identcont T ->
  lN_eqb (map lowerN m) s_nth_child = false ->
  parse_simple_selector_component (of_ascii [58] ++ of_ascii m ++ T) = PFail.
Proof.
  intros m T Hm HT Hne.
  rewrite comp_simple by (apply nf_lit; reflexivity).
  rewrite (ptag_nf 42) by (apply nf_lit; reflexivity). cbn [pbind palt].
  unfold parse_class. rewrite (ptag_nf 46) by (apply nf_lit; reflexivity). cbn [pbind palt].
  unfold parse_hash. rewrite (ptag_nf 35) by (apply nf_lit; reflexivity). cbn [pbind palt].
  rewrite parse_ident_fail by (apply nf_lit; reflexivity). cbn [pmap palt].
  unfold parse_pseudo_class. rewrite ptag_lit. cbn [pbind].
  rewrite parse_ident_word by assumption. cbn [pbind].
  unfold is_ascii_str. rewrite cps_of_ascii, Hne. reflexivity.
Qed.
Theorem fails_pseudo_class : forall n m l, l <> [] ->
  atoms_ok (([], AIdent n) :: ([], APunct 58) :: ([], AIdent m) :: l) ->
  achain (([], AIdent n) :: ([], APunct 58) :: ([], AIdent m) :: l) = true ->
  lN_eqb (map lowerN m) s_nth_child = false ->
  ruleset_fails (print_atoms (([], AIdent n) :: ([], APunct 58) :: ([], AIdent m) :: l)).
Proof.
  intros n m l Hne Hok Hch Hnth rest.
  inversion Hok as [|x0 l0 [_ Hn] Hok1]; subst. inversion Hok1 as [|x1 l1 _ Hok2]; subst.
  inversion Hok2 as [|x2 l2 [_ Hm] Hl]; subst. cbn [fst snd atom_okb] in *.
  rewrite !print_atoms_cons. cbn [app print_atom]. rewrite <- !app_assoc.
  assert (HT : nf identcont (print_atoms l ++ rest)).
  { destruct l as [|[w' a'] l']; [congruence|].
    inversion Hl as [|x3 l3 [Hw' Ha'] _]; subst. cbn [fst snd] in *.
    rewrite print_atoms_cons, <- !app_assoc.
    apply (follows_next (AIdent m) w' a' _ Hw' Ha').
    cbn [achain] in Hch. repeat (apply andb_prop in Hch; destruct Hch as [? Hch]). assumption. }
  destruct m as [|y r] eqn:Em; [discriminate|]. rewrite <- Em in *.
  assert (Hy : mstart y = true) by (rewrite Em in Hm; cbn [word_okb] in Hm; apply andb_prop in Hm; tauto).
  apply ruleset_fails_elem.
  - exact Hn.
  - apply nf_lit; reflexivity.
  - apply comp_fail_pseudo; assumption.
  - rewrite Em. unfold parse_pseudo_element, starts_with.
    change (of_ascii [58] ++ of_ascii (y :: r) ++ print_atoms l ++ rest)
      with (mk 58 1 :: mk y 1 :: (of_ascii r ++ print_atoms l ++ rest)).
    cbn [ptag cp mk]. change (58 =? 58) with true. cbv iota.
    assert (E : (y =? 58) = false) by cls2. rewrite E. reflexivity.
  - apply nf_lit; reflexivity.
Qed.

(* B2: `n` directly followed by an atom that neither continues a selector nor is `,` or `{`:
   attribute selectors `p[x=y] { }`, and `a(`, `a=`, `a$` ... *)
Theorem fails_after_elem : forall n a2 l,
  atoms_ok (([], AIdent n) :: ([], a2) :: l) ->
  selcont (afc a2) = false -> (afc a2 =? 44) = false -> (afc a2 =? 123) = false ->
  ruleset_fails (print_atoms (([], AIdent n) :: ([], a2) :: l)).
Proof.
  intros n a2 l Hok Hsc H44 H123 rest.
  inversion Hok as [|x0 l0 [_ Hn] Hok1]; subst. inversion Hok1 as [|x1 l1 [_ Ha2] Hl]; subst.
  cbn [fst snd atom_okb] in *.
  rewrite !print_atoms_cons. cbn [app print_atom]. rewrite <- !app_assoc.
  destruct (afc_print a2 Ha2) as (r & Er). rewrite Er. cbn [app].
  assert (Hnf : forall P : N -> bool, P (afc a2) = false -> nf P (mk (afc a2) 1 :: (r ++ print_atoms l ++ rest)))
    by (intros P HP; exact HP).
  apply ruleset_fails_elem.
  - exact Hn.
  - apply Hnf. unfold selcont in Hsc. cls.
  - apply comp_fail_stop, Hnf, Hsc.
  - apply pseudo_elem_none, Hnf. unfold selcont in Hsc. cls.
  - apply Hnf. unfold selcont in Hsc. cls.
Qed.

(* ------------------------------------------------------------------ *)
(* 9. style sheets: variant rule sets and junk statements in any order *)
Inductive vstmt :=
| VRule (v : vrule)
| VJunk (j : text) (w : text).       (* a junk statement and the whitespace after it *)
Definition print_vstmt (s : vstmt) : text :=
  match s with VRule v => print_vrule v | VJunk j w => j ++ w end.
Definition print_vsheet (ss : list vstmt) : text := flat_map print_vstmt ss.
Definition vstmt_ok (s : vstmt) : Prop :=
  match s with VRule v => vrule_ok v | VJunk j w => junk_ok j /\ wsm w end.
Definition vsheet_ok (ss : list vstmt) : Prop := Forall vstmt_ok ss.
Definition vstmt_item (s : vstmt) : option cssruleset :=
  match s with VRule v => Some (vrule_raw v) | VJunk _ _ => None end.
(* the rule sets of the sheet, every declaration as written (unknown ones included) *)
Definition vsheet_raw (ss : list vstmt) : list cssruleset :=
  flat_map (fun s => match s with VRule v => [vrule_raw v] | VJunk _ _ => [] end) ss.

Lemma parse_statement_ws : forall w, wsm w -> parse_statement w = PFail.
Proof.
  intros w Hw.
  assert (E : skip_ws w = []) by (rewrite <- (app_nil_r w) at 1; apply skip_ws_wsm; [exact Hw|exact I]).
  assert (Et : parse_token w = PFail) by (unfold parse_token; cbv zeta; rewrite E; reflexivity).
  assert (R : parse_ruleset w = PFail).
  { unfold parse_ruleset; cbv zeta. rewrite E.
    rewrite separated_list0_nil by (apply parse_selector_fail; exact I).
    cbn [pbind]. rewrite skip_ws_nil. reflexivity. }
  assert (A : parse_at_rule w = PFail) by (unfold parse_at_rule; rewrite E; reflexivity).
  unfold parse_statement. rewrite R, A. cbn [pmap palt].
  unfold skip_unparsable_ruleset, skip_to_end_of_statement. cbn [skip_stmt]. rewrite Et. cbn [pbind].
  rewrite Nat.eqb_refl. reflexivity.
Qed.

Lemma vsheet_many : forall ss, vsheet_ok ss ->
  nf wsstart (print_vsheet ss) /\
  forall w, wsm w -> exists rest, wsm rest /\
    ManyR parse_statement (w ++ print_vsheet ss) (map vstmt_item ss) rest.
Proof.
  induction ss as [|s ss IH]; intros Hok.
  - split; [exact I|]. intros w Hw. exists w. split; [exact Hw|].
    cbn [print_vsheet flat_map map]. rewrite app_nil_r. apply MR_nil, parse_statement_ws, Hw.
  - inversion Hok as [|s0 ss0 Hs Hok']; subst. destruct (IH Hok') as [Hnf Hmany].
    unfold print_vsheet; cbn [flat_map map]. fold (print_vsheet ss).
    destruct s as [v|j wj]; cbn [vstmt_ok print_vstmt vstmt_item] in *.
    + assert (Hfirst : nf wsstart (print_vrule v ++ print_vsheet ss))
        by (apply print_vrule_first; [exact Hs|intros x Hx; unfold selstart in Hx; cls]).
      split; [exact Hfirst|]. intros w Hw.
      destruct (Hmany [] wsm_nil) as (rest & Hrest & HM). cbn [app] in HM.
      exists rest. split; [exact Hrest|].
      pose proof Hs as ((( _ & _ & _ & _ & _ & _ & _ & _ & _ & Hend) & _ & _) & _).
      eapply MR_cons; [| |exact HM].
      * unfold parse_statement. rewrite parse_ruleset_ws by assumption.
        rewrite (parse_vrule v _ Hs). cbn [pmap palt].
        rewrite skip_ws_wsm by assumption. reflexivity.
      * rewrite !app_length.
        assert (0 < length (print_vrule v))%nat; [|lia].
        destruct (print_vrule v) eqn:E; [|cbn; lia]. exfalso.
        destruct Hs as (_ & Hne & Hss & _). unfold print_vrule in E.
        destruct (v_sels v) as [|s1 ss1]; [congruence|].
        cbn [forallb] in Hss. apply andb_prop in Hss. destruct Hss as [Hs1 _].
        cbn [print_sels_ws2] in E. rewrite <- !app_assoc in E.
        apply (print_selector_ne (w_nth (v_ws v)) s1 Hs1).
        destruct (print_selector_q (w_nth (v_ws v)) s1); [reflexivity|discriminate].
    + destruct Hs as [[(c & r & Ej & Hc) Hj] Hwj].
      split; [rewrite Ej; cbn [app nf]; exact Hc|]. intros w Hw.
      destruct (Hmany wj Hwj) as (rest & Hrest & HM).
      exists rest. split; [exact Hrest|].
      rewrite <- !app_assoc.
      eapply MR_cons; [apply Hj, Hw| |exact HM].
      rewrite Ej, !app_length. cbn [length]. lia.
Qed.

(* MAIN THEOREM (parser level): a sheet written with any mixture of the variant classes parses
   to its rule sets; junk statements leave nothing behind; only whitespace remains *)
Theorem variant_sheet_rt : forall lead ss, wsm lead -> vsheet_ok ss ->
  exists rest, wsm rest /\ parse_stylesheet (lead ++ print_vsheet ss) = POk (vsheet_raw ss) rest.
Proof.
  intros lead ss Hlead Hok. destruct (vsheet_many ss Hok) as [_ Hmany].
  destruct (Hmany lead Hlead) as (rest & Hrest & HM). exists rest. split; [exact Hrest|].
  unfold parse_stylesheet. rewrite (many0_R _ _ _ _ _ HM). cbn [pbind]. f_equal.
  clear. induction ss as [|[v|j w] ss IH]; cbn [map flat_map vstmt_item vsheet_raw app]; [reflexivity| |];
    unfold vsheet_raw in IH; rewrite IH; reflexivity.
Qed.

(* ------------------------------------------------------------------ *)
(* 10. the level of rules: unknown declarations disappear *)
Definition is_unknown (d : declaration) : bool :=
  match d_data d with DUnknown => true | _ => false end.
Definition clean_rs (r : cssruleset) : cssruleset :=
  mkcrs (crs_selectors r) (filter (fun d => negb (is_unknown d)) (crs_decls r)).
(* do_add_css on parsed rule sets (the body of CssParse.parse_css_rules) *)
Definition rules_of (ss : list cssruleset) : list ruleset :=
  flat_map (fun r =>
              let styles := styles_from_properties (crs_decls r) in
              match styles with
              | [] => []
              | _ => map (fun sel => mkrs sel styles) (crs_selectors r)
              end) ss.
Lemma parse_css_rules_of : forall css ss rest, parse_stylesheet css = POk ss rest ->
  parse_css_rules css = CssOk (rules_of ss).
Proof. intros css ss rest H. unfold parse_css_rules. rewrite H. reflexivity. Qed.

Lemma styles_loop_clean : forall ds acc o h,
  styles_loop (filter (fun d => negb (is_unknown d)) ds) acc o h = styles_loop ds acc o h.
Proof.
  induction ds as [|d ds IH]; intros acc o h; [reflexivity|].
  cbn [filter]. unfold is_unknown at 1. destruct (d_data d) eqn:E; cbn [negb];
    cbn [styles_loop]; rewrite E; apply IH.
Qed.
Lemma rules_of_clean : forall ss, rules_of (map clean_rs ss) = rules_of ss.
Proof.
  induction ss as [|r ss IH]; [reflexivity|].
  unfold rules_of in *. cbn [map flat_map]. rewrite IH. f_equal.
  unfold clean_rs, styles_from_properties. cbn [crs_decls crs_selectors].
  rewrite styles_loop_clean. reflexivity.
Qed.

(* the rule sets the sheet MEANS: as written, minus the unknown declarations *)
Definition vsheet_meaning (ss : list vstmt) : list cssruleset := map clean_rs (vsheet_raw ss).

Theorem variant_rules : forall lead ss, wsm lead -> vsheet_ok ss ->
  parse_css_rules (lead ++ print_vsheet ss) = CssOk (rules_of (vsheet_meaning ss)).
Proof.
  intros lead ss Hlead Hok. destruct (variant_sheet_rt lead ss Hlead Hok) as (rest & _ & H).
  rewrite (parse_css_rules_of _ _ _ H). unfold vsheet_meaning. rewrite rules_of_clean. reflexivity.
Qed.

(* C17, second sentence: two texts that are variants of the same sheet give the same rules,
   hence style every document identically *)
Theorem variants_agree : forall lead1 ss1 lead2 ss2,
  wsm lead1 -> vsheet_ok ss1 -> wsm lead2 -> vsheet_ok ss2 ->
  vsheet_meaning ss1 = vsheet_meaning ss2 ->
  parse_css_rules (lead1 ++ print_vsheet ss1) = parse_css_rules (lead2 ++ print_vsheet ss2).
Proof.
  intros lead1 ss1 lead2 ss2 H1 Hok1 H2 Hok2 E.
  rewrite (variant_rules lead1 ss1 H1 Hok1), (variant_rules lead2 ss2 H2 Hok2), E. reflexivity.
Qed.

(* ... and the same rules as the canonical text of CssRoundTrip.print_ruleset, when the sheet is in
   the fragment that printer covers (colours as #rrggbb, display) *)
Theorem insignificant_variants : forall lead ss, wsm lead -> vsheet_ok ss ->
  forallb ruleset_ok (vsheet_meaning ss) = true ->
  parse_css_rules (lead ++ print_vsheet ss) =
  parse_css_rules (concat (map print_ruleset (vsheet_meaning ss))).
Proof.
  intros lead ss Hlead Hok Hcanon. rewrite (variant_rules lead ss Hlead Hok).
  rewrite (parse_css_rules_of _ _ _ (parse_stylesheet_rt _ Hcanon)). reflexivity.
Qed.

Print Assumptions parse_vrule.
Print Assumptions junk_at_rule.
Print Assumptions junk_unparsable.
Print Assumptions fails_pseudo_class.
Print Assumptions fails_after_elem.
Print Assumptions variant_sheet_rt.
Print Assumptions variant_rules.
Print Assumptions variants_agree.
Print Assumptions insignificant_variants.

(* ------------------------------------------------------------------ *)
(* 11. the variant classes one by one *)

(* ---- (1) letter case.  Every identifier goes through parse_ident / parse_identstring, which
   lowercase A-Z: property names, hex digits (`#FF0000`), value keywords (`NONE`, `RED`), units,
   function names and `!IMPORTANT`.  [item_decl] is computed from the lowercased spellings, so
   it does not depend on the letter case (by definition: [atom_tok], [item_decl] use lowerN).
   Made explicit for the declarations of the canonical printer: a declaration [d] written with
   ANY spelling whose lowercase form is the canonical one means [d]. ---- *)
Lemma mstart_lower : forall x, mstart (lowerN x) = mstart x.
Proof. intros x. unfold lowerN. destruct (is_upper x) eqn:E; [|reflexivity]. cls2. Qed.
Lemma mnm_lower : forall x, mnm (lowerN x) = mnm x.
Proof. intros x. unfold lowerN. destruct (is_upper x) eqn:E; [|reflexivity]. cls2. Qed.
Lemma dash_lower : forall x, (lowerN x =? 45) = (x =? 45).
Proof. intros x. unfold lowerN. destruct (is_upper x) eqn:E; [|reflexivity]. cls2. Qed.
Lemma forallb_mnm_lower : forall l, forallb mnm (map lowerN l) = forallb mnm l.
Proof. induction l as [|x l IH]; [reflexivity|]. cbn [map forallb]. rewrite IH, mnm_lower. reflexivity. Qed.
Lemma word_okb_lower : forall n, word_okb (map lowerN n) = word_okb n.
Proof. intros [|x r]; [reflexivity|]. cbn [map word_okb]. rewrite mstart_lower, forallb_mnm_lower. reflexivity. Qed.
Lemma name_okb_lower : forall n, name_okb (map lowerN n) = name_okb n.
Proof.
  intros [|x r]; [reflexivity|]. cbn [map name_okb]. rewrite dash_lower.
  change (lowerN x :: map lowerN r) with (map lowerN (x :: r)). rewrite !word_okb_lower. reflexivity.
Qed.

Record spelling := mkspelling {
  sp_name : list N;    (* the property name as written, e.g. `Background-COLOR` *)
  sp_w1 : text;        (* before `:` *)
  sp_w2 : text;        (* after `:` *)
  sp_val : list N;     (* the hex digits or the keyword as written, e.g. `Ff0000`, `NoNe` *)
  sp_w3 : text;        (* before `!` *)
  sp_imp : list N      (* `important` as written *)
}.
Definition val_cps (d : decl) : list N :=
  match d with
  | DColor r g b | DBackgroundColor r g b => hex2 r ++ hex2 g ++ hex2 b
  | DDisplay true => s_none
  | _ => s_block
  end.
Definition val_atom (d : decl) (v : list N) : atom :=
  match d with DColor _ _ _ | DBackgroundColor _ _ _ => AHash v | _ => AIdent v end.
Definition real_item (d : declaration) (s : spelling) : ditem :=
  mkditem (sp_name s) (sp_w1 s)
    ((sp_w2 s, val_atom (d_data d) (sp_val s)) ::
     (if d_important d then [(sp_w3 s, APunct 33); ([], AIdent (sp_imp s))] else [])).
Definition spelling_ok (d : declaration) (s : spelling) : Prop :=
  map lowerN (sp_name s) = prop_name (d_data d) /\
  map lowerN (sp_val s) = val_cps (d_data d) /\
  (d_important d = true -> map lowerN (sp_imp s) = s_important) /\
  wsm (sp_w1 s) /\ wsm (sp_w2 s) /\ wsm (sp_w3 s).

Lemma hex_mnm : forall r g b, r < 256 -> g < 256 -> b < 256 ->
  forallb mnm (hex2 r ++ hex2 g ++ hex2 b) = true.
Proof.
  intros r g b Hr Hg Hb. unfold hex2. cbn [app forallb].
  pose proof (N.mod_upper_bound r 16 ltac:(lia)). pose proof (N.mod_upper_bound g 16 ltac:(lia)).
  pose proof (N.mod_upper_bound b 16 ltac:(lia)).
  assert (r / 16 < 16) by (apply N.div_lt_upper_bound; lia).
  assert (g / 16 < 16) by (apply N.div_lt_upper_bound; lia).
  assert (b / 16 < 16) by (apply N.div_lt_upper_bound; lia).
  assert (Hm : forall d, d < 16 -> mnm (hexc d) = true).
  { intros d Hd. destruct (hexc_facts d Hd) as (_ & _ & Hl & _). cls2. }
  rewrite !Hm by assumption. reflexivity.
Qed.

Theorem real_item_decl : forall d s, decl_ok d = true -> spelling_ok d s ->
  item_decl (real_item d s) = d.
Proof.
  intros [data i] s Hd (Hn & Hv & Hi & _). cbn [d_data d_important] in *.
  unfold item_decl, real_item; cbn [di_name di_val d_data d_important]. rewrite Hn.
  assert (Et : toks_of ((sp_w2 s, val_atom data (sp_val s)) ::
                        (if i then [(sp_w3 s, APunct 33); ([], AIdent (sp_imp s))] else []))
               = val_toks data ++ imp_toks i).
  { unfold decl_ok in Hd; cbn [d_data] in Hd.
    destruct data as [r g b|r g b| | | | |[|]| | |]; try discriminate;
      destruct i; cbn [toks_of map snd val_atom atom_tok val_toks imp_toks app];
      rewrite Hv; try rewrite (Hi eq_refl); reflexivity. }
  rewrite Et.
  assert (Es : strip_important (val_toks data ++ imp_toks i) = (val_toks data, i)).
  { unfold decl_ok in Hd; cbn [d_data] in Hd.
    destruct data as [r g b|r g b| | | | |[|]| | |]; try discriminate; destruct i; reflexivity. }
  rewrite Es. cbn [fst snd]. rewrite (decl_of_ok data i Hd). reflexivity.
Qed.

Theorem real_item_ok : forall d s, decl_ok d = true -> spelling_ok d s -> ditem_ok (real_item d s).
Proof.
  intros [data i] s Hd (Hn & Hv & Hi & Hw1 & Hw2 & Hw3). cbn [d_data d_important] in *.
  unfold ditem_ok, real_item; cbn [di_name di_w1 di_val d_important d_data].
  assert (Hval : atom_okb (val_atom data (sp_val s)) = true).
  { unfold decl_ok in Hd; cbn [d_data] in Hd.
    destruct data as [r g b|r g b| | | | |[|]| | |]; try discriminate; cbn [val_atom atom_okb val_cps] in *.
    - assert (Hf : forallb mnm (sp_val s) = true) by (rewrite <- forallb_mnm_lower, Hv; apply hex_mnm; lia).
      destruct (sp_val s); [unfold hex2 in Hv; cbn [map app] in Hv; discriminate Hv|exact Hf].
    - assert (Hf : forallb mnm (sp_val s) = true) by (rewrite <- forallb_mnm_lower, Hv; apply hex_mnm; lia).
      destruct (sp_val s); [unfold hex2 in Hv; cbn [map app] in Hv; discriminate Hv|exact Hf].
    - rewrite <- word_okb_lower, Hv. reflexivity.
    - rewrite <- word_okb_lower, Hv. reflexivity. }
  split; [|split; [exact Hw1|split; [discriminate|]]].
  - rewrite <- name_okb_lower, Hn. destruct data; reflexivity.
  - destruct i.
    + assert (Himp : word_okb (sp_imp s) = true) by (rewrite <- word_okb_lower, (Hi eq_refl); reflexivity).
      split; [|split; [|split]].
      * repeat (apply Forall_cons; [cbn [fst snd atom_okb]; split; auto using wsm_nil|]). apply Forall_nil.
      * cbn [forallb snd vatom]. destruct (val_atom data (sp_val s)) eqn:E; try reflexivity.
        destruct data; discriminate.
      * destruct (val_atom data (sp_val s)) eqn:E; try reflexivity; destruct data; discriminate.
      * cbn [achain afc followsb]. destruct (val_atom data (sp_val s)) eqn:E; try reflexivity;
          destruct (isnil (sp_w3 s)); try reflexivity; destruct data; discriminate.
    + split; [|split; [|split]].
      * apply Forall_cons; [cbn [fst snd]; split; assumption|apply Forall_nil].
      * cbn [forallb snd vatom]. destruct (val_atom data (sp_val s)) eqn:E; try reflexivity.
        destruct data; discriminate.
      * destruct (val_atom data (sp_val s)) eqn:E; try reflexivity; destruct data; discriminate.
      * reflexivity.
Qed.

(* ---- (2) semicolons: [entry] / [vblock] (section 6): the last declaration followed by no, one
   or several `;`; several `;` between declarations; `;`s before the first declaration; a block
   of `;`s only. ---- *)

(* ---- (3) unknown properties: a declaration whose lowercased name is none of the ten names the
   model knows is DUnknown whatever its value, and [clean_rs] / styles_from_properties drop it ---- *)
Definition known_names : list (list N) :=
  [p_background_color; p_background; p_color; p_height; p_max_height; p_overflow; p_overflow_y;
   p_display; p_white_space; p_content].
Definition known_name (l : list N) : bool := existsb (lN_eqb l) known_names.
Theorem unknown_item : forall i, known_name (map lowerN (di_name i)) = false ->
  is_unknown (item_decl i) = true.
Proof.
  intros i H. unfold item_decl, is_unknown; cbn [d_data]. unfold decl_of, is_ascii_str.
  rewrite cps_of_ascii. unfold known_name, known_names in H. cbn [existsb] in H.
  repeat (apply orb_false_elim in H; destruct H as [E H]; rewrite E; clear E). reflexivity.
Qed.

Print Assumptions real_item_decl.
Print Assumptions real_item_ok.
Print Assumptions unknown_item.

(* ------------------------------------------------------------------ *)
(* 12. non-vacuity: one sheet with all four classes at once *)
From Coq Require String Ascii.
Import String.StringSyntax.
Delimit Scope string_scope with string.
Definition s2l (s : String.string) : list N :=
  map (fun a => N.of_nat (Ascii.nat_of_ascii a)) (String.list_ascii_of_string s).
Arguments s2l s%string.
Definition css (s : String.string) : text := of_ascii (s2l s).
Arguments css s%string.

Ltac wsm_tac :=
  repeat first [apply wsm_nil | apply wsm_ws; [reflexivity|] | apply cmt_wsm].
Ltac atoms_tac :=
  repeat (apply Forall_cons; [cbn [fst snd]; split; [wsm_tac|vm_compute; reflexivity]|]); apply Forall_nil.
Ltac ditem_tac :=
  unfold ditem_ok; cbn [di_name di_w1 di_val];
  split; [vm_compute; reflexivity|split; [wsm_tac|split; [discriminate|split; [atoms_tac|
    split; [vm_compute; reflexivity|split; vm_compute; reflexivity]]]]].

Definition nl : text := of_ascii [10].
(* @import "x;y" screen; *)
Definition ex_j1 : text :=
  print_at (s2l "import") [(sp1, AStr (s2l "x;y")); (sp1, AIdent (s2l "screen")); ([], APunct 59)].
(* a:hover { color: blue } *)
Definition ex_j2_atoms : atoms :=
  [([], AIdent (s2l "a")); ([], APunct 58); ([], AIdent (s2l "hover")); (sp1, APunct 123);
   (sp1, AIdent (s2l "color")); ([], APunct 58); (sp1, AIdent (s2l "blue")); (sp1, APunct 125)].
(* @MEDIA (min-width:100px) and (x) { p { color: red; } [a] } *)
Definition ex_j3 : text :=
  print_at (s2l "MEDIA")
    [(sp1, APunct 40); ([], AIdent (s2l "min-width")); ([], APunct 58); ([], ADim (s2l "100") (s2l "px"));
     ([], APunct 41); (sp1, AIdent (s2l "and")); (sp1, APunct 40); ([], AIdent (s2l "x")); ([], APunct 41);
     (sp1, APunct 123); (sp1, AIdent (s2l "p")); (sp1, APunct 123); (sp1, AIdent (s2l "color"));
     ([], APunct 58); (sp1, AIdent (s2l "red")); ([], APunct 59); (sp1, APunct 125);
     (sp1, APunct 91); ([], AIdent (s2l "a")); ([], APunct 93); (sp1, APunct 125)].
(* p[x=y]{color:red} *)
Definition ex_j4_atoms : atoms :=
  [([], AIdent (s2l "p")); ([], APunct 91); ([], AIdent (s2l "x")); ([], APunct 61); ([], AIdent (s2l "y"));
   ([], APunct 93); ([], APunct 123); ([], AIdent (s2l "color")); ([], APunct 58); ([], AIdent (s2l "red"));
   ([], APunct 125)].

Example ex_j1_ok : junk_ok ex_j1.
Proof. apply junk_at_rule; [reflexivity|atoms_tac|reflexivity|reflexivity|reflexivity]. Qed.
Example ex_j3_ok : junk_ok ex_j3.
Proof. apply junk_at_rule; [reflexivity|atoms_tac|reflexivity|reflexivity|reflexivity]. Qed.
Example ex_j2_ok : junk_ok (print_atoms ex_j2_atoms).
Proof.
  assert (Hok : atoms_ok ex_j2_atoms) by (unfold ex_j2_atoms; atoms_tac).
  apply junk_unparsable; [exact Hok|reflexivity|reflexivity|].
  apply fails_pseudo_class; [discriminate|exact Hok|reflexivity|reflexivity].
Qed.
Example ex_j4_ok : junk_ok (print_atoms ex_j4_atoms).
Proof.
  assert (Hok : atoms_ok ex_j4_atoms) by (unfold ex_j4_atoms; atoms_tac).
  apply junk_unparsable; [exact Hok|reflexivity|reflexivity|].
  apply fails_after_elem; [exact Hok|reflexivity|reflexivity|reflexivity].
Qed.
(* what junk_ok says, on the texts themselves *)
Example ex_junk_texts :
  ex_j1 = css "@import ""x;y"" screen;" /\
  print_atoms ex_j2_atoms = css "a:hover { color: blue }" /\
  ex_j3 = css "@MEDIA (min-width:100px) and (x) { p { color: red; } [a] }" /\
  print_atoms ex_j4_atoms = css "p[x=y]{color:red}".
Proof. repeat split; vm_compute; reflexivity. Qed.

(* COLOR : #Ff0000 !IMPORTANT *)
Definition ex_d1 : declaration := mkdecl (DColor 255 0 0) true.
Definition ex_i1 : ditem :=
  real_item ex_d1 (mkspelling (s2l "COLOR") sp1 sp1 (s2l "Ff0000") sp1 (s2l "IMPORTANT")).
(* -webkit-Foo:bar(1; 2px) "s;}" 50% #Ab     (a `;` inside the parentheses, one inside the string) *)
Definition ex_i2 : ditem :=
  mkditem (s2l "-webkit-Foo") []
    [([], AFun (s2l "bar")); ([], ANum (s2l "1")); ([], APunct 59); (sp1, ADim (s2l "2") (s2l "px"));
     ([], APunct 41); (sp1, AStr (s2l "s;}")); (sp1, APct (s2l "50")); (sp1, AHash (s2l "Ab"))].
(* Display:NONE *)
Definition ex_d3 : declaration := mkdecl (DDisplay true) false.
Definition ex_i3 : ditem :=
  real_item ex_d3 (mkspelling (s2l "Display") [] [] (s2l "NONE") [] []).
(* Background-Color: #00FF00  -- and, in a second rule, the same colour written  LIME *)
Definition ex_d4 : declaration := mkdecl (DBackgroundColor 0 255 0) false.
Definition ex_i4 : ditem :=
  real_item ex_d4 (mkspelling (s2l "Background-Color") [] sp1 (s2l "00FF00") [] []).
Definition ex_i4b : ditem := mkditem (s2l "background-color") [] [([], AIdent (s2l "LIME"))].
(* margin: 0 *)
Definition ex_i5 : ditem := mkditem (s2l "margin") [] [(sp1, ANum (s2l "0"))].

Example ex_spellings_ok :
  spelling_ok ex_d1 (mkspelling (s2l "COLOR") sp1 sp1 (s2l "Ff0000") sp1 (s2l "IMPORTANT")) /\
  spelling_ok ex_d3 (mkspelling (s2l "Display") [] [] (s2l "NONE") [] []) /\
  spelling_ok ex_d4 (mkspelling (s2l "Background-Color") [] sp1 (s2l "00FF00") [] []).
Proof. repeat split; try (vm_compute; reflexivity); try discriminate; wsm_tac. Qed.
Example ex_items_ok : ditem_ok ex_i1 /\ ditem_ok ex_i2 /\ ditem_ok ex_i3 /\ ditem_ok ex_i4 /\
                      ditem_ok ex_i4b /\ ditem_ok ex_i5.
Proof.
  destruct ex_spellings_ok as (H1 & H3 & H4).
  split; [apply real_item_ok; [reflexivity|exact H1]|].
  split; [unfold ex_i2; ditem_tac|].
  split; [apply real_item_ok; [reflexivity|exact H3]|].
  split; [apply real_item_ok; [reflexivity|exact H4]|].
  split; [unfold ex_i4b; ditem_tac|unfold ex_i5; ditem_tac].
Qed.
Example ex_items_decl :
  item_decl ex_i1 = ex_d1 /\ is_unknown (item_decl ex_i2) = true /\ item_decl ex_i3 = ex_d3 /\
  item_decl ex_i4 = ex_d4 /\ item_decl ex_i4b = ex_d4 /\ is_unknown (item_decl ex_i5) = true.
Proof.
  destruct ex_spellings_ok as (H1 & H3 & H4).
  split; [apply real_item_decl; [reflexivity|exact H1]|].
  split; [apply unknown_item; reflexivity|].
  split; [apply real_item_decl; [reflexivity|exact H3]|].
  split; [apply real_item_decl; [reflexivity|exact H4]|].
  split; [vm_compute; reflexivity|apply unknown_item; reflexivity].
Qed.

(* rule 1: `sel , sel { COLOR : #Ff0000 !IMPORTANT ; ; -webkit-Foo:...;Display:NONE;; }`
   rule 2: `b{;/* c */; }`   (only semicolons)
   rule 3: `u { margin: 0;Background-Color: #00FF00 }`   (no final semicolon)
   rule 4: `u{;background-color:LIME;}`   (an empty declaration before the first one) *)
Definition sel_of (s : String.string) : selector := mksel [CElement (css s)] None.
Arguments sel_of s%string.
Definition ex_v1 : vrule :=
  mkvrule ex_wsp2b [ex_sel1; ex_sel2]
    (mkvblock sp1 []
       [mkentry ex_i1 sp1 [sp1; sp1]; mkentry ex_i2 [] [[]]; mkentry ex_i3 [] [[]; sp1]]).
Definition ex_v2 : vrule :=
  mkvrule (lift_wsp (mkwsp [] [] [] [] [] [] [] [] [] [])) [sel_of "b"] (mkvblock [] [cmt; sp1] []).
Definition ex_v3 : vrule :=
  mkvrule ex_wsp2 [sel_of "u"]
    (mkvblock sp1 [] [mkentry ex_i5 [] [[]]; mkentry ex_i4 sp1 []]).
Definition ex_v4 : vrule :=
  mkvrule (lift_wsp (mkwsp [] [] [] [] [] [] [] [] [] [])) [sel_of "u"]
    (mkvblock [] [[]] [mkentry ex_i4b [] [[]]]).
Definition ex_vsheet : list vstmt :=
  [VJunk ex_j1 nl; VRule ex_v1; VJunk (print_atoms ex_j2_atoms) []; VJunk ex_j3 (cmt ++ nl);
   VRule ex_v2; VRule ex_v3; VJunk (print_atoms ex_j4_atoms) sp1; VRule ex_v4].

Lemma wsp0_ok : wsp2_ok (lift_wsp (mkwsp [] [] [] [] [] [] [] [] [] [])).
Proof. apply lift_wsp_ok. repeat split; apply wsm_nil. Qed.

Example ex_vsheet_ok : vsheet_ok ex_vsheet.
Proof.
  destruct ex_items_ok as (H1 & H2 & H3 & H4 & H4b & H5).
  assert (Hc : wsm cmt) by (rewrite <- (app_nil_r cmt); apply cmt_wsm, wsm_nil).
  unfold vsheet_ok, ex_vsheet.
  repeat (apply Forall_cons; [|]); try apply Forall_nil; cbn [vstmt_ok].
  - split; [apply ex_j1_ok|unfold nl; wsm_tac].
  - unfold vrule_ok, ex_v1; cbn [v_ws v_sels v_block].
    split; [apply ex_wsp2b_ok|split; [discriminate|split; [reflexivity|]]].
    unfold block_ok; cbn [b_open b_lead b_entries seps_ok e_semis].
    split; [unfold sp1; wsm_tac|split; [apply Forall_nil|split]].
    + repeat (apply Forall_cons; [unfold entry_ok; cbn [e_item e_pre e_semis];
                                  split; [assumption|split; [unfold sp1; wsm_tac|
                                    repeat (apply Forall_cons; [unfold sp1; wsm_tac|]); apply Forall_nil]]|]).
      apply Forall_nil.
    + repeat split; discriminate.
  - split; [apply ex_j2_ok|apply wsm_nil].
  - split; [apply ex_j3_ok|apply wsm_app; [exact Hc|unfold nl; wsm_tac]].
  - unfold vrule_ok, ex_v2; cbn [v_ws v_sels v_block].
    split; [apply wsp0_ok|split; [discriminate|split; [reflexivity|]]].
    unfold block_ok; cbn [b_open b_lead b_entries seps_ok].
    split; [apply wsm_nil|split; [|split; [apply Forall_nil|exact I]]].
    repeat (apply Forall_cons; [first [exact Hc|unfold sp1; wsm_tac]|]). apply Forall_nil.
  - unfold vrule_ok, ex_v3; cbn [v_ws v_sels v_block].
    split; [apply ex_wsp2_ok|split; [discriminate|split; [reflexivity|]]].
    unfold block_ok; cbn [b_open b_lead b_entries seps_ok e_semis].
    split; [unfold sp1; wsm_tac|split; [apply Forall_nil|split]].
    + repeat (apply Forall_cons; [unfold entry_ok; cbn [e_item e_pre e_semis];
                                  split; [assumption|split; [unfold sp1; wsm_tac|
                                    repeat (apply Forall_cons; [unfold sp1; wsm_tac|]); apply Forall_nil]]|]).
      apply Forall_nil.
    + split; [discriminate|exact I].
  - split; [apply ex_j4_ok|unfold sp1; wsm_tac].
  - unfold vrule_ok, ex_v4; cbn [v_ws v_sels v_block].
    split; [apply wsp0_ok|split; [discriminate|split; [reflexivity|]]].
    unfold block_ok; cbn [b_open b_lead b_entries seps_ok e_semis].
    split; [apply wsm_nil|split; [apply Forall_cons; [apply wsm_nil|apply Forall_nil]|split; [|exact I]]].
    apply Forall_cons; [|apply Forall_nil]. unfold entry_ok; cbn [e_item e_pre e_semis].
    split; [assumption|split; [apply wsm_nil|apply Forall_cons; [apply wsm_nil|apply Forall_nil]]].
Qed.

(* the text of the variant sheet *)
Example ex_vsheet_text : print_vsheet ex_vsheet =
  css "@import ""x;y"" screen;" ++ nl ++
  css "div > p.c #id :nth-child(2n + 1) , *.x-1::before { COLOR : #Ff0000 !IMPORTANT ; ; -webkit-Foo:bar(1; 2px) ""s;}"" 50% #Ab;Display:NONE;; }" ++ nl ++
  css "a:hover { color: blue }@MEDIA (min-width:100px) and (x) { p { color: red; } [a] }/* c */" ++ nl ++
  css "b{;/* c */; }u/* c */{ margin: 0;Background-Color: #00FF00 }" ++ of_ascii [13; 10] ++
  css "p[x=y]{color:red} u{;background-color:LIME;}".
Proof. vm_compute. reflexivity. Qed.

(* what it means: the canonical sheet  (junk statements, unknown declarations, letter case, extra
   semicolons gone) *)
Definition ex_canon : list cssruleset :=
  [mkcrs [ex_sel1; ex_sel2] [ex_d1; ex_d3]; mkcrs [sel_of "b"] []; mkcrs [sel_of "u"] [ex_d4];
   mkcrs [sel_of "u"] [ex_d4]].
Example ex_meaning : vsheet_meaning ex_vsheet = ex_canon.
Proof. vm_compute. reflexivity. Qed.
Example ex_canon_text : concat (map print_ruleset ex_canon) =
  css "div > p.c #id :nth-child(2n+1), *.x-1::before { color: #ff0000 !important; display: none }" ++ nl ++
  css "b {  }" ++ nl ++
  css "u { background-color: #00ff00 }" ++ nl ++
  css "u { background-color: #00ff00 }" ++ nl.
Proof. vm_compute. reflexivity. Qed.

(* by the theorem ... *)
Example ex_variants_same :
  parse_css_rules (print_vsheet ex_vsheet) = parse_css_rules (concat (map print_ruleset ex_canon)).
Proof.
  rewrite <- ex_meaning.
  apply (insignificant_variants [] ex_vsheet wsm_nil ex_vsheet_ok). rewrite ex_meaning. reflexivity.
Qed.
(* ... and by computation (a check of the statement itself): the parser returns the raw rule sets,
   only whitespace is left, and the rules are those of the canonical text *)
Example ex_variants_computed :
  parse_stylesheet (print_vsheet ex_vsheet) = POk (vsheet_raw ex_vsheet) [] /\
  parse_css_rules (print_vsheet ex_vsheet) = parse_css_rules (concat (map print_ruleset ex_canon)) /\
  exists r1 r2 r3 r4, parse_css_rules (print_vsheet ex_vsheet) = CssOk [r1; r2; r3; r4].
Proof. split; [|split; [|do 4 eexists]]; vm_compute; reflexivity. Qed.

(* ------------------------------------------------------------------ *)
(* 13. FINDINGS and observations: variants the parser treats differently from the canonical text
   (each computed on the model; the model code of parse_rules / parse_ruleset / parse_value is a
   transcription of src/css/parser.rs) *)

(* (F-a, REPAIRED in CssParse.parse_rules) class (2), empty declarations: a `;` BEFORE THE FIRST
   declaration of a block used to discard the whole rule set (parse_rules returned no declaration at
   the leading `;`, the many0 (`;` ws) of parse_ruleset ate the `;`, then `}` was expected but the
   declaration was found).  parse_rules now skips empty declarations in front as well
   (many0 semi_item), so all four spellings give the same rule; [block_ok] no longer restricts
   [b_lead] to blocks without declarations (ex_v4 above has a leading `;`). *)
Example finding_leading_semicolon_repaired :
  exists r,
  parse_css_rules (css "a{color:red}") = CssOk [r] /\
  parse_css_rules (css "a{color:red;;}") = CssOk [r] /\
  parse_css_rules (css "a{;color:red}") = CssOk [r] /\
  parse_css_rules (css "a{ ; color:red}") = CssOk [r] /\
  parse_css_rules (css "a{;;/* c */; color:red;}") = CssOk [r].
Proof. eexists; repeat split; vm_compute; reflexivity. Qed.

(* (F-b, REPAIRED in CssParse.value_toks) class (3), unknown properties: parse_value used to stop
   at the first `;` whatever the bracket depth, so a value with a `;` inside `(..)` / `url(..)` /
   `[..]` ended early, the remainder was not a declaration, and the whole rule set was discarded
   (data URLs are the common case).  The value loop now counts the bracket depth and a `;` ends the
   value only at depth 0: all of these give the same rule.  [ditem_ok] allows such values
   ([vdepth]; ex_i2 above has `bar(1; 2px)`). *)
Example finding_semicolon_in_brackets_repaired :
  exists r,
  parse_css_rules (css "a{color:red}") = CssOk [r] /\
  parse_css_rules (css "a{x:();color:red}") = CssOk [r] /\
  parse_css_rules (css "a{x:"";"";color:red}") = CssOk [r] /\
  parse_css_rules (css "a{x:(;);color:red}") = CssOk [r] /\
  parse_css_rules (css "a{x:[;];color:red}") = CssOk [r] /\
  parse_css_rules (css "a{background-image:url(data:image/png;base64,AAAA);color:red}") = CssOk [r].
Proof. eexists; repeat split; vm_compute; reflexivity. Qed.
(* the other side of the repair: an opening bracket that is NOT closed now carries the value over
   the following `;`s up to the `}` of the block (before the repair the `;` ended it): the later
   declarations of the block become part of the unknown value.  This is why [vdepth] asks for depth
   0 at the end of a value.  The depth is one counter for all kinds of brackets, so a `]` closes a
   `(` (third line; CSS would keep `(];)` together).  A stray closer at depth 0 is harmless. *)
Example observation_unclosed_bracket :
  exists r,
  parse_css_rules (css "a{color:red}") = CssOk [r] /\
  parse_css_rules (css "a{x:(;color:red}") = CssOk [] /\
  parse_css_rules (css "a{x:(];color:red}") = CssOk [r] /\
  parse_css_rules (css "a{x:);color:red}") = CssOk [r] /\
  parse_css_rules (css "a{color:red;x:f(;display:none}") = CssOk [r] /\
  parse_css_rules (css "a{x:(];);color:red}") = CssOk [].
Proof. eexists; repeat split; vm_compute; reflexivity. Qed.
(* NOT repaired: `{..}` in a value: `{` is taken as a value token and the `}` closes the rule set
   early; what is left (`;color:red}`) ends in a stray `}`, at which many0 parse_statement stops:
   the REST OF THE SHEET is lost as well *)
Example finding_brace_in_value :
  parse_css_rules (css "a{x:{};color:red}") = CssOk [] /\
  parse_css_rules (css "a{x:{y};color:red} b{color:blue}") = CssOk [] /\
  exists r, parse_css_rules (css "a{x:y;color:red} b{color:blue}") = CssOk r /\ length r = 2%nat.
Proof. split; [|split; [|eexists; split]]; vm_compute; reflexivity. Qed.
(* this is why [vatom] still excludes `{`, `}` from declaration values *)

(* observations: keywords that CSS matches case-insensitively but the model matches
   case-SENSITIVELY (they do not go through parse_ident): the pseudo-elements `::before` / `::after`
   (starts_with), and `n`, `even`, `odd` inside :nth-child() (CssRoundTrip.finding_nth_upper).
   `:NTH-CHILD(` itself is accepted. *)
Example observation_pseudo_element_case :
  exists r,
  parse_css_rules (css "p::before{color:red}") = CssOk [r] /\
  parse_css_rules (css "p::BEFORE{color:red}") = CssOk [] /\
  parse_css_rules (css "p:NTH-CHILD(2n+1){color:red}") <> CssOk [] /\
  parse_css_rules (css "p:nth-child(EVEN){color:red}") = CssOk [].
Proof. eexists; repeat split; vm_compute; try reflexivity; discriminate. Qed.
(* FORMER observation_class_lowercased (`.Foo` was stored as class `foo`, so
   parse_css_rules ".Foo{..}" = parse_css_rules ".foo{..}"), REPAIRED in CssParse (parse_class ->
   parse_ident_cased, parse_hash -> parse_identstring_cased): class names and ids are
   case-sensitive in CSS and are now stored as written.  Element selectors are still lowercased. *)
Example repaired_class_case_kept :
  parse_css_rules (css ".Foo{color:red}") <> parse_css_rules (css ".foo{color:red}") /\
  parse_css_rules (css ".Foo{color:red}") =
    CssOk [mkrs (mksel [CClass (css "Foo")] None) [mksd (SColour 255 0 0) false]] /\
  parse_css_rules (css "#Foo{color:red}") =
    CssOk [mkrs (mksel [CHash (css "Foo")] None) [mksd (SColour 255 0 0) false]].
Proof. repeat split; vm_compute; try reflexivity; discriminate. Qed.
Example observation_element_lowercased :
  parse_css_rules (css "P{color:red}") = parse_css_rules (css "p{color:red}").
Proof. vm_compute; reflexivity. Qed.
(* observation: malformed declarations (no `:`), which CSS error recovery skips up to the next `;`,
   discard the whole rule set; they are not "unknown properties" and not in the variant classes *)
Example observation_malformed_declaration :
  parse_css_rules (css "a{x;color:red}") = CssOk [] /\ parse_css_rules (css "a{color:red;x}") = CssOk [].
Proof. split; vm_compute; reflexivity. Qed.
(* no finding: values that look unusual are skipped as the theorem says *)
Example unusual_values_ok :
  exists r,
  parse_css_rules (css "a{color:red}") = CssOk [r] /\
  parse_css_rules (css "a{-webkit-x:-webkit-box;color:red}") = CssOk [r] /\
  parse_css_rules (css "a{x:1.5em 0 auto;color:red}") = CssOk [r] /\
  parse_css_rules (css "a{x:a/b;color:red}") = CssOk [r] /\
  parse_css_rules (css "a{filter:progid:DXImageTransform.Microsoft.gradient(startColorstr=#80000000,endColorstr=#80000000);color:red}") = CssOk [r] /\
  parse_css_rules (css "a{x:1 !important;COLOR:RED}") = CssOk [r] /\
  parse_css_rules (css "a{color:12px;Color:#F00}") = CssOk [r] /\
  parse_css_rules (css "@font-face{font-family:""x"";src:url(a;b)}a{color:rgb(255,0,0)}") = CssOk [r] /\
  parse_css_rules (css "a[x=""}""]{color:blue}a{color:red}<!-- -->") = CssOk [r].
Proof. eexists; repeat split; vm_compute; reflexivity. Qed.
